/-
Recoding the treatment as `1 − A` in the TMLE targeting step (`ZV.Tmle`, Model/Tmle.lean).

The flipped row carries the same outcome and the nuisance values of the recoded fits: `g1 ↔ g0`, `Q1 ↔ Q0`
(`flipT`).  With the code's clever covariates `H1 = A/g1`, `H0 = −(1−A)/g0`:

    H1' = (1−A)/g0 = −H0,   H0' = −A/g1 = −H1,   QAW' = QAW,

so the linear predictor `ε₁H1 + ε₂H0 + logit QAW` of the original problem is the linear predictor
`ε₁'H1' + ε₂'H0' + logit QAW'` of the recoded one exactly when `(ε₁', ε₂') = (−ε₂, −ε₁)`.
Used by `Props/C08.lean`.
-/
import ZepidVerif.Model.Tmle
import ZepidVerif.Lemmas.Sum
import Mathlib.Tactic.FieldSimp
import Mathlib.Tactic.Ring
set_option linter.unusedSectionVars false
namespace ZV.Tmle
open ZV

variable {F : Type} [Field F] [LinearOrder F] [IsStrictOrderedRing F]

/-- recode the treatment of a TMLE row: `A ↦ 1 − A`, `g1 ↔ g0`, `Q1 ↔ Q0`; outcome and missingness unchanged -/
def flipT (r : TRow F) : TRow F := ⟨!r.a, r.obs, r.y, r.q0, r.q1, r.g0, r.g1⟩

theorem flipT_y (r : TRow F) : (flipT r).y = r.y := rfl
theorem flipT_obs (r : TRow F) : (flipT r).obs = r.obs := rfl

theorem ind_not (a : Bool) : (ind (!a) : F) = 1 - ind a := by cases a <;> simp [ind]

theorem h1_flip (r : TRow F) : h1 (flipT r) = - h0 r := by
  show ind (!r.a) / r.g0 = - (-(((1 : Nat) : F) - ind r.a) / r.g0)
  rw [ind_not, Nat.cast_one, neg_div, neg_neg]

theorem h0_flip (r : TRow F) : h0 (flipT r) = - h1 r := by
  show -(((1 : Nat) : F) - ind (!r.a)) / r.g1 = - (ind r.a / r.g1)
  rw [ind_not, Nat.cast_one, neg_div]; congr 2; ring

theorem haw_flip (r : TRow F) : haw (flipT r) = - haw r := by
  unfold haw; rw [h1_flip, h0_flip]; ring

theorem qa_flip (r : TRow F) : qa (flipT r) = qa r := by
  show r.q0 * ind (!r.a) + r.q1 * (((1 : Nat) : F) - ind (!r.a)) = r.q1 * ind r.a + r.q0 * (((1 : Nat) : F) - ind r.a)
  rw [ind_not, Nat.cast_one]; ring

/-- the fluctuation model's own prediction is unchanged when the coefficients are `(−ε₂, −ε₁)` -/
theorem qstarA_flip (σ lg : F → F) (e1 e2 : F) (r : TRow F) :
    qstarA σ lg (-e2) (-e1) (flipT r) = qstarA σ lg e1 e2 r := by
  unfold qstarA; rw [h1_flip, h0_flip, qa_flip]; congr 2; ring

/-- the targeted prediction under "all treated" of the recoded problem is the one under "none treated" of the
    original … -/
theorem qstar1_flip (σ lg : F → F) (e2 : F) (r : TRow F) : qstar1 σ lg (-e2) (flipT r) = qstar0 σ lg e2 r := by
  show σ (lg r.q0 + -e2 / r.g0) = σ (lg r.q0 - e2 / r.g0)
  rw [neg_div, sub_eq_add_neg]

/-- … and vice versa -/
theorem qstar0_flip (σ lg : F → F) (e1 : F) (r : TRow F) : qstar0 σ lg (-e1) (flipT r) = qstar1 σ lg e1 r := by
  show σ (lg r.q1 - -e1 / r.g1) = σ (lg r.q1 + e1 / r.g1)
  rw [neg_div, sub_neg_eq_add]

theorem obsRows_flip (l : List (TRow F)) : obsRows (l.map flipT) = (obsRows l).map flipT := by
  unfold obsRows; rw [List.filter_map]; congr 1

theorem scoreH1_flip (σ lg : F → F) (e1 e2 : F) (l : List (TRow F)) :
    scoreH1 σ lg (-e2) (-e1) (l.map flipT) = - scoreH0 σ lg e1 e2 l := by
  unfold scoreH1 scoreH0
  rw [obsRows_flip, sumBy_map, sumBy_congr (g := fun r => (-1 : F) * (h0 r * (r.y - qstarA σ lg e1 e2 r)))
    (fun r _ => by rw [h1_flip, qstarA_flip, flipT_y]; ring), sumBy_mul_left]
  ring

theorem scoreH0_flip (σ lg : F → F) (e1 e2 : F) (l : List (TRow F)) :
    scoreH0 σ lg (-e2) (-e1) (l.map flipT) = - scoreH1 σ lg e1 e2 l := by
  unfold scoreH1 scoreH0
  rw [obsRows_flip, sumBy_map, sumBy_congr (g := fun r => (-1 : F) * (h1 r * (r.y - qstarA σ lg e1 e2 r)))
    (fun r _ => by rw [h0_flip, qstarA_flip, flipT_y]; ring), sumBy_mul_left]
  ring

/-! ### `mean`, `var1`, `seIC` under a map of the rows and a change of sign -/

variable {α β : Type}

theorem mean_map (f : β → F) (g : α → β) (l : List α) : mean f (l.map g) = mean (fun x => f (g x)) l := by
  unfold mean; rw [sumBy_map, List.length_map]

theorem mean_congr' {f g : α → F} {l : List α} (h : ∀ x ∈ l, f x = g x) : mean f l = mean g l := by
  unfold mean; rw [sumBy_congr h]

theorem mean_neg (f : α → F) (l : List α) : mean (fun x => - f x) l = - mean f l := by
  unfold mean
  rw [sumBy_congr (g := fun x => (-1 : F) * f x) (fun x _ => by ring), sumBy_mul_left]; ring

theorem var1_map [Transc F] (f : β → F) (g : α → β) (l : List α) : var1 f (l.map g) = var1 (fun x => f (g x)) l := by
  unfold var1; simp only [mean_map, sumBy_map, List.length_map]

theorem var1_congr [Transc F] {f g : α → F} {l : List α} (h : ∀ x ∈ l, f x = g x) : var1 f l = var1 g l := by
  unfold var1
  simp only [mean_congr' h]
  congr 1
  apply sumBy_congr; intro x hx; rw [h x hx]

theorem var1_neg [Transc F] (f : α → F) (l : List α) : var1 (fun x => - f x) l = var1 f l := by
  unfold var1
  simp only [mean_neg]
  congr 1
  apply sumBy_congr; intro x _; ring

/-- an influence curve that changes sign row by row under a map of the rows has the same standard error -/
theorem seIC_flip [Transc F] (f f' : TRow F → F) (l : List (TRow F)) (h : ∀ r ∈ l, f' (flipT r) = - f r) :
    seIC f' (l.map flipT) = seIC f l := by
  unfold seIC
  rw [var1_map, List.length_map, var1_congr (g := fun r => - f r) h, var1_neg]

/-! ### the plug-ins -/

theorem targets_flip (σ lg : F → F) (e1 e2 : F) (l : List (TRow F)) :
    targets σ lg (-e2) (-e1) (l.map flipT) = (targets σ lg e1 e2 l).map fun p => ⟨p.s0, p.s1⟩ := by
  unfold targets
  rw [List.map_map, List.map_map]
  apply List.map_congr_left; intro r _
  simp only [Function.comp, qstar1_flip, qstar0_flip]

theorem risk1Of_swap (t : List (QS F)) : risk1Of (t.map fun p => ⟨p.s0, p.s1⟩) = risk0Of t := by
  unfold risk1Of risk0Of; rw [mean_map]

theorem risk0Of_swap (t : List (QS F)) : risk0Of (t.map fun p => ⟨p.s0, p.s1⟩) = risk1Of t := by
  unfold risk1Of risk0Of; rw [mean_map]

theorem rdOf_swap (t : List (QS F)) : rdOf (t.map fun p => ⟨p.s0, p.s1⟩) = - rdOf t := by
  unfold rdOf; rw [mean_map, ← mean_neg]; apply mean_congr'; intro p _; ring

theorem rrOf_swap (t : List (QS F)) : rrOf (t.map fun p => ⟨p.s0, p.s1⟩) = (rrOf t)⁻¹ := by
  unfold rrOf; rw [risk1Of_swap, risk0Of_swap, inv_div]

theorem orOf_swap (t : List (QS F)) : orOf (t.map fun p => ⟨p.s0, p.s1⟩) = (orOf t)⁻¹ := by
  unfold orOf; rw [risk1Of_swap, risk0Of_swap, inv_div]

theorem ateOf_swap (mini maxi : F) (t : List (QS F)) : ateOf mini maxi (t.map fun p => ⟨p.s0, p.s1⟩) = - ateOf mini maxi t := by
  unfold ateOf; rw [mean_map, ← mean_neg]; apply mean_congr'; intro p _; ring

/-! ### everything `TMLE.fit` reports -/

/-- binary outcome: the targeted predictions swap, RD is negated, RR and OR are inverted, the three
    influence-curve standard errors are unchanged -/
theorem fitBinary_flip [Transc F] (σ lg : F → F) (e1 e2 : F) (l : List (TRow F)) :
    let f := fitBinary σ lg e1 e2 l
    let f' := fitBinary σ lg (-e2) (-e1) (l.map flipT)
    f'.sA = f.sA ∧ f'.s1 = f.s0 ∧ f'.s0 = f.s1 ∧
    f'.rd = - f.rd ∧ f'.rdSe = f.rdSe ∧ f'.rr = f.rr⁻¹ ∧ f'.rrSe = f.rrSe ∧ f'.or_ = f.or_⁻¹ ∧ f'.orSe = f.orSe := by
  intro f f'
  have hm1 : risk1Of (targets σ lg (-e2) (-e1) (l.map flipT)) = risk0Of (targets σ lg e1 e2 l) := by
    rw [targets_flip, risk1Of_swap]
  have hm0 : risk0Of (targets σ lg (-e2) (-e1) (l.map flipT)) = risk1Of (targets σ lg e1 e2 l) := by
    rw [targets_flip, risk0Of_swap]
  have hrd : rdOf (targets σ lg (-e2) (-e1) (l.map flipT)) = - rdOf (targets σ lg e1 e2 l) := by
    rw [targets_flip, rdOf_swap]
  refine ⟨?_, ?_, ?_, hrd, ?_, ?_, ?_, ?_, ?_⟩
  · show (l.map flipT).map (qstarA σ lg (-e2) (-e1)) = l.map (qstarA σ lg e1 e2)
    rw [List.map_map]; apply List.map_congr_left; intro r _; exact qstarA_flip σ lg e1 e2 r
  · show (l.map flipT).map (qstar1 σ lg (-e2)) = l.map (qstar0 σ lg e2)
    rw [List.map_map]; apply List.map_congr_left; intro r _; exact qstar1_flip σ lg e2 r
  · show (l.map flipT).map (qstar0 σ lg (-e1)) = l.map (qstar1 σ lg e1)
    rw [List.map_map]; apply List.map_congr_left; intro r _; exact qstar0_flip σ lg e1 r
  · apply seIC_flip
    intro r _
    simp only [hrd, haw_flip, qstarA_flip, qstar1_flip, qstar0_flip, flipT_y, flipT_obs]
    show (if r.obs = true then _ else _) = _
    split <;> ring
  · show rrOf (targets σ lg (-e2) (-e1) (l.map flipT)) = (rrOf (targets σ lg e1 e2 l))⁻¹
    rw [targets_flip, rrOf_swap]
  · apply seIC_flip
    intro r _
    simp only [hm1, hm0, h1_flip, h0_flip, qstarA_flip, qstar1_flip, qstar0_flip, flipT_y, flipT_obs]
    show (if r.obs = true then _ else _) = _
    split <;> ring
  · show orOf (targets σ lg (-e2) (-e1) (l.map flipT)) = (orOf (targets σ lg e1 e2 l))⁻¹
    rw [targets_flip, orOf_swap]
  · apply seIC_flip
    intro r _
    simp only [hm1, hm0, h1_flip, h0_flip, qstarA_flip, qstar1_flip, qstar0_flip, flipT_y, flipT_obs]
    show (if r.obs = true then _ else _) = _
    split <;> ring

/-- continuous outcome (unit-interval scale inside, mapped back with `tmle_unit_unbound`): the ATE is negated and
    its influence-curve standard error is unchanged -/
theorem fitContinuous_flip [Transc F] (σ lg : F → F) (e1 e2 mini maxi : F) (l : List (TRow F)) :
    let f := fitContinuous σ lg e1 e2 mini maxi l
    let f' := fitContinuous σ lg (-e2) (-e1) mini maxi (l.map flipT)
    f'.sA = f.sA ∧ f'.s1 = f.s0 ∧ f'.s0 = f.s1 ∧ f'.rd = - f.rd ∧ f'.rdSe = f.rdSe := by
  intro f f'
  have hate : ateOf mini maxi (targets σ lg (-e2) (-e1) (l.map flipT)) = - ateOf mini maxi (targets σ lg e1 e2 l) := by
    rw [targets_flip, ateOf_swap]
  refine ⟨?_, ?_, ?_, hate, ?_⟩
  · show (l.map flipT).map (qstarA σ lg (-e2) (-e1)) = l.map (qstarA σ lg e1 e2)
    rw [List.map_map]; apply List.map_congr_left; intro r _; exact qstarA_flip σ lg e1 e2 r
  · show (l.map flipT).map (qstar1 σ lg (-e2)) = l.map (qstar0 σ lg e2)
    rw [List.map_map]; apply List.map_congr_left; intro r _; exact qstar1_flip σ lg e2 r
  · show (l.map flipT).map (qstar0 σ lg (-e1)) = l.map (qstar1 σ lg e1)
    rw [List.map_map]; apply List.map_congr_left; intro r _; exact qstar0_flip σ lg e1 r
  · apply seIC_flip
    intro r _
    simp only [hate, haw_flip, qstarA_flip, qstar1_flip, qstar0_flip, flipT_y, flipT_obs]
    show (if r.obs = true then _ else _) = _
    split <;> ring

end ZV.Tmle
