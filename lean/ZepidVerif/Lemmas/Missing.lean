/-
Helper lemmas for C10: sums over a filtered list, the row filter of `check_input_data` composed with a
user-side deletion of incomplete rows, and "only observed outcomes enter the outcome-model equations".
-/
import ZepidVerif.Model.Missing
import ZepidVerif.Lemmas.CellFit
namespace ZV.Std
open ZV
set_option linter.unusedSectionVars false
variable {F : Type} [Field F]

theorem sumBy_filter {α : Type} (q : α → Bool) (f : α → F) (l : List α) :
    sumBy f (l.filter q) = sumBy (fun x => if q x then f x else 0) l := by
  induction l with
  | nil => simp
  | cons x l ih => by_cases hq : q x = true <;> simp [hq, ih]

theorem sumIf_filter (p q : Row F → Bool) (f : Row F → F) (l : List (Row F)) :
    sumIf p f (l.filter q) = sumIf (fun r => p r && q r) f l := by
  rw [sumIf_def, sumIf_def, sumBy_filter]
  apply sumBy_congr; intro r _
  cases p r <;> cases q r <;> simp

/-- the observed-cell sums read observed rows only -/
theorem W_inCell_filter_obs (l : List (Row F)) (s : Nat) (a : Bool) :
    W (inCell s a) (l.filter (·.obs)) = W (inCell s a) l := by
  unfold W; rw [sumIf_filter]; apply sumIf_congr; intro r _
  cases h : r.obs <;> simp [inCell, h]

theorem WY_inCell_filter_obs (l : List (Row F)) (s : Nat) (a : Bool) :
    WY (inCell s a) (l.filter (·.obs)) = WY (inCell s a) l := by
  unfold WY; rw [sumIf_filter]; apply sumIf_congr; intro r _
  cases h : r.obs <;> simp [inCell, h]

/-- overwrite the outcome value stored on rows whose outcome is not observed -/
def scrambleUnobserved (f : Row F → F) (l : List (Row F)) : List (Row F) :=
  l.map fun r => if r.obs then r else { r with y := f r }

theorem sumIf_scramble (f : Row F → F) (p : Row F → Bool) (g : Row F → F) (l : List (Row F))
    (hp : ∀ r : Row F, r.obs = false → p { r with y := f r } = p r)
    (hg : ∀ r : Row F, r.obs = false → p r = true → g { r with y := f r } = g r) :
    sumIf p g (scrambleUnobserved f l) = sumIf p g l := by
  rw [sumIf_def, sumIf_def]; unfold scrambleUnobserved
  induction l with
  | nil => simp
  | cons x l ih =>
    simp only [List.map_cons, sumBy_cons, ih]
    congr 1
    rcases Bool.eq_false_or_eq_true x.obs with h | h
    · rw [if_pos h]
    · have hn : ¬ x.obs = true := by rw [h]; exact Bool.false_ne_true
      rw [if_neg hn, hp x h]
      by_cases hpx : p x = true
      · rw [if_pos hpx, if_pos hpx, hg x h hpx]
      · rw [if_neg hpx, if_neg hpx]
theorem W_inCell_scramble (f : Row F → F) (l : List (Row F)) (s : Nat) (a : Bool) :
    W (inCell s a) (scrambleUnobserved f l) = W (inCell s a) l := by
  unfold W; exact sumIf_scramble f _ _ l (fun r _ => rfl) (fun r _ _ => rfl)

theorem WY_inCell_scramble (f : Row F → F) (l : List (Row F)) (s : Nat) (a : Bool) :
    WY (inCell s a) (scrambleUnobserved f l) = WY (inCell s a) l := by
  unfold WY
  refine sumIf_scramble f _ _ l (fun r _ => rfl) (fun r ho hp => ?_)
  simp only [inCell, ho, Bool.and_false, Bool.false_eq_true] at hp

end ZV.Std

namespace ZV.Miss
open ZV ZV.Std
set_option linter.unusedSectionVars false
variable {F : Type} [Field F]

theorem kept_and_cov (dc : Bool) (r : Raw F) : (Raw.covComplete r && kept dc r) = kept dc r := by
  cases dc <;> simp only [kept, Raw.complete, Raw.covComplete] <;>
    cases r.a.isSome <;> cases r.l.isSome <;> cases r.y.isSome <;> simp

theorem checkInput_delete (dc : Bool) (rows : List (Raw F)) :
    checkInput dc (deleteIncomplete rows) = checkInput dc rows := by
  unfold checkInput deleteIncomplete
  rw [List.filter_filter]
  congr 1
  apply List.filter_congr
  intro r _
  rw [Bool.and_comm]; exact kept_and_cov dc r

theorem checkInput_true_completeCases (rows : List (Raw F)) :
    checkInput true (completeCases rows) = checkInput true rows ∧
    checkInput false (completeCases rows) = checkInput true rows := by
  unfold checkInput completeCases
  rw [List.filter_filter, List.filter_filter]
  constructor <;> congr 1 <;> apply List.filter_congr <;> intro r _ <;>
    simp only [kept, Raw.complete, Raw.covComplete] <;>
    cases r.a.isSome <;> cases r.l.isSome <;> cases r.y.isSome <;> simp

end ZV.Miss
