/-
Relabelling lemmas for the closed-form GEE sandwich of the saturated marginal structural model `Y ~ A`
(`ZV.Ci.armMean / armVar / msmRD / msmRR / msmOR`, Model/Ci.lean — what `IPTW.fit` reports, DESIGN §3.2):
row permutation, the exposure recoding `A ↦ 1 − A`, the change of units `Y ↦ cY + d`, and the link between the
rows the GEE receives and the rows / weights of the IPTW model of `Model/Std.lean`.  Used by `Props/C08.lean`.
-/
import ZepidVerif.Model.Ci
import ZepidVerif.Model.Relabel
import ZepidVerif.Lemmas.Sum
import Mathlib.Data.List.Perm.Basic
import Mathlib.Tactic.FieldSimp
import Mathlib.Tactic.Ring
set_option linter.unusedSectionVars false
namespace ZV.Ci
open ZV

variable {F : Type} [Field F] [LinearOrder F] [IsStrictOrderedRing F] [Transc F]

/-- recode the exposure of an MSM row as `1 − A` (the weight travels with the row) -/
def flipM (r : MRow F) : MRow F := ⟨!r.a, r.y, r.w⟩

/-- change of units of the outcome of an MSM row -/
def affM (c d : F) (r : MRow F) : MRow F := ⟨r.a, c * r.y + d, r.w⟩

/-- the rows `IPTW.fit` hands to the GEE: the rows with an observed outcome (`df.dropna()`), each with the weight
    `_ipfw_ = iptw · ipmw · frequency weight` (`ω r * r.w`) -/
def msmRows (l : List (Std.Row F)) (ω : Std.Row F → F) : List (MRow F) :=
  (l.filter (·.obs)).map fun r => ⟨r.a, r.y, ω r * r.w⟩

/-! ### row permutation -/

theorem arm_perm {l₁ l₂ : List (MRow F)} (h : l₁.Perm l₂) (a : Bool) : (arm l₁ a).Perm (arm l₂ a) := h.filter _

theorem armW_perm {l₁ l₂ : List (MRow F)} (h : l₁.Perm l₂) (a : Bool) : armW l₁ a = armW l₂ a := by
  unfold armW; exact sumBy_perm (arm_perm h a)

theorem armMean_perm {l₁ l₂ : List (MRow F)} (h : l₁.Perm l₂) (a : Bool) : armMean l₁ a = armMean l₂ a := by
  unfold armMean; rw [armW_perm h a, sumBy_perm (arm_perm h a)]

theorem armVar_perm {l₁ l₂ : List (MRow F)} (h : l₁.Perm l₂) (a : Bool) : armVar l₁ a = armVar l₂ a := by
  unfold armVar; rw [armW_perm h a, armMean_perm h a, sumBy_perm (arm_perm h a)]

/-! ### `A ↦ 1 − A` -/

theorem arm_flip (rows : List (MRow F)) (a : Bool) : arm (rows.map flipM) (!a) = (arm rows a).map flipM := by
  unfold arm
  rw [List.filter_map]
  congr 1
  apply List.filter_congr
  intro r _
  show ((!r.a) == !a) = (r.a == a)
  cases r.a <;> cases a <;> rfl

theorem armW_flip (rows : List (MRow F)) (a : Bool) : armW (rows.map flipM) (!a) = armW rows a := by
  unfold armW; rw [arm_flip, sumBy_map]; rfl

theorem armMean_flip (rows : List (MRow F)) (a : Bool) : armMean (rows.map flipM) (!a) = armMean rows a := by
  unfold armMean; rw [armW_flip, arm_flip, sumBy_map]; rfl

theorem armVar_flip (rows : List (MRow F)) (a : Bool) : armVar (rows.map flipM) (!a) = armVar rows a := by
  unfold armVar; rw [armW_flip, armMean_flip, arm_flip, sumBy_map]; rfl

/-! ### `Y ↦ cY + d` -/

theorem arm_aff (c d : F) (rows : List (MRow F)) (a : Bool) : arm (rows.map (affM c d)) a = (arm rows a).map (affM c d) := by
  unfold arm
  rw [List.filter_map]
  congr 1

theorem armW_aff (c d : F) (rows : List (MRow F)) (a : Bool) : armW (rows.map (affM c d)) a = armW rows a := by
  unfold armW; rw [arm_aff, sumBy_map]; rfl

theorem armMean_aff (c d : F) (rows : List (MRow F)) (a : Bool) (hw : armW rows a ≠ 0) :
    armMean (rows.map (affM c d)) a = c * armMean rows a + d := by
  unfold armMean
  rw [armW_aff, arm_aff, sumBy_map]
  show sumBy (fun r => r.w * (c * r.y + d)) (arm rows a) / armW rows a = _
  have : sumBy (fun r => r.w * (c * r.y + d)) (arm rows a)
      = c * sumBy (fun r => r.w * r.y) (arm rows a) + d * armW rows a := by
    unfold armW
    rw [← sumBy_mul_left, ← sumBy_mul_left, ← sumBy_add]
    apply sumBy_congr; intro r _; ring
  rw [this]; field_simp

theorem armVar_aff (c d : F) (rows : List (MRow F)) (a : Bool) (hw : armW rows a ≠ 0) :
    armVar (rows.map (affM c d)) a = c * c * armVar rows a := by
  unfold armVar
  rw [armW_aff, armMean_aff c d rows a hw, arm_aff, sumBy_map]
  show sumBy (fun r => (r.w * (c * r.y + d - (c * armMean rows a + d))) * (r.w * (c * r.y + d - (c * armMean rows a + d))))
    (arm rows a) / _ = _
  rw [sumBy_congr (g := fun r => (c * c) * ((r.w * (r.y - armMean rows a)) * (r.w * (r.y - armMean rows a))))
    (fun r _ => by ring), sumBy_mul_left]
  ring

/-! ### the GEE's rows from the IPTW model's rows -/

theorem arm_msmRows (l : List (Std.Row F)) (ω : Std.Row F → F) (a : Bool) :
    arm (msmRows l ω) a = (l.filter (fun r => r.a == a && r.obs)).map fun r => ⟨r.a, r.y, ω r * r.w⟩ := by
  unfold arm msmRows
  rw [List.filter_map, List.filter_filter]
  congr 1

/-- the weighted arm mean of the saturated MSM is the Hájek mean of `Model/Std.lean` (the quantity the C01 / C08
    theorems about IPTW are stated for) -/
theorem armMean_msmRows (l : List (Std.Row F)) (ω : Std.Row F → F) (a : Bool) :
    armMean (msmRows l ω) a = Std.hajek l ω a := by
  unfold armMean armW Std.hajek Std.sumIf
  rw [arm_msmRows, sumBy_map, sumBy_map, sumBy_filter, sumBy_filter]
  congr 1
  · apply sumBy_congr; intro r _; split <;> simp [mul_assoc]
  · apply sumBy_congr; intro r _; split <;> simp

/-- recoding the treatment of the IPTW rows, with row weights that correspond, recodes the GEE's rows -/
theorem msmRows_flip (l : List (Std.Row F)) (ω ω' : Std.Row F → F) (hω : ∀ r, ω' (Std.flipRow r) = ω r) :
    msmRows (l.map Std.flipRow) ω' = (msmRows l ω).map flipM := by
  unfold msmRows
  rw [List.filter_map, List.map_map, List.map_map]
  have : List.filter ((fun r : Std.Row F => r.obs) ∘ Std.flipRow) l = List.filter (fun r => r.obs) l := by
    apply List.filter_congr; intro r _; rfl
  rw [this]
  apply List.map_congr_left
  intro r _
  simp only [Function.comp, hω]
  rfl

/-- … and so does the change of units -/
theorem msmRows_aff (c d : F) (l : List (Std.Row F)) (ω ω' : Std.Row F → F) (hω : ∀ r, ω' (Std.affRow c d r) = ω r) :
    msmRows (l.map (Std.affRow c d)) ω' = (msmRows l ω).map (affM c d) := by
  unfold msmRows
  rw [List.filter_map, List.map_map, List.map_map]
  have : List.filter ((fun r : Std.Row F => r.obs) ∘ Std.affRow c d) l = List.filter (fun r => r.obs) l := by
    apply List.filter_congr; intro r _; rfl
  rw [this]
  apply List.map_congr_left
  intro r _
  simp only [Function.comp, hω]
  rfl

theorem msmRows_perm {l₁ l₂ : List (Std.Row F)} (h : l₁.Perm l₂) (ω : Std.Row F → F) :
    (msmRows l₁ ω).Perm (msmRows l₂ ω) := (h.filter _).map _

end ZV.Ci
