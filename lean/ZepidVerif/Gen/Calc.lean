/- GENERATED: translator failed: assignment target (events, total) -/
#exit_translator_failed
