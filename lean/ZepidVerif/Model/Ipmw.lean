/-
Model of `zepid.causal.ipw.IPMW` (inverse probability of missingness weights) for a single variable
and for monotone missing variables V₀, V₁, …, V_{k-1} (in the order the user lists them).

A row is its observation pattern (`obs[j]` = "V_j is not NaN").  The fitted conditional observation
probabilities are parameters: `d j i` / `n j i` = prediction, for row `i` of the *full* data, of the
denominator / numerator model of variable `j` (fitted by statsmodels among the rows observed on
V_{j-1}; all rows for j = 0); `none` = NaN (a predictor of that model is missing on the row).
The model mirrors the branch structure of `regression_models`: monotonicity check, overall-uniform
collapse to a single variable, and inside the chain the skipping of a variable that is uniformly
missing with its predecessor.  It also returns the *fitting plan*: which models are fitted, in which
order, on which rows — the harness compares it with the calls zEpid really makes to `propensity_score`.
Import-free.
-/
import ZepidVerif.Model.Core
namespace ZV.Ipmw

structure MRow where
  i : Nat            -- row id (position in the user's frame)
  obs : List Bool    -- observation pattern over the listed variables
  deriving Repr

def obsAt (r : MRow) (j : Nat) : Bool := r.obs.getD j false

/-- `_check_monotone`, one adjacent pair (V_j, V_{j+1}): `post == 1` (V_j missing) and `prior == 0`
    (V_{j+1} observed) -/
def violAt (r : MRow) (j : Nat) : Bool := !(obsAt r j) && obsAt r (j + 1)

/-- positions (in frame order) of the rows violating monotonicity for the pair (V_j, V_{j+1}) -/
def violPositions (l : List MRow) (j : Nat) : List Nat :=
  (l.zipIdx.filter fun x => violAt x.1 j).map (·.2)

/-- the code's rejection test is `np.any(np.where(post & ~prior))`: `np.where` returns the *positions*,
    so `np.any` is true iff some violating position is non-zero (a violation confined to the first row of
    the frame goes unnoticed — mirrored here because the model follows the code that exists) -/
def monotoneReject (l : List MRow) (k : Nat) : Bool :=
  (List.range (k - 1)).any fun j => (violPositions l j).any (· != 0)

/-- `_check_overall_uniform`: the product of all observation indicators equals the first one, on every row -/
def overallUniform (l : List MRow) (k : Nat) : Bool :=
  l.all fun r => ((List.range k).all (obsAt r)) == obsAt r 0

/-- `_check_uniform(prev, cur)`: V_{j-1} and V_j observed together whenever V_{j-1} is -/
def pairUniform (l : List MRow) (j : Nat) : Bool :=
  l.all fun r => (obsAt r (j - 1) && obsAt r j) == obsAt r (j - 1)

/-- variables of the chain whose model is fitted: the first always, a later one unless it is uniformly
    missing with its predecessor (`continue`) -/
def fitted (l : List MRow) (k : Nat) : List Nat :=
  (List.range k).filter fun j => j == 0 || !(pairUniform l j)

/-- ids of the rows the model of variable `j` is fitted on -/
def fitSet (l : List MRow) (j : Nat) : List Nat :=
  (if j == 0 then l else l.filter (obsAt · (j - 1))).map (·.i)

section
variable {F : Type} [Mul F] [Div F] [NatCast F]

/-- NaN-propagating multiplication -/
def optMul (x y : Option F) : Option F :=
  match x, y with
  | some a, some b => some (a * b)
  | _, _ => none

/-- NaN-propagating product, in the order pandas multiplies: `((1 * x₀) * x₁) * …` -/
def optProd (xs : List (Option F)) : Option F := xs.foldl optMul (some ((1 : Nat) : F))

def chain (vars : List Nat) (d : Nat → Nat → Option F) (i : Nat) : Option F := optProd (vars.map fun j => d j i)

/-- weight of one row: `__numer__ / __denom__`, both NaN unless the row is observed on variable `last` -/
def weight (stab : Bool) (vars : List Nat) (last : Nat) (n d : Nat → Nat → Option F) (r : MRow) : Option F :=
  if obsAt r last then
    match (if stab then chain vars n r.i else some ((1 : Nat) : F)), chain vars d r.i with
    | some nu, some de => some (nu / de)
    | _, _ => none
  else none

/-- which path `regression_models` takes, per row: the overall-uniform collapse to the first variable, or
    the chain over the fitted variables with the last variable deciding who is observed -/
def rowWeight (l : List MRow) (k : Nat) (stab : Bool) (n d : Nat → Nat → Option F) (r : MRow) : Option F :=
  if overallUniform l k then weight stab [0] 0 n d r
  else weight stab (fitted l k) (k - 1) n d r

/-- the denominator models that are fitted, in call order, each with the ids of the rows it is fitted on -/
def plan (l : List MRow) (k : Nat) : List (Nat × List Nat) :=
  if overallUniform l k then [(0, fitSet l 0)] else (fitted l k).map fun j => (j, fitSet l j)

structure Out (F : Type) where
  weights : List (Option F)          -- `IPMW.Weight`, in frame order
  plan : List (Nat × List Nat)

/-- `IPMW(df, [V₀..V_{k-1}], stabilized, monotone=True).regression_models(...); .fit()`.
    `k = 1` is also the single-variable (string) call. -/
def ipmw (l : List MRow) (k : Nat) (stab : Bool) (n d : Nat → Nat → Option F) : Except Err (Out F) :=
  if k == 0 then .error .badInput
  -- `__init__`: every listed variable must have at least one NaN
  else if (List.range k).any (fun j => l.all (obsAt · j)) then .error .badInput
  else if monotoneReject l k then .error .badInput
  else .ok ⟨l.map (rowWeight l k stab n d), plan l k⟩

end
end ZV.Ipmw
