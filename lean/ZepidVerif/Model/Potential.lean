/-
Specification side of C19 (no-assumption bounds): potential outcomes of a sample, causal
consistency, the sample causal risk difference, and what `RiskDifference.fit` can observe.
Import-free and executable: the native driver evaluates `causalRD` on completions supplied by the
harness (op `crd`), so the specification itself is exercised against the brute-force enumeration
done in Python, and the theorems of `Props/C19.lean` are about these very definitions and about
`ZV.Measures.frechet` (which evaluates the two *generated* expressions `Gen.fr_lower/fr_upper`).

The contrast modelled is the one the code computes: "index level `i`" against "any other observed
level" (`y_other` of base.py counts events among rows at every level ≠ i).  For a binary exposure
that is the reference group, which is the setting of the property.
-/
import ZepidVerif.Model.Measures
namespace ZV.Potential
open ZV.Measures

/-- Full record of one unit, including the outcome nobody observed. -/
structure PO where
  a : Bool     -- received the index level
  y1 : Bool    -- outcome the unit has when it receives the index level
  y0 : Bool    -- outcome the unit has when it does not
  deriving Repr, DecidableEq

/-- Causal consistency: what is seen of a unit is its exposure and the potential outcome of the
    exposure it actually received. -/
def PO.obs (p : PO) : Bool × Bool := (p.a, if p.a then p.y1 else p.y0)

/-- number of elements satisfying `p` -/
def cnt {α : Type} (p : α → Bool) (l : List α) : Nat := (l.filter p).length

variable {F : Type}

/-- What `RiskDifference.fit` sees for level `i`: one pair (exposure == i, outcome == 1) per row with
    exposure and outcome observed (rows with a missing value are not part of the sample, `n` of base.py). -/
def observed (rows : List (MRow F)) (i : Nat) : List (Bool × Bool) :=
  (complete rows).map fun r => (r.e == some i, r.d == some true)

/-- A full data set `po` is a *completion* of the observed pairs when consistency reproduces them. -/
def IsCompletion (po : List PO) (obs : List (Bool × Bool)) : Prop := po.map PO.obs = obs

/-- Sample causal risk difference: mean of Y(1) minus mean of Y(0) over all units. -/
def causalRD [Sub F] [Div F] [NatCast F] (po : List PO) : F :=
  ((cnt (·.y1) po : Nat) : F) / ((po.length : Nat) : F) - ((cnt (·.y0) po : Nat) : F) / ((po.length : Nat) : F)

/-- Build the completion that gives every unit the unobserved outcome `u` (one value per unit). -/
def fill : List (Bool × Bool) → List Bool → List PO
  | (a, y) :: os, u :: us => (if a then ⟨true, y, u⟩ else ⟨false, u, y⟩) :: fill os us
  | _, _ => []

/-- the completion attaining the lower bound: exposed units would also have had the event unexposed,
    unexposed units would not have had it exposed -/
def complLower (obs : List (Bool × Bool)) : List PO :=
  obs.map fun o => if o.1 then ⟨true, o.2, true⟩ else ⟨false, false, o.2⟩

/-- the completion attaining the upper bound -/
def complUpper (obs : List (Bool × Bool)) : List PO :=
  obs.map fun o => if o.1 then ⟨true, o.2, false⟩ else ⟨false, true, o.2⟩

end ZV.Potential
