/-
Model of `zepid.calc.utils.probability_bounds`: validation of the bound specification in the
code's branch order, and the elementwise clip (value in, new value out).
-/
import ZepidVerif.Model.Core
namespace ZV.Bounds

/-- what the caller passed as `bounds` -/
inductive BoundSpec (F : Type) where
  | float (b : F)                 -- type(bounds) is float
  | str                           -- a string
  | int                           -- a Python int
  | seq (items : List (Option F)) -- list / tuple / array; `none` = an element that is a string
  deriving Repr

variable {F : Type} [Sub F] [NatCast F] [LT F] [LE F] [DecidableLT F] [DecidableLE F]

/-- the branch order of `probability_bounds`; returns the interval (lo, hi) actually applied -/
def parseBound : BoundSpec F → Except Err (F × F)
  | .float b =>
    if b < ((0 : Nat) : F) ∨ b > ((1 : Nat) : F) then .error .badBound
    else .ok (b, ((1 : Nat) : F) - b)
  | .str => .error .badBound
  | .int => .error .badBound
  | .seq (some lo :: some hi :: _) =>
    if lo > hi then .error .badBound
    else if lo < ((0 : Nat) : F) ∨ hi > ((1 : Nat) : F) then .error .badBound
    else .ok (lo, hi)
  | .seq _ => .error .badBound

/-- `v[v < lo] = lo; v[v > hi] = hi` on a copy -/
def clip1 (lo hi x : F) : F :=
  let y := if x < lo then lo else x
  if y > hi then hi else y

def clip (lo hi : F) (v : List F) : List F := v.map (clip1 lo hi)

def probabilityBounds (v : List F) (b : BoundSpec F) : Except Err (List F) :=
  match parseBound b with
  | .error e => .error e
  | .ok (lo, hi) => .ok (clip lo hi v)

end ZV.Bounds
