/-
Model of `zepid.calc.utils.probability_bounds` (validation of the bound specification in the code's
branch order, and the elementwise clip: value in, new value out) and of every place where an estimator
applies it (`bound=` of IPTW, AIPTW, TMLE, StochasticTMLE, IPSW/AIPSW, GEstimationSNM, the four cross-fit
classes): which fitted probabilities are clipped and how the clipped values become weights.  The weight
formulas themselves are the *generated* `Gen.iptw_weight` / `Gen.ipsw_weight`.
-/
import ZepidVerif.Model.Core
import ZepidVerif.Gen.Weights
namespace ZV.Bounds

/-- what the caller passed as `bounds` -/
inductive BoundSpec (F : Type) where
  | float (b : F)                 -- `isinstance(bounds, float)`: a Python float or numpy.float64
  | str                           -- a string
  | int                           -- a Python int (not bool)
  | other                         -- any other object that cannot be indexed as a pair: bool, None, a numpy scalar
                                  -- that is not a float subclass (`np.float32(0.1)[0]` raises IndexError)
  | seq (items : List (Option F)) -- list / tuple / array / Series; `none` = an element that is a string
  deriving Repr

section
variable {F : Type} [Sub F] [NatCast F] [LT F] [LE F] [DecidableLT F] [DecidableLE F]

/-- the branch order of `probability_bounds`; returns the interval (lo, hi) actually applied -/
def parseBound : BoundSpec F → Except Err (F × F)
  | .float b =>
    if b < ((0 : Nat) : F) ∨ b > ((1 : Nat) : F) then .error .badBound
    else .ok (b, ((1 : Nat) : F) - b)
  | .str => .error .badBound
  | .int => .error .badBound
  | .other => .error .badBound
  | .seq (some lo :: some hi :: _) =>
    if lo > hi then .error .badBound
    else if lo < ((0 : Nat) : F) ∨ hi > ((1 : Nat) : F) then .error .badBound
    else .ok (lo, hi)
  | .seq _ => .error .badBound

/-- `v[v < lo] = lo; v[v > hi] = hi` on a copy -/
def clip1 (lo hi x : F) : F :=
  let y := if x < lo then lo else x
  if y > hi then hi else y

def clip (lo hi : F) (v : List F) : List F := v.map (clip1 lo hi)

def probabilityBounds (v : List F) (b : BoundSpec F) : Except Err (List F) :=
  match parseBound b with
  | .error e => .error e
  | .ok (lo, hi) => .ok (clip lo hi v)

/-- number of entries the clip changes (`StochasticTMLE._specified_bound_`, "No. Truncated") -/
def truncCount (lo hi : F) (v : List F) : Nat := (v.filter fun x => decide (x < lo) || decide (x > hi)).length

end

/-! ### where the estimators apply the bound (one row at a time) -/
section
variable {F : Type} [Add F] [Sub F] [Mul F] [Div F] [Neg F] [NatCast F]
  [LT F] [LE F] [DecidableLT F] [DecidableLE F] [DecidableEq F] [Transc F]

/-- an estimator's `bound` argument: `none` = falsy (False / None / 0.0: no truncation), else the interval -/
def applyB (iv : Option (F × F)) (x : F) : F :=
  match iv with
  | none => x
  | some (lo, hi) => clip1 lo hi x

/-- `if bound:` in the estimators: a falsy argument (False, None, 0.0, an empty list) means no truncation and
    `probability_bounds` is not called; anything else is validated by `parseBound` -/
def estimatorBound (falsy : Bool) (b : BoundSpec F) : Except Err (Option (F × F)) :=
  if falsy = true then .ok none else
  match parseBound b with
  | .error e => .error e
  | .ok iv => .ok (some iv)

/-- `iptw_calculator` (IPTW.treatment_model, IPSW/AIPSW.treatment_model): denominator and numerator
    probabilities are both clipped, then the weight formula; returns (`__denom__`, `__numer__`, weight).
    With `stabilized=False` the numerator is the constant 1 (it is clipped too, but no formula reads it). -/
def iptwRow (stab : Bool) (std : String) (iv : Option (F × F)) (a1 : Bool) (n d : F) : F × F × F :=
  let d' := applyB iv d
  let n' := applyB iv n
  (d', n', Gen.iptw_weight stab std a1 n' d')

/-- AIPTW / TMLE `exposure_model` and `missing_model`: g1 = clip p, g0 = clip (1 − p)  (for the missing model
    the two probabilities are separate predictions, clipped separately: use `applyB` on each) -/
def gPair (iv : Option (F × F)) (p : F) : F × F := (applyB iv p, applyB iv (((1 : Nat) : F) - p))

/-- StochasticTMLE.exposure_model: the denominator of the weight of a row -/
def stochDen (iv : Option (F × F)) (a1 : Bool) (p : F) : F :=
  let p' := applyB iv p
  if a1 = true then p' else ((1 : Nat) : F) - p'

/-- cross-fit estimators: pa1 = clip p, pa0 = 1 − pa1 -/
def cfPair (iv : Option (F × F)) (p : F) : F × F :=
  let p' := applyB iv p
  (p', ((1 : Nat) : F) - p')

/-- IPTW.missing_model / GEstimationSNM.missing_model: only the denominator is clipped -/
def ipmwRow (iv : Option (F × F)) (n d : F) : F := n / applyB iv d

/-- IPSW.sampling_model: the denominator is clipped; the numerator only when the weights are stabilized (the
    unstabilized numerator is the constant 1, not a fitted probability); then the (generated) sampling weight -/
def ipswRow (gen stab : Bool) (iv : Option (F × F)) (numer denom : F) : F × F × F :=
  let d' := applyB iv denom
  let n' := if stab = true then applyB iv numer else numer
  (d', n', Gen.ipsw_weight gen stab n' d')

/-- AIPTW / TMLE `missing_model`: the two predicted observation probabilities (under A=1 and A=0) are separate
    predictions, each clipped with the same bound -/
def missPair (iv : Option (F × F)) (m1 m0 : F) : F × F := (applyB iv m1, applyB iv m0)

/-- TMLE / StochasticTMLE `outcome_model`: the predictions are always clipped — by the user's `bound` when one is given,
    otherwise by the interval `cb` of the continuous bound (`self._cb`) -/
def qBound (iv : Option (F × F)) (cb : F × F) (x : F) : F :=
  match iv with
  | none => clip1 cb.1 cb.2 x
  | some (lo, hi) => clip1 lo hi x

/-- TMLE.outcome_model: (QA1W, QA0W, QAW) of a row with exposure `a`; QAW is assembled from the *clipped* predictions -/
def qTriple (iv : Option (F × F)) (cb : F × F) (a q1 q0 : F) : F × F × F :=
  (qBound iv cb q1, qBound iv cb q0, qBound iv cb q1 * a + qBound iv cb q0 * (((1 : Nat) : F) - a))

end
end ZV.Bounds
