/-
The Fréchet (no-assumption) bounds of `RiskDifference.fit` on the frame model of `Model/Measures.lean`.  Kept in a module
of its own because it evaluates the two *generated* expressions `Gen.fr_lower` / `Gen.fr_upper` (regenerated from
zepid/base.py on every run): when those lines stop translating, only the modules about the bounds (property C19) stop
compiling, not everything that uses the frame model (C07, C08, C10).
-/
import ZepidVerif.Model.Measures
import ZepidVerif.Gen.Frechet
namespace ZV.Measures
variable {F : Type}
section
variable [Add F] [Sub F] [Mul F] [Div F] [Neg F] [NatCast F]

/-- Fréchet (no-assumption) bounds reported by RiskDifference.fit for level `i` -/
def frechet (rows : List (MRow F)) (i : Nat) : F × F :=
  let a := ((cntED rows i true : Nat) : F)
  let b := ((cntED rows i false : Nat) : F)
  let n := (((complete rows).length : Nat) : F)
  let yo := (((rows.filter fun r => r.e.isSome && r.e != some i && r.d == some true).length : Nat) : F)
  let ri := a / (a + b)
  (Gen.fr_lower ri a b yo n, Gen.fr_upper ri a b yo n)

end
end ZV.Measures
