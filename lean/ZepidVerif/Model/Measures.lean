/-
Model of the data-frame effect-measure classes of zepid/base.py
(RiskRatio, RiskDifference, NNT, OddsRatio, IncidenceRateRatio, IncidenceRateDifference):
cross-tabulation by boolean masks, missing-data counts, one call of the count
function per non-reference exposure level.  Hand-written; tied to the code by the
correspondence check (gate K).  The count functions themselves are the generated
definitions in `ZepidVerif.Gen.Calc`.
-/
import ZepidVerif.Model.Core
import ZepidVerif.Gen.Calc
namespace ZV.Measures

/-- one row of the user's frame: exposure level, outcome, person-time; `none` = NaN -/
structure MRow (F : Type) where
  e : Option Nat
  d : Option Bool
  t : Option F

variable {F : Type}

/-- `df.loc[(df[exposure] == lvl) & (df[outcome] == dv)].shape[0]`; NaN compares false -/
def cntED (rows : List (MRow F)) (lvl : Nat) (dv : Bool) : Nat :=
  (rows.filter fun r => r.e == some lvl && r.d == some dv).length

/-- rows with exposure and outcome observed -/
def complete (rows : List (MRow F)) : List (MRow F) :=
  rows.filter fun r => r.e.isSome && r.d.isSome

def missingED (rows : List (MRow F)) : Nat := (rows.filter fun r => r.e.isNone && r.d.isNone).length
def missingE (rows : List (MRow F)) : Nat := (rows.filter fun r => r.e.isNone).length - missingED rows
def missingD (rows : List (MRow F)) : Nat := (rows.filter fun r => r.d.isNone).length - missingED rows
def missingT (rows : List (MRow F)) : Nat := (rows.filter fun r => r.t.isNone).length

/-- insertion into a strictly ascending list (canonical order for the level set) -/
def insertAsc (x : Nat) : List Nat → List Nat
  | [] => [x]
  | y :: ys => if x < y then x :: y :: ys else if x = y then y :: ys else y :: insertAsc x ys

/-- `set(df[exposure].dropna().unique())`, in ascending order -/
def levelSet (rows : List (MRow F)) : List Nat :=
  rows.foldr (fun r acc => match r.e with | some v => insertAsc v acc | none => acc) []

/-- the non-reference levels; `vals.remove(reference)` raises when the reference never occurs -/
def otherLevels (rows : List (MRow F)) (ref : Nat) : Except Err (List Nat) :=
  let ls := levelSet rows
  if ls.contains ref then .ok (ls.filter (· ≠ ref)) else .error .badInput

section
variable [Add F] [Sub F] [Mul F] [Div F] [Neg F] [NatCast F]
  [LT F] [LE F] [DecidableLT F] [DecidableLE F] [DecidableEq F]

/-- person-time of a level: rows at that level whose outcome is observed; NaN time is skipped by `.sum()` -/
def personTime (rows : List (MRow F)) (lvl : Nat) : F :=
  sumBy (fun r => match r.t with | some t => t | none => ((0 : Nat) : F))
    (rows.filter fun r => r.e == some lvl && r.d.isSome)

/-- run `f` for every level in order; the first raised error aborts (Python exception semantics) -/
def mapLevels (f : Nat → Except Err (Results F)) : List Nat → Except Err (List (Nat × Results F))
  | [] => .ok []
  | i :: is =>
    match f i with
    | .error e => .error e
    | .ok r =>
      match mapLevels f is with
      | .error e => .error e
      | .ok rest => .ok ((i, r) :: rest)

/-- The loop shared by RiskRatio / RiskDifference / NNT / OddsRatio `.fit`:
    `cf a b c d` once per non-reference level, any raised error aborts the fit. -/
def fitCounts (cf : F → F → F → F → Except Err (Results F)) (rows : List (MRow F)) (ref : Nat) :
    Except Err (List (Nat × Results F)) :=
  match otherLevels rows ref with
  | .error e => .error e
  | .ok lv =>
    mapLevels (fun i => cf ((cntED rows i true : Nat) : F) ((cntED rows i false : Nat) : F)
      ((cntED rows ref true : Nat) : F) ((cntED rows ref false : Nat) : F)) lv

/-- IncidenceRateRatio / IncidenceRateDifference `.fit` -/
def fitRates (cf : F → F → F → F → Except Err (Results F)) (rows : List (MRow F)) (ref : Nat) :
    Except Err (List (Nat × Results F)) :=
  match otherLevels rows ref with
  | .error e => .error e
  | .ok lv =>
    mapLevels (fun i => cf ((cntED rows i true : Nat) : F) ((cntED rows ref true : Nat) : F)
      (personTime rows i) (personTime rows ref)) lv

end
end ZV.Measures
