/-
Model of g-estimation of structural nested mean models
(zepid/causal/snm/g_estimation.py: `GEstimationSNM.fit`, `_closed_form_solver_`).

What zEpid does (closed form):
  df        := rows with every column observed (`df.dropna()`; the outcome may be missing)
  pi_i      := fitted Pr(A=1 | L_i) from a logistic GLM  (external: enters as a per-row value)
  diff_i    := (A_i - pi_i) * w_i           (w_i = IPMW x user weight; no multiplication when there are none)
  snm       := patsy.dmatrix(snm_model - 1) = columns  A, A:V, A:W   i.e.  snm_ij = A_i * v_ij,  v_i = (1, V_i, W_i)
  y_vals    := the same design with the outcome renamed as the exposure:  Y_i * v_ij
  lhm_jk    := sum_i diff_i * snm_ij * snm_ik
  rha_j     := sum_i (Y_i * v_ij) * diff_i
  psi       := np.linalg.solve(lhm, rha)    (external; modelled by Cramer's rule for 1, 2, 3 parameters,
                                             singular matrix -> LinAlgError -> `none`)
The search solver minimises |alpha| of the terms  H(psi), H(psi):V  added to the exposure model, with
  H(psi)_i  := Y_i - sum_k psi_k * snm_ik ;
the score equations of that logistic model at alpha = 0 are  sum_i diff_i * v_ij * H(psi)_i = 0  (`estEq`).

Import-free: compiled into the native driver (carrier `Rat`), subject of the theorems in Props/C15.lean.
-/
import ZepidVerif.Model.Core
namespace ZV.Snm

/-- one analysed row -/
structure SRow (F : Type) where
  a : F          -- exposure, 0 or 1, as a carrier value
  y : F          -- outcome
  pi : F         -- fitted Pr(A=1|L) of the exposure model
  w : F          -- weight actually multiplied into `diff` (1 when no weights are in use)
  v : List F     -- effect-modifier design row of the SNM: [1, V, W, ...]; the SNM columns are `a * v_j`

variable {F : Type} [Add F] [Sub F] [Mul F] [Div F] [Neg F] [NatCast F]

/-- `l[j]`, 0 outside the list -/
def nth (l : List F) (j : Nat) : F := l.getD j ((0 : Nat) : F)

/-- `diff = (df[treat] - pred_treat) * df[weights]` -/
def dW (r : SRow F) : F := (r.a - r.pi) * r.w

/-- column `j` of `snm_matrix` (patsy design of the SNM without intercept): `A`, `A:V`, `A:W` -/
def snmCol (r : SRow F) (j : Nat) : F := r.a * nth r.v j

/-- column `j` of `y_matrix` (same design, outcome renamed as the exposure) -/
def yCol (r : SRow F) (j : Nat) : F := r.y * nth r.v j

/-- `lhm = np.dot(snm_matrix.mul(diff, axis=0).transpose(), snm_matrix)` -/
def lhm (rows : List (SRow F)) (j k : Nat) : F :=
  sumBy (fun r => snmCol r j * dW r * snmCol r k) rows

/-- `rha = y_matrix.mul(diff, axis=0).sum()` -/
def rha (rows : List (SRow F)) (j : Nat) : F :=
  sumBy (fun r => yCol r j * dW r) rows

/-- `H(psi) = Y - sum_k psi_k * snm_k` (the treatment-free outcome; `function_to_optimize`) -/
def hpsi (p : Nat) (psi : List F) (r : SRow F) : F :=
  r.y - sumBy (fun k => nth psi k * snmCol r k) (List.range p)

/-- estimating function `E_j(psi) = sum_i w_i (A_i - pi_i) v_ij H(psi)_i` -/
def estEq (rows : List (SRow F)) (p : Nat) (psi : List F) (j : Nat) : F :=
  sumBy (fun r => dW r * nth r.v j * hpsi p psi r) rows

/-- `(lhm psi)_j = sum_k lhm_jk psi_k` -/
def lhmApply (rows : List (SRow F)) (p : Nat) (psi : List F) (j : Nat) : F :=
  sumBy (fun k => lhm rows j k * nth psi k) (List.range p)

/-- 2x2 and 3x3 determinants (row-major) -/
def det2 (a b c d : F) : F := a * d - b * c
def det3 (a b c d e f g h i : F) : F := a * (e * i - f * h) - b * (d * i - f * g) + c * (d * h - e * g)

/-- determinant of the p x p matrix `lhm` for p = 1, 2, 3 -/
def detLhm (rows : List (SRow F)) : Nat → F
  | 1 => lhm rows 0 0
  | 2 => det2 (lhm rows 0 0) (lhm rows 0 1) (lhm rows 1 0) (lhm rows 1 1)
  | 3 => det3 (lhm rows 0 0) (lhm rows 0 1) (lhm rows 0 2) (lhm rows 1 0) (lhm rows 1 1) (lhm rows 1 2)
              (lhm rows 2 0) (lhm rows 2 1) (lhm rows 2 2)
  | _ => ((0 : Nat) : F)

/-- `np.linalg.solve(lhm, rha)` by Cramer's rule for 1, 2 and 3 parameters;
    `none` = LinAlgError (singular matrix) or a dimension outside the model. -/
def closedForm [DecidableEq F] (rows : List (SRow F)) (p : Nat) : Option (List F) :=
  let S := lhm rows
  let b := rha rows
  let dt := detLhm rows p
  if dt = ((0 : Nat) : F) then none else
  match p with
  | 1 => some [b 0 / dt]
  | 2 => some [det2 (b 0) (S 0 1) (b 1) (S 1 1) / dt,
               det2 (S 0 0) (b 0) (S 1 0) (b 1) / dt]
  | 3 => some [det3 (b 0) (S 0 1) (S 0 2) (b 1) (S 1 1) (S 1 2) (b 2) (S 2 1) (S 2 2) / dt,
               det3 (S 0 0) (b 0) (S 0 2) (S 1 0) (b 1) (S 1 2) (S 2 0) (b 2) (S 2 2) / dt,
               det3 (S 0 0) (S 0 1) (b 0) (S 1 0) (S 1 1) (b 1) (S 2 0) (S 2 1) (b 2) / dt]
  | _ => none

/-- determinant of a p x p matrix given by its entries, p = 1, 2, 3 (0 otherwise) -/
def detP (S : Nat → Nat → F) : Nat → F
  | 1 => S 0 0
  | 2 => det2 (S 0 0) (S 0 1) (S 1 0) (S 1 1)
  | 3 => det3 (S 0 0) (S 0 1) (S 0 2) (S 1 0) (S 1 1) (S 1 2) (S 2 0) (S 2 1) (S 2 2)
  | _ => ((0 : Nat) : F)

/-- the model of `np.linalg.solve(S, b)` on its own (Cramer's rule, p = 1, 2, 3; `none` = LinAlgError): what the
    generated `Gen.snm_closed_solver` / `Gen.snm_fit_closed` are run with in the driver; `closedForm rows p` is
    `cramer (lhm rows) (rha rows) p` (`Props/C15_Gen.lean`, `closedForm_eq_cramer`) -/
def cramer [DecidableEq F] (S : Nat → Nat → F) (b : Nat → F) (p : Nat) : Option (List F) :=
  let dt := detP S p
  if dt = ((0 : Nat) : F) then none else
  match p with
  | 1 => some [b 0 / dt]
  | 2 => some [det2 (b 0) (S 0 1) (b 1) (S 1 1) / dt,
               det2 (S 0 0) (b 0) (S 1 0) (b 1) / dt]
  | 3 => some [det3 (b 0) (S 0 1) (S 0 2) (b 1) (S 1 1) (S 1 2) (b 2) (S 2 1) (S 2 2) / dt,
               det3 (S 0 0) (b 0) (S 0 2) (S 1 0) (b 1) (S 1 2) (S 2 0) (b 2) (S 2 2) / dt,
               det3 (S 0 0) (S 0 1) (b 0) (S 1 0) (S 1 1) (b 1) (S 2 0) (S 2 1) (b 2) / dt]
  | _ => none

/-! ### one-parameter model, saturated exposure model: the stratified closed form -/

/-- weighted totals of one stratum (all rows share the fitted value `pi`) -/
def wTot (l : List (SRow F)) : F := sumBy (fun r => r.w) l
def wTrt (l : List (SRow F)) : F := sumBy (fun r => r.w * r.a) l
def wUnt (l : List (SRow F)) : F := sumBy (fun r => r.w * (((1 : Nat) : F) - r.a)) l
/-- weighted outcome means among the treated / untreated of a stratum -/
def yTrt (l : List (SRow F)) : F := sumBy (fun r => r.w * r.a * r.y) l / wTrt l
def yUnt (l : List (SRow F)) : F := sumBy (fun r => r.w * (((1 : Nat) : F) - r.a) * r.y) l / wUnt l

/-- `sum_s n_s p_s (1-p_s) (ybar_s1 - ybar_s0) / sum_s n_s p_s (1-p_s)`; `p_s` is the stratum's fitted value -/
def stratifiedPsi (strata : List (F × List (SRow F))) : F :=
  sumBy (fun s => wTot s.2 * s.1 * (((1 : Nat) : F) - s.1) * (yTrt s.2 - yUnt s.2)) strata /
  sumBy (fun s => wTot s.2 * s.1 * (((1 : Nat) : F) - s.1)) strata

/-! ### the H(psi) terms of the search solver (`_grid_search_`: how the terms of the structural model are rewritten)

A term of the structural nested model is a product of factors, `w.split(':')`; names are numbered (`Nat`).  zEpid
replaces the treatment's name by the scratch column `H_psi` *factor by factor* (`hTerm`); the column patsy then
builds for a product term is the product of its factors' values in the row (`termVal`). -/

/-- `':'.join('H_psi' if f == treatment else f for f in w.split(':'))` -/
def hTerm (treat h : Nat) (term : List Nat) : List Nat := term.map fun f => if f = treat then h else f

/-- the row's values with the scratch column `h` holding `H` (`data['H_psi'] = snm`) -/
def envH (env : Nat → F) (h : Nat) (H : F) : Nat → F := fun n => if n = h then H else env n

/-- value of a product term in a row -/
def termVal (env : Nat → F) (term : List Nat) : F := term.foldr (fun f acc => env f * acc) ((1 : Nat) : F)

/-- the term without (the first occurrence of) the treatment: the effect modifier(s) it is multiplied with -/
def modifiers (treat : Nat) (term : List Nat) : List Nat := term.erase treat

end ZV.Snm
