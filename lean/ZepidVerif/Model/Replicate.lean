/-
C09 vocabulary: a data set with an integer `weights` column versus the data set in which each row is
physically repeated that many times, plus the estimator models of the weight-accepting classes that are
not already in `Model/Std.lean` / `Model/Generalize.lean` (StochasticIPTW, the g-estimation closed form,
SurvivalGFormula, AIPTW with missing outcomes).

A weighted data set is a list of (row, k) pairs, `k` the integer weight.  `weighted` is what zEpid sees
when the user passes `weights='w'` (each row once, `w = k`); `replicated` is what it sees when the user
passes `df.loc[df.index.repeat(df.w)]` and no weights column (k copies, `w = 1`).  The copies keep the row
id `i` of the original, so the per-row fitted values of the nuisance models (parameters of the estimator
models, looked up by row id in the driver) are *carried along* to the copies.
Import-free: compiled into the native driver and the subject of `Props/C09.lean`.
-/
import ZepidVerif.Model.Std
import ZepidVerif.Model.Generalize
namespace ZV.Std

/-- the row with its frequency weight replaced -/
def Row.setW {F : Type} (r : Row F) (c : F) : Row F := { r with w := c }

section
variable {F : Type} [NatCast F]

/-- the data set with an integer weights column: each row once, frequency weight `k` -/
def weighted (l : List (Row F × Nat)) : List (Row F) := l.map fun x => x.1.setW ((x.2 : Nat) : F)

/-- the physically replicated data set: `k` copies of each row, each with frequency weight 1 -/
def replicated (l : List (Row F × Nat)) : List (Row F) :=
  l.flatMap fun x => List.replicate x.2 (x.1.setW ((1 : Nat) : F))

end

section
variable {F : Type} [Add F] [Sub F] [Mul F] [Div F] [NatCast F]

/-- `StochasticIPTW.fit`: `np.average(Y, weights = numer/denom * w)` over the retained rows; `ω` is the
    per-row ratio `Pr*(A=a_i) / Pr(A=a_i | L_i)` -/
def stochIptw (l : List (Row F)) (ω : Row F → F) : F :=
  sumBy (fun r => ω r * (r.w * r.y)) l / sumBy (fun r => ω r * r.w) l

/-- treatment indicator as a number -/
def Row.an (r : Row F) : F := if r.a then ((1 : Nat) : F) else ((0 : Nat) : F)

/-- one entry of the g-estimation closed form (`GEstimationSNM._closed_form_solver_`):
    `Σ_i w_i·ω_i·(A_i − π_i)·u_i` over the rows with an observed outcome (`df.dropna()`), `ω` the inverse
    probability of missingness weight (1 without a missing model), `π` the fitted treatment probability -/
def snmSum (l : List (Row F)) (ω π u : Row F → F) : F :=
  sumIf (fun r => r.obs) (fun r => r.w * (ω r * (r.an - π r) * u r)) l

/-- entry (j,k) of the matrix `lhm`: SNM design columns are `A·v_j` -/
def snmLhs (l : List (Row F)) (ω π vj vk : Row F → F) : F :=
  snmSum l ω π (fun r => (r.an * vj r) * (r.an * vk r))

/-- entry j of the vector `rha`: the SNM design with `A` replaced by `Y` -/
def snmRhs (l : List (Row F)) (ω π vj : Row F → F) : F :=
  snmSum l ω π (fun r => r.y * vj r)

/-- the one-parameter structural nested mean model `A`: `ψ = rha / lhm` -/
def snmPsi1 (l : List (Row F)) (ω π : Row F → F) : F :=
  snmRhs l ω π (fun _ => ((1 : Nat) : F)) / snmLhs l ω π (fun _ => ((1 : Nat) : F)) (fun _ => ((1 : Nat) : F))

end

/-! ### SurvivalGFormula: person-period data -/

/-- one individual of a person-period data set: frequency weight and, in time order, the time value and
    the predicted discrete-time hazard of each of the person's rows under the treatment plan -/
structure Person (F : Type) where
  pid : Nat
  w : F
  h : List (Nat × F)

def Person.setW {F : Type} (p : Person F) (c : F) : Person F := { p with w := c }

section
variable {F : Type} [Add F] [Sub F] [Mul F] [Div F] [NatCast F]

/-- `1 - g.groupby(id)[Y].cumprod()` of `1 - predicted hazard`: running cumulative risk; `s` is the
    survival so far -/
def cumRisk (s : F) : List (Nat × F) → List (Nat × F)
  | [] => []
  | (t, h) :: rest => let s' := s * (((1 : Nat) : F) - h); (t, ((1 : Nat) : F) - s') :: cumRisk s' rest

/-- the person's cumulative risk at time value `t` (none when the person has no row at `t`) -/
def Person.riskAt (p : Person F) (t : Nat) : Option F :=
  ((cumRisk ((1 : Nat) : F) p.h).find? (fun x => x.1 == t)).map (·.2)

/-- `SurvivalGFormula.fit`: (weighted) mean of the cumulative risks of the rows at time `t` -/
def survMarginal (P : List (Person F)) (t : Nat) : F :=
  sumBy (fun p => match p.riskAt t with | some r => p.w * r | none => ((0 : Nat) : F)) P /
  sumBy (fun p => match p.riskAt t with | some _ => p.w | none => ((0 : Nat) : F)) P

end

section
variable {F : Type} [NatCast F]
def weightedP (l : List (Person F × Nat)) : List (Person F) := l.map fun x => x.1.setW ((x.2 : Nat) : F)
/-- replicated persons (in the data each copy gets a fresh id; the model does not read `pid`) -/
def replicatedP (l : List (Person F × Nat)) : List (Person F) :=
  l.flatMap fun x => List.replicate x.2 (x.1.setW ((1 : Nat) : F))
end

/-! ### SurvivalGFormula with a frequency weight on every person-period row

The weights column of the long data set is a per-ROW column: an individual is a list of rows `(time, hazard, k)` in
time order.  zEpid's weighted mean at time `t` takes each row with its own weight.  Physical replication repeats
each row `k` times; copy `j` of a row belongs to copy `j` of the individual, so copy `j` of the individual consists of
the rows with `j < k` (when the weights never rise during follow-up this is an initial segment of the follow-up). -/

section
variable {F : Type} [Add F] [Sub F] [Mul F] [Div F] [NatCast F]

/-- `k · f (cumulative risk)` of the individual's (first) row at time value `t`, `0` without such a row; `s` is the
    survival before the first row.  `f = id`: the row's term of `Σ w·risk`; `f = 1`: its term of `Σ w` -/
def rowAcc (f : F → F) (s : F) : List (Nat × F × Nat) → Nat → F
  | [], _ => ((0 : Nat) : F)
  | (u, h, k) :: rest, t =>
    if u == t then ((k : Nat) : F) * f (((1 : Nat) : F) - s * (((1 : Nat) : F) - h))
    else rowAcc f (s * (((1 : Nat) : F) - h)) rest t

/-- `SurvivalGFormula._weighted_average` with row-level weights: `Σ w·risk / Σ w` over the rows at time `t` -/
def survMarginalRows (P : List (List (Nat × F × Nat))) (t : Nat) : F :=
  sumBy (fun p => rowAcc (fun r => r) ((1 : Nat) : F) p t) P /
  sumBy (fun p => rowAcc (fun _ => ((1 : Nat) : F)) ((1 : Nat) : F) p t) P

/-- the (time, hazard) rows of the `j`-th physical copy of the individual: the rows repeated more than `j` times -/
def copyRows (j : Nat) (p : List (Nat × F × Nat)) : List (Nat × F) :=
  (p.filter fun x => decide (j < x.2.2)).map fun x => (x.1, x.2.1)

def maxW : List (Nat × F × Nat) → Nat
  | [] => 0
  | x :: rest => max x.2.2 (maxW rest)

/-- the replicated data: every copy is an individual of weight one -/
def replicatedRows (P : List (List (Nat × F × Nat))) : List (Person F) :=
  P.flatMap fun p => (List.range (maxW p)).map fun j => ⟨0, ((1 : Nat) : F), copyRows j p⟩

/-- the weights never rise during the individual's follow-up -/
def nonIncreasing : List (Nat × F × Nat) → Bool
  | [] => true
  | x :: rest => rest.all (fun y => decide (y.2.2 ≤ x.2.2)) && nonIncreasing rest

end

/-! ### AIPTW when outcomes may be missing -/
section
variable {F : Type} [Add F] [Sub F] [Mul F] [Div F] [Neg F] [NatCast F]
  [LT F] [LE F] [DecidableLT F] [DecidableLE F] [DecidableEq F] [Transc F]

/-- pseudo-outcome of arm `arm` (generated `aipw_calculator` lines) -/
def aipwPseudo (arm : Bool) (Q : Row F → Bool → F) (g1 g0 : Row F → F) (r : Row F) : F :=
  if arm then Gen.aipw_y1 r.a r.y (Q r true) (Q r false) (g1 r) (g0 r)
  else Gen.aipw_y0 r.a r.y (Q r true) (Q r false) (g1 r) (g0 r)

/-- the pseudo-outcome of arm `arm` is a number (not NaN): the row is outside the arm or its outcome is observed -/
def aipwDefined (arm : Bool) (r : Row F) : Bool := r.obs || (r.a != arm)

/-- `np.nanmean(y_arm)` / the NaN-masked `np.average(y_arm, weights)`: mean over the rows whose
    pseudo-outcome is defined (the risk-ratio branch of `aipw_calculator`, each arm separately) -/
def aipwArmMean (arm : Bool) (l : List (Row F)) (Q : Row F → Bool → F) (g1 g0 : Row F → F) : F :=
  sumIf (aipwDefined arm) (fun r => r.w * aipwPseudo arm Q g1 g0 r) l / W (aipwDefined arm) l

/-- `np.nanmean(y1 - y0)` / the NaN-masked `np.average(y1 - y0, weights)`: mean of the difference over
    the rows with an observed outcome (the difference branch of `aipw_calculator`) -/
def aipwDiffW (l : List (Row F)) (Q : Row F → Bool → F) (g1 g0 : Row F → F) : F :=
  sumIf (fun r => r.obs) (fun r => r.w * (aipwPseudo true Q g1 g0 r - aipwPseudo false Q g1 g0 r)) l
    / W (fun r => r.obs) l

end
end ZV.Std
