/-
Core vocabulary of the executable model.  Import-free on purpose: the same
definitions are compiled into the native driver (carriers `Rat` and `Float`)
and are the subject of the theorems in `ZepidVerif/Props` (carrier: any
linearly ordered field, via Mathlib's instances).
-/
namespace ZV

/-- The non-field operations zEpid uses (`np.exp`, `np.log`, `np.sqrt`). -/
class Transc (F : Type) where
  exp : F → F
  log : F → F
  sqrt : F → F

/-- Error kinds the real code raises, mapped to a small enum. -/
inductive Err where
  | nonpositive   -- check_positivity_or_throw
  | negative      -- check_nonnegativity_or_throw
  | badBound      -- probability_bounds validation
  | badInput
  | notSpecified  -- fit/summary before the required models were specified
  | cyclic        -- DAG arrow that would create a cycle
  deriving Repr, DecidableEq, BEq

/-- `zepid.calc.utils.Results` without the `alpha`/`measure` echo fields. -/
structure Results (F : Type) where
  point : F
  lower : F
  upper : F
  se : F
  deriving Repr

end ZV

namespace ZV
section
variable {F : Type} [Add F] [NatCast F]

/-- `Σ_{x ∈ l} f x`, the only aggregation zEpid performs (np.sum / np.mean / DataFrame.sum). -/
def sumBy {α : Type} (f : α → F) : List α → F
  | [] => ((0 : Nat) : F)
  | x :: xs => f x + sumBy f xs

/-- number of elements satisfying `p`, as a carrier value -/
def cntBy {α : Type} (p : α → Bool) (l : List α) : F := (((l.filter p).length : Nat) : F)

end
end ZV

namespace ZV
section
variable {F : Type} [Add F] [Sub F] [Mul F] [Div F] [NatCast F]

/-- `np.nanmean`: mean of `f` over the elements where it is a number (`d x = true`) -/
def nanmeanBy {α : Type} (d : α → Bool) (f : α → F) (l : List α) : F :=
  sumBy (fun x => if d x then f x else ((0 : Nat) : F)) l / sumBy (fun x => if d x then ((1 : Nat) : F) else ((0 : Nat) : F)) l

/-- `np.nanvar(·, ddof=1)`: sample variance of `f` over the elements where it is a number -/
def nanvar1By {α : Type} (d : α → Bool) (f : α → F) (l : List α) : F :=
  let m := nanmeanBy d f l
  sumBy (fun x => if d x then (f x - m) * (f x - m) else ((0 : Nat) : F)) l /
    (sumBy (fun x => if d x then ((1 : Nat) : F) else ((0 : Nat) : F)) l - ((1 : Nat) : F))

end
end ZV
