/-
NaN-carrying values for the translated numpy / pandas code (`harness/py2lean.py`, class `NanTr`).

A column that may hold `np.nan` is a function into `Option F` (`none` = NaN).  Arithmetic propagates NaN as IEEE
arithmetic does; a reduction (`np.average`, `np.sum`, `np.mean`) of a vector with a NaN entry is NaN.  NaN that
*arises* from arithmetic (0/0, inf - inf) is not modelled: the carrier of the theorems is a field, and gate K
compares NaN patterns of the executed definitions with those of the implementation exactly.
Import-free: compiled into the native driver.
-/
import ZepidVerif.Model.Core
namespace ZV.Nan

section
variable {F : Type}

/-- elementwise binary operation on values that may be NaN -/
def lift2 (f : F → F → F) : Option F → Option F → Option F
  | some a, some b => some (f a b)
  | _, _ => none

variable [Add F] [Sub F] [Mul F] [Div F] [NatCast F]

def add (x y : Option F) : Option F := lift2 (· + ·) x y
def sub (x y : Option F) : Option F := lift2 (· - ·) x y
def mul (x y : Option F) : Option F := lift2 (· * ·) x y
def div (x y : Option F) : Option F := lift2 (· / ·) x y

/-- `np.sum(x)` over the rows `l`: NaN as soon as one entry is -/
def sum {ρ : Type} (x : ρ → Option F) (l : List ρ) : Option F :=
  if l.all (fun r => (x r).isSome) then some (sumBy (fun r => (x r).getD ((0 : Nat) : F)) l) else none

/-- `np.mean(x)` over the rows `l` -/
def mean {ρ : Type} (x : ρ → Option F) (l : List ρ) : Option F :=
  if l.all (fun r => (x r).isSome) then
    some (sumBy (fun r => (x r).getD ((0 : Nat) : F)) l / ((l.length : Nat) : F))
  else none

/-- `np.average(y, weights=w)` over the rows `l` = `(y * w).sum() / w.sum()`: NaN as soon as one entry of either
    vector is -/
def average {ρ : Type} (y w : ρ → Option F) (l : List ρ) : Option F :=
  if l.all (fun r => (y r).isSome && (w r).isSome) then
    some (sumBy (fun r => (y r).getD ((0 : Nat) : F) * (w r).getD ((0 : Nat) : F)) l /
          sumBy (fun r => (w r).getD ((0 : Nat) : F)) l)
  else none

end
end ZV.Nan
