/-
Model of `zepid.causal.generalize` (IPSW, GTransportFormula, AIPSW) on the vocabulary of
`Model/Std.lean`.  A combined data set is a list of rows in which `obs = true` marks the rows
of the study sample (treatment and outcome are used only there) and `obs = false` the rows of
the target sample.  `generalize=True` targets all rows, `generalize=False` the non-sampled rows.
The sampling-weight formulas are the generated `Gen.ipsw_weight` / `Gen.aipsw_weight`.
-/
import ZepidVerif.Model.Std
namespace ZV.Std

/-- rows of the target population -/
def genTarget {F : Type} (generalize : Bool) (r : Row F) : Bool := if generalize then true else !r.obs

section
variable {F : Type} [Add F] [Sub F] [Mul F] [Div F] [Neg F] [NatCast F]
  [LT F] [LE F] [DecidableLT F] [DecidableLE F] [DecidableEq F] [Transc F]

/-- `IPSW.fit` row weight: generated sampling weight × treatment weight `tw` (`tw = 1` without a treatment model) -/
def ipswOmega (generalize stab : Bool) (numer denom tw : Row F → F) (r : Row F) : F :=
  Gen.ipsw_weight generalize stab (numer r) (denom r) * tw r

/-- same for `AIPSW` (its own copy of the formula in the source) -/
def aipswOmega (generalize stab : Bool) (numer denom tw : Row F → F) (r : Row F) : F :=
  Gen.aipsw_weight generalize stab (numer r) (denom r) * tw r

/-- treatment weight used by IPSW / AIPSW: `iptw_calculator(..., standardize='population')` -/
def popTreatWeight (stab : Bool) (n p : Row F → F) (r : Row F) : F :=
  Gen.iptw_weight stab "population" r.a (n r) (p r)

/-- `IPSW.fit`: weighted mean of the outcomes of the sampled rows of arm `a` -/
def ipsw (l : List (Row F)) (ω : Row F → F) (a : Bool) : F := hajek l ω a

/-- `GTransportFormula.fit`: mean prediction under `a` over the target rows -/
def gtransport (generalize : Bool) (l : List (Row F)) (Q : Row F → Bool → F) (a : Bool) : F :=
  gformula l Q (genTarget generalize) a

/-- `AIPSW.fit`: predictions averaged over the target rows plus the weighted residuals of the sampled
    rows of arm `a`, divided by the size of the target -/
def aipsw (generalize : Bool) (l : List (Row F)) (Q : Row F → Bool → F) (ω : Row F → F) (a : Bool) : F :=
  (sumIf (genTarget generalize) (fun r => r.w * Q r a) l
    + sumIf (fun r => r.a == a && r.obs) (fun r => ω r * (r.w * (r.y - Q r a))) l) / W (genTarget generalize) l

end
end ZV.Std
