/-
What numpy does with the few one-dimensional array operations that the translated coefficient / combination code of
`zepid.superlearner.stackers.SuperLearner` uses (`harness/py2lean_lists.py`, `gen_stack`): `np.sum`, `np.dot`,
`np.argmax`, a masked assignment `v[v < t] = c`, `v / s`, an element read `v[i]` and an element store `v[i] = c`.
Hand-written semantics over a generic carrier (no NaN in the carrier: where numpy would produce NaN — `0 / 0` — the
property theorems speak of `none`, see `SL.normalize`); gate K runs the generated definitions that use them against
the implementation.  Import-free.
-/
import ZepidVerif.Model.Core
import ZepidVerif.Model.PyList
namespace ZV.Np
section
variable {F : Type} [Add F] [Mul F] [Div F] [NatCast F] [LT F] [DecidableLT F]

/-- `np.sum(v)` -/
def sum (v : List F) : F := sumBy (fun c => c) v

/-- `np.dot(a, b)` for two vectors: `Σ aⱼ bⱼ` (stops with the shorter; numpy raises on a length mismatch) -/
def dot : List F → List F → F
  | a :: as, b :: bs => a * b + dot as bs
  | _, _ => ((0 : Nat) : F)

/-- `np.argmax(v)`: position of the first maximal entry (`0` for the empty vector, where numpy raises) -/
def argmaxFrom : Nat → Nat → F → List F → Nat
  | _, best, _, [] => best
  | i, best, bv, c :: cs => if bv < c then argmaxFrom (i + 1) i c cs else argmaxFrom (i + 1) best bv cs

def argmax : List F → Nat
  | [] => 0
  | c :: cs => argmaxFrom 1 0 c cs

/-- `v[mask(v)] = c` -/
def maskSet (v : List F) (mask : F → Prop) [DecidablePred mask] (c : F) : List F :=
  v.map (fun x => if mask x then c else x)

/-- `v / s` (broadcast) -/
def divScalar (v : List F) (s : F) : List F := v.map (fun x => x / s)

/-- `v[i]` as a number; an index out of range (numpy raises) yields `0` — every use is under `len(v) = n`, `0 ≤ i < n` -/
def getAt (v : List F) (i : Int) : F := (Py.get v i).getD ((0 : Nat) : F)

/-- `v[i] = c` -/
def setAt (v : List F) (i : Int) (c : F) : List F :=
  if 0 ≤ i then v.set i.toNat c else v.set (i + (v.length : Int)).toNat c

end
end ZV.Np
