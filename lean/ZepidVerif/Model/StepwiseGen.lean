/-
`StepwiseSL.fit` with its column bookkeeping taken from the definitions regenerated from
zepid/superlearner/estimators.py (`Gen/Stepwise.lean`): where the search starts, which column sets a pass of the while
loop fits, when a pass breaks, and how the selectable columns shrink.  Hand-written here: the wiring into
`Stepwise.loopWith` (the AIC comparisons of the inner loop and the `while` condition are the model's `bestAlt` / `≤`).
This is what the driver's `stepwise` operation executes (gate K); `Props/C20_Gen.lean` proves it equal to
`Stepwise.search`, the subject of `stepwise_sound`.  Import-free apart from the generated file.
-/
import ZepidVerif.Model.Stepwise
import ZepidVerif.Gen.Stepwise
namespace ZV.Stepwise

/-- the GLM fits one pass requests, from the regenerated loops -/
def genSteps : Dir → List Nat → List Nat → List (List Nat)
  | .backward, cols, _ => Gen.sw_backward_fits cols
  | .forward, cols, avail => Gen.sw_forward_fits cols avail

/-- the regenerated `break` tests -/
def genBreak (p : Nat) : Dir → List Nat → Bool
  | .backward, cols => Gen.sw_backward_break cols p
  | .forward, cols => Gen.sw_forward_break cols p

/-- the regenerated update of `vars_to_select` (forward): the variable just added — the last column of the accepted
    alternative — is removed; the backward search keeps no such list -/
def genAvail : Dir → List Nat → List Nat → List Nat
  | .backward, avail, _ => avail
  | .forward, avail, bc => Gen.sw_forward_avail avail bc.getLast?

/-- the regenerated starting column set and selectable columns -/
def genStart (d : Dir) (p : Nat) : List Nat × List Nat :=
  match d with
  | .backward => (Gen.sw_backward_start p, [])
  | .forward => Gen.sw_forward_start p

section
variable {F : Type} [LT F] [LE F] [DecidableLT F] [DecidableLE F]

/-- `StepwiseSL.fit` assembled from the regenerated bookkeeping -/
def genSearch (d : Dir) (aic : List Nat → Option F) (p : Nat) : Option (Result F) :=
  match aic (genStart d p).1 with
  | none => none
  | some a0 =>
    some (loopWith (genSteps d) (genBreak p d) (genAvail d) aic (p + 1) (genStart d p).1 a0 (genStart d p).2 [])

end
end ZV.Stepwise
