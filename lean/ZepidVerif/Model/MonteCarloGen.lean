/-
The Monte Carlo loop of `MonteCarloGFormula.fit` run by the REGENERATED pieces (`Gen/MonteCarlo.lean`: `mc_init`,
`mc_alive`, `mc_step`, `mc_stacked`, `mc_iterations`, translated from /repo on every run), with the parts of an iteration
that are user code or another model's prediction instantiated by the model's (`Model/MonteCarlo.lean`): recode strings by
`exec`, the covariate-model block by `runCovs` in execution order, the lag update by `runLags`, `eval(treatment)` by the
rule's `Cond.eval`, the draws by the step's `StepDraw`.  Executed by the native driver (op `mcsim`, fields `g…`) against
`predicted_outcomes`; `Props/C13_Gen.lean` proves it equal to `simOne`.  Import-free.
-/
import ZepidVerif.Model.MonteCarlo
import ZepidVerif.Gen.MonteCarlo
namespace ZV.MC

variable {V : Type} [NatCast V] [Add V] [Mul V] [DecidableEq V] [LT V] [DecidableLT V] [LE V] [DecidableLE V]

/-- `eval(treatment)` on a row (only read under a custom plan) -/
def ruleOf (p : Plan V) (g : Env V) : Bool :=
  match p with
  | .custom r => r.eval g
  | _ => false

/-- a `treatment` string that stands for the plan: 'all' / 'none' / 'natural'; a custom rule is any other string -/
def planStr (p : Plan V) : String :=
  match p with
  | .all => "all"
  | .none => "none"
  | .natural => "natural"
  | .custom _ => "g['A'] == 1"

/-- the covariate-model block on one row (a named definition, not a lambda: a lambda returning an `Env` is compiled with
    the looked-up column as an extra argument, and every lookup would re-run the block) -/
def covBlock (cfg : Config V) (d : StepDraw V) (g : Env V) : Env V := (runCovs (orderCovs cfg.covs) d.cov 0 g).2

/-- the same row with its first `n` columns computed once and stored (extensionally the identity: `Env.freeze_get`).
    A row is a closure over the rows it was computed from; without this, looking a column up after `k` iterations walks
    — and, where the compiler turned a row-valued binding into a function of the looked-up column, re-runs — the `k`
    iterations before it.  Used by the driver-side loop only to keep it linear. -/
def Env.freeze (n : Nat) (e : Env V) : Env V :=
  let arr := (Array.range n).map e.get
  ⟨fun j => if h : j < arr.size then arr[j] else e.get j⟩

/-- one regenerated iteration with the opaque parts instantiated: the row appended to the output -/
def genStep (cfg : Config V) (s : String) (tmax i : Nat) (d : StepDraw V) (e : Env V) : Env V :=
  Gen.mc_step cfg.cols s cfg.cens tmax i (exec cfg.inRecode) (covBlock cfg d)
    (exec cfg.outRecode) (runLags cfg.lags) (ruleOf cfg.plan) (b2v d.a) (b2v d.y) (b2v d.c) e

/-- `for i in range(t_max)` for one sampled individual: restriction to those at risk (`Gen.mc_alive`), one iteration
    (`Gen.mc_step`); the rows appended to the output with `low_memory=False`.  `nc` = number of leading columns stored
    per row (`Env.freeze`; any value gives the same rows) -/
def genSimFrom (nc : Nat) (cfg : Config V) (s : String) (tmax : Nat) (draws : Nat → StepDraw V) :
    Nat → Nat → Env V → List (Env V)
  | 0, _, _ => []
  | fuel + 1, i, e =>
    let r := (genStep cfg s tmax i (draws i) e).freeze nc
    r :: (if Gen.mc_alive cfg.cols r then genSimFrom nc cfg s tmax draws fuel (i + 1) r else [])

def genSimOne (nc : Nat) (cfg : Config V) (s : String) (tmax : Nat) (draws : Nat → StepDraw V) (b : Env V) : List (Env V) :=
  genSimFrom nc cfg s tmax draws (Gen.mc_iterations tmax).length 0 (Gen.mc_init cfg.cols b)

/-- all sampled individuals, `uid_g_zepid` = position in the sample -/
def genSimAllFrom (nc : Nat) (cfg : Config V) (s : String) (tmax : Nat) (draws : Nat → Nat → StepDraw V) :
    Nat → List (Env V) → List (Nat × List (Env V))
  | _, [] => []
  | u, b :: bs => (u, genSimOne nc cfg s tmax (draws u) b) :: genSimAllFrom nc cfg s tmax draws (u + 1) bs

/-- `predicted_outcomes` (sorted by uid, time_in) for `low_memory` True / False: the records passing `Gen.mc_stacked` -/
def genRecords (cfg : Config V) (lowMemory : Bool) (hs : List (Nat × List (Env V))) : List (Nat × Env V) :=
  (hs.flatMap fun h => h.2.map fun r => (h.1, r)).filter fun r => Gen.mc_stacked cfg.cols lowMemory r.2

end ZV.MC
