/-
Model of stochastic / conditional treatment plans (C05 `stoch_numer`, C14):

* the assignment loop shared by `StochasticIPTW.fit` (weight numerator), `StochasticTMLE.fit`
  (clever-covariate numerator and the Monte-Carlo treatment assignment): start from NaN and, for each
  (condition, payload) pair **in listing order**, overwrite the rows the condition selects;
* `StochasticIPTW`: weight = plan probability of the treatment received / fitted probability of the
  treatment received (× frequency weight), marginal outcome = `np.average(Y, weights=ipw)`;
* the closed-form mixture `Σ_s (N_s/N)(π_s ȳ_{s1} + (1-π_s) ȳ_{s0})`;
* the simulating estimators (`TimeFixedGFormula.fit_stochastic`, `StochasticTMLE.fit` step 4) as
  functions of the captured draws.

Conditions are evaluated by Python `eval` on the data frame; they enter the model as the resulting
boolean mask (a function of the row id).  Fitted values are parameters (DESIGN §3.2).
Import-free: compiled into the native driver and the subject of the theorems in `Props/C05`, `Props/C14`.
-/
import ZepidVerif.Model.Std
namespace ZV.Stoch
open ZV ZV.Std

/-- the loop `x = nan; for c, v in zip(conditional, vals): x = np.where(eval(c), v, x)` at row `i`:
    later pairs overwrite earlier ones; a row no condition selects stays NaN (`none`) -/
def overwrite {β : Type} (conds : List ((Nat → Bool) × (Nat → β))) (i : Nat) : Option β :=
  conds.foldl (fun acc c => if c.1 i then some (c.2 i) else acc) none

/-- one (condition, probability) pair of a conditional plan -/
structure Cond (F : Type) where
  mask : Nat → Bool
  p : F

/-- a treatment plan: `p` a float and `conditional=None`, or a list of (condition, p) pairs -/
inductive Plan (F : Type) where
  | uncond (p : F)
  | cond (cs : List (Cond F))

section
variable {F : Type} [Add F] [Sub F] [Mul F] [Div F] [NatCast F]

/-- `np.where(A == 1, p, 1 - p)`: probability `p` gives to the treatment received -/
def recv (a : Bool) (p : F) : F := if a then p else ((1 : Nat) : F) - p

/-- the payload list of the numerator loop for a row with treatment `a` -/
def numerPairs (a : Bool) (cs : List (Cond F)) : List ((Nat → Bool) × (Nat → F)) :=
  cs.map fun c => (c.mask, fun _ => recv a c.p)

/-- numerator of the stochastic weight / of StochasticTMLE's clever covariate for row `r` -/
def planNumer (pl : Plan F) (r : Row F) : Option F :=
  match pl with
  | .uncond p => some (recv r.a p)
  | .cond cs => overwrite (numerPairs r.a cs) r.i

/-- StochasticIPTW row weight: `_numer_ / _denom_` (`_denom_ = np.where(A==1, g, 1-g)`), times the
    frequency weight (1 when none was given) -/
def stochWeight (pl : Plan F) (g : Row F → F) (r : Row F) : Option F :=
  (planNumer pl r).map fun nu => nu / recv r.a (g r) * r.w

/-- total version used inside sums: a NaN weight is replaced by 0 (the result is discarded then) -/
def stochW (pl : Plan F) (g : Row F → F) (r : Row F) : F := (stochWeight pl g r).getD ((0 : Nat) : F)

/-- `StochasticIPTW.marginal_outcome = np.average(Y, weights=ipw)` over the rows kept by
    `check_input_data` (complete cases); NaN as soon as one row has no numerator -/
def stochIptw (pl : Plan F) (g : Row F → F) (l : List (Row F)) : Option F :=
  if l.all (fun r => (planNumer pl r).isSome) then
    some (sumBy (fun r => r.y * stochW pl g r) l / sumBy (fun r => stochW pl g r) l)
  else none

/-- StochasticTMLE clever covariate `numerator / _denominator_` -/
def haw (pl : Plan F) (g : Row F → F) (r : Row F) : Option F :=
  (planNumer pl r).map fun nu => nu / recv r.a (g r)

/-- standardized mixture for plan probabilities `π` given per covariate stratum:
    `Σ_s N_s (π_s ȳ_{s1} + (1-π_s) ȳ_{s0}) / Σ_s N_s`, `N_s` the weight of the target rows (`tm`) in stratum `s` -/
def mixture (l : List (Row F)) (S : List Nat) (tm : Row F → Bool) (π : Nat → F) : F :=
  sumBy (fun s => Ntgt tm l s * (π s * cellMean l s true + (((1 : Nat) : F) - π s) * cellMean l s false)) S /
  sumBy (fun s => Ntgt tm l s) S

/-! ### The simulating estimators as functions of the draws -/

/-- Monte-Carlo treatment assignment of `StochasticTMLE.fit` for one resample: for every condition, in
    listing order, one vector of Bernoulli draws (for all rows) is made and written where the condition holds -/
def mcAssign (cds : List ((Nat → Bool) × (Nat → Bool))) (i : Nat) : Option Bool := overwrite cds i

/-- treated set of `TimeFixedGFormula.fit_stochastic` for one resample: the concatenation, in listing
    order, of the index sets chosen within each condition; treatment = membership -/
def gfAssign (chosen : List (List Nat)) (i : Nat) : Bool := (chosen.flatMap id).contains i

/-- mean over the target rows of the outcome prediction at the assigned treatment (one resample of the
    stochastic g-formula; also one resample of StochasticTMLE with update `upd`, target = everyone) -/
def mcMean (l : List (Row F)) (Q : Row F → Bool → F) (upd : F → F) (tm : Row F → Bool) (asg : Row F → Bool) : F :=
  sumIf tm (fun r => r.w * upd (Q r (asg r))) l / W tm l

/-- `np.mean(marginals)` over the resamples -/
def meanOf (xs : List F) : F := sumBy (fun x => x) xs / ((xs.length : Nat) : F)

/-- realised treated fraction, under an assignment, of the target rows of stratum `s` -/
def realised (l : List (Row F)) (tm : Row F → Bool) (asg : Row F → Bool) (s : Nat) : F :=
  W (fun r => inStratum s r && tm r && asg r) l / Ntgt tm l s

end

/-- size of the treated set requested from `np.random.choice`: `int(p * n)`; `fl` is the carrier's floor
    (truncation of a non-negative number) -/
def planSize {F : Type} [Mul F] [NatCast F] (fl : F → Nat) (p : F) (n : Nat) : Nat := fl (p * ((n : Nat) : F))

/-- StochasticTMLE step 4: `odds_to_probability(exp(log(probability_to_odds(q)) + ε))` -/
def tmleUpd {F : Type} [Add F] [Sub F] [Div F] [NatCast F] [Transc F] (ε : F) (q : F) : F :=
  let o := Transc.exp (Transc.log (q / (((1 : Nat) : F) - q)) + ε)
  o / (((1 : Nat) : F) + o)

end ZV.Stoch
