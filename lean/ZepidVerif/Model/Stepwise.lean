/-
Model of the AIC-driven search of `zepid.superlearner.estimators.StepwiseSL.fit`
(backward elimination / forward selection over the columns of the interaction-expanded design).

The GLM fits are the parameter `aic : List Nat → Option F`: the AIC statsmodels reports for the model with an
intercept and the listed columns, `none` when it is NaN.  Columns are natural numbers `0 … p-1`.
Import-free.
-/
namespace ZV.Stepwise

inductive Dir where
  | backward
  | forward
  deriving DecidableEq, Repr

/-- `combinations(cols, len(cols) - 1)` in itertools order: the subset omitting the last column first,
    the subset omitting the first column last -/
def dropOne : List Nat → List (List Nat)
  | [] => []
  | c :: cs => (dropOne cs).map (fun t => c :: t) ++ [cs]

/-- `best_cols + (var,)` for every `var in vars_to_select` -/
def addOne (cols avail : List Nat) : List (List Nat) := avail.map (fun v => cols ++ [v])

/-- the alternatives examined from the current model -/
def steps (d : Dir) (cols avail : List Nat) : List (List Nat) :=
  match d with
  | .backward => if cols.isEmpty then [] else dropOne cols
  | .forward => addOne cols avail

/-- the starting model: all columns (backward) or the intercept only (forward) -/
def startCols (d : Dir) (p : Nat) : List Nat :=
  match d with
  | .backward => List.range p
  | .forward => []

section
variable {F : Type} [LT F] [LE F] [DecidableLT F] [DecidableLE F]

/-- the inner `for alt in …` loop: the first alternative with the strictly smallest AIC; a NaN AIC never wins
    (`NaN < x` is false).  `none` = no alternative with a comparable AIC (`best_alt_aic` stays `inf`). -/
def bestAlt (aic : List Nat → Option F) : List (List Nat) → Option (List Nat × F) → Option (List Nat × F)
  | [], best => best
  | alt :: alts, best =>
    match aic alt, best with
    | some a, none => bestAlt aic alts (some (alt, a))
    | some a, some (bc, ba) => if a < ba then bestAlt aic alts (some (alt, a)) else bestAlt aic alts (some (bc, ba))
    | none, _ => bestAlt aic alts best

/-- result of the search -/
structure Result (F : Type) where
  cols : List Nat             -- `cols_optim`
  aic : F                     -- `model_optim.aic`
  visited : List (List Nat)   -- GLM fits requested after the starting model, in order
  done : Bool                 -- false = fuel exhausted (never happens for fuel ≥ p + 1)

/-- the `while best_aic >= best_alt_aic` loop.  State: current model, its AIC, the columns still selectable
    (forward only).  One unit of fuel per pass. -/
def loop (d : Dir) (aic : List Nat → Option F) :
    Nat → List Nat → F → List Nat → List (List Nat) → Result F
  | 0, cols, a, _, vis => ⟨cols, a, vis, false⟩
  | fuel + 1, cols, a, avail, vis =>
    let alts := steps d cols avail
    match bestAlt aic alts none with
    | none => ⟨cols, a, vis ++ alts, true⟩
    | some (bc, ba) =>
      if ba ≤ a then
        loop d aic fuel bc ba (avail.filter (fun v => !bc.contains v)) (vis ++ alts)
      else ⟨cols, a, vis ++ alts, true⟩

/-- `StepwiseSL.fit` on a design with `p` columns: start from the full (backward) or the intercept-only
    (forward) model; a NaN AIC of the starting model is an error (backward: the explicit `ValueError`;
    forward: the loop body never runs and `best_model` is unbound). -/
def search (d : Dir) (aic : List Nat → Option F) (p : Nat) : Option (Result F) :=
  match aic (startCols d p) with
  | none => none
  | some a0 => some (loop d aic (p + 1) (startCols d p) a0 (List.range p) [])

/-- the same loop with the three pieces of column bookkeeping supplied from outside — the alternatives examined from the
    current model, the `break` test at the top of a pass, and the update of the selectable columns after an accepted
    step (`Model/StepwiseGen.lean` plugs in the definitions regenerated from `StepwiseSL.fit`) -/
def loopWith (stepsF : List Nat → List Nat → List (List Nat)) (breakF : List Nat → Bool)
    (availF : List Nat → List Nat → List Nat) (aic : List Nat → Option F) :
    Nat → List Nat → F → List Nat → List (List Nat) → Result F
  | 0, cols, a, _, vis => ⟨cols, a, vis, false⟩
  | fuel + 1, cols, a, avail, vis =>
    if breakF cols then ⟨cols, a, vis, true⟩
    else
      let alts := stepsF cols avail
      match bestAlt aic alts none with
      | none => ⟨cols, a, vis ++ alts, true⟩
      | some (bc, ba) =>
        if ba ≤ a then
          loopWith stepsF breakF availF aic fuel bc ba (availF avail bc) (vis ++ alts)
        else ⟨cols, a, vis ++ alts, true⟩

end
end ZV.Stepwise
