/-
Model of the split / pairing / call bookkeeping of the cross-fit estimators of
zepid/causal/doublyrobust/crossfit.py (SingleCrossfitAIPTW, DoubleCrossfitAIPTW,
SingleCrossfitTMLE, DoubleCrossfitTMLE): `_sample_split_`, the pairing lists
`[i - 1 …]`, `[i - 2 …]` (Python negative indexing made explicit), and the sequence of
`fit` / `predict` calls `_single_crossfit_` issues to the user's learners.

Rows are identified by natural numbers (the row identifiers of the analysed frame; after
`check_input_data` the frame has a fresh `RangeIndex`).  The only external call,
`DataFrame.sample(n=m, random_state=…)`, is the parameter `pick`.
Import-free: compiled into the native driver and the subject of `Props/C04.lean`.
-/
namespace ZV.Crossfit

/-- rows of `rem` not in `s`:  `data_to_sample.loc[data_to_sample.index.difference(s.index)]`
    (`Index.difference` returns the labels in sorted order; `rem` is kept sorted, so filtering
    preserves exactly that order). -/
def remove (rem s : List Nat) : List Nat := rem.filter (fun r => !s.contains r)

/-- the loop of `_sample_split_`: `t` more samples of `m` rows each, the remainder last -/
def splitGo (pick : List Nat → Nat → List Nat) (m : Nat) : Nat → List Nat → List (List Nat)
  | 0, rem => [rem]
  | t + 1, rem =>
    let s := pick rem m
    s :: splitGo pick m t (remove rem s)

/-- `_sample_split_(data, n_splits=k)`: `n = int(data.shape[0] / n_splits)`, `k - 1` draws -/
def sampleSplit (pick : List Nat → Nat → List Nat) (rows : List Nat) (k : Nat) : List (List Nat) :=
  splitGo pick (rows.length / k) (k - 1) rows

/-- Python's `models[i - d]` for `0 ≤ i < k`, `d ≤ k`: a negative index counts from the end -/
def pairIdx (k i d : Nat) : Nat := (i + k - d) % k

/-- which nuisance model a call belongs to -/
inductive Nuis where
  | trt   -- exposure / treatment model
  | out   -- outcome model
  deriving DecidableEq, Repr

/-- One call received by a user-supplied learner.
    `fit nu j rows`: the `j`-th deep copy of learner `nu` is fitted on `rows`.
    `pred nu j arm rows`: fitted copy `j` of learner `nu` predicts `rows`;
    `arm = 0` covariates as observed (treatment model), `1` exposure set to 1, `2` exposure set to 0. -/
inductive Ev where
  | fit (nu : Nuis) (j : Nat) (rows : List Nat)
  | pred (nu : Nuis) (j : Nat) (arm : Nat) (rows : List Nat)
  deriving DecidableEq, Repr

/-- `_treatment_nuisance_` / `_outcome_nuisance_`: one deep copy fitted per split, in order -/
def fitEvents (nu : Nuis) (splits : List (List Nat)) : List Ev :=
  splits.zipIdx.map (fun p => Ev.fit nu p.2 p.1)

/-- `_generate_predictions_` for split `i`: treatment model, then the outcome model twice -/
def predEvents (k dA dY : Nat) (p : List Nat × Nat) : List Ev :=
  [Ev.pred .trt (pairIdx k p.2 dA) 0 p.1,
   Ev.pred .out (pairIdx k p.2 dY) 1 p.1,
   Ev.pred .out (pairIdx k p.2 dY) 2 p.1]

/-- offset of the outcome pairing: `[i - 1 …]` (single) or `[i - 2 …]` (double cross-fit) -/
def outOffset (double : Bool) : Nat := if double then 2 else 1

/-- the complete call sequence of one `_single_crossfit_` -/
def schedule (double : Bool) (splits : List (List Nat)) : List Ev :=
  fitEvents .trt splits ++ fitEvents .out splits ++
    splits.zipIdx.flatMap (predEvents splits.length 1 (outOffset double))

/-- `fit(n_splits=k)` argument check of the four classes -/
def minSplits (double : Bool) : Nat := if double then 3 else 2

/-- one partition: reject what `fit` rejects, otherwise split and issue the calls -/
def crossfit (double : Bool) (pick : List Nat → Nat → List Nat) (rows : List Nat) (k : Nat) :
    Option (List (List Nat) × List Ev) :=
  if k < minSplits double then none
  else
    let s := sampleSplit pick rows k
    some (s, schedule double s)

/-! ### A checker for observed call sequences (the predicate gate D evaluates, in model form) -/

/-- the fit call of copy `(nu, j)` -/
def fitRows (nu : Nuis) (j : Nat) : Ev → Option (List Nat)
  | .fit nu' j' rows => if nu' = nu ∧ j' = j then some rows else none
  | _ => none

/-- training rows of copy `(nu, j)` in a call sequence (every copy is fitted once; the first fit is reported) -/
def trainOf (evs : List Ev) (nu : Nuis) (j : Nat) : Option (List Nat) := evs.findSome? (fitRows nu j)

/-- no prediction call asks a fitted copy about a row it was trained on -/
def leakFree (evs : List Ev) : Bool :=
  evs.all fun e => match e with
    | .pred nu j _ rows =>
      match trainOf evs nu j with
      | some tr => rows.all (fun r => !tr.contains r)
      | none => false
    | _ => true

/-- the rows of a prediction call for `(nu, arm)` -/
def predRows (nu : Nuis) (arm : Nat) : Ev → List Nat
  | .pred nu' _ arm' rows => if nu' = nu ∧ arm' = arm then rows else []
  | _ => []

/-- rows predicted for `(nu, arm)`, in call order -/
def predictedRows (evs : List Ev) (nu : Nuis) (arm : Nat) : List Nat := evs.flatMap (predRows nu arm)

/-- chooser given as a table (the splits observed on the implementation): the draw made from a remainder of
    length `L` is the table entry recorded for `L`; an unknown length yields the empty draw -/
def tablePick (tab : List (Nat × List Nat)) : List Nat → Nat → List Nat :=
  fun rem _ => match tab.find? (fun p => p.1 == rem.length) with
    | some p => p.2
    | none => []

end ZV.Crossfit
