/-
TMLE targeting step (zepid/causal/doublyrobust/TMLE.py `TMLE.fit`, lines 426-518, and
zepid/causal/doublyrobust/crossfit.py `targeting_step` / the point estimates of `tmle_calculator`).

Import-free and generic in the carrier.  What zEpid asks of other libraries enters as parameters:

* `σ`   = `scipy.stats.logistic.cdf` and the inverse logit link of the fluctuation GLM's `predict`,
* `lg`  = `np.log(probability_to_odds(·))`,
* `e1 e2` = the two coefficients returned by `sm.GLM(y, [H1W, H0W], offset=lg QAW, Binomial, missing='drop').fit()`.

The model never fits the GLM.  `expit` / `logitT` below are the concrete `σ` / `lg` in terms of the carrier's
`exp` / `log` (used by the driver at `Float`, and by the ℝ instantiation in `Props/C03.lean`).

Sign conventions are those of the code:  `H1W = A / g1`,  `H0W = −(1 − A) / g0`,
`Q*1 = σ(lg Q1 + ε[0] / g1)`,  `Q*0 = σ(lg Q0 − ε[1] / g0)`,  `Q*A = σ((ε[0]·H1W + ε[1]·H0W) + lg QAW)`.
-/
import ZepidVerif.Model.Core
import ZepidVerif.Gen.Weights
namespace ZV.Tmle

/-- one row as `TMLE.fit` sees it: treatment, outcome-observed flag (`__missing_indicator__ == 1`), outcome on the
    unit scale (ignored when `obs = false`), initial predictions `QA1W QA0W` (already clipped by `outcome_model`),
    and the *total* probabilities `g1W_total g0W_total` -/
structure TRow (F : Type) where
  a : Bool
  obs : Bool
  y : F
  q1 : F
  q0 : F
  g1 : F
  g0 : F

/-- a pair of targeted predictions (all-treated, none-treated) of one row -/
structure QS (F : Type) where
  s1 : F
  s0 : F

section
variable {F : Type} [Add F] [Sub F] [Mul F] [Div F] [Neg F] [NatCast F]

/-- the treatment indicator as a number (`check_input_data(binary_exposure_only=True)` guarantees 0/1) -/
def ind (a : Bool) : F := if a then ((1 : Nat) : F) else ((0 : Nat) : F)

/-- `g1W_total = g1W * m1W` when a missing-outcome model was fitted (and outcomes are missing), else `g1W` -/
def gTotal (useMiss : Bool) (g m : F) : F := if useMiss then g * m else g

/-- `H1W = A / g1W_total` -/
def h1 (r : TRow F) : F := ind r.a / r.g1
/-- `H0W = -(1 - A) / g0W_total` -/
def h0 (r : TRow F) : F := -(((1 : Nat) : F) - ind r.a) / r.g0
/-- `HAW = H1W + H0W` -/
def haw (r : TRow F) : F := h1 r + h0 r
/-- `QAW = QA1W * A + QA0W * (1 - A)` -/
def qa (r : TRow F) : F := r.q1 * ind r.a + r.q0 * (((1 : Nat) : F) - ind r.a)

/-- `Qstar1 = logistic.cdf(log(odds(QA1W)) + epsilon[0] / g1W_total)` -/
def qstar1 (σ lg : F → F) (e1 : F) (r : TRow F) : F := σ (lg r.q1 + e1 / r.g1)
/-- `Qstar0 = logistic.cdf(log(odds(QA0W)) - epsilon[1] / g0W_total)` -/
def qstar0 (σ lg : F → F) (e2 : F) (r : TRow F) : F := σ (lg r.q0 - e2 / r.g0)
/-- `Qstar = log.predict([H1W, H0W], offset=log(odds(QAW)))` = inverse link of `X·ε + offset` -/
def qstarA (σ lg : F → F) (e1 e2 : F) (r : TRow F) : F := σ ((e1 * h1 r + e2 * h0 r) + lg (qa r))

/-- rows the fluctuation GLM uses (`missing='drop'`: rows whose outcome is NaN are dropped) -/
def obsRows (l : List (TRow F)) : List (TRow F) := l.filter (·.obs)

/-- score equations of the fluctuation GLM itself (canonical link): `Σ_{Δ=1} H_k (Y − Q*A)`, k = 1, 0 -/
def scoreH1 (σ lg : F → F) (e1 e2 : F) (l : List (TRow F)) : F :=
  sumBy (fun r => h1 r * (r.y - qstarA σ lg e1 e2 r)) (obsRows l)
def scoreH0 (σ lg : F → F) (e1 e2 : F) (l : List (TRow F)) : F :=
  sumBy (fun r => h0 r * (r.y - qstarA σ lg e1 e2 r)) (obsRows l)

/-- efficient-score sums of the property: `Σ_{Δ=1} A/g1·(Y − Q*)` and `Σ_{Δ=1} (1−A)/g0·(Y − Q*)`,
    with `Q*` the targeted prediction under the observed treatment … -/
def effA1 (σ lg : F → F) (e1 e2 : F) (l : List (TRow F)) : F :=
  sumBy (fun r => ind r.a / r.g1 * (r.y - qstarA σ lg e1 e2 r)) (obsRows l)
def effA0 (σ lg : F → F) (e1 e2 : F) (l : List (TRow F)) : F :=
  sumBy (fun r => (((1 : Nat) : F) - ind r.a) / r.g0 * (r.y - qstarA σ lg e1 e2 r)) (obsRows l)
/-- … and with the counterfactual predictions `Q*1`, `Q*0` that the plug-in estimates are built from -/
def eff1 (σ lg : F → F) (e1 : F) (l : List (TRow F)) : F :=
  sumBy (fun r => ind r.a / r.g1 * (r.y - qstar1 σ lg e1 r)) (obsRows l)
def eff0 (σ lg : F → F) (e2 : F) (l : List (TRow F)) : F :=
  sumBy (fun r => (((1 : Nat) : F) - ind r.a) / r.g0 * (r.y - qstar0 σ lg e2 r)) (obsRows l)

/-- `np.nanmean` / `np.mean` of a per-row quantity (no NaN can occur in `Qstar1/Qstar0`) -/
def mean {α : Type} (f : α → F) (l : List α) : F := sumBy f l / ((l.length : Nat) : F)

/-- targeted pairs of all rows for one pair of fluctuation coefficients -/
def targets (σ lg : F → F) (e1 e2 : F) (l : List (TRow F)) : List (QS F) :=
  l.map fun r => ⟨qstar1 σ lg e1 r, qstar0 σ lg e2 r⟩

/-! plug-in estimates as functions of the list of targeted pairs (shared by `TMLE.fit` and `tmle_calculator`) -/
def risk1Of (t : List (QS F)) : F := mean (·.s1) t
def risk0Of (t : List (QS F)) : F := mean (·.s0) t
/-- `np.nanmean(Qstar1 - Qstar0)` -/
def rdOf (t : List (QS F)) : F := mean (fun p => p.s1 - p.s0) t
/-- `np.nanmean(Qstar1) / np.nanmean(Qstar0)` -/
def rrOf (t : List (QS F)) : F := risk1Of t / risk0Of t
/-- `(m1 / (1 - m1)) / (m0 / (1 - m0))` -/
def orOf (t : List (QS F)) : F :=
  (risk1Of t / (((1 : Nat) : F) - risk1Of t)) / (risk0Of t / (((1 : Nat) : F) - risk0Of t))
end

section
variable {F : Type} [Add F] [Sub F] [Mul F] [Div F] [Neg F] [NatCast F]
  [LT F] [LE F] [DecidableLT F] [DecidableLE F]

/-- `np.nanmean(unbound(Qstar1) - unbound(Qstar0))` -/
def ateOf (mini maxi : F) (t : List (QS F)) : F :=
  mean (fun p => Gen.tmle_unit_unbound p.s1 mini maxi - Gen.tmle_unit_unbound p.s0 mini maxi) t

/-- cross-fit: each split has its own fluctuation coefficients; the targeted pairs are concatenated in split order
    (`targeting_step` appends per split; `tmle_calculator` takes plug-ins of the concatenation) -/
def cfTargets (σ lg : F → F) (splits : List (F × F × List (TRow F))) : List (QS F) :=
  splits.flatMap fun s => targets σ lg s.1 s.2.1 s.2.2
end

/-! ### concrete `σ`, `lg` and the influence-curve standard errors (carrier with exp/log/sqrt) -/
section
variable {F : Type} [Add F] [Sub F] [Mul F] [Div F] [Neg F] [NatCast F]
  [LT F] [LE F] [DecidableLT F] [DecidableLE F] [DecidableEq F] [Transc F]

/-- `scipy.stats.logistic.cdf` = inverse logit -/
def expit (x : F) : F := ((1 : Nat) : F) / (((1 : Nat) : F) + Transc.exp (-x))
/-- `np.log(probability_to_odds(p))` -/
def logitT (p : F) : F := Transc.log (p / (((1 : Nat) : F) - p))

/-- `np.nanvar(ic, ddof=1)` -/
def var1 {α : Type} (f : α → F) (l : List α) : F :=
  let m := mean f l
  sumBy (fun r => (f r - m) * (f r - m)) l / (((l.length - 1 : Nat)) : F)

/-- `np.sqrt(np.nanvar(ic, ddof=1) / n)` -/
def seIC {α : Type} (f : α → F) (l : List α) : F := Transc.sqrt (var1 f l / ((l.length : Nat) : F))

/-- `zalpha`: the constant 1.96 when `alpha == 0.05` (the code's deliberate R compatibility, finding F12 of C06),
    the normal quantile otherwise -/
def zalpha (ppf : F → F) (alpha : F) : F :=
  if alpha = ((5 : Nat) : F) / ((100 : Nat) : F) then ((196 : Nat) : F) / ((100 : Nat) : F)
  else ppf (((1 : Nat) : F) - alpha / ((2 : Nat) : F))

/-- everything `TMLE.fit` computes after the GLM fit, for one row list and one pair of coefficients -/
structure Fit (F : Type) where
  sA : List F
  s1 : List F
  s0 : List F
  rd : F
  rdSe : F
  rr : F
  rrSe : F
  or_ : F
  orSe : F

def fitBinary (σ lg : F → F) (e1 e2 : F) (l : List (TRow F)) : Fit F :=
  let t := targets σ lg e1 e2 l
  let m1 := risk1Of t
  let m0 := risk0Of t
  let rd := rdOf t
  let one : F := ((1 : Nat) : F)
  let qA := qstarA σ lg e1 e2
  let q1 := qstar1 σ lg e1
  let q0 := qstar0 σ lg e2
  -- the three influence curves, as written in the code (np.where(delta == 1, ·, ·))
  let icRD := fun r : TRow F =>
    if r.obs then haw r * (r.y - qA r) + (q1 r - q0 r) - rd else (q1 r - q0 r) - rd
  let icRR := fun r : TRow F =>
    if r.obs then one / m1 * (h1 r * (r.y - qA r) + q1 r - m1) - (one / m0) * (-one * h0 r * (r.y - qA r) + q0 r - m0)
    else (one / m1) * (q1 r - m1) - (one / m0) * (q0 r - m0)
  let icOR := fun r : TRow F =>
    if r.obs then (one / (m1 * (one - m1)) * (h1 r * (r.y - qA r) + q1 r)) -
                  (one / (m0 * (one - m0)) * (-one * h0 r * (r.y - qA r) + q0 r))
    else (one / (m1 * (one - m1)) * q1 r - (one / (m0 * (one - m0)) * q0 r))
  { sA := l.map qA, s1 := l.map q1, s0 := l.map q0,
    rd := rd, rdSe := seIC icRD l, rr := rrOf t, rrSe := seIC icRR l, or_ := orOf t, orSe := seIC icOR l }

/-- continuous outcome: ATE and its influence-curve SE (`rd`/`rdSe` fields carry ATE / SE; ratio fields unused) -/
def fitContinuous (σ lg : F → F) (e1 e2 mini maxi : F) (l : List (TRow F)) : Fit F :=
  let t := targets σ lg e1 e2 l
  let ate := ateOf mini maxi t
  let ub := fun v : F => Gen.tmle_unit_unbound v mini maxi
  let qA := qstarA σ lg e1 e2
  let q1 := qstar1 σ lg e1
  let q0 := qstar0 σ lg e2
  let ic := fun r : TRow F =>
    if r.obs then haw r * (ub r.y - ub (qA r)) + (ub (q1 r) - ub (q0 r)) - ate else ub (q1 r) - ub (q0 r) - ate
  { sA := l.map qA, s1 := l.map q1, s0 := l.map q0,
    rd := ate, rdSe := seIC ic l, rr := ate, rrSe := ate, or_ := ate, orSe := ate }

/-- `[est - z*se, est + z*se]` -/
def ciLin (est z se : F) : F × F := (est - z * se, est + z * se)
/-- `[exp(log est - z*se), exp(log est + z*se)]` -/
def ciLog (est z se : F) : F × F :=
  (Transc.exp (Transc.log est - z * se), Transc.exp (Transc.log est + z * se))

end
end ZV.Tmle
