/-
Model of `zepid/causal/causalgraph/dag.py` (class `DirectedAcyclicGraph`).  Import-free: compiled into the
native driver and the subject of the theorems in `ZepidVerif/Props/C18.lean`.

Graphs are node lists (networkx insertion order) plus edge lists over `Nat` (the harness maps zEpid's string
labels to numbers).  networkx's `descendants / ancestors / has_path / is_directed_acyclic_graph` are not taken
as parameters: reachability is re-implemented here (`reach`) and proved equal to `Relation.ReflTransGen` of the
edge relation (`P18.reach_iff`), so those four calls enter the trusted base only through gate K/H (measured).

`reach` is not a fuelled breadth-first search: it inserts the edges one at a time into a table
`node ↦ nodes reachable from it` (a path through the new edge `(a,b)` is a path to `a` followed by a path from
`b`).  This needs no fuel, is polynomial, and its correctness is an induction over the edge list.
-/
import ZepidVerif.Model.Core
namespace ZV.Dag

abbrev Edge := Nat × Nat

/-- a networkx `DiGraph`: nodes in insertion order, edges in insertion order -/
structure Graph where
  nodes : List Nat
  edges : List Edge
  deriving Repr, DecidableEq

/-! ### Reachability -/

/-- remove repeated entries (order irrelevant where it is used) -/
def dedup : List Nat → List Nat
  | [] => []
  | a :: l => if (dedup l).contains a then dedup l else a :: dedup l

/-- table `node ↦ list of nodes reachable from it (including itself)` -/
abbrev Tab := List (Nat × List Nat)

/-- a node without a row has no outgoing edge: it reaches only itself -/
def tlookup (T : Tab) (u : Nat) : List Nat :=
  match T.find? (fun p => p.1 == u) with
  | some p => p.2
  | none => [u]

/-- insert edge `e = (a,b)`: every node that reaches `a` now also reaches everything `b` reaches -/
def tstep (T : Tab) (e : Edge) : Tab :=
  let r2 := tlookup T e.2
  T.map (fun p => if p.2.contains e.1 then (p.1, p.2 ++ r2.filter (fun w => !p.2.contains w)) else p)

def rtab (V : List Nat) : List Edge → Tab
  | [] => V.map (fun u => (u, [u]))
  | e :: E => tstep (rtab V E) e

/-- reachability table of an edge list (one row per node that has an outgoing edge) -/
def reachTab (E : List Edge) : Tab := rtab (dedup (E.map (·.1))) E

/-- nodes reachable from `u` along edges of `E` (reflexive) -/
def reach (E : List Edge) (u : Nat) : List Nat := tlookup (reachTab E) u

/-- `networkx.descendants(G, x)`: reachable, excluding `x` itself -/
def desc (E : List Edge) (x : Nat) : List Nat := (reach E x).filter (fun v => v != x)

/-- `networkx.ancestors(G, n)`: descendants in the reversed graph -/
def anc (E : List Edge) (n : Nat) : List Nat := (reach (E.map Prod.swap) n).filter (fun v => v != n)

/-- `networkx.is_directed_acyclic_graph`: no edge `(a,b)` with `b ⟶* a` (this includes self-loops) -/
def isAcyclic (E : List Edge) : Bool :=
  let T := reachTab E
  E.all (fun e => !(tlookup T e.2).contains e.1)

/-! ### `_check_valid_adjustment_set_` (dag.py:180-234), in the code's order -/

/-- `itertools.combinations(l, 2)` -/
def pairs : List Nat → List (Nat × Nat)
  | [] => []
  | a :: l => l.map (fun b => (a, b)) ++ pairs l

def hasEdge (E : List Edge) (a b : Nat) : Bool := E.contains (a, b)

/-- Step 2: `set_remove` = nodes that are ancestors of no member of `Z ∪ {x,y}` and are not in `Z ∪ {x,y}` -/
def removeSet (G : Graph) (x y : Nat) (Z : List Nat) : List Nat :=
  let T := reachTab (G.edges.map Prod.swap)
  let ancs := (Z ++ [x, y]).map (fun n => (tlookup T n).filter (fun v => v != n))
  G.nodes.filter (fun v => ancs.all (fun A => !A.contains v) && !(v == x || v == y) && !Z.contains v)

/-- nodes left after step 2 (`dag.remove_nodes_from(set_remove)`) -/
def keptNodes (G : Graph) (x y : Nat) (Z : List Nat) : List Nat :=
  let rm := removeSet G x y Z
  G.nodes.filter (fun v => !rm.contains v)

/-- Steps 2+3: edges between kept nodes, minus the arrows leaving the exposure -/
def bdEdges (G : Graph) (x y : Nat) (Z : List Nat) : List Edge :=
  let rm := removeSet G x y Z
  (G.edges.filter (fun e => !rm.contains e.1 && !rm.contains e.2)).filter (fun e => e.1 != x)

/-- Step 4: the `marry` list (parents of a common child that are not adjacent), collected before any is added -/
def marryList (nodes : List Nat) (E : List Edge) : List Edge :=
  nodes.flatMap (fun n =>
    let sources := (E.filter (fun e => e.2 == n)).map (·.1)
    if sources.length > 1 then
      (pairs sources).filter (fun p => !(hasEdge E p.2 p.1 || hasEdge E p.1 p.2))
    else [])

/-- Steps 4-6: moralise, drop directions, delete the adjustment set -/
def moralEdges (G : Graph) (x y : Nat) (Z : List Nat) : List Edge :=
  let e3 := bdEdges G x y Z
  let e4 := e3 ++ marryList (keptNodes G x y Z) e3
  let u5 := e4 ++ e4.map Prod.swap
  u5.filter (fun e => !Z.contains e.1 && !Z.contains e.2)

/-- `_check_valid_adjustment_set_(graph, adjustment_set)` -/
def check (G : Graph) (x y : Nat) (Z : List Nat) : Bool :=
  let descX := desc G.edges x
  if Z.any (fun z => descX.contains z) then false          -- Step 1
  else !(reach (moralEdges G x y Z) x).contains y           -- `not nx.has_path(uag, X, Y)`

/-! ### `_define_all_adjustment_sets_` and `calculate_adjustment_sets` -/

/-- `itertools.combinations(l, k)` in itertools' order -/
def combos : Nat → List Nat → List (List Nat)
  | 0, _ => [[]]
  | _ + 1, [] => []
  | k + 1, a :: l => (combos k l).map (a :: ·) ++ combos (k + 1) l

/-- all subsets, by increasing size -/
def allSubsets (l : List Nat) : List (List Nat) :=
  (List.range (l.length + 1)).flatMap (fun i => combos i l)

/-- `all_nodes.remove(exposure); all_nodes.remove(outcome)` -/
def cands (G : Graph) (x y : Nat) : List Nat := (G.nodes.erase x).erase y

/-- `self.adjustment_sets` -/
def listAll (G : Graph) (x y : Nat) : List (List Nat) :=
  (allSubsets (cands G x y)).filter (fun Z => check G x y Z)

/-- `len(min(valid_sets, key=len))` (never evaluated on an empty list by the comprehension) -/
def minLen : List (List Nat) → Nat
  | [] => 0
  | [a] => a.length
  | a :: l => min a.length (minLen l)

/-- `self.minimal_adjustment_sets`: the listed sets of minimum *size* (not inclusion-minimal sets) -/
def minimal (L : List (List Nat)) : List (List Nat) := L.filter (fun Z => Z.length == minLen L)

/-! ### The graph-editing state machine (`__init__`, `add_arrow`, `add_arrows`, `add_from_networkx`) -/

def addNode (ns : List Nat) (v : Nat) : List Nat := if ns.contains v then ns else ns ++ [v]

/-- `DiGraph.add_edge` -/
def addEdge (G : Graph) (e : Edge) : Graph :=
  { nodes := addNode (addNode G.nodes e.1) e.2,
    edges := if G.edges.contains e then G.edges else G.edges ++ [e] }

/-- `__init__`: the exposure-outcome arrow -/
def init (x y : Nat) : Graph := addEdge ⟨[], []⟩ (x, y)

/-- a networkx graph handed to `add_from_networkx`, built by `add_nodes_from(ns); add_edges_from(es)` -/
def build (ns : List Nat) (es : List Edge) : Graph := es.foldl addEdge ⟨ns.foldl addNode [], []⟩

inductive Op where
  | arrow (s t : Nat)
  | arrows (ps : List Edge)
  | fromGraph (ns : List Nat) (es : List Edge)
  deriving Repr

/-- one public call; the acyclicity test is made on a copy and the state is replaced only on success -/
def applyOp (x y : Nat) (G : Graph) : Op → Except Err Graph
  | .arrow s t =>
    let G' := addEdge G (s, t)
    if isAcyclic G'.edges then .ok G' else .error .cyclic
  | .arrows ps =>
    let G' := ps.foldl addEdge G
    if isAcyclic G'.edges then .ok G' else .error .cyclic
  | .fromGraph ns es =>
    let N := build ns es
    if !isAcyclic N.edges then .error .cyclic
    else if !N.nodes.contains x then .error .badInput
    else if !N.nodes.contains y then .error .badInput
    else .ok N

/-- state after the call and the error raised (if any): a raising call leaves `self.dag` as it was -/
def step (x y : Nat) (G : Graph) (op : Op) : Graph × Option Err :=
  match applyOp x y G op with
  | .ok G' => (G', none)
  | .error e => (G, some e)

def run (x y : Nat) (G : Graph) : List Op → Graph × List (Option Err)
  | [] => (G, [])
  | op :: ops =>
    let r := step x y G op
    let rest := run x y r.1 ops
    (rest.1, r.2 :: rest.2)

/-! ### The object: graph plus the two result attributes; `calculate_adjustment_sets` as a call among the edits -/

/-- a `DirectedAcyclicGraph` instance: `self.dag`, `self.adjustment_sets`, `self.minimal_adjustment_sets` -/
structure Obj where
  dag : Graph
  adj : Option (List (List Nat))
  minAdj : Option (List (List Nat))
  deriving Repr

/-- `DirectedAcyclicGraph(exposure=x, outcome=y)` -/
def newObj (x y : Nat) : Obj := ⟨init x y, none, none⟩

inductive Call where
  | edit (op : Op)
  | calculate
  deriving Repr

/-- one public call on the object.  The editing calls do not touch the result attributes; `calculate` always
    recomputes both from the graph as it is now (there is no cache). -/
def callStep (x y : Nat) (o : Obj) : Call → Obj × Option Err
  | .edit op => let r := step x y o.dag op; ({ o with dag := r.1 }, r.2)
  | .calculate =>
    let L := listAll o.dag x y
    ({ o with adj := some L, minAdj := some (minimal L) }, none)

/-- what the caller can see after a call: the error raised, and (after `calculate`) the two attributes -/
abbrev Obs := Option Err × Option (List (List Nat) × List (List Nat))

def observe (o : Obj) (c : Call) (e : Option Err) : Obs :=
  match c with
  | .edit _ => (e, none)
  | .calculate => (e, match o.adj, o.minAdj with | some a, some m => some (a, m) | _, _ => none)

def runObj (x y : Nat) (o : Obj) : List Call → Obj × List Obs
  | [] => (o, [])
  | c :: cs =>
    let r := callStep x y o c
    let rest := runObj x y r.1 cs
    (rest.1, observe r.1 c r.2 :: rest.2)

/-- the editing calls of a history -/
def edits : List Call → List Op
  | [] => []
  | .edit op :: cs => op :: edits cs
  | .calculate :: cs => edits cs

/-! ### Path-blocking d-separation (executable oracle; `P18.check_eq_backdoorPaths` proves `check = backdoorPaths`
     for every well-formed DAG; the driver op `dagsep` evaluates both) -/

/-- all simple paths from `cur` to `t` in the skeleton of `E`, not revisiting `vis` -/
def simplePaths (E : List Edge) (t : Nat) : Nat → Nat → List Nat → List (List Nat)
  | 0, _, _ => []
  | fuel + 1, cur, vis =>
    if cur == t then [[t]] else
    let nbrs := dedup ((E.filter (fun e => e.1 == cur)).map (·.2) ++ (E.filter (fun e => e.2 == cur)).map (·.1))
    (nbrs.filter (fun w => !(w == cur) && !vis.contains w)).flatMap
      (fun w => (simplePaths E t fuel w (cur :: vis)).map (cur :: ·))

/-- is the path blocked at its inner node `b` (neighbours `a`, `c` on the path)? -/
def blockedAt (E : List Edge) (Z : List Nat) (a b c : Nat) : Bool :=
  if hasEdge E a b && hasEdge E c b then            -- collider
    !(Z.contains b || (desc E b).any (fun d => Z.contains d))
  else Z.contains b

def pathBlocked (E : List Edge) (Z : List Nat) : List Nat → Bool
  | a :: b :: c :: rest => blockedAt E Z a b c || pathBlocked E Z (b :: c :: rest)
  | _ => false

/-- `Z` d-separates `x` and `y` in `E`: every simple path of the skeleton is blocked -/
def dsepPaths (nNodes : Nat) (E : List Edge) (x y : Nat) (Z : List Nat) : Bool :=
  (simplePaths E y (nNodes + 1) x []).all (pathBlocked E Z)

/-- back-door admissibility by path blocking: no descendant of `x` in `Z`, and `Z` d-separates `x`,`y` once the
    arrows leaving `x` are removed -/
def backdoorPaths (G : Graph) (x y : Nat) (Z : List Nat) : Bool :=
  !(Z.any (fun z => (desc G.edges x).contains z)) &&
    dsepPaths G.nodes.length (G.edges.filter (fun e => e.1 != x)) x y Z

end ZV.Dag
