/-
C08 vocabulary: the relabelling transformations of a data set (row permutation is `List.Perm`
itself), the pieces of the estimators that C08 needs beyond `Model/Std.lean` (the influence-curve
variance of AIPTW, the closed-form g-estimation equations of `GEstimationSNM`, the score
equations of a GLM as the externals' assumed behaviour), and the exposure-recoding map of the
effect-measure frames.  Import-free: compiled into the native driver (ops in `Driver/Ops/C08.lean`)
and the subject of the theorems in `Props/C08.lean`.
-/
import ZepidVerif.Model.Std
import ZepidVerif.Model.Generalize
import ZepidVerif.Model.Measures
namespace ZV.Std

/-- recode the binary treatment as `1 - A` -/
def flipRow {F : Type} (r : Row F) : Row F := { r with a := !r.a }

/-- relabel the covariate pattern (category codes) -/
def relabelRow {F : Type} (φ : Nat → Nat) (r : Row F) : Row F := { r with s := φ r.s }

/-- under `1 - A` the exposed and the unexposed exchange roles -/
def Tgt.flip : Tgt → Tgt
  | .pop => .pop | .exposed => .unexposed | .unexposed => .exposed

/-- change of units of the outcome, `Y ↦ cY + d` -/
def affRow {F : Type} [Add F] [Mul F] (c d : F) (r : Row F) : Row F := { r with y := c * r.y + d }

section
variable {F : Type} [Add F] [Sub F] [Mul F] [Div F] [NatCast F]

/-- `StochasticIPTW.fit`: row weight `Pr*(A=a) / Pr(A=a | L)` with `p` the plan's probability of treatment for the
    row and `π` the fitted propensity -/
def stochOmega (p π : Row F → F) (r : Row F) : F :=
  (if r.a then p r else ((1 : Nat) : F) - p r) / (if r.a then π r else ((1 : Nat) : F) - π r)

/-- … and the marginal outcome `np.average(Y, weights = ω·w)` over all rows -/
def stochMean (l : List (Row F)) (p π : Row F → F) : F :=
  sumBy (fun r => stochOmega p π r * (r.w * r.y)) l / sumBy (fun r => stochOmega p π r * r.w) l

/-- `np.mean` of a per-element quantity -/
def lmean {α : Type} (f : α → F) (l : List α) : F := sumBy f l / ((l.length : Nat) : F)

/-- `np.var(·, ddof=1)` of a per-element quantity -/
def svar {α : Type} (f : α → F) (l : List α) : F :=
  let m := lmean f l      -- bound once (the driver evaluates this definition: keep it O(n))
  sumBy (fun x => (f x - m) * (f x - m)) l / (((l.length : Nat) : F) - ((1 : Nat) : F))

end

section
variable {F : Type} [Add F] [Sub F] [Mul F] [Div F] [Neg F] [NatCast F]
  [LT F] [LE F] [DecidableLT F] [DecidableLE F] [DecidableEq F] [Transc F]

/-- per-row difference of the two AIPTW pseudo-outcomes (generated `aipw_calculator` lines) -/
def aipwDiff (Q : Row F → Bool → F) (g1 g0 : Row F → F) (r : Row F) : F :=
  Gen.aipw_y1 r.a r.y (Q r true) (Q r false) (g1 r) (g0 r) - Gen.aipw_y0 r.a r.y (Q r true) (Q r false) (g1 r) (g0 r)

/-- `aipw_calculator(difference=True, weights=None)`: the estimate `np.mean(y1 - y0)` -/
def aipwEst (l : List (Row F)) (Q : Row F → Bool → F) (g1 g0 : Row F → F) : F := lmean (aipwDiff Q g1 g0) l

/-- … and its variance `np.var((y1 - y0) - estimate, ddof=1) / n` (the reported SE is its square root) -/
def aipwVar (l : List (Row F)) (Q : Row F → Bool → F) (g1 g0 : Row F → F) : F :=
  let e := aipwEst l Q g1 g0
  svar (fun r => aipwDiff Q g1 g0 r - e) l / ((l.length : Nat) : F)

end
end ZV.Std

/-! ### closed-form g-estimation (`GEstimationSNM._closed_form_solver_`) -/
namespace ZV.SnmR

/-- one row as the solver sees it: treatment, outcome, weight (frequency × missingness), fitted
    `Pr(A=1|L)`, and the modifier values `V_k` of the structural nested model `A·V_0 + A·V_1 + …`
    (`V_0 = 1` for the main term) -/
structure SRow (F : Type) where
  a : Bool
  y : F
  w : F
  p : F
  v : Nat → F

section
variable {F : Type} [Add F] [Sub F] [Mul F] [Div F] [NatCast F]

def ind (a : Bool) : F := if a then ((1 : Nat) : F) else ((0 : Nat) : F)

/-- `diff = (A - pred) * w` -/
def dres (r : SRow F) : F := r.w * (ind r.a - r.p)

/-- `lhm = (snm * diff)ᵀ · snm`, entry (k, j); the SNM design column `k` is `A·V_k` -/
def lhm (l : List (SRow F)) (k j : Nat) : F :=
  sumBy (fun r => dres r * ((ind r.a * r.v k) * (ind r.a * r.v j))) l

/-- `rha = Σ diff · Y·V_k` -/
def rha (l : List (SRow F)) (k : Nat) : F := sumBy (fun r => dres r * (r.y * r.v k)) l

/-- residual of the linear system `lhm · ψ = rha` in row `k` (what `np.linalg.solve` makes zero) -/
def resid (l : List (SRow F)) (D : Nat) (ψ : Nat → F) (k : Nat) : F :=
  sumBy (fun j => lhm l k j * ψ j) (List.range D) - rha l k

/-- the one-parameter model `ψ·A` in closed form -/
def solve1 (l : List (SRow F)) : F := rha l 0 / lhm l 0 0

/-- the exposure model's score equation for the modifier `V_k` -/
def modScore (l : List (SRow F)) (k : Nat) : F := sumBy (fun r => dres r * r.v k) l

/-- … and for the product `V_k·V_j` -/
def modScore2 (l : List (SRow F)) (k j : Nat) : F := sumBy (fun r => dres r * (r.v k * r.v j)) l

def affY (c d : F) (r : SRow F) : SRow F := { r with y := c * r.y + d }
def flipA (r : SRow F) : SRow F := { r with a := !r.a, p := ((1 : Nat) : F) - r.p }

end
end ZV.SnmR

/-! ### score equations of a generalized linear model (the assumed behaviour of statsmodels) -/
namespace ZV.Glm

/-- one row of a fitted GLM: design row, response, frequency weight, fitted mean -/
structure GRow (F : Type) where
  x : Nat → F
  y : F
  w : F
  mu : F

section
variable {F : Type} [Add F] [Sub F] [Mul F] [NatCast F]

/-- linear predictor `Σ_{j<p} x_j β_j` -/
def linpred (p : Nat) (x β : Nat → F) : F := sumBy (fun j => x j * β j) (List.range p)

/-- score of design column `j` at the fitted means (canonical link): `Σ_i w_i x_ij (y_i − μ_i)` -/
def score (rows : List (GRow F)) (j : Nat) : F := sumBy (fun r => r.w * (r.x j * (r.y - r.mu))) rows

/-- design row re-expressed through the matrix `M`: `x'_k = Σ_{j<p} x_j M_jk` -/
def reparam (p : Nat) (M : Nat → Nat → F) (x : Nat → F) : Nat → F :=
  fun k => sumBy (fun j => x j * M j k) (List.range p)

def reparamRow (p : Nat) (M : Nat → Nat → F) (r : GRow F) : GRow F := { r with x := reparam p M r.x }

/-- the single-covariate affine case: column 1 re-expressed as `a·x₁ + b·x₀` (`x₀` the intercept column) -/
def affCol (a b : F) (r : GRow F) : GRow F :=
  { r with x := fun j => if j = 1 then a * r.x 1 + b * r.x 0 else r.x j }

/-- `M · β'` -/
def mulVec (p : Nat) (M : Nat → Nat → F) (β : Nat → F) : Nat → F :=
  fun j => sumBy (fun k => M j k * β k) (List.range p)

end
end ZV.Glm

namespace ZV.Measures

/-- recode the exposure levels of a frame -/
def relabelE {F : Type} (φ : Nat → Nat) (r : MRow F) : MRow F := { r with e := r.e.map φ }

end ZV.Measures
