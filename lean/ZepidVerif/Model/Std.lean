/-
Shared vocabulary of the "saturated models reproduce standardization" family (C01, C02, C05, C09, C10, C14, C16).

A data set is a list of rows; each row carries the id of its covariate stratum (the pattern of
its categorical covariates), its treatment, outcome, frequency weight and whether the outcome
was observed.  `std` is the closed-form stratum-standardized mean the properties talk about.
The estimator models take the *fitted values* of the nuisance models as parameters (functions
of the row); zEpid itself never computes them, statsmodels does (DESIGN §3.2).
Import-free: compiled into the native driver and the subject of the theorems in `Props/`.
-/
import ZepidVerif.Model.Core
import ZepidVerif.Gen.Weights
namespace ZV.Std

structure Row (F : Type) where
  i : Nat          -- row id (position in the data set; lets per-row fitted values be looked up)
  s : Nat          -- covariate stratum id
  a : Bool         -- treatment
  y : F            -- outcome (any value when `obs = false`)
  w : F            -- frequency weight (1 when the user gave none)
  obs : Bool       -- outcome observed
  deriving Repr

/-- standardization target: whole population, the exposed, the unexposed -/
inductive Tgt where
  | pop | exposed | unexposed
  deriving Repr, DecidableEq

def Tgt.mem {F : Type} (t : Tgt) (r : Row F) : Bool :=
  match t with
  | .pop => true
  | .exposed => r.a
  | .unexposed => !r.a

/-- the string zEpid uses for the target (`standardize=`) -/
def Tgt.str : Tgt → String
  | .pop => "population" | .exposed => "exposed" | .unexposed => "unexposed"

section
variable {F : Type} [Add F] [Sub F] [Mul F] [Div F] [NatCast F]

/-- indicator-weighted sum `Σ_{r ∈ l, p r} f r` -/
def sumIf (p : Row F → Bool) (f : Row F → F) (l : List (Row F)) : F :=
  sumBy (fun r => if p r then f r else ((0 : Nat) : F)) l

/-- row belongs to the (stratum, arm) cell and its outcome is observed -/
def inCell (s : Nat) (a : Bool) (r : Row F) : Bool := r.s == s && r.a == a && r.obs
/-- row belongs to the (stratum, arm) cell, outcome observed or not -/
def inCellAll (s : Nat) (a : Bool) (r : Row F) : Bool := r.s == s && r.a == a
def inStratum (s : Nat) (r : Row F) : Bool := r.s == s

/-- total weight of the rows satisfying `p` -/
def W (p : Row F → Bool) (l : List (Row F)) : F := sumIf p (fun r => r.w) l
/-- weighted outcome total of the rows satisfying `p` -/
def WY (p : Row F → Bool) (l : List (Row F)) : F := sumIf p (fun r => r.w * r.y) l

/-- weighted mean of the observed outcomes in the (stratum, arm) cell -/
def cellMean (l : List (Row F)) (s : Nat) (a : Bool) : F := WY (inCell s a) l / W (inCell s a) l

/-- weight of the target population (rows satisfying `tm`) falling in stratum `s` -/
def Ntgt (tm : Row F → Bool) (l : List (Row F)) (s : Nat) : F := W (fun r => inStratum s r && tm r) l

/-- **the closed form**: cell means of arm `a` standardized to the stratum distribution of the target -/
def std (l : List (Row F)) (S : List Nat) (tm : Row F → Bool) (a : Bool) : F :=
  sumBy (fun s => Ntgt tm l s * cellMean l s a) S / sumBy (fun s => Ntgt tm l s) S

/-- Hájek (ratio) mean of the observed outcomes of arm `a` under row weights `ω` (times the
    frequency weight): what a weighted saturated marginal structural model `Y ~ A` returns
    for the arm (DESIGN §3.2, GEE row). -/
def hajek (l : List (Row F)) (ω : Row F → F) (a : Bool) : F :=
  sumIf (fun r => r.a == a && r.obs) (fun r => ω r * (r.w * r.y)) l /
  sumIf (fun r => r.a == a && r.obs) (fun r => ω r * r.w) l

/-- g-formula: weighted mean over the target rows of the prediction under "set treatment to `a`" -/
def gformula (l : List (Row F)) (Q : Row F → Bool → F) (tm : Row F → Bool) (a : Bool) : F :=
  sumIf tm (fun r => r.w * Q r a) l / W tm l

/-- weighted mean over all rows of a per-row quantity -/
def wmean (l : List (Row F)) (f : Row F → F) : F :=
  sumBy (fun r => r.w * f r) l / sumBy (fun r => r.w) l

end

section
variable {F : Type} [Add F] [Sub F] [Mul F] [Div F] [Neg F] [NatCast F]
  [LT F] [LE F] [DecidableLT F] [DecidableLE F] [DecidableEq F] [Transc F]

/-- IPTW row weight: the generated `iptw_calculator` formula at the fitted denominator `p`
    and numerator `n`, times the inverse-probability-of-missingness weight `mw` -/
def iptwOmega (stab : Bool) (t : Tgt) (n p mw : Row F → F) (r : Row F) : F :=
  Gen.iptw_weight stab t.str r.a (n r) (p r) * mw r

/-- AIPTW mean of the pseudo-outcome for arm 1 / arm 0 (generated `aipw_calculator` lines),
    `g1`/`g0` the fitted probabilities of treatment / no treatment and `Q` the outcome predictions,
    per row (in the theorems they are functions of the row's covariate stratum: a model sees a row
    only through its covariates) -/
def aipw1 (l : List (Row F)) (Q : Row F → Bool → F) (g1 g0 : Row F → F) : F :=
  wmean l (fun r => Gen.aipw_y1 r.a r.y (Q r true) (Q r false) (g1 r) (g0 r))
def aipw0 (l : List (Row F)) (Q : Row F → Bool → F) (g1 g0 : Row F → F) : F :=
  wmean l (fun r => Gen.aipw_y0 r.a r.y (Q r true) (Q r false) (g1 r) (g0 r))

end
end ZV.Std
