/-
Model of `MonteCarloGFormula.fit` (zepid/causal/gformula/TimeVary.py:363-503): the simulation loop.

One sampled individual is a data-frame row `Env V` (column id ↦ value).  A time step performs, in the order
of the real loop,
   time_in := i ; exec(in_recode) ;
   for every covariate model in ascending label order:  column := draw ; exec(recode) ;
   exposure := plan ('all' → 1, 'none' → 0, 'natural' → draw, custom → draw, then np.where(rule, 1, 0)) ;
   outcome := draw ; time_out := i + 1 ;
   with a censoring model: uncensored := draw ; outcome := where(uncensored == 1, outcome, 0) ;
   in the last iteration (i == t_max - 1): uncensored := 0 ;
   exec(out_recode) ; lagged = {v: g[k] for k, v in lags.items()} ; g[v] = lagged[v] for every v ;
and the row stays in the loop while `outcome == 0 and uncensored == 1`.

Everything random is a *parameter*: the draws (`StepDraw`: what `_predict` returned for this individual in this
step) and the sampled baseline rows.  The `exec`/`eval` strings are modelled by a small grammar (`Assign`,
`Cond`) that the harness generates its strings from, so both sides evaluate the same program.

Import-free (compiled into the native driver, carrier `Rat`); the theorems are in `Props/C13.lean`.
-/
import ZepidVerif.Model.Core
namespace ZV.MC

/-- a data-frame row: column id ↦ value.  A structure, not a bare function type: a definition whose result type is a
    function is compiled with the extra argument (`envCov cfg i d e j`), so every lookup would re-run the whole step
    (exponential in the number of steps); a structure field is built once. -/
structure Env (V : Type) where
  get : Nat → V

instance {V : Type} : CoeFun (Env V) (fun _ => Nat → V) := ⟨Env.get⟩

/-- `g[k] = v` on one row (`noinline`: `v` is evaluated before the closure is built) -/
@[noinline] def Env.set {V : Type} (e : Env V) (k : Nat) (v : V) : Env V := ⟨fun j => if j = k then v else e.get j⟩

/-- right-hand sides of the recode grammar: `g['x']`, a literal, `+`, `*` -/
inductive Expr (V : Type) where
  | var (k : Nat)
  | const (c : V)
  | add (a b : Expr V)
  | mul (a b : Expr V)

/-- one recode statement `g[dst] = rhs` -/
structure Assign (V : Type) where
  dst : Nat
  rhs : Expr V

/-- comparison operators of the custom-treatment grammar -/
inductive Cmp where
  | eq | ne | lt | le | gt | ge

/-- custom treatment rules: comparisons combined with `&`, `|`, `~` -/
inductive Cond (V : Type) where
  | cmp (op : Cmp) (a b : Expr V)
  | and (p q : Cond V)
  | or (p q : Cond V)
  | not (p : Cond V)

/-- the `treatment` argument of `fit` -/
inductive Plan (V : Type) where
  | all
  | none
  | natural
  | custom (rule : Cond V)

/-- the columns the loop itself writes: exposure, outcome, time_in, time_out, 'uncensored' -/
structure Cols where
  a : Nat
  y : Nat
  tin : Nat
  tout : Nat
  unc : Nat

/-- one `add_covariate_model` call: integer label, predicted column, recode statements -/
structure Cov (V : Type) where
  label : Int
  col : Nat
  recode : List (Assign V)

/-- what `fit` is called with (besides the data, the draws, `sample` and `t_max`) -/
structure Config (V : Type) where
  cols : Cols
  covs : List (Cov V)          -- in the order `add_covariate_model` was called
  plan : Plan V
  cens : Bool                  -- a censoring model was specified
  inRecode : List (Assign V)
  outRecode : List (Assign V)
  lags : List (Nat × Nat)      -- (source k, target v) in dict order

/-- what `_predict` returned for this individual in one step: covariate draws in execution order, exposure,
    outcome and `uncensored` draws (unused ones are never read) -/
structure StepDraw (V : Type) where
  cov : Nat → V
  a : Bool
  y : Bool
  c : Bool

/-- result of one step: the frames each `_predict` call saw (call order), the row before the lag update, and
    the row appended to the output -/
structure StepOut (V : Type) where
  seen : List (Env V)
  pre : Env V
  out : Env V

def Expr.reads {V : Type} : Expr V → List Nat
  | .var k => [k]
  | .const _ => []
  | .add a b => a.reads ++ b.reads
  | .mul a b => a.reads ++ b.reads

def Cond.reads {V : Type} : Cond V → List Nat
  | .cmp _ a b => a.reads ++ b.reads
  | .and p q => p.reads ++ q.reads
  | .or p q => p.reads ++ q.reads
  | .not p => p.reads

/-- columns assigned by a recode string -/
def targets {V : Type} (ss : List (Assign V)) : List Nat := ss.map (·.dst)

/-- stable insertion by label (`sorted(range(n), key=labels.__getitem__)`) -/
def insertCov {V : Type} (c : Cov V) : List (Cov V) → List (Cov V)
  | [] => [c]
  | d :: ds => if c.label < d.label then c :: d :: ds else d :: insertCov c ds

/-- covariate models in execution order: ascending label, ties in call order -/
def orderCovs {V : Type} (cs : List (Cov V)) : List (Cov V) :=
  cs.foldr (fun c acc => insertCov c acc) []

/-- assign every lag target from the row `src` (pairs in dict order; a repeated target keeps the last value, as
    the dict comprehension does) -/
def applyLags {V : Type} (src : Env V) : List (Nat × Nat) → Env V → Env V
  | [], e => e
  | (k, v) :: ls, e => applyLags src ls (e.set v (src k))

/-- the lag update `lagged = {v: g[k].copy() for k, v in lags.items()}; for v in lagged: g[v] = lagged[v]`:
    every lag reads this interval's values (the row before the update), then all targets are assigned -/
def runLags {V : Type} (lags : List (Nat × Nat)) (e : Env V) : Env V := applyLags e lags e

section
variable {V : Type} [NatCast V] [Add V] [Mul V] [DecidableEq V] [LT V] [DecidableLT V] [LE V] [DecidableLE V]

/-- a 0/1 draw as a column value -/
def b2v (b : Bool) : V := if b then ((1 : Nat) : V) else ((0 : Nat) : V)

def Expr.eval : Expr V → Env V → V
  | .var k, e => e k
  | .const c, _ => c
  | .add a b, e => a.eval e + b.eval e
  | .mul a b, e => a.eval e * b.eval e

/-- `exec` of a recode string: statements run in order on the row -/
def exec : List (Assign V) → Env V → Env V
  | [], e => e
  | s :: ss, e => exec ss (e.set s.dst (s.rhs.eval e))

def Cmp.eval : Cmp → V → V → Bool
  | .eq, x, y => decide (x = y)
  | .ne, x, y => !decide (x = y)
  | .lt, x, y => decide (x < y)
  | .le, x, y => decide (x ≤ y)
  | .gt, x, y => decide (y < x)
  | .ge, x, y => decide (y ≤ x)

def Cond.eval : Cond V → Env V → Bool
  | .cmp op a b, e => op.eval (a.eval e) (b.eval e)
  | .and p q, e => p.eval e && q.eval e
  | .or p q, e => p.eval e || q.eval e
  | .not p, e => !p.eval e

/-- covariate models run in order: each sees the current row, writes its draw, then its recode runs.
    Returns the frames seen and the resulting row. -/
def runCovs : List (Cov V) → (Nat → V) → Nat → Env V → List (Env V) × Env V
  | [], _, _, e => ([], e)
  | c :: cs, d, j, e =>
    let r := runCovs cs d (j + 1) (exec c.recode (e.set c.col (d j)))
    (e :: r.1, r.2)

/-- row at the start of the step: `g[time_in] = i; exec(in_recode)` -/
def envIn (cfg : Config V) (i : Nat) (e : Env V) : Env V :=
  exec cfg.inRecode (e.set cfg.cols.tin ((i : Nat) : V))

/-- row after the covariate models -/
def envCov (cfg : Config V) (i : Nat) (d : StepDraw V) (e : Env V) : Env V :=
  (runCovs (orderCovs cfg.covs) d.cov 0 (envIn cfg i e)).2

/-- row on which a custom rule is evaluated: the exposure column holds the drawn ('natural') value -/
def envRule (cfg : Config V) (i : Nat) (d : StepDraw V) (e : Env V) : Env V :=
  (envCov cfg i d e).set cfg.cols.a (b2v d.a)

/-- row after the plan was applied = frame seen by the outcome model -/
def envPlan (cfg : Config V) (i : Nat) (d : StepDraw V) (e : Env V) : Env V :=
  match cfg.plan with
  | .all => (envCov cfg i d e).set cfg.cols.a ((1 : Nat) : V)
  | .none => (envCov cfg i d e).set cfg.cols.a ((0 : Nat) : V)
  | .natural => envRule cfg i d e
  | .custom r => (envRule cfg i d e).set cfg.cols.a (b2v (r.eval (envRule cfg i d e)))

/-- frames seen by the exposure model (not called under 'all' / 'none') -/
def seenPlan (cfg : Config V) (i : Nat) (d : StepDraw V) (e : Env V) : List (Env V) :=
  match cfg.plan with
  | .all => []
  | .none => []
  | .natural => [envCov cfg i d e]
  | .custom _ => [envCov cfg i d e]

/-- row after the outcome draw and `g[time_out] = i + 1` = frame seen by the censoring model -/
def envY (cfg : Config V) (i : Nat) (d : StepDraw V) (e : Env V) : Env V :=
  ((envPlan cfg i d e).set cfg.cols.y (b2v d.y)).set cfg.cols.tout (((i + 1 : Nat)) : V)

/-- censoring model: `uncensored := draw; outcome := where(uncensored == 1, outcome, 0)` -/
def envCens (cfg : Config V) (i : Nat) (d : StepDraw V) (e : Env V) : Env V :=
  if cfg.cens then
    let eu := (envY cfg i d e).set cfg.cols.unc (b2v d.c)
    eu.set cfg.cols.y (if eu cfg.cols.unc = ((1 : Nat) : V) then eu cfg.cols.y else ((0 : Nat) : V))
  else envY cfg i d e

/-- last iteration (`i == t_max - 1`): everyone is marked censored -/
def envLast (cfg : Config V) (tmax i : Nat) (d : StepDraw V) (e : Env V) : Env V :=
  if i + 1 = tmax then (envCens cfg i d e).set cfg.cols.unc ((0 : Nat) : V) else envCens cfg i d e

/-- row after `exec(out_recode)`, before the lag update -/
def envPre (cfg : Config V) (tmax i : Nat) (d : StepDraw V) (e : Env V) : Env V :=
  exec cfg.outRecode (envLast cfg tmax i d e)

/-- one iteration of the Monte Carlo loop for one row -/
def step (cfg : Config V) (tmax i : Nat) (d : StepDraw V) (e : Env V) : StepOut V :=
  { seen := (runCovs (orderCovs cfg.covs) d.cov 0 (envIn cfg i e)).1 ++ seenPlan cfg i d e
            ++ [envPlan cfg i d e] ++ (if cfg.cens then [envY cfg i d e] else [])
    pre := envPre cfg tmax i d e
    out := runLags cfg.lags (envPre cfg tmax i d e) }

/-- the filter at the top of the loop: `(g[outcome] == 0) & (g['uncensored'] == 1)` -/
def alive (cfg : Config V) (e : Env V) : Bool :=
  decide (e cfg.cols.y = ((0 : Nat) : V)) && decide (e cfg.cols.unc = ((1 : Nat) : V))

/-- the `low_memory` filter: `(g[outcome] > 0) | (g['uncensored'] == 0)` -/
def keep (cfg : Config V) (e : Env V) : Bool :=
  decide (((0 : Nat) : V) < e cfg.cols.y) || decide (e cfg.cols.unc = ((0 : Nat) : V))

/-- the loop `for i in range(t_max)` for one row, from iteration `i` with `fuel` iterations left -/
def simFrom (cfg : Config V) (tmax : Nat) (draws : Nat → StepDraw V) : Nat → Nat → Env V → List (StepOut V)
  | 0, _, _ => []
  | fuel + 1, i, e =>
    let r := step cfg tmax i (draws i) e
    r :: (if alive cfg r.out then simFrom cfg tmax draws fuel (i + 1) r.out else [])

/-- background preparation: `gs[outcome] = 0; g['uncensored'] = 1` -/
def initRow (cfg : Config V) (b : Env V) : Env V :=
  (b.set cfg.cols.y ((0 : Nat) : V)).set cfg.cols.unc ((1 : Nat) : V)

/-- full simulated history of one sampled individual -/
def simOne (cfg : Config V) (tmax : Nat) (draws : Nat → StepDraw V) (b : Env V) : List (StepOut V) :=
  simFrom cfg tmax draws tmax 0 (initRow cfg b)

/-- histories of all sampled individuals, `uid_g_zepid` = position in the sample -/
def simAllFrom (cfg : Config V) (tmax : Nat) (draws : Nat → Nat → StepDraw V) :
    Nat → List (Env V) → List (Nat × List (StepOut V))
  | _, [] => []
  | u, b :: bs => (u, simOne cfg tmax (draws u) b) :: simAllFrom cfg tmax draws (u + 1) bs

/-- `fit`: with no iteration `pd.concat` has nothing to concatenate and raises -/
def fit (cfg : Config V) (tmax : Nat) (draws : Nat → Nat → StepDraw V) (bases : List (Env V)) :
    Except Err (List (Nat × List (StepOut V))) :=
  if tmax = 0 then .error .badInput else .ok (simAllFrom cfg tmax draws 0 bases)

/-- `predicted_outcomes` with `low_memory=False`: all records, sorted by (uid, time_in) -/
def fullRecords (hs : List (Nat × List (StepOut V))) : List (Nat × StepOut V) :=
  hs.flatMap fun h => h.2.map fun r => (h.1, r)

/-- `predicted_outcomes` with `low_memory=True`: only the records passing the `keep` filter -/
def lowRecords (cfg : Config V) (hs : List (Nat × List (StepOut V))) : List (Nat × StepOut V) :=
  (fullRecords hs).filter fun r => keep cfg r.2.out

end
end ZV.MC
