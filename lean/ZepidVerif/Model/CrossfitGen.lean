/-
One partition of a cross-fit estimator, assembled from the definitions regenerated from
zepid/causal/doublyrobust/crossfit.py (`Gen/XfitSplit.lean`): the `n_splits` guard of `fit`, `_sample_split_`, the two
nuisance functions and the prediction loop of `_single_crossfit_`.  Hand-written here: only the glue that turns what the
generated loop hands to `_generate_predictions_` into the three learner calls that method makes (treatment copy on the
part as observed, outcome copy with the exposure set to 1 and to 0), and the naming of a fitted copy by the position of
its training part among the parts (the spy log names a copy by the position of its `fit` call).
Import-free apart from the generated file: this is what the driver's `crossfit` operation executes (gate K), and
`Props/C04_Gen.lean` proves it equal to the model `Crossfit.crossfit`.
-/
import ZepidVerif.Model.Crossfit
import ZepidVerif.Gen.XfitSplit
namespace ZV.Crossfit

/-- the four estimator classes of crossfit.py -/
inductive Cls where
  | sAIPTW | dAIPTW | sTMLE | dTMLE
  deriving DecidableEq, Repr

def Cls.double : Cls → Bool
  | .dAIPTW => true | .dTMLE => true | _ => false

/-- regenerated `n_splits` guard of the class's `fit` -/
def genMinSplits : Cls → Nat
  | .sAIPTW => Gen.min_splits_SingleCrossfitAIPTW
  | .dAIPTW => Gen.min_splits_DoubleCrossfitAIPTW
  | .sTMLE => Gen.min_splits_SingleCrossfitTMLE
  | .dTMLE => Gen.min_splits_DoubleCrossfitTMLE

/-- regenerated prediction loop of the class's `_single_crossfit_` -/
def genUses {M : Type} (c : Cls) (pick : List Nat → Nat → List Nat) (fitA fitY : List Nat → M) (rows : List Nat)
    (k : Nat) : List (Option (List Nat) × Option M × Option M) :=
  match c with
  | .sAIPTW => Gen.single_crossfit_SingleCrossfitAIPTW pick fitA fitY rows k
  | .dAIPTW => Gen.single_crossfit_DoubleCrossfitAIPTW pick fitA fitY rows k
  | .sTMLE => Gen.single_crossfit_SingleCrossfitTMLE pick fitA fitY rows k
  | .dTMLE => Gen.single_crossfit_DoubleCrossfitTMLE pick fitA fitY rows k

/-- `_generate_predictions_(sample, a_model_v, y_model_v)`: three learner calls (hand-modelled);
    a pass that hit an `IndexError` makes none -/
def evOfUse : Option (List Nat) × Option Nat × Option Nat → Option (List Ev)
  | (some rs, some ja, some jy) => some [Ev.pred .trt ja 0 rs, Ev.pred .out jy 1 rs, Ev.pred .out jy 2 rs]
  | _ => none

/-- one partition from the regenerated code: parts and call sequence; `none` = rejected by the guard or `IndexError` -/
def genCrossfit (c : Cls) (pick : List Nat → Nat → List Nat) (rows : List Nat) (k : Nat) :
    Option (List (List Nat) × List Ev) :=
  if k < genMinSplits c then none
  else
    let S := Gen.sample_split pick rows k
    let uses := genUses c pick (fun s => S.idxOf s) (fun s => S.idxOf s) rows k
    match uses.mapM evOfUse with
    | none => none
    | some preds =>
      some (S, fitEvents .trt (Gen.treatment_nuisance (fun s => s) S) ++
               fitEvents .out (Gen.outcome_nuisance (fun s => s) S) ++ preds.flatten)

end ZV.Crossfit
