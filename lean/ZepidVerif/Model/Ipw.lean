/-
Small pieces of the inverse-probability-weight classes that are not generated:
`iptw_calculator`'s bounding step in front of the generated weight formula, and the outcome-missingness
weight of `IPTW.missing_model`.  Import-free.
-/
import ZepidVerif.Model.Bounds
import ZepidVerif.Gen.Weights
namespace ZV.Ipw
variable {F : Type} [Add F] [Sub F] [Mul F] [Div F] [Neg F] [NatCast F]
  [LT F] [LE F] [DecidableLT F] [DecidableLE F] [DecidableEq F] [Transc F]

/-- `if bound: d = probability_bounds(d, bound); n = probability_bounds(n, bound)` for one row -/
def bounded (b : Option (F × F)) (x : F) : F :=
  match b with
  | none => x
  | some (lo, hi) => Bounds.clip1 lo hi x

/-- IPTW weight of one row from the *unbounded* fitted numerator `n` and denominator `d` -/
def iptwRow (stab : Bool) (std : String) (b : Option (F × F)) (a : Bool) (n d : F) : F :=
  Gen.iptw_weight stab std a (bounded b n) (bounded b d)

/-- `IPTW.missing_model`: `np.where(missing_indicator == 1, n / d, nan)` (`n = 1` when unstabilized) -/
def outcomeIpmw (stab : Bool) (b : Option (F × F)) (obs : Bool) (n d : F) : Option F :=
  if obs then some ((if stab then n else ((1 : Nat) : F)) / bounded b d) else none

end ZV.Ipw
