/-
Hand models of the places where zEpid turns (estimate, standard error, alpha) into confidence limits, and of
the variance estimators named by property C06 that are not straight-line count formulas
(those are *generated*: `ZV.Gen.*` from zepid/calc/utils.py).

  zOf / tmleZ          zalpha = norm.ppf(1 - alpha/2)            (every CI site; TMLE.fit has the 1.96 special case)
  linCI                est ∓ zalpha*se                          (differences, means; AIPTW/TMLE/StochasticTMLE/cross-fit)
  logCI / expCI        exp(log est ∓ zalpha*se)                 (ratios)
  nanvar1, icSe2       np.nanvar(ic, ddof=1) / n                  (AIPTW: causal/utils.py aipw_calculator; TMLE.fit)
  aipwDiffSe2          the AIPTW difference: ic = (y1-y0) - nanmean(y1-y0)
  pool                 crossfit.calculate_joint_estimate          (median / mean of var + (est - pooled)^2)
  msm*                 closed form of the GEE (independence, robust) covariance for the saturated MSM  Y ~ A
                       with weights w (IPTW.fit): Var(m_a) = sum_{A=a} w^2 (y-m_a)^2 / (sum_{A=a} w)^2, delta method
Import-free (compiled into the native driver).
-/
import ZepidVerif.Model.Core
namespace ZV.Ci

variable {F : Type} [Add F] [Sub F] [Mul F] [Div F] [Neg F] [NatCast F]
  [LT F] [LE F] [DecidableLT F] [DecidableLE F] [DecidableEq F] [Transc F]

/-- `zalpha = norm.ppf(1 - alpha / 2)`; `ppf` is a parameter (scipy) -/
def zOf (ppf : F → F) (alpha : F) : F := ppf (((1 : Nat) : F) - (alpha / ((2 : Nat) : F)))

/-- `TMLE.fit`: `if self.alpha == 0.05: zalpha = 1.96 else: zalpha = norm.ppf(1 - alpha/2)` (finding F12) -/
def tmleZ (ppf : F → F) (alpha : F) : F :=
  if alpha = ((5 : Nat) : F) / ((100 : Nat) : F) then ((196 : Nat) : F) / ((100 : Nat) : F) else zOf ppf alpha

/-- `[est - zalpha*se, est + zalpha*se]` -/
def linCI (est z se : F) : F × F := (est - z * se, est + z * se)

/-- `(exp(l - zalpha*se), exp(l + zalpha*se))` for a log-scale point `l` (cross-fit ratios: `l = ln_rr`) -/
def expCI (l z se : F) : F × F := (Transc.exp (l - z * se), Transc.exp (l + z * se))

/-- `(exp(log(est) - zalpha*se), exp(log(est) + zalpha*se))` (AIPTW / TMLE / calculators ratios) -/
def logCI (est z se : F) : F × F := expCI (Transc.log est) z se

/-! ### influence-curve variance -/

/-- the non-NaN entries -/
def present (l : List (Option F)) : List F := l.filterMap id

/-- `np.mean` -/
def meanL (l : List F) : F := sumBy (fun x => x) l / ((l.length : Nat) : F)

/-- sum of squared deviations from the mean -/
def ssq (xs : List F) : F := sumBy (fun x => (x - meanL xs) * (x - meanL xs)) xs

/-- `np.nanvar(ic, ddof=1)`: NaN entries are skipped, divisor is (#non-NaN - 1) -/
def nanvar1 (ic : List (Option F)) : F := ssq (present ic) / (((present ic).length - 1 : Nat) : F)

/-- `np.nanvar(ic, ddof=1) / n` with `n` = number of *all* rows (`self.df.shape[0]`, `y.shape[0]`) -/
def icSe2 (ic : List (Option F)) (n : Nat) : F := nanvar1 ic / ((n : Nat) : F)

def icSe (ic : List (Option F)) (n : Nat) : F := Transc.sqrt (icSe2 ic n)

/-- `aipw_calculator(difference=True, weights=None, splits=None)`:
    `estimate = np.nanmean(y1 - y0)`, `var = np.nanvar((y1 - y0) - estimate, ddof=1) / y.shape[0]`;
    input: the per-row pseudo-outcome differences `y1 - y0` (NaN where the outcome is missing) -/
def aipwDiff (d : List (Option F)) : F × F :=
  let est := meanL (present d)
  (est, icSe2 (d.map fun o => o.map fun x => x - est) d.length)

/-! ### pooling across cross-fit partitions -/

def insertSorted (x : F) : List F → List F
  | [] => [x]
  | y :: ys => if x ≤ y then x :: y :: ys else y :: insertSorted x ys

def sortL (l : List F) : List F := l.foldr insertSorted []

def getD0 (l : List F) (k : Nat) : F := l.getD k ((0 : Nat) : F)

/-- `np.median`: middle element of the sorted list, or the mean of the two middle elements -/
def medianL (l : List F) : F :=
  let s := sortL l
  let n := s.length
  if n % 2 = 1 then getD0 s (n / 2) else (getD0 s (n / 2 - 1) + getD0 s (n / 2)) / ((2 : Nat) : F)

inductive Method where
  | median | mean
  deriving DecidableEq, Repr

def center (m : Method) (l : List F) : F :=
  match m with
  | .median => medianL l
  | .mean => meanL l

/-- `calculate_joint_estimate(point_est, var_est, method)`:
    `single_point = center(point_est)`, `single_point_var = center(var_est + (point_est - single_point)**2)`.
    Length mismatch raises ValueError; an empty input (numpy: NaN with a warning) is outside the model. -/
def pool (m : Method) (pts vars : List F) : Except Err (F × F) :=
  if pts.length ≠ vars.length then .error .badInput else
  if pts.length = 0 then .error .badInput else
  let p := center m pts
  .ok (p, center m (List.zipWith (fun v e => v + (e - p) * (e - p)) vars pts))

/-! ### saturated marginal structural model `Y ~ A`, GEE independence + robust covariance, weights w -/

structure MRow (F : Type) where
  a : Bool
  y : F
  w : F

def arm (rows : List (MRow F)) (a : Bool) : List (MRow F) := rows.filter (·.a == a)
def armW (rows : List (MRow F)) (a : Bool) : F := sumBy (fun r => r.w) (arm rows a)
/-- weighted arm mean (the GEE fit of the saturated model) -/
def armMean (rows : List (MRow F)) (a : Bool) : F := sumBy (fun r => r.w * r.y) (arm rows a) / armW rows a
/-- sandwich variance of the arm mean, every row its own cluster -/
def armVar (rows : List (MRow F)) (a : Bool) : F :=
  sumBy (fun r => (r.w * (r.y - armMean rows a)) * (r.w * (r.y - armMean rows a))) (arm rows a) /
    (armW rows a * armW rows a)

/-- identity link: (RD, Var(RD)) -/
def msmRD (rows : List (MRow F)) : F × F :=
  (armMean rows true - armMean rows false, armVar rows true + armVar rows false)
/-- log link: (RR, Var(log RR)) by the delta method -/
def msmRR (rows : List (MRow F)) : F × F :=
  let m1 := armMean rows true; let m0 := armMean rows false
  (m1 / m0, armVar rows true / (m1 * m1) + armVar rows false / (m0 * m0))
/-- logit link: (OR, Var(log OR)) by the delta method -/
def msmOR (rows : List (MRow F)) : F × F :=
  let m1 := armMean rows true; let m0 := armMean rows false
  let q1 := m1 * (((1 : Nat) : F) - m1); let q0 := m0 * (((1 : Nat) : F) - m0)
  ((m1 / (((1 : Nat) : F) - m1)) / (m0 / (((1 : Nat) : F) - m0)),
   armVar rows true / (q1 * q1) + armVar rows false / (q0 * q0))

/-! ### log-risk-ratio influence values (per row): documented vs the two known-finding code paths

`r1 = a (y - Q) / g1`, `r0 = (1-a) (y - Q) / g0` are the residual parts, `q1 q0` the (targeted) predictions under
treatment / no treatment and `m1 m0` their means. -/

/-- efficient influence value of log RR: `(1/m1)(r1 + q1 - m1) - (1/m0)(r0 + q0 - m0)` (what `TMLE.fit` computes) -/
def icLogRRDoc (m1 m0 r1 r0 q1 q0 : F) : F := (r1 + (q1 - m1)) / m1 - (r0 + (q0 - m0)) / m0

/-- `aipw_calculator(difference=False)` (finding F16):
    `r1/m1 + (q1 - m1) - r0/m0 + (q0 - m0)` -/
def icLogRRAipw (m1 m0 r1 r0 q1 q0 : F) : F := r1 / m1 + (q1 - m1) - r0 / m0 + (q0 - m0)

/-- `crossfit.tmle_calculator(measure='risk_ratio')` (finding F15):
    `(1/m1 * r1) + q1 - m1 - ((1/m0 * r0) + q0 - m0)` -/
def icLogRRXfit (m1 m0 r1 r0 q1 q0 : F) : F := r1 / m1 + q1 - m1 - (r0 / m0 + q0 - m0)

/-- the influence values of all rows for one of the three formulas -/
def icRows (f : F → F → F → F → F → F → F) (m1 m0 : F) : List F → List F → List F → List F → List (Option F)
  | r1 :: r1s, r0 :: r0s, q1 :: q1s, q0 :: q0s => some (f m1 m0 r1 r0 q1 q0) :: icRows f m1 m0 r1s r0s q1s q0s
  | _, _, _, _ => []

end ZV.Ci
