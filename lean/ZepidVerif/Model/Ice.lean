/-
Model of `zepid.causal.gformula.IterativeCondGFormula` (TimeVary.py) — the iterative conditional
(sequential regression) g-formula on wide data — together with
  * the specification it is compared with: the nonparametric g-formula computed by direct
    stratification from empirical cell counts (`G`, `npg`), and
  * the slice of `TimeFixedGFormula.fit` (TimeFixed.py) needed for the single-time-point clause.

Import-free: compiled into the native driver (carrier `Rat`) and the subject of the theorems in
`ZepidVerif/Props/C12.lean` (carrier: any field).

What the real code does (`fit`, TimeVary.py:674-747), for outcomes `Y_0 … Y_{K-1}`:
  for k = K-1 down to 0:
     if k < K-1:  Y_k := where(isna(pred_{k+1}), Y_k, pred_{k+1})          -- pseudo-outcome
     fm_k := glm(Y_k ~ model_k).fit()                                      -- external; parameter `μ`
     pred_k := where(isna(Y_k), nan, fm_k.predict(data with A := plan))
  marginal_outcome := mean(pred_0)  (NaN skipped)
The fitted regression enters as the parameter `μ : List Bool → List Nat → F`, the prediction of the
step-`k` model for a (treatment history, covariate history) pair of length `k+1`; the behaviour assumed
of it (saturated GLM ⇒ cell means) is the hypothesis `IsCellFit`.
-/
import ZepidVerif.Model.Core
namespace ZV.Ice

/-- one individual of the wide table: `K` treatments, `K` covariate patterns (stratum id of the
    covariates measured at that time), `K` outcomes (`none` = NaN) -/
structure WRow where
  as : List Bool
  ls : List Nat
  ys : List (Option Nat)
  deriving Repr, DecidableEq

/-- the `treatments` argument of `fit`: a 1-d list, or a 2-d array -/
inductive Plan where
  | single (g : List Bool)
  | matrix (m : List (List Bool))
  deriving Repr, DecidableEq

/-! ### Constructor checks (`__init__`) -/

def ysum : List (Option Nat) → Nat
  | [] => 0
  | some v :: r => v + ysum r
  | none :: r => ysum r

/-- `not df[o].dropna().value_counts().index.isin([0, 1]).all()` for some outcome column -/
def nonBinary (rows : List WRow) : Bool :=
  rows.any fun r => r.ys.any fun y => match y with | some v => decide (1 < v) | none => false

/-- `(df[outcomes].sum(axis=1, skipna=True) > 1).any()` -/
def recurrent (rows : List WRow) : Bool := rows.any fun r => decide (1 < ysum r.ys)

/-- `IterativeCondGFormula(df, exposures, outcomes)`: every rejection is a `ValueError` -/
def construct (rows : List WRow) (nExposures nOutcomes : Nat) : Except Err Unit :=
  if nExposures ≠ nOutcomes then .error .badInput
  else if nonBinary rows then .error .badInput
  else if recurrent rows then .error .badInput
  else .ok ()

/-! ### Plan handling (`fit`, TimeVary.py:691-702, 714-717) -/

/-- a 1-d plan is tiled to one row per individual; a 2-d plan must have one row per individual;
    then the number of columns must equal the number of exposures -/
def expandPlan (n K : Nat) : Plan → Except Err (List (List Bool))
  | .single g => if g.length = K then .ok (List.replicate n g) else .error .badInput
  | .matrix m => if m.length = n ∧ (m.all fun p => decide (p.length = K)) = true then .ok m else .error .badInput

/-! ### The backward recursion -/
section
variable {F : Type}

/-- `np.where(df[prior_predict].isna(), df[d], df[prior_predict])` for one row -/
def orObs [NatCast F] (prev : Option F) (y : Option Nat) : Option F :=
  match prev with
  | some v => some v
  | none => y.map fun v => ((v : Nat) : F)

/-- `np.where(df[d].isna(), np.nan, fm.predict(tf))` for one row -/
def mask (q : Option F) (m : F) : Option F :=
  match q with
  | some _ => some m
  | none => none

/-- prediction column `__pred_Y_k` of one row, given the suffix `Y_k, Y_{k+1}, …` of its outcomes.
    `g` is the row's plan, `ls` its covariate history; the step-`k` model is asked for its prediction at
    (plan up to `k`, covariates up to `k`). -/
def predFrom [NatCast F] (μ : List Bool → List Nat → F) (g : List Bool) (ls : List Nat) :
    Nat → List (Option Nat) → Option F
  | _, [] => none
  | k, y :: rest => mask (orObs (predFrom μ g ls (k + 1) rest) y) (μ (g.take (k + 1)) (ls.take (k + 1)))

/-- the (pseudo-)outcome column the step-`k` model is fitted to, for one row -/
def pseudoFrom [NatCast F] (μ : List Bool → List Nat → F) (g : List Bool) (ls : List Nat) :
    Nat → List (Option Nat) → Option F
  | _, [] => none
  | k, y :: rest => orObs (predFrom μ g ls (k + 1) rest) y

def predAt [NatCast F] (μ : List Bool → List Nat → F) (g : List Bool) (r : WRow) (k : Nat) : Option F :=
  predFrom μ g r.ls k (r.ys.drop k)

def pseudoAt [NatCast F] (μ : List Bool → List Nat → F) (g : List Bool) (r : WRow) (k : Nat) : Option F :=
  pseudoFrom μ g r.ls k (r.ys.drop k)

/-- value of an optional entry in a NaN-skipping sum -/
def val0 [NatCast F] (x : Option F) : F := match x with | some v => v | none => ((0 : Nat) : F)

/-- `np.mean(series)`: NaN entries are skipped -/
def meanPresent [Add F] [Div F] [NatCast F] (xs : List (Option F)) : F :=
  sumBy val0 xs / cntBy (fun x => x.isSome) xs

/-- `marginal_outcome` for per-individual plans `plans` (aligned with `rows` by position) -/
def marginal [Add F] [Div F] [NatCast F] (μ : List Bool → List Nat → F) (plans : List (List Bool))
    (rows : List WRow) : F :=
  meanPresent (List.zipWith (fun g r => predAt μ g r 0) plans rows)

/-- `IterativeCondGFormula.fit(treatments)`; `specified` = `outcome_model` has been called -/
def fit [Add F] [Div F] [NatCast F] (specified : Bool) (μ : List Bool → List Nat → F) (plan : Plan)
    (rows : List WRow) (K : Nat) : Except Err F :=
  if !specified then .error .notSpecified
  else match expandPlan rows.length K plan with
    | .error e => .error e
    | .ok P => .ok (marginal μ P rows)

/-! ### Hypothesis on the external fit: a saturated GLM reproduces cell means

`inCell g k l̄ r`: row `r` has treatment history `g₀…g_k` and covariate history `l̄` (length `k+1`). -/

def inCell (g : List Bool) (k : Nat) (lbar : List Nat) (r : WRow) : Bool :=
  r.as.take (k + 1) == g.take (k + 1) && r.ls.take (k + 1) == lbar

/-- Score equations of the step-`k` logistic model for the indicator column of the cell
    (treatment history = plan, covariate history = `l̄`), for every `k < K` and every `l̄`:
    among the rows the model is fitted to (pseudo-outcome present), `Σ (pseudo − fitted) = 0`.
    A model saturated in (treatment history, covariate history) has every such indicator in its
    column space.  Only the cells along the plan are needed. -/
def IsCellFit [Add F] [Sub F] [NatCast F] (μ : List Bool → List Nat → F) (g : List Bool)
    (rows : List WRow) (K : Nat) : Prop :=
  ∀ k, k < K → ∀ lbar : List Nat,
    sumBy (fun r => match pseudoAt μ g r k with
                    | some q => q - μ (g.take (k + 1)) lbar
                    | none => ((0 : Nat) : F))
      (rows.filter (inCell g k lbar)) = ((0 : Nat) : F)

end

/-! ### Survival-type data: outcomes missing exactly after the first event -/

def allNone : List (Option Nat) → Bool
  | [] => true
  | y :: r => y.isNone && allNone r

/-- `Y` is 0 while event-free, 1 at the event, missing afterwards (and nowhere else, except that a row may be
    missing from the start) -/
def survType : List (Option Nat) → Bool
  | [] => true
  | none :: rest => allNone rest
  | some v :: rest =>
    if v = 1 then allNone rest
    else if v = 0 then
      (match rest with
       | [] => true
       | none :: _ => false
       | some _ :: _ => survType rest)
    else false

/-- all histories have `K` entries -/
def wellFormed (K : Nat) (rows : List WRow) : Bool :=
  rows.all fun r => decide (r.as.length = K) && decide (r.ls.length = K) && decide (r.ys.length = K)

/-! ### Specification: nonparametric g-formula by direct stratification -/

def yAt (r : WRow) (k : Nat) : Option Nat := r.ys.getD k none

/-- at risk at `k` in the cell -/
def nAt (g : List Bool) (rows : List WRow) (k : Nat) (lbar : List Nat) : Nat :=
  (rows.filter fun r => inCell g k lbar r && (yAt r k).isSome).length

/-- events at `k` in the cell -/
def dAt (g : List Bool) (rows : List WRow) (k : Nat) (lbar : List Nat) : Nat :=
  (rows.filter fun r => inCell g k lbar r && yAt r k == some 1).length

/-- event-free at `k` in the cell with next covariate value `l` -/
def sAt (g : List Bool) (rows : List WRow) (k : Nat) (lbar : List Nat) (l : Nat) : Nat :=
  (rows.filter fun r => inCell g k lbar r && yAt r k == some 0 && r.ls[k + 1]? == some l).length

/-- individuals observed at time 0 with first covariate value `l` -/
def c0 (rows : List WRow) (l : Nat) : Nat :=
  (rows.filter fun r => (yAt r 0).isSome && r.ls[0]? == some l).length

section
variable {F : Type} [Add F] [Mul F] [Div F] [NatCast F]

/-- conditional cumulative risk from time `k` on, given covariate history `l̄` and treatment by plan:
    `G_k(l̄) = h_k(l̄) + (1 − h_k(l̄)) Σ_l f(l | l̄, event-free) G_{k+1}(l̄,l)`, written with counts:
    `(d + Σ_l s_l · G_{k+1}(l̄,l)) / n`.  `fuel` = number of remaining time points. -/
def G (levels : List Nat) (g : List Bool) (rows : List WRow) : Nat → Nat → List Nat → F
  | 0, _, _ => ((0 : Nat) : F)
  | fuel + 1, k, lbar =>
    (((dAt g rows k lbar : Nat) : F) +
      sumBy (fun l => ((sAt g rows k lbar l : Nat) : F) * G levels g rows fuel (k + 1) (lbar ++ [l])) levels)
    / ((nAt g rows k lbar : Nat) : F)

/-- `risk = Σ_l f(l) · G_0(l)` -/
def npg (levels : List Nat) (g : List Bool) (rows : List WRow) (K : Nat) : F :=
  sumBy (fun l => ((c0 rows l : Nat) : F) * G levels g rows K 0 [l]) levels
    / sumBy (fun l => ((c0 rows l : Nat) : F)) levels

end

/-- positivity along the plan: every cell the recursion divides by is non-empty (decidable; the driver reports
    it and the theorem assumes exactly this) -/
def posOk (levels : List Nat) (g : List Bool) (rows : List WRow) : Nat → Nat → List Nat → Bool
  | 0, _, _ => true
  | fuel + 1, k, lbar =>
    decide (nAt g rows k lbar ≠ 0) &&
      levels.all fun l => decide (sAt g rows k lbar l = 0) || posOk levels g rows fuel (k + 1) (lbar ++ [l])

def planPositive (levels : List Nat) (g : List Bool) (rows : List WRow) (K : Nat) : Bool :=
  levels.all fun l => decide (c0 rows l = 0) || posOk levels g rows K 0 [l]

/-- every covariate value in the data is one of `levels` -/
def levelsCover (levels : List Nat) (rows : List WRow) : Bool :=
  rows.all fun r => r.ls.all fun l => levels.contains l

/-! ### TimeFixedGFormula.fit, binary exposure, `standardize='population'`, unweighted
    (TimeFixed.py:230-308), for the single-time-point clause -/

structure TRow where
  a : Bool
  l : Nat
  y : Option Nat
  deriving Repr, DecidableEq

section
variable {F : Type} [Add F] [Div F] [NatCast F]

/-- `treatment='all'` (`treat = true`) or `'none'`: predictions with the exposure set, averaged over all rows
    (`predict_missing=True`) or over rows with an observed outcome (`predict_missing=False`) -/
def tfMarginal (μ : Bool → Nat → F) (treat : Bool) (predictMissing : Bool) (rows : List TRow) : F :=
  meanPresent (rows.map fun r => if predictMissing || r.y.isSome then some (μ treat r.l) else none)

end

/-- the wide row of a single-time-point data set -/
def ofTRow (r : TRow) : WRow := ⟨[r.a], [r.l], [r.y]⟩

end ZV.Ice
