/-
What `TMLE.fit` finds when it is called (zepid/causal/doublyrobust/TMLE.py):

* the initial predictions as `outcome_model` leaves them: `QA1W`, `QA0W` truncated by
  `probability_bounds(·, bound)` -- `bound` is the caller's float `b` (the interval [b, 1-b]), the caller's collection
  (a list or a tuple; entries 0 and 1 are the interval, whatever follows them is ignored with a warning), or, when the
  caller asked for nothing, the continuous bound `cb` of the constructor -- and `QAW` formed from the *truncated* two;
* the public methods that report or draw (`summary`, `run_diagnostics`, `positivity`,
  `standardized_mean_differences`, `plot_kde`, `plot_love`): documented as printing / returning a frame or an axes
  object.  In the model they are calls that leave every register alone; only `fit` writes the reported numbers.

Import-free apart from the TMLE model; generic in the carrier.
-/
import ZepidVerif.Model.Tmle
namespace ZV.Tmle

section
variable {F : Type} [Sub F] [NatCast F] [LT F] [DecidableLT F]

/-- the `bound=` argument of `outcome_model` once `if not bound: bound = self._cb` has run -/
inductive QBound (F : Type) where
  | sym (b : F)                    -- a float: [b, 1 - b]
  | coll (items : List F)          -- a list / tuple of floats of any length
  deriving Repr

/-- the interval `probability_bounds` applies: entries 0 and 1 of a collection, nothing else of it -/
def qInterval : QBound F → Option (F × F)
  | .sym b => some (b, ((1 : Nat) : F) - b)
  | .coll (lo :: hi :: _) => some (lo, hi)
  | .coll _ => none

/-- one entry of `probability_bounds`: `v[v < lo] = lo; v[v > hi] = hi` -/
def initClip (lo hi q : F) : F :=
  let y := if q < lo then lo else q
  if y > hi then hi else y

/-- the last lines of `outcome_model` on one row: both predictions truncated (the offset `QAW` = `qa` of this row is
    therefore formed from the truncated ones) -/
def truncRow (lo hi : F) (r : TRow F) : TRow F :=
  { r with q1 := initClip lo hi r.q1, q0 := initClip lo hi r.q0 }

/-- `outcome_model`'s truncation of a whole data set; `none` = `probability_bounds` cannot index the collection -/
def truncate (b : QBound F) (l : List (TRow F)) : Option (List (TRow F)) :=
  match qInterval b with
  | some (lo, hi) => some (l.map (truncRow lo hi))
  | none => none

end

section
variable {F : Type}

/-- the public calls of a specified TMLE object that matter here: `fit` (with the coefficients the fluctuation GLM
    returns on the rows as they are *at that moment*) and the reporting / diagnostic methods -/
inductive Call (F : Type) where
  | fit (e1 e2 : F)
  | summary (decimal : Nat)
  | runDiagnostics (decimal : Nat)
  | positivity (decimal : Nat)
  | smd
  | plotKde (outcome : Bool)
  | plotLove

def Call.isObserver : Call F → Bool
  | .fit _ _ => false
  | _ => true

/-- the registers: the per-row nuisance values `fit` reads, and what `fit` last reported -/
structure TState (F : Type) where
  rows : List (TRow F)
  reported : Option (Fit F)

/-- one call; `compute` is `fitBinary σ lg` or `fitContinuous σ lg · · mini maxi` -/
def step (compute : F → F → List (TRow F) → Fit F) (s : TState F) : Call F → TState F
  | .fit e1 e2 => { s with reported := some (compute e1 e2 s.rows) }
  | _ => s

def run (compute : F → F → List (TRow F) → Fit F) (s : TState F) (cs : List (Call F)) : TState F :=
  cs.foldl (step compute) s

end
end ZV.Tmle
