/-
What Python does with the handful of built-in list / integer operations that the translated bookkeeping code of
zEpid uses (`harness/py2lean.py`, translators `ListTr`): `range`, subscripting with a possibly negative index,
`zip`, `for … in range(…)`, `for … in <list>`, `list.append / extend`, `[x] * n`, `%`, `enumerate`.
These are hand-written semantics (part of the trusted base exactly like the translator); gate K runs them against
Python's own (`pyget`, `pyrange` operations of C04).  Import-free.
-/
namespace ZV.Py

/-- `range(n)` for `n ≥ 0` (a `range` with a negative bound is empty, like `n - 1` truncated at `0`) -/
def range (n : Nat) : List Int := (List.range n).map Int.ofNat

/-- `l[i]`: a negative `i` counts from the end; `none` = `IndexError` -/
def get {α : Type} (l : List α) (i : Int) : Option α :=
  if 0 ≤ i then l[i.toNat]?
  else if 0 ≤ i + (l.length : Int) then l[(i + (l.length : Int)).toNat]?
  else none

/-- `zip(a, b, c)`: stops with the shortest -/
def zip3 {α β γ : Type} (a : List α) (b : List β) (c : List γ) : List (α × β × γ) :=
  List.zip a (List.zip b c)

/-- `for i in range(n): st = body(i, st)` -/
def forRange {σ : Type} (n : Nat) (body : Int → σ → σ) (init : σ) : σ :=
  (range n).foldl (fun st i => body i st) init

/-- `for x in l: st = body(x, st)` -/
def forIn {α σ : Type} (l : List α) (body : α → σ → σ) (init : σ) : σ :=
  l.foldl (fun st x => body x st) init

/-- `[x] * n` for `n ≥ 0` -/
def rep {α : Type} (x : α) (n : Nat) : List α := List.replicate n x

/-- `a % b` for `b > 0` (Python's result has the sign of the divisor) -/
def mod (a : Int) (b : Nat) : Int := a % (b : Int)

/-- `len(l)` / `frame.shape[0]` -/
def len {α : Type} (l : List α) : Nat := l.length

/-- `itertools.combinations(l, r)` for `r ≥ 0`, in itertools' (lexicographic by position) order -/
def combsNat {α : Type} : List α → Nat → List (List α)
  | _, 0 => [[]]
  | [], _ + 1 => []
  | x :: xs, r + 1 => (combsNat xs r).map (fun t => x :: t) ++ combsNat xs (r + 1)

/-- `list(itertools.combinations(l, r))`; a negative `r` (itertools raises `ValueError`) yields no combination -/
def combinations {α : Type} (l : List α) (r : Int) : List (List α) :=
  if r < 0 then [] else combsNat l r.toNat

/-- `try: l.remove(v)  except ValueError: pass` — the first occurrence of `v` is removed if there is one;
    `v = None` (`none`) is never an element of a list of column indices -/
def removeIfPresent (l : List Nat) (v : Option Nat) : List Nat :=
  match v with
  | none => l
  | some x => l.erase x

end ZV.Py
