/-
Model of `zepid.superlearner.stackers.SuperLearner`: the K-fold hold-out loop (sklearn
`KFold(k, shuffle=False)`), the sequence of clone / fit / predict calls issued to the candidate learners,
the post-processing of the non-negative least squares solution (threshold, normalise), the discrete
option (one-hot at `np.argmax`), and `predict` (L2: `Σ cⱼ pⱼ`; log-likelihood loss: on the logit scale).

External calls are parameters: the candidates' predictions (opaque numbers), `scipy.optimize.nnls`
(the raw coefficient vector), `log` / `exp` (class `Transc`).  Rows are `0 … n-1` (SuperLearner converts
`X`, `y` to arrays; position is the identity of a row).  Import-free.
-/
import ZepidVerif.Model.Core
import ZepidVerif.Model.Bounds
namespace ZV.SL

/-! ### folds -/

/-- sizes of the folds of `KFold(k, shuffle=False)` on `n` rows: the first `n mod k` folds get one extra row -/
def foldSizes (n k : Nat) : List Nat := (List.range k).map (fun i => n / k + if i < n % k then 1 else 0)

/-- consecutive blocks of the given sizes starting at `start` -/
def blocks : Nat → List Nat → List (List Nat)
  | _, [] => []
  | start, s :: ss => List.range' start s :: blocks (start + s) ss

/-- the test folds, in order; `KFold` raises for `k < 2` and for `k > n` -/
def kfold (n k : Nat) : Option (List (List Nat)) :=
  if k < 2 ∨ n < k then none else some (blocks 0 (foldSizes n k))

/-- `train` = all rows not in the test fold, ascending -/
def trainRows (n : Nat) (test : List Nat) : List Nat := (List.range n).filter (fun i => !test.contains i)

/-! ### calls issued to the candidate learners -/

/-- A clone is identified by `(round, cand)`: `round < k` is the fold in which the clone of candidate `cand` was
    made, `round = k` the final refit on all rows.
    `fit round cand rows`: that clone is fitted on `rows`;  `pred round cand rows`: that clone predicts `rows`. -/
inductive Ev where
  | fit (round cand : Nat) (rows : List Nat)
  | pred (round cand : Nat) (rows : List Nat)
  deriving DecidableEq, Repr

/-- one fold: for every candidate, clone, fit on the training rows, predict the test rows -/
def foldEvents (n m : Nat) (p : List Nat × Nat) : List Ev :=
  (List.range m).flatMap fun c => [Ev.fit p.2 c (trainRows n p.1), Ev.pred p.2 c p.1]

/-- the cross-validation phase of `SuperLearner.fit` for `m` candidates -/
def cvSchedule (n m : Nat) (folds : List (List Nat)) : List Ev := folds.zipIdx.flatMap (foldEvents n m)

/-- final phase: the retained candidates (in candidate order) are cloned and fitted on all rows -/
def finalEvents (n k : Nat) (keep : List Nat) : List Ev := keep.map (fun c => Ev.fit k c (List.range n))

/-- rows for which candidate `c` produced a prediction, in call order -/
def predRows (c : Nat) : Ev → List Nat
  | .pred _ c' rows => if c' = c then rows else []
  | _ => []

def predictedRows (evs : List Ev) (c : Nat) : List Nat := evs.flatMap (predRows c)

/-! ### coefficients -/
section
variable {F : Type} [Add F] [Sub F] [Mul F] [Div F] [Neg F] [NatCast F]
  [LT F] [LE F] [DecidableLT F] [DecidableLE F] [DecidableEq F]

/-- `coefs[coefs < sqrt(eps)] = 0` -/
def threshold (thr : F) (raw : List F) : List F :=
  raw.map (fun c => if c < thr then ((0 : Nat) : F) else c)

/-- `coefs / np.sum(coefs)`;  `none` stands for the all-NaN vector numpy produces when the sum is zero
    (the code has no guard: `0 / 0`). -/
def normalize (cs : List F) : Option (List F) :=
  let s := sumBy (fun c => c) cs
  if s = ((0 : Nat) : F) then none else some (cs.map (fun c => c / s))

/-- `np.argmax`: first position of a maximal entry (`0` for the empty list) -/
def argmaxFrom : Nat → Nat → F → List F → Nat
  | _, best, _, [] => best
  | i, best, bv, c :: cs => if bv < c then argmaxFrom (i + 1) i c cs else argmaxFrom (i + 1) best bv cs

def argmax : List F → Nat
  | [] => 0
  | c :: cs => argmaxFrom 1 0 c cs

/-- vector of length `m` with a one at `i` -/
def onehot (m i : Nat) : List F := (List.range m).map (fun j => if j = i then ((1 : Nat) : F) else ((0 : Nat) : F))

/-- `SuperLearner.coefficients` after `fit`: `none` = NaN vector.
    Discrete: one-hot at `np.argmax` of the normalised weights (`np.argmax` of an all-NaN vector is 0). -/
def coefficients (thr : F) (discrete : Bool) (raw : List F) : Option (List F) :=
  let w := normalize (threshold thr raw)
  if discrete then
    some (onehot raw.length (match w with | some cs => argmax cs | none => 0))
  else w

/-- positions of the candidates refitted on all rows (`coefficient > 0`; `NaN > 0` is false) -/
def retained (coefs : Option (List F)) : List Nat :=
  match coefs with
  | none => []
  | some cs => (cs.zipIdx.filter (fun p => ((0 : Nat) : F) < p.1)).map (·.2)

/-- the complete call sequence of `SuperLearner.fit` -/
def fitSchedule (n m : Nat) (folds : List (List Nat)) (coefs : Option (List F)) : List Ev :=
  cvSchedule n m folds ++ finalEvents n folds.length (retained coefs)

/-! ### predict -/

/-- column of `cv_pred` in `predict`: the retained candidate's prediction, `0` for the others -/
def usedPred (c p : F) : F := if ((0 : Nat) : F) < c then p else ((0 : Nat) : F)

/-- `np.dot(row, coefficients)` -/
def dot : List F → List F → F
  | c :: cs, p :: ps => c * p + dot cs ps
  | _, _ => ((0 : Nat) : F)

/-- L2 loss: `Σ cⱼ pⱼ` over one row of candidate predictions -/
def predictL2 (coefs preds : List F) : F :=
  dot coefs ((coefs.zip preds).map (fun cp => usedPred cp.1 cp.2))

/-- log-likelihood loss: `inverse_logit(Σ cⱼ logit(clip(pⱼ, b, 1-b)))`;
    `lg` / `sg` are `logit` / `inverse_logit` (parameters so that theorems can state what they need of them) -/
def predictNll (lg sg : F → F) (b : F) (coefs preds : List F) : F :=
  sg (dot coefs ((coefs.zip preds).map (fun cp =>
    lg (Bounds.clip1 b (((1 : Nat) : F) - b) (usedPred cp.1 cp.2)))))

/-- cross-validated L2 error `Σ (y - p)² / n` -/
def errL2 (y p : List F) : F :=
  sumBy (fun yp : F × F => (yp.1 - yp.2) * (yp.1 - yp.2)) (y.zip p) / ((y.length : Nat) : F)

section
variable [Transc F]

/-- `zepid.calc.logit`, `inverse_logit` -/
def logit (p : F) : F := Transc.log (p / (((1 : Nat) : F) - p))
def expit (x : F) : F := ((1 : Nat) : F) / (((1 : Nat) : F) + Transc.exp (-x))

/-- the error term the code computes for `loss_function='nloglik'` (as written in `_error_term_`:
    the first summand is `y * p`, not `y * log p`) -/
def errNll (b : F) (y p : List F) : F :=
  -(sumBy (fun yp : F × F =>
      let q := Bounds.clip1 b (((1 : Nat) : F) - b) yp.2
      yp.1 * q + (((1 : Nat) : F) - yp.1) * Transc.log (((1 : Nat) : F) - q)) (y.zip p)) / ((y.length : Nat) : F)

end
end

end ZV.SL
