/-
C11 — call histories on the causal estimator classes.

An estimator object is modelled by what its public methods read and write:

* *slots*: one per model-specification method (`exposure_model`, `missing_model`, `outcome_model`,
  `treatment_model`, `marginal_structural_model`, …).  A specification call overwrites its slot with the
  call itself (`Op` = method id + an opaque identifier of the argument tuple).  The real classes compute the
  nuisance predictions eagerly inside the specification call and store them (`self.iptw`, `self.g1W`,
  `self.df['_g1_']`, `self._outcome_model`, …); those stored values are a function of the call's arguments
  and of the data only, which is exactly what "the slot holds the call" says (validated by gate K).
* *fitted*: the configuration of the last successful `fit` (the slots in force at that moment and the fit
  arguments); `summary` and result plots read it.
* *registers*: state that a class sets and never resets.  A register is written only by a call whose `flag` is
  true; a method may be *locked* by a register (it raises once the register is set).  Registers are how a
  history-dependent class is represented; a class table without them is history-independent (theorem
  `history_independent` in `Props/C11.lean`).  Six zEpid classes had such state (`_exp_model_custom` &c. of AIPTW and
  TMLE, `_specified_bound_` of StochasticTMLE, `_scipy_solver_obj` of GEstimationSNM, the overwritten
  `self.missing` of IPMW, `predicted_df` of TimeFixedGFormula after `fit_stochastic`); they were repaired in zEpid
  and the registers were deleted from the tables below: all tables are now `clean`.

`step` returns the new state and the outcome: `error` (the call raises) or `ok` with the *effective
configuration* — the short canonical call list that determines the state the call leaves behind — and the list of
stale registers.  Everything here is import-free and is executed by the native driver (`Driver/Ops/C11.lean`).
-/
namespace ZV.History

/-- one public method call: method id (index into the class table), an opaque identifier of its argument
    tuple (the harness uses the position in the history), and whether the arguments set the method's register
    (custom model given / `solver='search'` / `bound` given / list of models). -/
structure Op where
  m : Nat
  arg : Nat
  flag : Bool
  deriving DecidableEq, Repr, Inhabited

/-- what a method reads and writes -/
structure Sig where
  /-- slot overwritten by the call (model-specification methods) -/
  writes : Option Nat := none
  /-- slots that must have been specified, otherwise the call raises -/
  req : List Nat := []
  /-- the call needs an earlier successful fit (`summary`, result plots) -/
  needsFit : Bool := false
  /-- the call records the configuration it ran with as the fitted result (`fit`, `fit_stochastic`) -/
  isFit : Bool := false
  /-- register set (never cleared) when the call's flag is true -/
  sticky : Option Nat := none
  /-- the call raises once this register is set -/
  lock : Option Nat := none
  /-- the call always raises on this data set (`missing_model` without missing outcomes; unknown method) -/
  blocked : Bool := false
  deriving DecidableEq, Repr

/-- a class table -/
structure Cls where
  nslots : Nat
  nregs : Nat
  sigs : List Sig
  deriving Repr

/-- a method id outside the table: the call raises -/
def noMethod : Sig := { blocked := true }

def Cls.sig (C : Cls) (m : Nat) : Sig := C.sigs.getD m noMethod

abbrev Slots := Nat → Option Op

structure State where
  slots : Slots
  fitted : Option (Slots × Op)
  regs : Nat → Option Op

/-- a freshly constructed estimator -/
def init : State := ⟨fun _ => none, none, fun _ => none⟩

def upd (f : Nat → Option Op) (k : Nat) (o : Op) : Nat → Option Op := fun j => if j = k then some o else f j

def optAll (o : Option Nat) (p : Nat → Bool) : Bool := match o with | none => true | some r => p r

/-- does the call go through (no exception)? -/
def admits (C : Cls) (s : State) (o : Op) : Bool :=
  let g := C.sig o.m
  !g.blocked && g.req.all (fun k => (s.slots k).isSome) && (!g.needsFit || s.fitted.isSome)
    && optAll g.lock (fun r => (s.regs r).isNone)

/-- effect of a call that goes through -/
def apply (C : Cls) (s : State) (o : Op) : State :=
  let g := C.sig o.m
  let sl := match g.writes with | some k => upd s.slots k o | none => s.slots
  { slots := sl
    fitted := if g.isFit then some (sl, o) else s.fitted
    regs := match g.sticky with
      | some r => if o.flag then upd s.regs r o else s.regs
      | none => s.regs }

/-- a call that raises leaves the object as it was -/
def next (C : Cls) (s : State) (o : Op) : State := if admits C s o then apply C s o else s

def run (C : Cls) (s : State) (ops : List Op) : State := ops.foldl (next C) s

/-- the specification calls held in the slots, in slot order -/
def specsOf (C : Cls) (sl : Slots) : List Op := (List.range C.nslots).filterMap sl

/-- canonical call list of a state: the specifications in force at the last successful fit followed by that
    fit, then the current specification of each slot.  At most `2 * nslots + 1` calls. -/
def canon (C : Cls) (s : State) : List Op :=
  (match s.fitted with
   | some (sl, f) => specsOf C sl ++ [f]
   | none => []) ++ specsOf C s.slots

/-- "the last specification of each slot (and the last fit)" of a history -/
def normalize (C : Cls) (ops : List Op) : List Op := canon C (run C init ops)

/-- the last specification of each slot only — what a user would type into a fresh object before `fit` -/
def lastSpecs (C : Cls) (ops : List Op) : List Op := specsOf C (run C init ops).slots

/-- registers that are set by a call which is not part of the canonical call list: replaying the canonical
    list on a fresh object does not set them, so whatever reads them is history-dependent -/
def stale (C : Cls) (s : State) : List Nat :=
  (List.range C.nregs).filter fun r =>
    match s.regs r with
    | some o => !(canon C s).contains o
    | none => false

/-- registers currently set -/
def regsSet (C : Cls) (s : State) : List Nat := (List.range C.nregs).filter fun r => (s.regs r).isSome

inductive Out where
  | error
  | ok (config : List Op) (regs : List Nat)
  deriving DecidableEq, Repr

/-- outcome of a call: `error`, or the effective configuration of the state it leaves and the set registers -/
def out (C : Cls) (s : State) (o : Op) : Out :=
  if admits C s o then .ok (canon C (apply C s o)) (regsSet C (apply C s o)) else .error

def step (C : Cls) (s : State) (o : Op) : State × Out := (next C s o, out C s o)

/-- per-call record for the harness: did the call go through; the canonical list of the state *before* the call
    (what to replay on a fresh object before making the same call); the canonical list of the state *after* the
    call (`normalize` of the history up to and including it: a fresh object on which exactly these calls are made
    is in the same state); the stale registers after the call -/
structure Trace where
  ok : Bool
  replay : List Op
  after : List Op
  stale : List Nat
  deriving Repr

def trace (C : Cls) : State → List Op → List Trace
  | _, [] => []
  | s, o :: rest =>
    let t : Trace :=
      if admits C s o then ⟨true, canon C s, canon C (apply C s o), stale C (apply C s o)⟩
      else ⟨false, canon C s, canon C s, []⟩
    t :: trace C (next C s o) rest

/-! ### Side conditions used by the theorems (decidable, evaluated on every class table by the driver) -/

/-- written by a (non-blocked) specification call of slot `k` -/
def wr (C : Cls) (k : Nat) (o : Op) : Bool :=
  decide ((C.sig o.m).writes = some k) && !(C.sig o.m).blocked

/-- shape of a method signature: a specification call needs nothing and is not a fit; a fit call does not need an
    earlier fit; every slot mentioned exists -/
def wfSig (n : Nat) (g : Sig) : Bool :=
  (match g.writes with
   | some k => decide (k < n) && g.req.isEmpty && !g.needsFit && !g.isFit
   | none => true) &&
  (!g.isFit || (!g.needsFit && g.req.all (fun k => decide (k < n))))

def wf (C : Cls) : Bool := C.sigs.all (wfSig C.nslots)

/-- the class has no never-reset state at all -/
def clean (C : Cls) : Bool := C.sigs.all fun g => g.sticky.isNone && g.lock.isNone

/-- the call does not set a register -/
def calmOp (C : Cls) (o : Op) : Bool := (C.sig o.m).sticky.isNone || !o.flag

/-- no call of the history sets a register (always true for a `clean` class) -/
def calm (C : Cls) (ops : List Op) : Bool := ops.all (calmOp C)

/-- a reporting / diagnostic / plotting call (`summary`, `run_diagnostics`, `positivity`, `plot_*`, …): the table gives
    its method no slot, it is not a fit and it sets no register -/
def observer (C : Cls) (o : Op) : Bool :=
  (C.sig o.m).writes.isNone && !(C.sig o.m).isFit && (C.sig o.m).sticky.isNone

/-! ### Class tables (method ids are the positions in `sigs`; the harness uses the same numbering)

`miss` = the data set has missing outcomes (otherwise `missing_model` raises). -/

def spec (k : Nat) : Sig := { writes := some k }
def specR (k r : Nat) : Sig := { writes := some k, sticky := some r }
def specIf (k : Nat) (avail : Bool) : Sig := { writes := some k, blocked := !avail }
def specRIf (k r : Nat) (avail : Bool) : Sig := { writes := some k, sticky := some r, blocked := !avail }
def fitS (req : List Nat) : Sig := { isFit := true, req := req }
def readS (req : List Nat) : Sig := { req := req }
def resS : Sig := { needsFit := true }
/-- a result method that also tests some slots itself (implied by `needsFit` whenever every fit requires them) -/
def resG (req : List Nat) : Sig := { needsFit := true, req := req }

/-- IPTW: slots 0 treatment_model, 1 missing_model, 2 marginal_structural_model -/
def iptw (miss : Bool) : Cls := ⟨3, 0, [
  spec 0,            -- 0 treatment_model
  specIf 1 miss,     -- 1 missing_model
  spec 2,            -- 2 marginal_structural_model
  fitS [0, 2],       -- 3 fit
  resS,              -- 4 summary
  readS [],          -- 5 positivity(iptw_only=True): prints NaN before treatment_model, does not raise
  readS [0, 1],      -- 6 positivity(iptw_only=False)
  readS [0],         -- 7 standardized_mean_differences(iptw_only=True)
  readS [0, 1],      -- 8 standardized_mean_differences(iptw_only=False)
  readS [0],         -- 9 plot_kde
  readS [0],         -- 10 plot_boxplot
  readS [0],         -- 11 plot_love(iptw_only=True)
  readS [0, 1],      -- 12 plot_love(iptw_only=False)
  readS [0]]⟩        -- 13 run_diagnostics(iptw_only=True)

/-- StochasticIPTW: slot 0 treatment_model -/
def stochIptw : Cls := ⟨1, 0, [spec 0, fitS [0], resS]⟩

/-- AIPTW: slots 0 exposure_model, 1 missing_model, 2 outcome_model (the `_*_model_custom` flags are rewritten by
    every specification call) -/
def aiptw (miss : Bool) : Cls := ⟨3, 0, [
  spec 0,               -- 0 exposure_model
  specIf 1 miss,        -- 1 missing_model
  spec 2,               -- 2 outcome_model
  fitS [0, 2],          -- 3 fit
  resG [0],             -- 4 summary (explicit guard on the exposure model only; the results are None before fit)
  readS [0, 2],         -- 5 run_diagnostics
  readS [0],            -- 6 positivity
  readS [0],            -- 7 standardized_mean_differences
  readS [0],            -- 8 plot_kde('exposure')
  readS [2],            -- 9 plot_kde('outcome')
  readS [0]]⟩           -- 10 plot_love

/-- TMLE: as AIPTW; the plot methods guard on both models -/
def tmle (miss : Bool) : Cls := ⟨3, 0, [
  spec 0, specIf 1 miss, spec 2,
  fitS [0, 2],          -- 3 fit
  resG [0],             -- 4 summary (as AIPTW)
  readS [0, 2],         -- 5 run_diagnostics
  readS [0],            -- 6 positivity
  readS [0],            -- 7 standardized_mean_differences
  readS [0, 2],         -- 8 plot_kde('exposure')
  readS [0, 2],         -- 9 plot_kde('outcome')
  readS [0, 2]]⟩        -- 10 plot_love

/-- StochasticTMLE: slots 0 exposure_model, 1 outcome_model (`_specified_bound_` is rewritten by every
    `exposure_model` call) -/
def stochTmle : Cls := ⟨2, 0, [
  spec 0,               -- 0 exposure_model
  spec 1,               -- 1 outcome_model
  fitS [0, 1],          -- 2 fit
  resS,                 -- 3 summary
  resS]⟩                -- 4 run_diagnostics

/-- TimeFixedGFormula: slot 0 outcome_model; `fit` writes `marginal_outcome` and `predicted_df`, `fit_stochastic`
    writes `marginal_outcome` and clears `predicted_df` -/
def timeFixed : Cls := ⟨1, 0, [
  spec 0,               -- 0 outcome_model
  fitS [0],             -- 1 fit
  fitS [0],             -- 2 fit_stochastic
  readS [0],            -- 3 run_diagnostics
  readS [0]]⟩           -- 4 plot_kde

/-- SurvivalGFormula: slot 0 outcome_model -/
def survival : Cls := ⟨1, 0, [spec 0, fitS [0], resS]⟩

/-- GEstimationSNM: slots 0 exposure_model, 1 structural_nested_model, 2 missing_model.  (`summary` after a
    `fit(solver='search')` prints the solver object through `np.str`, which the installed numpy no longer has: an
    incompatibility with the environment, the same on a fresh object, not modelled — the harness does not ask the
    model to predict calls failing with that message.) -/
def snm (miss : Bool) : Cls := ⟨3, 0, [
  spec 0, spec 1, specIf 2 miss,
  fitS [0, 1],          -- 3 fit
  resS]⟩                -- 4 summary

/-- IPSW: slots 0 sampling_model, 1 treatment_model -/
def ipsw : Cls := ⟨2, 0, [spec 0, spec 1, fitS [0], resS]⟩

/-- GTransportFormula: slot 0 outcome_model -/
def gtransport : Cls := ⟨1, 0, [spec 0, fitS [0], resS]⟩

/-- AIPSW: slots 0 sampling_model, 1 treatment_model, 2 outcome_model -/
def aipsw : Cls := ⟨3, 0, [spec 0, spec 1, spec 2, fitS [0, 2], resS]⟩

/-- IPMW (one missing variable, monotone variables, uniformly missing variables): slot 0 regression_models -/
def ipmw : Cls := ⟨1, 0, [spec 0, fitS [0]]⟩

/-- IPCW: slot 0 regression_models -/
def ipcw : Cls := ⟨1, 0, [spec 0, fitS [0]]⟩

/-- MonteCarloGFormula: slots 0 exposure_model, 1 outcome_model, 2 censoring_model, 3 add_covariate_model(label=1),
    4 add_covariate_model(label=2).  `add_covariate_model` appends, it does not respecify: what is specified is the set
    of *labelled* covariate models ("fit in the order from lowest to highest label"), one slot per label, each label
    used at most once per object.  The canonical call list has the slots in label order whatever the order of the
    calls: the result must not depend on the order in which the labelled models were added. -/
def monteCarlo : Cls := ⟨5, 0, [spec 0, spec 1, spec 2, spec 3, spec 4, fitS [0, 1]]⟩

/-- IterativeCondGFormula: slot 0 outcome_model -/
def iterCond : Cls := ⟨1, 0, [spec 0, fitS [0]]⟩

/-- the four cross-fit estimators (Single/Double Crossfit AIPTW/TMLE): slots 0 exposure_model, 1 outcome_model;
    `summary` tests both models itself and prints results that are `None` before a fit; `run_diagnostics` plots the
    per-partition vectors (`None` before a fit) -/
def crossfit : Cls := ⟨2, 0, [spec 0, spec 1, fitS [0, 1], resG [0, 1], resS]⟩

def clsByName (name : String) (miss : Bool) : Option Cls :=
  match name with
  | "IPTW" => some (iptw miss)
  | "StochasticIPTW" => some stochIptw
  | "AIPTW" => some (aiptw miss)
  | "TMLE" => some (tmle miss)
  | "StochasticTMLE" => some stochTmle
  | "TimeFixedGFormula" => some timeFixed
  | "SurvivalGFormula" => some survival
  | "GEstimationSNM" => some (snm miss)
  | "IPSW" => some ipsw
  | "GTransportFormula" => some gtransport
  | "AIPSW" => some aipsw
  | "IPMW" => some ipmw
  | "IPMWuniform" => some ipmw
  | "IPCW" => some ipcw
  | "MonteCarloGFormula" => some monteCarlo
  | "IterativeCondGFormula" => some iterCond
  | "SingleCrossfitAIPTW" => some crossfit
  | "DoubleCrossfitAIPTW" => some crossfit
  | "SingleCrossfitTMLE" => some crossfit
  | "DoubleCrossfitTMLE" => some crossfit
  | _ => none

end ZV.History
