/-
Model of `zepid.causal.ipw.IPCW` (inverse probability of censoring weights).

Long format: the frame is sorted by (id, time) (stable), the uncensored indicator is computed from the
*next* row's id, the event and the maximum follow-up time, the pooled-logistic predictions (parameters
of the model: `num`, `den` per row) are accumulated by `groupby(id).cumprod()` and divided.
Flat format (`flat_df=True`): `_dataprep` expands one row per subject into unit-length records first.
Import-free.
-/
import ZepidVerif.Model.Core
namespace ZV.Ipcw

/-- one record of the long table -/
structure Rec (F : Type) where
  lab : Nat        -- label of the row in the user's frame (to report the order after sorting)
  id : Nat
  time : F         -- end of the interval (`time` column; `t_out` after `_dataprep`)
  event : Bool     -- `df[event] == 1` (`False` also stands for "== 0": events are 0/1)
  deriving Repr

section
variable {F : Type} [LT F] [DecidableLT F]

/-- strict lexicographic order on (id, time) keys used by `sort_values(by=[idvar, time])` -/
def keyLt (a b : Nat × F) : Bool := a.1 < b.1 || (a.1 == b.1 && decide (a.2 < b.2))

/-- stable insertion: `x` goes before the first element that is not smaller than it -/
def insertBy {α : Type} (key : α → Nat × F) (x : α) : List α → List α
  | [] => [x]
  | y :: ys => if keyLt (key y) (key x) then y :: insertBy key x ys else x :: y :: ys

/-- stable sort by key -/
def sortBy {α : Type} (key : α → Nat × F) (l : List α) : List α := l.foldr (insertBy key) []

def recKey (r : Rec F) : Nat × F := (r.id, r.time)

/-- stable sort of the long table by (id, time) -/
def sortRecs (l : List (Rec F)) : List (Rec F) := sortBy recKey l

/-- `np.max(df[time])` -/
def maxTime : List (Rec F) → Option F
  | [] => none
  | r :: rs => some (rs.foldl (fun m x => if m < x.time then x.time else m) r.time)

def eqF (a b : F) : Bool := !(decide (a < b)) && !(decide (b < a))

/-- `np.where((id != id.shift(-1)) & (event == 0), 0, 1)` then `np.where(time == max, 1, ·)`,
    on the sorted frame; the last row's successor is NaN, which differs from every id -/
def uncens (maxT : F) : List (Rec F) → List Bool
  | [] => []
  | [r] => [eqF r.time maxT || !(!r.event)]
  | r :: r' :: rest => (eqF r.time maxT || !(r.id != r'.id && !r.event)) :: uncens maxT (r' :: rest)

/-- a column together with its `shift(-1)`: `f` sees every row and the row after it (`none` after the last row, where
    pandas puts NaN) -/
def mapNext {α β : Type} (f : α → Option α → β) : List α → List β
  | [] => []
  | [x] => [f x none]
  | x :: y :: rest => f x (some y) :: mapNext f (y :: rest)

/-- first record of every subject, on an id-contiguous list (`drop_duplicates(subset=idvar, keep='first')`) -/
def firsts : List (Rec F) → List (Rec F)
  | [] => []
  | r :: rs => r :: go r.id rs
where go (cur : Nat) : List (Rec F) → List (Rec F)
  | [] => []
  | r :: rs => if r.id == cur then go cur rs else r :: go r.id rs

end

section
variable {F : Type} [Mul F] [Div F] [NatCast F]

/-- `groupby(key).cumprod()` in frame order: `st g` is the running product of group `g` so far -/
def cumprodBy {α : Type} (key : α → Nat) (val : α → F) (st : Nat → F) : List α → List F
  | [] => []
  | x :: xs =>
    let cur := st (key x) * val x
    cur :: cumprodBy key val (fun g => if g == key x then cur else st g) xs

/-- pandas starts every group's cumulative product at its first element (i.e. from 1) -/
def cumprod1 {α : Type} (key : α → Nat) (val : α → F) (l : List α) : List F :=
  cumprodBy key val (fun _ => ((1 : Nat) : F)) l

/-- `IPCW.Weight = __cnumer__ / __cdenom__` on the sorted frame; `num`/`den` are looked up by row label -/
def weights (l : List (Rec F)) (num den : Nat → F) : List F :=
  List.zipWith (fun a b => a / b) (cumprod1 (·.id) (fun r => num r.lab) l) (cumprod1 (·.id) (fun r => den r.lab) l)

end

section
variable {F : Type} [LT F] [LE F] [DecidableLT F] [DecidableLE F] [NatCast F]

structure Prep (F : Type) where
  rows : List (Rec F)        -- sorted frame
  unc : List Bool            -- `__uncensored__`, same order

/-- `IPCW.__init__` for a long table -/
def prepLong (l : List (Rec F)) : Except Err (Prep F) :=
  let s := sortRecs l
  match maxTime l with
  | none => .error .badInput
  | some m =>
    if eqF m ((1 : Nat) : F) then .error .badInput                                   -- "maximum observation time is 1"
    else if !((firsts s).all fun r => decide (r.time ≤ ((1 : Nat) : F))) then .error .badInput   -- late entry
    else .ok ⟨s, uncens m s⟩

end

/-! ### `_dataprep`: one row per subject → unit records -/

/-- one subject of the flat table: follow-up time `T`, `tint = int(T)`, event indicator -/
structure Flat (F : Type) where
  lab : Nat
  id : Nat
  T : F
  tint : Nat
  event : Bool

/-- an expanded record: the `Rec` (time = `t_out`, event = `delta_indicator`) and `t_enter` -/
structure LRec (F : Type) where
  r : Rec F
  tenter : Nat

section
variable {F : Type} [Sub F] [LT F] [LE F] [DecidableLT F] [DecidableLE F] [NatCast F]

/-- records of one subject: `tpoint = 0..tint`, dropping `tdiff = T - tpoint = 0`;
    `t_out = T if tdiff < 1 else tpoint + 1`; the event is carried by the record with `tdiff ≤ 1`
    provided it is the subject's last record -/
def expandOne (x : Flat F) : List (LRec F) :=
  let pts := (List.range (x.tint + 1)).filter fun t => !(eqF (x.T - ((t : Nat) : F)) ((0 : Nat) : F))
  let lastPt := pts.getLast?
  pts.map fun t =>
    let tdiff := x.T - ((t : Nat) : F)
    ⟨⟨x.lab, x.id, if tdiff < ((1 : Nat) : F) then x.T else ((t + 1 : Nat) : F),
      decide (tdiff ≤ ((1 : Nat) : F)) && x.event && (lastPt == some t)⟩, t⟩

def flatKey (x : Flat F) : Nat × F := (x.id, x.T)

/-- `IPCW.__init__` with `flat_df=True`: subjects sorted by (id, T), expanded, indicator computed on the
    expanded records with the maximum of `t_out` -/
def prepFlat (l : List (Flat F)) : Except Err (List (LRec F) × List Bool) :=
  match maxTime (l.map fun x => (⟨x.lab, x.id, x.T, x.event⟩ : Rec F)) with
  | none => .error .badInput
  | some m =>
    if eqF m ((1 : Nat) : F) then .error .badInput
    else
      let ex := (sortBy flatKey l).flatMap expandOne
      match maxTime (ex.map (·.r)) with
      | none => .ok ([], [])
      | some mo => .ok (ex, uncens mo (ex.map (·.r)))

end
end ZV.Ipcw
