/-
Model of `zepid.causal.gformula.SurvivalGFormula` (TimeFixed.py:472-696), unweighted:
  __init__ : rows with a NaN in any column are dropped, the rest sorted by (id, time)
  outcome_model : pooled logistic model for the discrete-time hazard (external; enters as the two
                  per-row predictions `h1`, `h0` = `predict` with the exposure set to 1 / 0)
  fit : exposure replaced according to the plan; `1 - predict`; cumulative product within id in row order;
        `1 - cumprod` = each individual's cumulative incidence; mean by time over the rows present at that time.
Specification: the discrete-time product-limit (Kaplan–Meier) cumulative incidence of an arm from counts.
Import-free (compiled into the native driver).
-/
import ZepidVerif.Model.Core
namespace ZV.SurvGF

/-- one person-period record -/
structure LRow (F : Type) where
  id : Nat
  t : Nat
  a : Bool
  y : Nat
  /-- value of the user's condition on this row, for a custom plan -/
  c : Bool
  /-- no NaN in any column (`check_input_data(drop_censoring=True)` drops the row otherwise) -/
  complete : Bool
  /-- hazard predicted by the fitted outcome model for this row with the exposure set to 1 / to 0 -/
  h1 : F
  h0 : F
  deriving DecidableEq

inductive Plan where
  | all | none | natural | custom
  deriving Repr, DecidableEq

section
variable {F : Type}

/-- `sort_values(by=[idvar, time])` -/
def keyLe (r s : LRow F) : Bool := decide (r.id < s.id) || (decide (r.id = s.id) && decide (r.t ≤ s.t))

/-- stable insertion of a record into a table sorted by (id, time) -/
def insertRow (x : LRow F) : List (LRow F) → List (LRow F)
  | [] => [x]
  | y :: ys => if keyLe x y then x :: y :: ys else y :: insertRow x ys

/-- stable sort by (id, time) (structural recursion, so that small instances evaluate in the kernel) -/
def sortRows (l : List (LRow F)) : List (LRow F) := l.foldr insertRow []

/-- `self.gf`: complete rows sorted by (id, time) -/
def prep (rows : List (LRow F)) : List (LRow F) := sortRows (rows.filter (·.complete))

/-- predicted hazard after the exposure column has been replaced according to the plan -/
def hazard (p : Plan) (r : LRow F) : F :=
  match p with
  | .all => r.h1
  | .none => r.h0
  | .natural => if r.a then r.h1 else r.h0
  | .custom => if r.c then r.h1 else r.h0

/-- `groupby(id)[col].cumprod()` in row order: `acc i` is the running product of group `i` -/
def cumprodBy [Mul F] (acc : Nat → F) : List (Nat × F) → List F
  | [] => []
  | (i, x) :: rest =>
    let p := acc i * x
    p :: cumprodBy (fun j => if j = i then p else acc j) rest

def one [NatCast F] : F := ((1 : Nat) : F)

/-- `predicted_df[outcome]`: cumulative incidence per record of `prep rows`, in that order -/
def cumInc [Sub F] [Mul F] [NatCast F] (p : Plan) (rows : List (LRow F)) : List F :=
  (cumprodBy (fun _ => one) ((prep rows).map fun r => (r.id, one - hazard p r))).map fun s => one - s

/-- `g.groupby(time)[outcome].mean()` at time `t` -/
def marginalAt [Add F] [Sub F] [Mul F] [Div F] [NatCast F] (p : Plan) (rows : List (LRow F)) (t : Nat) : F :=
  let z := ((prep rows).zip (cumInc p rows)).filter fun q => q.1.t == t
  sumBy (fun q => q.2) z / ((z.length : Nat) : F)

/-! ### pandas group operations on position-aligned columns (used by the definitions regenerated from the text of
    `SurvivalGFormula.fit`, Gen/SurvGF.lean; `keys` and `vals` are two columns of the same frame) -/

/-- `frame.groupby(key)[col].cumprod()`: running product within each group, in row order -/
def groupCumprod [Mul F] [NatCast F] (keys : List Nat) (vals : List F) : List F :=
  cumprodBy (fun _ => one) (keys.zip vals)

/-- `frame.groupby(key)[col].sum()` at the group `k` -/
def groupSumAt [Add F] [NatCast F] (keys : List Nat) (vals : List F) (k : Nat) : F :=
  sumBy (fun q => q.2) ((keys.zip vals).filter fun q => q.1 == k)

/-- `frame.groupby(key)[col].mean()` at the group `k` -/
def groupMeanAt [Add F] [Div F] [NatCast F] (keys : List Nat) (vals : List F) (k : Nat) : F :=
  let z := (keys.zip vals).filter fun q => q.1 == k
  sumBy (fun q => q.2) z / ((z.length : Nat) : F)

/-- the `treatment` argument of `fit` for a plan (`custom`: any other string, evaluated by `eval`) -/
def Plan.str : Plan → String
  | .all => "all" | .none => "none" | .natural => "natural" | .custom => "custom"

/-- insertion into a strictly ascending list -/
def insertAsc (x : Nat) : List Nat → List Nat
  | [] => [x]
  | y :: ys => if x < y then x :: y :: ys else if x = y then y :: ys else y :: insertAsc x ys

/-- index of `marginal_outcome`: the distinct times, ascending -/
def times (rows : List (LRow F)) : List Nat := (prep rows).foldr (fun r acc => insertAsc r.t acc) []

/-- `marginal_outcome` as a list aligned with `times` -/
def marginal [Add F] [Sub F] [Mul F] [Div F] [NatCast F] (p : Plan) (rows : List (LRow F)) : List F :=
  (times rows).map (marginalAt p rows)

/-! ### Specification: product-limit estimator of an arm -/

/-- records of arm `b` at time `u` (risk set) -/
def nArm (rows : List (LRow F)) (b : Bool) (u : Nat) : Nat :=
  ((prep rows).filter fun r => r.a == b && r.t == u).length

/-- events of arm `b` at time `u` -/
def dArm (rows : List (LRow F)) (b : Bool) (u : Nat) : Nat :=
  ((prep rows).filter fun r => r.a == b && r.t == u && r.y == 1).length

def prodBy [Mul F] [NatCast F] {α : Type} (f : α → F) : List α → F
  | [] => one
  | x :: xs => f x * prodBy f xs

/-- `1 − Π_{u=1..t} (1 − d_{b,u}/n_{b,u})` -/
def productLimit [Sub F] [Mul F] [Div F] [NatCast F] (rows : List (LRow F)) (b : Bool) (t : Nat) : F :=
  one - prodBy (fun u => one - ((dArm rows b u : Nat) : F) / ((nArm rows b u : Nat) : F)) (List.range' 1 t)

/-- risk sets of arm `b` non-empty at every time `1..t` -/
def armPositive (rows : List (LRow F)) (b : Bool) (t : Nat) : Bool :=
  (List.range' 1 t).all fun u => decide (nArm rows b u ≠ 0)

/-- person-period structure of the sorted table: the records of a person up to and including record `i`
    are at times `1, 2, …, t_i` (follow-up starts at 1, no gaps, no duplicates) -/
def personPeriod (rows : List (LRow F)) : Bool :=
  let s := prep rows
  (List.range s.length).all fun i =>
    match s[i]? with
    | some r => (((s.take (i + 1)).filter fun q => q.id == r.id).map fun q => q.t) == List.range' 1 r.t
    | none => true

end
end ZV.SurvGF
