/-
C10 vocabulary: the user's data frame with missing values, and `zepid.causal.utils.check_input_data`,
the single gate through which every causal estimator class takes its data.

A raw row carries its exposure, the pattern of its (categorical) covariates and its outcome, each possibly
missing (`none` = NaN; `l = none` as soon as any column other than exposure and outcome is NaN).
`checkInput dropCensoring` mirrors the two branches of `check_input_data`:
  * `drop_censoring=True`  (StochasticIPTW, SurvivalGFormula, StochasticTMLE, the cross-fit estimators):
      `data.dropna()` — every row with any missing value goes; `__missing_indicator__ = 1`;
  * `drop_censoring=False` (IPTW, TimeFixedGFormula, AIPTW, TMLE, GEstimationSNM):
      `data.dropna(subset=[all columns but the outcome])`; `__missing_indicator__ = 0` for the kept rows whose
      outcome is NaN; `miss_flag` says whether there is such a row.
The result is a list of `ZV.Std.Row`, the input type of the estimator models of `Model/Std.lean`, so that
"estimator ∘ check_input_data" is a composition of model functions.  Row ids are kept (they are the
`index` column `reset_index()` leaves behind; per-row fitted values are looked up by id).
Import-free.
-/
import ZepidVerif.Model.Std
namespace ZV.Miss
open ZV.Std

structure Raw (F : Type) where
  i : Nat             -- row label
  a : Option Bool     -- exposure
  l : Option Nat      -- covariate pattern; none = some non-outcome column other than the exposure is NaN
  y : Option F        -- outcome
  w : F               -- frequency weight (1 without a weights column)

variable {F : Type}

/-- exposure and covariates present -/
def Raw.covComplete (r : Raw F) : Bool := r.a.isSome && r.l.isSome
/-- nothing missing -/
def Raw.complete (r : Raw F) : Bool := r.a.isSome && r.l.isSome && r.y.isSome

/-- the user deletes the rows with a missing exposure or covariate -/
def deleteIncomplete (rows : List (Raw F)) : List (Raw F) := rows.filter Raw.covComplete
/-- the user keeps the complete cases only -/
def completeCases (rows : List (Raw F)) : List (Raw F) := rows.filter Raw.complete

/-- which rows `check_input_data` keeps -/
def kept (dropCensoring : Bool) (r : Raw F) : Bool := if dropCensoring then r.complete else r.covComplete

section
variable [NatCast F]

/-- a kept row as the estimators see it; `obs` is `__missing_indicator__` -/
def toRow (r : Raw F) : Row F :=
  ⟨r.i, r.l.getD 0, r.a.getD false, r.y.getD ((0 : Nat) : F), r.w, r.y.isSome⟩

/-- `check_input_data(..., drop_censoring=dropCensoring)`: the formatted data -/
def checkInput (dropCensoring : Bool) (rows : List (Raw F)) : List (Row F) :=
  (rows.filter (kept dropCensoring)).map toRow

/-- `check_input_data`: the `miss_flag` (is there a kept row with a missing outcome) -/
def missFlag (dropCensoring : Bool) (rows : List (Raw F)) : Bool :=
  !dropCensoring && (checkInput dropCensoring rows).any (fun r => !r.obs)

/-- the rows on which AIPTW / TMLE (`cc = self.df.dropna()`) and, through patsy's NaN handling,
    TimeFixedGFormula and GEstimationSNM fit the outcome model -/
def outcomeFitRows (l : List (Row F)) : List (Row F) := l.filter (·.obs)

end

/-! ### The frame `check_input_data` is handed, before any validation

The translator (`harness/py2lean.py`, `gen_inputdata`) regenerates `check_input_data` over this row type
(`Gen/InputData.lean`).  The exposure is a *number* here (`binary_exposure_only` is a check the function makes, not an
assumption), every column other than exposure and outcome is summarised by `c` (`none` = one of them is NaN).
`Raw.toD` embeds the rows of the model above; `formatD` reads the formatted frame the way the estimators do (the
observed-outcome flag is the generated `__missing_indicator__` column, not a recomputation from the outcome). -/

structure DRow (F : Type) where
  i : Nat             -- row label (survives `reset_index()` as the column `index`)
  e : Option F        -- exposure column
  c : Option Nat      -- pattern of the other columns; none = one of them is NaN
  y : Option F        -- outcome column
  w : F               -- frequency weight

def DRow.covComplete (r : DRow F) : Bool := r.e.isSome && r.c.isSome
def DRow.complete (r : DRow F) : Bool := r.e.isSome && r.c.isSome && r.y.isSome
/-- which rows `check_input_data` documents to keep -/
def keptD (dropCensoring : Bool) (r : DRow F) : Bool := if dropCensoring then r.complete else r.covComplete

section
variable [NatCast F]

def Raw.toD (r : Raw F) : DRow F :=
  ⟨r.i, r.a.map (fun b => if b then ((1 : Nat) : F) else ((0 : Nat) : F)), r.l, r.y, r.w⟩

/-- a formatted row as the estimators read it: exposure `== 1`, observed = the indicator column `== 1` -/
def toRowD [DecidableEq F] (r : DRow F) (ind : Nat) : Row F :=
  ⟨r.i, r.c.getD 0, r.e == some ((1 : Nat) : F), r.y.getD ((0 : Nat) : F), r.w, ind == 1⟩

/-- the formatted frame with its `__missing_indicator__` column -/
def formatD [DecidableEq F] (data : List (DRow F)) (ind : List Nat) : List (Row F) := List.zipWith toRowD data ind

end
end ZV.Miss
