/-
C11 — the class tables regenerated from zEpid's source (`Gen/Tables.lean`, written by `harness/py2lean.py` through the
static effect analysis `harness/effects.py` on every run) satisfy the side conditions of the history theorems, and
are the tables of `Model/History.lean`.

What the generated file carries, per estimator class, straight from the text of /repo: which public methods assign
externally visible state on every path (`writes` = a slot), which read state assigned by specification methods and
assign results (`isFit`), the explicit guards (`if self.x is None: raise …` → `req` / `needsFit`; `if not
self._miss_flag: raise` → `blocked := !miss`), and — the point of the exercise — every attribute that some path of
its owner assigns while another path of the owner (group) leaves it as it was, with a reader that no flag shields:
such an attribute is emitted as a *register* (`sticky`, and `lock` when the owner reads it back).  The six stale-state
defects F26 are exactly of that shape; on the parent commit of each repair the analysis emits the register the hand
table used to carry, on the current source none (tested on every run by `harness/props/c11.py`, evidence key
`effects_selftest`).  In-place mutation of stored state or of a caller's argument (`x *= …` on an alias of
`self.x`, `self.x.append(…)`, `arg[...] = …`) is refused: the class's table is then missing from the generated file and
the theorems below stop compiling.

So: `gen_tables_all` (no register, well-formed) is a statement about the *source as it is now*; together with
`clean_calm` and `history_independent` it gives `gen_history_independent` for every class table the driver executes.
What stays outside: that assignments are the only way state changes (library calls are assumed not to keep or
mutate what they are handed — Python aliasing, monitored by gate D), the implicit failures listed in
`effects.IMPLICIT` (None arithmetic, missing working column: declared by attribute, mapped to slots by the
analysis, validated by gate K), and the values themselves (gate K: history object against fresh object).
-/
import ZepidVerif.Props.C11
import ZepidVerif.Gen.Tables
set_option linter.unusedVariables false
namespace ZV.P11G
open ZV.History

/-! ### A register in a table is what `clean` excludes -/

/-- **register_breaks_clean** — a table in which some method sets or reads a register is not `clean`: when the effect
    analysis finds conditionally assigned state, `gen_tables_all` below can no longer be proved. -/
theorem register_breaks_clean (C : Cls) (g : Sig) (hg : g ∈ C.sigs) (hr : g.sticky.isSome = true ∨ g.lock.isSome = true) :
    clean C = false := by
  unfold clean
  rw [Bool.eq_false_iff]
  intro h
  rw [List.all_eq_true] at h
  have := h g hg
  rcases hr with hr | hr <;> simp_all

example : clean P11.demoFlag = false :=
  register_breaks_clean P11.demoFlag (specR 0 0) (by decide) (Or.inl (by decide))

/-! ### The generated tables are the hand-written ones -/

theorem gen_iptw_eq (b : Bool) : Gen.Tables.iptw b = iptw b := by cases b <;> rfl
theorem gen_stochIptw_eq : Gen.Tables.stochIptw = stochIptw := rfl
theorem gen_aiptw_eq (b : Bool) : Gen.Tables.aiptw b = aiptw b := by cases b <;> rfl
theorem gen_tmle_eq (b : Bool) : Gen.Tables.tmle b = tmle b := by cases b <;> rfl
theorem gen_stochTmle_eq : Gen.Tables.stochTmle = stochTmle := rfl
theorem gen_timeFixed_eq : Gen.Tables.timeFixed = timeFixed := rfl
theorem gen_survival_eq : Gen.Tables.survival = survival := rfl
theorem gen_snm_eq (b : Bool) : Gen.Tables.snm b = snm b := by cases b <;> rfl
theorem gen_ipsw_eq : Gen.Tables.ipsw = ipsw := rfl
theorem gen_gtransport_eq : Gen.Tables.gtransport = gtransport := rfl
theorem gen_aipsw_eq : Gen.Tables.aipsw = aipsw := rfl
theorem gen_ipmw_eq : Gen.Tables.ipmw = ipmw := rfl
theorem gen_ipcw_eq : Gen.Tables.ipcw = ipcw := rfl
theorem gen_monteCarlo_eq : Gen.Tables.monteCarlo = monteCarlo := rfl
theorem gen_iterCond_eq : Gen.Tables.iterCond = iterCond := rfl
/-- the four cross-fit estimators have no hand-written predecessor: their tables were first obtained from the analysis
    (`Model/History.lean` `crossfit` records the result for review) -/
theorem gen_xfit_eq : Gen.Tables.xfSingleAiptw = crossfit ∧ Gen.Tables.xfDoubleAiptw = crossfit ∧
    Gen.Tables.xfSingleTmle = crossfit ∧ Gen.Tables.xfDoubleTmle = crossfit := ⟨rfl, rfl, rfl, rfl⟩

example : (Gen.Tables.tmle true).sig 1 = spec 1 ∧ (Gen.Tables.tmle false).sig 1 = { writes := some 1, blocked := true } ∧
    (Gen.Tables.monteCarlo).sig 5 = fitS [0, 1] ∧ (Gen.Tables.monteCarlo).sig 4 = spec 4 := by decide

/-- **gen_clsByName_eq** — the lookup the driver uses (generated) agrees with the hand-written one on every name -/
theorem gen_clsByName_eq (name : String) (b : Bool) : Gen.Tables.clsByName name b = clsByName name b := by
  unfold Gen.Tables.clsByName clsByName
  simp only [gen_iptw_eq, gen_stochIptw_eq, gen_aiptw_eq, gen_tmle_eq, gen_stochTmle_eq, gen_timeFixed_eq,
    gen_survival_eq, gen_snm_eq, gen_ipsw_eq, gen_gtransport_eq, gen_aipsw_eq, gen_ipmw_eq, gen_ipcw_eq,
    gen_monteCarlo_eq, gen_iterCond_eq, gen_xfit_eq.1, gen_xfit_eq.2.1, gen_xfit_eq.2.2.1, gen_xfit_eq.2.2.2]
  split <;> first
    | rfl
    | (split <;> first | rfl | (exfalso; simp_all))

example : Gen.Tables.clsByName "GEstimationSNM" true = some (snm true) := by
  rw [gen_clsByName_eq]; rfl

/-! ### The side conditions, proved on the generated tables themselves (not through the identification above) -/

/-- **gen_tables_all** — every table the driver can look up in the generated file is well-formed and has no register -/
theorem gen_tables_all (name : String) (b : Bool) (C : Cls) (h : Gen.Tables.clsByName name b = some C) :
    wf C = true ∧ clean C = true := by
  unfold Gen.Tables.clsByName at h
  split at h <;> first
    | (cases h; cases b <;> decide)
    | cases h

example : ∃ C, Gen.Tables.clsByName "AIPTW" false = some C ∧ C.nslots = 3 ∧ C.nregs = 0 := ⟨_, rfl, by decide, by decide⟩

/-- **gen_calm** — hence every history of every generated class table qualifies for the history theorems -/
theorem gen_calm (name : String) (b : Bool) (C : Cls) (h : Gen.Tables.clsByName name b = some C) (ops : List Op) :
    calm C ops = true :=
  P11.clean_calm (gen_tables_all name b C h).2 ops

/-- **gen_history_independent** — for every class table derived from the source and *every* call history: replaying
    only the canonical list (specifications in force at the last successful fit, that fit, last specification of each
    slot) on a fresh object gives the same state, hence the same outcome of every further call. -/
theorem gen_history_independent (name : String) (b : Bool) (C : Cls) (h : Gen.Tables.clsByName name b = some C)
    (ops : List Op) :
    run C init (normalize C ops) = run C init ops ∧
    ∀ o, step C (run C init (normalize C ops)) o = step C (run C init ops) o :=
  P11.history_independent (gen_tables_all name b C h).1 ops (gen_calm name b C h ops)

/-- **gen_refit_fresh** — a fit after any history = the same fit on a fresh object given the last specification of
    each slot, for every generated table -/
theorem gen_refit_fresh (name : String) (b : Bool) (C : Cls) (h : Gen.Tables.clsByName name b = some C)
    (ops : List Op) (o : Op) (hf : (C.sig o.m).isFit = true) :
    out C (run C init ops) o = out C (run C init (lastSpecs C ops)) o :=
  P11.refit_fresh (gen_tables_all name b C h).1 ops (gen_calm name b C h ops) o hf

/-- **gen_guard_complete** — a fit raises exactly when it is unavailable on the data or a required specification was
    never made, for every generated table and every history -/
theorem gen_guard_complete (name : String) (b : Bool) (C : Cls) (h : Gen.Tables.clsByName name b = some C)
    (ops : List Op) (o : Op) (hf : (C.sig o.m).isFit = true) :
    out C (run C init ops) o = .error ↔
      (C.sig o.m).blocked = true ∨ ∃ k ∈ (C.sig o.m).req, ∀ o' ∈ ops, wr C k o' = false :=
  P11.guard_complete (gen_tables_all name b C h).1 ops (gen_calm name b C h ops) o hf

/-- **gen_reports_keep_state** — in every table derived from the source, a call of a method that the effect analysis
    found to assign no visible state on any path (no slot) and that is not a fit -- every `summary`, `run_diagnostics`,
    `positivity`, `standardized_mean_differences`, `plot_*` -- leaves the object as it was, raising or not; hence
    (`observers_erasable`) such calls can be struck out of any history.  A reporting method that starts to assign or
    mutate `self.*` is no longer of this kind: the analysis makes it a specification / fit (the generated table differs
    from the hand table), emits a register, or refuses the class, and the theorems of this file stop compiling. -/
theorem gen_reports_keep_state (name : String) (b : Bool) (C : Cls) (h : Gen.Tables.clsByName name b = some C)
    (s : State) (o : Op) (hw : (C.sig o.m).writes = none) (hf : (C.sig o.m).isFit = false) :
    observer C o = true ∧ next C s o = s := by
  have hs := (L11.clean_sig (gen_tables_all name b C h).2 o.m).1
  have ho : observer C o = true := by unfold observer; simp [hw, hf, hs]
  exact ⟨ho, P11.observer_keeps_state s o ho⟩

example : ∃ C, Gen.Tables.clsByName "DoubleCrossfitTMLE" false = some C ∧ (C.sig 4).writes = none ∧
    (C.sig 4).isFit = false ∧ (C.sig 4).needsFit = true := ⟨_, rfl, by decide, by decide, by decide⟩

/-- **gen_spec_order_irrelevant** — for every generated table: specification calls of pairwise different slots may be
    made in any order (e.g. the labelled covariate models of `MonteCarloGFormula`) -/
theorem gen_spec_order_irrelevant (name : String) (b : Bool) (C : Cls) (h : Gen.Tables.clsByName name b = some C)
    {l₁ l₂ : List Op} (p : l₁.Perm l₂) (hs : ∀ o ∈ l₁, ((C.sig o.m).writes).isSome = true)
    (hd : ∀ x ∈ l₁, ∀ y ∈ l₁, x ≠ y → (C.sig x.m).writes ≠ (C.sig y.m).writes) (s : State) :
    run C s l₁ = run C s l₂ :=
  P11.spec_order_irrelevant (gen_tables_all name b C h).1 (gen_tables_all name b C h).2 p hs hd s

example : (Gen.Tables.monteCarlo.sig 3).writes = some 3 ∧ (Gen.Tables.monteCarlo.sig 4).writes = some 4 ∧
    Gen.Tables.monteCarlo.nslots = 5 := by decide

example : ((Gen.Tables.tmle true).sig 3).isFit = true ∧
    out (Gen.Tables.tmle true) (run (Gen.Tables.tmle true) init [⟨0, 0, false⟩, ⟨1, 1, false⟩, ⟨6, 2, false⟩]) ⟨3, 3, false⟩ = .error ∧
    normalize (Gen.Tables.tmle true) [⟨0, 0, false⟩, ⟨2, 1, false⟩, ⟨3, 2, false⟩, ⟨2, 3, false⟩, ⟨4, 4, false⟩, ⟨0, 5, false⟩] =
      [⟨0, 0, false⟩, ⟨2, 1, false⟩, ⟨3, 2, false⟩, ⟨0, 5, false⟩, ⟨2, 3, false⟩] := by
  decide

end ZV.P11G
