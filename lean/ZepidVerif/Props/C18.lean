/-
C18 — Adjustment sets reported by `DirectedAcyclicGraph` are exactly the back-door admissible sets; arrows that
would create a cycle are rejected and leave the graph unchanged.

Subject: the executable model `ZV.Dag` (`Model/Dag.lean`) of zepid/causal/causalgraph/dag.py — the same
definitions the native driver runs against the real code in gate K.  Everything is stated for arbitrary finite
graphs (any number of nodes, any insertion order of nodes and arrows, any op sequence); nothing is bounded.

Specification (`Lemmas/Dag.lean`, `Lemmas/DagPaths.lean`): `Admissible E x y Z` :≡ no member of `Z` is a proper
descendant of `x`, and `x`,`y` are not connected in  moral( G minus the arrows leaving x, restricted to
An({x,y} ∪ Z) ) − Z  (the Lauritzen–Dawid–Larsen–Leimer moral-graph criterion, which is what the code computes).
That this criterion *is* d-separation in the path-blocking sense is proved here for every finite DAG
(`dsep_moral_iff_pathblocking`): every path (equivalently every walk) between `x` and `y` contains a non-collider in
`Z` or a collider outside `Z` without a descendant in `Z`.  Hence `check_iff_pathblocking` /
`check_iff_backdoor_paths`: the check accepts `Z` iff `Z` holds no descendant of the exposure and blocks every
back-door path; and `check_eq_backdoorPaths`: the check equals the executable path-enumerating oracle
`backdoorPaths` of `Model/Dag.lean` (formerly only compared by compiled evaluation on ≤ 5 nodes).

Not covered by a theorem: that networkx's `descendants/ancestors/has_path/is_directed_acyclic_graph` compute
reachability (measured by gates K/H), and the string-label → number mapping of the harness.
-/
import ZepidVerif.Lemmas.Dag
import ZepidVerif.Lemmas.DagPaths
namespace ZV.P18
open ZV.Dag Relation

/-! ### Reachability: the executable closure is the reflexive-transitive closure of the arrow relation -/

theorem reach_iff (E : List Edge) (u v : Nat) : v ∈ reach E u ↔ ReflTransGen (edgeRel E) u v :=
  mem_reach E u v

example : 3 ∈ reach [(0, 1), (2, 3), (1, 2)] 0 ∧ 0 ∉ reach [(0, 1), (2, 3), (1, 2)] 3 := by decide

/-- `networkx.descendants` as modelled = proper descendants; in a DAG these are the nodes reached by ≥ 1 arrow -/
theorem desc_iff (E : List Edge) (hac : Acyclic E) (x v : Nat) : v ∈ desc E x ↔ TransGen (edgeRel E) x v := by
  rw [mem_desc, IsDesc, reflTransGen_iff_eq_or_transGen]
  constructor
  · rintro ⟨hne, h | h⟩
    · exact absurd h hne
    · exact h
  · intro h
    exact ⟨fun hv => hac x (hv ▸ h), .inr h⟩

example : Acyclic [(0, 1), (2, 0), (2, 1)] := isAcyclic_iff.mp (by decide)

/-- `networkx.ancestors` as modelled -/
theorem anc_iff (E : List Edge) (n v : Nat) : v ∈ anc E n ↔ v ≠ n ∧ ReflTransGen (edgeRel E) v n := mem_anc

/-! ### `_check_valid_adjustment_set_` decides back-door admissibility (soundness and completeness) -/

/-- for every finite graph whose arrows join nodes of the graph (a networkx container invariant, see `inv_run`),
    every exposure/outcome and every candidate set, in any node/arrow order -/
theorem check_iff_admissible (G : Graph) (hwf : G.WF) (x y : Nat) (Z : List Nat) :
    check G x y Z = true ↔ Admissible G.edges x y Z :=
  check_iff hwf x y Z

/-- the specification in the words of the property: `Z` holds no descendant of the exposure and d-separates
    (moral-graph criterion `DSepMoral`) exposure and outcome in the graph from which the arrows leaving the exposure
    have been removed.  (`Admissible` takes ancestors in the full graph, as the code does; this is the same.) -/
theorem check_iff_backdoor (G : Graph) (hwf : G.WF) (x y : Nat) (Z : List Nat) :
    check G x y Z = true ↔
      (∀ z ∈ Z, ¬ IsDesc G.edges x z) ∧ DSepMoral (G.edges.filter (fun e => e.1 != x)) x y Z := by
  rw [check_iff_admissible G hwf, admissible_iff_dsep]

/-- M-bias graph 2→0, 2→4, 3→4, 3→1, 0→1: the empty set is admissible, the collider {4} alone is not -/
def mbias : Graph := ⟨[0, 1, 2, 4, 3], [(0, 1), (2, 0), (2, 4), (3, 4), (3, 1)]⟩
example : mbias.WF := by decide
example : Admissible mbias.edges 0 1 [] := (check_iff_admissible mbias (by decide) 0 1 []).mp (by decide)
example : ¬ Admissible mbias.edges 0 1 [4] := fun h =>
  absurd ((check_iff_admissible mbias (by decide) 0 1 [4]).mpr h) (by decide)
example : DSepMoral (mbias.edges.filter (fun e => e.1 != 0)) 0 1 [4, 3] :=
  ((check_iff_backdoor mbias (by decide) 0 1 [4, 3]).mp (by decide)).2
example : Admissible mbias.edges 0 1 [4, 3] := (check_iff_admissible mbias (by decide) 0 1 [4, 3]).mp (by decide)

/-! ### The moral-graph criterion is path-blocking d-separation (Lauritzen, Dawid, Larsen, Leimer 1990) -/

/-- for every finite DAG (any number of nodes) and `x`, `y` outside `Z`: `Z` separates `x` from `y` in the moral graph
    of the sub-DAG induced by `An({x,y} ∪ Z)` iff every path between `x` and `y` (a list of distinct nodes, consecutive
    ones joined by an arrow in either direction) is blocked by `Z` — it contains a non-collider that is in `Z`, or a
    collider that is not in `Z` and has no descendant in `Z` — iff every walk (nodes may repeat) is blocked -/
theorem dsep_moral_iff_pathblocking (E : List Edge) (hac : Acyclic E) (x y : Nat) (Z : List Nat) (hx : x ∉ Z)
    (hy : y ∉ Z) :
    (DSepMoral E x y Z ↔ DSepPaths E x y Z) ∧ (DSepMoral E x y Z ↔ DSepWalks E x y Z) :=
  ⟨dsepMoral_iff_paths hac hx hy, dsepMoral_iff_walks hac hx hy⟩

/-- the definitions are not vacuous.  M-bias graph, the only back-door path 0 ← 2 → 4 ← 3 → 1: it is a path, it is
    blocked by the empty set (collider 4), opened by {4}, and blocked again by {4, 3} -/
example : IsWalk mbias.edges [0, 2, 4, 3, 1] ∧ FromTo [0, 2, 4, 3, 1] 0 1 ∧ [0, 2, 4, 3, 1].Nodup ∧
    IsBackdoor mbias.edges 0 [0, 2, 4, 3, 1] :=
  ⟨by decide, by decide, by decide, ⟨2, [4, 3, 1], rfl, by decide⟩⟩
example : Blocked mbias.edges [] [0, 2, 4, 3, 1] := (pathBlocked_iff _).mp (by decide)
example : ¬ Blocked mbias.edges [4] [0, 2, 4, 3, 1] := fun h => absurd ((pathBlocked_iff _).mpr h) (by decide)
example : Blocked mbias.edges [4, 3] [0, 2, 4, 3, 1] := (pathBlocked_iff _).mp (by decide)
/-- a walk that is not a path (it turns round at the collider 4), unblocked given {4} -/
example : IsWalk mbias.edges [2, 4, 2] ∧ ¬ Blocked mbias.edges [4] [2, 4, 2] :=
  ⟨by decide, fun h => absurd ((pathBlocked_iff _).mpr h) (by decide)⟩

/-- the executable enumeration `dsepPaths` of `Model/Dag.lean` (fuel = number of nodes + 1) decides path-blocking
    d-separation in every sub-graph of a well-formed DAG -/
theorem dsepPaths_exec_iff (G : Graph) (hwf : G.WF) (E' : List Edge) (hE : ∀ e ∈ E', e ∈ G.edges)
    (hac : Acyclic E') (x y : Nat) (Z : List Nat) (hx : x ∉ Z) (hy : y ∉ Z) :
    dsepPaths G.nodes.length E' x y Z = true ↔ DSepPaths E' x y Z :=
  dsepPaths_iff (fun _ hnd hw => simple_path_length hwf hE hnd hw) hac hx hy

/-! ### The check decides back-door admissibility in the path-blocking sense -/

/-- **C18 in the words of the property.**  For every well-formed DAG, exposure `x`, outcome `y` and candidate set `Z`
    (not containing `x`, `y`): `_check_valid_adjustment_set_` returns True iff no member of `Z` is a descendant of
    the exposure and every path from `x` to `y` in the graph without the arrows leaving `x` is blocked by `Z` -/
theorem check_iff_pathblocking (G : Graph) (hwf : G.WF) (hac : Acyclic G.edges) (x y : Nat) (Z : List Nat)
    (hx : x ∉ Z) (hy : y ∉ Z) :
    check G x y Z = true ↔
      (∀ z ∈ Z, ¬ IsDesc G.edges x z) ∧ DSepPaths (G.edges.filter (fun e => e.1 != x)) x y Z := by
  have hac' : Acyclic (G.edges.filter (fun e => e.1 != x)) :=
    fun v hv => hac v (tg_mono (fun e he => (List.mem_filter.mp he).1) hv)
  rw [check_iff_backdoor G hwf, dsepMoral_iff_paths hac' hx hy]

/-- the same with walks (nodes may repeat) instead of paths -/
theorem check_iff_walkblocking (G : Graph) (hwf : G.WF) (hac : Acyclic G.edges) (x y : Nat) (Z : List Nat)
    (hx : x ∉ Z) (hy : y ∉ Z) :
    check G x y Z = true ↔
      (∀ z ∈ Z, ¬ IsDesc G.edges x z) ∧ DSepWalks (G.edges.filter (fun e => e.1 != x)) x y Z := by
  have hac' : Acyclic (G.edges.filter (fun e => e.1 != x)) :=
    fun v hv => hac v (tg_mono (fun e he => (List.mem_filter.mp he).1) hv)
  rw [check_iff_backdoor G hwf, dsepMoral_iff_walks hac' hx hy]

/-- … and with the back-door paths of the *full* graph: the paths from `x` to `y` whose first arrow points into `x`,
    blocking (colliders, descendants) judged in the full graph — Pearl's back-door criterion verbatim -/
theorem check_iff_backdoor_paths (G : Graph) (hwf : G.WF) (hac : Acyclic G.edges) (x y : Nat) (Z : List Nat)
    (hxy : x ≠ y) (hx : x ∉ Z) (hy : y ∉ Z) :
    check G x y Z = true ↔ (∀ z ∈ Z, ¬ IsDesc G.edges x z) ∧ BackdoorBlocked G.edges x y Z := by
  rw [check_iff_pathblocking G hwf hac x y Z hx hy]
  constructor
  · rintro ⟨h1, h2⟩; exact ⟨h1, (dsepPaths_filter_iff_backdoor hac hxy hx h1).mp h2⟩
  · rintro ⟨h1, h2⟩; exact ⟨h1, (dsepPaths_filter_iff_backdoor hac hxy hx h1).mpr h2⟩

example : mbias.WF ∧ Acyclic mbias.edges := ⟨by decide, isAcyclic_iff.mp (by decide)⟩
example : BackdoorBlocked mbias.edges 0 1 [] :=
  ((check_iff_backdoor_paths mbias (by decide) (isAcyclic_iff.mp (by decide)) 0 1 [] (by decide) (by decide)
    (by decide)).mp (by decide)).2
/-- the collider {4} opens the back-door path: not every back-door path is blocked, and the check says no -/
example : ¬ BackdoorBlocked mbias.edges 0 1 [4] ∧ check mbias 0 1 [4] = false :=
  ⟨fun h => absurd ((pathBlocked_iff _).mpr
      (h [0, 2, 4, 3, 1] (by decide) (by decide) (by decide) ⟨2, [4, 3, 1], rfl, by decide⟩)) (by decide),
   by decide⟩
example : DSepPaths (mbias.edges.filter (fun e => e.1 != 0)) 0 1 [4, 3] :=
  ((check_iff_pathblocking mbias (by decide) (isAcyclic_iff.mp (by decide)) 0 1 [4, 3] (by decide)
    (by decide)).mp (by decide)).2

/-- the modelled check *is* the path-enumerating oracle `backdoorPaths` of `Model/Dag.lean` (no descendant of `x` in
    `Z`, and every simple path of the graph without the arrows leaving `x`, enumerated with fuel `#nodes + 1`, is
    blocked) — for every well-formed DAG, not only the ≤ 5-node graphs on which the driver compares the two -/
theorem check_eq_backdoorPaths (G : Graph) (hwf : G.WF) (hac : Acyclic G.edges) (x y : Nat) (Z : List Nat)
    (hx : x ∉ Z) (hy : y ∉ Z) : check G x y Z = backdoorPaths G x y Z := by
  have hac' : Acyclic (G.edges.filter (fun e => e.1 != x)) :=
    fun v hv => hac v (tg_mono (fun e he => (List.mem_filter.mp he).1) hv)
  rw [Bool.eq_iff_iff, check_iff_pathblocking G hwf hac x y Z hx hy]
  unfold backdoorPaths
  rw [Bool.and_eq_true, dsepPaths_exec_iff G hwf _ (fun e he => (List.mem_filter.mp he).1) hac' x y Z hx hy]
  simp [mem_desc]

/-- kernel-checked instance (all 8 candidate sets of the M-bias graph) of `check_eq_backdoorPaths` -/
example : (allSubsets (cands mbias 0 1)).all (fun Z => check mbias 0 1 Z == backdoorPaths mbias 0 1 Z) = true := by
  decide

/-- what `calculate_adjustment_sets` lists, in the words of the property: a sub-list of the candidate nodes is
    reported iff it holds no descendant of the exposure and blocks every back-door path -/
theorem listed_iff_backdoor_paths (G : Graph) (hinv : G.Inv) (hac : Acyclic G.edges) (x y : Nat) (hxy : x ≠ y)
    (Z : List Nat) :
    Z ∈ listAll G x y ↔
      Z.Sublist (cands G x y) ∧ (∀ z ∈ Z, ¬ IsDesc G.edges x z) ∧ BackdoorBlocked G.edges x y Z := by
  rw [mem_listAll]
  have key : Z.Sublist (cands G x y) → x ∉ Z ∧ y ∉ Z := fun hs =>
    ⟨fun h => ((mem_cands hinv.nodup).mp (hs.subset h)).2.1 rfl,
     fun h => ((mem_cands hinv.nodup).mp (hs.subset h)).2.2 rfl⟩
  constructor
  · rintro ⟨hs, hc⟩
    exact ⟨hs, (check_iff_backdoor_paths G hinv.wf hac x y Z hxy (key hs).1 (key hs).2).mp hc⟩
  · rintro ⟨hs, hb⟩
    exact ⟨hs, (check_iff_backdoor_paths G hinv.wf hac x y Z hxy (key hs).1 (key hs).2).mpr hb⟩

/-- the verdict does not depend on the order in which nodes and arrows were inserted, nor on the order in which
    the candidate set is written (this failed for the moralisation loop before /repo commit b89edca) -/
theorem check_order_independent (G G' : Graph) (hwf : G.WF) (hwf' : G'.WF) (x y : Nat) (Z Z' : List Nat)
    (hE : ∀ e, e ∈ G.edges ↔ e ∈ G'.edges) (hZ : ∀ v, v ∈ Z ↔ v ∈ Z') :
    check G x y Z = check G' x y Z' := by
  rw [Bool.eq_iff_iff, check_iff_admissible G hwf, check_iff_admissible G' hwf']
  exact admissible_congr hE hZ

example : check mbias 0 1 [4, 3] = check ⟨[3, 4, 2, 1, 0], mbias.edges.reverse⟩ 0 1 [3, 4] := by decide

/-! ### `calculate_adjustment_sets`: what is listed -/

/-- a list is reported iff it is a sub-list of the candidate nodes (all nodes except exposure and outcome, in
    insertion order) and is admissible -/
theorem listed_iff (G : Graph) (hwf : G.WF) (x y : Nat) (Z : List Nat) :
    Z ∈ listAll G x y ↔ Z.Sublist (cands G x y) ∧ Admissible G.edges x y Z := by
  rw [mem_listAll, check_iff_admissible G hwf]

/-- set form: a set `S` of non-exposure, non-outcome nodes is reported (as some list with exactly the members of
    `S`) iff it is admissible; and everything reported is such a set -/
theorem listed_iff_set (G : Graph) (hinv : G.Inv) (x y : Nat) :
    (∀ S : List Nat, (∀ v ∈ S, v ∈ G.nodes ∧ v ≠ x ∧ v ≠ y) →
      ((∃ Z ∈ listAll G x y, ∀ v, v ∈ Z ↔ v ∈ S) ↔ Admissible G.edges x y S)) ∧
    (∀ Z ∈ listAll G x y, ∀ v ∈ Z, v ∈ G.nodes ∧ v ≠ x ∧ v ≠ y) := by
  constructor
  · intro S hS
    constructor
    · rintro ⟨Z, hZ, hmem⟩
      exact (admissible_congr (fun _ => Iff.rfl) hmem).mp ((listed_iff G hinv.wf x y Z).mp hZ).2
    · intro hadm
      refine ⟨(cands G x y).filter (fun v => S.contains v), ?_, ?_⟩
      · rw [listed_iff G hinv.wf]
        refine ⟨List.filter_sublist, (admissible_congr (fun _ => Iff.rfl) ?_).mpr hadm⟩
        intro v
        simp only [List.mem_filter, List.contains_eq_mem, decide_eq_true_eq, mem_cands hinv.nodup]
        exact ⟨fun h => h.2, fun h => ⟨hS v h, h⟩⟩
      · intro v
        simp only [List.mem_filter, List.contains_eq_mem, decide_eq_true_eq, mem_cands hinv.nodup]
        exact ⟨fun h => h.2, fun h => ⟨hS v h, h⟩⟩
  · intro Z hZ v hv
    exact (mem_cands hinv.nodup).mp (((listed_iff G hinv.wf x y Z).mp hZ).1.subset hv)

example : listAll mbias 0 1 = [[], [2], [3], [2, 4], [2, 3], [4, 3], [2, 4, 3]] := by decide
example : mbias.Inv := ⟨by decide, by decide⟩

/-- `minimal_adjustment_sets` are exactly the reported sets of smallest size (minimum cardinality — this is what
    the code computes; it is not the family of inclusion-minimal sets) -/
theorem minimal_eq_smallest (L : List (List Nat)) (Z : List Nat) :
    Z ∈ minimal L ↔ Z ∈ L ∧ ∀ W ∈ L, Z.length ≤ W.length :=
  mem_minimal

example : minimal (listAll ⟨[0, 1, 2, 3], [(0, 1), (2, 0), (3, 2), (3, 1)]⟩ 0 1) = [[2], [3]] ∧
    minimal (listAll mbias 0 1) = [[]] := by decide

/-! ### Graph editing: cycle-creating arrows are rejected and leave the graph unchanged -/

/-- a raising call (`DAGError`) leaves `self.dag` exactly as it was -/
theorem reject_unchanged (x y : Nat) (G : Graph) (op : Op) (e : Err) (h : (step x y G op).2 = some e) :
    (step x y G op).1 = G :=
  step_error_unchanged h

example : (step 0 1 mbias (.arrow 1 2)).2 = some .cyclic ∧ (step 0 1 mbias (.arrow 1 2)).1 = mbias := by decide

/-- `add_arrow(s, t)` on a DAG raises exactly when the arrow would close a directed cycle, i.e. when `t` already
    reaches `s` (`s = t` included); otherwise the arrow (and its end nodes) are added -/
theorem arrow_reject_iff (x y : Nat) (G : Graph) (hac : Acyclic G.edges) (s t : Nat) :
    ((step x y G (.arrow s t)).2 = some .cyclic ↔ ReflTransGen (edgeRel G.edges) t s) ∧
    ((step x y G (.arrow s t)).2 = none ↔ ¬ ReflTransGen (edgeRel G.edges) t s) ∧
    ((step x y G (.arrow s t)).2 = none → (step x y G (.arrow s t)).1 = addEdge G (s, t)) := by
  have hc : isAcyclic (addEdge G (s, t)).edges = true ↔ ¬ ReflTransGen (edgeRel G.edges) t s := by
    rw [isAcyclic_iff, acyclic_congr (E' := (s, t) :: G.edges)
      (fun e => by rw [mem_addEdge_edges, List.mem_cons, or_comm]), acyclic_cons]
    exact ⟨fun h => h.2, fun h => ⟨hac, h⟩⟩
  by_cases h : isAcyclic (addEdge G (s, t)).edges = true
  · have h' := hc.mp h
    simp [step, applyOp, h, h']
  · have h' : ReflTransGen (edgeRel G.edges) t s := not_not.mp (fun hn => h (hc.mpr hn))
    simp [step, applyOp, h, h']

example : Acyclic mbias.edges := isAcyclic_iff.mp (by decide)
example : (step 0 1 mbias (.arrow 4 1)).2 = none ∧ (step 0 1 mbias (.arrow 4 4)).2 = some .cyclic := by decide

/-- `add_arrows(pairs)` raises exactly when the graph with all the new arrows has a directed cycle -/
theorem arrows_reject_iff (x y : Nat) (G : Graph) (ps : List Edge) :
    ((step x y G (.arrows ps)).2 = some .cyclic ↔ ¬ Acyclic (G.edges ++ ps)) ∧
    ((step x y G (.arrows ps)).2 = none ↔ Acyclic (G.edges ++ ps)) ∧
    ((step x y G (.arrows ps)).2 = none → (step x y G (.arrows ps)).1 = ps.foldl addEdge G) := by
  have hc : isAcyclic (ps.foldl addEdge G).edges = true ↔ Acyclic (G.edges ++ ps) := by
    rw [isAcyclic_iff]
    exact acyclic_congr (fun e => by rw [mem_foldl_addEdge_edges, List.mem_append])
  by_cases h : isAcyclic (ps.foldl addEdge G).edges = true
  · have h' := hc.mp h
    simp [step, applyOp, h, h']
  · have h' : ¬ Acyclic (G.edges ++ ps) := fun hn => h (hc.mpr hn)
    simp [step, applyOp, h, h']

example : (step 0 1 mbias (.arrows [(1, 5), (5, 3)])).2 = some .cyclic ∧
    (step 0 1 mbias (.arrows [(1, 5), (3, 5)])).2 = none := by decide

/-- whatever sequence of `add_arrow / add_arrows / add_from_networkx` calls is made (raising ones included), the
    stored graph stays acyclic -/
theorem acyclic_inv (x y : Nat) (G : Graph) (hac : Acyclic G.edges) (ops : List Op) :
    Acyclic (run x y G ops).1.edges := by
  induction ops generalizing G with
  | nil => exact hac
  | cons op ops ih =>
    apply ih
    unfold step
    split
    · rename_i G' h; exact (applyOp_ok h).1
    · exact hac

/-- the graph of a freshly constructed `DirectedAcyclicGraph(x, y)` (x ≠ y) is acyclic, hence so is every graph
    reachable from it -/
theorem acyclic_from_init (x y : Nat) (hxy : x ≠ y) (ops : List Op) :
    Acyclic (run x y (init x y) ops).1.edges := by
  apply acyclic_inv
  have : (init x y).edges = [(x, y)] := by simp [init, addEdge]
  rw [this, acyclic_cons]
  refine ⟨fun v hv => ?_, fun h => hxy (rtg_nil.mp h).symm⟩
  obtain ⟨b, hb, _⟩ := TransGen.head'_iff.mp hv
  simp [edgeRel] at hb

example : (run 0 1 (init 0 1) [.arrow 2 0, .arrow 1 2, .arrows [(2, 1), (1, 3)], .fromGraph [7] [(0, 1), (1, 0)],
    .fromGraph [7] [(0, 2), (2, 1)]]) =
    (⟨[7, 0, 2, 1], [(0, 2), (2, 1)]⟩, [none, some .cyclic, none, some .cyclic, none]) := by decide

/-- every reachable state satisfies the container invariant needed by `check_iff_admissible` / `listed_iff_set`,
    and still contains the exposure and the outcome as nodes -/
theorem inv_run (x y : Nat) (G : Graph) (hinv : G.Inv) (hx : x ∈ G.nodes) (hy : y ∈ G.nodes) (ops : List Op) :
    (run x y G ops).1.Inv ∧ x ∈ (run x y G ops).1.nodes ∧ y ∈ (run x y G ops).1.nodes := by
  induction ops generalizing G with
  | nil => exact ⟨hinv, hx, hy⟩
  | cons op ops ih =>
    have key : (step x y G op).1.Inv ∧ x ∈ (step x y G op).1.nodes ∧ y ∈ (step x y G op).1.nodes := by
      unfold step
      split
      · rename_i G' h
        have h2 := (applyOp_ok h).2
        cases op with
        | arrow s t =>
          simp only at h2; subst h2
          exact ⟨inv_addEdge hinv _, mem_addEdge_nodes.mpr (.inl hx), mem_addEdge_nodes.mpr (.inl hy)⟩
        | arrows ps =>
          simp only at h2; subst h2
          exact ⟨inv_foldl_addEdge hinv, mem_foldl_addEdge_nodes_of_mem hx, mem_foldl_addEdge_nodes_of_mem hy⟩
        | fromGraph ns es =>
          simp only at h2
          obtain ⟨h2, hx', hy'⟩ := h2
          exact ⟨h2 ▸ inv_build ns es, hx', hy'⟩
      · exact ⟨hinv, hx, hy⟩
    exact ih _ key.1 key.2.1 key.2.2

/-- in particular for every graph built from `DirectedAcyclicGraph(x, y)` by any op sequence -/
theorem inv_from_init (x y : Nat) (ops : List Op) : (run x y (init x y) ops).1.Inv := by
  refine (inv_run x y (init x y) (inv_init x y) ?_ ?_ ops).1 <;> simp [init, mem_addEdge_nodes]

/-- end-to-end: for any program (op sequence) starting from `DirectedAcyclicGraph(x, y)`, the reported list
    contains a candidate list iff it is admissible in the graph the program built -/
theorem listed_iff_program (x y : Nat) (ops : List Op) (Z : List Nat) :
    let G := (run x y (init x y) ops).1
    Z ∈ listAll G x y ↔ Z.Sublist (cands G x y) ∧ Admissible G.edges x y Z :=
  listed_iff _ (inv_from_init x y ops).wf x y Z


/-! ### Histories: `calculate_adjustment_sets()` called any number of times among the edits -/

/-- whatever was called before on the object (edits of every kind, raising calls, earlier calculations), the
    attributes right after a `calculate_adjustment_sets()` are those of the graph *as it is at that moment*:
    `adjustment_sets` is the listing of the current graph (no stale result survives), that graph is the one built by
    the editing calls alone, and a candidate list is in it iff it is admissible in the current graph;
    `minimal_adjustment_sets` are its smallest members -/
theorem calculate_reports_current (x y : Nat) (cs : List Call) :
    let o := (runObj x y (newObj x y) (cs ++ [.calculate])).1
    o.dag = (run x y (init x y) (edits cs)).1 ∧
    o.adj = some (listAll o.dag x y) ∧ o.minAdj = some (minimal (listAll o.dag x y)) ∧
    (∀ Z, Z ∈ listAll o.dag x y ↔ Z.Sublist (cands o.dag x y) ∧ Admissible o.dag.edges x y Z) ∧
    (∀ Z, Z ∈ minimal (listAll o.dag x y) ↔
      Z ∈ listAll o.dag x y ∧ ∀ W ∈ listAll o.dag x y, Z.length ≤ W.length) := by
  intro o
  obtain ⟨h1, h2, h3⟩ := runObj_calc_last x y (newObj x y) cs
  have hd : o.dag = (run x y (init x y) (edits cs)).1 := h1.trans (runObj_dag x y (newObj x y) cs)
  have ha : o.adj = some (listAll o.dag x y) ∧ o.minAdj = some (minimal (listAll o.dag x y)) := ⟨h2, h3⟩
  refine ⟨hd, ha.1, ha.2, fun Z => ?_, fun Z => mem_minimal⟩
  have hwf : o.dag.WF := hd ▸ (inv_from_init x y (edits cs)).wf
  exact listed_iff o.dag hwf x y Z

/-- the seed-style history: calculate, load another graph with `add_from_networkx`, calculate again -/
example : (runObj 0 1 (newObj 0 1) [.edit (.arrow 2 0), .edit (.arrow 2 1), .calculate,
      .edit (.fromGraph [] [(0, 1), (3, 0), (3, 1)]), .edit (.arrow 1 3), .calculate]).2 =
    [(none, none), (none, none), (none, some ([[2]], [[2]])), (none, none), (some .cyclic, none),
     (none, some ([[3]], [[3]]))] := by decide

end ZV.P18
