/-
C11 — re-specifying / refitting is history-independent; results before the required models raise.

Subject: the executable model `ZV.History` (`Model/History.lean`) that the native driver runs for gate K — the same
definitions, no parallel copy.  All statements are for *every* class table `C` satisfying the decidable side
condition `wf C` (`tables_wf`: checked for each of the tables the driver executes), every call history
`ops` (unbounded: induction over the list) and every argument identifier.  Proofs and helper lemmas are in
`Lemmas/History.lean`.

What the theorems do not carry (partial): that the real classes *are* their tables (gate K); Python aliasing, i.e.
the first clause of the property, "no call modifies the caller's DataFrame / arrays" — monitored at run time by
gate D (`nonmutation_checks` in the evidence), not a theorem; floating point.

`history_independent` is proved for histories in which no call sets a never-reset register (`calm`).  No class
table has a register (`tables_wf`, `tables_all`), so by `clean_calm` this is *every* history of *every* class.  The
six classes that used to have such state (known findings C11-*, repaired in zEpid) are covered like the others;
`calm_needed` shows on two demonstration tables that the hypothesis cannot be dropped.
-/
import ZepidVerif.Lemmas.History
set_option linter.unusedVariables false
namespace ZV.P11
open ZV.History

variable {C : Cls}

/-! ### Slots hold the last specification -/

/-- **slots_last** — after any history, slot `k` of the object holds the last non-blocked specification call of
    that slot in the history (`none` iff the slot was never specified): nothing else of the history survives
    in a slot. -/
theorem slots_last (h : wf C = true) (ops : List Op) (hc : calm C ops = true) (k : Nat) :
    (run C init ops).slots k = (ops.filter (wr C k)).getLast? :=
  L11.slots_last h ops hc k

example : wf (iptw true) = true ∧ calm (iptw true) [⟨0, 0, false⟩, ⟨3, 1, false⟩, ⟨0, 2, false⟩, ⟨2, 3, false⟩] = true ∧
    (run (iptw true) init [⟨0, 0, false⟩, ⟨3, 1, false⟩, ⟨0, 2, false⟩, ⟨2, 3, false⟩]).slots 0 = some ⟨0, 2, false⟩ := by
  decide

/-! ### Guards (third clause of the property) -/

/-- **guard_complete** — a fit call raises exactly when the method is unavailable on the data or some required
    slot was never (successfully) specified — for every history, whatever else was called before. -/
theorem guard_complete (h : wf C = true) (ops : List Op) (hc : calm C ops = true) (o : Op)
    (hf : (C.sig o.m).isFit = true) :
    out C (run C init ops) o = .error ↔
      (C.sig o.m).blocked = true ∨ ∃ k ∈ (C.sig o.m).req, ∀ o' ∈ ops, wr C k o' = false :=
  L11.guard_complete h ops hc o hf

example : ((tmle true).sig 3).isFit = true ∧
    out (tmle true) (run (tmle true) init [⟨0, 0, false⟩, ⟨1, 1, false⟩, ⟨6, 2, false⟩]) ⟨3, 3, false⟩ = .error ∧
    out (tmle true) (run (tmle true) init [⟨0, 0, false⟩, ⟨2, 1, false⟩]) ⟨3, 2, false⟩ ≠ .error := by
  decide

/-- **results_guard** — `summary` / result plots (methods that read a fitted result) raise whenever no fit call
    of the history went through; in particular (second form) whenever the history contains no fit call. -/
theorem results_guard (ops : List Op) (o : Op) (hn : (C.sig o.m).needsFit = true)
    (hnone : (run C init ops).fitted = none) : out C (run C init ops) o = .error :=
  L11.results_guard ops o hn hnone

theorem results_guard_nofit (ops : List Op) (o : Op) (hn : (C.sig o.m).needsFit = true)
    (hall : ∀ o' ∈ ops, (C.sig o'.m).isFit = false) : out C (run C init ops) o = .error :=
  L11.results_guard_nofit ops o hn hall

/-- **fitted_isSome_iff** — a fitted result exists exactly when some fit call of the history went through -/
theorem fitted_isSome_iff (ops : List Op) :
    ((run C init ops).fitted.isSome = true ↔
      ∃ pre f post, ops = pre ++ f :: post ∧ (C.sig f.m).isFit = true ∧ admits C (run C init pre) f = true) := by
  have := L11.fitted_isSome_iff (C := C) ops init
  simpa [init] using this

example : (stochTmle.sig 3).needsFit = true ∧
    out stochTmle (run stochTmle init [⟨0, 0, false⟩, ⟨1, 1, false⟩]) ⟨3, 2, false⟩ = .error ∧
    out stochTmle (run stochTmle init [⟨0, 0, false⟩, ⟨1, 1, false⟩, ⟨2, 2, false⟩]) ⟨3, 3, false⟩ ≠ .error := by
  decide

/-- **spec_accepted** — a non-blocked specification call never raises, at any point of a history -/
theorem spec_accepted (h : wf C = true) (ops : List Op) (hc : calm C ops = true) (o : Op) (k : Nat)
    (hw : (C.sig o.m).writes = some k) (hb : (C.sig o.m).blocked = false) :
    out C (run C init ops) o ≠ .error :=
  L11.spec_accepted h ops hc o k hw hb

/-- **error_keeps_state** — a call that raises leaves the object as it was -/
theorem error_keeps_state (s : State) (o : Op) (h : out C s o = .error) : next C s o = s :=
  L11.error_keeps_state s o h

example : out (iptw false) init ⟨1, 0, false⟩ = .error := by decide

/-! ### History independence (second clause of the property) -/

/-- **refit_fresh** — the outcome of a fit call after any history equals the outcome of the same call on a fresh
    object given only the last specification of each slot: earlier specifications, earlier fits with other plans /
    bounds / p, summaries and diagnostics leave nothing behind that a fit reads. -/
theorem refit_fresh (h : wf C = true) (ops : List Op) (hc : calm C ops = true) (o : Op)
    (hf : (C.sig o.m).isFit = true) :
    out C (run C init ops) o = out C (run C init (lastSpecs C ops)) o :=
  L11.refit_fresh h ops hc o hf

/-- **lastSpecs_mem** — `lastSpecs` has at most one call per slot, each the last non-blocked specification call of
    its slot in the history -/
theorem lastSpecs_mem (h : wf C = true) (ops : List Op) (hc : calm C ops = true) :
    (lastSpecs C ops).length ≤ C.nslots ∧
    ∀ o ∈ lastSpecs C ops, ∃ k < C.nslots, (ops.filter (wr C k)).getLast? = some o :=
  ⟨L11.lastSpecs_length ops, fun o ho => L11.lastSpecs_mem h ops hc o ho⟩

example : lastSpecs (tmle true) [⟨0, 0, false⟩, ⟨2, 1, false⟩, ⟨3, 2, false⟩, ⟨2, 3, false⟩, ⟨4, 4, false⟩, ⟨0, 5, false⟩] =
    [⟨0, 5, false⟩, ⟨2, 3, false⟩] := by decide

/-- **history_independent** — for every history in which no call sets a never-reset register (every history of a
    `clean` class): a fresh object on which only the canonical list is replayed — the specifications in force at
    the last successful fit, that fit, and the last specification of each slot — is in the same state as the
    object that went through the whole history; hence every further call (fit, summary, diagnostics,
    re-specification) has the same outcome on both and leaves them in the same state again. -/
theorem history_independent (h : wf C = true) (ops : List Op) (hc : calm C ops = true) :
    run C init (normalize C ops) = run C init ops ∧
    ∀ o, step C (run C init (normalize C ops)) o = step C (run C init ops) o :=
  L11.history_independent h ops hc

/-- **clean_calm** — in a class without registers every history qualifies -/
theorem clean_calm (h : clean C = true) (ops : List Op) : calm C ops = true :=
  L11.clean_calm h ops

example : wf aipsw = true ∧ clean aipsw = true ∧
    normalize aipsw [⟨0, 0, false⟩, ⟨2, 1, false⟩, ⟨3, 2, false⟩, ⟨0, 3, false⟩, ⟨1, 4, false⟩, ⟨4, 5, false⟩, ⟨3, 6, false⟩,
      ⟨2, 7, false⟩] = [⟨0, 3, false⟩, ⟨1, 4, false⟩, ⟨2, 1, false⟩, ⟨3, 6, false⟩, ⟨0, 3, false⟩, ⟨1, 4, false⟩, ⟨2, 7, false⟩] := by
  decide

/-- **normalize_short** — the canonical list has at most `2·nslots + 1` calls, all of them calls of the history -/
theorem normalize_short (ops : List Op) :
    (normalize C ops).length ≤ 2 * C.nslots + 1 ∧ ∀ o ∈ normalize C ops, o ∈ ops :=
  L11.normalize_short ops

example : (normalize (iptw true) [⟨0, 0, false⟩, ⟨2, 1, false⟩, ⟨3, 2, false⟩, ⟨5, 3, false⟩, ⟨0, 4, false⟩, ⟨1, 5, false⟩,
    ⟨3, 6, false⟩, ⟨4, 7, false⟩, ⟨2, 8, false⟩]).length = 7 := by decide

/-! ### Observers and the order of independent specification calls (round 4)

`history_independent` already says that the canonical list -- which contains no reporting call and lists the
specifications in slot order -- leads to the same state as the history.  The three statements below isolate the two
facts a user relies on, for *every* class table (no side condition for the first two): a reporting / diagnostic /
plotting call is invisible to everything that follows, and the order in which independent specification calls (different
slots: `exposure_model` / `outcome_model`, or `add_covariate_model` with different labels) are made does not matter. -/

/-- **observer_keeps_state** — a call of a method to which the table gives no slot, no fit and no register (`summary`,
    `run_diagnostics`, `positivity`, `plot_*`, …) leaves the object exactly as it was, whether it raises or not. -/
theorem observer_keeps_state (s : State) (o : Op) (h : observer C o = true) : next C s o = s :=
  L11.observer_keeps_state s o h

example : observer (crossfit) ⟨4, 0, false⟩ = true ∧ observer (iptw true) ⟨9, 0, false⟩ = true ∧
    observer (iptw true) ⟨3, 0, false⟩ = false := by decide

/-- **observers_erasable** — striking every reporting / diagnostic / plotting call out of a history changes neither the
    state the history leads to nor, therefore, the outcome of any later call: observers interleaved anywhere (between
    specification and fit, between two fits, after a fit) are invisible. -/
theorem observers_erasable (ops : List Op) (s : State) :
    run C s (ops.filter fun o => !observer C o) = run C s ops ∧
    ∀ o, step C (run C s (ops.filter fun o => !observer C o)) o = step C (run C s ops) o := by
  have := L11.observers_erasable (C := C) ops s
  exact ⟨this, fun o => by rw [this]⟩

example : ([⟨0, 0, false⟩, ⟨4, 1, false⟩, ⟨1, 2, false⟩, ⟨4, 3, false⟩, ⟨2, 4, false⟩, ⟨3, 5, false⟩, ⟨4, 6, false⟩] :
    List Op).filter (fun o => !observer crossfit o) = [⟨0, 0, false⟩, ⟨1, 2, false⟩, ⟨2, 4, false⟩] := by decide

/-- **spec_order_irrelevant** — specification calls of pairwise different slots lead to the same state in whatever
    order they are made (class without registers); with `observers_erasable`: the state after a specification phase
    depends on what was specified, not on the order of the calls or on the reports looked at in between. -/
theorem spec_order_irrelevant (h : wf C = true) (hc : clean C = true) {l₁ l₂ : List Op} (p : l₁.Perm l₂)
    (hs : ∀ o ∈ l₁, ((C.sig o.m).writes).isSome = true)
    (hd : ∀ x ∈ l₁, ∀ y ∈ l₁, x ≠ y → (C.sig x.m).writes ≠ (C.sig y.m).writes) (s : State) :
    run C s l₁ = run C s l₂ :=
  L11.spec_order_irrelevant h hc p hs hd s

/-- the labelled covariate models of `MonteCarloGFormula`, label 2 added before label 1, and the other models last -/
example (s : State) :
    run monteCarlo s [⟨4, 0, false⟩, ⟨3, 1, false⟩, ⟨1, 2, false⟩, ⟨0, 3, false⟩] =
    run monteCarlo s [⟨0, 3, false⟩, ⟨1, 2, false⟩, ⟨3, 1, false⟩, ⟨4, 0, false⟩] :=
  spec_order_irrelevant (by decide) (by decide) (List.reverse_perm _).symm (by decide) (by decide) s

example : normalize monteCarlo [⟨4, 0, false⟩, ⟨3, 1, false⟩, ⟨1, 2, false⟩, ⟨0, 3, false⟩, ⟨5, 4, false⟩] =
    [⟨0, 3, false⟩, ⟨1, 2, false⟩, ⟨3, 1, false⟩, ⟨4, 0, false⟩, ⟨5, 4, false⟩,
     ⟨0, 3, false⟩, ⟨1, 2, false⟩, ⟨3, 1, false⟩, ⟨4, 0, false⟩] := by decide

/-! ### The `calm` hypothesis is needed: what a never-reset register does

No class table has a register any more (the six stale-state defects the registers stood for were repaired in zEpid and
the registers deleted), so `history_independent` covers every history of every class (`tables_wf` + `clean_calm`).
The tables below are *not* zEpid classes; they record the two shapes those defects had, and show that the
unrestricted statement is false for a table with a register — i.e. that the correspondence check (gate K) would have
to put a register back, and the theorem would stop covering the class, if such state reappeared. -/

/-- a flag set by `spec(custom)` and read by `summary` (the former `_exp_model_custom`, `_specified_bound_`,
    `_scipy_solver_obj`, `predicted_df`) -/
def demoFlag : Cls := ⟨1, 1, [specR 0 0, fitS [0], resS]⟩
/-- a specification call that locks itself (the former IPMW `self.missing` overwrite) -/
def demoLock : Cls := ⟨1, 1, [{ writes := some 0, sticky := some 0, lock := some 0 }, fitS [0]]⟩

/-- **calm_needed** — without `calm` both `history_independent` and `spec_accepted` fail -/
theorem calm_needed :
    (wf demoFlag = true ∧ ∃ ops o, out demoFlag (run demoFlag init ops) o ≠
      out demoFlag (run demoFlag init (normalize demoFlag ops)) o) ∧
    (wf demoLock = true ∧ ∃ ops o k, (demoLock.sig o.m).writes = some k ∧ (demoLock.sig o.m).blocked = false ∧
      out demoLock (run demoLock init ops) o = .error) := by
  refine ⟨⟨by decide, [⟨0, 0, true⟩, ⟨0, 1, false⟩, ⟨1, 2, false⟩], ⟨2, 3, false⟩, by decide⟩,
    ⟨by decide, [⟨0, 0, true⟩], ⟨0, 1, true⟩, 0, by decide, by decide, by decide⟩⟩

/-! ### The class tables executed by the driver satisfy the side conditions -/

/-- **tables_wf** — every table the driver executes is well-formed and has no register: the theorems above apply
    to every history of every class -/
theorem tables_wf :
    (∀ b, wf (iptw b) = true ∧ wf (aiptw b) = true ∧ wf (tmle b) = true ∧ wf (snm b) = true) ∧
    wf stochIptw = true ∧ wf stochTmle = true ∧ wf timeFixed = true ∧ wf survival = true ∧ wf ipsw = true ∧
    wf gtransport = true ∧ wf aipsw = true ∧ wf ipmw = true ∧ wf ipcw = true ∧
    wf monteCarlo = true ∧ wf iterCond = true ∧ wf crossfit = true ∧
    (∀ b, clean (iptw b) = true ∧ clean (aiptw b) = true ∧ clean (tmle b) = true ∧ clean (snm b) = true) ∧
    clean stochIptw = true ∧ clean stochTmle = true ∧ clean timeFixed = true ∧ clean survival = true ∧
    clean ipsw = true ∧ clean gtransport = true ∧ clean aipsw = true ∧ clean ipmw = true ∧ clean ipcw = true ∧
    clean monteCarlo = true ∧ clean iterCond = true ∧ clean crossfit = true := by
  refine ⟨fun b => by cases b <;> decide, by decide, by decide, by decide, by decide, by decide, by decide, by decide,
    by decide, by decide, by decide, by decide, by decide, fun b => by cases b <;> decide, by decide, by decide,
    by decide, by decide, by decide, by decide, by decide, by decide, by decide, by decide, by decide, by decide⟩

/-- every class name the driver accepts resolves to one of the tables above -/
theorem tables_all (name : String) (b : Bool) (C : Cls) (h : clsByName name b = some C) :
    wf C = true ∧ clean C = true := by
  unfold clsByName at h
  have t := tables_wf
  obtain ⟨t1, t2, t3, t4, t5, t6, t7, t8, t9, t10, t11, t12, t13, c1, c2, c3, c4, c5, c6, c7, c8, c9, c10, c11, c12,
    c13⟩ := t
  split at h <;> first
    | (cases h; first
        | exact ⟨(t1 b).1, (c1 b).1⟩ | exact ⟨(t1 b).2.1, (c1 b).2.1⟩ | exact ⟨(t1 b).2.2.1, (c1 b).2.2.1⟩
        | exact ⟨(t1 b).2.2.2, (c1 b).2.2.2⟩ | exact ⟨t2, c2⟩ | exact ⟨t3, c3⟩ | exact ⟨t4, c4⟩ | exact ⟨t5, c5⟩
        | exact ⟨t6, c6⟩ | exact ⟨t7, c7⟩ | exact ⟨t8, c8⟩ | exact ⟨t9, c9⟩ | exact ⟨t10, c10⟩ | exact ⟨t11, c11⟩
        | exact ⟨t12, c12⟩ | exact ⟨t13, c13⟩)
    | cases h

end ZV.P11
