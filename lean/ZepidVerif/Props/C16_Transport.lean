/-
C16, tie to the source (GTransportFormula): the definition regenerated on every run from the text of
`GTransportFormula.fit` (`Gen/Transport.lean`) computes the model `gtransport` the theorems of `Props/C16.lean`
are about; the rows and frequency weights of the outcome GLM are read from `GTransportFormula.outcome_model`.
-/
import ZepidVerif.Props.C16
import ZepidVerif.Gen.Transport
set_option linter.unusedSectionVars false
set_option linter.unusedVariables false
set_option linter.unusedSimpArgs false
namespace ZV.P16
open ZV ZV.Std

variable {F : Type} [Field F] [LinearOrder F] [IsStrictOrderedRing F] [Transc F]

/-- **Tie to the source (GTransportFormula.fit).**  The definition regenerated from the text of
    `GTransportFormula.fit` returns the difference and the ratio of the model's two target means `gtransport`
    (over all rows when `generalize`, over the rows outside the study sample otherwise; without a weight column
    all frequency weights are 1). -/
theorem gtransport_fit_generated (generalize hasWeight : Bool) (l : List (Row F))
    (hw : hasWeight = false → ∀ r ∈ l, r.w = 1) (Q : Row F → Bool → F) :
    Gen.gtransport_fit generalize hasWeight l Q
      = (gtransport generalize l Q true - gtransport generalize l Q false,
         gtransport generalize l Q true / gtransport generalize l Q false) := by
  have key : ∀ a : Bool,
      (if generalize then
        (if hasWeight then sumBy (fun r => r.w * Q r a) l / sumBy (fun r => r.w) l
         else sumBy (fun r => ((1 : Nat) : F) * Q r a) l / sumBy (fun _ => ((1 : Nat) : F)) l)
       else
        (if hasWeight then sumBy (fun r => if r.obs = false then r.w * Q r a else ((0 : Nat) : F)) l
            / sumBy (fun r => if r.obs = false then r.w else ((0 : Nat) : F)) l
         else sumBy (fun r => if r.obs = false then ((1 : Nat) : F) * Q r a else ((0 : Nat) : F)) l
            / sumBy (fun r => if r.obs = false then ((1 : Nat) : F) else ((0 : Nat) : F)) l))
      = gtransport generalize l Q a := by
    intro a
    unfold gtransport gformula W
    rw [sumIf_def, sumIf_def]
    cases generalize <;> cases hasWeight <;>
      simp only [Bool.false_eq_true, if_false, if_true, genTarget] <;> congr 1 <;>
      apply sumBy_congr <;> intro r hr <;> cases ho : r.obs <;>
      simp [hw, hr]
  rw [← key true, ← key false]
  cases generalize <;> cases hasWeight <;> rfl

/-- **C16 for the regenerated code.**  Saturated outcome model fitted on the study sample (`OutFit`): what the
    regenerated `GTransportFormula.fit` returns is the difference / ratio of the sample's cell means standardized to
    the whole population (`generalize`) or to the non-sampled rows. -/
theorem gtransport_fit_saturated (l : List (Row F)) (S : List Nat) (hS : Strata l S) (hpos : Positivity l S)
    (generalize hasWeight : Bool) (hw : hasWeight = false → ∀ r ∈ l, r.w = 1)
    (Q : Nat → Bool → F) (hQ : OutFit l S Q) :
    Gen.gtransport_fit generalize hasWeight l (fun r => Q r.s)
      = (std l S (genTarget generalize) true - std l S (genTarget generalize) false,
         std l S (genTarget generalize) true / std l S (genTarget generalize) false) := by
  rw [gtransport_fit_generated generalize hasWeight l hw,
    gtransport_saturated l S hS hpos generalize Q hQ true, gtransport_saturated l S hS hpos generalize Q hQ false]

/-- **Outcome values recorded outside the study sample never reach the regenerated code**: the rows handed to the
    outcome GLM (read from `outcome_model`) keep their outcomes, and `fit` (which reads no outcome at all) returns the
    same pair, when the outcomes of the non-sampled rows are replaced by anything. -/
theorem gtransport_fit_target_outcomes_irrelevant (l : List (Row F)) (f : Row F → F) (generalize hasWeight : Bool)
    (Q' : Nat → Nat → Bool → F) :
    Gen.gtransport_outcome_rows (scrambleTarget f l) = Gen.gtransport_outcome_rows l ∧
    Gen.gtransport_fit generalize hasWeight (scrambleTarget f l) (fun r => Q' r.i r.s)
      = Gen.gtransport_fit generalize hasWeight l (fun r => Q' r.i r.s) := by
  constructor
  · unfold Gen.gtransport_outcome_rows scrambleTarget
    induction l with
    | nil => rfl
    | cons r l ih =>
      cases ho : r.obs <;> simp [List.filter_cons, ho, ih]
  · have hs : ∀ (g : Row F → F), (∀ r, g (if r.obs then r else { r with y := f r }) = g r) →
        sumBy g (scrambleTarget f l) = sumBy g l := by
      intro g hg
      unfold scrambleTarget
      rw [sumBy_map]
      apply sumBy_congr; intro r _; exact hg r
    have e : ∀ (g : Row F → F), (∀ r, g (if r.obs then r else { r with y := f r }) = g r) →
        sumBy g (scrambleTarget f l) = sumBy g l := hs
    cases generalize <;> cases hasWeight <;> simp only [Gen.gtransport_fit, Bool.false_eq_true, if_false, if_true] <;>
      (repeat rw [e]) <;> intro r <;> cases ho : r.obs <;> simp [ho]

/-- the outcome GLM's frequency weights are the weight column exactly when one is given (read from the two
    `smf.glm` calls of `outcome_model`) -/
theorem gtransport_outcome_freq_generated (hasWeight : Bool) :
    (Gen.gtransport_outcome_freq (F := F) hasWeight).isSome = hasWeight := by
  cases hasWeight <;> rfl

/-! ### Non-vacuity -/
local instance instTQ_C16Transport : Transc ℚ := ⟨id, id, id⟩

/-- on `exRows` (Props/C16.lean) with the cell means as predictions the regenerated `fit` gives the standardized pair -/
example : Gen.gtransport_fit true false exRows
    (fun r a => if r.s = 0 then (if a then (1 : ℚ) else 1/2) else (if a then 1/2 else 0)) = (1/2, 13/4) := by
  norm_num [Gen.gtransport_fit, exRows, sumBy]

example : Gen.gtransport_fit false false exRows
    (fun r a => if r.s = 0 then (if a then (1 : ℚ) else 1/2) else (if a then 1/2 else 0)) = (1/2, 4) := by
  norm_num [Gen.gtransport_fit, exRows, sumBy]

end ZV.P16
