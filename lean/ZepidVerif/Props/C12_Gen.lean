/-
C12, tie to the source: `SurvivalGFormula.fit` (zepid/causal/gformula/TimeFixed.py, from `g = self.gf.copy()` to the
end, unweighted branch), regenerated on every run into `Gen/SurvGF.lean`, computes the model `ZV.SurvGF`
that `survival_product_limit` and `cuminc_monotone_bounded` (Props/C12.lean) are about; and the three NaN-aware
statements of `IterativeCondGFormula.fit`'s backward loop (zepid/causal/gformula/TimeVary.py: pseudo-outcome, masked
prediction, final mean), regenerated into `Gen/IceStep.lean`, are the steps of the model `ZV.Ice` that
`ice_eq_npgformula` is about (the loop itself — its order and the wiring of its columns — is checked verbatim by the
translator and stays hand-modelled as the recursion `predFrom`).  A module of its own so that
`Props/C12.lean` (imported by `Props/C08.lean`) does not depend on the generated text.
-/
import ZepidVerif.Props.C12
import ZepidVerif.Gen.SurvGF
import ZepidVerif.Gen.IceStep
import ZepidVerif.Lemmas.SurvGFBridge
set_option linter.unusedSectionVars false
set_option linter.unusedVariables false
namespace ZV.P12
open ZV ZV.SurvGF

variable {F : Type} [Field F] [LinearOrder F] [IsStrictOrderedRing F] [Transc F]

/-- the outcome model's `predict` as the model has it: the row carries the two predictions (exposure set to 1 / to 0) -/
def predOf (b : Bool) (r : LRow F) : F := if b then r.h1 else r.h0

/-- **survgf_fit_generated.**  Unweighted `SurvivalGFormula.fit(treatment)`, as regenerated from its text and run on
    `self.gf` = the complete records sorted by (id, time): the outcome column of `predicted_df` is the model's `cumInc`
    (one minus the running product, within person, of one minus the predicted hazard under the plan) and
    `marginal_outcome` at time `t` is the model's `marginalAt` (mean over the records at that time) — for
    `'all'`, `'none'`, `'natural'` and for a custom condition (any other string; `r.c` = its value on the row).  The
    weighted branch of `fit` (`_weighted_average`) is not part of the translated text: weights are C09's subject. -/
theorem survgf_fit_generated (p : SurvGF.Plan) (rows : List (LRow F)) :
    Gen.survgf_fit p.str predOf (prep rows) = (fun t => marginalAt p rows t, cumInc p rows) := by
  have hc : ∀ (e : LRow F → Bool), (∀ r, predOf (e r) r = hazard p r) →
      (groupCumprod ((prep rows).map fun r => r.id) ((prep rows).map fun r => ((1 : Nat) : F) - predOf (e r) r)).map
        (fun v => ((1 : Nat) : F) - v) = cumInc p rows := by
    intro e he
    rw [groupCumprod_map]
    simp only [he]
    rfl
  have hm : ∀ t, groupMeanAt ((prep rows).map fun r => r.t) (cumInc p rows) t = marginalAt p rows t := by
    intro t
    rw [groupMeanAt_eq]
    rfl
  cases p
  · simp only [Gen.survgf_fit, SurvGF.Plan.str, if_true, hc (fun _ => true) (fun r => rfl), hm]
  · simp only [Gen.survgf_fit, SurvGF.Plan.str, if_true, show ¬ ("none" = "all") by decide, if_false,
      hc (fun _ => false) (fun r => rfl), hm]
  · have hn : ∀ r : LRow F, predOf r.a r = hazard .natural r := by
      intro r; simp only [predOf, hazard]
    simp only [Gen.survgf_fit, SurvGF.Plan.str, if_true, show ¬ ("natural" = "all") by decide,
      show ¬ ("natural" = "none") by decide, if_false, hc (fun r => r.a) hn, hm]
  · have hn : ∀ r : LRow F, predOf r.c r = hazard .custom r := by
      intro r; simp only [predOf, hazard]
    simp only [Gen.survgf_fit, SurvGF.Plan.str, if_true, show ¬ ("custom" = "all") by decide,
      show ¬ ("custom" = "none") by decide, show ¬ ("custom" = "natural") by decide, if_false,
      hc (fun r => r.c) hn, hm]

/-- the custom branch is taken for every string that is not one of the three keywords -/
theorem survgf_fit_generated_custom (s : String) (h1 : s ≠ "all") (h2 : s ≠ "none") (h3 : s ≠ "natural")
    (pred : Bool → LRow F → F) (l : List (LRow F)) :
    Gen.survgf_fit s pred l = Gen.survgf_fit "custom" pred l := by
  simp only [Gen.survgf_fit, h1, h2, h3, if_false, show ¬ ("custom" = "all") by decide,
    show ¬ ("custom" = "none") by decide, show ¬ ("custom" = "natural") by decide]

/-! ### IterativeCondGFormula: the statements of the backward loop -/

/-- **ice_step_generated.**  Entry by entry, the regenerated statements are the model's steps: the pseudo-outcome
    `np.where(df[prior_predict].isna(), df[d], df[prior_predict])` is `orObs`, the masked prediction
    `np.where(df[d].isna(), np.nan, fm.predict(tf))` is `mask`, one step of the recursion `predFrom` is the second
    applied to the first, and `marginal_outcome` is the NaN-skipping mean of the first time point's predictions. -/
theorem ice_step_generated (μ : List Bool → List Nat → F) :
    (∀ (prev : Option F) (y : Option Nat), Ice.orObs prev y = Gen.ice_pseudo prev (y.map fun v => ((v : Nat) : F))) ∧
    (∀ (q : Option F) (m : F), Ice.mask q m = Gen.ice_pred q m) ∧
    (∀ (g : List Bool) (ls : List Nat) (k : Nat) (y : Option Nat) (rest : List (Option Nat)),
      Ice.predFrom μ g ls k (y :: rest)
        = Gen.ice_pred (Gen.ice_pseudo (Ice.predFrom μ g ls (k + 1) rest) (y.map fun v => ((v : Nat) : F)))
            (μ (g.take (k + 1)) (ls.take (k + 1)))) ∧
    (∀ (plans : List (List Bool)) (rows : List Ice.WRow),
      Ice.marginal μ plans rows = Gen.ice_marginal (List.zipWith (fun g r => Ice.predAt μ g r 0) plans rows)) := by
  have h1 : ∀ (prev : Option F) (y : Option Nat),
      Ice.orObs prev y = Gen.ice_pseudo prev (y.map fun v => ((v : Nat) : F)) := by
    intro prev y; cases prev <;> rfl
  have h2 : ∀ (q : Option F) (m : F), Ice.mask q m = Gen.ice_pred q m := by
    intro q m; cases q <;> rfl
  refine ⟨h1, h2, ?_, fun _ _ => rfl⟩
  intro g ls k y rest
  rw [← h1, ← h2]
  rfl

/-! ### Non-vacuity: the generated code evaluated on the person-period example of `Props/C12.lean` -/
section examples
local instance : Transc ℚ := ⟨id, id, id⟩

example : Gen.survgf_fit (F := ℚ) "all" predOf (prep exLong) = (fun t => marginalAt .all exLong t, cumInc .all exLong) ∧
    cumInc (F := ℚ) .all exLong = [1/3, 2/3, 1/3, 1/3, 2/3, 1/3, 2/3] ∧ marginalAt (F := ℚ) .all exLong 2 = 2/3 :=
  ⟨survgf_fit_generated .all exLong, by decide +kernel, by decide +kernel⟩

/-- the generated steps on concrete entries: an earlier prediction wins over the observed outcome, a missing
    pseudo-outcome masks the prediction, NaN entries are skipped by the mean -/
example : Gen.ice_pseudo (some (1/2 : ℚ)) (some 0) = some (1/2) ∧ Gen.ice_pseudo (none : Option ℚ) (some 1) = some 1 ∧
    Gen.ice_pred (none : Option ℚ) (3/4) = none ∧ Gen.ice_pred (some (1 : ℚ)) (3/4) = some (3/4) ∧
    Gen.ice_marginal [some (1/2 : ℚ), none, some (1/4)] = 3/8 := by
  refine ⟨rfl, rfl, rfl, rfl, ?_⟩
  decide +kernel
end examples

end ZV.P12
