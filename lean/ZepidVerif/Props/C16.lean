/-
C16 — Generalize / transport estimators standardize to the stated target population.

Subject: `ZV.Std.ipsw` (IPSW.fit with the generated sampling-weight formula and the generated
population treatment weight), `ZV.Std.gtransport` (GTransportFormula.fit), `ZV.Std.aipsw`
(AIPSW.fit) of `Model/Generalize.lean` — the definitions the driver executes.  `obs = true` marks
study-sample rows.  Statements hold for combined data sets of any size, any number of modifier
strata, `generalize ∈ {true,false}`, stabilized or not.
-/
import ZepidVerif.Lemmas.Generalize
import ZepidVerif.Lemmas.FitBridge
import Mathlib.Algebra.Order.Field.Rat
import Mathlib.Tactic.NormNum
set_option linter.unusedSectionVars false
set_option linter.unusedVariables false
namespace ZV.P16
open ZV ZV.Std

variable {F : Type} [Field F] [LinearOrder F] [IsStrictOrderedRing F] [Transc F]

/-- **IPSW with treatment weights.**  Saturated sampling model `π` (all rows) and saturated treatment
    model `p` (sampled rows); marginal numerators `ns`, `nt` (the code uses `ns = 1`, `nt = 1` when
    unstabilized).  The weighted arm mean equals the sample's cell means standardized to all rows
    (`generalize`) or to the non-sampled rows (transport). -/
theorem ipsw_saturated (l : List (Row F)) (S : List Nat) (hS : Strata l S) (hpos : Positivity l S)
    (generalize stabS stabT : Bool) (a : Bool) (ns nt : F) (hns0 : ns ≠ 0)
    (hns1 : generalize = false → stabS = true → ns ≠ 1) (hnt0 : nt ≠ 0) (hnt1 : nt ≠ 1)
    (π : Nat → F) (hπ : SampFit l S π) (p : Nat → F) (hp : PropFitS l S p) :
    ipsw l (ipswOmega generalize stabS (fun _ => ns) (fun r => π r.s)
        (popTreatWeight stabT (fun _ => nt) (fun r => p r.s))) a
      = std l S (genTarget generalize) a := by
  have hc1 : ipswConst generalize stabS ns ≠ 0 := by
    cases generalize <;> cases stabS <;> simp [ipswConst, hns0]
    exact sub_ne_zero.mpr (Ne.symm (hns1 rfl rfl))
  refine hajek_eq_std l S hS.1 hS.2 _ a _
    (fun s => Gen.ipsw_weight generalize stabS ns (π s) * Gen.iptw_weight stabT Tgt.pop.str a nt (p s))
    (ipswConst generalize stabS ns * iptwConst stabT .pop a nt)
    (mul_ne_zero hc1 (iptwConst_ne_zero stabT .pop a nt hnt0 hnt1)) ?_ ?_ ?_
  · intro r _ ha _; simp [ipswOmega, popTreatWeight, ha, Tgt.str]
  · intro s hs; exact (hpos.cell_pos hs a).ne'
  · intro s hs
    obtain ⟨hp0, hp1⟩ := hp.mem_Ioo hpos hs
    have hsm := (hpos.sample_pos hs).ne'
    have hπ' := hπ s hs
    have hπ0 : π s ≠ 0 := fun e => hsm (by rw [← hπ', e, zero_mul])
    have b1 := iptw_weight_balance_pop stabT a nt (p s) (W (inSample s) l) hnt0 hnt1 hp0.ne' hp1.ne
    have b2 := ipsw_weight_balance generalize stabS ns (π s) (W (inStratum s) l) hπ0 hns1
    rw [Ntgt_genTarget generalize l S π hπ s hs, hp.arm hs a, mul_assoc, b1]
    simp only [tgtShare]
    rw [← hπ', mul_left_comm, b2]; ring

/-- **GTransportFormula.**  Saturated outcome model fitted on the sampled rows: the mean prediction
    over the target rows is the standardized mean. -/
theorem gtransport_saturated (l : List (Row F)) (S : List Nat) (hS : Strata l S) (hpos : Positivity l S)
    (generalize : Bool) (Q : Nat → Bool → F) (hQ : OutFit l S Q) (a : Bool) :
    gtransport generalize l (fun r => Q r.s) a = std l S (genTarget generalize) a :=
  gformula_of_outfit l S hS hpos Q hQ (genTarget generalize) a

/-- **AIPSW, outcome model saturated**: whatever the weights (any function of the stratum on each arm:
    stabilized or not, with or without a treatment model, misspecified sampling model) -/
theorem aipsw_outcome_saturated (l : List (Row F)) (S : List Nat) (hS : Strata l S) (hpos : Positivity l S)
    (generalize : Bool) (Q : Nat → Bool → F) (hQ : OutFit l S Q) (a : Bool)
    (ω : Row F → F) (Ω : Nat → F) (hω : ∀ r ∈ l, r.a = a → r.obs = true → ω r = Ω r.s) :
    aipsw generalize l (fun r => Q r.s) ω a = std l S (genTarget generalize) a := by
  unfold aipsw std
  rw [aipsw_num generalize l S hS Q a ω Ω hω, W_genTarget generalize l S hS]
  congr 1
  apply sumBy_congr; intro s hs
  rw [← hQ s hs a, ← hQ.eq_cellMean hs a (hpos.cell_pos hs a).ne']; ring

/-- **AIPSW, weights exactly balancing** (`Ω s · W(cell) = Ntgt s`, which is what saturated sampling and
    treatment models give with *unstabilized* weights): any outcome predictions (functions of stratum, arm) -/
theorem aipsw_weights_balanced (l : List (Row F)) (S : List Nat) (hS : Strata l S) (hpos : Positivity l S)
    (generalize : Bool) (Q : Nat → Bool → F) (a : Bool)
    (ω : Row F → F) (Ω : Nat → F) (hω : ∀ r ∈ l, r.a = a → r.obs = true → ω r = Ω r.s)
    (hbal : ∀ s ∈ S, Ω s * W (inCell s a) l = Ntgt (genTarget generalize) l s) :
    aipsw generalize l (fun r => Q r.s) ω a = std l S (genTarget generalize) a := by
  unfold aipsw std
  rw [aipsw_num generalize l S hS Q a ω Ω hω, W_genTarget generalize l S hS]
  congr 1
  apply sumBy_congr; intro s hs
  have hW := (hpos.cell_pos hs a).ne'
  rw [WY_eq l s a hW, ← hbal s hs]; ring

/-- unstabilized sampling and treatment weights from saturated models balance exactly -/
theorem aipsw_weights_saturated_unstab (l : List (Row F)) (S : List Nat) (hS : Strata l S) (hpos : Positivity l S)
    (generalize : Bool) (Q : Nat → Bool → F) (a : Bool)
    (π : Nat → F) (hπ : SampFit l S π) (p : Nat → F) (hp : PropFitS l S p) :
    aipsw generalize l (fun r => Q r.s)
        (aipswOmega generalize false (fun _ => 1) (fun r => π r.s) (popTreatWeight false (fun _ => 1) (fun r => p r.s))) a
      = std l S (genTarget generalize) a := by
  refine aipsw_weights_balanced l S hS hpos generalize Q a _
    (fun s => Gen.ipsw_weight generalize false 1 (π s) * Gen.iptw_weight false Tgt.pop.str a 1 (p s)) ?_ ?_
  · intro r _ ha _; simp [aipswOmega, popTreatWeight, ha, Tgt.str, aipsw_weight_eq]
  · intro s hs
    obtain ⟨hp0, hp1⟩ := hp.mem_Ioo hpos hs
    have hsm := (hpos.sample_pos hs).ne'
    have hπ' := hπ s hs
    have hπ0 : π s ≠ 0 := fun e => hsm (by rw [← hπ', e, zero_mul])
    have b2 := ipsw_weight_balance generalize false (1 : F) (π s) (W (inStratum s) l) hπ0 (by simp)
    rw [Ntgt_genTarget generalize l S π hπ s hs, hp.arm hs a, ← hπ']
    have hp1' : (1 : F) - p s ≠ 0 := (sub_pos.mpr hp1).ne'
    have hp0' := hp0.ne'
    simp only [ipswConst] at b2
    cases generalize <;> cases a <;> simp [Gen.ipsw_weight, Gen.iptw_weight, Tgt.str] <;> field_simp

/-- the risk difference and ratio are the difference and ratio of the two standardized risks -/
theorem rd_rr_def (l : List (Row F)) (S : List Nat) (hS : Strata l S) (hpos : Positivity l S)
    (generalize : Bool) (Q : Nat → Bool → F) (hQ : OutFit l S Q) :
    gtransport generalize l (fun r => Q r.s) true - gtransport generalize l (fun r => Q r.s) false
        = std l S (genTarget generalize) true - std l S (genTarget generalize) false ∧
    gtransport generalize l (fun r => Q r.s) true / gtransport generalize l (fun r => Q r.s) false
        = std l S (genTarget generalize) true / std l S (genTarget generalize) false := by
  rw [gtransport_saturated l S hS hpos generalize Q hQ true, gtransport_saturated l S hS hpos generalize Q hQ false]
  exact ⟨rfl, rfl⟩

/-- replace the recorded outcome of every non-sampled row by anything -/
def scrambleTarget (f : Row F → F) (l : List (Row F)) : List (Row F) :=
  l.map fun r => if r.obs then r else { r with y := f r }

/-- **Outcome values recorded outside the study sample never influence the result.** -/
theorem target_outcomes_irrelevant (l : List (Row F)) (f : Row F → F) (generalize : Bool)
    (Q' : Nat → Nat → Bool → F) (ω' : Nat → Nat → Bool → F) (a : Bool) :
    -- predictions and weights are whatever the fitted models give a row (identified by its id, covariates, arm)
    let Q : Row F → Bool → F := fun r => Q' r.i r.s
    let ω : Row F → F := fun r => ω' r.i r.s r.a
    ipsw (scrambleTarget f l) ω a = ipsw l ω a ∧
    gtransport generalize (scrambleTarget f l) Q a = gtransport generalize l Q a ∧
    aipsw generalize (scrambleTarget f l) Q ω a = aipsw generalize l Q ω a := by
  intro Q ω
  have hmap : ∀ (p : Row F → Bool) (g : Row F → F),
      (∀ r, (if p (if r.obs then r else { r with y := f r }) then g (if r.obs then r else { r with y := f r }) else 0)
          = (if p r then g r else 0)) →
      sumIf p g (scrambleTarget f l) = sumIf p g l := by
    intro p g h
    unfold scrambleTarget
    rw [sumIf_def, sumIf_def]
    induction l with
    | nil => rfl
    | cons r l ih => simp only [List.map_cons, sumBy_cons, ih, h r]
  refine ⟨?_, ?_, ?_⟩
  · unfold ipsw hajek
    congr 1 <;> apply hmap <;> intro r <;> cases h : r.obs <;> simp [h, Q, ω]
  · unfold gtransport gformula W
    congr 1 <;> apply hmap <;> intro r <;> cases h : r.obs <;> simp [h, Q, ω, genTarget]
  · unfold aipsw W
    congr 1
    · congr 1 <;> apply hmap <;> intro r <;> cases h : r.obs <;> simp [h, Q, ω, genTarget]
    · apply hmap; intro r; cases h : r.obs <;> simp [h, Q, ω, genTarget]

/-! ### Non-vacuity -/

/-- 2 strata; sampled rows (obs) in both arms of each stratum, plus target rows with junk outcomes -/
def exRows : List (Row ℚ) :=
  [⟨0, 0, true, 1, 1, true⟩, ⟨1, 0, false, 0, 1, true⟩, ⟨2, 0, false, 1, 1, true⟩, ⟨3, 0, false, 9, 1, false⟩,
   ⟨4, 1, true, 0, 1, true⟩, ⟨5, 1, true, 1, 1, true⟩, ⟨6, 1, false, 0, 1, true⟩, ⟨7, 1, true, 7, 1, false⟩,
   ⟨8, 1, false, 7, 1, false⟩]

example : Strata exRows [0, 1] ∧ Positivity exRows [0, 1] := by
  refine ⟨⟨by decide, by decide⟩, by decide, ?_⟩
  intro s hs a
  simp only [List.mem_cons, List.not_mem_nil, or_false] at hs
  rcases hs with rfl | rfl <;> cases a <;> simp [exRows, inCell]

example : SampFit exRows [0, 1] (fun s => if s = 0 then 3/4 else 3/5) := by
  intro s hs; simp only [List.mem_cons, List.not_mem_nil, or_false] at hs
  rcases hs with rfl | rfl <;> norm_num [exRows, W, sumIf, sumBy, inStratum, inSample]

example : PropFitS exRows [0, 1] (fun s => if s = 0 then 1/3 else 2/3) := by
  intro s hs; simp only [List.mem_cons, List.not_mem_nil, or_false] at hs
  rcases hs with rfl | rfl <;> norm_num [exRows, W, sumIf, sumBy, inCell, inSample]

end ZV.P16
