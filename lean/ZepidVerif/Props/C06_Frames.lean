/-
C06 (round 4) — the standard errors in the result tables of the six data-frame classes of zepid/base.py are the
documented Wald standard errors of *that level's own* cross-tabulation against the reference level.

Subjects: the generated count calculators (`ZV.Gen.*`, regenerated from zepid/calc/utils.py on every run) and the hand
model `ZV.Measures` of the `fit` loops (tied to the code by gate K of C07 and, statement by statement, by
`Props/C07_Frames.lean`).  `Props/C07.lean` supplies `frame_eq_counts` / `rates_eq_counts`: what `fit` reports for
level `i` is the count function on (events of `i`, non-events / person-time of `i`, events of the reference, non-events /
person-time of the reference), counted on the rows with exposure and outcome observed.  Here: the `se` field of that
call is the Wald formula in those four numbers and the limits are `point ∓ z·se` (linear) — so a `fit` that sums the
person-time (or counts the events) of level `i` over any other set of rows than the rows *of level i* reports a
standard error that is not the documented one.
-/
import ZepidVerif.Props.C07
set_option linter.unusedSectionVars false
set_option linter.unusedVariables false
namespace ZV.P06F
open ZV.Gen ZV.Measures

variable {F : Type} [Field F] [LinearOrder F] [IsStrictOrderedRing F] [Transc F]

/-! ### the Wald standard error of each generated calculator, for every accepted table (no positivity hypothesis:
    acceptance is the hypothesis) -/

theorem rr_se_wald (ppf : F → F) (infv a b c d α : F) (r : Results F)
    (h : risk_ratio ppf infv a b c d α = .ok r) :
    r.se = Transc.sqrt (1 / a - 1 / (a + b) + 1 / c - 1 / (c + d)) := by
  unfold risk_ratio at h
  simp only [Nat.cast_zero, Nat.cast_one, Nat.cast_ofNat] at h
  split_ifs at h
  simp only [Except.ok.injEq] at h; subst h; rfl

theorem rd_se_wald (ppf : F → F) (infv a b c d α : F) (r : Results F)
    (h : risk_difference ppf infv a b c d α = .ok r) :
    r.se = Transc.sqrt ((a / (a + b)) * (1 - a / (a + b)) / (a + b) + (c / (c + d)) * (1 - c / (c + d)) / (c + d)) := by
  unfold risk_difference at h
  simp only [Nat.cast_zero, Nat.cast_one, Nat.cast_ofNat] at h
  split_ifs at h
  simp only [Except.ok.injEq] at h; subst h; rfl

theorem nnt_se_wald (ppf : F → F) (infv a b c d α : F) (r : Results F)
    (h : number_needed_to_treat ppf infv a b c d α = .ok r) :
    r.se = Transc.sqrt ((a / (a + b)) * (1 - a / (a + b)) / (a + b) + (c / (c + d)) * (1 - c / (c + d)) / (c + d)) := by
  unfold number_needed_to_treat at h
  simp only [Nat.cast_zero, Nat.cast_one, Nat.cast_ofNat] at h
  split_ifs at h <;> (simp only [Except.ok.injEq] at h; subst h; rfl)

theorem or_se_wald (ppf : F → F) (infv a b c d α : F) (r : Results F)
    (h : odds_ratio ppf infv a b c d α = .ok r) :
    r.se = Transc.sqrt (1 / a + 1 / b + 1 / c + 1 / d) := by
  unfold odds_ratio at h
  simp only [Nat.cast_zero, Nat.cast_one, Nat.cast_ofNat] at h
  split_ifs at h
  simp only [Except.ok.injEq] at h; subst h; rfl

theorem irr_se_wald (ppf : F → F) (infv a c t1 t2 α : F) (r : Results F)
    (h : incidence_rate_ratio ppf infv a c t1 t2 α = .ok r) :
    r.se = Transc.sqrt (1 / a + 1 / c) := by
  unfold incidence_rate_ratio at h
  simp only [Nat.cast_zero, Nat.cast_one, Nat.cast_ofNat] at h
  split_ifs at h
  simp only [Except.ok.injEq] at h; subst h; rfl

theorem ird_se_wald (ppf : F → F) (infv a c t1 t2 α : F) (r : Results F)
    (h : incidence_rate_difference ppf infv a c t1 t2 α = .ok r) :
    r.se = Transc.sqrt (a / (t1 * t1) + c / (t2 * t2)) := by
  unfold incidence_rate_difference at h
  simp only [Nat.cast_zero, Nat.cast_one, Nat.cast_ofNat] at h
  split_ifs at h
  simp only [Except.ok.injEq] at h; subst h; rfl

/-! ### the frame classes: each reported level carries the Wald se of its own table -/

/-- RiskRatio / RiskDifference / NNT / OddsRatio `.fit` with a count function whose se is `sef` of its four counts:
    the se reported for level `i` is `sef` of (events, non-events) of level `i` and of the reference, counted on the rows
    with exposure and outcome observed -/
theorem counts_frame_se (cf : F → F → F → F → Except Err (Results F)) (sef : F → F → F → F → F)
    (hcf : ∀ a b c d r, cf a b c d = .ok r → r.se = sef a b c d)
    (rows : List (MRow F)) (ref : Nat) (out : List (Nat × Results F)) (h : fitCounts cf rows ref = .ok out) :
    ∀ p ∈ out, p.2.se = sef ((cntED (complete rows) p.1 true : Nat) : F) ((cntED (complete rows) p.1 false : Nat) : F)
      ((cntED (complete rows) ref true : Nat) : F) ((cntED (complete rows) ref false : Nat) : F) := by
  intro p hp
  exact hcf _ _ _ _ _ ((ZV.P07.frame_eq_counts cf rows ref out h).2 p hp)

/-- IncidenceRateRatio / IncidenceRateDifference `.fit`: the se reported for level `i` is `sef` of the events and the
    person-time of level `i` — the rows *at level i* with exposure and outcome observed — and of the reference -/
theorem rates_frame_se (cf : F → F → F → F → Except Err (Results F)) (sef : F → F → F → F → F)
    (hcf : ∀ a c t1 t2 r, cf a c t1 t2 = .ok r → r.se = sef a c t1 t2)
    (rows : List (MRow F)) (ref : Nat) (out : List (Nat × Results F)) (h : fitRates cf rows ref = .ok out) :
    ∀ p ∈ out, p.2.se = sef ((cntED (complete rows) p.1 true : Nat) : F) ((cntED (complete rows) ref true : Nat) : F)
      (personTime (complete rows) p.1) (personTime (complete rows) ref) := by
  intro p hp
  exact hcf _ _ _ _ _ ((ZV.P07.rates_eq_counts cf rows ref out h).2 p hp)

/-- IncidenceRateDifference: SD(IRD) of level `i` = sqrt(a/t1² + c/t2²) with `t1` the person-time of level `i` alone -/
theorem ird_frame_se_wald (ppf : F → F) (infv α : F) (rows : List (MRow F)) (ref : Nat)
    (out : List (Nat × Results F))
    (h : fitRates (fun a c t1 t2 => incidence_rate_difference ppf infv a c t1 t2 α) rows ref = .ok out) :
    ∀ p ∈ out, p.2.se = Transc.sqrt
      (((cntED (complete rows) p.1 true : Nat) : F) / (personTime (complete rows) p.1 * personTime (complete rows) p.1) +
       ((cntED (complete rows) ref true : Nat) : F) / (personTime (complete rows) ref * personTime (complete rows) ref)) :=
  rates_frame_se _ (fun a c t1 t2 => Transc.sqrt (a / (t1 * t1) + c / (t2 * t2)))
    (fun a c t1 t2 r hr => ird_se_wald ppf infv a c t1 t2 α r hr) rows ref out h

theorem irr_frame_se_wald (ppf : F → F) (infv α : F) (rows : List (MRow F)) (ref : Nat)
    (out : List (Nat × Results F))
    (h : fitRates (fun a c t1 t2 => incidence_rate_ratio ppf infv a c t1 t2 α) rows ref = .ok out) :
    ∀ p ∈ out, p.2.se = Transc.sqrt
      (1 / ((cntED (complete rows) p.1 true : Nat) : F) + 1 / ((cntED (complete rows) ref true : Nat) : F)) :=
  rates_frame_se _ (fun a c _ _ => Transc.sqrt (1 / a + 1 / c))
    (fun a c t1 t2 r hr => irr_se_wald ppf infv a c t1 t2 α r hr) rows ref out h

theorem rd_frame_se_wald (ppf : F → F) (infv α : F) (rows : List (MRow F)) (ref : Nat)
    (out : List (Nat × Results F))
    (h : fitCounts (fun a b c d => risk_difference ppf infv a b c d α) rows ref = .ok out) :
    ∀ p ∈ out, p.2.se =
      (fun a b c d : F => Transc.sqrt ((a / (a + b)) * (1 - a / (a + b)) / (a + b) + (c / (c + d)) * (1 - c / (c + d)) / (c + d)))
        ((cntED (complete rows) p.1 true : Nat) : F) ((cntED (complete rows) p.1 false : Nat) : F)
        ((cntED (complete rows) ref true : Nat) : F) ((cntED (complete rows) ref false : Nat) : F) :=
  counts_frame_se _ _ (fun a b c d r hr => rd_se_wald ppf infv a b c d α r hr) rows ref out h

/-! ### Non-vacuity: three exposure levels; the se of level 1 does not see the person-time of level 2 -/
section examples
local instance instTQ : Transc ℚ := ⟨id, id, id⟩

example : ∃ r1 r2, fitRates (F := ℚ) (fun a c t1 t2 => incidence_rate_difference (fun _ => 2) 0 a c t1 t2 (1/20))
    [⟨some 0, some true, some 4⟩, ⟨some 0, some false, some 6⟩, ⟨some 1, some true, some 2⟩,
     ⟨some 2, some true, some 5⟩, ⟨some 2, some false, some 3⟩] 0 = .ok [(1, r1), (2, r2)] ∧
    r1.se = 1/4 + 1/100 ∧ r2.se = 1/64 + 1/100 := by
  norm_num [fitRates, otherLevels, levelSet, insertAsc, mapLevels, cntED, personTime, sumBy,
    incidence_rate_difference, Transc.sqrt, instTQ]
  exact ⟨_, _, ⟨rfl, rfl⟩, by norm_num, by norm_num⟩
end examples

end ZV.P06F
