/-
C01 — Saturated nuisance models reproduce nonparametric standardization.

Subject: `ZV.Std.hajek ∘ iptwOmega` (IPTW: the *generated* `iptw_calculator` weight formula, times
the missingness weight, fed to a saturated weighted marginal structural model), `ZV.Std.gformula`
(TimeFixedGFormula), `ZV.Std.aipw1/aipw0` (AIPTW: generated pseudo-outcome lines).  The same
definitions are executed by the native driver in the correspondence check.  TMLE's part of the
property is `tmle_saturated` in `Props/C02.lean` (it is the outcome-model half of TMLE's double
robustness).

The statements hold in any linearly ordered field, for data sets of any size, any number of strata
(any number / arity of categorical covariates), any positive frequency weights, any outcome values
(binary, continuous, counts: only the score equations of the canonical-link models are used), each
standardization target and stabilized or unstabilized weights.
-/
import ZepidVerif.Lemmas.Ipw
import ZepidVerif.Lemmas.Aipw
import ZepidVerif.Lemmas.GFormula
import ZepidVerif.Lemmas.FitBridge
import Mathlib.Algebra.Order.Field.Rat
import Mathlib.Tactic.NormNum
set_option linter.unusedSectionVars false
set_option linter.unusedVariables false
namespace ZV.P01
open ZV ZV.Std

variable {F : Type} [Field F] [LinearOrder F] [IsStrictOrderedRing F] [Transc F]

/-- **IPTW.**  Saturated treatment model `p`, saturated missingness model `q` (use `q = 1` when no
    outcome is missing), marginal numerator `n ∈ (0,1)` (used only when stabilized), any non-zero
    arm-level numerator `mnum` of the missingness weights: the weighted arm mean that the saturated
    marginal structural model returns equals the standardized mean, for each of the 6 weight formulas. -/
theorem iptw_saturated (l : List (Row F)) (S : List Nat) (hS : Strata l S) (hpos : Positivity l S)
    (stab : Bool) (t : Tgt) (a : Bool) (n : F) (hn0 : n ≠ 0) (hn1 : n ≠ 1)
    (p : Nat → F) (hp : PropFit l S p) (q : Nat → Bool → F) (hq : MissFit l S q)
    (mnum : Bool → F) (hm : mnum a ≠ 0) :
    hajek l (iptwOmega stab t (fun _ => n) (fun r => p r.s) (fun r => mnum r.a / q r.s r.a)) a = std l S t.mem a := by
  refine hajek_eq_std l S hS.1 hS.2 t.mem a _ (fun s => Gen.iptw_weight stab t.str a n (p s) * (mnum a / q s a))
    (iptwConst stab t a n * mnum a) (mul_ne_zero (iptwConst_ne_zero stab t a n hn0 hn1) hm) ?_ ?_ ?_
  · intro r _ ha _; simp [iptwOmega, ha]
  · intro s hs; exact (hpos.cell_pos hs a).ne'
  · intro s hs
    have hcell := (hpos.cell_pos hs a).ne'
    have hall := (hpos.cellAll_pos hs a).ne'
    have hWs := (hpos.stratum_pos hs).ne'
    have hq' := hq s hs a
    have hq0 : q s a ≠ 0 := fun e => hcell (by rw [← hq', e, zero_mul])
    obtain ⟨hp0, hp1⟩ := hp.mem_Ioo hpos hs
    have hsplit := W_stratum_split l s
    have hp' := hp s hs
    -- weight of the arm in the stratum, in terms of p and the stratum weight
    have harm : W (inCellAll s a) l = if a then p s * W (inStratum s) l else (1 - p s) * W (inStratum s) l := by
      cases a
      · simp only [Bool.false_eq_true, if_false]; rw [sub_mul, one_mul, hp', hsplit]; ring
      · simp only [if_true]; exact hp'.symm
    have hbal := iptw_weight_balance stab t a n (p s) (W (inStratum s) l) hn0 hn1 hp0.ne' hp1.ne
    have htgt : Ntgt t.mem l s = tgtShare t (p s) (W (inStratum s) l) := by
      cases t
      · simp only [Ntgt, tgtShare, Tgt.mem, Bool.and_true]
      · simp only [Ntgt, tgtShare, Tgt.mem]; rw [hp']
        unfold W; apply sumIf_congr; intro r _
        cases h : r.a <;> simp [inStratum, inCellAll, h]
      · simp only [Ntgt, tgtShare, Tgt.mem, sub_mul, one_mul]; rw [hp', hsplit]
        have : W (fun r => inStratum s r && !r.a) l = W (inCellAll s false) l := by
          unfold W; apply sumIf_congr; intro r _
          cases h : r.a <;> simp [inStratum, inCellAll, h]
        rw [this]; ring
    rw [htgt, ← hq', mul_assoc, mul_comm (iptwConst stab t a n), mul_assoc, ← hbal, ← harm]
    field_simp

/-- effect measures of the IPTW marginal structural model are functions of the two arm means only,
    hence equal the closed-form RD / RR / OR / mean difference of the standardized means -/
theorem iptw_measures_saturated (l : List (Row F)) (S : List Nat) (hS : Strata l S) (hpos : Positivity l S)
    (stab : Bool) (t : Tgt) (n : F) (hn0 : n ≠ 0) (hn1 : n ≠ 1)
    (p : Nat → F) (hp : PropFit l S p) (q : Nat → Bool → F) (hq : MissFit l S q)
    (mnum : Bool → F) (hm : ∀ a, mnum a ≠ 0) :
    let ω := iptwOmega stab t (fun _ => n) (fun r => p r.s) (fun r => mnum r.a / q r.s r.a)
    let m1 := hajek l ω true; let m0 := hajek l ω false
    let s1 := std l S t.mem true; let s0 := std l S t.mem false
    m1 - m0 = s1 - s0 ∧ m1 / m0 = s1 / s0 ∧ (m1 / (1 - m1)) / (m0 / (1 - m0)) = (s1 / (1 - s1)) / (s0 / (1 - s0)) := by
  intro ω m1 m0 s1 s0
  have e1 : m1 = s1 := iptw_saturated l S hS hpos stab t true n hn0 hn1 p hp q hq mnum (hm true)
  have e0 : m0 = s0 := iptw_saturated l S hS hpos stab t false n hn0 hn1 p hp q hq mnum (hm false)
  rw [e1, e0]; exact ⟨rfl, rfl, rfl⟩

/-- **Tie to the source (IPTW).**  The weight column handed to the marginal structural model, regenerated from the
    text of `IPTW.fit` on every run, is IPTW × IPMW × user weight — the row weight `ω r · r.w` that `hajek` applies
    with `ω = iptwOmega` (whose last factor is the missingness weight). -/
theorem iptw_final_weight_generated (hasIpmw hasWeight : Bool) (iptw ipmw : Row F → F) (r : Row F) :
    Gen.iptw_final_weight hasIpmw hasWeight iptw ipmw r
      = (iptw r * (if hasIpmw then ipmw r else 1)) * (if hasWeight then r.w else 1) := by
  cases hasIpmw <;> cases hasWeight <;> simp [Gen.iptw_final_weight]

/-- **TimeFixedGFormula.**  Saturated outcome model: the mean over the target rows of the prediction
    under "treat all" / "treat none" is the standardized mean.  (Rows with a missing outcome are
    target rows: `predict_missing=True`.) -/
theorem gformula_saturated (l : List (Row F)) (S : List Nat) (hS : Strata l S) (hpos : Positivity l S)
    (Q : Nat → Bool → F) (hQ : OutFit l S Q) (t : Tgt) (a : Bool) :
    gformula l (fun r => Q r.s) t.mem a = std l S t.mem a := by
  exact gformula_of_outfit l S hS hpos Q hQ t.mem a

/-- **Tie to the source.**  The marginal-mean lines of `TimeFixedGFormula.fit`, regenerated from their text
    on every run, compute the model `gformula` (when no row is lost to `dropna`; without a weight column all
    frequency weights are 1): so the generated code inherits `gformula_saturated`. -/
theorem gformula_generated (hasWeights : Bool) (t : Tgt) (l : List (Row F)) (pred : Row F → F) (a : Bool)
    (hw : hasWeights = false → ∀ r ∈ l, r.w = 1) :
    Gen.gformula_marginal hasWeights t.str l pred (fun _ => true) = gformula l (fun r _ => pred r) t.mem a :=
  gformula_marginal_eq hasWeights t l pred a hw

/-- **AIPTW** with both nuisance models saturated (no missing outcomes): the weighted means of the
    pseudo-outcomes are the standardized means over the whole population. -/
theorem aipw_saturated (l : List (Row F)) (S : List Nat) (hS : Strata l S) (hpos : Positivity l S)
    (hobs : ∀ r ∈ l, r.obs = true) (Q : Nat → Bool → F) (hQ : OutFit l S Q) (p : Nat → F) (hp : PropFit l S p) :
    aipw1 l (fun r => Q r.s) (fun r => p r.s) (fun r => 1 - p r.s) = std l S Tgt.pop.mem true ∧
    aipw0 l (fun r => Q r.s) (fun r => p r.s) (fun r => 1 - p r.s) = std l S Tgt.pop.mem false := by
  constructor
  · exact aipw1_of_outfit l S hS hpos hobs Q hQ p (fun s => 1 - p s) (fun s hs => (hp.mem_Ioo hpos hs).1.ne')
  · refine aipw0_of_outfit l S hS hpos hobs Q hQ p (fun s => 1 - p s) (fun s hs => ?_)
    have := (hp.mem_Ioo hpos hs).2; exact (sub_pos.mpr this).ne'

/-- **Tie to the source (AIPTW).**  `aipw_calculator`, regenerated from its text on every run (NaN outcomes skipped
    exactly as numpy's `nanmean` / NaN masks do), returns on data without missing outcomes the difference — or, for the
    ratio, the quotient — of the model's two pseudo-outcome means `aipw1`, `aipw0`, weighted or not. -/
theorem aipw_calc_generated (difference hasWeights : Bool) (nanv : F) (l : List (Row F)) (hobs : ∀ r ∈ l, r.obs = true)
    (hw : hasWeights = false → ∀ r ∈ l, r.w = 1) (py_a py_n pa1 pa0 : Row F → F) :
    let Q : Row F → Bool → F := fun r a => if a then py_a r else py_n r
    (Gen.aipw_calc difference hasWeights nanv l py_a py_n pa1 pa0).1
      = if difference then aipw1 l Q pa1 pa0 - aipw0 l Q pa1 pa0 else aipw1 l Q pa1 pa0 / aipw0 l Q pa1 pa0 :=
  aipw_calc_eq difference hasWeights nanv l hobs hw py_a py_n pa1 pa0

/-! ### Non-vacuity: a concrete data set satisfying every hypothesis -/

/-- 2 strata × 2 arms, unequal cell sizes and weights -/
def exRows : List (Row ℚ) :=
  [⟨0, 0, true, 1, 1, true⟩, ⟨1, 0, true, 0, 2, true⟩, ⟨2, 0, false, 1, 1, true⟩,
   ⟨3, 1, true, 1, 1, true⟩, ⟨4, 1, false, 0, 3, true⟩, ⟨5, 1, false, 1, 1, true⟩]

example : Strata exRows [0, 1] ∧ Positivity exRows [0, 1] := by
  refine ⟨⟨by decide, by decide⟩, by decide, ?_⟩
  intro s hs a
  simp only [List.mem_cons, List.not_mem_nil, or_false] at hs
  rcases hs with rfl | rfl <;> cases a <;> simp [exRows, inCell]

/-- the saturated fits of that data set: treated fraction 3/4 and 1/5, cell means -/
example : PropFit exRows [0, 1] (fun s => if s = 0 then 3/4 else 1/5) := by
  intro s hs; simp only [List.mem_cons, List.not_mem_nil, or_false] at hs
  rcases hs with rfl | rfl <;> norm_num [exRows, W, sumIf, sumBy, inStratum, inCellAll]

example : OutFit exRows [0, 1] (fun s a => if s = 0 then (if a then 1/3 else 1) else (if a then 1 else 1/4)) := by
  intro s hs a; simp only [List.mem_cons, List.not_mem_nil, or_false] at hs
  rcases hs with rfl | rfl <;> cases a <;> norm_num [exRows, W, WY, sumIf, sumBy, inCell]

example : std exRows [0, 1] Tgt.pop.mem true = (4 * (1/3) + 5 * 1) / 9 := by
  norm_num [std, Ntgt, cellMean, exRows, W, WY, sumIf, sumBy, inCell, inStratum, Tgt.mem]

end ZV.P01
