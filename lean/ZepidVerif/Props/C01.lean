/-
C01 — Saturated nuisance models reproduce nonparametric standardization.

Subject: `ZV.Std.hajek ∘ iptwOmega` (IPTW: the *generated* `iptw_calculator` weight formula, times
the missingness weight, fed to a saturated weighted marginal structural model), `ZV.Std.gformula`
(TimeFixedGFormula), `ZV.Std.aipw1/aipw0` (AIPTW: generated pseudo-outcome lines).  The same
definitions are executed by the native driver in the correspondence check.  TMLE's part of the
property is `tmle_saturated` in `Props/C02.lean` (it is the outcome-model half of TMLE's double
robustness).

The statements hold in any linearly ordered field, for data sets of any size, any number of strata
(any number / arity of categorical covariates), any positive frequency weights, any outcome values
(binary, continuous, counts: only the score equations of the canonical-link models are used), each
standardization target and stabilized or unstabilized weights.
-/
import ZepidVerif.Lemmas.Ipw
import ZepidVerif.Lemmas.Aipw
import ZepidVerif.Lemmas.GFormula
import ZepidVerif.Lemmas.FitBridge
import ZepidVerif.Lemmas.BoundUnreached
import Mathlib.Algebra.Order.Field.Rat
import Mathlib.Tactic.NormNum
set_option linter.unusedSectionVars false
set_option linter.unusedVariables false
namespace ZV.P01
open ZV ZV.Std

variable {F : Type} [Field F] [LinearOrder F] [IsStrictOrderedRing F] [Transc F]

/-- **IPTW.**  Saturated treatment model `p`, saturated missingness model `q` (use `q = 1` when no
    outcome is missing), marginal numerator `n ∈ (0,1)` (used only when stabilized), any non-zero
    arm-level numerator `mnum` of the missingness weights: the weighted arm mean that the saturated
    marginal structural model returns equals the standardized mean, for each of the 6 weight formulas. -/
theorem iptw_saturated (l : List (Row F)) (S : List Nat) (hS : Strata l S) (hpos : Positivity l S)
    (stab : Bool) (t : Tgt) (a : Bool) (n : F) (hn0 : n ≠ 0) (hn1 : n ≠ 1)
    (p : Nat → F) (hp : PropFit l S p) (q : Nat → Bool → F) (hq : MissFit l S q)
    (mnum : Bool → F) (hm : mnum a ≠ 0) :
    hajek l (iptwOmega stab t (fun _ => n) (fun r => p r.s) (fun r => mnum r.a / q r.s r.a)) a = std l S t.mem a := by
  refine hajek_eq_std l S hS.1 hS.2 t.mem a _ (fun s => Gen.iptw_weight stab t.str a n (p s) * (mnum a / q s a))
    (iptwConst stab t a n * mnum a) (mul_ne_zero (iptwConst_ne_zero stab t a n hn0 hn1) hm) ?_ ?_ ?_
  · intro r _ ha _; simp [iptwOmega, ha]
  · intro s hs; exact (hpos.cell_pos hs a).ne'
  · intro s hs
    have hcell := (hpos.cell_pos hs a).ne'
    have hall := (hpos.cellAll_pos hs a).ne'
    have hWs := (hpos.stratum_pos hs).ne'
    have hq' := hq s hs a
    have hq0 : q s a ≠ 0 := fun e => hcell (by rw [← hq', e, zero_mul])
    obtain ⟨hp0, hp1⟩ := hp.mem_Ioo hpos hs
    have hsplit := W_stratum_split l s
    have hp' := hp s hs
    -- weight of the arm in the stratum, in terms of p and the stratum weight
    have harm : W (inCellAll s a) l = if a then p s * W (inStratum s) l else (1 - p s) * W (inStratum s) l := by
      cases a
      · simp only [Bool.false_eq_true, if_false]; rw [sub_mul, one_mul, hp', hsplit]; ring
      · simp only [if_true]; exact hp'.symm
    have hbal := iptw_weight_balance stab t a n (p s) (W (inStratum s) l) hn0 hn1 hp0.ne' hp1.ne
    have htgt : Ntgt t.mem l s = tgtShare t (p s) (W (inStratum s) l) := by
      cases t
      · simp only [Ntgt, tgtShare, Tgt.mem, Bool.and_true]
      · simp only [Ntgt, tgtShare, Tgt.mem]; rw [hp']
        unfold W; apply sumIf_congr; intro r _
        cases h : r.a <;> simp [inStratum, inCellAll, h]
      · simp only [Ntgt, tgtShare, Tgt.mem, sub_mul, one_mul]; rw [hp', hsplit]
        have : W (fun r => inStratum s r && !r.a) l = W (inCellAll s false) l := by
          unfold W; apply sumIf_congr; intro r _
          cases h : r.a <;> simp [inStratum, inCellAll, h]
        rw [this]; ring
    rw [htgt, ← hq', mul_assoc, mul_comm (iptwConst stab t a n), mul_assoc, ← hbal, ← harm]
    field_simp

/-- effect measures of the IPTW marginal structural model are functions of the two arm means only,
    hence equal the closed-form RD / RR / OR / mean difference of the standardized means -/
theorem iptw_measures_saturated (l : List (Row F)) (S : List Nat) (hS : Strata l S) (hpos : Positivity l S)
    (stab : Bool) (t : Tgt) (n : F) (hn0 : n ≠ 0) (hn1 : n ≠ 1)
    (p : Nat → F) (hp : PropFit l S p) (q : Nat → Bool → F) (hq : MissFit l S q)
    (mnum : Bool → F) (hm : ∀ a, mnum a ≠ 0) :
    let ω := iptwOmega stab t (fun _ => n) (fun r => p r.s) (fun r => mnum r.a / q r.s r.a)
    let m1 := hajek l ω true; let m0 := hajek l ω false
    let s1 := std l S t.mem true; let s0 := std l S t.mem false
    m1 - m0 = s1 - s0 ∧ m1 / m0 = s1 / s0 ∧ (m1 / (1 - m1)) / (m0 / (1 - m0)) = (s1 / (1 - s1)) / (s0 / (1 - s0)) := by
  intro ω m1 m0 s1 s0
  have e1 : m1 = s1 := iptw_saturated l S hS hpos stab t true n hn0 hn1 p hp q hq mnum (hm true)
  have e0 : m0 = s0 := iptw_saturated l S hS hpos stab t false n hn0 hn1 p hp q hq mnum (hm false)
  rw [e1, e0]; exact ⟨rfl, rfl, rfl⟩

/-- **TimeFixedGFormula.**  Saturated outcome model: the mean over the target rows of the prediction
    under "treat all" / "treat none" is the standardized mean.  (Rows with a missing outcome are
    target rows: `predict_missing=True`.) -/
theorem gformula_saturated (l : List (Row F)) (S : List Nat) (hS : Strata l S) (hpos : Positivity l S)
    (Q : Nat → Bool → F) (hQ : OutFit l S Q) (t : Tgt) (a : Bool) :
    gformula l (fun r => Q r.s) t.mem a = std l S t.mem a := by
  exact gformula_of_outfit l S hS hpos Q hQ t.mem a

/-- **AIPTW** with both nuisance models saturated (no missing outcomes): the weighted means of the
    pseudo-outcomes are the standardized means over the whole population. -/
theorem aipw_saturated (l : List (Row F)) (S : List Nat) (hS : Strata l S) (hpos : Positivity l S)
    (hobs : ∀ r ∈ l, r.obs = true) (Q : Nat → Bool → F) (hQ : OutFit l S Q) (p : Nat → F) (hp : PropFit l S p) :
    aipw1 l (fun r => Q r.s) (fun r => p r.s) (fun r => 1 - p r.s) = std l S Tgt.pop.mem true ∧
    aipw0 l (fun r => Q r.s) (fun r => p r.s) (fun r => 1 - p r.s) = std l S Tgt.pop.mem false := by
  constructor
  · exact aipw1_of_outfit l S hS hpos hobs Q hQ p (fun s => 1 - p s) (fun s hs => (hp.mem_Ioo hpos hs).1.ne')
  · refine aipw0_of_outfit l S hS hpos hobs Q hQ p (fun s => 1 - p s) (fun s hs => ?_)
    have := (hp.mem_Ioo hpos hs).2; exact (sub_pos.mpr this).ne'

/-! ### A truncation bound that is not reached (round 4)

`IPTW.treatment_model(bound=…)` hands the bound to `iptw_calculator`, which clips the fitted denominator
probabilities *and* the numerator with `probability_bounds` (`Bounds.iptwRow`; the argument is parsed by
`Bounds.estimatorBound`: falsy = no truncation, a float `b` = `[b, 1-b]`, a collection = its entries 0 and 1,
whatever follows them).  When neither the saturated fit nor the numerator lies outside the parsed interval the
estimate is still the standardized mean. -/

/-- entries after the second of a bound collection play no part -/
theorem bound_first_two (falsy : Bool) (lo hi : F) (rest : List (Option F)) :
    Bounds.estimatorBound falsy (.seq (some lo :: some hi :: rest)) =
    Bounds.estimatorBound falsy (.seq [some lo, some hi]) := rfl

/-- **IPTW with a bound that is not reached**, in any accepted form `b` (parsed to `iv`): the clipped
    probabilities are the fitted ones on every row, so the six weight formulas still give the standardized mean. -/
theorem iptw_saturated_unreached_bound (l : List (Row F)) (S : List Nat) (hS : Strata l S) (hpos : Positivity l S)
    (stab : Bool) (t : Tgt) (a : Bool) (n : F) (hn0 : n ≠ 0) (hn1 : n ≠ 1)
    (p : Nat → F) (hp : PropFit l S p) (q : Nat → Bool → F) (hq : MissFit l S q)
    (mnum : Bool → F) (hm : mnum a ≠ 0)
    (falsy : Bool) (b : Bounds.BoundSpec F) (iv : Option (F × F)) (hb : Bounds.estimatorBound falsy b = .ok iv)
    (hun : ∀ lo hi, iv = some (lo, hi) → (lo ≤ n ∧ n ≤ hi) ∧ ∀ s ∈ S, lo ≤ p s ∧ p s ≤ hi) :
    hajek l (iptwOmega stab t (fun _ => (Bounds.iptwRow stab t.str iv a n n).2.1)
                              (fun r => (Bounds.iptwRow stab t.str iv r.a n (p r.s)).1)
                              (fun r => mnum r.a / q r.s r.a)) a = std l S t.mem a := by
  rw [← iptw_saturated l S hS hpos stab t a n hn0 hn1 p hp q hq mnum hm]
  have hn : Bounds.applyB iv n = n := Bounds.applyB_unreached iv n (fun lo hi e => (hun lo hi e).1)
  have hps : ∀ r ∈ l, Bounds.applyB iv (p r.s) = p r.s := fun r hr =>
    Bounds.applyB_unreached iv (p r.s) (fun lo hi e => (hun lo hi e).2 r.s (hS.2 r hr))
  unfold hajek
  congr 1 <;> (apply sumIf_congr; intro r hr; simp only [iptwOmega, Bounds.iptwRow, hn, hps r hr])

/-! ### Non-vacuity: a concrete data set satisfying every hypothesis -/

/-- 2 strata × 2 arms, unequal cell sizes and weights -/
def exRows : List (Row ℚ) :=
  [⟨0, 0, true, 1, 1, true⟩, ⟨1, 0, true, 0, 2, true⟩, ⟨2, 0, false, 1, 1, true⟩,
   ⟨3, 1, true, 1, 1, true⟩, ⟨4, 1, false, 0, 3, true⟩, ⟨5, 1, false, 1, 1, true⟩]

example : Strata exRows [0, 1] ∧ Positivity exRows [0, 1] := by
  refine ⟨⟨by decide, by decide⟩, by decide, ?_⟩
  intro s hs a
  simp only [List.mem_cons, List.not_mem_nil, or_false] at hs
  rcases hs with rfl | rfl <;> cases a <;> simp [exRows, inCell]

/-- the saturated fits of that data set: treated fraction 3/4 and 1/5, cell means -/
example : PropFit exRows [0, 1] (fun s => if s = 0 then 3/4 else 1/5) := by
  intro s hs; simp only [List.mem_cons, List.not_mem_nil, or_false] at hs
  rcases hs with rfl | rfl <;> norm_num [exRows, W, sumIf, sumBy, inStratum, inCellAll]

example : OutFit exRows [0, 1] (fun s a => if s = 0 then (if a then 1/3 else 1) else (if a then 1 else 1/4)) := by
  intro s hs a; simp only [List.mem_cons, List.not_mem_nil, or_false] at hs
  rcases hs with rfl | rfl <;> cases a <;> norm_num [exRows, W, WY, sumIf, sumBy, inCell]

example : std exRows [0, 1] Tgt.pop.mem true = (4 * (1/3) + 5 * 1) / 9 := by
  norm_num [std, Ntgt, cellMean, exRows, W, WY, sumIf, sumBy, inCell, inStratum, Tgt.mem]

/-- a bound given as a collection of three entries: the third (which would bite) is ignored, and the interval
    [1/10, 9/10] contains the fitted probabilities 3/4, 1/5 and the numerator 1/2 of the data set above -/
example : Bounds.estimatorBound false (.seq [some (1/10 : ℚ), some (9/10), some (1/2)]) = .ok (some (1/10, 9/10)) ∧
    ((1/10 : ℚ) ≤ 1/2 ∧ (1/2 : ℚ) ≤ 9/10) ∧
    ∀ s ∈ [0, 1], (1/10 : ℚ) ≤ (fun s => if s = 0 then (3/4 : ℚ) else 1/5) s ∧
      (fun s => if s = 0 then (3/4 : ℚ) else 1/5) s ≤ 9/10 := by
  refine ⟨by norm_num [Bounds.estimatorBound, Bounds.parseBound], by norm_num, ?_⟩
  intro s hs; simp only [List.mem_cons, List.not_mem_nil, or_false] at hs
  rcases hs with rfl | rfl <;> norm_num

end ZV.P01
