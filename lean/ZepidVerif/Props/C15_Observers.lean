/-
C15 (round 4) — the reporting methods of `GEstimationSNM` are observers.

`Gen/Tables.lean` is regenerated on every run from the text of the estimator classes by the static effect analysis
(`harness/effects.py`, built for C11): per public method, which externally visible state it assigns.  For
`GEstimationSNM` the fitted state is `psi`, `psi_labels`, `_alphas`, `_scipy_solver_obj`; a method whose row writes
no specification slot, records no fit and sets no register assigns none of it.  `snm_reporting_methods_observe`: in
the table derived from the source as it is now, every method other than the three specification methods and `fit`
(that is: `summary`, and any method id outside the table, which raises) leaves the object's state -- the
specifications, the fitted result, the registers -- exactly as it was.  So psi and psi_labels read after any number of
reporting calls are the ones `fit()` stored, and the theorems of Props/C15 / C15_Gen about the value `fit` returns are
theorems about the value the caller reads.  A `summary()` that stores rounded estimates makes the analysis mark it
`isFit` and this file stops compiling; gate D observes the same thing on the object (harness/props/c15.py, `observer_d`).
-/
import ZepidVerif.Gen.Tables
import ZepidVerif.Lemmas.Observers
set_option linter.unusedVariables false
namespace ZV.P15O
open ZV.History ZV.Obs

/-- **snm_reporting_methods_observe** — in the table derived from `g_estimation.py`: every method other than
    exposure_model (0), structural_nested_model (1), missing_model (2) and fit (3) leaves the state unchanged -/
theorem snm_reporting_methods_observe (miss : Bool) (s : State) (o : Op) (hm : 4 ≤ o.m) :
    next (Gen.Tables.snm miss) s o = s := by
  apply observer_leaves_state
  obtain ⟨m, a, f⟩ := o
  simp only at hm ⊢
  match m, hm with
  | 4, _ => cases miss <;> rfl
  | n + 5, _ => cases miss <;> rfl

/-- the hypotheses are met and the statement is not vacuous: after exposure_model, structural_nested_model, fit the
    call of `summary` (method 4) is admitted, and it leaves the fitted result in place -/
example : admits (Gen.Tables.snm false) (run (Gen.Tables.snm false) init [⟨0, 0, false⟩, ⟨1, 1, false⟩, ⟨3, 2, false⟩])
    ⟨4, 3, false⟩ = true ∧
    ((run (Gen.Tables.snm false) init [⟨0, 0, false⟩, ⟨1, 1, false⟩, ⟨3, 2, false⟩, ⟨4, 3, false⟩]).fitted.map (·.2))
      = some ⟨3, 2, false⟩ := by
  decide

end ZV.P15O
