/-
C16, tie to the source (call sites): the per-row weight stored by `IPSW.sampling_model` / `AIPSW.sampling_model` and
the wiring of their `treatment_model` calls, regenerated on every run (`Gen/Sites.lean`), are the row weights
`ipswOmega` / `aipswOmega` / `popTreatWeight` of `Model/Generalize.lean` that `ipsw_saturated`,
`aipsw_weights_saturated_unstab` (Props/C16.lean) are about.
-/
import ZepidVerif.Props.C16
import ZepidVerif.Gen.Sites
set_option linter.unusedSectionVars false
set_option linter.unusedVariables false
namespace ZV.P16
open ZV ZV.Std

variable {F : Type} [Field F] [LinearOrder F] [IsStrictOrderedRing F] [Transc F]

/-- **Tie to the source (IPSW.sampling_model, no truncation requested).**  The weight stored for a sampled row is the
    generated sampling-weight formula on the fitted denominator and the fitted numerator (1 when unstabilized) — the
    first factor of the model's `ipswOmega`. -/
theorem ipsw_sampling_weight_generated (clip : F → F) (gen stab : Bool) (pn pd : F) :
    (Gen.ipsw_sampling_row clip gen stab false pd pn).2.2 = Gen.ipsw_weight gen stab (if stab then pn else 1) pd := by
  cases gen <;> cases stab <;> simp [Gen.ipsw_sampling_row, Gen.ipsw_weight]

/-- **Tie to the source (AIPSW.sampling_model).**  For a row of the study sample the stored weight is the generated
    formula `aipsw_weight` on the fitted denominator and numerator (1 when unstabilized) — the first factor of
    `aipswOmega`; rows outside the sample get numerator 0 (their weight is never read by `AIPSW.fit`:
    `aipsw_fit_generated` sums `ipw` over `sample & (A = a)` only). -/
theorem aipsw_sampling_weight_generated (gen stab : Bool) (pn pd : F) :
    (Gen.aipsw_sampling_row gen stab true pd pn).2.2 = Gen.aipsw_weight gen stab (if stab then pn else 1) pd ∧
    (Gen.aipsw_sampling_row gen stab false pd pn).2.1 = 0 := by
  cases gen <;> cases stab <;> simp [Gen.aipsw_sampling_row, Gen.aipsw_weight]

/-- **Tie to the source (treatment_model of IPSW / AIPSW).**  Both hand `standardize='population'` to
    `iptw_calculator`: the treatment weight of a row is the model's `popTreatWeight`; IPSW fits the treatment models on
    the study sample, AIPSW on every row of the combined data. -/
theorem treatment_site_generated (stab : Bool) (n p : Row F → F) (r : Row F) (l : List (Row F)) :
    popTreatWeight stab n p r = Gen.iptw_weight stab Gen.ipsw_treatment_standardize r.a (n r) (p r) ∧
    popTreatWeight stab n p r = Gen.iptw_weight stab Gen.aipsw_treatment_standardize r.a (n r) (p r) ∧
    Gen.ipsw_treatment_rows (fun r : Row F => r.obs) l = l.filter (fun r => r.obs) ∧
    Gen.aipsw_treatment_rows (fun r : Row F => r.obs) l = l :=
  ⟨rfl, rfl, rfl, rfl⟩

/-- **IPSW with the regenerated call sites.**  The row weight `IPSW.fit` uses — the `__ipsw__` stored by the regenerated
    `sampling_model` lines times the treatment weight — is the model's `ipswOmega`, so `ipsw_saturated` speaks about it. -/
theorem ipsw_omega_generated (clip : F → F) (gen stab : Bool) (numer denom tw : Row F → F) (r : Row F) :
    (Gen.ipsw_sampling_row clip gen stab false (denom r) (numer r)).2.2 * tw r
      = ipswOmega gen stab (fun r => if stab then numer r else 1) denom tw r := by
  rw [ipsw_sampling_weight_generated]; rfl

local instance instTQ_C16Sites : Transc ℚ := ⟨id, id, id⟩

/-- non-vacuity: transport, stabilized: ((1 − 1/4)/(1/4)) · ((1/2)/(1 − 1/2)) = 3 -/
example : (Gen.ipsw_sampling_row (fun x : ℚ => x) false true false (1/4) (1/2)).2.2 = 3 ∧
    (Gen.aipsw_sampling_row false true true (1/4 : ℚ) (1/2)).2.2 = 3 := by
  norm_num [Gen.ipsw_sampling_row, Gen.aipsw_sampling_row]

end ZV.P16
