/-
C19 — No-assumption (Fréchet) bounds on the risk difference are valid and sharp.

Subject: `ZV.Measures.frechet rows i`, the model of the `LowerBound` / `UpperBound` columns of
`RiskDifference.fit` that the native driver executes (ops `frame`, `frechetq`, `crd`).  It evaluates the
two expressions `Gen.fr_lower` / `Gen.fr_upper`, which are *regenerated from zepid/base.py on every run*,
on the counts the code computes: `a`, `b` (events / non-events at level `i`), `y_other` (events among rows
observed at any other level), `n` (rows with exposure and outcome observed).

Specification side (`ZV.Potential`): every unit of the sample has two potential outcomes; only the one
of the level it received is seen (`PO.obs`, causal consistency).  A *completion* of the observed data is
any full data set `po` with `po.map PO.obs = observed rows i`.  `causalRD po` is mean Y(1) − mean Y(0)
over all n units.  The sample is the set of rows with exposure and outcome observed (that is the `n` of
the code; rows with a missing value are set aside — MCAR in the documentation's wording).

What the contrast is.  The code's `y_other` pools every other level, so the bounds are those of
"level i versus not level i".  For a binary exposure (the property's setting) "not i" is the reference
group: `binary_counts`, and then the interval also contains the reported risk difference (`contains_rd`,
`contains_reported_rd`).  For ≥ 3 levels validity / sharpness / width still hold for the pooled contrast
(the theorems below do not assume a binary exposure), but the interval need not contain the reported
difference against the reference level: see the last `example`.

All statements: arbitrary linearly ordered field, arbitrary number of rows.
-/
import ZepidVerif.Lemmas.Frechet
import ZepidVerif.Props.C07
import Mathlib.Algebra.Order.Field.Rat
import Mathlib.Tactic.NormNum
set_option linter.unusedSectionVars false
set_option linter.unusedVariables false
namespace ZV.P19
open ZV.Gen ZV.Measures ZV.Potential

variable {F : Type} [Field F] [LinearOrder F] [IsStrictOrderedRing F] [Transc F]

/-! ### links: rows → counts, completion → counts -/

/-- rows → counts: the four numbers the code feeds into the bound expressions are counts over the
    observed (exposure == i, outcome == 1) pairs of the rows with both values observed -/
theorem counts_of_rows (rows : List (MRow F)) (i : Nat) :
    cntED rows i true = cnt (fun o => o.1 && o.2) (observed rows i) ∧
    cntED rows i false = cnt (fun o => o.1 && !o.2) (observed rows i) ∧
    (rows.filter fun r => r.e.isSome && r.e != some i && r.d == some true).length =
      cnt (fun o => !o.1 && o.2) (observed rows i) ∧
    (complete rows).length = (observed rows i).length :=
  L19.observed_counts rows i

/-- completion → counts: Σ Y(1) = a + u, Σ Y(0) = y_other + v where `u` counts free events among the units
    outside the index level (at most n − (a+b) of them) and `v` free events inside it (at most a+b) -/
theorem counts_of_completion (po : List PO) :
    cnt (·.y1) po = cnt (fun o => o.1 && o.2) (po.map PO.obs) + cnt (fun p => !p.a && p.y1) po ∧
    cnt (·.y0) po = cnt (fun o => !o.1 && o.2) (po.map PO.obs) + cnt (fun p => p.a && p.y0) po ∧
    cnt (fun p => !p.a && p.y1) po + (cnt (fun o => o.1 && o.2) (po.map PO.obs) +
      cnt (fun o => o.1 && !o.2) (po.map PO.obs)) ≤ po.length ∧
    cnt (fun p => p.a && p.y0) po ≤ cnt (fun o => o.1 && o.2) (po.map PO.obs) +
      cnt (fun o => o.1 && !o.2) (po.map PO.obs) :=
  L19.completion_counts po

/-! ### width -/

/-- the reported interval has width one (whatever the data; pure algebra of the two generated expressions) -/
theorem width_one (rows : List (MRow F)) (i : Nat) : (frechet rows i).2 - (frechet rows i).1 = 1 := by
  simp only [frechet, fr_lower, fr_upper, Nat.cast_one]; ring

/-- closed form of what the code reports: lower = −(b + y_other)/n, upper = 1 − (b + y_other)/n -/
theorem frechet_closed_form (rows : List (MRow F)) (i : Nat)
    (hpos : 0 < cntED rows i true + cntED rows i false) :
    let b : F := (cntED rows i false : Nat)
    let yo : F := ((rows.filter fun r => r.e.isSome && r.e != some i && r.d == some true).length : Nat)
    let n : F := ((complete rows).length : Nat)
    (frechet rows i).1 = -(b + yo) / n ∧ (frechet rows i).2 = 1 - (b + yo) / n := by
  intro b yo n
  have hab : (0 : F) < ((cntED rows i true : Nat) : F) + ((cntED rows i false : Nat) : F) := by
    exact_mod_cast hpos
  have hw := width_one rows i
  have hn : (0 : F) < (((complete rows).length : Nat) : F) := by
    have := L19.level_le_complete rows i
    exact_mod_cast (by omega : 0 < (complete rows).length)
  have hl : (frechet rows i).1 = -(b + yo) / n := by
    simp only [frechet]
    rw [L19.fr_lower_closed _ _ _ _ hab.ne' hn.ne']
    congr 1; ring
  refine ⟨hl, ?_⟩
  rw [hl, neg_div] at hw; linarith

/-! ### validity and sharpness -/

/-- **validity**: whatever the unobserved potential outcomes are, the sample causal risk difference of
    a full data set consistent with the observed rows lies between the reported bounds -/
theorem bounds_valid (rows : List (MRow F)) (i : Nat) (po : List PO)
    (hc : IsCompletion po (observed rows i))
    (hpos : 0 < cntED rows i true + cntED rows i false) :
    (frechet rows i).1 ≤ causalRD (F := F) po ∧ causalRD (F := F) po ≤ (frechet rows i).2 := by
  obtain ⟨ra, rb, ryo, rn⟩ := counts_of_rows rows i
  obtain ⟨c1, c0, cu, cv⟩ := counts_of_completion po
  rw [hc] at c1 c0 cu cv
  have hlen : po.length = (complete rows).length := by
    rw [rn, ← hc, List.length_map]
  rw [← ra, ← rb] at cu cv
  rw [← ra] at c1
  rw [← ryo] at c0
  simp only [frechet, causalRD, c1, c0, hlen, Nat.cast_add]
  rw [hlen] at cu
  have hab : (0 : F) < ((cntED rows i true : Nat) : F) + ((cntED rows i false : Nat) : F) := by
    exact_mod_cast hpos
  have hu : ((cnt (fun p => !p.a && p.y1) po : Nat) : F) +
      (((cntED rows i true : Nat) : F) + ((cntED rows i false : Nat) : F)) ≤ (((complete rows).length : Nat) : F) := by
    exact_mod_cast cu
  have hv : ((cnt (fun p => p.a && p.y0) po : Nat) : F) ≤
      ((cntED rows i true : Nat) : F) + ((cntED rows i false : Nat) : F) := by
    exact_mod_cast cv
  have hn : (0 : F) < (((complete rows).length : Nat) : F) := by
    have : (0 : F) ≤ ((cnt (fun p => !p.a && p.y1) po : Nat) : F) := Nat.cast_nonneg _
    linarith
  exact L19.bounds_core _ _ _ _ _ _ hab hn (Nat.cast_nonneg _) hu (Nat.cast_nonneg _) hv

/-- **sharpness**: each end of the reported interval is the causal risk difference of an explicit full
    data set consistent with the observed rows (lower: every exposed unit would also have had the event
    unexposed and no unexposed unit would have had it exposed; upper: the reverse) -/
theorem bounds_sharp (rows : List (MRow F)) (i : Nat)
    (hpos : 0 < cntED rows i true + cntED rows i false) :
    (∃ po, IsCompletion po (observed rows i) ∧ causalRD (F := F) po = (frechet rows i).1) ∧
    (∃ po, IsCompletion po (observed rows i) ∧ causalRD (F := F) po = (frechet rows i).2) := by
  obtain ⟨ra, rb, ryo, rn⟩ := counts_of_rows rows i
  obtain ⟨f1, f2, f3, f4⟩ := L19.compl_free (observed rows i)
  have hab : (0 : F) < ((cntED rows i true : Nat) : F) + ((cntED rows i false : Nat) : F) := by
    exact_mod_cast hpos
  have hnpos : 0 < (complete rows).length := by
    rw [rn]; rw [ra, rb] at hpos; omega
  have hn : (0 : F) < (((complete rows).length : Nat) : F) := by exact_mod_cast hnpos
  constructor
  · refine ⟨complLower (observed rows i), L19.complLower_isCompletion _, ?_⟩
    obtain ⟨c1, c0, -, -⟩ := counts_of_completion (complLower (observed rows i))
    rw [L19.complLower_isCompletion] at c1 c0
    have hlen : (complLower (observed rows i)).length = (complete rows).length := by
      rw [rn]; simp [complLower]
    rw [f1] at c1; rw [f2] at c0
    rw [← ra] at c1; rw [← ryo, ← ra, ← rb] at c0
    simp only [frechet, causalRD, c1, c0, hlen, Nat.cast_add, add_zero]
    rw [L19.fr_lower_closed _ _ _ _ hab.ne' hn.ne']
    field_simp; ring
  · refine ⟨complUpper (observed rows i), L19.complUpper_isCompletion _, ?_⟩
    obtain ⟨c1, c0, -, -⟩ := counts_of_completion (complUpper (observed rows i))
    rw [L19.complUpper_isCompletion] at c1 c0
    have hlen : (complUpper (observed rows i)).length = (complete rows).length := by
      rw [rn]; simp [complUpper]
    rw [f4] at c0
    rw [← ra] at c1; rw [← ryo] at c0
    rw [← ra, ← rb, ← rn] at f3
    have f3' : ((cnt (fun p => !p.a && p.y1) (complUpper (observed rows i)) : Nat) : F) =
        (((complete rows).length : Nat) : F) - (((cntED rows i true : Nat) : F) + ((cntED rows i false : Nat) : F)) := by
      rw [← f3]; push_cast; ring
    simp only [frechet, causalRD, c1, c0, hlen, Nat.cast_add, add_zero, f3']
    rw [L19.fr_upper_closed _ _ _ _ hab.ne' hn.ne']
    field_simp

/-! ### binary exposure: the pooled comparison group is the reference group -/

/-- a row set has a binary exposure {i, ref} when every row with both values observed is at one of the two -/
def Binary (rows : List (MRow F)) (i ref : Nat) : Prop :=
  i ≠ ref ∧ ∀ r ∈ complete rows, r.e = some i ∨ r.e = some ref

/-- binary exposure ⇒ `y_other` is the number of events in the reference group and `n = a+b+c+d` -/
theorem binary_counts (rows : List (MRow F)) (i ref : Nat) (hb : Binary rows i ref) :
    (rows.filter fun r => r.e.isSome && r.e != some i && r.d == some true).length = cntED rows ref true ∧
    (complete rows).length = cntED rows i true + cntED rows i false + cntED rows ref true + cntED rows ref false := by
  obtain ⟨hne, hb⟩ := hb
  rw [P07.crosstab_filter rows i true, P07.crosstab_filter rows i false, P07.crosstab_filter rows ref true,
    P07.crosstab_filter rows ref false]
  have e1 : (rows.filter fun r => r.e.isSome && r.e != some i && r.d == some true).length =
      ((complete rows).filter fun r => r.e.isSome && r.e != some i && r.d == some true).length := by
    unfold complete; rw [List.filter_filter]; congr 1; apply List.filter_congr
    intro r _; cases r.e <;> cases r.d <;> simp
  rw [e1]
  have hc : ∀ r ∈ complete rows, r.d.isSome := by
    intro r hr; unfold complete at hr; simp only [List.mem_filter, Bool.and_eq_true] at hr; exact hr.2.2
  generalize complete rows = l at hb hc
  unfold cntED
  induction l with
  | nil => simp
  | cons r rs ih =>
    have ih' := ih (fun x hx => hb x (List.mem_cons_of_mem _ hx)) (fun x hx => hc x (List.mem_cons_of_mem _ hx))
    have h1 := hb r List.mem_cons_self
    have h2 := hc r List.mem_cons_self
    obtain ⟨e, d, t⟩ := r
    obtain ⟨ih1, ih2⟩ := ih'
    rcases d with _ | d
    · simp at h2
    · have hne' : ref ≠ i := fun h => hne h.symm
      rcases h1 with h1 | h1 <;> simp only at h1 <;> subst h1 <;> cases d <;>
        simp [hne, hne'] <;> omega

/-- **contains the risk difference** (counts form): for a binary exposure with both groups non-empty the
    crude risk difference a/(a+b) − c/(c+d) lies between the reported bounds -/
theorem contains_rd (rows : List (MRow F)) (i ref : Nat) (hb : Binary rows i ref)
    (hi : 0 < cntED rows i true + cntED rows i false) (hr : 0 < cntED rows ref true + cntED rows ref false) :
    let a : F := (cntED rows i true : Nat); let b : F := (cntED rows i false : Nat)
    let c : F := (cntED rows ref true : Nat); let d : F := (cntED rows ref false : Nat)
    (frechet rows i).1 ≤ a / (a + b) - c / (c + d) ∧ a / (a + b) - c / (c + d) ≤ (frechet rows i).2 := by
  intro a b c d
  obtain ⟨hyo, hn⟩ := binary_counts rows i ref hb
  have hab : (0 : F) < a + b := by simp only [a, b]; exact_mod_cast hi
  have hcd : (0 : F) < c + d := by simp only [c, d]; exact_mod_cast hr
  simp only [frechet, hyo, hn, Nat.cast_add]
  exact L19.contains_core a b c d (Nat.cast_nonneg _) (Nat.cast_nonneg _) (Nat.cast_nonneg _) (Nat.cast_nonneg _) hab hcd

/-- **contains the reported risk difference**: whenever `RiskDifference.fit` succeeds on a binary exposure,
    the `RiskDifference` it reports for the non-reference level lies between `LowerBound` and `UpperBound` -/
theorem contains_reported_rd (ppf : F → F) (infv α : F) (rows : List (MRow F)) (ref : Nat)
    (out : List (Nat × Results F))
    (h : fitCounts (fun a b c d => risk_difference ppf infv a b c d α) rows ref = .ok out)
    (p : Nat × Results F) (hp : p ∈ out) (hb : Binary rows p.1 ref) :
    (frechet rows p.1).1 ≤ p.2.point ∧ p.2.point ≤ (frechet rows p.1).2 := by
  obtain ⟨-, h2⟩ := P07.frame_eq_counts _ rows ref out h
  have hcall := h2 p hp
  simp only [← P07.crosstab_filter] at hcall
  have hnot : ¬ (((cntED rows p.1 true : Nat) : F) ≤ 0 ∨ ((cntED rows p.1 false : Nat) : F) ≤ 0 ∨
      ((cntED rows ref true : Nat) : F) ≤ 0 ∨ ((cntED rows ref false : Nat) : F) ≤ 0) := by
    rw [← P07.rd_reject_iff ppf infv _ _ _ _ α]
    rintro ⟨e, he⟩; rw [he] at hcall; cases hcall
  simp only [not_or, not_le] at hnot
  obtain ⟨pa, pb, pc, pd⟩ := hnot
  obtain ⟨hpt, -⟩ := P07.rd_def ppf infv _ _ _ _ α pa pb pc pd p.2 hcall
  rw [hpt]
  have hi : 0 < cntED rows p.1 true + cntED rows p.1 false := by
    have : 0 < cntED rows p.1 true := by exact_mod_cast pa
    omega
  have hr : 0 < cntED rows ref true + cntED rows ref false := by
    have : 0 < cntED rows ref true := by exact_mod_cast pc
    omega
  exact contains_rd rows p.1 ref hb hi hr

/-! ### the coding of the exposure levels is immaterial -/

/-- recode the exposure levels of a frame (what the caller does when the two arms are stored as −1/+1, 1/2, 0.5/1.5 …;
    in the model a level is a label and only ever compared for equality) -/
def recode (φ : Nat → Nat) (rows : List (MRow F)) : List (MRow F) :=
  rows.map fun r => { r with e := r.e.map φ }

/-- **the bounds do not depend on how the levels are coded**: under an injective recoding `φ` of the level labels the
    four counts `a, b, y_other, n` of level `φ i` in the recoded frame are those of level `i` in the original, hence so
    is the reported interval.  (This is what lets the correspondence check present frames whose codes are negative or
    fractional to the model with the codes numbered 0, 1, 2, …; with `φ = (1 − ·)` on {0,1} it is the 0/1 ↔ 1/0 mirror.) -/
theorem frechet_relabel (φ : Nat → Nat) (hφ : Function.Injective φ) (rows : List (MRow F)) (i : Nat) :
    cntED (recode φ rows) (φ i) true = cntED rows i true ∧
    cntED (recode φ rows) (φ i) false = cntED rows i false ∧
    ((recode φ rows).filter fun r => r.e.isSome && r.e != some (φ i) && r.d == some true).length =
      (rows.filter fun r => r.e.isSome && r.e != some i && r.d == some true).length ∧
    (complete (recode φ rows)).length = (complete rows).length ∧
    frechet (recode φ rows) (φ i) = frechet rows i := by
  have he : ∀ r : MRow F, (r.e.map φ == some (φ i)) = (r.e == some i) := by
    intro r
    cases h : r.e with
    | none => simp
    | some u =>
      by_cases hu : u = i
      · simp [hu]
      · have : φ u ≠ φ i := fun e => hu (hφ e)
        simp [hu, this]
  have hc : ∀ dv, cntED (recode φ rows) (φ i) dv = cntED rows i dv := by
    intro dv; unfold cntED recode
    rw [List.filter_map, List.length_map]
    congr 1; apply List.filter_congr; intro r _
    simp only [Function.comp, he]
  have hn : (complete (recode φ rows)).length = (complete rows).length := by
    unfold complete recode
    rw [List.filter_map, List.length_map]
    congr 1; apply List.filter_congr; intro r _
    simp [Function.comp]
  have hy : ((recode φ rows).filter fun r => r.e.isSome && r.e != some (φ i) && r.d == some true).length =
      (rows.filter fun r => r.e.isSome && r.e != some i && r.d == some true).length := by
    unfold recode
    rw [List.filter_map, List.length_map]
    congr 1; apply List.filter_congr; intro r _
    simp only [Function.comp, bne, he]
    simp
  refine ⟨hc true, hc false, hy, hn, ?_⟩
  simp only [frechet, hc, hn, hy]

/-! ### Non-vacuity and scope: concrete data -/
local instance : Transc ℚ := ⟨id, id, id⟩

/-- rows (e, d): a 2x2 table a=2, b=1, c=1, d=2 plus one row missing the outcome and one missing the exposure -/
def demoRows : List (MRow ℚ) :=
  [⟨some 1, some true, none⟩, ⟨some 1, some true, none⟩, ⟨some 1, some false, none⟩,
   ⟨some 0, some true, none⟩, ⟨some 0, some false, none⟩, ⟨some 0, some false, none⟩,
   ⟨some 1, none, none⟩, ⟨none, some true, none⟩]

example : frechet demoRows 1 = (-(1 / 3), 2 / 3) := by
  simp [frechet, demoRows, cntED, complete, fr_lower, fr_upper]; norm_num

example : Binary demoRows 1 0 := by
  refine ⟨by decide, ?_⟩
  intro r hr; simp [demoRows, complete] at hr; rcases hr with rfl | rfl | rfl | rfl | rfl | rfl <;> simp

example : 0 < cntED demoRows 1 true + cntED demoRows 1 false ∧
    0 < cntED demoRows 0 true + cntED demoRows 0 false := by decide

/-- the hypotheses of `bounds_valid` are met by a completion that is neither extreme -/
example : IsCompletion [⟨true, true, false⟩, ⟨true, true, true⟩, ⟨true, false, false⟩,
    ⟨false, true, true⟩, ⟨false, false, false⟩, ⟨false, true, false⟩] (observed demoRows 1) := by
  simp [IsCompletion, observed, demoRows, complete, PO.obs]

/-- Scope: with three exposure levels the reported interval is about "level 1 vs the other two pooled";
    it need not contain the risk difference against the reference level (here RD = 1 − 0 = 1 > upper = 1/2).
    The property is stated for a binary exposure; this input is outside it. -/
def demo3 : List (MRow ℚ) :=
  [⟨some 1, some true, none⟩, ⟨some 0, some false, none⟩, ⟨some 2, some true, none⟩, ⟨some 2, some true, none⟩]

example : (frechet demo3 1).2 = 1 / 2 := by
  simp [frechet, demo3, cntED, complete, fr_lower, fr_upper]; norm_num

/-- `frechet_relabel` on concrete data: the frame of `demoRows` with its levels 0 / 1 recoded as 7 / 4 (reference coded
    larger, as for codes −1 / −4 numbered by an order-reversing map) reports the same interval for level 4 -/
example : frechet (recode (fun u => 7 - 3 * u) demoRows) 4 = (-(1 / 3), 2 / 3) := by
  simp [recode, frechet, demoRows, cntED, complete, fr_lower, fr_upper]; norm_num

end ZV.P19
