/-
C07 — Effect measures from counts and from data frames match their definitions.

Subject: the *generated* definitions `ZV.Gen.*` (regenerated from zepid/calc/utils.py on every
run) and the hand model `ZV.Measures` of the data-frame classes of zepid/base.py.
All statements are for an arbitrary linearly ordered field `F` and an arbitrary `Transc F`
(no property of sqrt/log/exp is used, so the statements also hold literally of the executed
`Rat`/real instances).
-/
import ZepidVerif.Gen.Calc
import ZepidVerif.Model.Measures
import Mathlib.Algebra.Order.Field.Basic
import Mathlib.Tactic.FieldSimp
import Mathlib.Tactic.Ring
import Mathlib.Tactic.Linarith
import Mathlib.Tactic.Positivity
import Mathlib.Tactic.NormNum
import Mathlib.Algebra.Order.Field.Rat
set_option linter.unusedSectionVars false
set_option linter.unusedVariables false
namespace ZV.P07
open ZV.Gen

variable {F : Type} [Field F] [LinearOrder F] [IsStrictOrderedRing F] [Transc F]

/-! ### Textbook definitions (point estimate and Wald standard error) -/

theorem rr_def (ppf : F → F) (infv a b c d α : F) (ha : 0 < a) (hb : 0 < b) (hc : 0 < c) (hd : 0 < d)
    (r : Results F) (h : risk_ratio ppf infv a b c d α = .ok r) :
    r.point = (a / (a + b)) / (c / (c + d)) ∧
    r.se = Transc.sqrt (1 / a - 1 / (a + b) + 1 / c - 1 / (c + d)) := by
  have h1 := not_le.mpr ha; have h2 := not_le.mpr hb; have h3 := not_le.mpr hc; have h4 := not_le.mpr hd
  simp only [risk_ratio, Nat.cast_zero, Nat.cast_one, Nat.cast_ofNat, h1, h2, h3, h4, if_false,
    Except.ok.injEq] at h
  subst h; exact ⟨rfl, rfl⟩

theorem rd_def (ppf : F → F) (infv a b c d α : F) (ha : 0 < a) (hb : 0 < b) (hc : 0 < c) (hd : 0 < d)
    (r : Results F) (h : risk_difference ppf infv a b c d α = .ok r) :
    r.point = a / (a + b) - c / (c + d) ∧
    r.se = Transc.sqrt ((a / (a + b)) * (1 - a / (a + b)) / (a + b) + (c / (c + d)) * (1 - c / (c + d)) / (c + d)) := by
  have h1 := not_le.mpr ha; have h2 := not_le.mpr hb; have h3 := not_le.mpr hc; have h4 := not_le.mpr hd
  simp only [risk_difference, Nat.cast_zero, Nat.cast_one, Nat.cast_ofNat, h1, h2, h3, h4, if_false,
    Except.ok.injEq] at h
  subst h; exact ⟨rfl, rfl⟩

theorem or_def (ppf : F → F) (infv a b c d α : F) (ha : 0 < a) (hb : 0 < b) (hc : 0 < c) (hd : 0 < d)
    (r : Results F) (h : odds_ratio ppf infv a b c d α = .ok r) :
    r.point = (a / b) / (c / d) ∧ r.point = (a * d) / (b * c) ∧
    r.se = Transc.sqrt (1 / a + 1 / b + 1 / c + 1 / d) := by
  have h1 := not_le.mpr ha; have h2 := not_le.mpr hb; have h3 := not_le.mpr hc; have h4 := not_le.mpr hd
  simp only [odds_ratio, Nat.cast_zero, Nat.cast_one, Nat.cast_ofNat, h1, h2, h3, h4, if_false,
    Except.ok.injEq] at h
  subst h
  refine ⟨rfl, ?_, rfl⟩
  show a / b / (c / d) = a * d / (b * c)
  field_simp

/-- NNT is the reciprocal of the risk difference; `infv` (numpy's inf) is returned exactly when RD = 0 -/
theorem nnt_def (ppf : F → F) (infv a b c d α : F) (ha : 0 < a) (hb : 0 < b) (hc : 0 < c) (hd : 0 < d)
    (r : Results F) (h : number_needed_to_treat ppf infv a b c d α = .ok r) :
    (a / (a + b) - c / (c + d) ≠ 0 → r.point = 1 / (a / (a + b) - c / (c + d))) ∧
    (a / (a + b) - c / (c + d) = 0 → r.point = infv) := by
  have h1 := not_le.mpr ha; have h2 := not_le.mpr hb; have h3 := not_le.mpr hc; have h4 := not_le.mpr hd
  simp only [number_needed_to_treat, Nat.cast_zero, Nat.cast_one, Nat.cast_ofNat, h1, h2, h3, h4, if_false] at h
  constructor
  -- either spelling of the test (`!= 0` with the reciprocal first, or `== 0` with `inf` first) is accepted
  · intro hne
    simp only [hne, ne_eq, not_false_eq_true, not_true_eq_false, if_true, if_false] at h
    split_ifs at h <;> (simp only [Except.ok.injEq] at h; subst h; rfl)
  · intro he
    simp only [he, ne_eq, not_false_eq_true, not_true_eq_false, if_true, if_false] at h
    split_ifs at h <;> (simp only [Except.ok.injEq] at h; subst h; rfl)

/-- the NNT limits are the reciprocals of the risk-difference limits (documented reciprocal scale) -/
theorem nnt_limits (ppf : F → F) (infv a b c d α : F) (ha : 0 < a) (hb : 0 < b) (hc : 0 < c) (hd : 0 < d)
    (r r' : Results F) (h : number_needed_to_treat ppf infv a b c d α = .ok r)
    (h' : risk_difference ppf infv a b c d α = .ok r') :
    (r'.lower ≠ 0 → r.lower = 1 / r'.lower) ∧ (r'.upper ≠ 0 → r.upper = 1 / r'.upper) ∧ r.se = r'.se := by
  have h1 := not_le.mpr ha; have h2 := not_le.mpr hb; have h3 := not_le.mpr hc; have h4 := not_le.mpr hd
  simp only [risk_difference, Nat.cast_zero, Nat.cast_one, Nat.cast_ofNat, h1, h2, h3, h4, if_false,
    Except.ok.injEq] at h'
  subst h'
  simp only [number_needed_to_treat, Nat.cast_zero, Nat.cast_one, Nat.cast_ofNat, h1, h2, h3, h4, if_false] at h
  refine ⟨?_, ?_, ?_⟩
  · intro hne
    simp only [hne, ne_eq, not_false_eq_true, not_true_eq_false, if_true, if_false] at h
    split_ifs at h <;> (simp only [Except.ok.injEq] at h; subst h) <;> rfl
  · intro hne
    simp only [hne, ne_eq, not_false_eq_true, not_true_eq_false, if_true, if_false] at h
    split_ifs at h <;> (simp only [Except.ok.injEq] at h; subst h) <;> rfl
  · split_ifs at h <;> (simp only [Except.ok.injEq] at h; subst h; rfl)

theorem irr_def (ppf : F → F) (infv a c t1 t2 α : F) (ha : 0 < a) (hc : 0 < c) (h1 : 0 < t1) (h2 : 0 < t2)
    (r : Results F) (h : incidence_rate_ratio ppf infv a c t1 t2 α = .ok r) :
    r.point = (a / t1) / (c / t2) ∧ r.se = Transc.sqrt (1 / a + 1 / c) := by
  have g1 := not_le.mpr ha; have g2 := not_le.mpr hc; have g3 := not_lt.mpr h1.le; have g4 := not_lt.mpr h2.le
  simp only [incidence_rate_ratio, Nat.cast_zero, Nat.cast_one, Nat.cast_ofNat, g1, g2, g3, g4, if_false,
    Except.ok.injEq] at h
  subst h; exact ⟨rfl, rfl⟩

theorem ird_def (ppf : F → F) (infv a c t1 t2 α : F) (ha : 0 < a) (hc : 0 < c) (h1 : 0 < t1) (h2 : 0 < t2)
    (r : Results F) (h : incidence_rate_difference ppf infv a c t1 t2 α = .ok r) :
    r.point = a / t1 - c / t2 ∧ r.se = Transc.sqrt (a / (t1 * t1) + c / (t2 * t2)) := by
  have g1 := not_le.mpr ha; have g2 := not_le.mpr hc; have g3 := not_lt.mpr h1.le; have g4 := not_lt.mpr h2.le
  simp only [incidence_rate_difference, Nat.cast_zero, Nat.cast_one, Nat.cast_ofNat, g1, g2, g3, g4, if_false,
    Except.ok.injEq] at h
  subst h; exact ⟨rfl, rfl⟩

theorem acr_def (ppf : F → F) (infv a b c d : F) (ha : 0 < a) (hb : 0 < b) (hc : 0 < c) (hd : 0 < d) :
    attributable_community_risk ppf infv a b c d = .ok ((a + c) / (a + b + c + d) - c / (c + d)) := by
  have h1 := not_le.mpr ha; have h2 := not_le.mpr hb; have h3 := not_le.mpr hc; have h4 := not_le.mpr hd
  simp only [attributable_community_risk, Nat.cast_zero, h1, h2, h3, h4, if_false]

theorem paf_def (ppf : F → F) (infv a b c d : F) (ha : 0 < a) (hb : 0 < b) (hc : 0 < c) (hd : 0 < d) :
    population_attributable_fraction ppf infv a b c d =
      .ok (((a + c) / (a + b + c + d) - c / (c + d)) / ((a + c) / (a + b + c + d))) := by
  have h1 := not_le.mpr ha; have h2 := not_le.mpr hb; have h3 := not_le.mpr hc; have h4 := not_le.mpr hd
  simp only [population_attributable_fraction, Nat.cast_zero, h1, h2, h3, h4, if_false]

/-! ### Rejection: an error is returned iff some count is zero or negative -/

theorem rr_reject_iff (ppf : F → F) (infv a b c d α : F) :
    (∃ e, risk_ratio ppf infv a b c d α = .error e) ↔ (a ≤ 0 ∨ b ≤ 0 ∨ c ≤ 0 ∨ d ≤ 0) := by
  simp only [risk_ratio, Nat.cast_zero]; split_ifs <;> simp_all

theorem rd_reject_iff (ppf : F → F) (infv a b c d α : F) :
    (∃ e, risk_difference ppf infv a b c d α = .error e) ↔ (a ≤ 0 ∨ b ≤ 0 ∨ c ≤ 0 ∨ d ≤ 0) := by
  simp only [risk_difference, Nat.cast_zero]; split_ifs <;> simp_all

theorem or_reject_iff (ppf : F → F) (infv a b c d α : F) :
    (∃ e, odds_ratio ppf infv a b c d α = .error e) ↔ (a ≤ 0 ∨ b ≤ 0 ∨ c ≤ 0 ∨ d ≤ 0) := by
  simp only [odds_ratio, Nat.cast_zero]; split_ifs <;> simp_all

theorem nnt_reject_iff (ppf : F → F) (infv a b c d α : F) :
    (∃ e, number_needed_to_treat ppf infv a b c d α = .error e) ↔ (a ≤ 0 ∨ b ≤ 0 ∨ c ≤ 0 ∨ d ≤ 0) := by
  simp only [number_needed_to_treat, Nat.cast_zero]; split_ifs <;> simp_all

theorem acr_reject_iff (ppf : F → F) (infv a b c d : F) :
    (∃ e, attributable_community_risk ppf infv a b c d = .error e) ↔ (a ≤ 0 ∨ b ≤ 0 ∨ c ≤ 0 ∨ d ≤ 0) := by
  simp only [attributable_community_risk, Nat.cast_zero]; split_ifs <;> simp_all

theorem paf_reject_iff (ppf : F → F) (infv a b c d : F) :
    (∃ e, population_attributable_fraction ppf infv a b c d = .error e) ↔ (a ≤ 0 ∨ b ≤ 0 ∨ c ≤ 0 ∨ d ≤ 0) := by
  simp only [population_attributable_fraction, Nat.cast_zero]; split_ifs <;> simp_all

/-- rate measures: events must be positive, person-time non-negative -/
theorem irr_reject_iff (ppf : F → F) (infv a c t1 t2 α : F) :
    (∃ e, incidence_rate_ratio ppf infv a c t1 t2 α = .error e) ↔ (a ≤ 0 ∨ c ≤ 0 ∨ t2 < 0 ∨ t1 < 0) := by
  simp only [incidence_rate_ratio, Nat.cast_zero]; split_ifs <;> simp_all

theorem ird_reject_iff (ppf : F → F) (infv a c t1 t2 α : F) :
    (∃ e, incidence_rate_difference ppf infv a c t1 t2 α = .error e) ↔ (a ≤ 0 ∨ c ≤ 0 ∨ t2 < 0 ∨ t1 < 0) := by
  simp only [incidence_rate_difference, Nat.cast_zero]; split_ifs <;> simp_all

/-! ### Swapping the exposure groups, transposing the table -/

theorem rr_swap (ppf : F → F) (infv a b c d α : F) (ha : 0 < a) (hb : 0 < b) (hc : 0 < c) (hd : 0 < d)
    (r r' : Results F) (h : risk_ratio ppf infv a b c d α = .ok r) (h' : risk_ratio ppf infv c d a b α = .ok r') :
    r'.point = 1 / r.point ∧ r'.se = r.se := by
  have h1 := not_le.mpr ha; have h2 := not_le.mpr hb; have h3 := not_le.mpr hc; have h4 := not_le.mpr hd
  simp only [risk_ratio, Nat.cast_zero, Nat.cast_one, Nat.cast_ofNat, h1, h2, h3, h4, if_false,
    Except.ok.injEq] at h h'
  subst h; subst h'
  refine ⟨?_, ?_⟩
  · show c / (c + d) / (a / (a + b)) = 1 / (a / (a + b) / (c / (c + d)))
    have : a + b ≠ 0 := by positivity
    have : c + d ≠ 0 := by positivity
    field_simp
  · show Transc.sqrt _ = Transc.sqrt _
    congr 1; ring

theorem rd_swap (ppf : F → F) (infv a b c d α : F) (ha : 0 < a) (hb : 0 < b) (hc : 0 < c) (hd : 0 < d)
    (r r' : Results F) (h : risk_difference ppf infv a b c d α = .ok r)
    (h' : risk_difference ppf infv c d a b α = .ok r') :
    r'.point = - r.point ∧ r'.se = r.se := by
  have h1 := not_le.mpr ha; have h2 := not_le.mpr hb; have h3 := not_le.mpr hc; have h4 := not_le.mpr hd
  simp only [risk_difference, Nat.cast_zero, Nat.cast_one, Nat.cast_ofNat, h1, h2, h3, h4, if_false,
    Except.ok.injEq] at h h'
  subst h; subst h'
  refine ⟨?_, ?_⟩
  · show c / (c + d) - a / (a + b) = -(a / (a + b) - c / (c + d)); ring
  · show Transc.sqrt _ = Transc.sqrt _
    congr 1; ring

theorem or_swap (ppf : F → F) (infv a b c d α : F) (ha : 0 < a) (hb : 0 < b) (hc : 0 < c) (hd : 0 < d)
    (r r' : Results F) (h : odds_ratio ppf infv a b c d α = .ok r) (h' : odds_ratio ppf infv c d a b α = .ok r') :
    r'.point = 1 / r.point ∧ r'.se = r.se := by
  have h1 := not_le.mpr ha; have h2 := not_le.mpr hb; have h3 := not_le.mpr hc; have h4 := not_le.mpr hd
  simp only [odds_ratio, Nat.cast_zero, Nat.cast_one, Nat.cast_ofNat, h1, h2, h3, h4, if_false,
    Except.ok.injEq] at h h'
  subst h; subst h'
  refine ⟨?_, ?_⟩
  · show c / d / (a / b) = 1 / (a / b / (c / d))
    field_simp
  · show Transc.sqrt _ = Transc.sqrt _
    congr 1; ring

/-- transposing the 2x2 table (exchange b and c) leaves the odds ratio and its standard error unchanged -/
theorem or_transpose (ppf : F → F) (infv a b c d α : F) (ha : 0 < a) (hb : 0 < b) (hc : 0 < c) (hd : 0 < d)
    (r r' : Results F) (h : odds_ratio ppf infv a b c d α = .ok r) (h' : odds_ratio ppf infv a c b d α = .ok r') :
    r'.point = r.point ∧ r'.se = r.se := by
  have h1 := not_le.mpr ha; have h2 := not_le.mpr hb; have h3 := not_le.mpr hc; have h4 := not_le.mpr hd
  simp only [odds_ratio, Nat.cast_zero, Nat.cast_one, Nat.cast_ofNat, h1, h2, h3, h4, if_false,
    Except.ok.injEq] at h h'
  subst h; subst h'
  refine ⟨?_, ?_⟩
  · show a / c / (b / d) = a / b / (c / d)
    field_simp
  · show Transc.sqrt _ = Transc.sqrt _
    congr 1; ring

theorem irr_swap (ppf : F → F) (infv a c t1 t2 α : F) (ha : 0 < a) (hc : 0 < c) (h1 : 0 < t1) (h2 : 0 < t2)
    (r r' : Results F) (h : incidence_rate_ratio ppf infv a c t1 t2 α = .ok r)
    (h' : incidence_rate_ratio ppf infv c a t2 t1 α = .ok r') :
    r'.point = 1 / r.point ∧ r'.se = r.se := by
  have g1 := not_le.mpr ha; have g2 := not_le.mpr hc; have g3 := not_lt.mpr h1.le; have g4 := not_lt.mpr h2.le
  simp only [incidence_rate_ratio, Nat.cast_zero, Nat.cast_one, Nat.cast_ofNat, g1, g2, g3, g4, if_false,
    Except.ok.injEq] at h h'
  subst h; subst h'
  refine ⟨?_, ?_⟩
  · show c / t2 / (a / t1) = 1 / (a / t1 / (c / t2))
    field_simp
  · show Transc.sqrt _ = Transc.sqrt _
    congr 1; ring

theorem ird_swap (ppf : F → F) (infv a c t1 t2 α : F) (ha : 0 < a) (hc : 0 < c) (h1 : 0 < t1) (h2 : 0 < t2)
    (r r' : Results F) (h : incidence_rate_difference ppf infv a c t1 t2 α = .ok r)
    (h' : incidence_rate_difference ppf infv c a t2 t1 α = .ok r') :
    r'.point = - r.point ∧ r'.se = r.se := by
  have g1 := not_le.mpr ha; have g2 := not_le.mpr hc; have g3 := not_lt.mpr h1.le; have g4 := not_lt.mpr h2.le
  simp only [incidence_rate_difference, Nat.cast_zero, Nat.cast_one, Nat.cast_ofNat, g1, g2, g3, g4, if_false,
    Except.ok.injEq] at h h'
  subst h; subst h'
  refine ⟨?_, ?_⟩
  · show c / t2 - a / t1 = -(a / t1 - c / t2); ring
  · show Transc.sqrt _ = Transc.sqrt _
    congr 1; ring

/-! ### Data-frame classes -/
open ZV.Measures

/-- counting with the boolean masks (NaN compares false) = counting on the rows with exposure and
    outcome observed -/
theorem crosstab_filter (rows : List (MRow F)) (lvl : Nat) (dv : Bool) :
    cntED rows lvl dv = cntED (complete rows) lvl dv := by
  unfold cntED complete
  rw [List.filter_filter]
  congr 1
  apply List.filter_congr
  intro r _
  cases r.e <;> cases r.d <;> simp

/-- every row is complete or counted in exactly one of the three missing-data counters -/
theorem missing_counts (rows : List (MRow F)) :
    missingED rows + missingE rows + missingD rows + (complete rows).length = rows.length := by
  have hE : ∀ rs : List (MRow F), (List.filter (fun r : MRow F => r.e.isNone && r.d.isNone) rs).length
      ≤ (List.filter (fun r : MRow F => r.e.isNone) rs).length := by
    intro rs
    apply List.Sublist.length_le
    apply List.monotone_filter_right
    intro x; cases x.e <;> simp
  have hD : ∀ rs : List (MRow F), (List.filter (fun r : MRow F => r.e.isNone && r.d.isNone) rs).length
      ≤ (List.filter (fun r : MRow F => r.d.isNone) rs).length := by
    intro rs
    apply List.Sublist.length_le
    apply List.monotone_filter_right
    intro x; cases x.e <;> cases x.d <;> simp
  simp only [missingED, missingE, missingD, complete]
  induction rows with
  | nil => simp
  | cons r rs ih =>
    have h1 := hE rs; have h2 := hD rs
    cases he : r.e <;> cases hd : r.d <;> simp [he, hd] <;> omega

theorem mapLevels_spec (f : Nat → Except Err (Results F)) (l : List Nat) (out : List (Nat × Results F))
    (h : mapLevels f l = .ok out) : out.map (·.1) = l ∧ ∀ p ∈ out, f p.1 = .ok p.2 := by
  induction l generalizing out with
  | nil => simp only [mapLevels, Except.ok.injEq] at h; subst h; simp
  | cons i is ih =>
    simp only [mapLevels] at h
    split at h
    · cases h
    · rename_i r hr
      split at h
      · cases h
      · rename_i rest hrest
        simp only [Except.ok.injEq] at h; subst h
        obtain ⟨h1, h2⟩ := ih rest hrest
        refine ⟨by simp [h1], ?_⟩
        intro p hp
        rcases List.mem_cons.mp hp with rfl | hp
        · exact hr
        · exact h2 p hp

/-- `fit` of RiskRatio/RiskDifference/NNT/OddsRatio: the reported levels are exactly the observed
    non-reference levels, and each result is exactly the count function applied to the cross-tabulation
    of the rows with exposure and outcome observed -/
theorem frame_eq_counts (cf : F → F → F → F → Except Err (Results F)) (rows : List (MRow F)) (ref : Nat)
    (out : List (Nat × Results F)) (h : fitCounts cf rows ref = .ok out) :
    out.map (·.1) = (levelSet rows).filter (· ≠ ref) ∧
    ∀ p ∈ out,
      cf ((cntED (complete rows) p.1 true : Nat) : F) ((cntED (complete rows) p.1 false : Nat) : F)
         ((cntED (complete rows) ref true : Nat) : F) ((cntED (complete rows) ref false : Nat) : F) = .ok p.2 := by
  unfold fitCounts otherLevels at h
  simp only at h
  split at h
  · cases h
  · rename_i lv hlv
    split_ifs at hlv with hc
    · simp only [Except.ok.injEq] at hlv; subst hlv
      obtain ⟨h1, h2⟩ := mapLevels_spec _ _ _ h
      refine ⟨h1, ?_⟩
      intro p hp
      rw [← crosstab_filter, ← crosstab_filter, ← crosstab_filter, ← crosstab_filter]
      exact h2 p hp

/-- person-time of the rate classes is summed over rows with exposure and outcome observed -/
theorem personTime_complete (rows : List (MRow F)) (lvl : Nat) :
    personTime rows lvl = personTime (complete rows) lvl := by
  unfold personTime complete
  rw [List.filter_filter]
  congr 1
  apply List.filter_congr
  intro r _
  cases r.e <;> cases r.d <;> simp

theorem rates_eq_counts (cf : F → F → F → F → Except Err (Results F)) (rows : List (MRow F)) (ref : Nat)
    (out : List (Nat × Results F)) (h : fitRates cf rows ref = .ok out) :
    out.map (·.1) = (levelSet rows).filter (· ≠ ref) ∧
    ∀ p ∈ out,
      cf ((cntED (complete rows) p.1 true : Nat) : F) ((cntED (complete rows) ref true : Nat) : F)
         (personTime (complete rows) p.1) (personTime (complete rows) ref) = .ok p.2 := by
  unfold fitRates otherLevels at h
  simp only at h
  split at h
  · cases h
  · rename_i lv hlv
    split_ifs at hlv with hc
    · simp only [Except.ok.injEq] at hlv; subst hlv
      obtain ⟨h1, h2⟩ := mapLevels_spec _ _ _ h
      refine ⟨h1, ?_⟩
      intro p hp
      rw [← crosstab_filter, ← crosstab_filter, ← personTime_complete, ← personTime_complete]
      exact h2 p hp


/-! ### Round 4: rows with a recorded person-time of exactly zero; non-integer counts; the reference level -/

/-- the event count of a level never reads the person-time column: whatever is recorded as a row's time (0, NaN,
    anything) the row is counted iff its exposure and outcome say so.  In particular a subject whose follow-up is
    exactly 0 and who had the event is an event of its exposure group. -/
theorem events_indep_time (rows : List (MRow F)) (g : MRow F → Option F) (lvl : Nat) (dv : Bool) :
    cntED (rows.map fun r => { r with t := g r }) lvl dv = cntED rows lvl dv := by
  unfold cntED
  rw [List.filter_map, List.length_map]
  rfl

theorem sumBy_filter_and_zero {α : Type} (f : α → F) (p q : α → Bool) (l : List α)
    (h : ∀ x, p x = true → q x = false → f x = 0) :
    sumBy f (l.filter fun x => p x && q x) = sumBy f (l.filter p) := by
  induction l with
  | nil => rfl
  | cons x xs ih =>
    rw [List.filter_cons, List.filter_cons]
    cases hp : p x <;> cases hq : q x
    · simpa using ih
    · simpa using ih
    · simp only [Bool.and_false, Bool.false_eq_true, if_false, if_true, sumBy, ih, h x hp hq, zero_add]
    · simp only [Bool.and_true, if_true, sumBy, ih]

/-- ... and such a row adds nothing to the person-time of its group: deleting the rows with a recorded time of 0
    leaves every group's person-time as it is (while, by `events_indep_time`, the events stay where they are: the
    deletion is NOT an equivalent way of preparing the frame) -/
theorem personTime_zero_rows (rows : List (MRow F)) (lvl : Nat) :
    personTime (rows.filter fun r => decide (r.t ≠ some 0)) lvl = personTime rows lvl := by
  unfold personTime
  rw [List.filter_filter]
  refine sumBy_filter_and_zero (F := F) _ (fun r => r.e == some lvl && r.d.isSome) (fun r => decide (r.t ≠ some 0)) rows ?_
  intro r _ hq
  have : r.t = some 0 := by simpa using hq
  simp [this]

/-- the comparison is made against the level that was asked for and no other: `fit` succeeds only when the reference
    is an observed level, and a level `i` is reported iff it is observed and differs from the reference -/
theorem reference_is_a_level (cf : F → F → F → F → Except Err (Results F)) (rows : List (MRow F)) (ref : Nat)
    (out : List (Nat × Results F)) (h : fitCounts cf rows ref = .ok out) :
    ref ∈ levelSet rows ∧ ∀ i, i ∈ out.map (·.1) ↔ (i ∈ levelSet rows ∧ i ≠ ref) := by
  have h1 := (frame_eq_counts cf rows ref out h).1
  unfold fitCounts otherLevels at h
  simp only at h
  split at h
  · cases h
  · rename_i lv hlv
    split_ifs at hlv with hc
    · refine ⟨by simpa using hc, ?_⟩
      intro i; rw [h1]; simp [List.mem_filter]


/-! ### Non-vacuity: the hypotheses are met by concrete tables -/
/-- a throw-away `Transc ℚ` used only to instantiate the examples below -/
local instance : Transc ℚ := ⟨id, id, id⟩

example : ∃ r, risk_ratio (F := ℚ) id 0 45 55 21 79 (1/20) = .ok r ∧ r.point = (45/100)/(21/100) := by
  simp only [risk_ratio]; norm_num

example : (∃ e, risk_ratio (F := ℚ) id 0 0 55 21 79 (1/20) = .error e) := by
  rw [rr_reject_iff]; norm_num

/-- non-integer counts (a continuity-corrected table: every cell + 1/2) are within every `*_def` theorem -/
example : ∃ r, odds_ratio (F := ℚ) id 0 (25/2) (15/2) (7/2) (41/2) (1/20) = .ok r ∧
    r.point = ((25/2) * (41/2)) / ((15/2) * (7/2)) := by
  simp only [odds_ratio]; norm_num

/-- a subject with follow-up 0 who had the event: one event, no person-time -/
example : cntED [(⟨some 1, some true, some 0⟩ : MRow ℚ), ⟨some 1, some false, some 3⟩] 1 true = 1 ∧
    personTime [(⟨some 1, some true, some 0⟩ : MRow ℚ), ⟨some 1, some false, some 3⟩] 1 = 3 := by
  refine ⟨by decide, ?_⟩
  simp [personTime, sumBy]

end ZV.P07
