/-
C14 — Stochastic and conditional treatment plans mean what they say.

Subject: `ZV.Stoch.overwrite` (the assignment loop of StochasticIPTW.fit / StochasticTMLE.fit),
`planNumer`, `stochWeight`, `stochIptw`, `haw` (clever covariate), `mcAssign` / `gfAssign` (Monte-Carlo
treatment assignment as a function of the captured draws), `mcMean`, `meanOf`, `mixture`, `planSize` of
`Model/Stochastic.lean`, and `ZV.Std.hajek ∘ iptwOmega`, `ZV.Std.gformula` of the shared core.  The same
definitions are executed by the native driver in the correspondence check.

Partial (labelled): the random number generator is outside the model — the simulating estimators are
functions of the captured draws, and the theorems hold for *every* draw; "within Monte Carlo error" is the
exact identity `mc_mixture_realised` / `mc_average_mixture` (estimate = mixture at the realised treated
fractions), the distance between realised and nominal fractions is measured and reported by the harness,
not proved.  For StochasticTMLE the fluctuation parameter is a parameter of the model: `tmle_eps_zero`
proves that ε = 0 solves the targeting score equation when both models are saturated; that statsmodels
returns that root is measured (|ε| ≤ 1e-6) by the harness.
-/
import ZepidVerif.Lemmas.Mixture
import ZepidVerif.Lemmas.IpwPop
import Mathlib.Algebra.Order.Field.Rat
import Mathlib.Tactic.NormNum
import Mathlib.Data.Rat.Floor
set_option linter.unusedSectionVars false
set_option linter.unusedVariables false
namespace ZV.P14
open ZV ZV.Std ZV.Stoch

variable {F : Type} [Field F] [LinearOrder F] [IsStrictOrderedRing F] [Transc F]

/-! ### Listing order is irrelevant -/

/-- **order-freeness of the plan probability** (StochasticIPTW numerator, StochasticTMLE clever
    covariate): conditions exclusive at the row ⇒ any permutation of the (condition, p) list gives the row the
    same numerator, weight and clever covariate -/
theorem numer_order_free (cs₁ cs₂ : List (Cond F)) (hp : cs₁.Perm cs₂) (r : Row F) (hx : Exclusive cs₁ r.i)
    (g : Row F → F) :
    planNumer (.cond cs₁) r = planNumer (.cond cs₂) r ∧
    stochWeight (.cond cs₁) g r = stochWeight (.cond cs₂) g r ∧
    haw (.cond cs₁) g r = haw (.cond cs₂) g r := by
  have h : planNumer (.cond cs₁) r = planNumer (.cond cs₂) r := by
    unfold planNumer
    exact overwrite_perm r.i (hp.map _) (exclAt_numerPairs r.a cs₁ r.i hx)
  exact ⟨h, by simp [stochWeight, h], by simp [haw, h]⟩

/-- the StochasticIPTW estimate does not depend on the listing order of exclusive conditions -/
theorem stoch_iptw_order_free (cs₁ cs₂ : List (Cond F)) (hp : cs₁.Perm cs₂) (l : List (Row F))
    (hx : ∀ r ∈ l, Exclusive cs₁ r.i) (g : Row F → F) :
    stochIptw (.cond cs₁) g l = stochIptw (.cond cs₂) g l := by
  have hn : ∀ r ∈ l, planNumer (.cond cs₁) r = planNumer (.cond cs₂) r :=
    fun r hr => (numer_order_free cs₁ cs₂ hp r (hx r hr) g).1
  have hw : ∀ r ∈ l, stochW (.cond cs₁) g r = stochW (.cond cs₂) g r := by
    intro r hr; simp [stochW, (numer_order_free cs₁ cs₂ hp r (hx r hr) g).2.1]
  unfold stochIptw
  have hall : l.all (fun r => (planNumer (.cond cs₁) r).isSome) = l.all (fun r => (planNumer (.cond cs₂) r).isSome) := by
    rw [Bool.eq_iff_iff, List.all_eq_true, List.all_eq_true]
    exact ⟨fun h r hr => by rw [← hn r hr]; exact h r hr, fun h r hr => by rw [hn r hr]; exact h r hr⟩
  rw [hall, sumBy_congr (fun r hr => by rw [hw r hr] : ∀ r ∈ l, r.y * stochW (.cond cs₁) g r = r.y * stochW (.cond cs₂) g r),
    sumBy_congr hw]

/-- Monte-Carlo assignment of StochasticTMLE as a function of the draws: permuting the (condition, draw
    vector) pairs of a resample leaves every row's assigned treatment unchanged -/
theorem mc_assign_order_free (cds₁ cds₂ : List ((Nat → Bool) × (Nat → Bool))) (hp : cds₁.Perm cds₂) (i : Nat)
    (hx : ExclAt cds₁ i) : mcAssign cds₁ i = mcAssign cds₂ i :=
  overwrite_perm i hp hx

/-- stochastic g-formula: the treated set is the union of the sets drawn within each condition, so its
    listing order is irrelevant -/
theorem gf_assign_order_free (ch₁ ch₂ : List (List Nat)) (hp : ch₁.Perm ch₂) (i : Nat) :
    gfAssign ch₁ i = gfAssign ch₂ i := by
  unfold gfAssign
  rw [Bool.eq_iff_iff, List.contains_iff_mem, List.contains_iff_mem]
  exact (hp.flatMap_right id).mem_iff

/-- **a conditional plan whose conditions all carry the same `p` is the unconditional plan `p`** (row by
    row: numerator, StochasticIPTW weight, StochasticTMLE clever covariate), for every row selected by one of
    the exclusive conditions; in particular a one-pair listing whose condition selects everybody -/
theorem cond_const_eq_uncond (cs : List (Cond F)) (p : F) (r : Row F) (g : Row F → F) (hx : Exclusive cs r.i)
    (hp : ∀ c ∈ cs, c.p = p) (c : Cond F) (hc : c ∈ cs) (hm : c.mask r.i = true) :
    planNumer (.cond cs) r = planNumer (.uncond p) r ∧
    stochWeight (.cond cs) g r = stochWeight (.uncond p) g r ∧
    haw (.cond cs) g r = haw (.uncond p) g r := by
  have h : planNumer (.cond cs) r = planNumer (.uncond p) r := by
    have := overwrite_of_mem (numerPairs r.a cs) r.i (exclAt_numerPairs r.a cs r.i hx)
      (c.mask, fun _ => recv r.a c.p) (List.mem_map.mpr ⟨c, hc, rfl⟩) hm
    simp only [planNumer, this, hp c hc]
  exact ⟨h, by simp [stochWeight, h], by simp [haw, h]⟩

/-- … hence the StochasticIPTW estimates coincide when the conditions are exhaustive -/
theorem stoch_iptw_const_eq_uncond (cs : List (Cond F)) (p : F) (l : List (Row F)) (g : Row F → F)
    (hx : ∀ r ∈ l, Exclusive cs r.i) (hp : ∀ c ∈ cs, c.p = p)
    (hcover : ∀ r ∈ l, ∃ c ∈ cs, c.mask r.i = true) :
    stochIptw (.cond cs) g l = stochIptw (.uncond p) g l := by
  have hn : ∀ r ∈ l, planNumer (.cond cs) r = planNumer (.uncond p) r := by
    intro r hr; obtain ⟨c, hc, hm⟩ := hcover r hr
    exact (cond_const_eq_uncond cs p r g (hx r hr) hp c hc hm).1
  have hw : ∀ r ∈ l, stochW (.cond cs) g r = stochW (.uncond p) g r := by
    intro r hr; obtain ⟨c, hc, hm⟩ := hcover r hr
    simp [stochW, (cond_const_eq_uncond cs p r g (hx r hr) hp c hc hm).2.1]
  unfold stochIptw
  have hall : l.all (fun r => (planNumer (.cond cs) r).isSome) = l.all (fun r => (planNumer (.uncond p) r).isSome) := by
    rw [Bool.eq_iff_iff, List.all_eq_true, List.all_eq_true]
    exact ⟨fun h r hr => by rw [← hn r hr]; exact h r hr, fun h r hr => by rw [hn r hr]; exact h r hr⟩
  rw [hall, sumBy_congr (fun r hr => by rw [hw r hr] : ∀ r ∈ l, r.y * stochW (.cond cs) g r = r.y * stochW (.uncond p) g r),
    sumBy_congr hw]

/-! ### Probabilities 0 and 1 reproduce the deterministic rules -/

/-- **StochasticIPTW, p ≡ 1 / p ≡ 0** (unconditionally or through any set of conditions): the estimate is
    the Hájek mean of the treated / untreated arm under unstabilized IPTW — what the IPTW marginal structural
    model `Y ~ A` returns for that arm -/
theorem p_one_zero (l : List (Row F)) (hobs : ∀ r ∈ l, r.obs = true) (g n : Row F → F) (pl : Plan F) :
    ((∀ r ∈ l, planNumer pl r = some (recv r.a 1)) →
      stochIptw pl g l = some (hajek l (iptwOmega false .pop n g (fun _ => 1)) true)) ∧
    ((∀ r ∈ l, planNumer pl r = some (recv r.a 0)) →
      stochIptw pl g l = some (hajek l (iptwOmega false .pop n g (fun _ => 1)) false)) ∧
    (∀ r, planNumer (.uncond (1 : F)) r = some (recv r.a 1)) ∧ (∀ r, planNumer (.uncond (0 : F)) r = some (recv r.a 0)) := by
  refine ⟨?_, ?_, fun r => rfl, fun r => rfl⟩
  · intro h
    have hall : l.all (fun r => (planNumer pl r).isSome) = true := by
      rw [List.all_eq_true]; intro r hr; rw [h r hr]; rfl
    unfold stochIptw hajek
    rw [if_pos hall, sumIf_def, sumIf_def]
    congr 2
    · apply sumBy_congr; intro r hr
      cases ha : r.a <;>
        simp [stochW, stochWeight, h r hr, recv, ha, hobs r hr, iptwOmega, Gen.iptw_weight, Tgt.str]
      ring
    · apply sumBy_congr; intro r hr
      cases ha : r.a <;>
        simp [stochW, stochWeight, h r hr, recv, ha, hobs r hr, iptwOmega, Gen.iptw_weight, Tgt.str]
  · intro h
    have hall : l.all (fun r => (planNumer pl r).isSome) = true := by
      rw [List.all_eq_true]; intro r hr; rw [h r hr]; rfl
    unfold stochIptw hajek
    rw [if_pos hall, sumIf_def, sumIf_def]
    congr 2
    · apply sumBy_congr; intro r hr
      cases ha : r.a <;>
        simp [stochW, stochWeight, h r hr, recv, ha, hobs r hr, iptwOmega, Gen.iptw_weight, Tgt.str]
      ring
    · apply sumBy_congr; intro r hr
      cases ha : r.a <;>
        simp [stochW, stochWeight, h r hr, recv, ha, hobs r hr, iptwOmega, Gen.iptw_weight, Tgt.str]

/-- a well-formed draw of `np.random.choice(pool, size=int(p·|pool|), replace=False)` -/
def DrawOK (fl : F → Nat) (p : F) (pool chosen : List Nat) : Prop :=
  chosen.Nodup ∧ (∀ i ∈ chosen, i ∈ pool) ∧ chosen.length = planSize fl p pool.length

/-- **stochastic g-formula, p ≡ 1 / p ≡ 0**: `int(1.0·n) = n`, so every unit of every pool is drawn and
    each resample is `fit('all')`; `int(0.0·n) = 0`, nobody is drawn and each resample is `fit('none')`; hence
    so is their mean -/
theorem gf_p_one_zero (fl : F → Nat) (hfl : ∀ n : Nat, fl (n : F) = n) (l : List (Row F)) (Q : Row F → Bool → F)
    (tm : Row F → Bool) (draws : List (List Nat × List Nat)) (hcover : ∀ r ∈ l, ∃ d ∈ draws, r.i ∈ d.1) (m : Nat)
    (hm : 0 < m) :
    (∀ k : Nat, planSize fl (1 : F) k = k ∧ planSize fl (0 : F) k = 0) ∧
    ((∀ d ∈ draws, DrawOK fl 1 d.1 d.2) →
      mcMean l Q (fun q => q) tm (fun r => gfAssign (draws.map (·.2)) r.i) = gformula l Q tm true ∧
      meanOf (List.replicate m (mcMean l Q (fun q => q) tm (fun r => gfAssign (draws.map (·.2)) r.i)))
        = gformula l Q tm true) ∧
    ((∀ d ∈ draws, DrawOK fl 0 d.1 d.2) →
      mcMean l Q (fun q => q) tm (fun r => gfAssign (draws.map (·.2)) r.i) = gformula l Q tm false ∧
      meanOf (List.replicate m (mcMean l Q (fun q => q) tm (fun r => gfAssign (draws.map (·.2)) r.i)))
        = gformula l Q tm false) := by
  have hsize : ∀ k : Nat, planSize fl (1 : F) k = k ∧ planSize fl (0 : F) k = 0 := by
    intro k
    constructor
    · simp [planSize, hfl]
    · have := hfl 0; simp only [Nat.cast_zero] at this; simp [planSize, this]
  have hmean : ∀ (asg : Row F → Bool) (a : Bool), (∀ r ∈ l, asg r = a) → mcMean l Q (fun q => q) tm asg = gformula l Q tm a := by
    intro asg a h
    unfold mcMean gformula
    congr 1
    apply sumIf_congr; intro r hr; rw [h r hr]
  refine ⟨hsize, ?_, ?_⟩
  · intro hd
    have hasg : ∀ r ∈ l, gfAssign (draws.map (·.2)) r.i = true := by
      intro r hr
      obtain ⟨d, hdm, hi⟩ := hcover r hr
      obtain ⟨hnd, hsub, hlen⟩ := hd d hdm
      rw [(hsize d.1.length).1] at hlen
      have := mem_of_full_draw hnd hsub hlen r.i hi
      unfold gfAssign
      rw [List.contains_iff_mem, List.mem_flatMap]
      exact ⟨d.2, List.mem_map.mpr ⟨d, hdm, rfl⟩, this⟩
    have e := hmean _ true hasg
    exact ⟨e, by rw [meanOf_replicate m hm, e]⟩
  · intro hd
    have hasg : ∀ r ∈ l, gfAssign (draws.map (·.2)) r.i = false := by
      intro r hr
      unfold gfAssign
      rw [← Bool.not_eq_true, List.contains_iff_mem, List.mem_flatMap]
      rintro ⟨c, hc, hic⟩
      obtain ⟨d, hdm, rfl⟩ := List.mem_map.mp hc
      obtain ⟨_, _, hlen⟩ := hd d hdm
      rw [(hsize d.1.length).2] at hlen
      have : d.2 = [] := List.eq_nil_of_length_eq_zero hlen
      simp [this] at hic
    have e := hmean _ false hasg
    exact ⟨e, by rw [meanOf_replicate m hm, e]⟩

/-- **A condition nobody meets changes nothing, wherever it is listed** (stochastic g-formula).  A well-formed draw from
    an empty pool is the empty draw whatever the probability attached to the condition, and an empty draw inserted at any
    position of the listing leaves every row's assignment unchanged: the conditions listed after an empty stratum keep
    their draws. -/
theorem gf_assign_empty_condition (fl : F → Nat) (p : F) (d : List Nat) (hd : DrawOK fl p [] d)
    (ch₁ ch₂ : List (List Nat)) (i : Nat) :
    d = [] ∧ gfAssign (ch₁ ++ d :: ch₂) i = gfAssign (ch₁ ++ ch₂) i := by
  have hnil : d = [] := by
    cases d with
    | nil => rfl
    | cons x xs => exact absurd (hd.2.1 x (List.mem_cons_self ..)) (List.not_mem_nil)
  subst hnil
  refine ⟨rfl, ?_⟩
  unfold gfAssign
  simp

/-- **Conditions are read off the observed data.**  The treated set depends on the conditions only through the draws, and a
    well-formed draw of a condition is a subset of the rows the condition selects in the observed table: a row that meets
    none of the conditions whose draws are non-empty is untreated, and a row is treated exactly when the draw of (one of)
    its condition(s) contains it — nothing in this depends on which conditions were applied before. -/
theorem gf_assign_iff_drawn (draws : List (List Nat × List Nat)) (fl : F → Nat) (ps : List Nat → F)
    (hd : ∀ d ∈ draws, DrawOK fl (ps d.1) d.1 d.2) (i : Nat) :
    (gfAssign (draws.map (·.2)) i = true ↔ ∃ d ∈ draws, i ∈ d.2) ∧
    (gfAssign (draws.map (·.2)) i = true → ∃ d ∈ draws, i ∈ d.1) := by
  have h : gfAssign (draws.map (·.2)) i = true ↔ ∃ d ∈ draws, i ∈ d.2 := by
    unfold gfAssign
    rw [List.contains_iff_mem, List.mem_flatMap]
    constructor
    · rintro ⟨c, hc, hic⟩
      obtain ⟨d, hdm, rfl⟩ := List.mem_map.mp hc
      exact ⟨d, hdm, hic⟩
    · rintro ⟨d, hdm, hic⟩
      exact ⟨d.2, List.mem_map.mpr ⟨d, hdm, rfl⟩, hic⟩
  refine ⟨h, fun ht => ?_⟩
  obtain ⟨d, hdm, hic⟩ := h.mp ht
  exact ⟨d, hdm, (hd d hdm).2.1 i hic⟩

/-- **StochasticTMLE, p ≡ 1 / p ≡ 0**: every Bernoulli(1) (Bernoulli(0)) draw is 1 (0), so every covered
    row is assigned treatment (no treatment) in every resample whatever the seed; the Monte-Carlo integration is
    degenerate: all resamples are identical and their mean is that common value -/
theorem tmle_mc_degenerate (cds : List ((Nat → Bool) × (Nat → Bool))) (v : Bool)
    (hdraw : ∀ c ∈ cds, ∀ i, c.2 i = v) (i : Nat) (hx : ExclAt cds i) (c : (Nat → Bool) × (Nat → Bool))
    (hc : c ∈ cds) (hi : c.1 i = true) (m : Nat) (hm : 0 < m) (x : F) :
    mcAssign cds i = some v ∧ meanOf (List.replicate m x) = x := by
  refine ⟨?_, meanOf_replicate m hm x⟩
  unfold mcAssign
  rw [overwrite_of_mem cds i hx c hc hi, hdraw c hc i]

/-! ### Saturated models: the mixture -/

/-- **StochasticIPTW = standardized mixture, exactly.**  Saturated treatment model `g` (score equations
    `PropFit`), positivity, complete outcomes, plan probability `π s` a function of the covariate stratum:
    the marginal outcome is `Σ_s (N_s/N)(π_s ȳ_{s1} + (1-π_s) ȳ_{s0})`. -/
theorem stoch_iptw_mixture (l : List (Row F)) (S : List Nat) (hS : Strata l S) (hpos : Positivity l S)
    (hobs : ∀ r ∈ l, r.obs = true) (g : Nat → F) (hg : PropFit l S g) (π : Nat → F) (pl : Plan F)
    (hpl : ∀ r ∈ l, planNumer pl r = some (recv r.a (π r.s))) :
    stochIptw pl (fun r => g r.s) l = some (mixture l S (fun _ => true) π) := by
  have hall : l.all (fun r => (planNumer pl r).isSome) = true := by
    rw [List.all_eq_true]; intro r hr; rw [hpl r hr]; rfl
  have hw : ∀ r ∈ l, stochW pl (fun r => g r.s) r = recv r.a (π r.s) / recv r.a (g r.s) * r.w := by
    intro r hr; simp [stochW, stochWeight, hpl r hr]
  unfold stochIptw
  rw [if_pos hall, sumBy_congr hw,
    sumBy_congr (fun r hr => by rw [hw r hr] :
      ∀ r ∈ l, r.y * stochW pl (fun r => g r.s) r = r.y * (recv r.a (π r.s) / recv r.a (g r.s) * r.w)),
    stoch_ratio_mixture l S hS hpos hobs g hg π]

/-- **the simulating estimators, for ANY draw.**  Saturated outcome model (`OutFit`), no update of the
    predictions (stochastic g-formula; StochasticTMLE when ε = 0): one resample's estimate is the mixture at
    the **realised** treated fractions of the strata — an exact identity in the captured draws. -/
theorem mc_mixture_realised (l : List (Row F)) (S : List Nat) (hS : Strata l S) (hpos : Positivity l S)
    (Q : Nat → Bool → F) (hQ : OutFit l S Q) (tm : Row F → Bool) (hN : ∀ s ∈ S, Ntgt tm l s ≠ 0)
    (asg : Row F → Bool) :
    mcMean l (fun r => Q r.s) (fun q => q) tm asg = mixture l S tm (realised l tm asg) :=
  mcMean_mixture l S hS hpos Q hQ tm hN asg

/-- the mean over resamples of mixtures is the mixture at the mean of the realised fractions (the mixture is
    affine in the plan probabilities): the Monte-Carlo estimate equals the closed form evaluated at the
    average realised fraction, whose distance to the nominal `p_s` is the whole Monte-Carlo error -/
theorem mc_average_mixture (l : List (Row F)) (S : List Nat) (tm : Row F → Bool) (πs : List (Nat → F))
    (hne : πs ≠ []) :
    meanOf (πs.map (mixture l S tm)) = mixture l S tm (fun s => meanOf (πs.map fun π => π s)) := by
  have hm : ((πs.length : Nat) : F) ≠ 0 := by
    have : 0 < πs.length := List.length_pos_iff.mpr hne
    exact Nat.cast_ne_zero.mpr (by omega)
  have smap : ∀ {β : Type} (f : β → F) (xs : List β), sumBy (fun x => x) (xs.map f) = sumBy f xs := by
    intro β f xs; induction xs with
    | nil => rfl
    | cons x xs ih => simp [ih]
  have hone : sumBy (fun _ : Nat → F => (1 : F)) πs = (πs.length : F) := sumBy_const_one πs
  unfold meanOf mixture
  simp only [List.length_map]
  rw [smap]
  have hlin : sumBy (fun π : Nat → F =>
        sumBy (fun s => Ntgt tm l s * (π s * cellMean l s true + (1 - π s) * cellMean l s false)) S) πs
      = (πs.length : F) * sumBy (fun s => Ntgt tm l s *
          (sumBy (fun x => x) (πs.map fun π => π s) / (πs.length : F) * cellMean l s true
            + (1 - sumBy (fun x => x) (πs.map fun π => π s) / (πs.length : F)) * cellMean l s false)) S := by
    rw [sumBy_comm, ← sumBy_mul_left]
    apply sumBy_congr; intro s _
    rw [smap, sumBy_mul_left]
    have e1 : sumBy (fun π : Nat → F => π s * cellMean l s true + (1 - π s) * cellMean l s false) πs
        = sumBy (fun π : Nat → F => π s) πs * cellMean l s true
          + ((πs.length : F) - sumBy (fun π : Nat → F => π s) πs) * cellMean l s false := by
      rw [sumBy_add, sumBy_mul_right, sumBy_mul_right, sumBy_sub, hone]
    rw [e1]; field_simp
  have hdiv : sumBy (fun π : Nat → F =>
        sumBy (fun s => Ntgt tm l s * (π s * cellMean l s true + (1 - π s) * cellMean l s false)) S /
          sumBy (fun s => Ntgt tm l s) S) πs
      = sumBy (fun π : Nat → F =>
        sumBy (fun s => Ntgt tm l s * (π s * cellMean l s true + (1 - π s) * cellMean l s false)) S) πs /
          sumBy (fun s => Ntgt tm l s) S := by
    simp only [div_eq_mul_inv]; rw [sumBy_mul_right]
  simp only [Nat.cast_one] at hdiv ⊢
  rw [hdiv, hlin]
  field_simp

/-- **StochasticTMLE, both models saturated: ε = 0 solves the targeting equation.**  The score of the
    intercept-only fluctuation model at ε = 0 is `Σ_i H_i (Y_i - Q_i)`; the clever covariate `H` (plan
    probability / fitted probability of the received treatment) is a function of the (stratum, arm) cell and the
    saturated outcome model's residuals cancel within every cell. -/
theorem tmle_eps_zero (l : List (Row F)) (S : List Nat) (hS : Strata l S) (hobs : ∀ r ∈ l, r.obs = true)
    (Q : Nat → Bool → F) (hQ : OutFit l S Q) (π g : Nat → F) (pl : Plan F)
    (hpl : ∀ r ∈ l, planNumer pl r = some (recv r.a (π r.s))) :
    sumBy (fun r => ((haw pl (fun r => g r.s) r).getD 0) * (r.w * (r.y - Q r.s r.a))) l = 0 := by
  have : ∀ r ∈ l, ((haw pl (fun r => g r.s) r).getD 0) * (r.w * (r.y - Q r.s r.a))
      = (fun s a => recv a (π s) / recv a (g s)) r.s r.a * (r.w * (r.y - Q r.s r.a)) := by
    intro r hr; simp [haw, hpl r hr]
  rw [sumBy_congr this]
  exact cell_score_zero l S hS hobs Q hQ (fun s a => recv a (π s) / recv a (g s))

/-! ### Non-vacuity -/

local instance : Transc ℚ := ⟨id, id, id⟩

/-- 2 strata × 2 arms; conditions = strata (row ids 0-2 in stratum 0, 3-5 in stratum 1) -/
def exRows : List (Row ℚ) :=
  [⟨0, 0, true, 1, 1, true⟩, ⟨1, 0, true, 0, 2, true⟩, ⟨2, 0, false, 1, 1, true⟩,
   ⟨3, 1, true, 1, 1, true⟩, ⟨4, 1, false, 0, 3, true⟩, ⟨5, 1, false, 1, 1, true⟩]
def exCs : List (Cond ℚ) := [⟨fun i => i < 3, 1/4⟩, ⟨fun i => 3 ≤ i, 2/3⟩]
def exG : Nat → ℚ := fun s => if s = 0 then 3/4 else 1/5
def exPi : Nat → ℚ := fun s => if s = 0 then 1/4 else 2/3

example : ∀ i, Exclusive exCs i := by
  intro i; simp only [Exclusive, exCs, List.pairwise_cons, List.mem_cons, List.not_mem_nil, or_false]
  refine ⟨?_, by simp, by simp⟩
  intro c hc; subst hc; simp only [decide_eq_true_eq]; omega
example : exCs.Perm exCs.reverse := (List.reverse_perm _).symm
example : Strata exRows [0, 1] ∧ Positivity exRows [0, 1] ∧ ∀ r ∈ exRows, r.obs = true := by
  refine ⟨⟨by decide, by decide⟩, ⟨by decide, ?_⟩, by decide⟩
  intro s hs a
  simp only [List.mem_cons, List.not_mem_nil, or_false] at hs
  rcases hs with rfl | rfl <;> cases a <;> simp [exRows, inCell]
example : PropFit exRows [0, 1] exG := by
  intro s hs; simp only [List.mem_cons, List.not_mem_nil, or_false] at hs
  rcases hs with rfl | rfl <;> norm_num [exRows, exG, W, sumIf, sumBy, inStratum, inCellAll]
example : ∀ r ∈ exRows, planNumer (.cond exCs) r = some (recv r.a (exPi r.s)) := by decide +kernel
-- both sides of `stoch_iptw_mixture`, and of its reversed listing, evaluate to the same number
example : stochIptw (.cond exCs) (fun r => exG r.s) exRows = some (85/108) ∧
    stochIptw (.cond exCs.reverse) (fun r => exG r.s) exRows = some (85/108) ∧
    mixture exRows [0, 1] (fun _ => true) exPi = 85/108 := by decide +kernel
example : OutFit exRows [0, 1] (fun s a => if s = 0 then (if a then 1/3 else 1) else (if a then 1 else 1/4)) := by
  intro s hs a; simp only [List.mem_cons, List.not_mem_nil, or_false] at hs
  rcases hs with rfl | rfl <;> cases a <;> norm_num [exRows, W, WY, sumIf, sumBy, inCell]
-- a draw treating rows 0, 2 and 4: realised fractions 1/2 and 3/5 (weighted)
example : realised exRows (fun _ => true) (fun r => gfAssign [[0, 2], [4]] r.i) 0 = 1/2 ∧
    realised exRows (fun _ => true) (fun r => gfAssign [[0, 2], [4]] r.i) 1 = 3/5 ∧
    mcMean exRows (fun r a => if r.s = 0 then (if a then 1/3 else 1) else (if a then 1 else 1/4)) (fun q => q)
      (fun _ => true) (fun r => gfAssign [[0, 2], [4]] r.i) = (4 * (1/2 * (1/3) + 1/2 * 1) + 5 * (3/5 * 1 + 2/5 * (1/4))) / 9 := by
  decide +kernel
example : DrawOK (fun q : ℚ => ⌊q⌋.toNat) 1 [0, 1, 2] [2, 0, 1] ∧ ∀ n : Nat, (fun q : ℚ => ⌊q⌋.toNat) (n : ℚ) = n := by
  refine ⟨⟨by decide, by decide, by simp [planSize]⟩, fun n => by simp⟩

/-- `gf_assign_empty_condition` on a three-condition listing whose middle condition selects nobody: the third condition's
    draw still treats its rows (the slip "leave the loop at an empty stratum" would lose row 4) -/
example : DrawOK (fun q : ℚ => ⌊q⌋.toNat) (7/10) [] [] ∧
    gfAssign [[0, 2], [], [4]] 4 = true ∧ gfAssign [[0, 2], [], [4]] 4 = gfAssign [[0, 2], [4]] 4 := by
  refine ⟨⟨by decide, by simp, by simp [planSize]⟩, by decide, by decide⟩

/-- `gf_assign_iff_drawn` on two conditions (pools `[0,1,2]` and `[3,4]`, probabilities 2/3 and 1/2): row 4 is drawn by its
    own condition, row 1 by none -/
example :
    let draws : List (List Nat × List Nat) := [([0, 1, 2], [2, 0]), ([3, 4], [4])]
    let ps : List Nat → ℚ := fun pool => if pool.length = 3 then 2/3 else 1/2
    (∀ d ∈ draws, DrawOK (fun q : ℚ => ⌊q⌋.toNat) (ps d.1) d.1 d.2) ∧
    gfAssign (draws.map (·.2)) 4 = true ∧ gfAssign (draws.map (·.2)) 1 = false := by
  refine ⟨?_, by decide, by decide⟩
  intro d hd
  simp only [List.mem_cons, List.not_mem_nil, or_false] at hd
  rcases hd with rfl | rfl
  · refine ⟨by decide, by decide, ?_⟩
    norm_num [planSize]
    rfl
  · refine ⟨by decide, by decide, ?_⟩
    norm_num [planSize]

end ZV.P14
