/-
C07, tie of the data-frame classes to the source (`Gen/Frames.lean`, regenerated from zepid/base.py on every run).
A module of its own: C08, C10 and C19 import `Props/C07.lean` for the theorems about the count functions.
-/
import ZepidVerif.Props.C07
import ZepidVerif.Gen.Frames
set_option linter.unusedSectionVars false
set_option linter.unusedVariables false
namespace ZV.P07
open ZV.Gen ZV.Measures

variable {F : Type} [Field F] [LinearOrder F] [IsStrictOrderedRing F] [Transc F]

/-! ### Tie of the data-frame classes to the source: the cross-tabulation statements of the six `fit`
methods of zepid/base.py, as translated into `Gen/Frames.lean` on every run, are the model's `cntED` /
`personTime` / missing-data counters, wired into the count functions argument by argument. -/

theorem riskratio_level_generated (ppf : F → F) (infv : F) (rows : List (MRow F)) (ref i : Nat) (α : F) :
    RiskRatio_risk_ratio_level ppf infv rows ref i α =
      risk_ratio ppf infv ((cntED rows i true : Nat) : F) ((cntED rows i false : Nat) : F)
        ((cntED rows ref true : Nat) : F) ((cntED rows ref false : Nat) : F) α := rfl

theorem riskdifference_level_generated (ppf : F → F) (infv : F) (rows : List (MRow F)) (ref i : Nat) (α : F) :
    RiskDifference_risk_difference_level ppf infv rows ref i α =
      risk_difference ppf infv ((cntED rows i true : Nat) : F) ((cntED rows i false : Nat) : F)
        ((cntED rows ref true : Nat) : F) ((cntED rows ref false : Nat) : F) α := rfl

theorem nnt_level_generated (ppf : F → F) (infv : F) (rows : List (MRow F)) (ref i : Nat) (α : F) :
    NNT_number_needed_to_treat_level ppf infv rows ref i α =
      number_needed_to_treat ppf infv ((cntED rows i true : Nat) : F) ((cntED rows i false : Nat) : F)
        ((cntED rows ref true : Nat) : F) ((cntED rows ref false : Nat) : F) α := rfl

theorem oddsratio_level_generated (ppf : F → F) (infv : F) (rows : List (MRow F)) (ref i : Nat) (α : F) :
    OddsRatio_odds_ratio_level ppf infv rows ref i α =
      odds_ratio ppf infv ((cntED rows i true : Nat) : F) ((cntED rows i false : Nat) : F)
        ((cntED rows ref true : Nat) : F) ((cntED rows ref false : Nat) : F) α := rfl

theorem irr_level_generated (ppf : F → F) (infv : F) (rows : List (MRow F)) (ref i : Nat) (α : F) :
    IncidenceRateRatio_incidence_rate_ratio_level ppf infv rows ref i α =
      incidence_rate_ratio ppf infv ((cntED rows i true : Nat) : F) ((cntED rows ref true : Nat) : F)
        (personTime rows i) (personTime rows ref) α := rfl

theorem ird_level_generated (ppf : F → F) (infv : F) (rows : List (MRow F)) (ref i : Nat) (α : F) :
    IncidenceRateDifference_incidence_rate_difference_level ppf infv rows ref i α =
      incidence_rate_difference ppf infv ((cntED rows i true : Nat) : F) ((cntED rows ref true : Nat) : F)
        (personTime rows i) (personTime rows ref) α := rfl

/-- the per-level risks reported next to the measure: `risk_ci` on (events, events + non-events) of that level -/
theorem risk_level_generated (ppf : F → F) (infv : F) (rows : List (MRow F)) (ref i : Nat) (α : F) :
    RiskRatio_risk_ci_level ppf infv rows ref i α =
      risk_ci ppf infv ((cntED rows i true : Nat) : F)
        (((cntED rows i true : Nat) : F) + ((cntED rows i false : Nat) : F)) α "wald" ∧
    RiskRatio_risk_ci_ref ppf infv rows ref i α =
      risk_ci ppf infv ((cntED rows ref true : Nat) : F)
        (((cntED rows ref true : Nat) : F) + ((cntED rows ref false : Nat) : F)) α "wald" ∧
    RiskDifference_risk_ci_level ppf infv rows ref i α = RiskRatio_risk_ci_level ppf infv rows ref i α ∧
    RiskDifference_risk_ci_ref ppf infv rows ref i α = RiskRatio_risk_ci_ref ppf infv rows ref i α :=
  ⟨rfl, rfl, rfl, rfl⟩

/-- the per-level rates of the two rate classes: `incidence_rate_ci` on (events, person-time) of that level -/
theorem rate_level_generated (ppf : F → F) (infv : F) (rows : List (MRow F)) (ref i : Nat) (α : F) :
    IncidenceRateRatio_incidence_rate_ci_level ppf infv rows ref i α =
      incidence_rate_ci ppf infv ((cntED rows i true : Nat) : F) (personTime rows i) α ∧
    IncidenceRateRatio_incidence_rate_ci_ref ppf infv rows ref i α =
      incidence_rate_ci ppf infv ((cntED rows ref true : Nat) : F) (personTime rows ref) α ∧
    IncidenceRateDifference_incidence_rate_ci_level ppf infv rows ref i α =
      IncidenceRateRatio_incidence_rate_ci_level ppf infv rows ref i α ∧
    IncidenceRateDifference_incidence_rate_ci_ref ppf infv rows ref i α =
      IncidenceRateRatio_incidence_rate_ci_ref ppf infv rows ref i α :=
  ⟨rfl, rfl, rfl, rfl⟩

/-- the missing-data counters the six classes report are the model's -/
theorem missing_generated (rows : List (MRow F)) (ref i : Nat) :
    RiskRatio_missing rows ref i = [missingED rows, missingE rows, missingD rows] ∧
    RiskDifference_missing rows ref i = [missingED rows, missingE rows, missingD rows] ∧
    NNT_missing rows ref i = [missingED rows, missingE rows, missingD rows] ∧
    OddsRatio_missing rows ref i = [missingED rows, missingE rows, missingD rows] ∧
    IncidenceRateRatio_missing rows ref i = [missingED rows, missingE rows, missingD rows, missingT rows] ∧
    IncidenceRateDifference_missing rows ref i = [missingED rows, missingE rows, missingD rows, missingT rows] :=
  ⟨rfl, rfl, rfl, rfl, rfl, rfl⟩


/-- `fit` of the four count classes, with the loop body taken from the generated code: every reported level's
    result is the count function on the cross-tabulation of the rows with exposure and outcome observed -/
theorem frame_generated_eq_counts (ppf : F → F) (infv : F) (rows : List (MRow F)) (ref : Nat) (α : F)
    (out : List (Nat × Results F))
    (h : (match otherLevels rows ref with
          | .error e => (Except.error e : Except Err (List (Nat × Results F)))
          | .ok lv => mapLevels (fun i => RiskRatio_risk_ratio_level ppf infv rows ref i α) lv) = .ok out) :
    out.map (·.1) = (levelSet rows).filter (· ≠ ref) ∧
    ∀ p ∈ out,
      risk_ratio ppf infv ((cntED (complete rows) p.1 true : Nat) : F) ((cntED (complete rows) p.1 false : Nat) : F)
         ((cntED (complete rows) ref true : Nat) : F) ((cntED (complete rows) ref false : Nat) : F) α = .ok p.2 :=
  frame_eq_counts (fun a b c d => risk_ratio ppf infv a b c d α) rows ref out h

end ZV.P07
