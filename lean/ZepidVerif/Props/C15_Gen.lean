/-
C15, tie to the source: the definitions regenerated on every run from the text of
`GEstimationSNM._closed_form_solver_`, `GEstimationSNM.fit` and `GEstimationSNM._grid_search_`
(`Gen/Snm.lean`) compute the model `ZV.Snm` the theorems of `Props/C15.lean` are about, so those theorems are
statements about the regenerated code.  Kept in a module of its own (other property modules must not stop
compiling when a generated definition can no longer be produced).

What is assumed of the externals here (DESIGN 3.2):
  * `patsy.dmatrix(snm - 1, frame)`: every column of the SNM design is the value bound to the exposure's name times
    an effect-modifier value of the row (`dm x r c = x * v_c`) -- treatment and treatment-covariate products;
  * `np.linalg.solve`: any function `solve` whose result satisfies `lhm psi = rha` (`SolvesLinear`);
  * the exposure model's fitted values: arbitrary per-row values `pi`.
-/
import ZepidVerif.Props.C15
import ZepidVerif.Gen.Snm
set_option linter.unusedSectionVars false
set_option linter.unusedVariables false
set_option linter.unusedTactic false
set_option linter.unreachableTactic false
namespace ZV.P15
open ZV ZV.Snm ZV.L

variable {F : Type} [Field F] [LinearOrder F] [IsStrictOrderedRing F] [Transc F]

/-- the model's closed form is Cramer's rule (the driver's stand-in for `np.linalg.solve`) applied to the model's
    `lhm`, `rha` -/
theorem closedForm_eq_cramer (rows : List (SRow F)) (p : Nat) :
    closedForm rows p = cramer (lhm rows) (rha rows) p := by
  match p with
  | 0 => rfl
  | 1 => rfl
  | 2 => rfl
  | 3 => rfl
  | _ + 4 => rfl

/-- the SNM design as patsy builds it for treatment / treatment-covariate product terms: the value bound to the
    exposure's name times the row's modifier values -/
def dmProd (x : F) (r : SRow F) (c : Nat) : F := x * nth r.v c

/-- the weight the generated `fit` multiplies into the residual, as a number per row (1 when no column is chosen) -/
def chosenWeight (hasIpmw hasWeight : Bool) (uw ipmw : SRow F → F) (r : SRow F) : F :=
  (if hasIpmw then ipmw r else 1) * (if hasWeight then uw r else 1)

/-- **Tie to the source (`_closed_form_solver_`, matrix).**  Entry (j, k) of the generated `lhm`
    (`np.dot(snm_matrix.mul(diff, axis=0).transpose(), snm_matrix)` with `diff = df[treat] - pred`, times the weight
    column when one is given) is the model's `lhm`. -/
theorem snm_closed_lhm_generated (rows : List (SRow F)) (ym : SRow F → Nat → F) (j k : Nat) :
    Gen.snm_closed_lhm (fun r => r.a) (fun r => r.pi) (fun r c => snmCol r c) ym (some fun r => r.w) rows j k
      = lhm rows j k := by
  simp only [Gen.snm_closed_lhm, lhm, dW]
  first | done | (apply sumBy_congr; intro r _; ring)

/-- … and without a weight column (the model's rows then carry `w = 1`) -/
theorem snm_closed_lhm_generated_unweighted (rows : List (SRow F)) (hw : ∀ r ∈ rows, r.w = 1)
    (ym : SRow F → Nat → F) (j k : Nat) :
    Gen.snm_closed_lhm (fun r => r.a) (fun r => r.pi) (fun r c => snmCol r c) ym none rows j k = lhm rows j k := by
  simp only [Gen.snm_closed_lhm, lhm, dW]
  apply sumBy_congr; intro r hr; rw [hw r hr]; ring

/-- **Tie to the source (`_closed_form_solver_`, right-hand side).**  Entry j of the generated `rha`
    (`y_matrix.mul(diff, axis=0).sum()`) is the model's `rha`. -/
theorem snm_closed_rha_generated (rows : List (SRow F)) (sm : SRow F → Nat → F) (j : Nat) :
    Gen.snm_closed_rha (fun r => r.a) (fun r => r.pi) sm (fun r c => yCol r c) (some fun r => r.w) rows j
      = rha rows j := by
  simp only [Gen.snm_closed_rha, rha, dW]
  first | done | (apply sumBy_congr; intro r _; ring)

theorem snm_closed_rha_generated_unweighted (rows : List (SRow F)) (hw : ∀ r ∈ rows, r.w = 1)
    (sm : SRow F → Nat → F) (j : Nat) :
    Gen.snm_closed_rha (fun r => r.a) (fun r => r.pi) sm (fun r c => yCol r c) none rows j = rha rows j := by
  simp only [Gen.snm_closed_rha, rha, dW]
  apply sumBy_congr; intro r hr; rw [hw r hr]; ring

/-- the generated solver hands exactly the generated `lhm`, `rha` to `np.linalg.solve` -/
theorem snm_closed_solver_generated {R P : Type} (solve : (Nat → Nat → F) → (Nat → F) → P) (treat pred : R → F)
    (sm ym : R → Nat → F) (wc : Option (R → F)) (l : List R) :
    Gen.snm_closed_solver solve treat pred sm ym wc l
      = solve (fun j k => Gen.snm_closed_lhm treat pred sm ym wc l j k)
              (fun j => Gen.snm_closed_rha treat pred sm ym wc l j) := by
  cases wc <;> simp only [Gen.snm_closed_solver, Gen.snm_closed_lhm, Gen.snm_closed_rha]

/-- **Tie to the source (`GEstimationSNM.fit`, weight column).**  The column chosen by the generated
    "Assigning label for weights" lines is: none without weights and without a missing-outcome model, else
    IPMW × user weight with the absent factor left out. -/
theorem snm_fit_weight_col_generated {R : Type} (hasIpmw hasWeight : Bool) (uw ipmw : R → F) :
    Gen.snm_fit_weight_col hasIpmw hasWeight uw ipmw
      = if hasIpmw then (if hasWeight then some (fun r => ipmw r * uw r) else some (fun r => ipmw r))
        else (if hasWeight then some (fun r => uw r) else none) := by
  cases hasIpmw <;> cases hasWeight <;> rfl

/-- what the generated `fit(solver='closed')` passes to the linear solver is the model's `lhm`, `rha`, in each of the
    four weight cells (`r.w` = the product of the weights in use, 1 when there are none) -/
theorem snm_fit_closed_generated {P : Type} (solve : (Nat → Nat → F) → (Nat → F) → P) (hasIpmw hasWeight : Bool)
    (uw ipmw : SRow F → F) (rows : List (SRow F)) (hw : ∀ r ∈ rows, r.w = chosenWeight hasIpmw hasWeight uw ipmw r) :
    Gen.snm_fit_closed solve dmProd hasIpmw hasWeight (fun r => r.a) (fun r => r.y) uw ipmw (fun r => r.pi) rows
      = solve (lhm rows) (rha rows) := by
  unfold Gen.snm_fit_closed
  rw [snm_closed_solver_generated]
  have hL : (fun j k => Gen.snm_closed_lhm (fun r : SRow F => r.a) (fun r => r.pi) (fun r c => dmProd r.a r c)
      (fun r c => dmProd r.y r c) (Gen.snm_fit_weight_col hasIpmw hasWeight uw ipmw) rows j k) = lhm rows := by
    funext j k
    cases hasIpmw <;> cases hasWeight <;>
      simp only [Gen.snm_fit_weight_col, Gen.snm_closed_lhm, lhm, dW, dmProd, snmCol] <;>
      apply sumBy_congr <;> intro r hr <;> rw [hw r hr] <;>
      simp only [chosenWeight, Bool.false_eq_true, if_false, if_true] <;> ring
  have hR : (fun j => Gen.snm_closed_rha (fun r : SRow F => r.a) (fun r => r.pi) (fun r c => dmProd r.a r c)
      (fun r c => dmProd r.y r c) (Gen.snm_fit_weight_col hasIpmw hasWeight uw ipmw) rows j) = rha rows := by
    funext j
    cases hasIpmw <;> cases hasWeight <;>
      simp only [Gen.snm_fit_weight_col, Gen.snm_closed_rha, rha, dW, dmProd, yCol] <;>
      apply sumBy_congr <;> intro r hr <;> rw [hw r hr] <;>
      simp only [chosenWeight, Bool.false_eq_true, if_false, if_true] <;> ring
  rw [hL, hR]

/-- **Tie to the source (`fit`, closed form).**  Run with Cramer's rule for `np.linalg.solve` (what the driver
    executes against the implementation), the generated `fit` is the model's `closedForm`. -/
theorem snm_fit_closed_cramer (hasIpmw hasWeight : Bool) (uw ipmw : SRow F → F) (rows : List (SRow F)) (p : Nat)
    (hw : ∀ r ∈ rows, r.w = chosenWeight hasIpmw hasWeight uw ipmw r) :
    Gen.snm_fit_closed (fun S b => cramer S b p) dmProd hasIpmw hasWeight (fun r => r.a) (fun r => r.y) uw ipmw
      (fun r => r.pi) rows = closedForm rows p := by
  rw [snm_fit_closed_generated _ hasIpmw hasWeight uw ipmw rows hw, closedForm_eq_cramer]

/-- the assumed behaviour of `np.linalg.solve` for `p` parameters: a returned vector solves the system -/
def SolvesLinear (p : Nat) (solve : (Nat → Nat → F) → (Nat → F) → Option (List F)) : Prop :=
  ∀ S b psi, solve S b = some psi → ∀ j, j < p → sumBy (fun k => S j k * nth psi k) (List.range p) = b j

/-- **C15 for the regenerated code.**  Whatever linear solver is used, as long as its result solves the system it
    is handed: the psi returned by the generated `GEstimationSNM.fit(solver='closed')` makes every estimating
    equation `Σ_i w_i (A_i − π_i) V_ij H(psi)_i` exactly zero — for a binary exposure, any fitted values, any of the
    four weight cells. -/
theorem snm_fit_closed_root (p : Nat) (solve : (Nat → Nat → F) → (Nat → F) → Option (List F))
    (hsolve : SolvesLinear p solve) (hasIpmw hasWeight : Bool) (uw ipmw : SRow F → F) (rows : List (SRow F))
    (hw : ∀ r ∈ rows, r.w = chosenWeight hasIpmw hasWeight uw ipmw r) (hA : ∀ r ∈ rows, r.a * r.a = r.a)
    (psi : List F)
    (h : Gen.snm_fit_closed solve dmProd hasIpmw hasWeight (fun r => r.a) (fun r => r.y) uw ipmw (fun r => r.pi) rows
          = some psi) :
    ∀ j, j < p → estEq rows p psi j = 0 := by
  rw [snm_fit_closed_generated _ hasIpmw hasWeight uw ipmw rows hw] at h
  exact closed_form_root rows p psi hA (fun j hj => hsolve _ _ psi h j hj)

/-- … and it is the only root when `lhm` is non-singular (p = 1, 2, 3): any exact root of the estimating equations
    — in particular the limit point of the search solver — equals what the generated closed form returns with an exact
    solver. -/
theorem snm_fit_closed_unique (p : Nat) (hp : p = 1 ∨ p = 2 ∨ p = 3) (hasIpmw hasWeight : Bool)
    (uw ipmw : SRow F → F) (rows : List (SRow F))
    (hw : ∀ r ∈ rows, r.w = chosenWeight hasIpmw hasWeight uw ipmw r) (hA : ∀ r ∈ rows, r.a * r.a = r.a)
    (psi' : List F) (hlen : psi'.length = p) (hdet : detLhm rows p ≠ 0)
    (hroot : ∀ j, j < p → estEq rows p psi' j = 0) :
    Gen.snm_fit_closed (fun S b => cramer S b p) dmProd hasIpmw hasWeight (fun r => r.a) (fun r => r.y) uw ipmw
      (fun r => r.pi) rows = some psi' := by
  rw [snm_fit_closed_cramer hasIpmw hasWeight uw ipmw rows p hw]
  exact root_unique rows p psi' hA hp hlen hdet hroot

/-! ### the search solver's objective -/

/-- **Tie to the source (`_grid_search_`, H(psi)).**  The column `H_psi` the generated `function_to_optimize` adds to
    the data is the model's treatment-free outcome `hpsi`. -/
theorem snm_search_hpsi_generated (p : Nat) (psi : List F) (r : SRow F) :
    Gen.snm_search_hpsi p (nth psi) (fun r => r.y) (fun r c => snmCol r c) r = hpsi p psi r := by
  simp only [Gen.snm_search_hpsi, hpsi]
  congr 1
  apply sumBy_congr; intro k _; ring

theorem sumBy_abs_nonneg {α : Type} (f : α → F) (l : List α) :
    0 ≤ sumBy (fun j => if f j < ((0 : Nat) : F) then -(f j) else f j) l := by
  induction l with
  | nil => simp
  | cons x xs ih =>
    simp only [sumBy_cons, Nat.cast_zero]
    simp only [Nat.cast_zero] at ih
    split_ifs with h
    · linarith
    · linarith [not_lt.mp h]

theorem sumBy_abs_eq_zero {α : Type} (f : α → F) (l : List α) :
    sumBy (fun j => if f j < ((0 : Nat) : F) then -(f j) else f j) l = 0 ↔ ∀ j ∈ l, f j = 0 := by
  induction l with
  | nil => simp
  | cons x xs ih =>
    have hn := sumBy_abs_nonneg f xs
    simp only [sumBy_cons, Nat.cast_zero, List.mem_cons, forall_eq_or_imp] at hn ih ⊢
    constructor
    · intro h
      split_ifs at h with hx
      · exfalso; linarith
      · have hx' := not_lt.mp hx
        have h0 : f x = 0 := by linarith
        refine ⟨h0, ih.mp (by linarith)⟩
    · rintro ⟨h0, hr⟩
      rw [ih.mpr hr, h0]; simp

/-- **the generated objective vanishes exactly at `alpha = alpha_shift`**: the value Nelder–Mead minimises,
    `Σ_j |alpha_j − shift_j|`, is zero iff every H(psi) coefficient of the refitted exposure model equals its shift -/
theorem snm_search_objective_zero_iff (p : Nat) (α s : Nat → F) :
    Gen.snm_search_objective p α s = 0 ↔ ∀ j, j < p → α j = s j := by
  simp only [Gen.snm_search_objective]
  rw [sumBy_abs_eq_zero (fun j => α j - s j) (List.range p)]
  simp only [List.mem_range, sub_eq_zero]

theorem snm_search_objective_nonneg (p : Nat) (α s : Nat → F) : 0 ≤ Gen.snm_search_objective p α s := by
  simp only [Gen.snm_search_objective]
  exact sumBy_abs_nonneg (fun j => α j - s j) (List.range p)

/-- **a zero of the search objective is the closed form.**  `psi` with objective 0 at shift 0; `μ` the fitted values of
    the exposure model refitted with the H(psi) terms `H_psi·V_j` (the SNM terms with the exposure's name replaced),
    assumed to satisfy its score equations for those columns (DESIGN 3.2, statsmodels GLM) and — all their coefficients
    being zero — to coincide with the fitted values `π` of the exposure model alone (uniqueness of the GLM fit).  Then
    `psi` is an exact root of the estimating equations, hence (non-singular `lhm`) what the generated closed form returns. -/
theorem snm_search_zero_is_closed_form (p : Nat) (hp : p = 1 ∨ p = 2 ∨ p = 3) (hasIpmw hasWeight : Bool)
    (uw ipmw : SRow F → F) (rows : List (SRow F))
    (hw : ∀ r ∈ rows, r.w = chosenWeight hasIpmw hasWeight uw ipmw r) (hA : ∀ r ∈ rows, r.a * r.a = r.a)
    (psi : List F) (hlen : psi.length = p) (hdet : detLhm rows p ≠ 0)
    (α : Nat → F) (μ : SRow F → F)
    (hobj : Gen.snm_search_objective p α (fun _ => 0) = 0)
    (hscore : ∀ j, j < p → sumBy (fun r => r.w * (r.a - μ r) *
        (Gen.snm_search_hpsi p (nth psi) (fun r => r.y) (fun r c => snmCol r c) r * nth r.v j)) rows = 0)
    (hμ : (∀ j, j < p → α j = 0) → ∀ r ∈ rows, μ r = r.pi) :
    Gen.snm_fit_closed (fun S b => cramer S b p) dmProd hasIpmw hasWeight (fun r => r.a) (fun r => r.y) uw ipmw
      (fun r => r.pi) rows = some psi := by
  have hα := (snm_search_objective_zero_iff p α (fun _ => 0)).mp hobj
  have hpi := hμ hα
  apply snm_fit_closed_unique p hp hasIpmw hasWeight uw ipmw rows hw hA psi hlen hdet
  intro j hj
  rw [← hscore j hj]
  unfold estEq
  apply sumBy_congr; intro r hr
  rw [snm_search_hpsi_generated, hpi r hr]
  unfold dW; ring

/-! ### Non-vacuity -/

/-- throw-away `Transc ℚ` used only to instantiate the examples -/
local instance instTQ_C15Gen : Transc ℚ := ⟨id, id, id⟩

/-- the generated `fit` with Cramer's rule on the data of `Props/C15.lean` (`exRows`: weights 1, 1, 1, 1, 1, 2, 2 as
    user weights, no missing-outcome model) returns the closed form `[3, 1/2]` -/
example : Gen.snm_fit_closed (fun S b => cramer S b 2) dmProd false true (fun r => r.a) (fun r => r.y)
    (fun r => r.w) (fun _ => 1) (fun r => r.pi) exRows = some [3, 1/2] := by
  rw [snm_fit_closed_cramer false true (fun r => r.w) (fun _ => 1) exRows 2 (by intro r _; simp [chosenWeight])]
  norm_num [closedForm, detLhm, det2, lhm, rha, sumBy, snmCol, yCol, dW, nth, exRows]

/-- `SolvesLinear` is met by Cramer's rule (`cramer_solves` on a one-row-per-entry data set is not needed: directly) -/
example : SolvesLinear (F := ℚ) 1 (fun S b => cramer S b 1) := by
  intro S b psi h j hj
  obtain rfl : j = 0 := by omega
  unfold cramer at h
  simp only [detP, Nat.cast_zero] at h
  split_ifs at h with hd
  simp only [Option.some.injEq] at h; subst h
  simp only [range1, nth0]
  field_simp

/-- the hypotheses of `snm_search_zero_is_closed_form` are met on `exRows` for p = 1 at psi = 39/11
    (alpha = 0, mu = pi: the refitted model with a zero coefficient is the exposure model) -/
example : Gen.snm_search_objective 1 (fun _ => (0 : ℚ)) (fun _ => 0) = 0 ∧
    sumBy (fun r => r.w * (r.a - r.pi) *
      (Gen.snm_search_hpsi 1 (nth [39/11]) (fun r => r.y) (fun r c => snmCol r c) r * nth r.v 0)) exRows = 0 := by
  norm_num [Gen.snm_search_objective, Gen.snm_search_hpsi, sumBy, snmCol, nth, exRows, List.range_succ]

end ZV.P15
