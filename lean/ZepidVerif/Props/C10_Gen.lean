/-
C10, tie to the source: `zepid.causal.utils.check_input_data` and the constructors that call it, regenerated from
/repo on every run into `Gen/InputData.lean`.

  * `check_input_data_spec`        the generated function, on any frame (numeric exposure), is the documented row filter
                                   `keptD`, the observed-outcome indicator, the `miss_flag`, the binary-exposure guard and the
                                   continuous-outcome test -- the two `if valid_obs != …` short-cuts of the source are
                                   proved to be no-ops;
  * `check_input_data_generated`   on the rows of the C10 model (`Raw`, Boolean exposure) it never raises and the frame it
                                   returns, read the way the estimators read it (`formatD`: observed = the generated
                                   `__missing_indicator__` column), is the model's `checkInput`, its flag the model's
                                   `missFlag`;
  * `…_generated` corollaries      the theorems of `Props/C10.lean` about `checkInput` / `missFlag`, restated for the
                                   regenerated code (`genFormatted`);
  * `sites_as_documented`, `drop_all_classes_complete_case`, `keep_classes_format`
                                   the flags each constructor passes (`Gen.input_site_<Class>`, read from the twelve
                                   `__init__`s) are the documented ones: StochasticIPTW, SurvivalGFormula, StochasticTMLE and
                                   the four cross-fit classes drop every incomplete row and equal their complete-case
                                   result; IPTW, TimeFixedGFormula, AIPTW, TMLE, GEstimationSNM keep the rows with a
                                   missing outcome, flagged.
-/
import ZepidVerif.Props.C10
import ZepidVerif.Gen.InputData
set_option linter.unusedSectionVars false
set_option linter.unusedVariables false
namespace ZV.P10
open ZV ZV.Std ZV.Miss

variable {F : Type} [Field F] [LinearOrder F] [IsStrictOrderedRing F] [Transc F]

/-! ### the generated function on any frame -/

/-- `if valid_obs != data.shape[0]: data = data.dropna(…) else: data = data` is `data.dropna(…)` either way -/
theorem filter_if_len {α : Type} (p : α → Bool) (l : List α) :
    (if ((l.filter p).length != l.length) = true then l.filter p else l) = l.filter p := by
  by_cases h : (l.filter p).length = l.length
  · have hs : l.filter p = l := List.filter_eq_self.mpr (List.length_filter_eq_length_iff.mp h)
    simp [hs]
  · simp [h]

/-- on a frame from which the rows lacking exposure / covariates are gone, `valid_obs != data.dropna(subset=[outcome]).shape[0]`
    says that some outcome is missing -/
theorem len_ne_iff_any (l : List (DRow F)) :
    (l.length != (l.filter fun r => r.y.isSome).length) = l.any (fun r => r.y.isNone) := by
  by_cases h : ∀ r ∈ l, r.y.isSome = true
  · have hs : (l.filter fun r => r.y.isSome) = l := List.filter_eq_self.mpr h
    have ha : l.any (fun r => r.y.isNone) = false := by
      rw [List.any_eq_false]; intro r hr; have := h r hr
      cases hy : r.y <;> simp_all
    rw [hs, ha]; simp
  · have hlt : (l.filter fun r => r.y.isSome).length ≠ l.length := fun he =>
      h (List.length_filter_eq_length_iff.mp he)
    have ha : l.any (fun r => r.y.isNone) = true := by
      rw [List.any_eq_true]
      by_contra hc
      exact h fun r hr => by
        cases hy : r.y with
        | some v => rfl
        | none => exact absurd ⟨r, hr, by simp [hy]⟩ hc
    rw [ha]
    simpa [bne_iff_ne] using fun he => hlt he.symm

/-- the values `isin([0, 1])` accepts -/
def zeroOne (v : F) : Bool := v == ((0 : Nat) : F) || v == ((1 : Nat) : F)

/-- **the generated `check_input_data`, on any frame**: with `D` = the rows documented to be kept (`keptD`: exposure and
    every other non-outcome column present, and the outcome too under `drop_censoring`), in the caller's order,
    it raises iff `binary_exposure_only` and some kept exposure is neither 0 nor 1, and otherwise returns `D`, the indicator
    column (1 = outcome observed; all 1 under `drop_censoring`), `miss_flag` = "not `drop_censoring` and some kept outcome
    is missing", `continuous` = "some kept observed outcome is neither 0 nor 1"; `drop_missing` is not read -/
theorem check_input_data_spec (dc dm bo : Bool) (data : List (DRow F)) :
    Gen.check_input_data dc dm bo data =
      (if (bo && !((data.filter (keptD dc)).filterMap fun r => r.e).all zeroOne) = true then .error .badInput
       else .ok (data.filter (keptD dc),
                 (data.filter (keptD dc)).map (fun r => if dc || r.y.isSome then 1 else 0),
                 !dc && (data.filter (keptD dc)).any (fun r => r.y.isNone),
                 !((data.filter (keptD dc)).filterMap fun r => r.y).all zeroOne)) := by
  have hz : (zeroOne : F → Bool) = fun v => v == ((0 : Nat) : F) || v == ((1 : Nat) : F) := rfl
  have hnot : ∀ b : Bool, (if b = true then false else true) = !b := by intro b; cases b <;> rfl
  -- the same flag under the other spelling of the test (`if not …: continuous = True else: continuous = False`)
  have hnot2 : ∀ b : Bool, (if ¬ b = true then true else false) = !b := by intro b; cases b <;> rfl
  have hnot3 : ∀ b : Bool, (if b = true then true else false) = b := by intro b; cases b <;> rfl
  cases dc
  · -- drop_censoring = False
    have hk : (keptD false : DRow F → Bool) = fun r => r.e.isSome && r.c.isSome := by
      funext r; simp [keptD, DRow.covComplete]
    simp only [Gen.check_input_data, Bool.false_eq_true, if_false, filter_if_len, len_ne_iff_any, hnot, hnot2, hnot3]
    simp only [hk, hz, Bool.not_false, Bool.true_and, Bool.false_or]
    by_cases hany : ((data.filter fun r => r.e.isSome && r.c.isSome).any fun r => r.y.isNone) = true
    · have hm : ((data.filter fun r => r.e.isSome && r.c.isSome).map fun r => if r.y.isNone = true then 0 else 1)
          = ((data.filter fun r => r.e.isSome && r.c.isSome).map fun r => if r.y.isSome = true then 1 else 0) := by
        apply List.map_congr_left; intro r _; cases r.y <;> simp
      simp only [hany, if_true, hm]
    · have hall : ∀ r ∈ (data.filter fun r => r.e.isSome && r.c.isSome), r.y.isSome = true := by
        intro r hr
        cases hy : r.y with
        | some v => rfl
        | none => exact absurd (List.any_eq_true.mpr ⟨r, hr, by simp [hy]⟩) hany
      have hm : ((data.filter fun r => r.e.isSome && r.c.isSome).map fun _ => 1)
          = ((data.filter fun r => r.e.isSome && r.c.isSome).map fun r => if r.y.isSome = true then 1 else 0) := by
        apply List.map_congr_left; intro r hr; simp [hall r hr]
      have hf : ((data.filter fun r => r.e.isSome && r.c.isSome).any fun r => r.y.isNone) = false := by
        simpa using hany
      simp only [hf, Bool.false_eq_true, if_false, hm]
  · -- drop_censoring = True
    have hk : (keptD true : DRow F → Bool) = fun r => r.e.isSome && r.c.isSome && r.y.isSome := by
      funext r; simp [keptD, DRow.complete]
    simp only [Gen.check_input_data, if_true, filter_if_len, hnot, hnot2, hnot3]
    simp only [hk, hz, Bool.not_true, Bool.false_and, Bool.true_or, if_true]

/-- `drop_missing` "currently does nothing" (docstring of the source): the generated function does not read it -/
theorem drop_missing_unused (dc dm dm' bo : Bool) (data : List (DRow F)) :
    Gen.check_input_data dc dm bo data = Gen.check_input_data dc dm' bo data := rfl

/-- the validation `raise`: exactly when the constructor asks for binary exposures and a *retained* row has another value -/
theorem check_input_data_raises_iff (dc dm bo : Bool) (data : List (DRow F)) :
    Gen.check_input_data dc dm bo data = .error .badInput ↔
      bo = true ∧ ∃ r ∈ data.filter (keptD dc), ∃ v, r.e = some v ∧ v ≠ 0 ∧ v ≠ 1 := by
  rw [check_input_data_spec]
  constructor
  · intro h
    split at h
    · rename_i hc
      simp only [Bool.and_eq_true, Bool.not_eq_true', List.all_eq_false, List.mem_filterMap] at hc
      obtain ⟨hb, v, ⟨r, hr, hv⟩, hz⟩ := hc
      refine ⟨hb, r, hr, v, hv, ?_⟩
      simpa [zeroOne] using hz
    · cases h
  · rintro ⟨hb, r, hr, v, hv, h0, h1⟩
    have : ((data.filter (keptD dc)).filterMap fun r => r.e).all zeroOne = false := by
      rw [List.all_eq_false]
      exact ⟨v, List.mem_filterMap.mpr ⟨r, hr, hv⟩, by simp [zeroOne, h0, h1]⟩
    simp [hb, this]

/-- **incomplete rows decide nothing of what the generated `check_input_data` returns** (round 4): on any frame (numeric
    exposure, any outcome values), deleting beforehand the rows missing exposure / another non-outcome column -- or, for the
    call at hand, all the rows it is documented to drop -- changes neither the retained rows, nor the indicator column, nor
    `miss_flag`, nor **whether the outcome counts as continuous**, nor whether the binary-exposure guard raises.  (A row that is
    dropped may hold any outcome value, 2 events or a code such as -1: the analysis stays one of a binary outcome.) -/
theorem check_input_data_incomplete_rows_irrelevant (dc dm bo : Bool) (data : List (DRow F)) :
    Gen.check_input_data dc dm bo (data.filter (keptD false)) = Gen.check_input_data dc dm bo data ∧
    Gen.check_input_data dc dm bo (data.filter (keptD dc)) = Gen.check_input_data dc dm bo data := by
  have h1 : (data.filter (keptD false)).filter (keptD dc) = data.filter (keptD dc) := by
    rw [List.filter_filter]; apply List.filter_congr; intro r _
    cases dc <;> simp [keptD, DRow.complete, DRow.covComplete]
    intro a b _; exact ⟨a, b⟩
  have h2 : (data.filter (keptD dc)).filter (keptD dc) = data.filter (keptD dc) := by
    rw [List.filter_filter]; apply List.filter_congr; intro r _; simp
  constructor
  · rw [check_input_data_spec, check_input_data_spec dc dm bo data, h1]
  · rw [check_input_data_spec, check_input_data_spec dc dm bo data, h2]

/-! ### on the rows of the C10 model -/

theorem keptD_toD (dc : Bool) (r : Raw F) : keptD dc r.toD = kept dc r := by
  cases dc <;> simp [keptD, kept, DRow.complete, DRow.covComplete, Raw.complete, Raw.covComplete, Raw.toD]

theorem filter_toD (dc : Bool) (rows : List (Raw F)) :
    (rows.map Raw.toD).filter (keptD dc) = (rows.filter (kept dc)).map Raw.toD := by
  rw [List.filter_map]; congr 1; apply List.filter_congr; intro r _; exact keptD_toD dc r

theorem zeroOne_toD (l : List (Raw F)) : ((l.map Raw.toD).filterMap fun r => r.e).all zeroOne = true := by
  rw [List.all_eq_true]; intro v hv
  obtain ⟨d, hd, hv⟩ := List.mem_filterMap.mp hv
  obtain ⟨r, _, rfl⟩ := List.mem_map.mp hd
  simp only [Raw.toD] at hv
  cases ha : r.a with
  | none => simp [ha] at hv
  | some b => cases b <;> simp [ha] at hv <;> subst hv <;> simp [zeroOne]

/-- a retained row with its generated indicator, read as the estimators read it, is the model's formatted row -/
theorem toRowD_toD (dc : Bool) (r : Raw F) (hk : kept dc r = true) :
    toRowD r.toD (if dc || r.toD.y.isSome then 1 else 0) = toRow r := by
  have ha : r.a.isSome = true := by
    cases dc
    · simp only [kept, Raw.covComplete, Bool.false_eq_true, if_false, Bool.and_eq_true] at hk; exact hk.1
    · simp only [kept, Raw.complete, if_true, Bool.and_eq_true] at hk; exact hk.1.1
  have hy : dc = true → r.y.isSome = true := by
    intro h; subst h
    simp only [kept, Raw.complete, if_true, Bool.and_eq_true] at hk; exact hk.2
  obtain ⟨b, hb⟩ := Option.isSome_iff_exists.mp ha
  have h01 : ((0 : Nat) : F) ≠ ((1 : Nat) : F) := by simp
  cases b <;> cases dc <;> cases hyy : r.y <;> simp_all [toRowD, toRow, Raw.toD]

/-- **`check_input_data` as regenerated = the model of C10.**  On the model's rows (Boolean exposure) the generated function
    never raises, whatever the three flags; the frame it returns is the model's retained rows in the caller's order; read
    with the *generated* `__missing_indicator__` column as the observed-outcome flag it is `checkInput`; its `miss_flag` is
    `missFlag` -/
theorem check_input_data_generated (dc dm bo : Bool) (rows : List (Raw F)) :
    ∃ ind cont, Gen.check_input_data dc dm bo (rows.map Raw.toD)
        = .ok ((rows.filter (kept dc)).map Raw.toD, ind, missFlag dc rows, cont) ∧
      formatD ((rows.filter (kept dc)).map Raw.toD) ind = checkInput dc rows := by
  have h := check_input_data_spec dc dm bo (rows.map Raw.toD)
  rw [filter_toD, zeroOne_toD] at h
  simp only [Bool.not_true, Bool.and_false, Bool.false_eq_true, if_false] at h
  have hfl : (!dc && ((rows.filter (kept dc)).map Raw.toD).any fun r => r.y.isNone) = missFlag dc rows := by
    unfold missFlag checkInput
    simp only [List.any_map]
    congr 2
    funext r
    simp [toRow, Raw.toD, Function.comp]
  refine ⟨((rows.filter (kept dc)).map Raw.toD).map (fun r => if dc || r.y.isSome then 1 else 0),
    !(((rows.filter (kept dc)).map Raw.toD).filterMap fun r => r.y).all zeroOne, ?_, ?_⟩
  · rw [h, hfl]
  · unfold formatD checkInput
    rw [List.zipWith_map_right, List.zipWith_self, List.map_map]
    apply List.map_congr_left
    intro r hr
    exact toRowD_toD dc r (List.mem_filter.mp hr).2

/-- what a class whose constructor passes `flags` = (drop_censoring, drop_missing, binary_exposure_only) hands to its
    estimator: the formatted rows (observed = generated indicator column) and the `miss_flag` -/
def genFormatted (flags : Bool × Bool × Bool) (rows : List (Raw F)) : Except Err (List (Row F) × Bool) :=
  (Gen.check_input_data flags.1 flags.2.1 flags.2.2 (rows.map Raw.toD)).map fun o => (formatD o.1 o.2.1, o.2.2.1)

theorem genFormatted_eq (flags : Bool × Bool × Bool) (rows : List (Raw F)) :
    genFormatted flags rows = .ok (checkInput flags.1 rows, missFlag flags.1 rows) := by
  obtain ⟨ind, cont, h, hf⟩ := check_input_data_generated flags.1 flags.2.1 flags.2.2 rows
  unfold genFormatted
  rw [h]
  simp only [Except.map, hf]

/-! ### the theorems of `Props/C10.lean`, about the regenerated code -/

/-- `drop_idempotent`, for the generated code: it has nothing left to drop on data the user already cleaned -/
theorem drop_idempotent_generated (flags : Bool × Bool × Bool) (rows : List (Raw F)) :
    genFormatted flags (deleteIncomplete rows) = genFormatted flags rows := by
  rw [genFormatted_eq, genFormatted_eq, (drop_idempotent rows flags.1).2.2, ← (est_eq_after_deletion id flags.1 rows).2]

/-- `est_eq_after_deletion` (clause (a)), for the generated code: anything computed from what the regenerated
    `check_input_data` returns (frame with indicator, and flag) is the same on the data and after the user deleted the rows
    missing exposure or covariates -/
theorem est_eq_after_deletion_generated {β : Type} (est : List (Row F) × Bool → β) (flags : Bool × Bool × Bool)
    (rows : List (Raw F)) :
    (genFormatted flags rows).map est = (genFormatted flags (deleteIncomplete rows)).map est := by
  rw [drop_idempotent_generated]

/-- `incomplete_rows_irrelevant`, for the generated code -/
theorem incomplete_rows_irrelevant_generated {β : Type} (est : List (Row F) × Bool → β) (flags : Bool × Bool × Bool)
    (rows₁ rows₂ : List (Raw F)) (h : deleteIncomplete rows₁ = deleteIncomplete rows₂) :
    (genFormatted flags rows₁).map est = (genFormatted flags rows₂).map est := by
  rw [← drop_idempotent_generated flags rows₁, ← drop_idempotent_generated flags rows₂, h]

/-- `miss_flag_spec`, for the generated code: the flag returned under `drop_censoring=False` is raised exactly when a
    retained row has a missing outcome -/
theorem miss_flag_spec_generated (dm bo : Bool) (rows : List (Raw F)) :
    (∃ l, genFormatted (false, dm, bo) rows = .ok (l, true)) ↔ ∃ r ∈ rows, r.covComplete = true ∧ r.y = none := by
  rw [genFormatted_eq, ← miss_flag_spec]
  constructor
  · rintro ⟨l, h⟩; injection h with h; exact (Prod.mk.inj h).2
  · intro h; exact ⟨_, by rw [h]⟩

/-! ### the call sites: which flags each constructor passes -/

/-- **the twelve constructors pass the documented flags** (read from each `__init__` on every run): the classes
    documented to drop every incomplete row call with `drop_censoring=True`, the classes documented to keep rows with a
    missing outcome with `drop_censoring=False` -/
theorem sites_as_documented :
    (Gen.input_site_StochasticIPTW.1 = true ∧ Gen.input_site_SurvivalGFormula.1 = true ∧
     Gen.input_site_StochasticTMLE.1 = true ∧ Gen.input_site_SingleCrossfitAIPTW.1 = true ∧
     Gen.input_site_DoubleCrossfitAIPTW.1 = true ∧ Gen.input_site_SingleCrossfitTMLE.1 = true ∧
     Gen.input_site_DoubleCrossfitTMLE.1 = true) ∧
    (Gen.input_site_IPTW.1 = false ∧ Gen.input_site_TimeFixedGFormula.1 = false ∧ Gen.input_site_AIPTW.1 = false ∧
     Gen.input_site_TMLE.1 = false ∧ Gen.input_site_GEstimationSNM.1 = false) :=
  ⟨⟨rfl, rfl, rfl, rfl, rfl, rfl, rfl⟩, rfl, rfl, rfl, rfl, rfl⟩

/-- the flags of the classes documented to drop every incomplete row / to keep missing outcomes -/
def dropAllSites : List (Bool × Bool × Bool) :=
  [Gen.input_site_StochasticIPTW, Gen.input_site_SurvivalGFormula, Gen.input_site_StochasticTMLE,
   Gen.input_site_SingleCrossfitAIPTW, Gen.input_site_DoubleCrossfitAIPTW, Gen.input_site_SingleCrossfitTMLE,
   Gen.input_site_DoubleCrossfitTMLE]
def keepSites : List (Bool × Bool × Bool) :=
  [Gen.input_site_IPTW, Gen.input_site_TimeFixedGFormula, Gen.input_site_AIPTW, Gen.input_site_TMLE,
   Gen.input_site_GEstimationSNM]

/-- **(b) `drop_all_eq_complete_case`, for the generated code and the generated call-site table**: StochasticIPTW,
    SurvivalGFormula, StochasticTMLE and the four cross-fit classes — with the flags their constructors really pass —
    hand their estimator the same thing on the data and on its complete cases, which is also what a keep-missing-outcome
    class gets on the complete cases; every retained outcome is observed and the flag is down -/
theorem drop_all_classes_complete_case {β : Type} (est : List (Row F) × Bool → β) (rows : List (Raw F)) :
    ∀ fl ∈ dropAllSites,
      (genFormatted fl rows).map est = (genFormatted fl (completeCases rows)).map est ∧
      (∀ fk ∈ keepSites, (genFormatted fl rows).map est = (genFormatted fk (completeCases rows)).map est) ∧
      ∃ l, genFormatted fl rows = .ok (l, false) ∧ ∀ r ∈ l, r.obs = true := by
  intro fl hfl
  have hdc : fl.1 = true := by
    simp only [dropAllSites, List.mem_cons, List.not_mem_nil, or_false] at hfl
    rcases hfl with rfl | rfl | rfl | rfl | rfl | rfl | rfl <;> rfl
  obtain ⟨h1, h2, h3, h4⟩ := drop_all_eq_complete_case (fun l => l) rows
  have hm : missFlag false (completeCases rows) = false := by
    unfold missFlag checkInput completeCases
    simp only [Bool.not_false, Bool.true_and, List.any_map, List.filter_filter, List.any_filter]
    rw [List.any_eq_false]; intro r _
    simp only [kept, Raw.covComplete, Raw.complete, Function.comp, toRow]
    cases r.a.isSome <;> cases r.l.isSome <;> cases r.y.isSome <;> simp
  refine ⟨?_, ?_, _, ?_, h3⟩
  · rw [genFormatted_eq, genFormatted_eq, hdc, ← h1]; rfl
  · intro fk hfk
    have hk : fk.1 = false := by
      simp only [keepSites, List.mem_cons, List.not_mem_nil, or_false] at hfk
      rcases hfk with rfl | rfl | rfl | rfl | rfl <;> rfl
    rw [genFormatted_eq, genFormatted_eq, hdc, hk, ← h2, hm]; rfl
  · rw [genFormatted_eq, hdc]; rfl

/-- **the keep-missing-outcome classes** (IPTW, TimeFixedGFormula, AIPTW, TMLE, GEstimationSNM, with the flags their
    constructors really pass) get `checkInput false` and `missFlag false` from the regenerated code: the frame about which
    `iptw_missing_saturated`, `gformula_predict_missing`, `tmle_missing_saturated`, `outcome_fit_on_observed` of
    `Props/C10.lean` speak -/
theorem keep_classes_format (rows : List (Raw F)) :
    ∀ fk ∈ keepSites, genFormatted fk rows = .ok (checkInput false rows, missFlag false rows) := by
  intro fk hfk
  have hk : fk.1 = false := by
    simp only [keepSites, List.mem_cons, List.not_mem_nil, or_false] at hfk
    rcases hfk with rfl | rfl | rfl | rfl | rfl <;> rfl
  rw [genFormatted_eq, hk]

/-! ### Non-vacuity -/

/-- the generated code executed on the example of `Props/C10.lean`: rows 6-8 dropped, row 5 flagged as unobserved -/
example : (Gen.check_input_data false true true (exRaw.map Raw.toD)).toOption.map (fun o => (o.1.map (·.i), o.2.1, o.2.2.1))
      = some ([0, 1, 2, 3, 4, 5, 9], [1, 1, 1, 1, 1, 0, 1], true) ∧
    (Gen.check_input_data true true true (exRaw.map Raw.toD)).toOption.map (fun o => (o.1.map (·.i), o.2.1, o.2.2.1))
      = some ([0, 1, 2, 3, 4, 9], [1, 1, 1, 1, 1, 1], false) := by
  constructor <;> decide +kernel

/-- a retained row with exposure 2 makes the binary-exposure guard raise (the hypothesis of `check_input_data_raises_iff`);
    the same value on a dropped row, or without `binary_exposure_only`, does not -/
example : (Gen.check_input_data false true true
      [(⟨0, some 1, some 0, some 1, 1⟩ : DRow ℚ), ⟨1, some 2, some 0, some 0, 1⟩]).toOption.isNone = true ∧
    (Gen.check_input_data false true true
      [(⟨0, some 1, some 0, some 1, 1⟩ : DRow ℚ), ⟨1, some 2, none, some 0, 1⟩]).toOption.map (fun o => o.1.map (·.i)) = some [0] ∧
    (Gen.check_input_data false true false
      [(⟨0, some 1, some 0, some 1, 1⟩ : DRow ℚ), ⟨1, some 2, some 0, some 0, 1⟩]).toOption.map (fun o => o.1.map (·.i))
        = some [0, 1] := by
  refine ⟨?_, ?_, ?_⟩ <;> decide +kernel

/-- `check_input_data_incomplete_rows_irrelevant` has no hypotheses; what it says on a small frame: a row dropped for its
    missing exposure carries the outcome value 2 and the outcome still counts as binary (`continuous = false`); the same
    value on a retained row makes it continuous -/
example : (Gen.check_input_data false true true
      [(⟨0, some 1, some 0, some 1, 1⟩ : DRow ℚ), ⟨1, none, some 0, some 2, 1⟩]).toOption.map (fun o => (o.1.map (·.i), o.2.2.2))
        = some ([0], false) ∧
    (Gen.check_input_data false true true
      [(⟨0, some 1, some 0, some 1, 1⟩ : DRow ℚ), ⟨1, some 0, some 0, some 2, 1⟩]).toOption.map (fun o => (o.1.map (·.i), o.2.2.2))
        = some ([0, 1], true) := by
  constructor <;> decide +kernel

example : exRaw.length = 10 ∧ (deleteIncomplete exRaw).length = 7 ∧ (completeCases exRaw).length = 6 := by decide

end ZV.P10
