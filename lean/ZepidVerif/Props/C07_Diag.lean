/-
C07, tie of the diagnostic classes `Sensitivity`, `Specificity`, `Diagnostics` of zepid/base.py to the source
(`Gen/Diag.lean`, regenerated from the three `fit` methods on every run): the two masked counts of each class are the
model's `cntED` (test result in the exposure slot, disease status in the outcome slot of an `MRow`), wired into
`zepid.calc.sensitivity` / `specificity` (`Gen/Calc2.lean`) argument by argument, the returned tuple is unpacked by
position and stored under the documented columns; rows with a missing test result or disease status are ignored.

What the code computes is recorded as it is: `Sensitivity.fit` divides the true positives by the number of
*test-positive* rows (TP + FP), not by the number of diseased rows (TP + FN) that the class docstring names; likewise
`Specificity.fit` reports TN / (TN + FN).  `sensitivity_class_not_textbook` / `specificity_class_not_textbook` are
concrete witnesses (the behaviour is pinned by tests/test_measures.py::TestDiagnostics, so it is reported, not judged
by the check).
-/
import ZepidVerif.Props.C07
import ZepidVerif.Gen.Diag
set_option linter.unusedSectionVars false
set_option linter.unusedVariables false
set_option linter.unnecessarySeqFocus false
namespace ZV.P07
open ZV.Gen ZV.Measures

variable {F : Type} [Field F] [LinearOrder F] [IsStrictOrderedRing F] [Transc F]

/-- `Sensitivity.fit` = `sensitivity(detected = #(T+,D+), cases = #(T+,D+) + #(T+,D−), alpha, 'wald')`, each value stored
    under its own column -/
theorem sensitivity_fit_generated (ppf : F → F) (rows : List (MRow F)) (α : F) :
    Sensitivity_fit ppf rows α =
      sensitivity ppf ((cntED rows 1 true : Nat) : F)
        (((cntED rows 1 true : Nat) : F) + ((cntED rows 1 false : Nat) : F)) α "wald" := by
  unfold Sensitivity_fit cntED
  simp only [add_comm, Bool.and_comm]
  split <;> simp_all

/-- `Specificity.fit` = `specificity(detected = #(T−,D+), noncases = #(T−,D+) + #(T−,D−), alpha, 'wald')` -/
theorem specificity_fit_generated (ppf : F → F) (rows : List (MRow F)) (α : F) :
    Specificity_fit ppf rows α =
      specificity ppf ((cntED rows 0 true : Nat) : F)
        (((cntED rows 0 true : Nat) : F) + ((cntED rows 0 false : Nat) : F)) α "wald" := by
  unfold Specificity_fit cntED
  simp only [add_comm, Bool.and_comm]
  split <;> simp_all

/-- `Diagnostics.fit` runs the two, sensitivity first; the first rejection aborts -/
theorem diagnostics_fit_generated (ppf : F → F) (rows : List (MRow F)) (α : F) :
    Diagnostics_fit ppf rows α =
      (match Sensitivity_fit ppf rows α with
       | .error e => .error e
       | .ok s => match Specificity_fit ppf rows α with
                  | .error e => .error e
                  | .ok p => .ok (s, p)) := rfl

/-- rows with a missing test result or disease status do not matter: the three `fit`s return what they return on
    the rows with both observed -/
theorem diag_complete_rows (ppf : F → F) (rows : List (MRow F)) (α : F) :
    Sensitivity_fit ppf rows α = Sensitivity_fit ppf (complete rows) α ∧
    Specificity_fit ppf rows α = Specificity_fit ppf (complete rows) α ∧
    Diagnostics_fit ppf rows α = Diagnostics_fit ppf (complete rows) α := by
  have hs : Sensitivity_fit ppf rows α = Sensitivity_fit ppf (complete rows) α := by
    rw [sensitivity_fit_generated, sensitivity_fit_generated, ← crosstab_filter, ← crosstab_filter]
  have hp : Specificity_fit ppf rows α = Specificity_fit ppf (complete rows) α := by
    rw [specificity_fit_generated, specificity_fit_generated, ← crosstab_filter, ← crosstab_filter]
  refine ⟨hs, hp, ?_⟩
  rw [diagnostics_fit_generated, diagnostics_fit_generated, hs, hp]

/-- the value `Sensitivity.fit` reports: true positives over *test positives* -/
theorem sensitivity_class_value (ppf : F → F) (rows : List (MRow F)) (α : F) (r : Results F)
    (h : Sensitivity_fit ppf rows α = .ok r) :
    r.point = ((cntED rows 1 true : Nat) : F) / (((cntED rows 1 true : Nat) : F) + ((cntED rows 1 false : Nat) : F)) := by
  rw [sensitivity_fit_generated] at h
  unfold sensitivity at h
  simp only at h
  split_ifs at h <;> (simp only [Except.ok.injEq] at h; subst h; rfl)

/-- the value `Specificity.fit` reports: `1 − FN/(FN + TN)` = true negatives over *test negatives* -/
theorem specificity_class_value (ppf : F → F) (rows : List (MRow F)) (α : F) (r : Results F)
    (h : Specificity_fit ppf rows α = .ok r) :
    r.point = 1 - ((cntED rows 0 true : Nat) : F) / (((cntED rows 0 true : Nat) : F) + ((cntED rows 0 false : Nat) : F)) := by
  rw [specificity_fit_generated] at h
  unfold specificity at h
  simp only [Nat.cast_one] at h
  split_ifs at h <;> (simp only [Except.ok.injEq] at h; subst h; rfl)

section witness
local instance instTQd : Transc ℚ := ⟨id, id, id⟩
/-- 2 test-positive rows (one diseased, one not) and 3 test-negative diseased rows, 1 test-negative healthy row -/
def diagRows : List (MRow ℚ) :=
  [⟨some 1, some true, none⟩, ⟨some 1, some false, none⟩, ⟨some 0, some true, none⟩, ⟨some 0, some true, none⟩,
   ⟨some 0, some true, none⟩, ⟨some 0, some false, none⟩]

theorem diagRows_counts : cntED diagRows 1 true = 1 ∧ cntED diagRows 1 false = 1 ∧ cntED diagRows 0 true = 3 ∧
    cntED diagRows 0 false = 1 := by decide

/-- the class does not compute the documented `TP / P` (P = diseased rows): here TP = 1, P = 4, reported 1/2 -/
theorem sensitivity_class_not_textbook :
    (Sensitivity_fit (fun x : ℚ => x) diagRows (1/20)).toOption.map (·.point) = some (1 / 2) ∧
      ((cntED diagRows 1 true : Nat) : ℚ) / (((cntED diagRows 1 true : Nat) : ℚ) + ((cntED diagRows 0 true : Nat) : ℚ))
        = 1 / 4 := by
  obtain ⟨ha, hb, hc, hd⟩ := diagRows_counts
  rw [sensitivity_fit_generated, ha, hb, hc]
  simp only [sensitivity]
  norm_num [Except.toOption]

/-- nor the documented `TN / N` (N = healthy rows): here TN = 1, N = 2, reported 1/4 -/
theorem specificity_class_not_textbook :
    (Specificity_fit (fun x : ℚ => x) diagRows (1/20)).toOption.map (·.point) = some (1 / 4) ∧
      ((cntED diagRows 0 false : Nat) : ℚ) / (((cntED diagRows 0 false : Nat) : ℚ) + ((cntED diagRows 1 false : Nat) : ℚ))
        = 1 / 2 := by
  obtain ⟨ha, hb, hc, hd⟩ := diagRows_counts
  rw [specificity_fit_generated, hb, hc, hd]
  simp only [specificity]
  norm_num [Except.toOption]
end witness

end ZV.P07
