/-
C20, tie to the source of the StepwiseSL search control.  The column bookkeeping of `StepwiseSL.fit`
(zepid/superlearner/estimators.py) is regenerated on every run into `Gen/Stepwise.lean` (translator `SwTr` of
harness/py2lean_lists.py):

* where each search starts (`best_cols = list(range(Xu.shape[1]))`; `best_cols = ()`, `vars_to_select = list(range(…))`)
* the `break` test at the top of a pass (`len(best_cols) - 1 == -1`; `len(best_cols) == Xu.shape[1]`)
* the column sets for which a pass requests a GLM fit (`list(combinations(best_cols, len(best_cols) - 1))`;
  `best_cols + (var,)` for `var in vars_to_select`), each `sm.GLM(y, [1, Xu[:, cols]]).fit()` recorded as `cols`
* the update of `vars_to_select` (`try: remove(best_alt_var) except ValueError: pass`)

`Model/StepwiseGen.lean` wires them into the model's loop (`Stepwise.loopWith`); `search_generated` proves the result equal
to `Stepwise.search`, so `stepwise_sound`, `stepwise_not_worse`, `stepwise_local_opt` are statements about the search as
driven by the regenerated bookkeeping.  Hand-modelled still: the AIC comparisons of the inner loop (`bestAlt`: strict `<`,
NaN never wins), the `while` condition (`best_aic >= best_alt_aic`), and `_all_order_interactions_`.
-/
import ZepidVerif.Props.C20
import ZepidVerif.Model.StepwiseGen
import Mathlib.Data.List.Nodup
set_option linter.unusedSectionVars false
set_option linter.unusedVariables false
namespace ZV.P20
open ZV ZV.Stepwise

/-! ### helper lemmas (not obligations) -/

private lemma fold_append_id {α : Type} : ∀ (l : List α) (acc : List α),
    l.foldl (fun st x => st ++ [x]) acc = acc ++ l := by
  intro l
  induction l with
  | nil => intro acc; simp
  | cons a l ih => intro acc; simp [List.foldl_cons, ih]

private lemma fold_append_f {α β : Type} (f : α → β) : ∀ (l : List α) (acc : List β),
    l.foldl (fun st x => st ++ [f x]) acc = acc ++ l.map f := by
  intro l
  induction l with
  | nil => intro acc; simp
  | cons a l ih => intro acc; simp [List.foldl_cons, ih]

private lemma combs_full {α : Type} : ∀ (l : List α), Py.combsNat l l.length = [l] := by
  intro l
  induction l with
  | nil => rfl
  | cons x xs ih =>
    have hgt : ∀ (m : List α) (r : Nat), m.length < r → Py.combsNat m r = [] := by
      intro m
      induction m with
      | nil => intro r hr; cases r with
        | zero => simp at hr
        | succ r => rfl
      | cons y ys ihm =>
        intro r hr
        cases r with
        | zero => simp at hr
        | succ r =>
          simp only [List.length_cons] at hr
          simp only [Py.combsNat, ihm r (by omega), ihm (r + 1) (by omega), List.map_nil, List.append_nil]
    simp only [List.length_cons, Py.combsNat, ih, List.map_cons, List.map_nil, hgt xs (xs.length + 1) (by omega),
      List.append_nil]

/-- `itertools.combinations(cols, len(cols) − 1)` is the model's `dropOne` -/
private lemma combs_dropOne : ∀ (l : List Nat), l ≠ [] → Py.combsNat l (l.length - 1) = dropOne l := by
  intro l
  induction l with
  | nil => intro h; exact absurd rfl h
  | cons x xs ih =>
    intro _
    cases xs with
    | nil => rfl
    | cons y ys =>
      have := ih (by simp)
      simp only [List.length_cons, Nat.add_sub_cancel] at this ⊢
      rw [Py.combsNat, this, dropOne]
      congr 1
      have := combs_full (y :: ys)
      simpa using this

/-! ### Bridges -/

/-- **The starting points as regenerated** are the model's: all columns (backward); no column, every column selectable
    (forward). -/
theorem sw_start_generated (p : Nat) :
    Gen.sw_backward_start p = startCols .backward p ∧
    Gen.sw_forward_start p = (startCols .forward p, List.range p) := by
  constructor <;> simp [Gen.sw_backward_start, Gen.sw_forward_start, startCols]

/-- **The column sets a pass fits, as regenerated**, are the model's alternatives: backward, every subset with one
    column dropped, in `itertools.combinations` order (`dropOne`); forward, the current set extended by each selectable
    column in turn (`addOne`). -/
theorem sw_fits_generated (cols avail : List Nat) :
    (cols ≠ [] → Gen.sw_backward_fits cols = steps .backward cols avail) ∧
    Gen.sw_forward_fits cols avail = steps .forward cols avail := by
  constructor
  · intro hne
    unfold Gen.sw_backward_fits Py.forIn Py.combinations Py.len steps
    have h0 : ¬ ((cols.length : Int) - 1 < 0) := by
      have : 0 < cols.length := List.length_pos_iff.mpr hne
      omega
    have h1 : ((cols.length : Int) - 1).toNat = cols.length - 1 := by omega
    have hemp : cols.isEmpty = false := by cases cols <;> simp_all
    simp only [h0, if_false, h1, fold_append_id, List.nil_append, combs_dropOne cols hne, hemp]
    rfl
  · unfold Gen.sw_forward_fits Py.forIn steps addOne
    simp only [fold_append_f, List.nil_append]

/-- **The break tests as regenerated**: backward, the intercept-only model (no column left to drop); forward, the
    saturated model (every column of the design already in). -/
theorem sw_break_generated (cols : List Nat) (p : Nat) :
    (Gen.sw_backward_break cols p = true ↔ cols = []) ∧ (Gen.sw_forward_break cols p = true ↔ cols.length = p) := by
  unfold Gen.sw_backward_break Gen.sw_forward_break Py.len
  constructor
  · rw [decide_eq_true_iff]
    constructor
    · intro h; exact List.length_eq_zero_iff.mp (by omega)
    · intro h; subst h; simp
  · rw [decide_eq_true_iff]; omega

/-- **The update of `vars_to_select` as regenerated** is the model's filter, on the states the search reaches
    (selectable columns without repeats and disjoint from the current set): removing the variable just added leaves
    exactly the columns not in the accepted alternative. -/
theorem sw_avail_generated (cols avail : List Nat) (v : Nat) (hnd : avail.Nodup) (hdis : ∀ x ∈ avail, x ∉ cols) :
    Gen.sw_forward_avail avail (cols ++ [v]).getLast? = avail.filter (fun x => !(cols ++ [v]).contains x) := by
  unfold Gen.sw_forward_avail Py.removeIfPresent
  simp only [List.getLast?_append, List.getLast?_singleton, Option.some_or]
  rw [hnd.erase_eq_filter]
  apply List.filter_congr
  intro x hx
  have := hdis x hx
  by_cases hxv : x = v <;> simp [this, hxv]

private lemma bestAlt_mem {F : Type} [LT F] [DecidableLT F] (aic : List Nat → Option F) :
    ∀ (alts : List (List Nat)) (best : Option (List Nat × F)) (r : List Nat × F),
      bestAlt aic alts best = some r → r.1 ∈ alts ∨ ∃ b, best = some b ∧ b.1 = r.1 := by
  intro alts
  induction alts with
  | nil => intro best r h; right; exact ⟨r, by simpa [bestAlt] using h, rfl⟩
  | cons alt alts ih =>
    intro best r h
    unfold bestAlt at h
    cases ha : aic alt with
    | none =>
      simp only [ha] at h
      rcases ih best r h with h1 | h1
      · left; exact List.mem_cons_of_mem _ h1
      · right; exact h1
    | some a =>
      cases best with
      | none =>
        simp only [ha] at h
        rcases ih _ r h with h1 | ⟨b, hb, hb1⟩
        · left; exact List.mem_cons_of_mem _ h1
        · left; simp only [Option.some.injEq] at hb; subst hb; simp at hb1; simp [← hb1]
      | some bb =>
        obtain ⟨bc, ba⟩ := bb
        simp only [ha] at h
        split at h
        · rcases ih _ r h with h1 | ⟨b, hb, hb1⟩
          · left; exact List.mem_cons_of_mem _ h1
          · left; simp only [Option.some.injEq] at hb; subst hb; simp at hb1; simp [← hb1]
        · rcases ih _ r h with h1 | h1
          · left; exact List.mem_cons_of_mem _ h1
          · right; exact h1

section
variable {F : Type} [LT F] [LE F] [DecidableLT F] [DecidableLE F]

private lemma loop_backward_generated (aic : List Nat → Option F) (p : Nat) :
    ∀ (fuel : Nat) (cols : List Nat) (a : F) (avail avail' : List Nat) (vis : List (List Nat)),
      loopWith (genSteps .backward) (genBreak p .backward) (genAvail .backward) aic fuel cols a avail' vis
        = loop .backward aic fuel cols a avail vis := by
  intro fuel
  induction fuel with
  | zero => intro cols a avail avail' vis; rfl
  | succ fuel ih =>
    intro cols a avail avail' vis
    unfold loopWith loop
    by_cases hc : cols = []
    · subst hc
      have hb : genBreak p .backward [] = true := (sw_break_generated [] p).1.mpr rfl
      simp [hb, steps, bestAlt]
    · have hb : genBreak p .backward cols = false := by
        cases h : genBreak p .backward cols with
        | false => rfl
        | true => exact absurd ((sw_break_generated cols p).1.mp h) hc
      have hs : genSteps .backward cols avail' = steps .backward cols avail :=
        (sw_fits_generated cols avail).1 hc
      simp only [hb, Bool.false_eq_true, if_false, hs]
      cases hba : bestAlt aic (steps .backward cols avail) none with
      | none => rfl
      | some r =>
        obtain ⟨bc, ba⟩ := r
        simp only
        split
        · exact ih bc ba _ _ _
        · rfl

/-- the states the forward search reaches: the selectable columns have no repeats, are not in the current set, and
    together with it make up the `p` columns of the design -/
private def FwdInv (p : Nat) (cols avail : List Nat) : Prop :=
  avail.Nodup ∧ (∀ x ∈ avail, x ∉ cols) ∧ avail.length + cols.length = p

private lemma loop_forward_generated (aic : List Nat → Option F) (p : Nat) :
    ∀ (fuel : Nat) (cols : List Nat) (a : F) (avail : List Nat) (vis : List (List Nat)), FwdInv p cols avail →
      loopWith (genSteps .forward) (genBreak p .forward) (genAvail .forward) aic fuel cols a avail vis
        = loop .forward aic fuel cols a avail vis := by
  intro fuel
  induction fuel with
  | zero => intro cols a avail vis _; rfl
  | succ fuel ih =>
    intro cols a avail vis hinv
    obtain ⟨hnd, hdis, hlen⟩ := hinv
    unfold loopWith loop
    have hs : genSteps .forward cols avail = steps .forward cols avail := (sw_fits_generated cols avail).2
    by_cases hc : cols.length = p
    · have hb : genBreak p .forward cols = true := (sw_break_generated cols p).2.mpr hc
      have hav : avail = [] := List.length_eq_zero_iff.mp (by omega)
      subst hav
      simp [hb, steps, addOne, bestAlt]
    · have hb : genBreak p .forward cols = false := by
        cases h : genBreak p .forward cols with
        | false => rfl
        | true => exact absurd ((sw_break_generated cols p).2.mp h) hc
      simp only [hb, Bool.false_eq_true, if_false, hs]
      cases hba : bestAlt aic (steps .forward cols avail) none with
      | none => rfl
      | some r =>
        obtain ⟨bc, ba⟩ := r
        simp only
        have hmem : bc ∈ steps .forward cols avail := by
          rcases bestAlt_mem aic _ none (bc, ba) hba with h | ⟨b, hb', _⟩
          · exact h
          · cases hb'
        simp only [steps, addOne, List.mem_map] at hmem
        obtain ⟨v, hv, rfl⟩ := hmem
        have hav : genAvail .forward avail (cols ++ [v]) = avail.filter (fun x => !(cols ++ [v]).contains x) :=
          sw_avail_generated cols avail v hnd hdis
        split
        · rw [hav]
          apply ih
          refine ⟨hnd.filter _, ?_, ?_⟩
          · intro x hx
            simp only [List.mem_filter, Bool.not_eq_true', List.contains_eq_mem, decide_eq_false_iff_not] at hx
            exact hx.2
          · rw [← hav]
            unfold genAvail Gen.sw_forward_avail Py.removeIfPresent
            simp only [List.getLast?_append, List.getLast?_singleton, Option.some_or, List.length_append,
              List.length_singleton, List.length_erase_of_mem hv]
            have : 0 < avail.length := List.length_pos_of_mem hv
            omega
        · rfl

/-- **`StepwiseSL.fit` driven by the regenerated column bookkeeping is the model** (`Model/StepwiseGen.lean`, what the
    driver executes for gate K, against `Stepwise.search`, the subject of `stepwise_sound`), for both directions, every
    AIC oracle and every number of columns. -/
theorem search_generated (d : Dir) (aic : List Nat → Option F) (p : Nat) :
    genSearch d aic p = search d aic p := by
  unfold genSearch search
  cases d
  · have h0 : (genStart .backward p).1 = startCols .backward p := (sw_start_generated p).1
    rw [h0]
    cases aic (startCols .backward p) with
    | none => rfl
    | some a0 => simp only; rw [loop_backward_generated]
  · have h0 : (genStart .forward p) = (startCols .forward p, List.range p) := (sw_start_generated p).2
    rw [h0]
    cases aic (startCols .forward p) with
    | none => rfl
    | some a0 =>
      simp only
      rw [loop_forward_generated aic p (p + 1) _ a0 (List.range p) []
        ⟨List.nodup_range, by simp [startCols], by simp [startCols]⟩]

end

/-- **No admissible single step lowers AIC — for the search as driven by the regenerated bookkeeping**
    (`stepwise_sound` transported along `search_generated`). -/
theorem stepwise_sound_generated {F : Type} [Field F] [LinearOrder F] [IsStrictOrderedRing F]
    (d : Dir) (aic : List Nat → Option F) (p : Nat) (R : Result F) (h : genSearch d aic p = some R) :
    ∃ a0, aic (startCols d p) = some a0 ∧
      R.aic ≤ a0 ∧ aic R.cols = some R.aic ∧ R.done = true ∧
      ∀ alt ∈ admissible d p R.cols, ∀ v, aic alt = some v → R.aic < v := by
  rw [search_generated] at h
  exact stepwise_sound d aic p R h

example : (genSearch .backward (fun c : List Nat => if c = [0, 1, 2] then some (10 : Rat) else if c = [0, 2] then some 8
      else if c = [0, 1] then some 9 else if c = [1, 2] then none else some 12) 3).map
    (fun R => (R.cols, R.aic, R.visited, R.done)) =
    some ([0, 2], 8, [[0, 1], [0, 2], [1, 2], [0], [2]], true) := by decide +kernel
example : (genSearch .forward (fun c : List Nat => if c = [] then some (10 : Rat) else if c = [1] then some 7
      else if c = [1, 0] then some 7 else some 11) 3).map (fun R => (R.cols, R.aic, R.visited, R.done)) =
    some ([1, 0], 7, [[0], [1], [2], [1, 0], [1, 2], [1, 0, 2]], true) := by decide +kernel

end ZV.P20
