/-
C09, tie to the source (GTransportFormula): the definition regenerated from the text of `GTransportFormula.fit`
(`Gen/Transport.lean`) run on the data with an integer weights column (weight column in use) and on the physically
replicated rows (no weight column) returns the same pair -- `gtransport_replicate` as a statement about the
regenerated code.
-/
import ZepidVerif.Props.C09
import ZepidVerif.Props.C16_Transport
set_option linter.unusedSectionVars false
set_option linter.unusedVariables false
namespace ZV.P09
open ZV ZV.Std

variable {F : Type} [Field F] [LinearOrder F] [IsStrictOrderedRing F] [Transc F]

/-- **C09 for the regenerated code (GTransportFormula).**  Predictions that do not read the weight column (the
    outcome model fitted with `freq_weights` on the weighted data and unweighted on the replicated data has the same
    score equations, `score_replicate`): weighted = replicated, generalize and transport. -/
theorem gtransport_fit_generated_replicate (l : List (Row F × Nat)) (g : Bool) (Q : Row F → Bool → F) (hQ : WFree Q) :
    Gen.gtransport_fit g true (weighted l) Q = Gen.gtransport_fit g false (replicated l) Q := by
  have hrep : ∀ r ∈ replicated l, r.w = 1 := by
    intro r hr
    unfold replicated at hr
    simp only [List.mem_flatMap, List.mem_replicate] at hr
    obtain ⟨x, _, _, rfl⟩ := hr
    simp [Row.setW]
  rw [P16.gtransport_fit_generated g true (weighted l) (by intro h; cases h) Q,
    P16.gtransport_fit_generated g false (replicated l) (fun _ => hrep) Q,
    gtransport_replicate l g Q hQ true, gtransport_replicate l g Q hQ false]

local instance instTQ_C09Transport : Transc ℚ := ⟨id, id, id⟩

/-- non-vacuity: weights 2, 1, 3 (the last row outside the sample); both sides computed -/
example :
    let l : List (Row ℚ × Nat) := [(⟨0, 0, true, 1, 1, true⟩, 2), (⟨1, 0, false, 0, 1, true⟩, 1), (⟨2, 1, true, 7, 1, false⟩, 3)]
    let Q : Row ℚ → Bool → ℚ := fun r a => if a then (if r.s = 0 then 1/2 else 1/4) else 1/8
    Gen.gtransport_fit true true (weighted l) Q = (1/4, 3) ∧
    Gen.gtransport_fit true false (replicated l) Q = (1/4, 3) := by
  norm_num [Gen.gtransport_fit, weighted, replicated, Row.setW, sumBy, List.replicate]

end ZV.P09
