/-
C16 (round 4) — the reporting methods of `IPSW`, `GTransportFormula` and `AIPSW` are observers.

`Gen/Tables.lean` is regenerated on every run from the text of the estimator classes by the static effect analysis
(`harness/effects.py`, built for C11).  The fitted state of the three classes is `risk_difference`, `risk_ratio`.
In the tables derived from the source as it is now, every method other than the model-specification methods and
`fit` (that is: `summary`; a method id outside the table raises) writes no slot, records no fit and sets no register:
it leaves the object's state exactly as it was (`Obs.observer_leaves_state`).  Hence the `risk_difference` /
`risk_ratio` a caller reads after any number of reporting calls are the ones `fit()` stored, the values the
theorems of Props/C16, C16_Gen, C16_Transport, C16_Sites are about.  A `summary()` that stores rounded results makes
the analysis mark it `isFit` and this file stops compiling; gate D observes the same thing on the object
(harness/props/c16.py, `after_d`).
-/
import ZepidVerif.Gen.Tables
import ZepidVerif.Lemmas.Observers
set_option linter.unusedVariables false
namespace ZV.P16O
open ZV.History ZV.Obs

/-- **ipsw_reporting_methods_observe** — sampling_model (0), treatment_model (1), fit (2); everything else observes -/
theorem ipsw_reporting_methods_observe (s : State) (o : Op) (hm : 3 ≤ o.m) : next Gen.Tables.ipsw s o = s := by
  apply observer_leaves_state
  obtain ⟨m, a, f⟩ := o
  simp only at hm ⊢
  match m, hm with
  | 3, _ => rfl
  | n + 4, _ => rfl

/-- **gtransport_reporting_methods_observe** — outcome_model (0), fit (1); everything else observes -/
theorem gtransport_reporting_methods_observe (s : State) (o : Op) (hm : 2 ≤ o.m) :
    next Gen.Tables.gtransport s o = s := by
  apply observer_leaves_state
  obtain ⟨m, a, f⟩ := o
  simp only at hm ⊢
  match m, hm with
  | 2, _ => rfl
  | n + 3, _ => rfl

/-- **aipsw_reporting_methods_observe** — sampling_model (0), treatment_model (1), outcome_model (2), fit (3);
    everything else observes -/
theorem aipsw_reporting_methods_observe (s : State) (o : Op) (hm : 4 ≤ o.m) : next Gen.Tables.aipsw s o = s := by
  apply observer_leaves_state
  obtain ⟨m, a, f⟩ := o
  simp only at hm ⊢
  match m, hm with
  | 4, _ => rfl
  | n + 5, _ => rfl

/-- not vacuous: after sampling_model, outcome_model, fit the call of `AIPSW.summary` (method 4) is admitted and the
    fitted result stays in place; likewise `GTransportFormula.summary` (2) and `IPSW.summary` (3) -/
example : admits Gen.Tables.aipsw (run Gen.Tables.aipsw init [⟨0, 0, false⟩, ⟨2, 1, false⟩, ⟨3, 2, false⟩]) ⟨4, 3, false⟩ = true ∧
    ((run Gen.Tables.aipsw init [⟨0, 0, false⟩, ⟨2, 1, false⟩, ⟨3, 2, false⟩, ⟨4, 3, false⟩]).fitted.map (·.2))
      = some ⟨3, 2, false⟩ ∧
    admits Gen.Tables.gtransport (run Gen.Tables.gtransport init [⟨0, 0, false⟩, ⟨1, 1, false⟩]) ⟨2, 2, false⟩ = true ∧
    admits Gen.Tables.ipsw (run Gen.Tables.ipsw init [⟨0, 0, false⟩, ⟨2, 1, false⟩]) ⟨3, 2, false⟩ = true := by
  decide

end ZV.P16O
