/-
C06 — Reported standard errors and confidence intervals are coherent.

Subjects:
  * the *generated* calculators `ZV.Gen.*` (regenerated from zepid/calc/utils.py on every run): the limits they
    return are `point ∓ z*se` (differences, risks, rates) or `exp(log point ∓ z*se)` (ratios) with
    `z = ppf(1 - alpha/2)`; point estimate and se do not depend on alpha;
  * the hand model `ZV.Ci` (Model/Ci.lean) of the interval arithmetic of AIPTW / TMLE / StochasticTMLE / the
    cross-fit classes / IPTW, the influence-curve variance, `calculate_joint_estimate`, and the closed form of
    the robust GEE covariance of the saturated MSM — the same definitions the driver executes (ops `ci_*`, `icse`,
    `aipwdiff`, `tmlez`, `pool`, `msm`).
External calls as parameters: `ppf` (= scipy `norm.ppf`) with the hypothesis `PpfOk` (strictly increasing on
(0,1), `ppf(1/2) = 0`); `Transc.exp` strictly increasing, `exp (log x) = x` at the point estimate;
`Transc.sqrt ≥ 0`.  All three are discharged for ℝ at the end of the file (except ppf: Mathlib has no normal
quantile; gate H measures it).

NNT: the limits are the reciprocals of the risk-difference limits (documented reciprocal scale); that link is
`ZV.P07.nnt_limits` (Props/C07.lean) and is not repeated here; containment is claimed on the RD scale only.

Finding F12 (TMLE uses 1.96 at alpha == 0.05): `tmle_ci_partial` is the statement outside alpha = 0.05;
`tmle_z_full_refuted` refutes the full statement with a concrete witness.
-/
import ZepidVerif.Gen.Calc
import ZepidVerif.Model.Ci
import ZepidVerif.Lemmas.Ci
import Mathlib.Algebra.Order.Field.Basic
import Mathlib.Algebra.Order.Field.Rat
import Mathlib.Order.Monotone.Basic
import Mathlib.Tactic.FieldSimp
import Mathlib.Tactic.Ring
import Mathlib.Tactic.Linarith
import Mathlib.Tactic.Positivity
import Mathlib.Tactic.NormNum
import Mathlib.Analysis.SpecialFunctions.Log.Basic
import Mathlib.Analysis.SpecialFunctions.Sqrt
set_option linter.unusedSectionVars false
set_option linter.unusedVariables false
namespace ZV.P06
open ZV.Gen ZV.Ci ZV.L

variable {F : Type} [Field F] [LinearOrder F] [IsStrictOrderedRing F] [Transc F]

/-! ### 1. Interval algebra on the executed definitions `linCI`, `expCI`, `logCI` -/

/-- the documented linear scale: `lcl = est − z·se`, `ucl = est + z·se` -/
theorem ci_linear (est z se : F) : (linCI est z se).1 = est - z * se ∧ (linCI est z se).2 = est + z * se :=
  ⟨rfl, rfl⟩

/-- the documented log scale -/
theorem ci_log (est z se : F) :
    (logCI est z se).1 = Transc.exp (Transc.log est - z * se) ∧
    (logCI est z se).2 = Transc.exp (Transc.log est + z * se) := ⟨rfl, rfl⟩

/-- containment, linear scale -/
theorem ci_contains (est z se : F) (hz : 0 ≤ z) (hse : 0 ≤ se) :
    (linCI est z se).1 ≤ est ∧ est ≤ (linCI est z se).2 := by
  have := mul_nonneg hz hse
  constructor <;> simp only [linCI] <;> linarith

/-- nestedness, linear scale: a larger quantile gives a wider interval -/
theorem ci_nested (est se z₁ z₂ : F) (hse : 0 ≤ se) (h : z₁ ≤ z₂) :
    (linCI est z₂ se).1 ≤ (linCI est z₁ se).1 ∧ (linCI est z₁ se).2 ≤ (linCI est z₂ se).2 := by
  have := mul_le_mul_of_nonneg_right h hse
  constructor <;> simp only [linCI] <;> linarith

/-- containment on the exponentiated scale around a log-scale point `l` (cross-fit ratios) -/
theorem ci_exp_contains (hmono : StrictMono (Transc.exp : F → F)) (l z se : F) (hz : 0 ≤ z) (hse : 0 ≤ se) :
    (expCI l z se).1 ≤ Transc.exp l ∧ Transc.exp l ≤ (expCI l z se).2 := by
  have := mul_nonneg hz hse
  constructor <;> simp only [expCI] <;> apply hmono.monotone <;> linarith

/-- containment, ratio measures: `exp(log est − z·se) ≤ est ≤ exp(log est + z·se)` -/
theorem ci_log_contains (hmono : StrictMono (Transc.exp : F → F)) (est z se : F)
    (hel : Transc.exp (Transc.log est) = est) (hz : 0 ≤ z) (hse : 0 ≤ se) :
    (logCI est z se).1 ≤ est ∧ est ≤ (logCI est z se).2 := by
  have := ci_exp_contains hmono (Transc.log est) z se hz hse
  rw [hel] at this
  exact this

/-- nestedness on the exponentiated / log scale -/
theorem ci_exp_nested (hmono : StrictMono (Transc.exp : F → F)) (l se z₁ z₂ : F) (hse : 0 ≤ se) (h : z₁ ≤ z₂) :
    (expCI l z₂ se).1 ≤ (expCI l z₁ se).1 ∧ (expCI l z₁ se).2 ≤ (expCI l z₂ se).2 := by
  have := mul_le_mul_of_nonneg_right h hse
  constructor <;> simp only [expCI] <;> apply hmono.monotone <;> linarith

theorem ci_log_nested (hmono : StrictMono (Transc.exp : F → F)) (est se z₁ z₂ : F) (hse : 0 ≤ se) (h : z₁ ≤ z₂) :
    (logCI est z₂ se).1 ≤ (logCI est z₁ se).1 ∧ (logCI est z₁ se).2 ≤ (logCI est z₂ se).2 :=
  ci_exp_nested hmono (Transc.log est) se z₁ z₂ hse h

/-! ### 2. The quantile `z(alpha) = ppf(1 − alpha/2)` -/

/-- `z(alpha) ≥ 0` on (0, 1] -/
theorem z_of_alpha_nonneg (ppf : F → F) (hp : PpfOk ppf) (α : F) (h0 : 0 < α) (h1 : α ≤ 1) : 0 ≤ zOf ppf α := by
  rw [zOf_eq]
  rcases eq_or_lt_of_le h1 with rfl | hlt
  · have : (1 : F) - 1 / 2 = 1 / 2 := by norm_num
    rw [this, hp.half]
  · have := hp.mono (1 / 2) (1 - α / 2) (by norm_num) (by linarith) (by linarith)
    rw [hp.half] at this
    exact this.le

/-- `z` is antitone in alpha on (0, 1]: a smaller alpha gives a larger quantile -/
theorem z_of_alpha_antitone (ppf : F → F) (hp : PpfOk ppf) (α₁ α₂ : F) (h0 : 0 < α₁) (h12 : α₁ ≤ α₂) (h1 : α₂ ≤ 1) :
    zOf ppf α₂ ≤ zOf ppf α₁ := by
  rw [zOf_eq, zOf_eq]
  rcases eq_or_lt_of_le h12 with rfl | hlt
  · exact le_refl _
  · exact (hp.mono (1 - α₂ / 2) (1 - α₁ / 2) (by linarith) (by linarith) (by linarith)).le

/-- intervals on the linear scale are nested in alpha (same estimate and se, as `*_indep_alpha` guarantees) -/
theorem nested_in_alpha_lin (ppf : F → F) (hp : PpfOk ppf) (est se α₁ α₂ : F) (hse : 0 ≤ se)
    (h0 : 0 < α₁) (h12 : α₁ ≤ α₂) (h1 : α₂ ≤ 1) :
    (linCI est (zOf ppf α₁) se).1 ≤ (linCI est (zOf ppf α₂) se).1 ∧
    (linCI est (zOf ppf α₂) se).2 ≤ (linCI est (zOf ppf α₁) se).2 :=
  ci_nested est se _ _ hse (z_of_alpha_antitone ppf hp α₁ α₂ h0 h12 h1)

/-- intervals of ratio measures are nested in alpha -/
theorem nested_in_alpha_log (hmono : StrictMono (Transc.exp : F → F)) (ppf : F → F) (hp : PpfOk ppf)
    (est se α₁ α₂ : F) (hse : 0 ≤ se) (h0 : 0 < α₁) (h12 : α₁ ≤ α₂) (h1 : α₂ ≤ 1) :
    (logCI est (zOf ppf α₁) se).1 ≤ (logCI est (zOf ppf α₂) se).1 ∧
    (logCI est (zOf ppf α₂) se).2 ≤ (logCI est (zOf ppf α₁) se).2 :=
  ci_log_nested hmono est se _ _ hse (z_of_alpha_antitone ppf hp α₁ α₂ h0 h12 h1)

/-! ### 3. The generated calculators report exactly these intervals -/

/-- limits of a generated calculator, linear scale, with the model's `linCI` and `zOf` -/
theorem rd_ci_linear (ppf : F → F) (infv a b c d α : F) (r : Results F)
    (h : risk_difference ppf infv a b c d α = .ok r) :
    (r.lower, r.upper) = linCI r.point (zOf ppf α) r.se := by
  unfold risk_difference at h
  split_ifs at h
  simp only [Except.ok.injEq] at h; subst h; rfl

theorem ird_ci_linear (ppf : F → F) (infv a c t1 t2 α : F) (r : Results F)
    (h : incidence_rate_difference ppf infv a c t1 t2 α = .ok r) :
    (r.lower, r.upper) = linCI r.point (zOf ppf α) r.se := by
  unfold incidence_rate_difference at h
  split_ifs at h
  simp only [Except.ok.injEq] at h; subst h; rfl

/-- `risk_ci` (both the Wald and the hypergeometric variance) -/
theorem risk_ci_linear (ppf : F → F) (infv e t α : F) (confint : String) (r : Results F)
    (h : risk_ci ppf infv e t α confint = .ok r) :
    (r.lower, r.upper) = linCI r.point (zOf ppf α) r.se := by
  unfold risk_ci at h
  simp only at h
  split_ifs at h <;> (simp only [Except.ok.injEq] at h; subst h; rfl)

theorem ir_ci_linear (ppf : F → F) (infv e t α : F) (r : Results F)
    (h : incidence_rate_ci ppf infv e t α = .ok r) :
    (r.lower, r.upper) = linCI r.point (zOf ppf α) r.se := by
  unfold incidence_rate_ci at h
  simp only [Except.ok.injEq] at h; subst h; rfl

theorem rr_ci_log (ppf : F → F) (infv a b c d α : F) (r : Results F)
    (h : risk_ratio ppf infv a b c d α = .ok r) :
    (r.lower, r.upper) = logCI r.point (zOf ppf α) r.se := by
  unfold risk_ratio at h
  split_ifs at h
  simp only [Except.ok.injEq] at h; subst h; rfl

theorem or_ci_log (ppf : F → F) (infv a b c d α : F) (r : Results F)
    (h : odds_ratio ppf infv a b c d α = .ok r) :
    (r.lower, r.upper) = logCI r.point (zOf ppf α) r.se := by
  unfold odds_ratio at h
  split_ifs at h
  simp only [Except.ok.injEq] at h; subst h; rfl

theorem irr_ci_log (ppf : F → F) (infv a c t1 t2 α : F) (r : Results F)
    (h : incidence_rate_ratio ppf infv a c t1 t2 α = .ok r) :
    (r.lower, r.upper) = logCI r.point (zOf ppf α) r.se := by
  unfold incidence_rate_ratio at h
  split_ifs at h
  simp only [Except.ok.injEq] at h; subst h; rfl

/-! ### 4. Point estimate and standard error do not depend on alpha -/

theorem rd_indep_alpha (ppf : F → F) (infv a b c d α₁ α₂ : F) (r₁ r₂ : Results F)
    (h₁ : risk_difference ppf infv a b c d α₁ = .ok r₁) (h₂ : risk_difference ppf infv a b c d α₂ = .ok r₂) :
    r₁.point = r₂.point ∧ r₁.se = r₂.se := by
  unfold risk_difference at h₁ h₂
  split_ifs at h₁ h₂
  simp only [Except.ok.injEq] at h₁ h₂; subst h₁; subst h₂; exact ⟨rfl, rfl⟩

theorem rr_indep_alpha (ppf : F → F) (infv a b c d α₁ α₂ : F) (r₁ r₂ : Results F)
    (h₁ : risk_ratio ppf infv a b c d α₁ = .ok r₁) (h₂ : risk_ratio ppf infv a b c d α₂ = .ok r₂) :
    r₁.point = r₂.point ∧ r₁.se = r₂.se := by
  unfold risk_ratio at h₁ h₂
  split_ifs at h₁ h₂
  simp only [Except.ok.injEq] at h₁ h₂; subst h₁; subst h₂; exact ⟨rfl, rfl⟩

theorem or_indep_alpha (ppf : F → F) (infv a b c d α₁ α₂ : F) (r₁ r₂ : Results F)
    (h₁ : odds_ratio ppf infv a b c d α₁ = .ok r₁) (h₂ : odds_ratio ppf infv a b c d α₂ = .ok r₂) :
    r₁.point = r₂.point ∧ r₁.se = r₂.se := by
  unfold odds_ratio at h₁ h₂
  split_ifs at h₁ h₂
  simp only [Except.ok.injEq] at h₁ h₂; subst h₁; subst h₂; exact ⟨rfl, rfl⟩

theorem irr_indep_alpha (ppf : F → F) (infv a c t1 t2 α₁ α₂ : F) (r₁ r₂ : Results F)
    (h₁ : incidence_rate_ratio ppf infv a c t1 t2 α₁ = .ok r₁)
    (h₂ : incidence_rate_ratio ppf infv a c t1 t2 α₂ = .ok r₂) :
    r₁.point = r₂.point ∧ r₁.se = r₂.se := by
  unfold incidence_rate_ratio at h₁ h₂
  split_ifs at h₁ h₂
  simp only [Except.ok.injEq] at h₁ h₂; subst h₁; subst h₂; exact ⟨rfl, rfl⟩

theorem ird_indep_alpha (ppf : F → F) (infv a c t1 t2 α₁ α₂ : F) (r₁ r₂ : Results F)
    (h₁ : incidence_rate_difference ppf infv a c t1 t2 α₁ = .ok r₁)
    (h₂ : incidence_rate_difference ppf infv a c t1 t2 α₂ = .ok r₂) :
    r₁.point = r₂.point ∧ r₁.se = r₂.se := by
  unfold incidence_rate_difference at h₁ h₂
  split_ifs at h₁ h₂
  simp only [Except.ok.injEq] at h₁ h₂; subst h₁; subst h₂; exact ⟨rfl, rfl⟩

theorem risk_ci_indep_alpha (ppf : F → F) (infv e t α₁ α₂ : F) (confint : String) (r₁ r₂ : Results F)
    (h₁ : risk_ci ppf infv e t α₁ confint = .ok r₁) (h₂ : risk_ci ppf infv e t α₂ confint = .ok r₂) :
    r₁.point = r₂.point ∧ r₁.se = r₂.se := by
  unfold risk_ci at h₁ h₂
  simp only at h₁ h₂
  split_ifs at h₁ h₂ <;>
    (simp only [Except.ok.injEq] at h₁ h₂; subst h₁; subst h₂; exact ⟨rfl, rfl⟩)

theorem ir_ci_indep_alpha (ppf : F → F) (infv e t α₁ α₂ : F) (r₁ r₂ : Results F)
    (h₁ : incidence_rate_ci ppf infv e t α₁ = .ok r₁) (h₂ : incidence_rate_ci ppf infv e t α₂ = .ok r₂) :
    r₁.point = r₂.point ∧ r₁.se = r₂.se := by
  unfold incidence_rate_ci at h₁ h₂
  simp only [Except.ok.injEq] at h₁ h₂; subst h₁; subst h₂; exact ⟨rfl, rfl⟩

/-- NNT: the point estimate (reciprocal of the alpha-free risk difference, or `inf`) and the se are alpha-free,
    although which *limits* are `inf` depends on alpha -/
theorem nnt_indep_alpha (ppf : F → F) (infv a b c d α₁ α₂ : F) (r₁ r₂ : Results F)
    (h₁ : number_needed_to_treat ppf infv a b c d α₁ = .ok r₁)
    (h₂ : number_needed_to_treat ppf infv a b c d α₂ = .ok r₂) :
    r₁.point = r₂.point ∧ r₁.se = r₂.se := by
  have key : ∀ (α : F) (r : Results F), number_needed_to_treat ppf infv a b c d α = .ok r →
      r.point = (if a / (a + b) - c / (c + d) ≠ 0 then 1 / (a / (a + b) - c / (c + d)) else infv) ∧
      r.se = Transc.sqrt (a / (a + b) * (1 - a / (a + b)) / (a + b) + c / (c + d) * (1 - c / (c + d)) / (c + d)) := by
    intro α r h
    unfold number_needed_to_treat at h
    simp only [Nat.cast_zero, Nat.cast_one] at h
    split_ifs at h <;>
      (simp only [Except.ok.injEq] at h; subst h; refine ⟨?_, rfl⟩; simp_all)
  obtain ⟨p₁, s₁⟩ := key α₁ r₁ h₁
  obtain ⟨p₂, s₂⟩ := key α₂ r₂ h₂
  exact ⟨p₁.trans p₂.symm, s₁.trans s₂.symm⟩

/-- NNT limits on the documented reciprocal scale: each limit is the reciprocal of the corresponding limit
    `rd ∓ z*se` of the risk difference (and `infv` exactly when that limit is 0) — whatever the risk difference
    itself is, in particular when the two risks are equal (rd = 0, NNT = `infv`): the limits are then the
    reciprocals of `∓ z*se`, not `infv` -/
theorem nnt_ci_recip (ppf : F → F) (infv a b c d α : F) (r : Results F)
    (h : number_needed_to_treat ppf infv a b c d α = .ok r) :
    r.lower = (if a / (a + b) - c / (c + d) - zOf ppf α * r.se ≠ 0
                then 1 / (a / (a + b) - c / (c + d) - zOf ppf α * r.se) else infv) ∧
    r.upper = (if a / (a + b) - c / (c + d) + zOf ppf α * r.se ≠ 0
                then 1 / (a / (a + b) - c / (c + d) + zOf ppf α * r.se) else infv) := by
  unfold number_needed_to_treat at h
  simp only [Nat.cast_zero, Nat.cast_one, Nat.cast_ofNat] at h
  unfold zOf
  simp only [Nat.cast_one, Nat.cast_ofNat]
  split_ifs at h <;>
    (simp only [Except.ok.injEq] at h; subst h; dsimp only
     constructor <;> first | rw [if_pos (by assumption)] | rw [if_neg (by assumption)] | simp_all)

/-- the null table: equal risks, a non-zero half-width ⇒ NNT = `infv`, limits = reciprocals of `∓ z*se` -/
theorem nnt_ci_null (ppf : F → F) (infv a b c d α : F) (r : Results F)
    (h : number_needed_to_treat ppf infv a b c d α = .ok r) (h0 : a / (a + b) = c / (c + d))
    (hz : zOf ppf α * r.se ≠ 0) :
    r.lower = 1 / (-(zOf ppf α * r.se)) ∧ r.upper = 1 / (zOf ppf α * r.se) := by
  obtain ⟨hl, hu⟩ := nnt_ci_recip ppf infv a b c d α r h
  rw [h0, sub_self, zero_sub] at hl
  rw [h0, sub_self, zero_add] at hu
  rw [if_pos (neg_ne_zero.mpr hz)] at hl
  rw [if_pos hz] at hu
  exact ⟨hl, hu⟩

/-! ### 5. End-to-end corollaries for a calculator (difference scale and ratio scale) -/

/-- risk difference: the interval contains the estimate, and the interval at a larger alpha is inside the one at a
    smaller alpha -/
theorem rd_coherent (ppf : F → F) (hp : PpfOk ppf) (hsqrt : ∀ x : F, 0 ≤ Transc.sqrt x)
    (infv a b c d α₁ α₂ : F) (r₁ r₂ : Results F) (h0 : 0 < α₁) (h12 : α₁ ≤ α₂) (h1 : α₂ ≤ 1)
    (h₁ : risk_difference ppf infv a b c d α₁ = .ok r₁) (h₂ : risk_difference ppf infv a b c d α₂ = .ok r₂) :
    (r₁.lower ≤ r₁.point ∧ r₁.point ≤ r₁.upper) ∧ (r₁.lower ≤ r₂.lower ∧ r₂.upper ≤ r₁.upper) ∧
    r₁.point = r₂.point := by
  have hse : 0 ≤ r₁.se := by
    unfold risk_difference at h₁
    split_ifs at h₁
    simp only [Except.ok.injEq] at h₁; subst h₁; exact hsqrt _
  obtain ⟨hpt, hs⟩ := rd_indep_alpha ppf infv a b c d α₁ α₂ r₁ r₂ h₁ h₂
  have e₁ := rd_ci_linear ppf infv a b c d α₁ r₁ h₁
  have e₂ := rd_ci_linear ppf infv a b c d α₂ r₂ h₂
  have c₁ := ci_contains r₁.point (zOf ppf α₁) r₁.se (z_of_alpha_nonneg ppf hp α₁ h0 (h12.trans h1)) hse
  have n₁ := nested_in_alpha_lin ppf hp r₁.point r₁.se α₁ α₂ hse h0 h12 h1
  rw [← hpt, ← hs] at e₂
  rw [← e₁] at c₁ n₁
  rw [← e₂] at n₁
  exact ⟨c₁, n₁, hpt⟩

/-- risk ratio (log scale) -/
theorem rr_coherent (hmono : StrictMono (Transc.exp : F → F)) (ppf : F → F) (hp : PpfOk ppf)
    (hsqrt : ∀ x : F, 0 ≤ Transc.sqrt x)
    (infv a b c d α₁ α₂ : F) (r₁ r₂ : Results F) (h0 : 0 < α₁) (h12 : α₁ ≤ α₂) (h1 : α₂ ≤ 1)
    (h₁ : risk_ratio ppf infv a b c d α₁ = .ok r₁) (h₂ : risk_ratio ppf infv a b c d α₂ = .ok r₂)
    (hel : Transc.exp (Transc.log r₁.point) = r₁.point) :
    (r₁.lower ≤ r₁.point ∧ r₁.point ≤ r₁.upper) ∧ (r₁.lower ≤ r₂.lower ∧ r₂.upper ≤ r₁.upper) ∧
    r₁.point = r₂.point := by
  have hse : 0 ≤ r₁.se := by
    unfold risk_ratio at h₁
    split_ifs at h₁
    simp only [Except.ok.injEq] at h₁; subst h₁; exact hsqrt _
  obtain ⟨hpt, hs⟩ := rr_indep_alpha ppf infv a b c d α₁ α₂ r₁ r₂ h₁ h₂
  have e₁ := rr_ci_log ppf infv a b c d α₁ r₁ h₁
  have e₂ := rr_ci_log ppf infv a b c d α₂ r₂ h₂
  have c₁ := ci_log_contains hmono r₁.point (zOf ppf α₁) r₁.se hel
    (z_of_alpha_nonneg ppf hp α₁ h0 (h12.trans h1)) hse
  have n₁ := nested_in_alpha_log hmono ppf hp r₁.point r₁.se α₁ α₂ hse h0 h12 h1
  rw [← hpt, ← hs] at e₂
  rw [← e₁] at c₁ n₁
  rw [← e₂] at n₁
  exact ⟨c₁, n₁, hpt⟩

/-! ### 6. Influence-curve standard errors (AIPTW, TMLE) -/

/-- `se² = Σ (ic − mean)² / (m − 1) / n`, `m` = number of non-missing influence values, `n` = number of rows
    (mirrors `np.nanvar(ic, ddof=1) / df.shape[0]`) -/
theorem ic_se (ic : List (Option F)) (n : Nat) (hm : 1 ≤ (present ic).length) :
    icSe2 ic n = sumBy (fun x => (x - meanL (present ic)) * (x - meanL (present ic))) (present ic)
      / (((present ic).length : F) - 1) / (n : F) := by
  unfold icSe2 nanvar1 ssq
  rw [Nat.cast_sub hm, Nat.cast_one]

/-- the variance estimate is never negative -/
theorem ic_se_nonneg (ic : List (Option F)) (n : Nat) : 0 ≤ icSe2 ic n := by
  unfold icSe2 nanvar1 ssq
  apply div_nonneg _ (Nat.cast_nonneg _)
  apply div_nonneg _ (Nat.cast_nonneg _)
  apply sumBy_nonneg
  intro x _
  exact mul_self_nonneg _

/-- AIPTW difference: the reported estimate is the mean of the observed pseudo-outcome differences and the reported
    variance is the influence-curve variance of `d − estimate` over all `n` rows -/
theorem aipw_diff_def (d : List (Option F)) :
    (aipwDiff d).1 = meanL (present d) ∧
    (aipwDiff d).2 = icSe2 (d.map fun o => o.map fun x => x - meanL (present d)) d.length ∧
    0 ≤ (aipwDiff d).2 :=
  ⟨rfl, rfl, ic_se_nonneg _ _⟩

/-! ### 6b. Known findings F15 / F16: two code paths whose log-RR influence values are not the documented ones

FULL STATEMENTS (fail): `∀ m1 m0 r1 r0 q1 q0, icLogRRAipw … = icLogRRDoc …` (F16, `aipw_calculator`) and
`∀ …, icLogRRXfit … = icLogRRDoc …` (F15, `crossfit.tmle_calculator`).  The model mirrors the code that exists; the
`_partial` theorems give the exact gap (zero iff the prediction terms vanish or the means are 1 / -1), the
`_full_refuted` theorems are concrete witnesses. -/

theorem aipw_rr_ic_partial (m1 m0 r1 r0 q1 q0 : F) (h1 : m1 ≠ 0) (h0 : m0 ≠ 0) :
    icLogRRAipw m1 m0 r1 r0 q1 q0 - icLogRRDoc m1 m0 r1 r0 q1 q0
      = (q1 - m1) * (1 - 1 / m1) + (q0 - m0) * (1 + 1 / m0) := by
  unfold icLogRRAipw icLogRRDoc
  field_simp
  ring

theorem xfit_rr_ic_partial (m1 m0 r1 r0 q1 q0 : F) (h1 : m1 ≠ 0) (h0 : m0 ≠ 0) :
    icLogRRXfit m1 m0 r1 r0 q1 q0 - icLogRRDoc m1 m0 r1 r0 q1 q0
      = (q1 - m1) * (1 - 1 / m1) - (q0 - m0) * (1 - 1 / m0) := by
  unfold icLogRRXfit icLogRRDoc
  field_simp
  ring

theorem aipw_rr_ic_full_refuted :
    ∃ m1 m0 r1 r0 q1 q0 : F, m1 ≠ 0 ∧ m0 ≠ 0 ∧ icLogRRAipw m1 m0 r1 r0 q1 q0 ≠ icLogRRDoc m1 m0 r1 r0 q1 q0 := by
  refine ⟨1 / 2, 1 / 4, 0, 0, 3 / 4, 1 / 2, by norm_num, by norm_num, ?_⟩
  unfold icLogRRAipw icLogRRDoc
  norm_num

theorem xfit_rr_ic_full_refuted :
    ∃ m1 m0 r1 r0 q1 q0 : F, m1 ≠ 0 ∧ m0 ≠ 0 ∧ icLogRRXfit m1 m0 r1 r0 q1 q0 ≠ icLogRRDoc m1 m0 r1 r0 q1 q0 := by
  refine ⟨1 / 2, 1 / 4, 0, 0, 3 / 4, 1 / 4, by norm_num, by norm_num, ?_⟩
  unfold icLogRRXfit icLogRRDoc
  norm_num

/-! ### 7. TMLE's quantile (finding F12) -/

/-- FULL STATEMENT (fails, F12): `∀ ppf α, tmleZ ppf α = zOf ppf α`.
    Partial: it holds for every alpha except the float 0.05. -/
theorem tmle_ci_partial (ppf : F → F) (est se α : F) (hα : α ≠ 5 / 100) :
    tmleZ ppf α = zOf ppf α ∧ linCI est (tmleZ ppf α) se = linCI est (zOf ppf α) se ∧
    logCI est (tmleZ ppf α) se = logCI est (zOf ppf α) se := by
  have : tmleZ ppf α = zOf ppf α := by
    unfold tmleZ
    simp only [Nat.cast_ofNat]
    rw [if_neg hα]
  rw [this]; exact ⟨rfl, rfl, rfl⟩

/-- at alpha = 0.05 the code uses the constant 1.96 whatever `ppf` is -/
theorem tmle_z_at_005 (ppf : F → F) : tmleZ ppf (5 / 100) = 196 / 100 := by
  simp [tmleZ]

/-- refutation of the full statement: an admissible `ppf` (strictly increasing, `ppf(1/2) = 0`) for which TMLE's
    quantile at alpha = 0.05 is not `ppf(1 − alpha/2)`.  (With the true normal quantile the two differ by 3.6e-5:
    that is what gate D observes on the real code.) -/
theorem tmle_z_full_refuted :
    ∃ ppf : F → F, PpfOk ppf ∧ tmleZ ppf (5 / 100) ≠ zOf ppf (5 / 100) := by
  refine ⟨fun x => x - 1 / 2, ⟨?_, by norm_num⟩, ?_⟩
  · intro x y _ hxy _; linarith
  · rw [tmle_z_at_005, zOf_eq]
    norm_num

/-! ### 8. Pooling across cross-fit partitions (`calculate_joint_estimate`) -/

/-- ValueError iff the lengths differ (an empty input is outside the model) -/
theorem pool_reject_iff (m : Method) (pts vars : List F) :
    (∃ e, pool m pts vars = .error e) ↔ (pts.length ≠ vars.length ∨ pts.length = 0) := by
  unfold pool
  split_ifs <;> simp_all

/-- the pooled point is the median / mean of the partition estimates and the pooled variance is the median / mean
    of `var_i + (est_i − pooled)²` -/
theorem pool_def (m : Method) (pts vars : List F) (r : F × F) (h : pool m pts vars = .ok r) :
    r.1 = center m pts ∧
    r.2 = center m (List.zipWith (fun v e => v + (e - center m pts) * (e - center m pts)) vars pts) := by
  unfold pool at h
  split_ifs at h
  simp only [Except.ok.injEq] at h; subst h; exact ⟨rfl, rfl⟩

/-- the pooled variance is non-negative when the partition variances are -/
theorem pool_var_nonneg (m : Method) (pts vars : List F) (r : F × F) (h : pool m pts vars = .ok r)
    (hv : ∀ v ∈ vars, 0 ≤ v) : 0 ≤ r.2 := by
  unfold pool at h
  split_ifs at h with hlen hne
  simp only [Except.ok.injEq] at h; subst h
  simp only
  have hpos : ∀ x ∈ List.zipWith (fun v e => v + (e - center m pts) * (e - center m pts)) vars pts, 0 ≤ x := by
    intro x hx
    obtain ⟨v, hv', e, _, rfl⟩ := mem_zipWith' _ _ _ _ hx
    have := hv v hv'
    have := mul_self_nonneg (e - center m pts)
    linarith
  cases m
  · apply medianL_nonneg _ _ hpos
    intro hnil
    have hl := congrArg List.length hnil
    simp only [List.length_zipWith, List.length_nil] at hl
    simp only [ne_eq, not_not] at hlen
    omega
  · exact meanL_nonneg _ hpos

/-- when all `k ≥ 1` partitions report the same estimate and variance, pooling returns exactly that pair -/
theorem pool_agree (m : Method) (x s : F) (k : Nat) (hk : 0 < k) :
    pool m (List.replicate k x) (List.replicate k s) = .ok (x, s) := by
  unfold pool
  have h0 : ¬ k = 0 := by omega
  simp only [List.length_replicate, ne_eq, not_true_eq_false, if_false, h0]
  rw [center_replicate m x k hk, zipWith_replicate']
  simp only [sub_self, mul_zero, add_zero]
  rw [center_replicate m s k hk]

/-! ### 9. Robust (sandwich) variance of the saturated marginal structural model -/

/-- the sandwich variances of the arm means and of RD, log RR, log OR are non-negative -/
theorem msm_var_nonneg (rows : List (MRow F)) :
    (∀ a, 0 ≤ armVar rows a) ∧ 0 ≤ (msmRD rows).2 ∧ 0 ≤ (msmRR rows).2 ∧ 0 ≤ (msmOR rows).2 := by
  have hv : ∀ a, 0 ≤ armVar rows a := by
    intro a
    unfold armVar
    apply div_nonneg _ (mul_self_nonneg _)
    apply sumBy_nonneg
    intro r _; exact mul_self_nonneg _
  refine ⟨hv, ?_, ?_, ?_⟩
  · simp only [msmRD]; exact add_nonneg (hv true) (hv false)
  · simp only [msmRR]
    exact add_nonneg (div_nonneg (hv true) (mul_self_nonneg _)) (div_nonneg (hv false) (mul_self_nonneg _))
  · simp only [msmOR]
    exact add_nonneg (div_nonneg (hv true) (mul_self_nonneg _)) (div_nonneg (hv false) (mul_self_nonneg _))

/-- the arm mean solves the weighted estimating equation of the saturated MSM: `Σ_{A=a} w (y − m_a) = 0` -/
theorem msm_mean_solves (rows : List (MRow F)) (a : Bool) (hw : armW rows a ≠ 0) :
    sumBy (fun r => r.w * (r.y - armMean rows a)) (arm rows a) = 0 := by
  have : sumBy (fun r => r.w * (r.y - armMean rows a)) (arm rows a)
      = sumBy (fun r => r.w * r.y) (arm rows a) - armMean rows a * armW rows a := by
    unfold armW
    rw [← sumBy_mul_left, ← sumBy_sub]
    apply sumBy_congr; intro r _; ring
  rw [this]
  unfold armMean
  field_simp
  ring

/-! ### 10. The hypotheses on exp / log / sqrt hold for the real functions -/

noncomputable instance : Transc ℝ := ⟨Real.exp, Real.log, Real.sqrt⟩

theorem real_transc_ok :
    StrictMono (Transc.exp : ℝ → ℝ) ∧ (∀ x : ℝ, 0 < x → Transc.exp (Transc.log x) = x) ∧
    (∀ x : ℝ, 0 ≤ Transc.sqrt x) :=
  ⟨Real.exp_strictMono, fun _ h => Real.exp_log h, Real.sqrt_nonneg⟩

/-- ratio intervals over ℝ: containment and nestedness with no hypothesis left except `PpfOk` and `est > 0` -/
theorem real_ratio_ci (ppf : ℝ → ℝ) (hp : PpfOk ppf) (est se α₁ α₂ : ℝ) (hest : 0 < est) (hse : 0 ≤ se)
    (h0 : 0 < α₁) (h12 : α₁ ≤ α₂) (h1 : α₂ ≤ 1) :
    ((logCI est (zOf ppf α₁) se).1 ≤ est ∧ est ≤ (logCI est (zOf ppf α₁) se).2) ∧
    ((logCI est (zOf ppf α₁) se).1 ≤ (logCI est (zOf ppf α₂) se).1 ∧
     (logCI est (zOf ppf α₂) se).2 ≤ (logCI est (zOf ppf α₁) se).2) :=
  ⟨ci_log_contains Real.exp_strictMono est _ se (Real.exp_log hest)
      (z_of_alpha_nonneg ppf hp α₁ h0 (h12.trans h1)) hse,
   nested_in_alpha_log Real.exp_strictMono ppf hp est se α₁ α₂ hse h0 h12 h1⟩

/-! ### Non-vacuity -/
section examples
/-- a throw-away `Transc ℚ` and an admissible `ppf` on ℚ used only to instantiate the examples -/
local instance instTQ : Transc ℚ := ⟨id, id, id⟩
def ppfQ : ℚ → ℚ := fun x => x - 1 / 2

example : PpfOk ppfQ := ⟨fun x y _ h _ => by unfold ppfQ; linarith, by norm_num [ppfQ]⟩

/-- `ci_contains` / `ci_nested` / `z_of_alpha_*`: alpha = 1/20 and 1/5 give z = 19/40 ≥ 2/5 ≥ 0 -/
example : zOf ppfQ (1/20) = 19/40 ∧ zOf ppfQ (1/5) = 2/5 ∧
    linCI (3/10 : ℚ) (19/40) (1/10) = (101/400, 139/400) := by
  norm_num [zOf, ppfQ, linCI]

/-- the calculators return `.ok` on a real table, with a non-degenerate interval -/
example : ∃ r, risk_difference (F := ℚ) ppfQ 0 45 55 21 79 (1/20) = .ok r ∧ r.point = 6/25 ∧ r.lower < r.point := by
  simp only [risk_difference]; norm_num [ppfQ, Transc.sqrt, instTQ]

/-- `nnt_ci_null`: a table with equal risks (30/100 = 45/150) and a non-zero half-width: NNT is `infv` (here -1
    stands for numpy's inf), the limits are finite reciprocals -/
example : ∃ r, number_needed_to_treat (F := ℚ) ppfQ (-1) 30 70 45 105 (1/20) = .ok r ∧ r.point = -1 ∧
    (30 : ℚ) / (30 + 70) = 45 / (45 + 105) ∧ zOf ppfQ (1/20) * r.se ≠ 0 ∧ r.lower ≠ -1 ∧ r.lower = 1 / -(zOf ppfQ (1/20) * r.se) := by
  simp only [number_needed_to_treat]; norm_num [ppfQ, zOf, Transc.sqrt, instTQ]

/-- `pool`: three partitions, both methods; hypotheses of `pool_var_nonneg` hold, result is not a plain copy -/
example : pool .median [(3 : ℚ), 1, 2] [1/10, 1/10, 2/10] = .ok (2, 11/10) := by
  norm_num [pool, center, medianL, sortL, insertSorted, getD0]
example : pool .mean [(3 : ℚ), 1, 2] [1/10, 1/10, 2/10] = .ok (2, 4/5) := by
  norm_num [pool, center, meanL, sumBy]
example : ∃ e, pool .mean [(3 : ℚ), 1] [1/10] = .error e := by
  rw [pool_reject_iff]; simp

/-- `ic_se`: four influence values, one missing, n = 4 rows -/
example : icSe2 [some (1 : ℚ), none, some 3, some 5] 4 = 1 := by
  norm_num [icSe2, nanvar1, ssq, present, meanL, sumBy, List.filterMap]

/-- `msm_*`: a weighted two-arm data set -/
example : msmRD [(⟨true, 1, 2⟩ : MRow ℚ), ⟨true, 0, 1⟩, ⟨false, 1, 1⟩, ⟨false, 0, 3⟩] = (5/12, 1753/10368) := by
  norm_num [msmRD, armMean, armVar, armW, arm, sumBy]
end examples

end ZV.P06
