/-
C08 — Estimates are invariant / equivariant under relabelling of the data.

Subject: the estimator models the native driver executes — `ZV.Std.std / hajek / gformula / aipw1 /
aipw0 / ipsw / gtransport / aipsw` (IPTW, StochasticIPTW, TimeFixedGFormula, AIPTW, IPSW,
GTransportFormula, AIPSW), `ZV.Std.aipwVar` (AIPTW's influence-curve variance), the *generated*
`ZV.Gen.iptw_weight`, `ZV.Gen.tmle_unit_bounds / tmle_unit_unbound` (TMLE's unit-interval map),
`ZV.SnmR` (closed-form g-estimation), `ZV.Measures` (effect-measure frames) and `ZV.Glm` (the score
equations assumed of the external GLM fits).  Fitted values of the nuisance models are parameters
of the models (functions of the row); that the *external* fits are themselves equivariant is the
assumption `score_reparam` explains and gate H measures on every pair of runs.  Index alignment
inside pandas is glue the model does not contain: it is reached only through gates K and D.

All statements are for data sets of any size over any linearly ordered field.
-/
import ZepidVerif.Lemmas.Relabel
import ZepidVerif.Lemmas.Msm
import ZepidVerif.Lemmas.TmleFlip
import ZepidVerif.Lemmas.IceInv
import ZepidVerif.Lemmas.SurvGFFlip
import ZepidVerif.Props.C12
import ZepidVerif.Props.C07
import Mathlib.Algebra.Order.Field.Rat
import Mathlib.Tactic.NormNum
import Mathlib.Tactic.FieldSimp
import Mathlib.Tactic.Ring
import Mathlib.Tactic.Linarith
set_option linter.unusedSectionVars false
set_option linter.unusedVariables false
namespace ZV.P08
open ZV ZV.Std

variable {F : Type} [Field F] [LinearOrder F] [IsStrictOrderedRing F] [Transc F]

/-! ### Row permutation: every estimator model is a function of the row multiset -/

/-- **perm_invariant.**  Permuting the rows (the fitted values travel with the rows: they are functions of
    the row) changes none of: the closed-form standardization, the weighted arm means of IPTW /
    StochasticIPTW / IPSW, the g-formula and transport means, the AIPTW pseudo-outcome means and
    influence-curve variance, the AIPSW means. -/
theorem perm_invariant {l₁ l₂ : List (Row F)} (h : l₁.Perm l₂) (S : List Nat) (tm : Row F → Bool) (a : Bool)
    (ω : Row F → F) (Q : Row F → Bool → F) (g1 g0 : Row F → F) (generalize : Bool) :
    std l₁ S tm a = std l₂ S tm a ∧
    hajek l₁ ω a = hajek l₂ ω a ∧
    gformula l₁ Q tm a = gformula l₂ Q tm a ∧
    aipw1 l₁ Q g1 g0 = aipw1 l₂ Q g1 g0 ∧ aipw0 l₁ Q g1 g0 = aipw0 l₂ Q g1 g0 ∧
    aipwVar l₁ Q g1 g0 = aipwVar l₂ Q g1 g0 ∧
    ipsw l₁ ω a = ipsw l₂ ω a ∧
    gtransport generalize l₁ Q a = gtransport generalize l₂ Q a ∧
    aipsw generalize l₁ Q ω a = aipsw generalize l₂ Q ω a := by
  have hs : ∀ (p : Row F → Bool) (f : Row F → F), sumIf p f l₁ = sumIf p f l₂ := fun p f => sumIf_perm h
  have hb : ∀ (f : Row F → F), sumBy f l₁ = sumBy f l₂ := fun f => sumBy_perm h
  refine ⟨?_, ?_, ?_, ?_, ?_, ?_, ?_, ?_, ?_⟩
  · simp only [std, Ntgt, cellMean, W, WY, hs]
  · simp only [hajek, hs]
  · simp only [gformula, W, hs]
  · simp only [aipw1, wmean, hb]
  · simp only [aipw0, wmean, hb]
  · simp only [aipwVar_def, aipwEst, lmean_perm h, svar_perm h, h.length_eq]
  · simp only [ipsw, hajek, hs]
  · simp only [gtransport, gformula, W, hs]
  · simp only [aipsw, W, hs]

/-- the order in which the strata are listed is immaterial to the closed form -/
theorem perm_invariant_strata (l : List (Row F)) {S₁ S₂ : List Nat} (h : S₁.Perm S₂) (tm : Row F → Bool) (a : Bool) :
    std l S₁ tm a = std l S₂ tm a := by
  simp only [std, sumBy_perm h]

/-- closed-form g-estimation: the matrix, the right-hand side and hence the residual of any candidate ψ -/
theorem perm_invariant_snm {l₁ l₂ : List (SnmR.SRow F)} (h : l₁.Perm l₂) (D : Nat) (ψ : Nat → F) (k j : Nat) :
    SnmR.lhm l₁ k j = SnmR.lhm l₂ k j ∧ SnmR.rha l₁ k = SnmR.rha l₂ k ∧ SnmR.resid l₁ D ψ k = SnmR.resid l₂ D ψ k ∧
    SnmR.solve1 l₁ = SnmR.solve1 l₂ := by
  have hb : ∀ (f : SnmR.SRow F → F), sumBy f l₁ = sumBy f l₂ := fun f => sumBy_perm h
  refine ⟨?_, ?_, ?_, ?_⟩ <;> simp only [SnmR.lhm, SnmR.rha, SnmR.resid, SnmR.solve1, hb]

/-- the cross-tabulation and person-time of the effect-measure frames -/
theorem perm_invariant_counts {r₁ r₂ : List (Measures.MRow F)} (h : r₁.Perm r₂) (lvl : Nat) (dv : Bool) :
    Measures.cntED r₁ lvl dv = Measures.cntED r₂ lvl dv ∧ Measures.personTime r₁ lvl = Measures.personTime r₂ lvl ∧
    Measures.missingE r₁ = Measures.missingE r₂ ∧ Measures.missingD r₁ = Measures.missingD r₂ ∧
    Measures.missingED r₁ = Measures.missingED r₂ ∧ (Measures.complete r₁).length = (Measures.complete r₂).length := by
  have hf : ∀ p : Measures.MRow F → Bool, (r₁.filter p).length = (r₂.filter p).length :=
    fun p => (h.filter p).length_eq
  refine ⟨?_, ?_, ?_, ?_, ?_, ?_⟩
  · simp only [Measures.cntED, hf]
  · unfold Measures.personTime; exact sumBy_perm (h.filter _)
  · simp only [Measures.missingE, Measures.missingED, hf]
  · simp only [Measures.missingD, Measures.missingED, hf]
  · simp only [Measures.missingED, hf]
  · simp only [Measures.complete, hf]

/-- **the whole `fit` of RiskRatio / RiskDifference / NNT / OddsRatio / IncidenceRateRatio /
    IncidenceRateDifference** (levels reported, every result, error behaviour) is a function of the row multiset -/
theorem frame_perm_invariant {r₁ r₂ : List (Measures.MRow F)} (h : r₁.Perm r₂)
    (cf : F → F → F → F → Except Err (Results F)) (ref : Nat) :
    Measures.fitCounts cf r₁ ref = Measures.fitCounts cf r₂ ref ∧
    Measures.fitRates cf r₁ ref = Measures.fitRates cf r₂ ref := by
  have hc : ∀ lvl dv, Measures.cntED r₁ lvl dv = Measures.cntED r₂ lvl dv :=
    fun lvl dv => (perm_invariant_counts h lvl dv).1
  have hp : ∀ lvl, Measures.personTime r₁ lvl = Measures.personTime r₂ lvl :=
    fun lvl => (perm_invariant_counts h lvl true).2.1
  constructor
  · simp only [Measures.fitCounts, Measures.otherLevels, Measures.levelSet_perm h, hc]
  · simp only [Measures.fitRates, Measures.otherLevels, Measures.levelSet_perm h, hc, hp]

/-! ### Relabelling of category codes (stratum ids, exposure levels) -/

/-- **relabel_invariant.**  An injective recoding `φ` of the covariate patterns, applied to the rows and to
    the list of strata, leaves the closed-form standardization unchanged; the estimators see the codes only
    through the fitted values, so with fitted values that correspond under the recoding (`ω' ∘ relabel = ω`
    etc. — the equivariance of the external fit, `score_reparam`) they are unchanged too. -/
theorem relabel_invariant (φ : Nat → Nat) (hφ : Function.Injective φ) (l : List (Row F)) (S : List Nat)
    (tm : Row F → Bool) (htm : ∀ r, tm (relabelRow φ r) = tm r) (a : Bool)
    (ω ω' : Row F → F) (hω : ∀ r, ω' (relabelRow φ r) = ω r)
    (Q Q' : Row F → Bool → F) (hQ : ∀ r b, Q' (relabelRow φ r) b = Q r b)
    (g1 g0 g1' g0' : Row F → F) (hg1 : ∀ r, g1' (relabelRow φ r) = g1 r) (hg0 : ∀ r, g0' (relabelRow φ r) = g0 r)
    (generalize : Bool) :
    std (l.map (relabelRow φ)) (S.map φ) tm a = std l S tm a ∧
    hajek (l.map (relabelRow φ)) ω' a = hajek l ω a ∧
    gformula (l.map (relabelRow φ)) Q' tm a = gformula l Q tm a ∧
    aipw1 (l.map (relabelRow φ)) Q' g1' g0' = aipw1 l Q g1 g0 ∧
    aipw0 (l.map (relabelRow φ)) Q' g1' g0' = aipw0 l Q g1 g0 ∧
    gtransport generalize (l.map (relabelRow φ)) Q' a = gtransport generalize l Q a ∧
    aipsw generalize (l.map (relabelRow φ)) Q' ω' a = aipsw generalize l Q ω a := by
  have hin : ∀ (s : Nat) (r : Row F), inStratum (φ s) (relabelRow φ r) = inStratum s r := by
    intro s r
    by_cases h : r.s = s
    · simp [inStratum, relabelRow, h]
    · have : φ r.s ≠ φ s := fun e => h (hφ e)
      simp [inStratum, relabelRow, h, this]
  have hcell : ∀ (s : Nat) (b : Bool) (r : Row F), inCell (φ s) b (relabelRow φ r) = inCell s b r := by
    intro s b r
    have := hin s r
    simp only [inStratum, relabelRow] at this
    simp [inCell, relabelRow, this]
  refine ⟨?_, ?_, ?_, ?_, ?_, ?_, ?_⟩
  · unfold std
    rw [sumBy_map, sumBy_map]
    congr 1
    · apply sumBy_congr; intro s _
      simp only [Ntgt, cellMean, W, WY, sumIf_map, hin, hcell, htm]; rfl
    · apply sumBy_congr; intro s _
      simp only [Ntgt, W, sumIf_map, hin, htm]; rfl
  · simp only [hajek, sumIf_map, hω]; rfl
  · simp only [gformula, W, sumIf_map, hQ, htm]; rfl
  · simp only [aipw1, wmean, sumBy_map, hQ, hg1, hg0]; rfl
  · simp only [aipw0, wmean, sumBy_map, hQ, hg1, hg0]; rfl
  · simp only [gtransport, gformula, W, sumIf_map, hQ]; rfl
  · simp only [aipsw, W, sumIf_map, hQ, hω]; rfl

/-- an injective recoding of the exposure levels of a frame: the cross-tabulation cell of level `φ lvl` in the
    recoded frame is the cell of `lvl` in the original (so each level's table, hence each result, is unchanged;
    a binary exposure recoded as `1 − E` is the case `φ = (1 − ·)`) -/
theorem relabel_invariant_counts (φ : Nat → Nat) (hφ : Function.Injective φ) (rows : List (Measures.MRow F))
    (lvl : Nat) (dv : Bool) :
    Measures.cntED (rows.map (Measures.relabelE φ)) (φ lvl) dv = Measures.cntED rows lvl dv ∧
    Measures.personTime (rows.map (Measures.relabelE φ)) (φ lvl) = Measures.personTime rows lvl ∧
    (∀ v, v ∈ Measures.levelSet (rows.map (Measures.relabelE φ)) ↔ ∃ u ∈ Measures.levelSet rows, v = φ u) := by
  have he : ∀ r : Measures.MRow F, ((Measures.relabelE φ r).e == some (φ lvl)) = (r.e == some lvl) := by
    intro r
    cases h : r.e with
    | none => simp [Measures.relabelE, h]
    | some u =>
      by_cases hu : u = lvl
      · simp [Measures.relabelE, h, hu]
      · have : φ u ≠ φ lvl := fun e => hu (hφ e)
        simp [Measures.relabelE, h, hu, this]
  refine ⟨?_, ?_, ?_⟩
  · unfold Measures.cntED
    rw [List.filter_map, List.length_map]
    congr 1; apply List.filter_congr; intro r _
    simp only [Function.comp, he]; rfl
  · unfold Measures.personTime
    rw [List.filter_map, sumBy_map]
    have : (List.filter ((fun r : Measures.MRow F => r.e == some (φ lvl) && r.d.isSome) ∘ Measures.relabelE φ) rows)
        = List.filter (fun r => r.e == some lvl && r.d.isSome) rows := by
      apply List.filter_congr; intro r _
      simp only [Function.comp, he]; rfl
    rw [this]; rfl
  · intro v
    simp only [Measures.mem_levelSet, List.mem_map]
    constructor
    · rintro ⟨r', ⟨r, hr, rfl⟩, he'⟩
      cases h : r.e with
      | none => simp [Measures.relabelE, h] at he'
      | some u =>
        simp only [Measures.relabelE, h, Option.map_some, Option.some.injEq] at he'
        exact ⟨u, ⟨r, hr, h⟩, he'.symm⟩
    · rintro ⟨u, ⟨r, hr, h⟩, rfl⟩
      exact ⟨Measures.relabelE φ r, ⟨r, hr, rfl⟩, by simp [Measures.relabelE, h]⟩


/-! ### Recoding the binary treatment as `1 − A` -/

/-- **iptw_weight_flip** (about the *generated* `iptw_calculator` formulas): the weight of a row is unchanged
    when the treatment is recoded, the fitted probabilities become `1 − n`, `1 − d`, and the standardization
    target is renamed accordingly (population ↦ population, exposed ↔ unexposed) — all six formulas. -/
theorem iptw_weight_flip (stab : Bool) (t : Tgt) (a : Bool) (n d : F) :
    Gen.iptw_weight stab t.flip.str (!a) (1 - n) (1 - d) = Gen.iptw_weight stab t.str a n d := by
  cases stab <;> cases t <;> cases a <;> simp [Gen.iptw_weight, Tgt.str, Tgt.flip]

/-- **flip_treatment.**  Recode `A ↦ 1 − A`, with the fitted values of the recoded fit corresponding to the
    original ones (`g ↦ 1 − g`, `Q₁ ↔ Q₀`, per-row weights unchanged): the two arm means of every estimator
    swap.  `a` is the arm in the original coding, `!a` the same arm in the new coding. -/
theorem flip_treatment (l : List (Row F)) (a : Bool)
    (ω ω' : Row F → F) (hω : ∀ r, ω' (flipRow r) = ω r)
    (Q Q' : Row F → Bool → F) (hQ : ∀ r b, Q' (flipRow r) (!b) = Q r b)
    (g1 g0 g1' g0' : Row F → F) (hg1 : ∀ r, g1' (flipRow r) = g0 r) (hg0 : ∀ r, g0' (flipRow r) = g1 r)
    (t : Tgt) (generalize : Bool) :
    hajek (l.map flipRow) ω' (!a) = hajek l ω a ∧
    gformula (l.map flipRow) Q' t.flip.mem (!a) = gformula l Q t.mem a ∧
    aipw1 (l.map flipRow) Q' g1' g0' = aipw0 l Q g1 g0 ∧
    aipw0 (l.map flipRow) Q' g1' g0' = aipw1 l Q g1 g0 ∧
    ipsw (l.map flipRow) ω' (!a) = ipsw l ω a ∧
    gtransport generalize (l.map flipRow) Q' (!a) = gtransport generalize l Q a ∧
    aipsw generalize (l.map flipRow) Q' ω' (!a) = aipsw generalize l Q ω a := by
  have harm : ∀ r : Row F, ((flipRow r).a == !a) = (r.a == a) := by
    intro r; show ((!r.a) == !a) = (r.a == a); cases r.a <;> cases a <;> rfl
  have hmem : ∀ r : Row F, t.flip.mem (flipRow r) = t.mem r := by
    intro r; cases t <;> simp [Tgt.flip, Tgt.mem, flipRow]
  have hQ1 : ∀ r : Row F, Q' (flipRow r) true = Q r false := fun r => hQ r false
  have hQ0 : ∀ r : Row F, Q' (flipRow r) false = Q r true := fun r => hQ r true
  have hh : hajek (l.map flipRow) ω' (!a) = hajek l ω a := by
    simp only [hajek, sumIf_map, harm, hω]; rfl
  refine ⟨hh, ?_, ?_, ?_, hh, ?_, ?_⟩
  · simp only [gformula, W, sumIf_map, hQ, hmem]; rfl
  · simp only [aipw1, aipw0, wmean, sumBy_map]
    congr 1
    apply sumBy_congr; intro r _
    rw [hQ1, hQ0, hg1, hg0]
    show r.w * Gen.aipw_y1 (!r.a) r.y _ _ _ _ = r.w * Gen.aipw_y0 r.a r.y _ _ _ _
    cases r.a <;> simp [Gen.aipw_y1, Gen.aipw_y0]
  · simp only [aipw1, aipw0, wmean, sumBy_map]
    congr 1
    apply sumBy_congr; intro r _
    rw [hQ1, hQ0, hg1, hg0]
    show r.w * Gen.aipw_y0 (!r.a) r.y _ _ _ _ = r.w * Gen.aipw_y1 r.a r.y _ _ _ _
    cases r.a <;> simp [Gen.aipw_y1, Gen.aipw_y0]
  · simp only [gtransport, gformula, W, sumIf_map, hQ]; rfl
  · simp only [aipsw, W, sumIf_map, harm, hQ, hω]; rfl


/-- **flip_measures.**  IPTW with the generated weight formulas: recode `A ↦ 1 − A`, fitted probabilities
    `n ↦ 1 − n`, `p ↦ 1 − p`, missingness weights unchanged, target renamed.  The arm means swap, hence the
    risk / mean difference is negated and the risk ratio and the odds ratio are inverted. -/
theorem flip_measures (l : List (Row F)) (stab : Bool) (t : Tgt)
    (n p mw n' p' mw' : Row F → F) (hn : ∀ r, n' (flipRow r) = 1 - n r) (hp : ∀ r, p' (flipRow r) = 1 - p r)
    (hmw : ∀ r, mw' (flipRow r) = mw r) :
    let m := fun a => hajek l (iptwOmega stab t n p mw) a
    let m' := fun a => hajek (l.map flipRow) (iptwOmega stab t.flip n' p' mw') a
    (m' true = m false ∧ m' false = m true) ∧
    m' true - m' false = -(m true - m false) ∧
    m' true / m' false = (m true / m false)⁻¹ ∧
    (m' true / (1 - m' true)) / (m' false / (1 - m' false)) = ((m true / (1 - m true)) / (m false / (1 - m false)))⁻¹ := by
  intro m m'
  have hω : ∀ r, iptwOmega stab t.flip n' p' mw' (flipRow r) = iptwOmega stab t n p mw r := by
    intro r
    simp only [iptwOmega, hn, hp, hmw]
    show Gen.iptw_weight stab t.flip.str (!r.a) _ _ * _ = _
    rw [iptw_weight_flip]
  have h1 : m' true = m false :=
    (flip_treatment l false _ _ hω (fun _ _ => (0 : F)) (fun _ _ => 0) (fun _ _ => rfl)
      (fun _ => 0) (fun _ => 0) (fun _ => 0) (fun _ => 0) (fun _ => rfl) (fun _ => rfl) t true).1
  have h0 : m' false = m true :=
    (flip_treatment l true _ _ hω (fun _ _ => (0 : F)) (fun _ _ => 0) (fun _ _ => rfl)
      (fun _ => 0) (fun _ => 0) (fun _ => 0) (fun _ => 0) (fun _ => rfl) (fun _ => rfl) t true).1
  refine ⟨⟨h1, h0⟩, ?_, ?_, ?_⟩
  · rw [h1, h0]; ring
  · rw [h1, h0, inv_div]
  · rw [h1, h0, inv_div]

/-- **flip_variance.**  Under the same recoding every row's AIPTW pseudo-outcome difference changes sign, so the
    estimate is negated and the influence-curve variance (the square of the reported standard error) is unchanged. -/
theorem flip_variance (l : List (Row F))
    (Q Q' : Row F → Bool → F) (hQ : ∀ r b, Q' (flipRow r) (!b) = Q r b)
    (g1 g0 g1' g0' : Row F → F) (hg1 : ∀ r, g1' (flipRow r) = g0 r) (hg0 : ∀ r, g0' (flipRow r) = g1 r) :
    aipwEst (l.map flipRow) Q' g1' g0' = - aipwEst l Q g1 g0 ∧
    aipwVar (l.map flipRow) Q' g1' g0' = aipwVar l Q g1 g0 := by
  have hd : ∀ r : Row F, aipwDiff Q' g1' g0' (flipRow r) = -1 * aipwDiff Q g1 g0 r := by
    intro r
    have hQ1 : Q' (flipRow r) true = Q r false := hQ r false
    have hQ0 : Q' (flipRow r) false = Q r true := hQ r true
    unfold aipwDiff
    rw [hQ1, hQ0, hg1, hg0]
    show Gen.aipw_y1 (!r.a) r.y _ _ _ _ - Gen.aipw_y0 (!r.a) r.y _ _ _ _ = _
    cases r.a <;> simp [Gen.aipw_y1, Gen.aipw_y0]
  have he : aipwEst (l.map flipRow) Q' g1' g0' = -1 * aipwEst l Q g1 g0 := by
    unfold aipwEst
    rw [lmean_map, lmean_congr (fun r _ => hd r), lmean_mul_left]
  refine ⟨by rw [he]; ring, ?_⟩
  rw [aipwVar_def, aipwVar_def]
  rw [svar_map, List.length_map, he]
  rw [svar_congr (g := fun r => -1 * (aipwDiff Q g1 g0 r - aipwEst l Q g1 g0)) (fun r _ => by rw [hd r]; ring),
    svar_mul_left]
  ring

/-- the 1−A recoding of a binary exposure, as a recoding of level codes -/
def swap01 (e : Nat) : Nat := if e = 0 then 1 else if e = 1 then 0 else e

theorem swap01_injective : Function.Injective swap01 := by
  intro x y h
  unfold swap01 at h
  split_ifs at h <;> omega

/-- **flip on the effect-measure frames** (uses C07's `rr_swap`, `rd_swap`, `or_swap` for the generated count
    functions): recoding a binary exposure as `1 − E` and keeping reference code 0 presents the count function
    with the table of the original frame with its two rows exchanged; hence the risk ratio and odds ratio are
    inverted, the risk difference negated, and all three standard errors unchanged. -/
theorem flip_frame (rows : List (Measures.MRow F)) (ppf : F → F) (infv α : F)
    (ha : 0 < Measures.cntED rows 1 true) (hb : 0 < Measures.cntED rows 1 false)
    (hc : 0 < Measures.cntED rows 0 true) (hd : 0 < Measures.cntED rows 0 false) :
    let tab := fun (rs : List (Measures.MRow F)) (f : F → F → F → F → Except Err (Results F)) =>
      f ((Measures.cntED rs 1 true : Nat) : F) ((Measures.cntED rs 1 false : Nat) : F)
        ((Measures.cntED rs 0 true : Nat) : F) ((Measures.cntED rs 0 false : Nat) : F)
    let rows' := rows.map (Measures.relabelE swap01)
    (∀ r r', tab rows (fun a b c d => Gen.risk_ratio ppf infv a b c d α) = .ok r →
        tab rows' (fun a b c d => Gen.risk_ratio ppf infv a b c d α) = .ok r' → r'.point = 1 / r.point ∧ r'.se = r.se) ∧
    (∀ r r', tab rows (fun a b c d => Gen.risk_difference ppf infv a b c d α) = .ok r →
        tab rows' (fun a b c d => Gen.risk_difference ppf infv a b c d α) = .ok r' → r'.point = - r.point ∧ r'.se = r.se) ∧
    (∀ r r', tab rows (fun a b c d => Gen.odds_ratio ppf infv a b c d α) = .ok r →
        tab rows' (fun a b c d => Gen.odds_ratio ppf infv a b c d α) = .ok r' → r'.point = 1 / r.point ∧ r'.se = r.se) := by
  intro tab rows'
  have h1 : ∀ dv, Measures.cntED rows' 1 dv = Measures.cntED rows 0 dv :=
    fun dv => (relabel_invariant_counts swap01 swap01_injective rows 0 dv).1
  have h0 : ∀ dv, Measures.cntED rows' 0 dv = Measures.cntED rows 1 dv :=
    fun dv => (relabel_invariant_counts swap01 swap01_injective rows 1 dv).1
  have pa : (0 : F) < ((Measures.cntED rows 1 true : Nat) : F) := by exact_mod_cast ha
  have pb : (0 : F) < ((Measures.cntED rows 1 false : Nat) : F) := by exact_mod_cast hb
  have pc : (0 : F) < ((Measures.cntED rows 0 true : Nat) : F) := by exact_mod_cast hc
  have pd : (0 : F) < ((Measures.cntED rows 0 false : Nat) : F) := by exact_mod_cast hd
  refine ⟨?_, ?_, ?_⟩ <;> intro r r' hr hr' <;> simp only [tab, h1, h0] at hr hr'
  · exact P07.rr_swap ppf infv _ _ _ _ α pa pb pc pd r r' hr hr'
  · exact P07.rd_swap ppf infv _ _ _ _ α pa pb pc pd r r' hr hr'
  · exact P07.or_swap ppf infv _ _ _ _ α pa pb pc pd r r' hr hr'


/-! ### StochasticIPTW: the same three relations for the stochastic-plan weighted mean -/

/-- **stoch_invariant.**  `StochasticIPTW.fit` is a function of the row multiset; recoding `A ↦ 1 − A` with the
    plan's probability `p ↦ 1 − p` and the fitted propensity `π ↦ 1 − π` leaves every row weight, hence the
    marginal outcome, unchanged; `Y ↦ cY + d` maps the marginal outcome to `c·m + d`. -/
theorem stoch_invariant (l : List (Row F)) (p π : Row F → F) :
    (∀ l₂, l.Perm l₂ → stochMean l p π = stochMean l₂ p π) ∧
    (∀ p' π' : Row F → F, (∀ r, p' (flipRow r) = 1 - p r) → (∀ r, π' (flipRow r) = 1 - π r) →
      stochMean (l.map flipRow) p' π' = stochMean l p π) ∧
    (∀ (c d : F) (p' π' : Row F → F), (∀ r, p' (affRow c d r) = p r) → (∀ r, π' (affRow c d r) = π r) →
      sumBy (fun r => stochOmega p π r * r.w) l ≠ 0 →
      stochMean (l.map (affRow c d)) p' π' = c * stochMean l p π + d) := by
  refine ⟨?_, ?_, ?_⟩
  · intro l₂ h
    simp only [stochMean, sumBy_perm h]
  · intro p' π' hp hπ
    have hω : ∀ r : Row F, stochOmega p' π' (flipRow r) = stochOmega p π r := by
      intro r
      unfold stochOmega
      rw [hp, hπ]
      show (if (!r.a) = true then _ else _) / (if (!r.a) = true then _ else _) = _
      cases r.a <;> simp
    simp only [stochMean, sumBy_map, hω]; rfl
  · intro c d p' π' hp hπ hden
    have hω : ∀ r : Row F, stochOmega p' π' (affRow c d r) = stochOmega p π r := by
      intro r; unfold stochOmega; rw [hp, hπ]; rfl
    simp only [stochMean, sumBy_map, hω]
    show sumBy (fun r => stochOmega p π r * (r.w * (c * r.y + d))) l / sumBy (fun r => stochOmega p π r * r.w) l = _
    have : sumBy (fun r => stochOmega p π r * (r.w * (c * r.y + d))) l
        = c * sumBy (fun r => stochOmega p π r * (r.w * r.y)) l + d * sumBy (fun r => stochOmega p π r * r.w) l := by
      rw [← sumBy_mul_left, ← sumBy_mul_left, ← sumBy_add]
      apply sumBy_congr; intro r _; ring
    rw [this]; field_simp


/-! ### Change of units of a continuous outcome, `Y ↦ cY + d` -/

/-- **outcome_affine.**  With the fitted outcome values of the re-expressed fit corresponding (`Q ↦ cQ + d`,
    a Gaussian identity-link fit) and weights / propensities unchanged, every arm mean becomes `c·m + d`:
    the closed form, the IPTW / IPSW weighted means, the g-formula, the AIPTW pseudo-outcome means.  The
    hypotheses are the non-degeneracy the estimator itself needs (non-zero denominators). -/
theorem outcome_affine (c d : F) (l : List (Row F)) (S : List Nat) (tm : Row F → Bool)
    (htm : ∀ r, tm (affRow c d r) = tm r) (a : Bool)
    (ω ω' : Row F → F) (hω : ∀ r, ω' (affRow c d r) = ω r)
    (Q Q' : Row F → Bool → F) (hQ : ∀ r b, Q' (affRow c d r) b = c * Q r b + d)
    (g1 g0 g1' g0' : Row F → F) (hg1 : ∀ r, g1' (affRow c d r) = g1 r) (hg0 : ∀ r, g0' (affRow c d r) = g0 r) :
    ((∀ s ∈ S, W (inCell s a) l ≠ 0) → sumBy (fun s => Ntgt tm l s) S ≠ 0 →
      std (l.map (affRow c d)) S tm a = c * std l S tm a + d) ∧
    (sumIf (fun r => r.a == a && r.obs) (fun r => ω r * r.w) l ≠ 0 →
      hajek (l.map (affRow c d)) ω' a = c * hajek l ω a + d) ∧
    (W tm l ≠ 0 → gformula (l.map (affRow c d)) Q' tm a = c * gformula l Q tm a + d) ∧
    (sumBy (fun r => r.w) l ≠ 0 → (∀ r ∈ l, r.a = true → g1 r ≠ 0) →
      aipw1 (l.map (affRow c d)) Q' g1' g0' = c * aipw1 l Q g1 g0 + d) ∧
    (sumBy (fun r => r.w) l ≠ 0 → (∀ r ∈ l, r.a = false → g0 r ≠ 0) →
      aipw0 (l.map (affRow c d)) Q' g1' g0' = c * aipw0 l Q g1 g0 + d) := by
  -- a weighted total of the re-expressed outcome
  have htot : ∀ (p : Row F → Bool) (v : Row F → F),
      sumIf p (fun r => v r * (r.w * (c * r.y + d))) l
        = c * sumIf p (fun r => v r * (r.w * r.y)) l + d * sumIf p (fun r => v r * r.w) l := by
    intro p v
    rw [← sumIf_mul_left, ← sumIf_mul_left, ← sumIf_add]
    apply sumIf_congr; intro r _; split <;> ring
  have hcm : ∀ s, W (inCell s a) l ≠ 0 → cellMean (l.map (affRow c d)) s a = c * cellMean l s a + d := by
    intro s hW
    have h1 := htot (inCell s a) (fun _ => 1)
    simp only [one_mul] at h1
    unfold cellMean WY W at *
    rw [sumIf_map, sumIf_map]
    show sumIf (inCell s a) (fun r => r.w * (c * r.y + d)) l / sumIf (inCell s a) (fun r => r.w) l = _
    rw [h1]; field_simp
  refine ⟨?_, ?_, ?_, ?_, ?_⟩
  · intro hcell hden
    unfold std
    have hN : ∀ s, Ntgt tm (l.map (affRow c d)) s = Ntgt tm l s := by
      intro s; unfold Ntgt W; rw [sumIf_map]; simp only [htm]; rfl
    simp only [hN]
    rw [sumBy_congr (g := fun s => c * (Ntgt tm l s * cellMean l s a) + d * Ntgt tm l s)
      (fun s hs => by rw [hcm s (hcell s hs)]; ring), sumBy_add, sumBy_mul_left, sumBy_mul_left]
    field_simp
  · intro hden
    unfold hajek
    rw [sumIf_map, sumIf_map]
    simp only [hω]
    show sumIf (fun r => r.a == a && r.obs) (fun r => ω r * (r.w * (c * r.y + d))) l /
      sumIf (fun r => r.a == a && r.obs) (fun r => ω r * r.w) l = _
    rw [htot]; field_simp
  · intro hden
    unfold gformula W at *
    rw [sumIf_map, sumIf_map]
    simp only [hQ, htm]
    show sumIf tm (fun r => r.w * (c * Q r a + d)) l / sumIf tm (fun r => r.w) l = _
    have : sumIf tm (fun r => r.w * (c * Q r a + d)) l
        = c * sumIf tm (fun r => r.w * Q r a) l + d * sumIf tm (fun r => r.w) l := by
      rw [← sumIf_mul_left, ← sumIf_mul_left, ← sumIf_add]
      apply sumIf_congr; intro r _; split <;> ring
    rw [this]; field_simp
  · intro hden hg
    unfold aipw1 wmean
    rw [sumBy_map, sumBy_map]
    simp only [hQ, hg1, hg0]
    show sumBy (fun r => r.w * Gen.aipw_y1 r.a (c * r.y + d) _ _ _ _) l / sumBy (fun r => r.w) l = _
    have : sumBy (fun r => r.w * Gen.aipw_y1 r.a (c * r.y + d) (c * Q r true + d) (c * Q r false + d) (g1 r) (g0 r)) l
        = c * sumBy (fun r => r.w * Gen.aipw_y1 r.a r.y (Q r true) (Q r false) (g1 r) (g0 r)) l
          + d * sumBy (fun r => r.w) l := by
      rw [← sumBy_mul_left, ← sumBy_mul_left, ← sumBy_add]
      apply sumBy_congr; intro r hr
      cases ha : r.a
      · simp [Gen.aipw_y1]; ring
      · have := hg r hr ha
        simp [Gen.aipw_y1]; field_simp; ring
    rw [this]; field_simp
  · intro hden hg
    unfold aipw0 wmean
    rw [sumBy_map, sumBy_map]
    simp only [hQ, hg1, hg0]
    show sumBy (fun r => r.w * Gen.aipw_y0 r.a (c * r.y + d) _ _ _ _) l / sumBy (fun r => r.w) l = _
    have : sumBy (fun r => r.w * Gen.aipw_y0 r.a (c * r.y + d) (c * Q r true + d) (c * Q r false + d) (g1 r) (g0 r)) l
        = c * sumBy (fun r => r.w * Gen.aipw_y0 r.a r.y (Q r true) (Q r false) (g1 r) (g0 r)) l
          + d * sumBy (fun r => r.w) l := by
      rw [← sumBy_mul_left, ← sumBy_mul_left, ← sumBy_add]
      apply sumBy_congr; intro r hr
      cases ha : r.a
      · have := hg r hr ha
        simp [Gen.aipw_y0]; field_simp; ring
      · simp [Gen.aipw_y0]; ring
    rw [this]; field_simp

/-- **outcome_affine_variance.**  Same setting: every row's AIPTW pseudo-outcome difference is multiplied by `c`
    (the shift `d` cancels inside the difference), so the ATE is multiplied by `c` and its influence-curve
    variance by `c²` — the reported standard error (its square root) by `|c|`. -/
theorem outcome_affine_variance (c d : F) (l : List (Row F))
    (Q Q' : Row F → Bool → F) (hQ : ∀ r b, Q' (affRow c d r) b = c * Q r b + d)
    (g1 g0 g1' g0' : Row F → F) (hg1 : ∀ r, g1' (affRow c d r) = g1 r) (hg0 : ∀ r, g0' (affRow c d r) = g0 r)
    (hg : ∀ r ∈ l, (r.a = true → g1 r ≠ 0) ∧ (r.a = false → g0 r ≠ 0)) :
    aipwEst (l.map (affRow c d)) Q' g1' g0' = c * aipwEst l Q g1 g0 ∧
    aipwVar (l.map (affRow c d)) Q' g1' g0' = c * c * aipwVar l Q g1 g0 := by
  have hd : ∀ r ∈ l, aipwDiff Q' g1' g0' (affRow c d r) = c * aipwDiff Q g1 g0 r := by
    intro r hr
    unfold aipwDiff
    rw [hQ, hQ, hg1, hg0]
    show Gen.aipw_y1 r.a (c * r.y + d) _ _ _ _ - Gen.aipw_y0 r.a (c * r.y + d) _ _ _ _ = _
    cases ha : r.a
    · have := (hg r hr).2 ha
      simp [Gen.aipw_y1, Gen.aipw_y0]; field_simp; ring
    · have := (hg r hr).1 ha
      simp [Gen.aipw_y1, Gen.aipw_y0]; field_simp; ring
  have he : aipwEst (l.map (affRow c d)) Q' g1' g0' = c * aipwEst l Q g1 g0 := by
    unfold aipwEst
    rw [lmean_map, lmean_congr hd, lmean_mul_left]
  refine ⟨he, ?_⟩
  rw [aipwVar_def, aipwVar_def]
  rw [svar_map, List.length_map, he]
  rw [svar_congr (g := fun r => c * (aipwDiff Q g1 g0 r - aipwEst l Q g1 g0)) (fun r hr => by rw [hd r hr]; ring),
    svar_mul_left]
  ring

/-- **TMLE, `c > 0`** (generated `tmle_unit_bounds` / `tmle_unit_unbound`): with the new minimum `c·min + d` and
    maximum `c·max + d` the bounded unit-scale outcome is *the same number*, so the whole targeting step sees
    identical inputs, and mapping a unit-scale prediction back gives `c·(old value) + d`. -/
theorem tmle_unit_affine_pos (c d : F) (hc : 0 < c) (y q mini maxi bound : F) :
    Gen.tmle_unit_bounds (c * y + d) (c * mini + d) (c * maxi + d) bound = Gen.tmle_unit_bounds y mini maxi bound ∧
    Gen.tmle_unit_unbound q (c * mini + d) (c * maxi + d) = c * Gen.tmle_unit_unbound q mini maxi + d := by
  constructor
  · have h : (c * y + d - (c * mini + d)) / (c * maxi + d - (c * mini + d)) = (y - mini) / (maxi - mini) := by
      rw [show c * y + d - (c * mini + d) = c * (y - mini) by ring,
        show c * maxi + d - (c * mini + d) = c * (maxi - mini) by ring, mul_div_mul_left _ _ hc.ne']
    simp only [Gen.tmle_unit_bounds, h]
  · simp only [Gen.tmle_unit_unbound]; ring

/-- **TMLE, `c < 0`**: minimum and maximum exchange roles (`min' = c·max + d`, `max' = c·min + d`); the bounded
    unit-scale outcome becomes `1 − Y*` (the clipping to `[bound, 1 − bound]` is symmetric for `bound ≤ 1/2`),
    and mapping `1 − q` back gives `c·(old value) + d`: the targeting step sees the mirrored problem. -/
theorem tmle_unit_affine_neg (c d : F) (hc : c < 0) (y q mini maxi bound : F) (hmm : mini ≠ maxi)
    (hb : bound ≤ 1 - bound) :
    Gen.tmle_unit_bounds (c * y + d) (c * maxi + d) (c * mini + d) bound = 1 - Gen.tmle_unit_bounds y mini maxi bound ∧
    Gen.tmle_unit_unbound (1 - q) (c * maxi + d) (c * mini + d) = c * Gen.tmle_unit_unbound q mini maxi + d := by
  constructor
  · have hne : maxi - mini ≠ 0 := sub_ne_zero.mpr (Ne.symm hmm)
    have h : (c * y + d - (c * maxi + d)) / (c * mini + d - (c * maxi + d)) = 1 - (y - mini) / (maxi - mini) := by
      rw [show c * y + d - (c * maxi + d) = c * (y - maxi) by ring,
        show c * mini + d - (c * maxi + d) = c * (mini - maxi) by ring, mul_div_mul_left _ _ hc.ne]
      have : mini - maxi ≠ 0 := sub_ne_zero.mpr hmm
      field_simp; ring
    simp only [Gen.tmle_unit_bounds, h, Nat.cast_one]
    generalize (y - mini) / (maxi - mini) = v
    split_ifs <;> linarith
  · simp only [Gen.tmle_unit_unbound]; ring

/-- consequence for the TMLE average treatment effect (difference of two unit-scale means mapped back):
    it is multiplied by `c` for either sign of `c`, and `d` drops out -/
theorem tmle_ate_affine (c d : F) (q1 q0 mini maxi : F) :
    Gen.tmle_unit_unbound q1 (c * mini + d) (c * maxi + d) - Gen.tmle_unit_unbound q0 (c * mini + d) (c * maxi + d)
      = c * (Gen.tmle_unit_unbound q1 mini maxi - Gen.tmle_unit_unbound q0 mini maxi) ∧
    Gen.tmle_unit_unbound (1 - q1) (c * maxi + d) (c * mini + d) - Gen.tmle_unit_unbound (1 - q0) (c * maxi + d) (c * mini + d)
      = c * (Gen.tmle_unit_unbound q1 mini maxi - Gen.tmle_unit_unbound q0 mini maxi) := by
  constructor <;> (simp only [Gen.tmle_unit_unbound]; ring)

/-! ### The robust (GEE sandwich) standard errors of `IPTW.fit`

`ZV.Ci.armMean / armVar / msmRD / msmRR / msmOR` (Model/Ci.lean) is the closed form of what the weighted GEE of the
saturated marginal structural model `Y ~ A` reports (independence working correlation, robust covariance with every
row its own cluster; DESIGN §3.2, measured against statsmodels by C06's gate K): the weighted arm means, their HC0
variances, and the delta-method variance of RD (identity link), log RR (log link), log OR (logit link). -/

/-- **msm_perm_invariant.**  Estimates and robust variances of the saturated MSM are functions of the row multiset
    (the weight `_ipfw_` travels with its row). -/
theorem msm_perm_invariant {l₁ l₂ : List (Ci.MRow F)} (h : l₁.Perm l₂) :
    (∀ a, Ci.armMean l₁ a = Ci.armMean l₂ a ∧ Ci.armVar l₁ a = Ci.armVar l₂ a) ∧
    Ci.msmRD l₁ = Ci.msmRD l₂ ∧ Ci.msmRR l₁ = Ci.msmRR l₂ ∧ Ci.msmOR l₁ = Ci.msmOR l₂ := by
  have hm := Ci.armMean_perm h
  have hv := Ci.armVar_perm h
  exact ⟨fun a => ⟨hm a, hv a⟩, by simp only [Ci.msmRD, hm, hv], by simp only [Ci.msmRR, hm, hv],
    by simp only [Ci.msmOR, hm, hv]⟩

/-- **msm_flip.**  Recode `A ↦ 1 − A` (row weights unchanged: `iptw_weight_flip`): the two arm means and their
    sandwich variances swap (so the GEE's intercept row is the other arm's); the risk difference is negated, the
    risk ratio and the odds ratio are inverted, and the robust variance of RD, of log RR and of log OR — the square
    of the reported `SE(RD)`, `SE(log(RR))`, `SE(log(OR))` — is unchanged.  No side condition. -/
theorem msm_flip (rows : List (Ci.MRow F)) :
    let rows' := rows.map Ci.flipM
    (∀ a, Ci.armMean rows' (!a) = Ci.armMean rows a ∧ Ci.armVar rows' (!a) = Ci.armVar rows a) ∧
    Ci.msmRD rows' = (-(Ci.msmRD rows).1, (Ci.msmRD rows).2) ∧
    Ci.msmRR rows' = (((Ci.msmRR rows).1)⁻¹, (Ci.msmRR rows).2) ∧
    Ci.msmOR rows' = (((Ci.msmOR rows).1)⁻¹, (Ci.msmOR rows).2) := by
  intro rows'
  have m1 : Ci.armMean rows' true = Ci.armMean rows false := Ci.armMean_flip rows false
  have m0 : Ci.armMean rows' false = Ci.armMean rows true := Ci.armMean_flip rows true
  have v1 : Ci.armVar rows' true = Ci.armVar rows false := Ci.armVar_flip rows false
  have v0 : Ci.armVar rows' false = Ci.armVar rows true := Ci.armVar_flip rows true
  refine ⟨fun a => ⟨Ci.armMean_flip rows a, Ci.armVar_flip rows a⟩, ?_, ?_, ?_⟩
  · simp only [Ci.msmRD, m1, m0, v1, v0, Prod.mk.injEq]
    exact ⟨by ring, add_comm _ _⟩
  · simp only [Ci.msmRR, m1, m0, v1, v0, Prod.mk.injEq]
    exact ⟨(inv_div _ _).symm, add_comm _ _⟩
  · simp only [Ci.msmOR, m1, m0, v1, v0, Prod.mk.injEq]
    exact ⟨(inv_div _ _).symm, add_comm _ _⟩

/-- **msm_affine.**  Change of units `Y ↦ cY + d` of a continuous outcome (Gaussian family, identity link; weights
    unchanged; both arms have non-zero total weight — what the fit itself needs): each arm mean becomes `c·m + d`,
    each sandwich variance is multiplied by `c²`; the mean difference is multiplied by `c`, its robust variance by
    `c²` (the reported `SE(ATE)` by `|c|`) and `d` drops out. -/
theorem msm_affine (c d : F) (rows : List (Ci.MRow F)) (h1 : Ci.armW rows true ≠ 0) (h0 : Ci.armW rows false ≠ 0) :
    let rows' := rows.map (Ci.affM c d)
    (∀ a, Ci.armMean rows' a = c * Ci.armMean rows a + d ∧ Ci.armVar rows' a = c * c * Ci.armVar rows a) ∧
    Ci.msmRD rows' = (c * (Ci.msmRD rows).1, c * c * (Ci.msmRD rows).2) := by
  intro rows'
  have hw : ∀ a, Ci.armW rows a ≠ 0 := fun a => by cases a <;> assumption
  have hm := fun a => Ci.armMean_aff c d rows a (hw a)
  have hv := fun a => Ci.armVar_aff c d rows a (hw a)
  refine ⟨fun a => ⟨hm a, hv a⟩, ?_⟩
  simp only [Ci.msmRD, rows', hm, hv, Prod.mk.injEq]
  exact ⟨by ring, by ring⟩

/-- **iptw_msm_relabel.**  The same three statements for `IPTW.fit` from the fitted probabilities on: the GEE's rows
    are the rows with an observed outcome weighted by `_ipfw_` = generated `iptw_calculator` formula × missingness
    weight × frequency weight (`Ci.msmRows l (iptwOmega …)`); its arm means are the Hájek means the other C08 / C01
    theorems are about.  (i) row permutation; (ii) `A ↦ 1 − A` with fitted probabilities `n ↦ 1 − n`, `p ↦ 1 − p`,
    missingness weights unchanged and the target renamed; (iii) `Y ↦ cY + d` with all fitted probabilities
    unchanged. -/
theorem iptw_msm_relabel (l : List (Row F)) (stab : Bool) (t : Tgt) (n p mw : Row F → F) :
    let ω := iptwOmega stab t n p mw
    (∀ a, Ci.armMean (Ci.msmRows l ω) a = hajek l ω a) ∧
    (∀ l₂, l.Perm l₂ →
      Ci.msmRD (Ci.msmRows l₂ ω) = Ci.msmRD (Ci.msmRows l ω) ∧ Ci.msmRR (Ci.msmRows l₂ ω) = Ci.msmRR (Ci.msmRows l ω) ∧
      Ci.msmOR (Ci.msmRows l₂ ω) = Ci.msmOR (Ci.msmRows l ω)) ∧
    (∀ n' p' mw' : Row F → F, (∀ r, n' (flipRow r) = 1 - n r) → (∀ r, p' (flipRow r) = 1 - p r) →
      (∀ r, mw' (flipRow r) = mw r) →
      let rows' := Ci.msmRows (l.map flipRow) (iptwOmega stab t.flip n' p' mw')
      Ci.msmRD rows' = (-(Ci.msmRD (Ci.msmRows l ω)).1, (Ci.msmRD (Ci.msmRows l ω)).2) ∧
      Ci.msmRR rows' = (((Ci.msmRR (Ci.msmRows l ω)).1)⁻¹, (Ci.msmRR (Ci.msmRows l ω)).2) ∧
      Ci.msmOR rows' = (((Ci.msmOR (Ci.msmRows l ω)).1)⁻¹, (Ci.msmOR (Ci.msmRows l ω)).2)) ∧
    (∀ (c d : F) (n' p' mw' : Row F → F), (∀ r, n' (affRow c d r) = n r) → (∀ r, p' (affRow c d r) = p r) →
      (∀ r, mw' (affRow c d r) = mw r) →
      Ci.armW (Ci.msmRows l ω) true ≠ 0 → Ci.armW (Ci.msmRows l ω) false ≠ 0 →
      Ci.msmRD (Ci.msmRows (l.map (affRow c d)) (iptwOmega stab t n' p' mw'))
        = (c * (Ci.msmRD (Ci.msmRows l ω)).1, c * c * (Ci.msmRD (Ci.msmRows l ω)).2)) := by
  intro ω
  refine ⟨fun a => Ci.armMean_msmRows l ω a, ?_, ?_, ?_⟩
  · intro l₂ h
    have := msm_perm_invariant (Ci.msmRows_perm h ω)
    exact ⟨this.2.1.symm, this.2.2.1.symm, this.2.2.2.symm⟩
  · intro n' p' mw' hn hp hmw rows'
    have hω : ∀ r, iptwOmega stab t.flip n' p' mw' (flipRow r) = ω r := by
      intro r
      simp only [ω, iptwOmega, hn, hp, hmw]
      show Gen.iptw_weight stab t.flip.str (!r.a) _ _ * _ = _
      rw [iptw_weight_flip]
    have e : rows' = (Ci.msmRows l ω).map Ci.flipM := Ci.msmRows_flip l ω _ hω
    rw [e]
    exact (msm_flip (Ci.msmRows l ω)).2
  · intro c d n' p' mw' hn hp hmw h1 h0
    have hω : ∀ r, iptwOmega stab t n' p' mw' (affRow c d r) = ω r := by
      intro r
      simp only [ω, iptwOmega, hn, hp, hmw]
      rfl
    rw [Ci.msmRows_aff c d l ω _ hω]
    exact (msm_affine c d (Ci.msmRows l ω) h1 h0).2


/-! ### TMLE: the whole targeting step under `A ↦ 1 − A`

`ZV.Tmle` (Model/Tmle.lean) is `TMLE.fit` from the clever covariates on; `Props/C03_Gen.lean` proves the definition
regenerated from the text of `TMLE.fit` equal to it (`Props/C08_Gen.lean` restates the theorem below for the generated
definition).  The recoded problem has the same outcomes and the nuisance values of the recoded fits, `g1 ↔ g0`,
`Q1 ↔ Q0` (`Tmle.flipT`; that the external fits deliver them is `score_reparam` + gate H).  With the code's clever
covariates `H1 = A/g1`, `H0 = −(1−A)/g0` one gets `H1' = −H0`, `H0' = −H1`, `QAW' = QAW`: the fluctuation
coefficients of the recoded problem are `(ε₁', ε₂') = (−ε₂, −ε₁)`.  `σ` (inverse logit) and `lg` (logit) are arbitrary
functions here: nothing about them is used. -/

/-- **tmle_flip_scores.**  `(ε₁, ε₂)` solves the two score equations of the fluctuation GLM for
    `(A, Y, g1, g0, Q1, Q0)` iff `(−ε₂, −ε₁)` solves them for `(1 − A, Y, g0, g1, Q0, Q1)` (the two scores are
    exchanged and change sign); the fluctuation model's own prediction of every row is unchanged and the two
    targeted counterfactual predictions are exchanged, `Q*₁' = Q*₀`, `Q*₀' = Q*₁`. -/
theorem tmle_flip_scores (σ lg : F → F) (e1 e2 : F) (l : List (Tmle.TRow F)) :
    (Tmle.scoreH1 σ lg (-e2) (-e1) (l.map Tmle.flipT) = - Tmle.scoreH0 σ lg e1 e2 l ∧
     Tmle.scoreH0 σ lg (-e2) (-e1) (l.map Tmle.flipT) = - Tmle.scoreH1 σ lg e1 e2 l) ∧
    ((Tmle.scoreH1 σ lg e1 e2 l = 0 ∧ Tmle.scoreH0 σ lg e1 e2 l = 0) ↔
     (Tmle.scoreH1 σ lg (-e2) (-e1) (l.map Tmle.flipT) = 0 ∧ Tmle.scoreH0 σ lg (-e2) (-e1) (l.map Tmle.flipT) = 0)) ∧
    (∀ r, Tmle.h1 (Tmle.flipT r) = - Tmle.h0 r ∧ Tmle.h0 (Tmle.flipT r) = - Tmle.h1 r ∧
      Tmle.qstarA σ lg (-e2) (-e1) (Tmle.flipT r) = Tmle.qstarA σ lg e1 e2 r ∧
      Tmle.qstar1 σ lg (-e2) (Tmle.flipT r) = Tmle.qstar0 σ lg e2 r ∧
      Tmle.qstar0 σ lg (-e1) (Tmle.flipT r) = Tmle.qstar1 σ lg e1 r) := by
  have h1 := Tmle.scoreH1_flip σ lg e1 e2 l
  have h0 := Tmle.scoreH0_flip σ lg e1 e2 l
  refine ⟨⟨h1, h0⟩, ?_, fun r => ⟨Tmle.h1_flip r, Tmle.h0_flip r, Tmle.qstarA_flip σ lg e1 e2 r,
    Tmle.qstar1_flip σ lg e2 r, Tmle.qstar0_flip σ lg e1 r⟩⟩
  rw [h1, h0, neg_eq_zero, neg_eq_zero]
  exact and_comm

/-- **tmle_flip.**  Everything `TMLE.fit` reports for a binary outcome, at corresponding fluctuation coefficients
    (`tmle_flip_scores`): the vector of targeted predictions under the observed treatment is unchanged, the two
    counterfactual vectors are exchanged, the risk difference is negated, the risk ratio and the odds ratio are
    inverted, and the three influence-curve standard errors — of RD, of log RR, of log OR — are unchanged (each
    influence value changes sign row by row).  Missing outcomes (`obs = false`) included. -/
theorem tmle_flip (σ lg : F → F) (e1 e2 : F) (l : List (Tmle.TRow F)) :
    let f := Tmle.fitBinary σ lg e1 e2 l
    let f' := Tmle.fitBinary σ lg (-e2) (-e1) (l.map Tmle.flipT)
    f'.sA = f.sA ∧ f'.s1 = f.s0 ∧ f'.s0 = f.s1 ∧
    f'.rd = - f.rd ∧ f'.rdSe = f.rdSe ∧ f'.rr = f.rr⁻¹ ∧ f'.rrSe = f.rrSe ∧ f'.or_ = f.or_⁻¹ ∧ f'.orSe = f.orSe :=
  Tmle.fitBinary_flip σ lg e1 e2 l

/-- **tmle_flip_continuous.**  Continuous outcome (bounded to the unit interval, mapped back with the generated
    `tmle_unit_unbound`; the bounds `mini`, `maxi` do not depend on the treatment coding): the average treatment
    effect is negated and its influence-curve standard error is unchanged. -/
theorem tmle_flip_continuous (σ lg : F → F) (e1 e2 mini maxi : F) (l : List (Tmle.TRow F)) :
    let f := Tmle.fitContinuous σ lg e1 e2 mini maxi l
    let f' := Tmle.fitContinuous σ lg (-e2) (-e1) mini maxi (l.map Tmle.flipT)
    f'.sA = f.sA ∧ f'.s1 = f.s0 ∧ f'.s0 = f.s1 ∧ f'.rd = - f.rd ∧ f'.rdSe = f.rdSe :=
  Tmle.fitContinuous_flip σ lg e1 e2 mini maxi l


/-! ### IterativeCondGFormula: the backward recursion under row permutation and recoding of the covariates

`ZV.Ice.fit` (Model/Ice.lean) is `IterativeCondGFormula.fit`: backward sequential regression, pseudo-outcome =
earlier prediction unless missing, prediction under the plan, NaN-skipping mean of the first prediction.  The
sequential fits enter as the function `μ` (prediction of the step-`k` model at a treatment / covariate history). -/

/-- **ice_perm_invariant.**  For any fitted function, the whole `fit` — estimate or rejection — is a function of the
    multiset of individuals: a 1-d plan with the rows permuted, a 2-d plan whose rows travel with the individuals. -/
theorem ice_perm_invariant (spec : Bool) (μ : List Bool → List Nat → F) (K : Nat) :
    (∀ (g : List Bool) (rows₁ rows₂ : List Ice.WRow), rows₁.Perm rows₂ →
      Ice.fit spec μ (.single g) rows₁ K = Ice.fit spec μ (.single g) rows₂ K) ∧
    (∀ (p₁ p₂ : List (List Bool × Ice.WRow)), p₁.Perm p₂ →
      Ice.fit spec μ (.matrix (p₁.map Prod.fst)) (p₁.map Prod.snd) K
        = Ice.fit spec μ (.matrix (p₂.map Prod.fst)) (p₂.map Prod.snd) K) :=
  ⟨fun g _ _ h => IceInv.fit_single_perm spec μ g h K, fun _ _ h => IceInv.fit_matrix_perm spec μ h K⟩

/-- **ice_perm_invariant_cellfit.**  Two runs on permuted data, *each with its own sequential fits* `μ₁`, `μ₂`
    (saturated models: each satisfies the cell score equations of its own data — the fits may differ off the plan
    and in empty cells), under the hypotheses of `P12.ice_eq_npgformula` on the first data set: both return the
    nonparametric g-formula value, which is computed from cell counts, hence the same number. -/
theorem ice_perm_invariant_cellfit (μ₁ μ₂ : List Bool → List Nat → F) (g : List Bool) {rows₁ rows₂ : List Ice.WRow}
    (h : rows₁.Perm rows₂) (K : Nat) (levels : List Nat) (hK : 0 < K) (hwf : Ice.wellFormed K rows₁ = true)
    (hg : g.length = K) (hsurv : ∀ r ∈ rows₁, Ice.survType r.ys = true) (hnd : levels.Nodup)
    (hcov : Ice.levelsCover levels rows₁ = true) (hpos : Ice.planPositive levels g rows₁ K = true)
    (hfit₁ : Ice.IsCellFit μ₁ g rows₁ K) (hfit₂ : Ice.IsCellFit μ₂ g rows₂ K) :
    Ice.fit true μ₂ (.single g) rows₂ K = Ice.fit true μ₁ (.single g) rows₁ K ∧
    Ice.fit true μ₁ (.single g) rows₁ K = .ok (Ice.npg levels g rows₁ K) := by
  have e1 := P12.ice_eq_npgformula μ₁ g rows₁ K levels hK hwf hg hsurv hnd hcov hfit₁ hpos
  have e2 := P12.ice_eq_npgformula μ₂ g rows₂ K levels hK (by rw [← IceInv.wellFormed_perm h]; exact hwf) hg
    (fun r hr => hsurv r (h.mem_iff.mpr hr)) hnd (by rw [← IceInv.levelsCover_perm h]; exact hcov) hfit₂
    (by rw [← IceInv.planPositive_perm h]; exact hpos)
  rw [e1, e2, IceInv.npg_perm h]
  exact ⟨rfl, rfl⟩

/-- the cell score equations themselves are permutation invariant: a fit of the data is a fit of the permuted data -/
theorem ice_cellfit_perm (μ : List Bool → List Nat → F) (g : List Bool) {rows₁ rows₂ : List Ice.WRow}
    (h : rows₁.Perm rows₂) (K : Nat) : Ice.IsCellFit μ g rows₁ K ↔ Ice.IsCellFit μ g rows₂ K :=
  ⟨IceInv.isCellFit_perm h g μ K, IceInv.isCellFit_perm h.symm g μ K⟩

/-- **ice_relabel_invariant.**  Recode the covariate values by an injective map at every time point (`φ k` at time
    `k`, left inverse `ψ k`; `IceInv.relabelW φ` recodes an individual).  (i) For any fitted function `μ` the
    recursion run on the recoded data with the corresponding fitted function (`μ` read through `ψ`) returns the
    same value, for every plan; (ii) that function satisfies the cell score equations of the recoded data when `μ`
    satisfies those of the original data; (iii) hence *any* saturated sequential fits `μ₂` of the recoded data give
    the estimate of the original run, under the hypotheses of `P12.ice_eq_npgformula` on the original data (the
    level list and positivity of the recoded data are derived, not assumed). -/
theorem ice_relabel_invariant (φ ψ : Nat → Nat → Nat) (hψ : ∀ k l, ψ k (φ k l) = l)
    (μ : List Bool → List Nat → F) (rows : List Ice.WRow) (K : Nat) :
    (∀ spec plan, Ice.fit spec (IceInv.muRelab ψ μ) plan (rows.map (IceInv.relabelW φ)) K = Ice.fit spec μ plan rows K) ∧
    (∀ g, Ice.IsCellFit μ g rows K → Ice.IsCellFit (IceInv.muRelab ψ μ) g (rows.map (IceInv.relabelW φ)) K) ∧
    (∀ (μ₂ : List Bool → List Nat → F) (g : List Bool) (levels : List Nat), 0 < K → Ice.wellFormed K rows = true →
      g.length = K → (∀ r ∈ rows, Ice.survType r.ys = true) → levels.Nodup → Ice.levelsCover levels rows = true →
      Ice.planPositive levels g rows K = true → Ice.IsCellFit μ g rows K →
      Ice.IsCellFit μ₂ g (rows.map (IceInv.relabelW φ)) K →
      Ice.fit true μ₂ (.single g) (rows.map (IceInv.relabelW φ)) K = Ice.fit true μ (.single g) rows K) := by
  refine ⟨fun spec plan => IceInv.fit_relab φ ψ hψ spec μ plan rows K,
    fun g hf => IceInv.isCellFit_relab φ ψ hψ μ g rows K hf, ?_⟩
  intro μ₂ g levels hK hwf hg hsurv hnd hcov hpos hfit hfit₂
  have hwf' := IceInv.wellFormed_relab φ K rows hwf
  have hsurv' : ∀ r ∈ rows.map (IceInv.relabelW φ), Ice.survType r.ys = true := by
    intro r' hr'
    obtain ⟨r, hr, rfl⟩ := List.mem_map.mp hr'
    exact hsurv r hr
  have hnd' := IceInv.relabLevels_nodup φ K levels
  have hcov' := IceInv.levelsCover_relab φ K levels rows hwf hcov
  have hpos' := IceInv.planPositive_relab φ ψ hψ g rows levels (IceInv.relabLevels φ K levels) hcov K hpos
  rw [P12.ice_eq_npgformula μ₂ g _ K _ hK hwf' hg hsurv' hnd' hcov' hfit₂ hpos',
    ← P12.ice_eq_npgformula (IceInv.muRelab ψ μ) g _ K _ hK hwf' hg hsurv' hnd' hcov'
      (IceInv.isCellFit_relab φ ψ hψ μ g rows K hfit) hpos']
  exact IceInv.fit_relab φ ψ hψ true μ (.single g) rows K


/-! ### SurvivalGFormula under `A ↦ 1 − A` -/

/-- **survival_flip.**  Recode the exposure of every person-period record (`SurvGF.flipL`: same id, time, outcome;
    the two predictions of the recoded outcome model exchanged, `h1 ↔ h0`).  Treat-all in the new coding is treat-none
    in the old one and the natural course stays the natural course (`Plan.flip`); every individual's predicted
    cumulative incidence, the marginal curve at every time, its index, and the product-limit curve of the renamed arm
    are unchanged.  (A custom plan is a condition chosen by the user in terms of the coding; it is excluded.) -/
theorem survival_flip (p : SurvGF.Plan) (hp : p ≠ .custom) (rows : List (SurvGF.LRow F)) :
    SurvGF.cumInc p.flip (rows.map SurvGF.flipL) = SurvGF.cumInc p rows ∧
    (∀ t, SurvGF.marginalAt p.flip (rows.map SurvGF.flipL) t = SurvGF.marginalAt p rows t) ∧
    SurvGF.marginal p.flip (rows.map SurvGF.flipL) = SurvGF.marginal p rows ∧
    (∀ b t, SurvGF.productLimit (rows.map SurvGF.flipL) (!b) t = SurvGF.productLimit rows b t) := by
  refine ⟨SurvGF.cumInc_flip p hp rows, SurvGF.marginalAt_flip p hp rows, ?_,
    fun b t => SurvGF.productLimit_flip rows b t⟩
  unfold SurvGF.marginal
  rw [SurvGF.times_flip]
  apply List.map_congr_left
  intro t _
  exact SurvGF.marginalAt_flip p hp rows t


/-! ### Closed-form g-estimation of a structural nested mean model -/

/-- **snm_affine.**  `ψ` solves the estimating equations `Σ w(A−π)V_k (Y − A Σ_j ψ_j V_j) = 0` for the outcome
    `Y`; if the exposure model's score equation holds for every modifier (`Σ w(A−π)V_k = 0`: every SNM modifier
    is a term of the exposure model) then `c·ψ` solves them for the outcome `cY + d`.  (Without that hypothesis
    `d` does not drop out — a property of g-estimation, see DESIGN §5.) -/
theorem snm_affine (c d : F) (l : List (SnmR.SRow F)) (D : Nat) (ψ : Nat → F)
    (hsol : ∀ k < D, SnmR.resid l D ψ k = 0) (hscore : ∀ k < D, SnmR.modScore l k = 0) :
    ∀ k < D, SnmR.resid (l.map (SnmR.affY c d)) D (fun j => c * ψ j) k = 0 := by
  intro k hk
  have hl : ∀ k j, SnmR.lhm (l.map (SnmR.affY c d)) k j = SnmR.lhm l k j := by
    intro k j; unfold SnmR.lhm; rw [sumBy_map]; rfl
  have hr : SnmR.rha (l.map (SnmR.affY c d)) k = c * SnmR.rha l k + d * SnmR.modScore l k := by
    unfold SnmR.rha SnmR.modScore
    rw [sumBy_map, ← sumBy_mul_left, ← sumBy_mul_left, ← sumBy_add]
    apply sumBy_congr; intro r _
    show SnmR.dres r * ((c * r.y + d) * r.v k) = _
    ring
  have h0 := hsol k hk
  unfold SnmR.resid at *
  simp only [hl]
  rw [hr, hscore k hk, sumBy_congr (g := fun j => c * (SnmR.lhm l k j * ψ j)) (fun j _ => by ring), sumBy_mul_left]
  have h0' : sumBy (fun j => SnmR.lhm l k j * ψ j) (List.range D) = SnmR.rha l k := sub_eq_zero.mp h0
  rw [h0']; ring

/-- the one-parameter model in closed form: `ψ(cY + d) = c·ψ(Y)` given the intercept score equation -/
theorem snm1_affine (c d : F) (l : List (SnmR.SRow F)) (hscore : SnmR.modScore l 0 = 0) :
    SnmR.solve1 (l.map (SnmR.affY c d)) = c * SnmR.solve1 l := by
  have hl : SnmR.lhm (l.map (SnmR.affY c d)) 0 0 = SnmR.lhm l 0 0 := by
    unfold SnmR.lhm; rw [sumBy_map]; rfl
  have hr : SnmR.rha (l.map (SnmR.affY c d)) 0 = c * SnmR.rha l 0 + d * SnmR.modScore l 0 := by
    unfold SnmR.rha SnmR.modScore
    rw [sumBy_map, ← sumBy_mul_left, ← sumBy_mul_left, ← sumBy_add]
    apply sumBy_congr; intro r _
    show SnmR.dres r * ((c * r.y + d) * r.v 0) = _
    ring
  unfold SnmR.solve1
  rw [hl, hr, hscore]; ring

/-- **snm_flip.**  Recode `A ↦ 1 − A` (fitted `π ↦ 1 − π`): if the exposure model's score equations hold for
    the products of modifiers (`Σ w(A−π)V_kV_j = 0`; for the one-parameter model this is the intercept equation,
    for binary / categorical modifiers in the exposure model it is the modifiers' own equations) then `−ψ`
    solves the recoded equations. -/
theorem snm_flip (l : List (SnmR.SRow F)) (D : Nat) (ψ : Nat → F)
    (hsol : ∀ k < D, SnmR.resid l D ψ k = 0) (hscore : ∀ k < D, ∀ j < D, SnmR.modScore2 l k j = 0) :
    ∀ k < D, SnmR.resid (l.map SnmR.flipA) D (fun j => - ψ j) k = 0 := by
  intro k hk
  have hdres : ∀ r : SnmR.SRow F, SnmR.dres (SnmR.flipA r) = - SnmR.dres r := by
    intro r; unfold SnmR.dres SnmR.flipA SnmR.ind; cases r.a <;> simp <;> ring
  have hl : ∀ j, SnmR.lhm (l.map SnmR.flipA) k j = SnmR.lhm l k j - SnmR.modScore2 l k j := by
    intro j
    unfold SnmR.lhm SnmR.modScore2
    rw [sumBy_map, ← sumBy_sub]
    apply sumBy_congr; intro r _
    rw [hdres]
    show -SnmR.dres r * ((SnmR.ind (!r.a) * r.v k) * (SnmR.ind (!r.a) * r.v j)) = _
    cases r.a <;> simp [SnmR.ind]
  have hr : SnmR.rha (l.map SnmR.flipA) k = - SnmR.rha l k := by
    unfold SnmR.rha
    rw [sumBy_map, ← sumBy_neg]
    apply sumBy_congr; intro r _
    rw [hdres]
    show -SnmR.dres r * (r.y * r.v k) = _
    ring
  have h0 := hsol k hk
  unfold SnmR.resid at *
  rw [hr, sumBy_congr (g := fun j => -1 * (SnmR.lhm l k j * ψ j))
    (fun j hj => by rw [hl j, hscore k hk j (List.mem_range.mp hj)]; ring), sumBy_mul_left]
  have h0' : sumBy (fun j => SnmR.lhm l k j * ψ j) (List.range D) = SnmR.rha l k := sub_eq_zero.mp h0
  rw [h0']; ring

/-! ### Why an invertible re-expression of the covariates cannot change what the estimators receive -/

/-- **score_reparam.**  Design re-expressed as `X' = X·M` with `M` invertible (`M·M⁻¹ = I` on the `p` columns):
    with coefficients `β' = M⁻¹β` every row has the same linear predictor — hence the same fitted mean under any
    link — and if the fitted means satisfy the score equations of the original design they satisfy those of the
    re-expressed design.  So the solution of the original fit, re-expressed, is a solution of the new fit with
    identical fitted values: affine maps of covariates, relabelled category codes (another reference level),
    `1 − A` are all of this form. -/
theorem score_reparam (p : Nat) (M Minv : Nat → Nat → F)
    (hinv : ∀ j < p, ∀ i < p, sumBy (fun k => M j k * Minv k i) (List.range p) = if j = i then 1 else 0)
    (rows : List (Glm.GRow F)) (β : Nat → F) :
    (∀ x : Nat → F, Glm.linpred p (Glm.reparam p M x) (Glm.mulVec p Minv β) = Glm.linpred p x β) ∧
    ((∀ j < p, Glm.score rows j = 0) → ∀ k, Glm.score (rows.map (Glm.reparamRow p M)) k = 0) := by
  constructor
  · intro x
    have hMM : ∀ j ∈ List.range p, Glm.mulVec p M (Glm.mulVec p Minv β) j = β j := by
      intro j hj
      have hjp := List.mem_range.mp hj
      unfold Glm.mulVec
      rw [sumBy_congr (g := fun k => sumBy (fun i => (M j k * Minv k i) * β i) (List.range p))
        (fun k _ => by rw [← sumBy_mul_left]; apply sumBy_congr; intro i _; ring)]
      rw [sumBy_comm]
      rw [sumBy_congr (g := fun i => if j = i then β j else 0) (fun i hi => by
        rw [sumBy_mul_right, hinv j hjp i (List.mem_range.mp hi)]
        split_ifs with h
        · subst h; ring
        · ring)]
      exact sumBy_onehot (List.range p) List.nodup_range j hj (β j)
    unfold Glm.linpred Glm.reparam
    rw [sumBy_congr (g := fun k => sumBy (fun j => x j * (M j k * Glm.mulVec p Minv β k)) (List.range p))
      (fun k _ => by rw [← sumBy_mul_right]; apply sumBy_congr; intro j _; ring)]
    rw [sumBy_comm]
    apply sumBy_congr; intro j hj
    rw [sumBy_mul_left]
    congr 1
    exact hMM j hj
  · intro hs k
    unfold Glm.score
    rw [sumBy_map]
    show sumBy (fun r => r.w * (Glm.reparam p M r.x k * (r.y - r.mu))) rows = 0
    unfold Glm.reparam
    rw [sumBy_congr (g := fun r => sumBy (fun j => M j k * (r.w * (r.x j * (r.y - r.mu)))) (List.range p))
      (fun r _ => by rw [← sumBy_mul_right, ← sumBy_mul_left]; apply sumBy_congr; intro j _; ring)]
    rw [sumBy_comm]
    rw [sumBy_congr (g := fun _ => (0 : F)) (fun j hj => by
      rw [sumBy_mul_left]
      have := hs j (List.mem_range.mp hj)
      unfold Glm.score at this
      rw [this, mul_zero])]
    exact sumBy_zero _

/-- **score_reparam_affine.**  The single-covariate case `x ↦ a·x + b` made explicit (intercept in column 0):
    coefficients `(β₀ − bβ₁/a, β₁/a)` reproduce every linear predictor, and the two score equations are
    preserved. -/
theorem score_reparam_affine (a b : F) (ha : a ≠ 0) (rows : List (Glm.GRow F)) (β0 β1 : F) :
    (∀ x : F, (β0 - b * β1 / a) + (β1 / a) * (a * x + b) = β0 + β1 * x) ∧
    (Glm.score rows 0 = 0 → Glm.score rows 1 = 0 →
      Glm.score (rows.map (Glm.affCol a b)) 0 = 0 ∧ Glm.score (rows.map (Glm.affCol a b)) 1 = 0) := by
  constructor
  · intro x; field_simp; ring
  · intro h0 h1
    have e0 : Glm.score (rows.map (Glm.affCol a b)) 0 = Glm.score rows 0 := by
      unfold Glm.score; rw [sumBy_map]; rfl
    have e1 : Glm.score (rows.map (Glm.affCol a b)) 1 = a * Glm.score rows 1 + b * Glm.score rows 0 := by
      unfold Glm.score
      rw [sumBy_map, ← sumBy_mul_left, ← sumBy_mul_left, ← sumBy_add]
      apply sumBy_congr; intro r _
      show r.w * ((a * r.x 1 + b * r.x 0) * (r.y - r.mu)) = _
      ring
    rw [e0, e1, h0, h1]; simp


/-! ### Non-vacuity: the hypotheses are met by concrete, non-trivial inputs -/
section Examples
/-- throw-away `Transc ℚ` used only to instantiate the examples -/
local instance : Transc ℚ := ⟨id, id, id⟩

/-- 2 strata, both arms in each, unequal weights -/
def exRows : List (Row ℚ) :=
  [⟨0, 0, true, 3, 1, true⟩, ⟨1, 0, false, 1, 1, true⟩, ⟨2, 1, true, 5, 2, true⟩, ⟨3, 1, false, 2, 1, true⟩,
   ⟨4, 1, false, 4, 1, true⟩, ⟨5, 0, true, 1, 1, true⟩]

-- a genuinely different order of the same rows, and a closed form that is not trivial (crude mean of arm 1 is 7/2)
example : exRows.Perm exRows.reverse := (List.reverse_perm _).symm
example : (exRows.reverse.head?.map (·.i)) = some 5 ∧ (exRows.head?.map (·.i)) = some 0 := by decide
example : std exRows [0, 1] Tgt.pop.mem true = 26 / 7 ∧ std exRows.reverse [1, 0] Tgt.pop.mem true = 26 / 7 := by
  norm_num [std, Ntgt, cellMean, W, WY, sumIf, sumBy, exRows, inStratum, inCell, Tgt.mem]

-- an injective recoding that changes the order of the codes
example : Function.Injective (fun s : Nat => if s = 0 then 9 else if s = 1 then 4 else s + 10) := by
  intro x y h
  simp only at h
  split_ifs at h <;> omega

-- fitted values that correspond under the recodings exist for any original fitted values
example (ω : Row ℚ → ℚ) (Q : Row ℚ → Bool → ℚ) :
    (∀ r, (fun r => ω (flipRow r)) (flipRow r) = ω r) ∧ (∀ r b, (fun r b => Q (flipRow r) (!b)) (flipRow r) (!b) = Q r b) := by
  refine ⟨fun r => ?_, fun r b => ?_⟩ <;> cases r <;> simp [flipRow]

-- the weight formulas at a concrete point: stabilized ATT weight of an untreated row, recoded
example : Gen.iptw_weight (F := ℚ) true Tgt.exposed.str false (2/5) (1/4) = 1/2 ∧
    Gen.iptw_weight (F := ℚ) true Tgt.unexposed.str true (1 - 2/5) (1 - 1/4) = 1/2 := by
  constructor <;> simp [Gen.iptw_weight, Tgt.str] <;> norm_num

-- flip on a frame: all four cells of the binary table are occupied
def exFrame : List (Measures.MRow ℚ) :=
  [⟨some 1, some true, none⟩, ⟨some 1, some false, none⟩, ⟨some 1, some false, none⟩, ⟨some 0, some true, none⟩,
   ⟨some 0, some false, none⟩, ⟨none, some true, none⟩]
example : 0 < Measures.cntED exFrame 1 true ∧ 0 < Measures.cntED exFrame 1 false ∧
    0 < Measures.cntED exFrame 0 true ∧ 0 < Measures.cntED exFrame 0 false ∧
    Measures.cntED (exFrame.map (Measures.relabelE swap01)) 1 false = 1 := by decide

-- change of units: denominators of the example data are non-zero, the fitted values may be any function of the stratum
example : (∀ s ∈ [0, 1], W (inCell s true) exRows ≠ 0) ∧ sumBy (fun s => Ntgt Tgt.pop.mem exRows s) [0, 1] ≠ 0 ∧
    sumBy (fun r => r.w) exRows ≠ 0 := by
  refine ⟨?_, ?_, ?_⟩
  · intro s hs
    simp only [List.mem_cons, List.not_mem_nil, or_false] at hs
    rcases hs with rfl | rfl <;> norm_num [W, sumIf, sumBy, exRows, inCell]
  · norm_num [Ntgt, W, sumIf, sumBy, exRows, inStratum, Tgt.mem]
  · norm_num [sumBy, exRows]
example (q : Nat → Bool → ℚ) (c d : ℚ) :
    ∀ (r : Row ℚ) (b : Bool), (fun (r : Row ℚ) b => c * q r.s b + d) (affRow c d r) b = c * (fun (r : Row ℚ) b => q r.s b) r b + d :=
  fun _ _ => rfl

-- TMLE unit map with c = -2, d = 10 on the range [1, 5] and the default bound
example : Gen.tmle_unit_bounds (F := ℚ) (-2 * 2 + 10) (-2 * 5 + 10) (-2 * 1 + 10) (1/2000) = 1 - 1/4 ∧
    Gen.tmle_unit_bounds (F := ℚ) 2 1 5 (1/2000) = 1/4 ∧ (1/2000 : ℚ) ≤ 1 - 1/2000 := by
  norm_num [Gen.tmle_unit_bounds]

-- the GEE sandwich: a weighted two-arm data set (weights differ within an arm, so the variance is not a plain
-- binomial one); recoded and re-expressed, with both arms of non-zero weight
def exMsm : List (Ci.MRow ℚ) := [⟨true, 1, 2⟩, ⟨true, 0, 1⟩, ⟨false, 1, 1⟩, ⟨false, 0, 3⟩]
example : Ci.msmRD exMsm = (5/12, 1753/10368) ∧ Ci.msmRD (exMsm.map Ci.flipM) = (-5/12, 1753/10368) ∧
    Ci.msmRR exMsm = (8/3, 97/72) ∧ Ci.msmRR (exMsm.map Ci.flipM) = (3/8, 97/72) ∧
    Ci.armW exMsm true ≠ 0 ∧ Ci.armW exMsm false ≠ 0 ∧
    Ci.msmRD (exMsm.map (Ci.affM (-2) 7)) = (-5/6, 1753/2592) := by
  norm_num [Ci.msmRD, Ci.msmRR, Ci.armMean, Ci.armVar, Ci.armW, Ci.arm, sumBy, exMsm, Ci.flipM, Ci.affM]
example : exMsm.Perm exMsm.reverse ∧ (exMsm.reverse.map (·.a)) ≠ exMsm.map (·.a) := ⟨(List.reverse_perm _).symm, by decide⟩
-- … and from the IPTW rows: unstabilized population weights at propensity 2/5 resp. 1/4 by stratum, one outcome missing
example :
    Ci.msmRows exRows (iptwOmega false Tgt.pop (fun _ => 1/2) (fun r => if r.s = 0 then 2/5 else 1/4) (fun _ => 1))
      = [⟨true, 3, 5/2⟩, ⟨false, 1, 5/3⟩, ⟨true, 5, 8⟩, ⟨false, 2, 4/3⟩, ⟨false, 4, 4/3⟩, ⟨true, 1, 5/2⟩] := by
  simp [Ci.msmRows, exRows, iptwOmega, Gen.iptw_weight, Tgt.str]
  norm_num

-- TMLE targeting under 1−A: g1 ≠ g0, Q1 ≠ Q0, one missing outcome; with σ = lg = id the coefficients
-- (ε₁, ε₂) = (11/75, −9/50) solve both score equations, (−ε₂, −ε₁) = (9/50, −11/75) those of the recoded rows;
-- RD = 1/6 becomes −1/6 and RR = 4/3 becomes 3/4
def exT : List (Tmle.TRow ℚ) :=
  [⟨true, true, 1, 3/10, 1/5, 2/5, 3/5⟩, ⟨true, true, 1, 3/10, 1/5, 2/5, 3/5⟩, ⟨true, true, 0, 3/10, 1/5, 2/5, 3/5⟩,
   ⟨false, true, 1, 3/10, 1/5, 2/5, 3/5⟩, ⟨false, true, 0, 3/10, 1/5, 2/5, 3/5⟩,
   ⟨true, false, 0, 3/10, 1/5, 2/5, 3/5⟩]
example : Tmle.scoreH1 id id (11/75) (-9/50) exT = 0 ∧ Tmle.scoreH0 id id (11/75) (-9/50) exT = 0 ∧
    Tmle.scoreH1 id id (9/50) (-11/75) (exT.map Tmle.flipT) = 0 ∧
    Tmle.scoreH0 id id (9/50) (-11/75) (exT.map Tmle.flipT) = 0 := by
  simp only [Tmle.scoreH1, Tmle.scoreH0, exT, Tmle.flipT, Tmle.obsRows, List.filter, List.map, sumBy, Tmle.qstarA,
    Tmle.h1, Tmle.h0, Tmle.qa, Tmle.ind, id]
  norm_num
example : Tmle.rdOf (Tmle.targets id id (11/75) (-9/50) exT) = 1/6 ∧
    Tmle.rdOf (Tmle.targets id id (9/50) (-11/75) (exT.map Tmle.flipT)) = -1/6 ∧
    Tmle.rrOf (Tmle.targets id id (11/75) (-9/50) exT) = 4/3 ∧
    Tmle.rrOf (Tmle.targets id id (9/50) (-11/75) (exT.map Tmle.flipT)) = 3/4 := by
  simp only [Tmle.rdOf, Tmle.rrOf, Tmle.risk1Of, Tmle.risk0Of, Tmle.mean, Tmle.targets, exT, Tmle.flipT, List.map,
    List.length, sumBy, Tmle.qstar1, Tmle.qstar0, id]
  norm_num

-- ICE: the two-period data set of `Props/C12.lean` (hypotheses of `ice_eq_npgformula` shown there), reversed, and
-- with the covariate recoded 0 ↦ 7 at time 0 and 0 ↔ 1 at time 1; the saturated fit of the original data read
-- through the inverse recoding is a saturated fit of the recoded data, and the estimate 4/5 is unchanged
def exPhi : Nat → Nat → Nat := fun k l => if k = 0 then l + 7 else if l = 0 then 1 else if l = 1 then 0 else l
def exPsi : Nat → Nat → Nat := fun k l => if k = 0 then l - 7 else if l = 0 then 1 else if l = 1 then 0 else l
theorem exPsiPhi : ∀ k l, exPsi k (exPhi k l) = l := by
  intro k l
  unfold exPsi exPhi
  by_cases hk : k = 0
  · simp [hk]
  · by_cases h0 : l = 0
    · simp [hk, h0]
    · by_cases h1 : l = 1
      · simp [hk, h1]
      · simp [hk, h0, h1]
example : P12.exRows.Perm P12.exRows.reverse ∧ P12.exRows.reverse ≠ P12.exRows :=
  ⟨(List.reverse_perm _).symm, by decide⟩
example : (P12.exRows.map (IceInv.relabelW exPhi)).map (·.ls) = [[7, 1], [7, 1], [7, 0], [7, 0], [7, 1], [7, 1]] := by
  decide
example : Ice.IsCellFit (IceInv.muRelab exPsi P12.exMu) [true, true] (P12.exRows.map (IceInv.relabelW exPhi)) 2 ∧
    Ice.fit true (IceInv.muRelab exPsi P12.exMu) (.single [true, true]) (P12.exRows.map (IceInv.relabelW exPhi)) 2
      = .ok (4 / 5) :=
  ⟨(ice_relabel_invariant exPhi exPsi exPsiPhi P12.exMu P12.exRows 2).2.1 _ P12.exFit, by decide +kernel⟩

-- SurvivalGFormula: the person-period example of `Props/C12.lean` recoded; treat-all there = treat-none here = 2/3 at t = 2
example : SurvGF.marginalAt (F := ℚ) .none (P12.exLong.map SurvGF.flipL) 2 = 2/3 ∧
    SurvGF.marginalAt (F := ℚ) .all P12.exLong 2 = 2/3 ∧ SurvGF.marginalAt (F := ℚ) .none P12.exLong 2 = 0 := by
  decide +kernel

-- g-estimation: a data set whose exposure model (intercept only, π = 1/2) satisfies its score equation; ψ = 2
def exSnm : List (SnmR.SRow ℚ) := [⟨true, 3, 1, 1/2, fun _ => 1⟩, ⟨false, 1, 1, 1/2, fun _ => 1⟩]
example : (∀ k < 1, SnmR.resid exSnm 1 (fun _ => 2) k = 0) ∧ (∀ k < 1, SnmR.modScore exSnm k = 0) ∧
    (∀ k < 1, ∀ j < 1, SnmR.modScore2 exSnm k j = 0) ∧ SnmR.solve1 exSnm = 2 := by
  refine ⟨?_, ?_, ?_, ?_⟩
  · intro k hk; obtain rfl : k = 0 := by omega
    norm_num [SnmR.resid, SnmR.lhm, SnmR.rha, SnmR.dres, SnmR.ind, sumBy, exSnm, List.range, List.range.loop]
  · intro k hk; obtain rfl : k = 0 := by omega
    norm_num [SnmR.modScore, SnmR.dres, SnmR.ind, sumBy, exSnm]
  · intro k hk j hj; obtain rfl : k = 0 := by omega
    obtain rfl : j = 0 := by omega
    norm_num [SnmR.modScore2, SnmR.dres, SnmR.ind, sumBy, exSnm]
  · norm_num [SnmR.solve1, SnmR.lhm, SnmR.rha, SnmR.dres, SnmR.ind, sumBy, exSnm]

-- reparametrisation x ↦ 2x + 3 as a matrix with its inverse; a fitted GLM (group means) satisfying its score equations
def exM : Nat → Nat → ℚ := fun j k => if j = 0 ∧ k = 0 then 1 else if j = 0 ∧ k = 1 then 3 else if j = 1 ∧ k = 1 then 2 else 0
def exMinv : Nat → Nat → ℚ := fun j k => if j = 0 ∧ k = 0 then 1 else if j = 0 ∧ k = 1 then -3/2 else if j = 1 ∧ k = 1 then 1/2 else 0
example : ∀ j < 2, ∀ i < 2, sumBy (fun k => exM j k * exMinv k i) (List.range 2) = if j = i then 1 else 0 := by
  intro j hj i hi
  have h1 : j = 0 ∨ j = 1 := by omega
  have h2 : i = 0 ∨ i = 1 := by omega
  rcases h1 with rfl | rfl <;> rcases h2 with rfl | rfl <;>
    norm_num [sumBy, List.range, List.range.loop, exM, exMinv]
def exGlm : List (Glm.GRow ℚ) :=
  [⟨fun j => if j = 0 then 1 else 0, 1, 1, 2⟩, ⟨fun j => if j = 0 then 1 else 0, 3, 1, 2⟩,
   ⟨fun j => if j = 0 then 1 else if j = 1 then 1 else 0, 5, 1, 5⟩]
example : ∀ j < 2, Glm.score exGlm j = 0 := by
  intro j hj
  have h1 : j = 0 ∨ j = 1 := by omega
  rcases h1 with rfl | rfl <;> norm_num [Glm.score, sumBy, exGlm]

end Examples

end ZV.P08
