/-
C12 — Longitudinal g-formula estimators reproduce the nonparametric g-formula.

Subject: the hand models `ZV.Ice` (IterativeCondGFormula, TimeVary.py:630-747, and the slice of
TimeFixedGFormula.fit needed for the single-time-point clause) and `ZV.SurvGF` (SurvivalGFormula,
TimeFixed.py:561-664) — the same definitions the native driver executes at `Rat` for gates K and D.
The fitted regressions are parameters (`μ`, `η`/`h1`,`h0`); what is assumed of a saturated GLM is the explicit
hypothesis `IsCellFit` (score equation of each cell indicator), measured by gate H on every explored case.
All statements are for an arbitrary linearly ordered field, every number of time points `K`, every number of
individuals, every covariate arity and every static plan; helper lemmas are in `Lemmas/Ice.lean`, `Lemmas/SurvGF.lean`.
-/
import ZepidVerif.Lemmas.Ice
import ZepidVerif.Lemmas.SurvGF
import Mathlib.Algebra.Order.Field.Rat
import Mathlib.Tactic.NormNum
set_option linter.unusedSectionVars false
set_option linter.unusedVariables false
namespace ZV.P12
open ZV ZV.Ice

variable {F : Type} [Field F] [LinearOrder F] [IsStrictOrderedRing F]

/-! ### IterativeCondGFormula -/

/-- **Clause 1 (general `K`).**  Wide data with `K ≥ 1` time points and survival-type outcomes (0 until the event,
    1 at the event, missing afterwards), covariate values among the duplicate-free list `levels`, a static plan `g`,
    sequential fits that satisfy the cell score equations along the plan (`IsCellFit`: what a GLM saturated in
    treatment and covariate history delivers), and positivity along the plan (every cell the stratified formula
    divides by is non-empty — the decidable predicate `planPositive` the driver evaluates):
    `fit` with the plan given as one row returns exactly the nonparametric g-formula cumulative risk
    `Σ_l f(l) G_0(l)`, `G_k(l̄) = (d_k + Σ_l s_k(l)·G_{k+1}(l̄,l)) / n_k`, computed from cell counts. -/
theorem ice_eq_npgformula (μ : List Bool → List Nat → F) (g : List Bool) (rows : List WRow) (K : Nat)
    (levels : List Nat) (hK : 0 < K) (hwf : wellFormed K rows = true) (hg : g.length = K)
    (hsurv : ∀ r ∈ rows, survType r.ys = true) (hnd : levels.Nodup)
    (hcov : levelsCover levels rows = true) (hfit : IsCellFit μ g rows K)
    (hpos : planPositive levels g rows K = true) :
    fit true μ (.single g) rows K = .ok (npg levels g rows K) := by
  have H : IceL.Hyp μ g rows K levels := ⟨hwf, hg, hsurv, hnd, hcov, hfit⟩
  simp only [fit, expandPlan, hg, if_true, Bool.not_true, Bool.false_eq_true, if_false]
  rw [IceL.marginal_eq_npg H hK hpos]

/-- **Clause 2.**  A plan given as one row per individual, all equal to `g`, is treated exactly like the single
    row `g` (same estimate, or the same rejection when the number of columns is wrong) — whatever the fits. -/
theorem plan_rowwise_eq_single (specified : Bool) (μ : List Bool → List Nat → F) (g : List Bool)
    (rows : List WRow) (K : Nat) (m : List (List Bool)) (hne : rows ≠ [])
    (hlen : m.length = rows.length) (hall : ∀ p ∈ m, p = g) :
    fit specified μ (.matrix m) rows K = fit specified μ (.single g) rows K := by
  have hm : m = List.replicate rows.length g := by
    rw [← hlen]; exact List.eq_replicate_iff.mpr ⟨rfl, hall⟩
  have hpos : 0 < rows.length := List.length_pos_iff.mpr hne
  subst hm
  by_cases hg : g.length = K
  · simp [fit, expandPlan, hg]
  · have : ¬ (∀ p ∈ List.replicate rows.length g, p.length = K) := by
      intro h
      exact hg (h g (List.mem_replicate.mpr ⟨by omega, rfl⟩))
    simp [fit, expandPlan, hg, hne]

/-- Clauses 1 + 2 together: the plan given as one row per individual (all equal to `g`) also returns the
    nonparametric g-formula value. -/
theorem ice_rowwise_eq_npgformula (μ : List Bool → List Nat → F) (g : List Bool) (rows : List WRow) (K : Nat)
    (levels : List Nat) (m : List (List Bool)) (hK : 0 < K) (hwf : wellFormed K rows = true) (hg : g.length = K)
    (hsurv : ∀ r ∈ rows, survType r.ys = true) (hnd : levels.Nodup)
    (hcov : levelsCover levels rows = true) (hfit : IsCellFit μ g rows K)
    (hpos : planPositive levels g rows K = true)
    (hne : rows ≠ []) (hlen : m.length = rows.length) (hall : ∀ p ∈ m, p = g) :
    fit true μ (.matrix m) rows K = .ok (npg levels g rows K) := by
  rw [plan_rowwise_eq_single true μ g rows K m hne hlen hall]
  exact ice_eq_npgformula μ g rows K levels hK hwf hg hsurv hnd hcov hfit hpos

/-- The specification is the textbook g-formula recursion: with binary outcomes and a non-empty risk set,
    `G_k(l̄) = h + (1 − h) · Σ_l f(l) · G_{k+1}(l̄,l)`, where `h = d/n` is the empirical hazard of the cell
    (treatment history = plan, covariate history `l̄`) and `f(l) = s_l/(n − d)` the empirical distribution of the
    next covariate among its event-free members. -/
theorem npg_textbook_form (levels : List Nat) (g : List Bool) (rows : List WRow) (hb : nonBinary rows = false)
    (fuel k : Nat) (lbar : List Nat) (hn : nAt g rows k lbar ≠ 0) :
    G (F := F) levels g rows (fuel + 1) k lbar =
      ((dAt g rows k lbar : Nat) : F) / ((nAt g rows k lbar : Nat) : F) +
        (1 - ((dAt g rows k lbar : Nat) : F) / ((nAt g rows k lbar : Nat) : F)) *
          sumBy (fun l => ((sAt g rows k lbar l : Nat) : F) /
              (((nAt g rows k lbar : Nat) : F) - ((dAt g rows k lbar : Nat) : F)) *
            G levels g rows fuel (k + 1) (lbar ++ [l])) levels :=
  IceL.G_textbook levels g rows hb fuel k lbar hn

/-- a 2-d plan is accepted iff it has one row per individual and `K` columns; a 1-d plan iff it has `K` entries -/
theorem plan_shape (n K : Nat) (g : List Bool) (m : List (List Bool)) :
    ((∃ P, expandPlan n K (.single g) = .ok P) ↔ g.length = K) ∧
    ((∃ P, expandPlan n K (.matrix m) = .ok P) ↔ (m.length = n ∧ ∀ p ∈ m, p.length = K)) := by
  constructor
  · simp only [expandPlan]; split_ifs with h <;> simp [h]
  · simp only [expandPlan]; split_ifs with h
    · simp only [List.all_eq_true, decide_eq_true_eq] at h
      exact ⟨fun _ => h, fun _ => ⟨_, rfl⟩⟩
    · simp only [List.all_eq_true, decide_eq_true_eq] at h
      constructor
      · rintro ⟨_, hP⟩; cases hP
      · intro h'; exact absurd h' h

/-- **Clause 3.**  With a single time point the estimate is `TimeFixedGFormula`'s with the same fitted model:
    the mean of the predictions under the plan over the individuals with an observed outcome
    (`predict_missing=False`), which is also the default `predict_missing=True` value when no outcome is missing. -/
theorem ice_single_t_eq_timefixed (μ : List Bool → List Nat → F) (b : Bool) (trows : List TRow) :
    fit true μ (.single [b]) (trows.map ofTRow) 1
      = .ok (tfMarginal (fun a l => μ [a] [l]) b false trows) ∧
    ((∀ r ∈ trows, r.y.isSome = true) →
      fit true μ (.single [b]) (trows.map ofTRow) 1 = .ok (tfMarginal (fun a l => μ [a] [l]) b true trows)) := by
  have h1 : fit true μ (.single [b]) (trows.map ofTRow) 1
      = .ok (tfMarginal (fun a l => μ [a] [l]) b false trows) := by
    simp only [fit, expandPlan, List.length_singleton, if_true, Bool.not_true, Bool.false_eq_true, if_false,
      marginal, tfMarginal]
    rw [IceL.zipWith_replicate_left, List.map_map]
    congr 2
    apply List.map_congr_left
    intro r _
    cases hy : r.y <;> simp [ofTRow, predAt, predFrom, orObs, mask, hy]
  refine ⟨h1, ?_⟩
  intro hall
  rw [h1]
  refine congrArg Except.ok ?_
  unfold tfMarginal
  refine congrArg meanPresent ?_
  apply List.map_congr_left
  intro r hr
  simp [hall r hr]

/-! ### SurvivalGFormula -/
open ZV.SurvGF

/-- **Clause 4.**  Hazard model without covariates (`h1`, `h0` depend on the record only through its time) that
    satisfies the score equations of the arm-`b` × time indicators (saturated in treatment by time), binary outcome,
    person-period records at times `1..T_i` for each person, arm `b` still under observation at every time `≤ t`,
    and some record at time `t`: the marginal value at `t` under treat-all (`b = true`) / treat-none (`b = false`)
    is the product-limit cumulative incidence `1 − Π_{u≤t} (1 − d_{b,u}/n_{b,u})` of that arm. -/
theorem survival_product_limit (b : Bool) (rows : List (LRow F)) (η : Bool → Nat → F) (t : Nat)
    (hη : ∀ r ∈ rows, r.h1 = η true r.t ∧ r.h0 = η false r.t)
    (hfit : ∀ u, sumBy (fun r => ((r.y : Nat) : F) - η b u)
      ((prep rows).filter fun r => r.a == b && r.t == u) = ((0 : Nat) : F))
    (hy : ∀ r ∈ rows, r.y ≤ 1)
    (hpp : personPeriod rows = true)
    (hpos : armPositive rows b t = true)
    (hex : ∃ r ∈ prep rows, r.t = t) :
    marginalAt (if b then SurvGF.Plan.all else SurvGF.Plan.none) rows t = productLimit rows b t :=
  SurvL.marginalAt_eq_pl b rows η t hη hfit hy hpp hpos hex

/-- **Clause 5.**  Whatever the outcome model and the plan, if every predicted hazard lies in `[0,1]` then every
    entry of `predicted_df[outcome]` lies in `[0,1]` and, within each person, later records never have a smaller
    value (`i ≤ j` are positions in the (id, time)-sorted table). -/
theorem cuminc_monotone_bounded (p : SurvGF.Plan) (rows : List (LRow F))
    (hh : ∀ r ∈ rows, 0 ≤ hazard p r ∧ hazard p r ≤ 1) :
    (∀ c ∈ cumInc p rows, 0 ≤ c ∧ c ≤ 1) ∧
    (∀ (i j : Nat) (ri rj : LRow F) (ci cj : F), i ≤ j →
      (prep rows)[i]? = some ri → (prep rows)[j]? = some rj → ri.id = rj.id →
      (cumInc p rows)[i]? = some ci → (cumInc p rows)[j]? = some cj → ci ≤ cj) :=
  ⟨SurvL.cumInc_bounded p rows hh, fun i j ri rj ci cj => SurvL.cumInc_monotone p rows hh i j ri rj ci cj⟩

/-- **A plan means the arm it assigns to each record.**  Two plans under which every record gets the same predicted
    hazard (i.e. the same arm wherever the two arms' hazards differ) give the same `predicted_df[outcome]` and the same
    marginal curve.  In particular a custom condition that every record meets is treat-all, one that no record meets is
    treat-none, and the condition "the observed treatment is 1" is the natural course — whatever the outcome model. -/
theorem plan_same_assignment (p q : SurvGF.Plan) (rows : List (LRow F))
    (h : ∀ r ∈ rows, hazard p r = hazard q r) :
    cumInc p rows = cumInc q rows ∧ ∀ t, marginalAt p rows t = marginalAt q rows t := by
  have hc : cumInc p rows = cumInc q rows := by
    unfold cumInc
    congr 2
    apply List.map_congr_left
    intro r hr
    rw [h r (SurvL.mem_prep hr)]
  exact ⟨hc, fun t => by unfold marginalAt; rw [hc]⟩

/-- the three named plans as custom conditions -/
theorem custom_plan_named (rows : List (LRow F)) :
    ((∀ r ∈ rows, r.c = true) → cumInc .custom rows = cumInc .all rows ∧
      ∀ t, marginalAt .custom rows t = marginalAt .all rows t) ∧
    ((∀ r ∈ rows, r.c = false) → cumInc .custom rows = cumInc .none rows ∧
      ∀ t, marginalAt .custom rows t = marginalAt .none rows t) ∧
    ((∀ r ∈ rows, r.c = r.a) → cumInc .custom rows = cumInc .natural rows ∧
      ∀ t, marginalAt .custom rows t = marginalAt .natural rows t) :=
  ⟨fun h => plan_same_assignment _ _ rows fun r hr => by simp [hazard, h r hr],
   fun h => plan_same_assignment _ _ rows fun r hr => by simp [hazard, h r hr],
   fun h => plan_same_assignment _ _ rows fun r hr => by simp [hazard, h r hr]⟩

/-! ### Non-vacuity: the hypotheses are met by concrete, non-trivial inputs (carrier `ℚ`) -/
section examples
open ZV.SurvGF

/-- two time points, covariate constant at time 0 and binary at time 1, plan (1,1); one early event, one
    individual leaving the plan at time 1, one never on the plan -/
def exRows : List WRow :=
  [⟨[true, true], [0, 0], [some 0, some 1]⟩, ⟨[true, true], [0, 0], [some 0, some 0]⟩,
   ⟨[true, true], [0, 1], [some 0, some 1]⟩, ⟨[true, false], [0, 1], [some 0, some 0]⟩,
   ⟨[true, true], [0, 0], [some 1, none]⟩, ⟨[false, true], [0, 0], [some 0, some 0]⟩]

/-- the cell means a saturated fit returns on `exRows` -/
def exMu : List Bool → List Nat → ℚ := fun a l =>
  if a = [true, true] ∧ l = [0, 0] then 1 / 2
  else if a = [true, true] ∧ l = [0, 1] then 1
  else if a = [true] ∧ l = [0] then 4 / 5 else 0

theorem exFit : IsCellFit exMu [true, true] exRows 2 := by
  intro k hk lbar
  obtain rfl | rfl : k = 0 ∨ k = 1 := by omega
  · by_cases h : lbar = [0]
    · subst h; decide +kernel
    · have h' : ¬ [0] = lbar := fun e => h e.symm
      simp [exRows, inCell, h']
  · by_cases h0 : lbar = [0, 0]
    · subst h0; decide +kernel
    · by_cases h1 : lbar = [0, 1]
      · subst h1; decide +kernel
      · have h0' : ¬ [0, 0] = lbar := fun e => h0 e.symm
        have h1' : ¬ [0, 1] = lbar := fun e => h1 e.symm
        simp [exRows, inCell, h0', h1']

/-- `ice_eq_npgformula` applies to `exRows`, and both sides are 4/5 -/
example : fit true exMu (.single [true, true]) exRows 2 = .ok (npg [0, 1] [true, true] exRows 2) ∧
    npg (F := ℚ) [0, 1] [true, true] exRows 2 = 4 / 5 :=
  ⟨ice_eq_npgformula exMu [true, true] exRows 2 [0, 1] (by decide) (by decide) rfl (by decide) (by decide)
    (by decide) exFit (by decide), by decide +kernel⟩

/-- `plan_rowwise_eq_single` on `exRows` (six identical plan rows) -/
example : fit true exMu (.matrix (List.replicate 6 [true, true])) exRows 2 =
    fit true exMu (.single [true, true]) exRows 2 :=
  plan_rowwise_eq_single true exMu [true, true] exRows 2 _ (by decide) (by decide) (by decide)

/-- `npg_textbook_form` applies to `exRows`: `G_0(0) = 1/5 + (4/5)·(½·½ + ½·1) = 4/5` -/
example : nonBinary exRows = false ∧ nAt [true, true] exRows 0 [0] ≠ 0 ∧
    G (F := ℚ) [0, 1] [true, true] exRows 2 0 [0] = 1 / 5 + (1 - 1 / 5) * ((2 / 4) * (1 / 2) + (2 / 4) * 1) := by
  decide +kernel

/-- a mis-shaped plan is rejected by the model, like the `ValueError` of the real code -/
example : fit true exMu (.single [true]) exRows 2 = .error .badInput ∧
    fit true exMu (.matrix [[true, true]]) exRows 2 = .error .badInput := by decide

/-- `ice_single_t_eq_timefixed` with a missing outcome: the two `predict_missing` settings differ (1/2 vs 1/3),
    the iterative estimator equals the `predict_missing=False` one -/
example :
    let μ : List Bool → List Nat → ℚ := fun _ l => if l = [0] then 1 / 2 else 0
    let trows : List TRow := [⟨true, 0, some 1⟩, ⟨false, 0, some 0⟩, ⟨true, 1, none⟩]
    fit true μ (.single [true]) (trows.map ofTRow) 1 = .ok (1 / 2) ∧
    tfMarginal (fun a l => μ [a] [l]) true false trows = 1 / 2 ∧
    tfMarginal (fun a l => μ [a] [l]) true true trows = 1 / 3 := by decide +kernel

/-- person-period records of four people (unsorted on purpose); arm 1 has hazards 1/3 and 1/2 -/
def exLong : List (LRow ℚ) :=
  [⟨3, 2, true, 0, false, true, 1 / 2, 0⟩, ⟨1, 1, true, 0, false, true, 1 / 3, 0⟩,
   ⟨2, 1, true, 1, false, true, 1 / 3, 0⟩, ⟨1, 2, true, 1, false, true, 1 / 2, 0⟩,
   ⟨4, 1, false, 0, false, true, 1 / 3, 0⟩, ⟨3, 1, true, 0, false, true, 1 / 3, 0⟩,
   ⟨4, 2, false, 0, false, true, 1 / 2, 0⟩, ⟨5, 1, true, 0, false, false, 1 / 3, 0⟩]

def exEta : Bool → Nat → ℚ := fun b u => if b then (if u = 1 then 1 / 3 else 1 / 2) else 0

/-- `survival_product_limit` applies to `exLong` at `t = 2`, and both sides are `1 − (2/3)(1/2) = 2/3` -/
example : marginalAt (F := ℚ) .all exLong 2 = productLimit exLong true 2 ∧ productLimit (F := ℚ) exLong true 2 = 2 / 3 := by
  refine ⟨survival_product_limit true exLong exEta 2 (by decide +kernel) ?_ (by decide) (by decide) (by decide)
    ⟨⟨3, 2, true, 0, false, true, 1 / 2, 0⟩, by decide +kernel, rfl⟩, by decide +kernel⟩
  intro u
  by_cases h1 : u = 1
  · subst h1; decide +kernel
  · by_cases h2 : u = 2
    · subst h2; decide +kernel
    · have hall : ∀ r ∈ prep exLong, r.t = 1 ∨ r.t = 2 := by decide +kernel
      have : ((prep exLong).filter fun r => r.a == true && r.t == u) = [] := by
        rw [List.filter_eq_nil_iff]
        intro r hr
        rcases hall r hr with h | h <;> simp [h, Ne.symm h1, Ne.symm h2]
      rw [this]; rfl

/-- `cuminc_monotone_bounded` applies to `exLong` under every plan -/
example (p : SurvGF.Plan) : ∀ c ∈ cumInc p exLong, (0 : ℚ) ≤ c ∧ c ≤ 1 :=
  (cuminc_monotone_bounded p exLong (by cases p <;> decide +kernel)).1

/-- `custom_plan_named` applies to `exLong` (no record meets the condition: treat-none), and differs from treat-all -/
example : cumInc (F := ℚ) .custom exLong = cumInc .none exLong ∧ cumInc (F := ℚ) .custom exLong ≠ cumInc .all exLong :=
  ⟨((custom_plan_named exLong).2.1 (by decide +kernel)).1, by decide +kernel⟩

end examples

end ZV.P12
