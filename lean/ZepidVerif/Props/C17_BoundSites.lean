/-
C17, "… and is applied wherever requested": the call sites.

`Gen/BoundSites.lean` is regenerated on every run from the text of every estimator method that calls
`probability_bounds` — the statements around the call, for one row, with "`probability_bounds(·, bounds=B)` per element" as a
function parameter `pb` and the truthiness of the method's `bound` argument as `bound` (a call with any other `bounds=`
text, or a call outside the translated lines, makes the translator refuse).  This module proves, site by site, that

  * with a bound (`bound = true`, `pb = clip1 lo hi`) the site is the model's use-site function (`Model/Bounds.lean`:
    `iptwRow`, `gPair`, `missPair`, `qTriple`, `stochDen`, `cfPair`, `ipmwRow`, `ipswRow`) at `some (lo, hi)`:
    each fitted probability that enters a weight or clever covariate is clipped, each vector on its own (g0 = 1 − g1 is
    clipped separately from g1, with the same bound);
  * without one (`bound = false`) `probability_bounds` is not called at all: the site is the model's function at `none`,
    whatever `pb` is;
so that `use_sites_unreached`, `gpair_le`, `stoch_cf_le`, `ipmw_ipsw_le`, `iptw_weight_le` of `Props/C17.lean` are theorems
about the regenerated sites (`bound_sites_unreached_generated`, `sites_in_range_generated`).
-/
import ZepidVerif.Props.C17
import ZepidVerif.Gen.BoundSites
set_option linter.unusedSectionVars false
set_option linter.unusedVariables false
namespace ZV.P17
open ZV ZV.Bounds

variable {F : Type} [Field F] [LinearOrder F] [IsStrictOrderedRing F] [Transc F]

/-- "clip by the bound argument", per element: what `probability_bounds(·, bounds=b)` does once `b` has been accepted as
    the interval `iv` (`probability_bounds_vector_generated`, `_pair_generated` in `Props/C17_Gen.lean`) -/
def pbOf (iv : F × F) : F → F := clip1 iv.1 iv.2

/-- the `bound` flag and clip function of a site for the estimator argument `iv` (`none` = falsy argument; then the
    clip function is irrelevant: `pb₀` is arbitrary) -/
def flagOf (iv : Option (F × F)) : Bool := iv.isSome
def pbArg (pb₀ : F → F) (iv : Option (F × F)) : F → F := match iv with | none => pb₀ | some i => pbOf i

/-! ### every site is the model's use-site function -/

/-- `iptw_calculator` (IPTW.treatment_model; IPSW / AIPSW.treatment_model): denominator and numerator both clipped, then
    the weight formula on the clipped values -/
theorem iptw_calculator_site_generated (pb₀ : F → F) (iv : Option (F × F)) (stab : Bool) (std : String) (a1 : Bool) (n d : F) :
    Gen.iptw_calculator_site (pbArg pb₀ iv) (flagOf iv) stab std a1 n d = iptwRow stab std iv a1 n d := by
  rcases iv with _ | ⟨lo, hi⟩ <;> cases stab <;>
    by_cases h1 : std = "population" <;> by_cases h2 : std = "exposed" <;>
    simp [Gen.iptw_calculator_site, iptwRow, Gen.iptw_weight, applyB, flagOf, pbArg, pbOf, h1, h2]

/-- the callers of `iptw_calculator` hand their own `bound` on (IPTW, IPSW, AIPSW) — or, AIPTW, pass `None` and clip
    g1 and g0 themselves (`aiptw_exposure_site_generated`) -/
theorem iptw_calculator_callers :
    Gen.IPTW_treatment_model_passes_bound = true ∧ Gen.IPSW_treatment_model_passes_bound = true ∧
    Gen.AIPSW_treatment_model_passes_bound = true ∧ Gen.AIPTW_exposure_model_passes_bound = false :=
  ⟨rfl, rfl, rfl, rfl⟩

/-- AIPTW.exposure_model and TMLE.exposure_model: g1 = clip p, g0 = clip (1 − p), both with the caller's bound -/
theorem exposure_sites_generated (pb₀ : F → F) (iv : Option (F × F)) (p : F) :
    Gen.AIPTW_exposure_model_site (pbArg pb₀ iv) (flagOf iv) p = gPair iv p ∧
    Gen.TMLE_exposure_model_site (pbArg pb₀ iv) (flagOf iv) p = gPair iv p := by
  rcases iv with _ | ⟨lo, hi⟩ <;>
    simp [Gen.AIPTW_exposure_model_site, Gen.TMLE_exposure_model_site, gPair, applyB, flagOf, pbArg, pbOf]

/-- AIPTW.missing_model and TMLE.missing_model: the two observation probabilities, each clipped -/
theorem missing_sites_generated (pb₀ : F → F) (iv : Option (F × F)) (m1 m0 : F) :
    Gen.AIPTW_missing_model_site (pbArg pb₀ iv) (flagOf iv) m1 m0 = missPair iv m1 m0 ∧
    Gen.TMLE_missing_model_site (pbArg pb₀ iv) (flagOf iv) m1 m0 = missPair iv m1 m0 := by
  rcases iv with _ | ⟨lo, hi⟩ <;>
    simp [Gen.AIPTW_missing_model_site, Gen.TMLE_missing_model_site, missPair, applyB, flagOf, pbArg, pbOf]

/-- TMLE.outcome_model and StochasticTMLE.outcome_model: always clipped, by the user's bound when given and by the
    continuous bound otherwise; TMLE's `QAW` is assembled from the clipped predictions -/
theorem outcome_sites_generated (pb₀ : F → F) (iv : Option (F × F)) (cb : F × F) (a q1 q0 : F) :
    Gen.TMLE_outcome_model_site (pbArg pb₀ iv) (pbOf cb) (flagOf iv) a q1 q0 = qTriple iv cb a q1 q0 ∧
    Gen.StochasticTMLE_outcome_model_site (pbArg pb₀ iv) (pbOf cb) (flagOf iv) q1 = qBound iv cb q1 := by
  rcases iv with _ | ⟨lo, hi⟩ <;>
    simp [Gen.TMLE_outcome_model_site, Gen.StochasticTMLE_outcome_model_site, qTriple, qBound, flagOf, pbArg, pbOf]

/-- StochasticTMLE.exposure_model: the weight denominator is the clipped probability or one minus it -/
theorem stochastic_exposure_site_generated (pb₀ : F → F) (iv : Option (F × F)) (a1 : Bool) (p : F) :
    Gen.StochasticTMLE_exposure_model_site (pbArg pb₀ iv) (flagOf iv) a1 p = stochDen iv a1 p := by
  rcases iv with _ | ⟨lo, hi⟩ <;>
    simp [Gen.StochasticTMLE_exposure_model_site, stochDen, applyB, flagOf, pbArg, pbOf]

/-- the four cross-fit classes: pa1 = clip p, pa0 = 1 − pa1, with the bound `exposure_model` stored -/
theorem crossfit_sites_generated (pb₀ : F → F) (iv : Option (F × F)) (p : F) :
    Gen.SingleCrossfitAIPTW_site (pbArg pb₀ iv) (flagOf iv) p = cfPair iv p ∧
    Gen.DoubleCrossfitAIPTW_site (pbArg pb₀ iv) (flagOf iv) p = cfPair iv p ∧
    Gen.SingleCrossfitTMLE_site (pbArg pb₀ iv) (flagOf iv) p = cfPair iv p ∧
    Gen.DoubleCrossfitTMLE_site (pbArg pb₀ iv) (flagOf iv) p = cfPair iv p := by
  rcases iv with _ | ⟨lo, hi⟩ <;>
    simp [Gen.SingleCrossfitAIPTW_site, Gen.DoubleCrossfitAIPTW_site, Gen.SingleCrossfitTMLE_site,
      Gen.DoubleCrossfitTMLE_site, cfPair, applyB, flagOf, pbArg, pbOf]

/-- IPTW.missing_model and GEstimationSNM.missing_model: on an observed row the weight is numerator over the *clipped*
    denominator — the numerator is not clipped —; an unobserved row carries NaN -/
theorem ipmw_sites_generated (pb₀ : F → F) (iv : Option (F × F)) (nanv n d : F) :
    Gen.IPTW_missing_model_site (pbArg pb₀ iv) (flagOf iv) true nanv n d = ipmwRow iv n d ∧
    Gen.GEstimationSNM_missing_model_site (pbArg pb₀ iv) (flagOf iv) true nanv n d = ipmwRow iv n d ∧
    Gen.IPTW_missing_model_site (pbArg pb₀ iv) (flagOf iv) false nanv n d = nanv ∧
    Gen.GEstimationSNM_missing_model_site (pbArg pb₀ iv) (flagOf iv) false nanv n d = nanv := by
  rcases iv with _ | ⟨lo, hi⟩ <;>
    simp [Gen.IPTW_missing_model_site, Gen.GEstimationSNM_missing_model_site, ipmwRow, applyB, flagOf, pbArg, pbOf]

/-- IPSW.sampling_model: denominator clipped, numerator clipped only when the weights are stabilized, then the sampling
    weight on the clipped values -/
theorem ipsw_site_generated (pb₀ : F → F) (iv : Option (F × F)) (gen stab : Bool) (n d : F) :
    Gen.IPSW_sampling_model_site (pbArg pb₀ iv) (flagOf iv) gen stab n d = ipswRow gen stab iv n d := by
  rcases iv with _ | ⟨lo, hi⟩ <;> cases gen <;> cases stab <;>
    simp [Gen.IPSW_sampling_model_site, ipswRow, Gen.ipsw_weight, applyB, flagOf, pbArg, pbOf]

/-! ### consequences for the regenerated sites -/

/-- **a bound that no fitted probability reaches gives what no bound gives**, at every regenerated site
    (`use_sites_unreached` transported along the bridges above) -/
theorem bound_sites_unreached_generated (pb₀ : F → F) (lo hi : F) :
    (∀ stab std a1 (n d : F), lo ≤ d → d ≤ hi → lo ≤ n → n ≤ hi →
        Gen.iptw_calculator_site (pbOf (lo, hi)) true stab std a1 n d = Gen.iptw_calculator_site pb₀ false stab std a1 n d) ∧
    (∀ p : F, lo ≤ p → p ≤ hi → lo ≤ 1 - p → 1 - p ≤ hi →
        Gen.AIPTW_exposure_model_site (pbOf (lo, hi)) true p = Gen.AIPTW_exposure_model_site pb₀ false p ∧
        Gen.TMLE_exposure_model_site (pbOf (lo, hi)) true p = Gen.TMLE_exposure_model_site pb₀ false p) ∧
    (∀ a1 (p : F), lo ≤ p → p ≤ hi →
        Gen.StochasticTMLE_exposure_model_site (pbOf (lo, hi)) true a1 p = Gen.StochasticTMLE_exposure_model_site pb₀ false a1 p) ∧
    (∀ p : F, lo ≤ p → p ≤ hi →
        Gen.SingleCrossfitAIPTW_site (pbOf (lo, hi)) true p = Gen.SingleCrossfitAIPTW_site pb₀ false p ∧
        Gen.DoubleCrossfitAIPTW_site (pbOf (lo, hi)) true p = Gen.DoubleCrossfitAIPTW_site pb₀ false p ∧
        Gen.SingleCrossfitTMLE_site (pbOf (lo, hi)) true p = Gen.SingleCrossfitTMLE_site pb₀ false p ∧
        Gen.DoubleCrossfitTMLE_site (pbOf (lo, hi)) true p = Gen.DoubleCrossfitTMLE_site pb₀ false p) ∧
    (∀ obs (nanv n d : F), lo ≤ d → d ≤ hi →
        Gen.IPTW_missing_model_site (pbOf (lo, hi)) true obs nanv n d = Gen.IPTW_missing_model_site pb₀ false obs nanv n d ∧
        Gen.GEstimationSNM_missing_model_site (pbOf (lo, hi)) true obs nanv n d
          = Gen.GEstimationSNM_missing_model_site pb₀ false obs nanv n d) ∧
    (∀ gen stab (n d : F), lo ≤ d → d ≤ hi → (stab = true → lo ≤ n ∧ n ≤ hi) →
        Gen.IPSW_sampling_model_site (pbOf (lo, hi)) true gen stab n d = Gen.IPSW_sampling_model_site pb₀ false gen stab n d) ∧
    (∀ m1 m0 : F, lo ≤ m1 → m1 ≤ hi → lo ≤ m0 → m0 ≤ hi →
        Gen.AIPTW_missing_model_site (pbOf (lo, hi)) true m1 m0 = Gen.AIPTW_missing_model_site pb₀ false m1 m0 ∧
        Gen.TMLE_missing_model_site (pbOf (lo, hi)) true m1 m0 = Gen.TMLE_missing_model_site pb₀ false m1 m0) := by
  obtain ⟨u1, u2, u3, u4, u5, u6⟩ := use_sites_unreached (F := F) lo hi
  have on : ∀ {α : Type} (f : (F → F) → Bool → α), f (pbOf (lo, hi)) true = f (pbArg pb₀ (some (lo, hi))) (flagOf (some (lo, hi))) :=
    fun f => rfl
  have off : ∀ {α : Type} (f : (F → F) → Bool → α), f pb₀ false = f (pbArg pb₀ none) (flagOf (none : Option (F × F))) :=
    fun f => rfl
  refine ⟨?_, ?_, ?_, ?_, ?_, ?_, ?_⟩
  · intro stab std a1 n d h1 h2 h3 h4
    rw [on (fun pb b => Gen.iptw_calculator_site pb b stab std a1 n d),
      off (fun pb b => Gen.iptw_calculator_site pb b stab std a1 n d),
      iptw_calculator_site_generated, iptw_calculator_site_generated]
    exact u1 stab std a1 n d h1 h2 h3 h4
  · intro p h1 h2 h3 h4
    have e1 := exposure_sites_generated pb₀ (some (lo, hi)) p
    have e0 := exposure_sites_generated pb₀ none p
    exact ⟨by rw [on (fun pb b => Gen.AIPTW_exposure_model_site pb b p), off (fun pb b => Gen.AIPTW_exposure_model_site pb b p),
                e1.1, e0.1]; exact u2 p h1 h2 h3 h4,
           by rw [on (fun pb b => Gen.TMLE_exposure_model_site pb b p), off (fun pb b => Gen.TMLE_exposure_model_site pb b p),
                e1.2, e0.2]; exact u2 p h1 h2 h3 h4⟩
  · intro a1 p h1 h2
    rw [on (fun pb b => Gen.StochasticTMLE_exposure_model_site pb b a1 p),
      off (fun pb b => Gen.StochasticTMLE_exposure_model_site pb b a1 p),
      stochastic_exposure_site_generated, stochastic_exposure_site_generated]
    exact u3 a1 p h1 h2
  · intro p h1 h2
    obtain ⟨a1, a2, a3, a4⟩ := crossfit_sites_generated pb₀ (some (lo, hi)) p
    obtain ⟨b1, b2, b3, b4⟩ := crossfit_sites_generated pb₀ none p
    have := u4 p h1 h2
    exact ⟨by rw [on (fun pb b => Gen.SingleCrossfitAIPTW_site pb b p), off (fun pb b => Gen.SingleCrossfitAIPTW_site pb b p), a1, b1]; exact this,
           by rw [on (fun pb b => Gen.DoubleCrossfitAIPTW_site pb b p), off (fun pb b => Gen.DoubleCrossfitAIPTW_site pb b p), a2, b2]; exact this,
           by rw [on (fun pb b => Gen.SingleCrossfitTMLE_site pb b p), off (fun pb b => Gen.SingleCrossfitTMLE_site pb b p), a3, b3]; exact this,
           by rw [on (fun pb b => Gen.DoubleCrossfitTMLE_site pb b p), off (fun pb b => Gen.DoubleCrossfitTMLE_site pb b p), a4, b4]; exact this⟩
  · intro obs nanv n d h1 h2
    obtain ⟨a1, a2, a3, a4⟩ := ipmw_sites_generated pb₀ (some (lo, hi)) nanv n d
    obtain ⟨b1, b2, b3, b4⟩ := ipmw_sites_generated pb₀ none nanv n d
    have := u5 n d h1 h2
    cases obs
    · exact ⟨by rw [on (fun pb b => Gen.IPTW_missing_model_site pb b false nanv n d),
                  off (fun pb b => Gen.IPTW_missing_model_site pb b false nanv n d), a3, b3],
             by rw [on (fun pb b => Gen.GEstimationSNM_missing_model_site pb b false nanv n d),
                  off (fun pb b => Gen.GEstimationSNM_missing_model_site pb b false nanv n d), a4, b4]⟩
    · exact ⟨by rw [on (fun pb b => Gen.IPTW_missing_model_site pb b true nanv n d),
                  off (fun pb b => Gen.IPTW_missing_model_site pb b true nanv n d), a1, b1]; exact this,
             by rw [on (fun pb b => Gen.GEstimationSNM_missing_model_site pb b true nanv n d),
                  off (fun pb b => Gen.GEstimationSNM_missing_model_site pb b true nanv n d), a2, b2]; exact this⟩
  · intro gen stab n d h1 h2 h3
    rw [on (fun pb b => Gen.IPSW_sampling_model_site pb b gen stab n d),
      off (fun pb b => Gen.IPSW_sampling_model_site pb b gen stab n d), ipsw_site_generated, ipsw_site_generated]
    exact u6 gen stab n d h1 h2 h3
  · intro m1 m0 h1 h2 h3 h4
    have e1 := missing_sites_generated pb₀ (some (lo, hi)) m1 m0
    have e0 := missing_sites_generated pb₀ none m1 m0
    have hm : missPair (some (lo, hi)) m1 m0 = missPair none m1 m0 := by
      simp only [missPair, applyB, clip1_id_of_mem lo hi m1 h1 h2, clip1_id_of_mem lo hi m0 h3 h4]
    exact ⟨by rw [on (fun pb b => Gen.AIPTW_missing_model_site pb b m1 m0), off (fun pb b => Gen.AIPTW_missing_model_site pb b m1 m0),
                e1.1, e0.1, hm],
           by rw [on (fun pb b => Gen.TMLE_missing_model_site pb b m1 m0), off (fun pb b => Gen.TMLE_missing_model_site pb b m1 m0),
                e1.2, e0.2, hm]⟩

/-- **with a bound, every probability a regenerated site hands on lies in [lo, hi]** — g1 *and* g0, both observation
    probabilities, both outcome predictions, the cross-fit Pr(A=1), the IPMW / IPSW denominators; hence the weights built
    from them obey `gpair_le`, `stoch_cf_le`, `ipmw_ipsw_le`, `iptw_weight_le` -/
theorem sites_in_range_generated (lo hi : F) (h : lo ≤ hi) :
    (∀ stab std a1 (n d : F), lo ≤ (Gen.iptw_calculator_site (pbOf (lo, hi)) true stab std a1 n d).1 ∧
        (Gen.iptw_calculator_site (pbOf (lo, hi)) true stab std a1 n d).1 ≤ hi ∧
        lo ≤ (Gen.iptw_calculator_site (pbOf (lo, hi)) true stab std a1 n d).2.1 ∧
        (Gen.iptw_calculator_site (pbOf (lo, hi)) true stab std a1 n d).2.1 ≤ hi) ∧
    (∀ p : F, ∀ g ∈ [Gen.AIPTW_exposure_model_site (pbOf (lo, hi)) true p, Gen.TMLE_exposure_model_site (pbOf (lo, hi)) true p],
        lo ≤ g.1 ∧ g.1 ≤ hi ∧ lo ≤ g.2 ∧ g.2 ≤ hi) ∧
    (∀ m1 m0 : F, ∀ g ∈ [Gen.AIPTW_missing_model_site (pbOf (lo, hi)) true m1 m0, Gen.TMLE_missing_model_site (pbOf (lo, hi)) true m1 m0],
        lo ≤ g.1 ∧ g.1 ≤ hi ∧ lo ≤ g.2 ∧ g.2 ≤ hi) ∧
    (∀ (cb : F × F) (a q1 q0 : F),
        lo ≤ (Gen.TMLE_outcome_model_site (pbOf (lo, hi)) (pbOf cb) true a q1 q0).1 ∧
        (Gen.TMLE_outcome_model_site (pbOf (lo, hi)) (pbOf cb) true a q1 q0).1 ≤ hi ∧
        lo ≤ (Gen.TMLE_outcome_model_site (pbOf (lo, hi)) (pbOf cb) true a q1 q0).2.1 ∧
        (Gen.TMLE_outcome_model_site (pbOf (lo, hi)) (pbOf cb) true a q1 q0).2.1 ≤ hi ∧
        lo ≤ Gen.StochasticTMLE_outcome_model_site (pbOf (lo, hi)) (pbOf cb) true q1 ∧
        Gen.StochasticTMLE_outcome_model_site (pbOf (lo, hi)) (pbOf cb) true q1 ≤ hi) ∧
    (∀ p : F, ∀ g ∈ [Gen.SingleCrossfitAIPTW_site (pbOf (lo, hi)) true p, Gen.DoubleCrossfitAIPTW_site (pbOf (lo, hi)) true p,
          Gen.SingleCrossfitTMLE_site (pbOf (lo, hi)) true p, Gen.DoubleCrossfitTMLE_site (pbOf (lo, hi)) true p],
        lo ≤ g.1 ∧ g.1 ≤ hi ∧ g.2 = 1 - g.1) ∧
    (∀ gen stab (n d : F), lo ≤ (Gen.IPSW_sampling_model_site (pbOf (lo, hi)) true gen stab n d).1 ∧
        (Gen.IPSW_sampling_model_site (pbOf (lo, hi)) true gen stab n d).1 ≤ hi) := by
  have c := fun x : F => clip1_mem lo hi x h
  have on : ∀ {α : Type} (f : (F → F) → Bool → α), f (pbOf (lo, hi)) true
      = f (pbArg (fun x => x) (some (lo, hi))) (flagOf (some (lo, hi))) := fun f => rfl
  refine ⟨?_, ?_, ?_, ?_, ?_, ?_⟩
  · intro stab std a1 n d
    rw [on (fun pb b => Gen.iptw_calculator_site pb b stab std a1 n d), iptw_calculator_site_generated]
    exact ⟨(c d).1, (c d).2, (c n).1, (c n).2⟩
  · intro p g hg
    simp only [List.mem_cons, List.not_mem_nil, or_false] at hg
    have e := exposure_sites_generated (fun x : F => x) (some (lo, hi)) p
    rcases hg with rfl | rfl
    · rw [on (fun pb b => Gen.AIPTW_exposure_model_site pb b p), e.1]; exact ⟨(c p).1, (c p).2, (c _).1, (c _).2⟩
    · rw [on (fun pb b => Gen.TMLE_exposure_model_site pb b p), e.2]; exact ⟨(c p).1, (c p).2, (c _).1, (c _).2⟩
  · intro m1 m0 g hg
    simp only [List.mem_cons, List.not_mem_nil, or_false] at hg
    have e := missing_sites_generated (fun x : F => x) (some (lo, hi)) m1 m0
    rcases hg with rfl | rfl
    · rw [on (fun pb b => Gen.AIPTW_missing_model_site pb b m1 m0), e.1]; exact ⟨(c m1).1, (c m1).2, (c m0).1, (c m0).2⟩
    · rw [on (fun pb b => Gen.TMLE_missing_model_site pb b m1 m0), e.2]; exact ⟨(c m1).1, (c m1).2, (c m0).1, (c m0).2⟩
  · intro cb a q1 q0
    have e := outcome_sites_generated (fun x : F => x) (some (lo, hi)) cb a q1 q0
    rw [on (fun pb b => Gen.TMLE_outcome_model_site pb (pbOf cb) b a q1 q0),
      on (fun pb b => Gen.StochasticTMLE_outcome_model_site pb (pbOf cb) b q1), e.1, e.2]
    exact ⟨(c q1).1, (c q1).2, (c q0).1, (c q0).2, (c q1).1, (c q1).2⟩
  · intro p g hg
    simp only [List.mem_cons, List.not_mem_nil, or_false] at hg
    obtain ⟨a1, a2, a3, a4⟩ := crossfit_sites_generated (fun x : F => x) (some (lo, hi)) p
    have hc : lo ≤ (cfPair (some (lo, hi)) p).1 ∧ (cfPair (some (lo, hi)) p).1 ≤ hi ∧
        (cfPair (some (lo, hi)) p).2 = 1 - (cfPair (some (lo, hi)) p).1 := by
      refine ⟨?_, ?_, ?_⟩
      · simpa [cfPair, applyB] using (c p).1
      · simpa [cfPair, applyB] using (c p).2
      · simp [cfPair, applyB]
    rcases hg with rfl | rfl | rfl | rfl
    · rw [on (fun pb b => Gen.SingleCrossfitAIPTW_site pb b p), a1]; exact hc
    · rw [on (fun pb b => Gen.DoubleCrossfitAIPTW_site pb b p), a2]; exact hc
    · rw [on (fun pb b => Gen.SingleCrossfitTMLE_site pb b p), a3]; exact hc
    · rw [on (fun pb b => Gen.DoubleCrossfitTMLE_site pb b p), a4]; exact hc
  · intro gen stab n d
    rw [on (fun pb b => Gen.IPSW_sampling_model_site pb b gen stab n d), ipsw_site_generated]
    exact ⟨(c d).1, (c d).2⟩

/-! ### Non-vacuity -/

/-- a reached, asymmetric bound [1/10, 7/10] on p = 1/20: g1 is raised to 1/10 and g0 = 19/20 is lowered to 7/10 *on its own*
    (1 − g1 would be 9/10, outside the interval) -/
example : Gen.TMLE_exposure_model_site (pbOf ((1 : ℚ) / 10, 7 / 10)) true (1 / 20) = (1 / 10, 7 / 10) ∧
    Gen.AIPTW_exposure_model_site (pbOf ((1 : ℚ) / 10, 7 / 10)) true (1 / 20) = (1 / 10, 7 / 10) ∧
    Gen.TMLE_exposure_model_site (pbOf ((1 : ℚ) / 10, 7 / 10)) false (1 / 20) = (1 / 20, 19 / 20) ∧
    Gen.SingleCrossfitTMLE_site (pbOf ((1 : ℚ) / 10, 7 / 10)) true (1 / 20) = (1 / 10, 9 / 10) := by
  refine ⟨?_, ?_, ?_, ?_⟩ <;> norm_num [Gen.TMLE_exposure_model_site, Gen.AIPTW_exposure_model_site,
    Gen.SingleCrossfitTMLE_site, pbOf, clip1]

/-- the hypotheses of `bound_sites_unreached_generated` are met by p = 2/5 under [1/10, 7/10] (p and 1 − p inside) -/
example : ((1 : ℚ) / 10 ≤ 2 / 5 ∧ (2 : ℚ) / 5 ≤ 7 / 10 ∧ (1 : ℚ) / 10 ≤ 1 - 2 / 5 ∧ 1 - (2 : ℚ) / 5 ≤ 7 / 10) := by norm_num

/-- TMLE.outcome_model without a user bound clips by the continuous bound; QAW uses the clipped predictions -/
example : Gen.TMLE_outcome_model_site (pbOf ((1 : ℚ) / 10, 7 / 10)) (pbOf ((1 : ℚ) / 100, 99 / 100)) false 1 (1 / 1000) (1 / 2)
      = (1 / 100, 1 / 2, 1 / 100) ∧
    Gen.TMLE_outcome_model_site (pbOf ((1 : ℚ) / 10, 7 / 10)) (pbOf ((1 : ℚ) / 100, 99 / 100)) true 1 (1 / 1000) (1 / 2)
      = (1 / 10, 1 / 2, 1 / 10) := by
  constructor <;> norm_num [Gen.TMLE_outcome_model_site, pbOf, clip1]

end ZV.P17
