/-
C20, tie to the source.  The arithmetic / bookkeeping of `zepid.superlearner.stackers.SuperLearner` between the NNLS
solution and the prediction is regenerated on every run into `Gen/Stack.lean` (translator `NumListTr` of
harness/py2lean_lists.py):

* `fit`, Step 6 after the solver (`coefs[coefs < sqrt(eps)] = 0`, `coefs / np.sum(coefs)`)      → `Gen.sl_coefficients`
* `fit`, Step 7.a (discrete: `np.argmax`, the loop that refits one candidate and overwrites the
  coefficients with 1 / 0)                                                                        → `Gen.sl_fit_discrete`
* `fit`, Step 7.b (which candidates are refitted on all rows: `coefficients[est_id] > 0`)         → `Gen.sl_fit_full`
* `predict` (the `cv_pred` row: retained candidate's prediction or 0; `np.dot`; for `nloglik` the
  clip / logit / inverse-logit chain), one row                                                    → `Gen.sl_predict_l2`, `Gen.sl_predict_nloglik`
* `fit`, Steps 2-4, the *use* of the folds (a fresh clone per fold and candidate, fitted on `X[train], y[train]`,
  predicting `X[test]`, stored in `cv_pred[test, est_id]`)                                         → `Gen.sl_cv_calls`

The theorems identify them with the model of `Model/SuperLearner.lean` (`threshold`, `normalize`, `coefficients`,
`retained`, `predictL2`, `predictNll`, `cvSchedule`), so `coef_convex`, `coef_nan_iff`, `discrete_onehot`,
`predict_in_hull(_nll)`, `schedule_out_of_fold` are statements about the regenerated code.  Hand-modelled still:
`KFold` itself (external; `kfold`, measured by gate H), `_predict_` (which method of a candidate is called), the solver.
-/
import ZepidVerif.Props.C20
import ZepidVerif.Gen.Stack
set_option linter.unusedSectionVars false
set_option linter.unusedVariables false
namespace ZV.P20
open ZV ZV.SL

section gen
variable {F : Type} [Field F] [LinearOrder F] [IsStrictOrderedRing F]

/-! ### helper lemmas (not obligations) -/

private lemma np_argmaxFrom_eq : ∀ (cs : List F) (i best : Nat) (bv : F),
    Np.argmaxFrom i best bv cs = SL.argmaxFrom i best bv cs := by
  intro cs
  induction cs with
  | nil => intro i best bv; rfl
  | cons c cs ih => intro i best bv; simp only [Np.argmaxFrom, SL.argmaxFrom, ih]

private lemma np_argmax_eq (cs : List F) : Np.argmax cs = SL.argmax cs := by
  cases cs with
  | nil => rfl
  | cons c cs => exact np_argmaxFrom_eq cs 1 0 c

private lemma np_dot_comm : ∀ (a b : List F), Np.dot a b = SL.dot b a := by
  intro a
  induction a with
  | nil => intro b; cases b <;> rfl
  | cons x xs ih =>
    intro b
    cases b with
    | nil => rfl
    | cons y ys => simp only [Np.dot, SL.dot, ih, mul_comm]

private lemma py_range_getElem? (n i : Nat) (h : i < n) : (Py.range n)[i]? = some (i : Int) := by
  simp [Py.range, h]

private lemma getAt_nat (v : List F) (j : Nat) : Np.getAt v (j : Int) = v[j]?.getD 0 := by
  unfold Np.getAt Py.get
  simp

private lemma setAt_nat (v : List F) (j : Nat) (c : F) : Np.setAt v (j : Int) c = v.set j c := by
  unfold Np.setAt
  simp

/-- a loop `for j in range(t): v[j] = h(j)` over a vector of length `n ≥ t` overwrites the first `t` entries -/
private lemma fold_set (h : Nat → F) (n : Nat) : ∀ (t : Nat), t ≤ n → ∀ (v : List F), v.length = n →
    (List.range t).foldl (fun (st : List F) (j : Nat) => st.set j (h j)) v
      = (List.range n).map (fun j => if j < t then h j else v[j]?.getD 0) := by
  intro t
  induction t with
  | zero =>
    intro _ v hv
    simp only [List.range_zero, List.foldl_nil, Nat.not_lt_zero, if_false]
    apply List.ext_getElem?
    intro j
    by_cases hj : j < n
    · simp [hj, hv]
    · simp [hj, hv]
  | succ t ih =>
    intro ht v hv
    rw [List.range_succ, List.foldl_append, ih (by omega) v hv]
    simp only [List.foldl_cons, List.foldl_nil]
    apply List.ext_getElem?
    intro j
    by_cases hj : j < n
    · rw [List.getElem?_set]
      by_cases hjt : t = j
      · subst hjt; simp [hj]
      · simp only [hjt, if_false, List.getElem?_map, List.getElem?_range hj, Option.map_some]
        congr 1
        by_cases h1 : j < t
        · simp [h1, Nat.lt_succ_of_lt h1]
        · have : ¬ j < t + 1 := by omega
          simp [h1, this]
    · simp [hj]

private lemma fold_pair {α β γ : Type} (f : α → γ → α) (g : β → γ → β) : ∀ (l : List γ) (a : α) (b : β),
    l.foldl (fun (st : α × β) i => (f st.1 i, g st.2 i)) (a, b) = (l.foldl f a, l.foldl g b) := by
  intro l
  induction l with
  | nil => intro a b; rfl
  | cons x xs ih => intro a b; simp only [List.foldl_cons, ih]

private lemma fold_filter {γ : Type} (p : γ → Prop) [DecidablePred p] : ∀ (l : List γ) (acc : List γ),
    l.foldl (fun st i => if p i then st ++ [i] else st) acc = acc ++ l.filter (fun i => decide (p i)) := by
  intro l
  induction l with
  | nil => intro acc; simp
  | cons x xs ih =>
    intro acc
    simp only [List.foldl_cons, ih, List.filter_cons]
    by_cases hx : p x <;> simp [hx]

private lemma zipIdx_eq_range (cs : List F) :
    cs.zipIdx = (List.range cs.length).map (fun j => (cs[j]?.getD 0, j)) := by
  apply List.ext_getElem?
  intro i
  by_cases h : i < cs.length
  · simp [h]
  · simp [h]

/-! ### Coefficients -/

/-- **`fit`, Step 6 as regenerated is the model's `normalize ∘ threshold`.**  The masked assignment is `threshold`; the
    division by `np.sum` is `normalize`, whose `none` stands for numpy's all-NaN result of `0 / 0` (the carrier has no
    NaN: there the regenerated expression has no meaning, and `coef_nan_iff` says exactly when that happens). -/
theorem sl_coefficients_generated (thr : F) (raw : List F) :
    Np.maskSet raw (fun v => v < thr) ((0 : Nat) : F) = threshold thr raw ∧
    coefficients thr false raw =
      if Np.sum (threshold thr raw) = 0 then none else some (Gen.sl_coefficients thr raw) := by
  refine ⟨rfl, ?_⟩
  simp only [coefficients, Bool.false_eq_true, if_false, normalize, Gen.sl_coefficients, Np.sum, Np.divScalar,
    Np.maskSet, threshold, Nat.cast_zero]

/-- **Convex weights — the regenerated Step 6.**  Whatever the solver returned, unless every entry is below the
    threshold (then numpy's `0 / 0` gives the all-NaN vector, known finding F21) the coefficients computed by the
    regenerated lines are one per candidate, non-negative, and sum to one. -/
theorem coef_convex_generated (thr : F) (hthr : 0 < thr) (raw : List F) (h : ¬ ∀ c ∈ raw, c < thr) :
    (Gen.sl_coefficients thr raw).length = raw.length ∧ (∀ c ∈ Gen.sl_coefficients thr raw, 0 ≤ c) ∧
    Np.sum (Gen.sl_coefficients thr raw) = 1 := by
  have hne : coefficients thr false raw ≠ none := fun hn => h ((coef_nan_iff thr hthr raw).mp hn)
  have hg := (sl_coefficients_generated thr raw).2
  by_cases hs : Np.sum (threshold thr raw) = 0
  · rw [hg, if_pos hs] at hne; exact absurd rfl hne
  · rw [if_neg hs] at hg
    exact coef_convex thr hthr raw _ hg

example : Gen.sl_coefficients (1 / 100 : Rat) [3 / 10, -1 / 5, 1 / 1000, 1 / 10] = [3 / 4, 0, 0, 1 / 4] := by
  decide +kernel

/-! ### The refit loops -/

/-- **`fit`, Step 7.b as regenerated**: the candidates refitted on all rows are the model's `retained` (those with a
    positive coefficient, in candidate order). -/
theorem sl_fit_full_generated (cs : List F) :
    Gen.sl_fit_full cs cs.length = (retained (some cs)).map Int.ofNat := by
  unfold Gen.sl_fit_full Py.forRange retained
  simp only [gt_iff_lt, Nat.cast_zero]
  rw [fold_filter (fun i : Int => 0 < Np.getAt cs i), List.nil_append, zipIdx_eq_range, List.filter_map,
    List.map_map, List.map_map]
  unfold Py.range
  rw [List.filter_map]
  apply congrArg
  apply List.filter_congr
  intro j _
  simp [getAt_nat]

private lemma fold_onehot_ids (a : Nat) : ∀ (t : Nat),
    (List.range t).foldl (fun (st : List Int) (j : Nat) => if j = a then st ++ [(j : Int)] else st) []
      = if a < t then [(a : Int)] else [] := by
  intro t
  induction t with
  | zero => simp
  | succ t ih =>
    rw [List.range_succ, List.foldl_append, ih]
    simp only [List.foldl_cons, List.foldl_nil]
    by_cases h1 : a < t
    · have h2 : a < t + 1 := by omega
      have h3 : ¬ t = a := by omega
      simp [h1, h2, h3]
    · by_cases h2 : a = t
      · subst h2; simp
      · have h3 : ¬ a < t + 1 := by omega
        have h4 : ¬ t = a := by omega
        simp [h1, h3, h4]

private lemma range_filter_eq (n a : Nat) (h : a < n) : (List.range n).filter (fun j => decide (j = a)) = [a] := by
  induction n with
  | zero => omega
  | succ n ih =>
    rw [List.range_succ, List.filter_append]
    by_cases h1 : a < n
    · have : ¬ n = a := by omega
      rw [ih h1]; simp [this]
    · have h2 : a = n := by omega
      subst h2
      have : (List.range a).filter (fun j => decide (j = a)) = [] := by
        rw [List.filter_eq_nil_iff]
        intro j hj
        have := List.mem_range.mp hj
        simp; omega
      rw [this]; simp

private lemma argmaxFrom_lt : ∀ (cs : List F) (i best : Nat) (bv : F), best < i →
    SL.argmaxFrom i best bv cs < i + cs.length := by
  intro cs
  induction cs with
  | nil => intro i best bv h; simpa [SL.argmaxFrom] using h
  | cons c cs ih =>
    intro i best bv h
    simp only [SL.argmaxFrom, List.length_cons]
    split
    · have := ih (i + 1) i c (by omega); omega
    · have := ih (i + 1) best bv (by omega); omega

private lemma argmax_lt (cs : List F) (hne : cs ≠ []) : SL.argmax cs < cs.length := by
  cases cs with
  | nil => exact absurd rfl hne
  | cons c cs =>
    have := argmaxFrom_lt cs 1 0 c (by omega)
    simp only [SL.argmax, List.length_cons]; omega

/-- **`fit`, Step 7.a as regenerated** (discrete super learner): after the loop the stored coefficients are the one-hot
    vector at `np.argmax` of the incoming coefficients, and exactly that candidate was refitted on all rows. -/
theorem sl_fit_discrete_generated (cs : List F) (hne : cs ≠ []) :
    Gen.sl_fit_discrete cs cs.length = (onehot cs.length (SL.argmax cs), [((SL.argmax cs : Nat) : Int)]) := by
  have harg : SL.argmax cs < cs.length := argmax_lt cs hne
  unfold Gen.sl_fit_discrete Py.forRange Py.range
  simp only [np_argmax_eq, List.foldl_map, Int.ofNat_eq_natCast]
  have hbody : (fun (st : List F × List Int) (j : Nat) =>
        if ((j : Nat) : Int) = ((SL.argmax cs : Nat) : Int) then
          (Np.setAt st.1 (j : Int) ((1 : Nat) : F), st.2 ++ [(j : Int)])
        else (Np.setAt st.1 (j : Int) ((0 : Nat) : F), st.2))
      = (fun st j => (st.1.set j (if j = SL.argmax cs then ((1 : Nat) : F) else ((0 : Nat) : F)),
          if j = SL.argmax cs then st.2 ++ [(j : Int)] else st.2)) := by
    funext st j
    by_cases h : j = SL.argmax cs
    · simp [h, setAt_nat]
    · have h' : ¬ ((j : Nat) : Int) = ((SL.argmax cs : Nat) : Int) := by omega
      simp [h, h', setAt_nat]
  rw [hbody, fold_pair (fun (v : List F) (j : Nat) => v.set j (if j = SL.argmax cs then ((1 : Nat) : F) else ((0 : Nat) : F)))
    (fun (f : List Int) (j : Nat) => if j = SL.argmax cs then f ++ [(j : Int)] else f), fold_onehot_ids,
    fold_set _ cs.length cs.length (Nat.le_refl _) cs rfl]
  simp only [harg, if_true, Prod.mk.injEq, and_true]
  unfold onehot
  apply List.map_congr_left
  intro j hj
  simp [List.mem_range.mp hj]

/-- **Discrete super learner — the regenerated lines end to end.**  For a non-empty candidate list and a solver vector
    with some entry at or above the threshold, the model's discrete coefficients (`coefficients thr true`, the subject
    of `discrete_onehot`) are what the regenerated Step 6 followed by the regenerated Step 7.a store, and the one
    candidate refitted on all rows is the model's `retained`. -/
theorem sl_discrete_generated (thr : F) (hthr : 0 < thr) (raw : List F) (hne : raw ≠ []) (h : ¬ ∀ c ∈ raw, c < thr) :
    coefficients thr true raw = some (Gen.sl_fit_discrete (Gen.sl_coefficients thr raw) raw.length).1 ∧
    (Gen.sl_fit_discrete (Gen.sl_coefficients thr raw) raw.length).2
      = (retained (coefficients thr true raw)).map Int.ofNat := by
  have hlen := (coef_convex_generated thr hthr raw h).1
  have hne' : Gen.sl_coefficients thr raw ≠ [] := by
    intro h0; rw [h0] at hlen; exact hne (List.length_eq_zero_iff.mp hlen.symm)
  have hg := (sl_coefficients_generated thr raw).2
  have hs : ¬ Np.sum (threshold thr raw) = 0 := by
    intro hs
    rw [if_pos hs] at hg
    exact h ((coef_nan_iff thr hthr raw).mp hg)
  rw [if_neg hs] at hg
  have hd := sl_fit_discrete_generated (Gen.sl_coefficients thr raw) hne'
  rw [hlen] at hd
  have hw : normalize (threshold thr raw) = some (Gen.sl_coefficients thr raw) := by
    simpa [coefficients] using hg
  have hc : coefficients thr true raw = some (onehot raw.length (SL.argmax (Gen.sl_coefficients thr raw))) := by
    simp [coefficients, hw]
  have harg := argmax_lt _ hne'
  rw [hlen] at harg
  refine ⟨by rw [hc, hd], ?_⟩
  rw [hd, hc]
  simp only [retained, onehot, zipIdx_eq_range, List.length_map, List.length_range, List.filter_map, List.map_map]
  have : (List.range raw.length).filter
      ((fun p : F × Nat => decide (((0 : Nat) : F) < p.1)) ∘ fun j =>
        (((List.range raw.length).map (fun j => if j = SL.argmax (Gen.sl_coefficients thr raw) then ((1 : Nat) : F)
          else ((0 : Nat) : F)))[j]?.getD 0, j))
      = [SL.argmax (Gen.sl_coefficients thr raw)] := by
    rw [List.filter_congr (q := fun j => decide (j = SL.argmax (Gen.sl_coefficients thr raw)))]
    · exact range_filter_eq _ _ harg
    · intro j hj
      have hj' := List.mem_range.mp hj
      by_cases hja : j = SL.argmax (Gen.sl_coefficients thr raw)
      · subst hja; simp [hj']
      · simp [hj', hja]
  rw [this]
  rfl

/-- non-vacuity: the regenerated Step 7.a / 7.b on the coefficients `[3/4, 0, 0, 1/4]` (hypotheses of
    `sl_discrete_generated`: a non-empty solver vector with an entry above the threshold) -/
example : Gen.sl_fit_discrete [(3 / 4 : Rat), 0, 0, 1 / 4] 4 = ([1, 0, 0, 0], [0]) := by decide +kernel
example : Gen.sl_fit_full [(3 / 4 : Rat), 0, 0, 1 / 4] 4 = [0, 3] := by decide +kernel
example : ¬ ∀ c ∈ [(3 / 10 : Rat), -1 / 5, 1 / 1000, 1 / 10], c < 1 / 100 := by decide +kernel

/-! ### predict -/

/-- the loop of `predict` that fills one row of `cv_pred`: the retained candidates' predictions, `0` elsewhere
    (every `NaN` of the initial fill is overwritten) -/
private lemma cvrow_eq (nanv : F) (cs preds : List F) (hlen : preds.length = cs.length) :
    (List.range cs.length).foldl (fun (st : List F) (j : Nat) =>
        if Np.getAt cs (j : Int) > ((0 : Nat) : F) then Np.setAt st (j : Int) (Np.getAt preds (j : Int))
        else Np.setAt st (j : Int) ((0 : Nat) : F)) (Py.rep nanv cs.length)
      = (cs.zip preds).map (fun cp => usedPred cp.1 cp.2) := by
  have hbody : (fun (st : List F) (j : Nat) =>
        if Np.getAt cs (j : Int) > ((0 : Nat) : F) then Np.setAt st (j : Int) (Np.getAt preds (j : Int))
        else Np.setAt st (j : Int) ((0 : Nat) : F))
      = (fun st j => st.set j (usedPred (cs[j]?.getD 0) (preds[j]?.getD 0))) := by
    funext st j
    simp only [getAt_nat, setAt_nat, usedPred, gt_iff_lt]
    split <;> rfl
  rw [hbody, fold_set _ cs.length cs.length (Nat.le_refl _) (Py.rep nanv cs.length) (by simp [Py.rep])]
  apply List.ext_getElem?
  intro j
  by_cases hj : j < cs.length
  · have hj2 : j < preds.length := by omega
    simp [hj, hj2]
  · have hj2 : ¬ j < preds.length := by omega
    simp [hj, hj2]

/-- **`predict` as regenerated, `loss_function = 'l2'`** (one row): the model's `predictL2`, i.e. `Σ cⱼ pⱼ` over the
    retained candidates — so `predict_combination` and `predict_in_hull` are statements about the regenerated code. -/
theorem sl_predict_l2_generated (nanv : F) (cs preds : List F) (hlen : preds.length = cs.length) :
    Gen.sl_predict_l2 nanv cs preds cs.length = predictL2 cs preds := by
  unfold Gen.sl_predict_l2 Py.forRange Py.range predictL2
  simp only [List.foldl_map, Int.ofNat_eq_natCast]
  rw [cvrow_eq nanv cs preds hlen, np_dot_comm]

/-- **`predict` as regenerated, `loss_function = 'nloglik'`** (one row): the model's `predictNll` — clip each column
    (`probability_bounds` = `clip1 b (1 − b)` per element, C17), logit, `np.dot` with the coefficients, inverse logit. -/
theorem sl_predict_nloglik_generated (lg sg : F → F) (b nanv : F) (cs preds : List F)
    (hlen : preds.length = cs.length) :
    Gen.sl_predict_nloglik lg sg (Bounds.clip1 b (((1 : Nat) : F) - b)) nanv cs preds cs.length
      = predictNll lg sg b cs preds := by
  unfold Gen.sl_predict_nloglik Py.forRange Py.range predictNll
  simp only [List.foldl_map, Int.ofNat_eq_natCast]
  rw [cvrow_eq nanv cs preds hlen, np_dot_comm, List.map_map, List.map_map]
  rfl

/-- **Predictions stay within the range of the retained candidates — the regenerated `predict`, `'l2'`**
    (`predict_in_hull` transported): convex coefficients, every retained candidate's prediction in `[lo, hi]`. -/
theorem predict_in_hull_generated (nanv : F) (cs preds : List F) (hlen : preds.length = cs.length)
    (hnn : ∀ c ∈ cs, 0 ≤ c) (hsum : sumBy (fun c => c) cs = 1) (lo hi : F)
    (hp : ∀ cp ∈ cs.zip preds, 0 < cp.1 → lo ≤ cp.2 ∧ cp.2 ≤ hi) :
    lo ≤ Gen.sl_predict_l2 nanv cs preds cs.length ∧ Gen.sl_predict_l2 nanv cs preds cs.length ≤ hi := by
  rw [sl_predict_l2_generated nanv cs preds hlen]
  exact predict_in_hull cs preds hlen hnn hsum lo hi hp

example : Gen.sl_predict_l2 (-1) [3 / 4, 0, 1 / 4] [(2 : Rat), 100, 6] 3 = 3 := by decide +kernel

end gen

/-! ### The use of the folds -/

private lemma fold_append_map' {α β : Type} (f : α → β) :
    ∀ (l : List α) (acc : List β), l.foldl (fun st x => st ++ [f x]) acc = acc ++ l.map f := by
  intro l
  induction l with
  | nil => intro acc; simp
  | cons a l ih => intro acc; simp [List.foldl_cons, ih]

/-- one record per candidate for one pass of the fold loop -/
private def passRecords (m : Nat) (cf : Nat) (train test : List Nat) :
    List (Nat × Int × List Nat × List Nat × List Nat) :=
  (List.range m).map (fun (c : Nat) => (cf, (c : Int), train, test, test))

private lemma cv_outer (m : Nat) : ∀ (L : List (List Nat × List Nat)) (c0 : Nat)
    (acc : List (Nat × Int × List Nat × List Nat × List Nat)),
    L.foldl (fun (st : Nat × List (Nat × Int × List Nat × List Nat × List Nat)) (p : List Nat × List Nat) =>
        (st.1 + 1, st.2 ++ passRecords m (st.1 + 1) p.1 p.2)) (c0, acc)
      = (c0 + L.length, acc ++ (L.zipIdx c0).flatMap (fun q => passRecords m (q.2 + 1) q.1.1 q.1.2)) := by
  intro L
  induction L with
  | nil => intro c0 acc; simp
  | cons x xs ih =>
    intro c0 acc
    simp only [List.foldl_cons, ih, List.zipIdx_cons, List.flatMap_cons, List.length_cons, List.append_assoc]
    congr 1
    omega

/-- **`fit`, Steps 2-4 as regenerated: how the folds are used.**  Given the `(train, test)` pairs `KFold` yields, the
    loop makes, per pass and per candidate, one fresh clone, fits it on `X[train], y[train]`, lets it predict `X[test]`
    and stores the result in `cv_pred[test, est_id]`: the record list is, fold by fold (`current_fold` = 1, 2, …) and
    candidate by candidate, `(fold, candidate, train, test, test)`. -/
theorem sl_cv_calls_generated (m : Nat) (pairs : List (List Nat × List Nat)) :
    Gen.sl_cv_calls pairs m
      = pairs.zipIdx.flatMap (fun q => (List.range m).map (fun (c : Nat) => (q.2 + 1, (c : Int), q.1.1, q.1.2, q.1.2))) := by
  unfold Gen.sl_cv_calls Py.forIn Py.forRange Py.range
  simp only [List.foldl_map, Int.ofNat_eq_natCast]
  have hin : ∀ (cf : Nat) (tr te : List Nat) (calls : List (Nat × Int × List Nat × List Nat × List Nat)),
      (List.range m).foldl (fun st (c : Nat) => st ++ [(cf, (c : Int), tr, te, te)]) calls
        = calls ++ passRecords m cf tr te :=
    fun cf tr te calls => fold_append_map' (fun (c : Nat) => (cf, (c : Int), tr, te, te)) (List.range m) calls
  simp only [hin]
  have := cv_outer m pairs 0 []
  simp only [List.nil_append, Nat.zero_add] at this
  rw [this]
  rfl

/-- **The model's cross-validation call sequence is the regenerated loop's** (with `KFold`'s training rows = the
    complement of the test fold, the behaviour assumed of the external and measured by gate H): `cvSchedule`, the
    subject of `schedule_out_of_fold`, is obtained record by record from `Gen.sl_cv_calls` — a fit on the record's
    training rows followed by a prediction of its test rows, by the clone of that fold and candidate — and every record
    stores its predictions in exactly the rows it predicted (the out-of-fold matrix is filled where it was held out). -/
theorem cv_schedule_generated (n m : Nat) (folds : List (List Nat)) :
    cvSchedule n m folds
      = (Gen.sl_cv_calls (folds.map (fun t => (trainRows n t, t))) m).flatMap
          (fun r => [Ev.fit (r.1 - 1) r.2.1.toNat r.2.2.1, Ev.pred (r.1 - 1) r.2.1.toNat r.2.2.2.1]) ∧
    ∀ r ∈ Gen.sl_cv_calls (folds.map (fun t => (trainRows n t, t))) m, r.2.2.2.2 = r.2.2.2.1 := by
  rw [sl_cv_calls_generated]
  constructor
  · unfold cvSchedule foldEvents
    rw [List.zipIdx_map, List.flatMap_map, List.flatMap_assoc]
    apply List.flatMap_congr
    intro p _
    rw [List.flatMap_map]
    simp only [Prod.map_fst, Prod.map_snd, id_eq, Nat.add_sub_cancel, Int.toNat_natCast]
  · intro r hr
    simp only [List.mem_flatMap, List.mem_map] at hr
    obtain ⟨q, _, c, _, rfl⟩ := hr
    rfl

example : Gen.sl_cv_calls [([2, 3], [0, 1]), ([0, 1], [2, 3])] 2 =
    [(1, 0, [2, 3], [0, 1], [0, 1]), (1, 1, [2, 3], [0, 1], [0, 1]),
     (2, 0, [0, 1], [2, 3], [2, 3]), (2, 1, [0, 1], [2, 3], [2, 3])] := by decide

end ZV.P20
