/-
C17, tie to the source: `probability_bounds`, regenerated from zepid/calc/utils.py on every run into
`Gen/Bounds.lean` (per element of the copied vector), is the model's `parseBound` + `clip1` — for the float branch
and for the sequence branch with two numeric entries.  The branches that only raise (`str`, `int`) and the shape of
the chain are checked by the translator itself, which refuses any other text.
-/
import ZepidVerif.Props.C17
import ZepidVerif.Gen.Bounds
set_option linter.unusedSectionVars false
set_option linter.unusedVariables false
namespace ZV.P17
open ZV ZV.Bounds

variable {F : Type} [Field F] [LinearOrder F] [IsStrictOrderedRing F] [Transc F]

/-- float bound: the generated code validates and clips exactly as the model does -/
theorem probability_bounds_float_generated (b x : F) :
    Gen.probability_bounds_float b x =
      (match parseBound (BoundSpec.float b) with
       | .error e => (Except.error e : Except Err F)
       | .ok (lo, hi) => .ok (clip1 lo hi x)) := by
  by_cases h : b < ((0 : Nat) : F) ∨ b > ((1 : Nat) : F)
  · simp only [Gen.probability_bounds_float, parseBound, clip1, h, if_true]
  · simp only [Gen.probability_bounds_float, parseBound, clip1, h, if_false]

/-- pair of numbers (with any further entries ignored): the generated code validates and clips as the model does -/
theorem probability_bounds_pair_generated (lo hi x : F) (rest : List (Option F)) :
    Gen.probability_bounds_pair lo hi x =
      (match parseBound (BoundSpec.seq (some lo :: some hi :: rest)) with
       | .error e => (Except.error e : Except Err F)
       | .ok (l, h) => .ok (clip1 l h x)) := by
  by_cases h1 : lo > hi
  · simp only [Gen.probability_bounds_pair, parseBound, clip1, h1, if_true]
  · by_cases h2 : lo < ((0 : Nat) : F) ∨ hi > ((1 : Nat) : F)
    · simp only [Gen.probability_bounds_pair, parseBound, clip1, h1, h2, if_true, if_false, or_self]
    · simp only [Gen.probability_bounds_pair, parseBound, clip1, h1, h2, if_false, or_self]

/-- so the whole vector: `probabilityBounds` of the model is the generated function mapped over the entries -/
theorem probability_bounds_vector_generated (b : F) (v : List F) :
    probabilityBounds v (BoundSpec.float b) =
      (match parseBound (BoundSpec.float b) with
       | .error e => (Except.error e : Except Err (List F))
       | .ok (lo, hi) => .ok (v.map (clip1 lo hi))) := by
  unfold probabilityBounds clip
  cases parseBound (BoundSpec.float b) with
  | error e => rfl
  | ok p => rfl

end ZV.P17
