/-
C14, tie to the source: the definition regenerated on every run from the text of `StochasticIPTW.fit`
(`Gen/Stoch.lean`) computes the model the theorems `numer_order_free`, `stoch_iptw_order_free`, `p_one_zero`,
`stoch_iptw_mixture` of `Props/C14.lean` are about; they are restated here about the generated code itself.
-/
import ZepidVerif.Props.C14
import ZepidVerif.Lemmas.StochBridge
set_option linter.unusedSectionVars false
set_option linter.unusedVariables false
namespace ZV.P14
open ZV ZV.Std ZV.Stoch

variable {F : Type} [Field F] [LinearOrder F] [IsStrictOrderedRing F] [Transc F]

/-- **Tie to the source.**  `Gen.stoch_iptw_fit`, regenerated from the text of `StochasticIPTW.fit` (numerator of an
    unconditional plan; the loop over `zip(conditional, p)` as a fold in listing order; `_denom_`, `_ipw_`, the user's
    weights, `np.average`), returns the model's numerator, weight and marginal outcome at the plan its arguments
    denote.  Without a weight column the model's frequency weight is 1. -/
theorem stoch_iptw_fit_generated (hasCond hasWeights : Bool) (p : F) (ps : List F) (conditional : List (Nat → Bool))
    (l : List (Row F)) (g : Row F → F) (hw : hasWeights = false → ∀ r ∈ l, r.w = 1) :
    (∀ r, (Gen.stoch_iptw_fit hasCond hasWeights p ps conditional l g).1 r
            = planNumer (planOf hasCond p ps conditional) r) ∧
    (∀ r ∈ l, (Gen.stoch_iptw_fit hasCond hasWeights p ps conditional l g).2.1 r
            = stochWeight (planOf hasCond p ps conditional) g r) ∧
    (Gen.stoch_iptw_fit hasCond hasWeights p ps conditional l g).2.2
            = stochIptw (planOf hasCond p ps conditional) g l :=
  stoch_iptw_fit_eq hasCond hasWeights p ps conditional l g hw

/-- **`numer_order_free` about the generated code**: two listings of the same (condition, probability) pairs —
    `zip(conditional₂, p₂)` a permutation of `zip(conditional₁, p₁)` — give a row at which the conditions are exclusive
    the same `_numer_` and `_ipw_`; when they are exclusive at every row, the same marginal outcome (whether or not a
    weight column is used). -/
theorem numer_order_free_generated (hasWeights : Bool) (p : F) (ps₁ ps₂ : List F) (c₁ c₂ : List (Nat → Bool))
    (hp : (List.zip c₁ ps₁).Perm (List.zip c₂ ps₂)) (l : List (Row F)) (g : Row F → F) :
    (∀ r, Exclusive (condsOf ps₁ c₁) r.i →
      (Gen.stoch_iptw_fit true hasWeights p ps₁ c₁ l g).1 r = (Gen.stoch_iptw_fit true hasWeights p ps₂ c₂ l g).1 r ∧
      (Gen.stoch_iptw_fit true hasWeights p ps₁ c₁ l g).2.1 r = (Gen.stoch_iptw_fit true hasWeights p ps₂ c₂ l g).2.1 r) ∧
    ((∀ r ∈ l, Exclusive (condsOf ps₁ c₁) r.i) →
      (Gen.stoch_iptw_fit true hasWeights p ps₁ c₁ l g).2.2 = (Gen.stoch_iptw_fit true hasWeights p ps₂ c₂ l g).2.2) := by
  have hperm : (condsOf ps₁ c₁).Perm (condsOf ps₂ c₂) := hp.map _
  have hnum : ∀ r : Row F, Exclusive (condsOf ps₁ c₁) r.i →
      planNumer (planOf true p ps₁ c₁) r = planNumer (planOf true p ps₂ c₂) r :=
    fun r hx => (numer_order_free _ _ hperm r hx g).1
  have hrow : ∀ r : Row F, Exclusive (condsOf ps₁ c₁) r.i →
      (Gen.stoch_iptw_fit true hasWeights p ps₁ c₁ l g).2.1 r = (Gen.stoch_iptw_fit true hasWeights p ps₂ c₂ l g).2.1 r := by
    intro r hx; rw [gen_ipw_eq, gen_ipw_eq, hnum r hx]
  refine ⟨fun r hx => ⟨by rw [gen_numer_eq, gen_numer_eq, hnum r hx], hrow r hx⟩, fun hx => ?_⟩
  rw [gen_marginal_eq, gen_marginal_eq]
  have hall : l.all (fun r => (planNumer (planOf true p ps₁ c₁) r).isSome)
      = l.all (fun r => (planNumer (planOf true p ps₂ c₂) r).isSome) := by
    rw [Bool.eq_iff_iff, List.all_eq_true, List.all_eq_true]
    exact ⟨fun h r hr => by rw [← hnum r (hx r hr)]; exact h r hr, fun h r hr => by rw [hnum r (hx r hr)]; exact h r hr⟩
  rw [hall,
    sumBy_congr (fun r hr => by rw [hrow r (hx r hr)] : ∀ r ∈ l,
      r.y * ((Gen.stoch_iptw_fit true hasWeights p ps₁ c₁ l g).2.1 r).getD 0
        = r.y * ((Gen.stoch_iptw_fit true hasWeights p ps₂ c₂ l g).2.1 r).getD 0),
    sumBy_congr (fun r hr => by rw [hrow r (hx r hr)] : ∀ r ∈ l,
      ((Gen.stoch_iptw_fit true hasWeights p ps₁ c₁ l g).2.1 r).getD 0
        = ((Gen.stoch_iptw_fit true hasWeights p ps₂ c₂ l g).2.1 r).getD 0)]

/-- **`p_one_zero` about the generated code**: when the `_numer_` column the regenerated text computes is "probability
    one (zero) of treatment" on every row — as it is for `p = 1` (`p = 0`) unconditionally — the marginal outcome is the
    Hájek mean of the treated (untreated) arm under unstabilized IPTW. -/
theorem p_one_zero_generated (hasCond hasWeights : Bool) (p : F) (ps : List F) (conditional : List (Nat → Bool))
    (l : List (Row F)) (hobs : ∀ r ∈ l, r.obs = true) (g n : Row F → F)
    (hw : hasWeights = false → ∀ r ∈ l, r.w = 1) :
    ((∀ r ∈ l, (Gen.stoch_iptw_fit hasCond hasWeights p ps conditional l g).1 r = some (recv r.a 1)) →
      (Gen.stoch_iptw_fit hasCond hasWeights p ps conditional l g).2.2
        = some (hajek l (iptwOmega false .pop n g (fun _ => 1)) true)) ∧
    ((∀ r ∈ l, (Gen.stoch_iptw_fit hasCond hasWeights p ps conditional l g).1 r = some (recv r.a 0)) →
      (Gen.stoch_iptw_fit hasCond hasWeights p ps conditional l g).2.2
        = some (hajek l (iptwOmega false .pop n g (fun _ => 1)) false)) ∧
    (∀ r, (Gen.stoch_iptw_fit false hasWeights 1 ps conditional l g).1 r = some (recv r.a 1)) ∧
    (∀ r, (Gen.stoch_iptw_fit false hasWeights 0 ps conditional l g).1 r = some (recv r.a 0)) := by
  have hb := stoch_iptw_fit_eq hasCond hasWeights p ps conditional l g hw
  have hm := p_one_zero l hobs g n (planOf hasCond p ps conditional)
  refine ⟨fun h => ?_, fun h => ?_, fun r => ?_, fun r => ?_⟩
  · rw [hb.2.2]; exact hm.1 (fun r hr => by rw [← hb.1 r]; exact h r hr)
  · rw [hb.2.2]; exact hm.2.1 (fun r hr => by rw [← hb.1 r]; exact h r hr)
  · rw [gen_numer_eq]; rfl
  · rw [gen_numer_eq]; rfl

/-- **`stoch_iptw_mixture` about the generated code**: saturated treatment model, positivity, complete outcomes, and the
    `_numer_` column of the regenerated text is the stratum's plan probability of the treatment received ⇒ the
    marginal outcome it returns is the standardized mixture `Σ_s (N_s/N)(π_s ȳ_{s1} + (1-π_s) ȳ_{s0})`, exactly. -/
theorem stoch_iptw_mixture_generated (hasCond hasWeights : Bool) (p : F) (ps : List F) (conditional : List (Nat → Bool))
    (l : List (Row F)) (S : List Nat) (hS : Strata l S) (hpos : Positivity l S)
    (hobs : ∀ r ∈ l, r.obs = true) (g : Nat → F) (hg : PropFit l S g) (π : Nat → F)
    (hw : hasWeights = false → ∀ r ∈ l, r.w = 1)
    (hpl : ∀ r ∈ l, (Gen.stoch_iptw_fit hasCond hasWeights p ps conditional l (fun r => g r.s)).1 r
                      = some (recv r.a (π r.s))) :
    (Gen.stoch_iptw_fit hasCond hasWeights p ps conditional l (fun r => g r.s)).2.2
      = some (mixture l S (fun _ => true) π) := by
  have hb := stoch_iptw_fit_eq hasCond hasWeights p ps conditional l (fun r => g r.s) hw
  rw [hb.2.2]
  exact stoch_iptw_mixture l S hS hpos hobs g hg π _ (fun r hr => by rw [← hb.1 r]; exact hpl r hr)

end ZV.P14

/-! ### The hypotheses are satisfiable; the generated code runs -/
namespace ZV.P14
open ZV ZV.Std ZV.Stoch
local instance transcRatC14Gen : Transc ℚ := ⟨id, id, id⟩

def exCondG : List (Nat → Bool) := [fun i => i < 3, fun i => 3 ≤ i]
def exPsG : List ℚ := [1/4, 2/3]

example : (List.zip exCondG exPsG).Perm (List.zip exCondG.reverse exPsG.reverse) := by
  simp only [exCondG, exPsG, List.zip_cons_cons, List.zip_nil_right, List.reverse_cons, List.reverse_nil, List.nil_append,
    List.cons_append]
  exact List.Perm.swap _ _ _
example : ∀ i, Exclusive (condsOf exPsG exCondG) i := by
  intro i; simp only [Exclusive, condsOf, exPsG, exCondG, List.zip_cons_cons, List.zip_nil_right, List.map_cons,
    List.map_nil, List.pairwise_cons, List.mem_cons, List.not_mem_nil, or_false]
  refine ⟨?_, by simp, by simp⟩
  intro c hc; subst hc; simp only [decide_eq_true_eq]; omega
-- hypothesis of `stoch_iptw_mixture_generated` on the data of `Props/C14.lean` (weights in the data: hasWeights = true)
example : ∀ r ∈ exRows, (Gen.stoch_iptw_fit true true 0 exPsG exCondG exRows (fun r => exG r.s)).1 r
    = some (recv r.a (exPi r.s)) := by decide +kernel
-- the generated code, executed in both listing orders, and the closed-form mixture
example : (Gen.stoch_iptw_fit true true 0 exPsG exCondG exRows (fun r => exG r.s)).2.2 = some (85/108) ∧
    (Gen.stoch_iptw_fit true true 0 exPsG.reverse exCondG.reverse exRows (fun r => exG r.s)).2.2 = some (85/108) ∧
    mixture exRows [0, 1] (fun _ => true) exPi = 85/108 := by decide +kernel
-- p = 1 through conditions: the numerator hypothesis of `p_one_zero_generated`
example : ∀ r ∈ exRows, (Gen.stoch_iptw_fit true true 0 [1, 1] exCondG exRows (fun r => exG r.s)).1 r = some (recv r.a 1) := by
  decide +kernel

end ZV.P14
