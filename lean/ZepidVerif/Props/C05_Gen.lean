/-
C05, tie to the source: the definition regenerated on every run from the text of `StochasticIPTW.fit`
(`Gen/Stoch.lean`: the `_numer_` column of an unconditional plan, the loop over `zip(conditional, p)`, `_denom_`,
`_ipw_`, the multiplication by the user's weights, `np.average`) computes the model `planNumer` / `stochWeight` /
`stochIptw` the theorems `stoch_numer`, `stoch_weight_spec` of `Props/C05.lean` are about; those theorems are
restated here about the generated code itself.
-/
import ZepidVerif.Props.C05
import ZepidVerif.Lemmas.StochBridge
set_option linter.unusedSectionVars false
set_option linter.unusedVariables false
namespace ZV.P05
open ZV ZV.Std

variable {F : Type} [Field F] [LinearOrder F] [IsStrictOrderedRing F] [Transc F]

/-- **Tie to the source.**  `Gen.stoch_iptw_fit`, regenerated from the text of `StochasticIPTW.fit`, returns the model's
    numerator, weight and marginal outcome at the plan its arguments denote (`Stoch.planOf`: one probability when
    `conditional is None`, else the (condition, probability) pairs of `zip(conditional, p)` in listing order).
    Without a weight column the model's frequency weight is 1. -/
theorem stoch_iptw_fit_generated (hasCond hasWeights : Bool) (p : F) (ps : List F) (conditional : List (Nat → Bool))
    (l : List (Row F)) (g : Row F → F) (hw : hasWeights = false → ∀ r ∈ l, r.w = 1) :
    (∀ r, (Gen.stoch_iptw_fit hasCond hasWeights p ps conditional l g).1 r
            = Stoch.planNumer (Stoch.planOf hasCond p ps conditional) r) ∧
    (∀ r ∈ l, (Gen.stoch_iptw_fit hasCond hasWeights p ps conditional l g).2.1 r
            = Stoch.stochWeight (Stoch.planOf hasCond p ps conditional) g r) ∧
    (Gen.stoch_iptw_fit hasCond hasWeights p ps conditional l g).2.2
            = Stoch.stochIptw (Stoch.planOf hasCond p ps conditional) g l :=
  Stoch.stoch_iptw_fit_eq hasCond hasWeights p ps conditional l g hw

/-- **`stoch_numer` about the generated code**: the `_numer_` column computed by the regenerated text is the plan's
    probability of the treatment received — the single `p` of an unconditional plan; the probability listed with the
    condition that selects the row (conditions exclusive at the row); NaN for a row no condition selects. -/
theorem stoch_numer_generated (hasWeights : Bool) (p : F) (ps : List F) (conditional : List (Nat → Bool))
    (l : List (Row F)) (g : Row F → F) (r : Row F) :
    ((Gen.stoch_iptw_fit false hasWeights p ps conditional l g).1 r = some (if r.a then p else 1 - p)) ∧
    (∀ cq ∈ List.zip conditional ps, Stoch.Exclusive (Stoch.condsOf ps conditional) r.i → cq.1 r.i = true →
      (Gen.stoch_iptw_fit true hasWeights p ps conditional l g).1 r = some (if r.a then cq.2 else 1 - cq.2)) ∧
    ((∀ cq ∈ List.zip conditional ps, cq.1 r.i = false) →
      (Gen.stoch_iptw_fit true hasWeights p ps conditional l g).1 r = none) := by
  refine ⟨?_, ?_, ?_⟩
  · rw [Stoch.gen_numer_eq]; exact (stoch_numer r).1 p
  · intro cq hcq hx hm
    rw [Stoch.gen_numer_eq]
    exact (stoch_numer r).2.1 (Stoch.condsOf ps conditional) ⟨cq.1, cq.2⟩ hx
      (List.mem_map.mpr ⟨cq, hcq, rfl⟩) hm
  · intro h
    rw [Stoch.gen_numer_eq]
    apply (stoch_numer r).2.2 (Stoch.condsOf ps conditional)
    intro c hc
    obtain ⟨cq, hcq, rfl⟩ := List.mem_map.mp hc
    exact h cq hcq

/-- **`stoch_weight_spec` about the generated code**: the `_ipw_` column of the regenerated text is the plan probability
    of the treatment received over the fitted probability of the treatment received, times the weight column when
    one was given. -/
theorem stoch_weight_generated (hasWeights : Bool) (p : F) (ps : List F) (conditional : List (Nat → Bool))
    (l : List (Row F)) (g : Row F → F) (r : Row F) :
    ((Gen.stoch_iptw_fit false hasWeights p ps conditional l g).2.1 r
      = some (prOf r.a p / prOf r.a (g r) * (if hasWeights then r.w else 1))) ∧
    (∀ cq ∈ List.zip conditional ps, Stoch.Exclusive (Stoch.condsOf ps conditional) r.i → cq.1 r.i = true →
      (Gen.stoch_iptw_fit true hasWeights p ps conditional l g).2.1 r
        = some (prOf r.a cq.2 / prOf r.a (g r) * (if hasWeights then r.w else 1))) := by
  have h1 := (stoch_numer_generated hasWeights p ps conditional l g r).1
  have h2 := (stoch_numer_generated hasWeights p ps conditional l g r).2.1
  rw [Stoch.gen_numer_eq] at h1
  refine ⟨?_, ?_⟩
  · rw [Stoch.gen_ipw_eq, h1]
    cases hasWeights <;> cases r.a <;> simp [prOf, Stoch.recv]
  · intro cq hcq hx hm
    have := h2 cq hcq hx hm
    rw [Stoch.gen_numer_eq] at this
    rw [Stoch.gen_ipw_eq, this]
    cases hasWeights <;> cases r.a <;> simp [prOf, Stoch.recv]

end ZV.P05

/-! ### The hypotheses are satisfiable; the generated code runs -/
namespace ZV.P05
open ZV ZV.Std
local instance transcRatC05Gen : Transc ℚ := ⟨id, id, id⟩

/-- four rows; conditions "even id" (p = 1/4) and "odd id" (p = 3/4), exclusive and exhaustive -/
def exRowsG : List (Row ℚ) := [⟨0, 0, true, 1, 2, true⟩, ⟨1, 0, false, 0, 1, true⟩, ⟨2, 0, false, 1, 1, true⟩, ⟨3, 0, true, 1, 3, true⟩]
def exCondG : List (Nat → Bool) := [fun i => i % 2 == 0, fun i => i % 2 == 1]
def exPsG : List ℚ := [1/4, 3/4]

example : ∀ i, Stoch.Exclusive (Stoch.condsOf exPsG exCondG) i := by
  intro i; simp [Stoch.Exclusive, Stoch.condsOf, exPsG, exCondG]
-- the generated definition, executed: numerators, weights (times the weight column), marginal outcome
example : ((exRowsG.map (Gen.stoch_iptw_fit true true 0 exPsG exCondG exRowsG (fun _ => 1/2)).1),
           (exRowsG.map (Gen.stoch_iptw_fit true true 0 exPsG exCondG exRowsG (fun _ => 1/2)).2.1),
           (Gen.stoch_iptw_fit true true 0 exPsG exCondG exRowsG (fun _ => 1/2)).2.2)
    = ([some (1/4), some (1/4), some (3/4), some (3/4)], [some 1, some (1/2), some (3/2), some (9/2)], some (14/15)) := by
  decide +kernel
-- a row no condition selects: NaN numerator, NaN weight, NaN estimate
example : (Gen.stoch_iptw_fit true false 0 [1/4] [fun i => i % 2 == 0] exRowsG (fun _ => (1/2 : ℚ))).1 ⟨1, 0, false, 0, 1, true⟩ = none
    ∧ (Gen.stoch_iptw_fit true false 0 [1/4] [fun i => i % 2 == 0] exRowsG (fun _ => (1/2 : ℚ))).2.2 = none := by
  decide +kernel
-- later condition wins where two overlap (the loop is a fold in listing order)
example : (Gen.stoch_iptw_fit true false 0 [1/4, 3/4] [fun _ => true, fun i => i == 0] exRowsG (fun _ => (1/2 : ℚ))).1 ⟨0, 0, true, 1, 2, true⟩
    = some (3/4) := by decide +kernel

end ZV.P05
