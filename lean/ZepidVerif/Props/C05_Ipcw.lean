/-
C05, tie to the source (IPCW): the definitions regenerated on every run from the text of `zepid/causal/ipw/IPCW.py`
(`Gen/Ipcw.lean`) — the two assignments of the uncensored indicator in `IPCW.__init__` (long format) and in `_dataprep`
(flat input), the two `groupby(idvar)[·].cumprod()` lines of `regression_models` and the ratio in `fit` — compute the
model `uncens` / `weights` of `Model/Ipcw.lean` the theorems `uncensored_char`, `flat_uncensored_char`, `ipcw_cumprod`,
`ipcw_subject_local` of `Props/C05.lean` are about; those theorems are restated here about the generated code.

What stays hand-modelled: the sort by (id, time) (`sortRecs`, a stable insertion sort standing for pandas'
`sort_values`), `np.max` (`maxTime`), pandas' `groupby(key)[col].cumprod()` itself (`cumprod1`: a scan in frame order
with one running product per key) and `shift(-1)` (`mapNext`); the record expansion of `_dataprep`.
-/
import ZepidVerif.Props.C05
import ZepidVerif.Gen.Ipcw
set_option linter.unusedSectionVars false
set_option linter.unusedVariables false
namespace ZV.P05
open ZV ZV.Ipcw

variable {F : Type} [Field F] [LinearOrder F] [IsStrictOrderedRing F] [Transc F]

/-- the 0/1 integer the code stores for an indicator -/
def b2n (b : Bool) : Nat := if b then 1 else 0

/-- **Tie to the source (indicator).**  The column `__uncensored__` as the regenerated text of `IPCW.__init__` computes it
    on a frame, and the column `uncensored_zepid` of `_dataprep`, are the model's `uncens` (as 0/1 integers). -/
theorem ipcw_uncensored_generated (m : F) (rows : List (Rec F)) :
    Gen.ipcw_uncensored m rows = (uncens m rows).map b2n ∧
    Gen.ipcw_flat_uncensored m rows = (uncens m rows).map b2n := by
  constructor
  · unfold Gen.ipcw_uncensored
    induction rows with
    | nil => rfl
    | cons r rs ih =>
      cases rs with
      | nil =>
        simp only [mapNext, uncens, List.map_cons, List.map_nil, b2n]
        cases r.event <;> cases eqF r.time m <;> simp
      | cons r' rest =>
        simp only [mapNext, uncens, List.map_cons] at ih ⊢
        rw [ih]
        congr 1
        by_cases hid : r.id = r'.id <;> cases r.event <;> cases eqF r.time m <;> simp_all [b2n]
  · unfold Gen.ipcw_flat_uncensored
    induction rows with
    | nil => rfl
    | cons r rs ih =>
      cases rs with
      | nil =>
        simp only [mapNext, uncens, List.map_cons, List.map_nil, b2n]
        cases r.event <;> cases eqF r.time m <;> simp
      | cons r' rest =>
        simp only [mapNext, uncens, List.map_cons] at ih ⊢
        rw [ih]
        congr 1
        by_cases hid : r.id = r'.id <;> cases r.event <;> cases eqF r.time m <;> simp_all [b2n]

/-- **Tie to the source (weights).**  The regenerated `groupby(idvar).cumprod()` lines and the ratio of `fit` are the model's
    `Ipcw.weights`. -/
theorem ipcw_weights_generated (l : List (Rec F)) (num den : Nat → F) :
    Gen.ipcw_weights l num den = Ipcw.weights l num den := by
  unfold Gen.ipcw_weights Ipcw.weights
  rfl

/-- **`uncensored_char` about the generated code**: on the frame `IPCW.__init__` builds from a long table (sorted by
    (id, time)), the indicator the regenerated lines compute at the maximum follow-up time `m` of the data is 0 exactly
    for the last record of a subject that has no event there and whose time is not `m`. -/
theorem uncensored_char_generated (l : List (Rec F)) (p : Prep F) (h : prepLong l = .ok p) :
    ∃ m, maxTime l = some m ∧ (∀ r ∈ l, r.time ≤ m) ∧ (∃ r ∈ l, r.time = m) ∧
      Gen.ipcw_uncensored m (sortRecs l) = p.unc.map b2n ∧
      ∀ j (hj : j < (sortRecs l).length),
        (Gen.ipcw_uncensored m (sortRecs l))[j]? = some (b2n (!((((sortRecs l).drop (j + 1)).all fun r' => r'.id != (sortRecs l)[j].id)
          && !(sortRecs l)[j].event && !decide ((sortRecs l)[j].time = m)))) := by
  have hrows : p.rows = sortRecs l ∧ ∃ m, maxTime l = some m ∧ p.unc = uncens m (sortRecs l) := by
    unfold prepLong at h
    cases hm : maxTime l with
    | none => rw [hm] at h; simp at h
    | some m =>
      rw [hm] at h
      simp only at h
      split_ifs at h
      simp only [Except.ok.injEq] at h
      subst h
      exact ⟨rfl, m, rfl, rfl⟩
  obtain ⟨hr, m, hm, hu⟩ := hrows
  refine ⟨m, hm, (maxTime_spec l m hm).1, (maxTime_spec l m hm).2, ?_, ?_⟩
  · rw [(ipcw_uncensored_generated m (sortRecs l)).1, hu]
  · intro j hj
    rw [(ipcw_uncensored_generated m (sortRecs l)).1, List.getElem?_map,
      uncens_getElem? m _ (sort_sorted_perm l).2.2.1 j hj]
    rfl

/-- **flat input**: the indicator the regenerated `_dataprep` lines compute on the expanded records, at their maximum
    `t_out`, is the column `prepFlat` returns — the one `flat_uncensored_char` characterises. -/
theorem flat_uncensored_generated (l : List (Flat F)) (ex : List (LRec F)) (unc : List Bool)
    (h : prepFlat l = .ok (ex, unc)) (mo : F) (hmo : maxTime (ex.map LRec.r) = some mo) :
    Gen.ipcw_flat_uncensored mo (ex.map LRec.r) = unc.map b2n := by
  rw [(ipcw_uncensored_generated mo (ex.map LRec.r)).2]
  unfold prepFlat at h
  cases hm : maxTime (l.map fun x => (⟨x.lab, x.id, x.T, x.event⟩ : Rec F)) with
  | none => rw [hm] at h; simp at h
  | some m =>
    rw [hm] at h
    simp only at h
    split_ifs at h
    cases hm2 : maxTime (((sortBy flatKey l).flatMap expandOne).map (·.r)) with
    | none =>
      rw [hm2] at h
      simp only [Except.ok.injEq, Prod.mk.injEq] at h
      obtain ⟨rfl, rfl⟩ := h
      rfl
    | some mo' =>
      rw [hm2] at h
      simp only [Except.ok.injEq, Prod.mk.injEq] at h
      obtain ⟨rfl, rfl⟩ := h
      have : mo' = mo := by rw [hm2] at hmo; exact Option.some.inj hmo
      rw [this]

/-- **`ipcw_cumprod` about the generated code**: the weight the regenerated lines give the record at position `j` of any
    frame is the product, over the records at or before `j` of the same subject, of numerator over denominator
    probability. -/
theorem ipcw_cumprod_generated (l : List (Rec F)) (num den : Nat → F) (j : Nat) (hj : j < l.length) :
    (Gen.ipcw_weights l num den)[j]?
      = some ((((l.take (j + 1)).filter fun r => r.id == l[j].id).map fun r => num r.lab / den r.lab).prod) := by
  rw [ipcw_weights_generated]; exact ipcw_cumprod l num den j hj

/-- **`ipcw_subject_local` about the generated code**: a record whose subject has the same history up to it in two frames
    gets the same weight in both, whatever the other subjects' rows are. -/
theorem ipcw_subject_local_generated (l l' : List (Rec F)) (num den : Nat → F) (j j' : Nat) (hj : j < l.length)
    (hj' : j' < l'.length)
    (h : (l.take (j + 1)).filter (fun r => r.id == l[j].id) = (l'.take (j' + 1)).filter (fun r => r.id == l'[j'].id)) :
    (Gen.ipcw_weights l num den)[j]? = (Gen.ipcw_weights l' num den)[j']? := by
  rw [ipcw_weights_generated, ipcw_weights_generated]; exact ipcw_subject_local l l' num den j j' hj hj' h

end ZV.P05

/-! ### The generated code runs -/
namespace ZV.P05
open ZV ZV.Ipcw
local instance transcRatC05Ipcw : Transc ℚ := ⟨id, id, id⟩

-- the long table `exL` of `Props/C05.lean`: sorted order 1,3 (id 3), 4 (id 5), 2,0 (id 7); maximum time 2
example : (prepLong exL).toOption.map (fun p => p.unc.map b2n) = some (Gen.ipcw_uncensored 2 (sortRecs exL)) ∧
    Gen.ipcw_uncensored 2 (sortRecs exL) = [1, 1, 0, 1, 1] := by decide +kernel
example : Gen.ipcw_weights (sortRecs exL) (fun _ => (1/2 : ℚ)) (fun i => if i = 0 then 1/4 else 1/3)
    = Ipcw.weights (sortRecs exL) (fun _ => (1/2 : ℚ)) (fun i => if i = 0 then 1/4 else 1/3) ∧
    Gen.ipcw_weights (sortRecs exL) (fun _ => (1/2 : ℚ)) (fun i => if i = 0 then 1/4 else 1/3) = [3/2, 9/4, 3/2, 3/2, 3] := by
  decide +kernel

end ZV.P05
