/-
C17 — Probability truncation clips exactly and is applied wherever requested.

Subject: `ZV.Bounds` (the model the native driver executes: ops `bounds`, `bw`): `parseBound` (validation in
the code's branch order), `clip1` / `clip` (the two masked assignments on a copy), `probabilityBounds`, and the
per-row use sites of every estimator taking `bound=` (`iptwRow`, `gPair`, `stochDen`, `cfPair`, `ipmwRow`,
`ipswRow`), whose weight formulas are the generated `Gen.iptw_weight` / `Gen.ipsw_weight`.

Carried by theorems (all inputs, any length, any linearly ordered field):
  * the result is the elementwise clip, a new list of the same length (`clip_spec`); the argument cannot change
    because the model is a function on values — the *aliasing* clause (input object untouched, read-only buffers,
    container types) is Python behaviour outside any model and is decided by gate D on the real code (partial);
  * `clip_mem`, `clip_idem`, `clip_id_of_mem`, `clip_eq_self_iff`, `truncCount_eq_zero_iff`;
  * the accept/reject table (`reject_iff`, `accept_float`, `accept_pair`);
  * an unreached bound is a no-op for every use site and for any downstream computation (`bound_unreached_noop`,
    `use_sites_unreached`);
  * the weights built from clipped probabilities are at most 1/lo resp. 1/(1−hi) (`weight_le`, and the per-site
    corollaries), in particular at most 1/b for a symmetric bound b.
What the code does that the property sentence glosses over (modelled as is, see `reject_iff`): a float bound of
exactly 0 or 1 is accepted; a float b > 1/2 is accepted and yields the constant 1−b (`clip_of_gt`); a numpy
scalar that is not a float subclass (`np.float32(0.1)`) is rejected (falls in `.other`), `np.float64` is a float.
-/
import ZepidVerif.Model.Bounds
import Mathlib.Algebra.Order.Field.Basic
import Mathlib.Tactic.FieldSimp
import Mathlib.Tactic.Ring
import Mathlib.Tactic.Linarith
import Mathlib.Tactic.Positivity
import Mathlib.Tactic.NormNum
import Mathlib.Algebra.Order.Field.Rat
set_option linter.unusedSectionVars false
set_option linter.unusedVariables false
namespace ZV.P17
open ZV.Bounds ZV.Gen

variable {F : Type} [Field F] [LinearOrder F] [IsStrictOrderedRing F] [Transc F]

/-! ### the clip -/

/-- elementwise: the two masked assignments are `min (max x lo) hi` (numpy's `clip`), whatever lo, hi -/
theorem clip1_spec (lo hi x : F) : clip1 lo hi x = min (max x lo) hi := by
  unfold clip1
  by_cases h1 : x < lo
  · simp only [h1, if_true, max_eq_right h1.le]
    by_cases h2 : lo > hi
    · simp [h2, min_eq_right h2.le]
    · simp [h2, min_eq_left (not_lt.mp h2)]
  · simp only [h1, if_false, max_eq_left (not_lt.mp h1)]
    by_cases h2 : x > hi
    · simp [h2, min_eq_right h2.le]
    · simp [h2, min_eq_left (not_lt.mp h2)]

/-- **clips exactly**: the result is a new list of the same length whose i-th entry is the clip of the i-th entry -/
theorem clip_spec (lo hi : F) (v : List F) :
    clip lo hi v = v.map (fun x => min (max x lo) hi) ∧ (clip lo hi v).length = v.length ∧
    ∀ i (h : i < v.length), (clip lo hi v)[i]? = some (min (max v[i] lo) hi) := by
  refine ⟨?_, by simp [clip], ?_⟩
  · unfold clip; apply List.map_congr_left; intro x _; exact clip1_spec lo hi x
  · intro i h; simp [clip, clip1_spec, h]

theorem clip1_mem (lo hi x : F) (h : lo ≤ hi) : lo ≤ clip1 lo hi x ∧ clip1 lo hi x ≤ hi := by
  rw [clip1_spec]; exact ⟨le_min (le_max_right _ _) h, min_le_right _ _⟩

/-- every bounded value lies in [lo, hi] -/
theorem clip_mem (lo hi : F) (v : List F) (h : lo ≤ hi) : ∀ y ∈ clip lo hi v, lo ≤ y ∧ y ≤ hi := by
  intro y hy
  simp only [clip, List.mem_map] at hy
  obtain ⟨x, -, rfl⟩ := hy
  exact clip1_mem lo hi x h

theorem clip1_id_of_mem (lo hi x : F) (h1 : lo ≤ x) (h2 : x ≤ hi) : clip1 lo hi x = x := by
  rw [clip1_spec, max_eq_left h1, min_eq_left h2]

/-- a bound no value reaches changes nothing -/
theorem clip_id_of_mem (lo hi : F) (v : List F) (h : ∀ x ∈ v, lo ≤ x ∧ x ≤ hi) : clip lo hi v = v := by
  unfold clip
  conv_rhs => rw [← List.map_id v]
  apply List.map_congr_left
  intro x hx; exact clip1_id_of_mem lo hi x (h x hx).1 (h x hx).2

/-- and conversely: the vector is unchanged exactly when no value is outside the interval -/
theorem clip_eq_self_iff (lo hi : F) (v : List F) (h : lo ≤ hi) :
    clip lo hi v = v ↔ ∀ x ∈ v, lo ≤ x ∧ x ≤ hi := by
  refine ⟨fun he x hx => ?_, clip_id_of_mem lo hi v⟩
  have := clip_mem lo hi v h x (by rw [he]; exact hx)
  exact this

/-- bounding twice is bounding once (no hypothesis on lo, hi) -/
theorem clip_idem (lo hi : F) (v : List F) : clip lo hi (clip lo hi v) = clip lo hi v := by
  simp only [clip, List.map_map]
  apply List.map_congr_left
  intro x _
  simp only [Function.comp, clip1_spec]
  rcases le_total lo hi with h | h
  · rw [max_eq_left (le_min (le_max_right _ _) h), min_eq_left (min_le_right _ _)]
  · have e : ∀ y : F, min (max y lo) hi = hi := fun y => min_eq_right (h.trans (le_max_right _ _))
    rw [e, e]

/-- a float bound above 1/2 (accepted by the code) collapses everything to the upper end 1 − b -/
theorem clip_of_gt (lo hi : F) (h : hi ≤ lo) (x : F) : clip1 lo hi x = hi := by
  rw [clip1_spec]; exact min_eq_right (h.trans (le_max_right _ _))

/-- StochasticTMLE's "No. Truncated" is zero exactly when the bound changed nothing -/
theorem truncCount_eq_zero_iff (lo hi : F) (v : List F) :
    truncCount lo hi v = 0 ↔ ∀ x ∈ v, lo ≤ x ∧ x ≤ hi := by
  unfold truncCount
  rw [List.length_eq_zero_iff, List.filter_eq_nil_iff]
  constructor
  · intro h x hx; have := h x hx
    simp only [Bool.or_eq_true, decide_eq_true_eq, not_or, not_lt] at this; exact this
  · intro h x hx
    simp only [Bool.or_eq_true, decide_eq_true_eq, not_or, not_lt]; exact h x hx

/-! ### the validation table -/

/-- **rejection**: exactly which specifications raise.  A Python float is rejected iff it is < 0 or > 1
    (0 and 1 themselves are accepted by the code); strings, ints and non-indexable objects always; a sequence
    unless its first two entries are numbers lo ≤ hi with 0 ≤ lo and hi ≤ 1 (extra entries are ignored). -/
theorem reject_iff (s : BoundSpec F) :
    (∃ e, parseBound s = .error e) ↔
      match s with
      | .float b => b < 0 ∨ 1 < b
      | .str => True
      | .int => True
      | .other => True
      | .seq items => ¬ ∃ lo hi rest, items = some lo :: some hi :: rest ∧ lo ≤ hi ∧ 0 ≤ lo ∧ hi ≤ 1 := by
  cases s with
  | float b => simp only [parseBound, Nat.cast_zero, Nat.cast_one]; split_ifs with h <;> simp_all
  | str => simp [parseBound]
  | int => simp [parseBound]
  | other => simp [parseBound]
  | seq items =>
    match items with
    | [] => simp [parseBound]
    | [x] => cases x <;> simp [parseBound]
    | none :: y :: r => simp [parseBound]
    | some lo :: none :: r => simp [parseBound]
    | some lo :: some hi :: r =>
      simp only [parseBound, Nat.cast_zero, Nat.cast_one]
      split_ifs with h1 h2
      · simp only [Except.error.injEq, exists_eq', true_iff]
        rintro ⟨lo', hi', rest, he, hle, -, -⟩
        simp only [List.cons.injEq, Option.some.injEq] at he
        obtain ⟨rfl, rfl, -⟩ := he; exact absurd hle (not_le.mpr h1)
      · simp only [Except.error.injEq, exists_eq', true_iff]
        rintro ⟨lo', hi', rest, he, -, h0, h1'⟩
        simp only [List.cons.injEq, Option.some.injEq] at he
        obtain ⟨rfl, rfl, -⟩ := he
        rcases h2 with h2 | h2
        · exact absurd h0 (not_le.mpr h2)
        · exact absurd h1' (not_le.mpr h2)
      · simp only [exists_false, false_iff, not_not]
        simp only [not_or, not_lt] at h2
        exact ⟨lo, hi, r, rfl, not_lt.mp h1, h2.1, h2.2⟩

/-- a single float b in [0,1] is applied as the symmetric interval [b, 1 − b] -/
theorem accept_float (b : F) (h0 : 0 ≤ b) (h1 : b ≤ 1) (v : List F) :
    parseBound (.float b) = .ok (b, 1 - b) ∧ probabilityBounds v (.float b) = .ok (clip b (1 - b) v) := by
  have : ¬ (b < 0 ∨ b > 1) := by simp only [not_or, not_lt]; exact ⟨h0, h1⟩
  simp [probabilityBounds, parseBound, this]

/-- a pair is applied as [lo, hi]; entries after the second are ignored -/
theorem accept_pair (lo hi : F) (rest : List (Option F)) (h : lo ≤ hi) (h0 : 0 ≤ lo) (h1 : hi ≤ 1) (v : List F) :
    parseBound (.seq (some lo :: some hi :: rest)) = .ok (lo, hi) ∧
    probabilityBounds v (.seq (some lo :: some hi :: rest)) = .ok (clip lo hi v) := by
  have a : ¬ lo > hi := not_lt.mpr h
  have b : ¬ (lo < 0 ∨ hi > 1) := by simp only [not_or, not_lt]; exact ⟨h0, h1⟩
  simp [probabilityBounds, parseBound, a, b]

/-- whatever is accepted yields an interval inside [0,1]; for a pair it is ascending -/
theorem parse_interval (s : BoundSpec F) (lo hi : F) (h : parseBound s = .ok (lo, hi)) :
    0 ≤ lo ∧ hi ≤ 1 ∧ ((∃ b, s = .float b ∧ lo = b ∧ hi = 1 - b) ∨ (∃ items, s = .seq items ∧ lo ≤ hi)) := by
  cases s with
  | float b =>
    simp only [parseBound, Nat.cast_zero, Nat.cast_one] at h
    split_ifs at h with hc
    simp only [Except.ok.injEq, Prod.mk.injEq] at h
    obtain ⟨rfl, rfl⟩ := h
    simp only [not_or, not_lt] at hc
    exact ⟨hc.1, by linarith, Or.inl ⟨_, rfl, rfl, rfl⟩⟩
  | str => simp [parseBound] at h
  | int => simp [parseBound] at h
  | other => simp [parseBound] at h
  | seq items =>
    match items with
    | [] => simp [parseBound] at h
    | [x] => cases x <;> simp [parseBound] at h
    | none :: y :: r => simp [parseBound] at h
    | some l :: none :: r => simp [parseBound] at h
    | some l :: some u :: r =>
      simp only [parseBound, Nat.cast_zero, Nat.cast_one] at h
      split_ifs at h with h1 h2
      simp only [Except.ok.injEq, Prod.mk.injEq] at h
      obtain ⟨rfl, rfl⟩ := h
      simp only [not_or, not_lt] at h2
      exact ⟨h2.1, h2.2, Or.inr ⟨_, rfl, not_lt.mp h1⟩⟩

/-! ### an unreached bound is a no-op -/

/-- **no-op**: any computation fed the bounded probabilities (an estimator is some function `est` of them and of
    data that the bound does not touch) returns what it returns without a bound, when no probability is outside -/
theorem bound_unreached_noop {β : Type} (est : List F → β) (lo hi : F) (v : List F)
    (h : ∀ x ∈ v, lo ≤ x ∧ x ≤ hi) : est (clip lo hi v) = est v := by
  rw [clip_id_of_mem lo hi v h]

/-- the same for every modelled use site, row by row: with all probabilities involved inside the interval the
    bounded row equals the unbounded row (`none` = no `bound` argument) -/
theorem use_sites_unreached (lo hi : F) :
    (∀ stab std a1 (n d : F), lo ≤ d → d ≤ hi → lo ≤ n → n ≤ hi →
        iptwRow stab std (some (lo, hi)) a1 n d = iptwRow stab std none a1 n d) ∧
    (∀ p : F, lo ≤ p → p ≤ hi → lo ≤ 1 - p → 1 - p ≤ hi → gPair (some (lo, hi)) p = gPair none p) ∧
    (∀ a1 (p : F), lo ≤ p → p ≤ hi → stochDen (some (lo, hi)) a1 p = stochDen none a1 p) ∧
    (∀ p : F, lo ≤ p → p ≤ hi → cfPair (some (lo, hi)) p = cfPair none p) ∧
    (∀ n d : F, lo ≤ d → d ≤ hi → ipmwRow (some (lo, hi)) n d = ipmwRow none n d) ∧
    (∀ gen stab (n d : F), lo ≤ d → d ≤ hi → (stab = true → lo ≤ n ∧ n ≤ hi) →
        ipswRow gen stab (some (lo, hi)) n d = ipswRow gen stab none n d) := by
  refine ⟨?_, ?_, ?_, ?_, ?_, ?_⟩
  · intro stab std a1 n d h1 h2 h3 h4
    simp only [iptwRow, applyB, clip1_id_of_mem lo hi d h1 h2, clip1_id_of_mem lo hi n h3 h4]
  · intro p h1 h2 h3 h4
    simp only [gPair, applyB, Nat.cast_one, clip1_id_of_mem lo hi p h1 h2, clip1_id_of_mem lo hi (1 - p) h3 h4]
  · intro a1 p h1 h2; simp only [stochDen, applyB, clip1_id_of_mem lo hi p h1 h2]
  · intro p h1 h2; simp only [cfPair, applyB, clip1_id_of_mem lo hi p h1 h2]
  · intro n d h1 h2; simp only [ipmwRow, applyB, clip1_id_of_mem lo hi d h1 h2]
  · intro gen stab n d h1 h2 h3
    cases stab
    · simp only [ipswRow, applyB, clip1_id_of_mem lo hi d h1 h2, Bool.false_eq_true, if_false]
    · simp only [ipswRow, applyB, clip1_id_of_mem lo hi d h1 h2, clip1_id_of_mem lo hi n (h3 rfl).1 (h3 rfl).2]

/-- the estimators' truthiness test: a falsy `bound` never reaches `probability_bounds`; otherwise the
    accepted interval is exactly the one `probability_bounds` applies and a rejected one aborts -/
theorem estimatorBound_spec (falsy : Bool) (s : BoundSpec F) :
    (falsy = true → estimatorBound falsy s = .ok none) ∧
    (falsy = false → ∀ iv, parseBound s = .ok iv → estimatorBound falsy s = .ok (some iv)) ∧
    (falsy = false → ∀ e, parseBound s = .error e → estimatorBound falsy s = .error e) := by
  refine ⟨fun h => by simp [estimatorBound, h], fun h iv hp => by simp [estimatorBound, h, hp],
    fun h e hp => by simp [estimatorBound, h, hp]⟩

/-! ### weights built from clipped probabilities -/

/-- **weights are bounded**: for a probability clipped into [lo, hi] with 0 < lo ≤ hi < 1,
    1/p ≤ 1/lo and 1/(1−p) ≤ 1/(1−hi) -/
theorem weight_le (lo hi x : F) (hlo : 0 < lo) (h : lo ≤ hi) (hhi : hi < 1) :
    1 / clip1 lo hi x ≤ 1 / lo ∧ 1 / (1 - clip1 lo hi x) ≤ 1 / (1 - hi) := by
  obtain ⟨h1, h2⟩ := clip1_mem lo hi x h
  constructor
  · exact one_div_le_one_div_of_le hlo h1
  · exact one_div_le_one_div_of_le (by linarith) (by linarith)

/-- IPTW weights (standardize = population), stabilized or not: never above max(1/lo, 1/(1−hi)) -/
theorem iptw_weight_le (stab : Bool) (lo hi : F) (a1 : Bool) (n d : F) (hlo : 0 < lo) (h : lo ≤ hi) (hhi : hi < 1) :
    (iptwRow stab "population" (some (lo, hi)) a1 n d).2.2 ≤ max (1 / lo) (1 / (1 - hi)) ∧
    lo ≤ (iptwRow stab "population" (some (lo, hi)) a1 n d).1 ∧
    (iptwRow stab "population" (some (lo, hi)) a1 n d).1 ≤ hi := by
  obtain ⟨d1, d2⟩ := clip1_mem lo hi d h
  obtain ⟨n1, n2⟩ := clip1_mem lo hi n h
  obtain ⟨w1, w2⟩ := weight_le lo hi d hlo h hhi
  refine ⟨?_, d1, d2⟩
  have hd : 0 < clip1 lo hi d := lt_of_lt_of_le hlo d1
  have hd' : 0 < 1 - clip1 lo hi d := by linarith
  cases stab <;> cases a1 <;>
    simp only [iptwRow, applyB, iptw_weight, Nat.cast_one, if_true, if_false, Bool.false_eq_true]
  · exact le_max_of_le_right w2
  · exact le_max_of_le_left w1
  · refine le_max_of_le_right (le_trans ?_ w2)
    exact div_le_div_of_nonneg_right (by linarith) hd'.le
  · refine le_max_of_le_left (le_trans ?_ w1)
    exact div_le_div_of_nonneg_right (by linarith) hd.le

/-- symmetric bound b: every such IPTW weight is at most 1/b -/
theorem iptw_weight_le_sym (stab : Bool) (b : F) (a1 : Bool) (n d : F) (hb : 0 < b) (hb' : b ≤ 1 / 2) :
    (iptwRow stab "population" (some (b, 1 - b)) a1 n d).2.2 ≤ 1 / b := by
  have h := (iptw_weight_le stab b (1 - b) a1 n d hb (by linarith) (by linarith)).1
  rwa [sub_sub_cancel, max_self] at h

/-- AIPTW / TMLE: both g1 and g0 (and the missing-model probabilities) are clipped into [lo, hi], so the
    inverse-probability factors 1/g1, 1/g0 are at most 1/lo -/
theorem gpair_le (lo hi p : F) (hlo : 0 < lo) (h : lo ≤ hi) :
    lo ≤ (gPair (some (lo, hi)) p).1 ∧ (gPair (some (lo, hi)) p).1 ≤ hi ∧
    lo ≤ (gPair (some (lo, hi)) p).2 ∧ (gPair (some (lo, hi)) p).2 ≤ hi ∧
    1 / (gPair (some (lo, hi)) p).1 ≤ 1 / lo ∧ 1 / (gPair (some (lo, hi)) p).2 ≤ 1 / lo := by
  simp only [gPair, applyB]
  obtain ⟨a1, a2⟩ := clip1_mem lo hi p h
  obtain ⟨b1, b2⟩ := clip1_mem lo hi (((1 : Nat) : F) - p) h
  exact ⟨a1, a2, b1, b2, one_div_le_one_div_of_le hlo a1, one_div_le_one_div_of_le hlo b1⟩

/-- StochasticTMLE and the cross-fit estimators use p and 1 − p of the clipped probability -/
theorem stoch_cf_le (lo hi : F) (a1 : Bool) (p : F) (hlo : 0 < lo) (h : lo ≤ hi) (hhi : hi < 1) :
    1 / stochDen (some (lo, hi)) a1 p ≤ max (1 / lo) (1 / (1 - hi)) ∧
    1 / (cfPair (some (lo, hi)) p).1 ≤ 1 / lo ∧ 1 / (cfPair (some (lo, hi)) p).2 ≤ 1 / (1 - hi) := by
  obtain ⟨w1, w2⟩ := weight_le lo hi p hlo h hhi
  refine ⟨?_, by simpa [cfPair, applyB] using w1, by simpa [cfPair, applyB] using w2⟩
  cases a1 <;> simp only [stochDen, applyB, Nat.cast_one, if_true, if_false, Bool.false_eq_true]
  · exact le_max_of_le_right w2
  · exact le_max_of_le_left w1

/-- missing-outcome weights (IPTW / GEstimationSNM) n / d with a numerator probability 0 ≤ n ≤ 1, and IPSW
    sampling weights for generalizability: at most 1/lo -/
theorem ipmw_ipsw_le (lo hi n d : F) (hlo : 0 < lo) (h : lo ≤ hi) (hhi : hi ≤ 1) (hn0 : 0 ≤ n) (hn1 : n ≤ 1)
    (stab : Bool) :
    ipmwRow (some (lo, hi)) n d ≤ 1 / lo ∧ (ipswRow true stab (some (lo, hi)) n d).2.2 ≤ 1 / lo := by
  obtain ⟨d1, d2⟩ := clip1_mem lo hi d h
  obtain ⟨n1, n2⟩ := clip1_mem lo hi n h
  have hd : 0 < clip1 lo hi d := lt_of_lt_of_le hlo d1
  constructor
  · simp only [ipmwRow, applyB]
    calc n / clip1 lo hi d ≤ 1 / clip1 lo hi d := div_le_div_of_nonneg_right hn1 hd.le
      _ ≤ 1 / lo := one_div_le_one_div_of_le hlo d1
  · cases stab <;> simp only [ipswRow, applyB, ipsw_weight, if_true, if_false, Bool.false_eq_true]
    · calc n / clip1 lo hi d ≤ 1 / clip1 lo hi d := div_le_div_of_nonneg_right hn1 hd.le
        _ ≤ 1 / lo := one_div_le_one_div_of_le hlo d1
    · calc clip1 lo hi n / clip1 lo hi d ≤ 1 / clip1 lo hi d := div_le_div_of_nonneg_right (by linarith) hd.le
        _ ≤ 1 / lo := one_div_le_one_div_of_le hlo d1

/-! ### Non-vacuity -/
local instance : Transc ℚ := ⟨id, id, id⟩

example : probabilityBounds (F := ℚ) [1/100, 1/5, 1/2, 19/20, 1, 0] (.float (1/10)) =
    .ok [1/10, 1/5, 1/2, 9/10, 9/10, 1/10] := by
  simp [probabilityBounds, parseBound, clip, clip1]; norm_num

example : probabilityBounds (F := ℚ) [1/100, 1/2, 99/100] (.seq [some (1/20), some (4/5), some (1/2)]) =
    .ok [1/20, 1/2, 4/5] := by
  simp [probabilityBounds, parseBound, clip, clip1]; norm_num

example : ∃ e, parseBound (F := ℚ) (.seq [some (9/10), some (1/10)]) = .error e := by
  rw [reject_iff]; rintro ⟨lo, hi, rest, he, hle, -, -⟩
  simp only [List.cons.injEq, Option.some.injEq] at he
  obtain ⟨rfl, rfl, -⟩ := he; norm_num at hle

example : ∃ e, parseBound (F := ℚ) (.float (3/2)) = .error e := by rw [reject_iff]; norm_num

/-- hypotheses of `clip_id_of_mem` / `bound_unreached_noop` met by a non-trivial vector -/
example : ∀ x ∈ ([1/5, 1/2, 7/10] : List ℚ), (1/10 : ℚ) ≤ x ∧ x ≤ 9/10 := by
  intro x hx; simp at hx; rcases hx with rfl | rfl | rfl <;> norm_num

/-- hypotheses of the weight theorems met, and the bound 1/lo attained: a treated row with d = 1/100 < lo -/
example : (iptwRow (F := ℚ) false "population" (some (1/10, 9/10)) true 1 (1/100)).2.2 = 10 := by
  simp [iptwRow, applyB, clip1, iptw_weight]; norm_num

end ZV.P17
