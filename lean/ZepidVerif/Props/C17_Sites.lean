/-
C17, tie to the source (call sites): the per-row definitions regenerated on every run from the text of
`IPSW.sampling_model` and `GEstimationSNM.missing_model` (`Gen/Sites.lean`) — which vector is handed to
`probability_bounds`, with which bound argument, under which test, and what is stored — are the use-site models
`ipswRow` / `ipmwRow` of `Model/Bounds.lean` that `use_sites_unreached`, `weight_le_*` (Props/C17.lean) are about.
-/
import ZepidVerif.Props.C17
import ZepidVerif.Gen.Sites
set_option linter.unusedSectionVars false
set_option linter.unusedVariables false
namespace ZV.P17
open ZV ZV.Bounds

variable {F : Type} [Field F] [LinearOrder F] [IsStrictOrderedRing F] [Transc F]

/-- **Tie to the source (IPSW.sampling_model).**  `iv` = the interval of an accepted truthy `bound` (`none`: falsy,
    `probability_bounds` is not called).  The regenerated lines clip the denominator always and the numerator only when
    stabilized (the unstabilized numerator is the constant 1), then apply the sampling-weight formula: the stored
    (`__denom__`, `__numer__`, `__ipsw__`) are the model's `ipswRow`. -/
theorem ipsw_sampling_generated (gen stab : Bool) (iv : Option (F × F)) (pn pd : F) :
    Gen.ipsw_sampling_row (applyB iv) gen stab iv.isSome pd pn
      = ipswRow gen stab iv (if stab then pn else 1) pd := by
  cases gen <;> cases stab <;> cases iv <;>
    simp [Gen.ipsw_sampling_row, ipswRow, applyB, Gen.ipsw_weight]

/-- **Tie to the source (GEstimationSNM.missing_model).**  On a row with the outcome observed the stored weight is
    numerator / clipped denominator — the model's `ipmwRow` (only the denominator is clipped); elsewhere it is NaN. -/
theorem snm_missing_generated (stab observed : Bool) (iv : Option (F × F)) (nanv pn pd : F) :
    Gen.snm_missing_row (applyB iv) stab iv.isSome observed nanv pd pn
      = if observed then ipmwRow iv (if stab then pn else 1) pd else nanv := by
  cases stab <;> cases observed <;> cases iv <;> simp [Gen.snm_missing_row, ipmwRow, applyB]

/-- **an unreached bound changes nothing at these two call sites** (`use_sites_unreached` for the regenerated code) -/
theorem sites_unreached_generated (lo hi : F) :
    (∀ gen stab (pn pd : F), lo ≤ pd → pd ≤ hi → (stab = true → lo ≤ pn ∧ pn ≤ hi) →
        Gen.ipsw_sampling_row (applyB (some (lo, hi))) gen stab true pd pn
          = Gen.ipsw_sampling_row (applyB none) gen stab false pd pn) ∧
    (∀ stab observed (nanv pn pd : F), lo ≤ pd → pd ≤ hi →
        Gen.snm_missing_row (applyB (some (lo, hi))) stab true observed nanv pd pn
          = Gen.snm_missing_row (applyB none) stab false observed nanv pd pn) := by
  constructor
  · intro gen stab pn pd h1 h2 h3
    have a := ipsw_sampling_generated gen stab (some (lo, hi)) pn pd
    have b := ipsw_sampling_generated gen stab (none : Option (F × F)) pn pd
    simp only [Option.isSome_some, Option.isSome_none] at a b
    rw [a, b]
    refine (use_sites_unreached lo hi).2.2.2.2.2 gen stab _ pd h1 h2 ?_
    intro hs; subst hs; simpa using h3 rfl
  · intro stab observed nanv pn pd h1 h2
    have a := snm_missing_generated stab observed (some (lo, hi)) nanv pn pd
    have b := snm_missing_generated stab observed (none : Option (F × F)) nanv pn pd
    simp only [Option.isSome_some, Option.isSome_none] at a b
    rw [a, b, (use_sites_unreached lo hi).2.2.2.2.1 _ pd h1 h2]

local instance instTQ_C17Sites : Transc ℚ := ⟨id, id, id⟩

/-- non-vacuity: bound (1/10, 9/10), denominator 1/20 is clipped to 1/10, stabilized numerator 1/2 is inside:
    generalize weight (1/2)/(1/10) = 5 -/
example : Gen.ipsw_sampling_row (applyB (some ((1/10 : ℚ), 9/10))) true true true (1/20) (1/2) = (1/10, 1/2, 5) := by
  norm_num [Gen.ipsw_sampling_row, applyB, clip1]

example : Gen.snm_missing_row (applyB (some ((1/10 : ℚ), 9/10))) true true true 0 (1/20) (1/2) = 5 := by
  norm_num [Gen.snm_missing_row, applyB, clip1]

end ZV.P17
