/-
C03 — TMLE targeting solves the efficient score equations and stays in range.

Subject: the hand model `ZV.Tmle` of `TMLE.fit` / `crossfit.targeting_step` (the same definitions the driver runs at
`Float` for gate K) and the *generated* `ZV.Gen.tmle_unit_bounds / tmle_unit_unbound`.

The fluctuation GLM is an external (statsmodels): its two coefficients `e1 e2` are parameters, and what is assumed of
them is exactly the GLM's own score equations for the design columns `(H1W, H0W)` (measured by gate H on a reference
fit).  The inverse link `σ` (= `scipy.stats.logistic.cdf`) and `lg` (= `log ∘ odds`) are parameters as well; the only
thing ever assumed of them is `0 < σ x < 1`.  The last section instantiates both with `exp`/`log` on ℝ and shows that the
assumptions hold there (non-vacuity of the abstract hypotheses, and the statements for the real-valued model).

Clauses of the property and the theorems that carry them
  (a) Q* solve both efficient score equations ............ `qstar_consistent`, `score_identity`, `score_equations`,
                                                           `score_transfer` (numerical-precision form),
                                                           `score_equations_crossfit`
  (b) reported RD/RR/OR/ATE are the plug-ins of the means  `plugin_def`, `plugin_targets`, `ate_def`
  (c) range: binary [0,1], continuous within [min,max] ..  `range_binary`, `range_binary_closed`, `range_continuous`,
                                                           `range_crossfit`, `unit_bounds_range`, `unit_roundtrip`,
                                                           `unit_roundtrip_clip`
  (d) what `fit` finds: initial predictions truncated into the requested interval whatever container the caller
      used, the offset built from the truncated predictions, reporting / diagnostic calls transparent
                                                           `init_clip_range`, `init_offset`, `truncate_range`,
                                                           `truncate_collection`, `null_fluctuation_real`,
                                                           `observers_noop`, `report_after_observers`
Partial (not carried by a theorem): "vanish to numerical precision" is a statement about IRLS convergence and IEEE
rounding; the theorems give the exact identity (efficient score = GLM score, row by row), gates H/D measure the size.
-/
import ZepidVerif.Model.Tmle
import ZepidVerif.Model.TmleInit
import ZepidVerif.Lemmas.Tmle
import Mathlib.Algebra.Order.Field.Basic
import Mathlib.Algebra.Order.Field.Rat
import Mathlib.Algebra.Order.AbsoluteValue.Basic
import Mathlib.Tactic.FieldSimp
import Mathlib.Tactic.Ring
import Mathlib.Tactic.Linarith
import Mathlib.Tactic.Positivity
import Mathlib.Tactic.NormNum
import Mathlib.Analysis.SpecialFunctions.Log.Basic
import Mathlib.Analysis.Real.Sqrt
set_option linter.unusedSectionVars false
set_option linter.unusedVariables false
namespace ZV.P03
open ZV ZV.Tmle ZV.Gen ZV.Tmle.L

variable {F : Type} [Field F] [LinearOrder F] [IsStrictOrderedRing F]

/-! ### (a) score equations -/

/-- The prediction under the observed treatment is the counterfactual prediction of the arm the row is in.
    A wrong sign in `H0W`/`Qstar0`, or `epsilon[0]`/`epsilon[1]` swapped, makes this false. -/
theorem qstar_consistent (σ lg : F → F) (e1 e2 : F) (r : TRow F) :
    qstarA σ lg e1 e2 r = (if r.a then qstar1 σ lg e1 r else qstar0 σ lg e2 r) ∧
    qstarA σ lg e1 e2 r = ind r.a * qstar1 σ lg e1 r + (1 - ind r.a) * qstar0 σ lg e2 r := by
  rcases r with ⟨a, obs, y, q1, q0, g1, g0⟩
  cases a
  · have hq : q1 * 0 + q0 * (1 - 0) = q0 := by ring
    have hl : e1 * (0 / g1) + e2 * (-(1 - 0) / g0) + lg q0 = lg q0 - e2 / g0 := by ring
    simp only [qstarA, qstar1, qstar0, h1, h0, qa, ind, Bool.false_eq_true, if_false, Nat.cast_zero, Nat.cast_one,
      hq, hl]
    exact ⟨trivial, by ring⟩
  · have hq : q1 * 1 + q0 * (1 - 1) = q1 := by ring
    have hl : e1 * (1 / g1) + e2 * (-(1 - 1) / g0) + lg q1 = lg q1 + e1 / g1 := by ring
    simp only [qstarA, qstar1, qstar0, h1, h0, qa, ind, if_true, Nat.cast_zero, Nat.cast_one, hq, hl]
    exact ⟨trivial, by ring⟩

/-- row by row, the efficient-score summands are the GLM's own score summands (up to the sign of `H0W`) -/
theorem score_rowwise (σ lg : F → F) (e1 e2 : F) (r : TRow F) :
    ind r.a / r.g1 * (r.y - qstar1 σ lg e1 r) = h1 r * (r.y - qstarA σ lg e1 e2 r) ∧
    (1 - ind r.a) / r.g0 * (r.y - qstar0 σ lg e2 r) = -(h0 r * (r.y - qstarA σ lg e1 e2 r)) := by
  have hc := (qstar_consistent σ lg e1 e2 r).1
  rcases r with ⟨a, obs, y, q1, q0, g1, g0⟩
  cases a
  · simp only [Bool.false_eq_true, if_false] at hc
    simp only [hc, h1, h0, ind, Bool.false_eq_true, if_false, Nat.cast_zero, Nat.cast_one]
    constructor <;> ring
  · simp only [if_true] at hc
    simp only [hc, h1, h0, ind, if_true, Nat.cast_zero, Nat.cast_one]
    refine ⟨?_, ?_⟩ <;> first | trivial | ring

/-- The efficient-score sums (with `Q*1`/`Q*0`, and with `Q*A` as the property words it) *are* the score sums of the
    fluctuation GLM for its two design columns: exact identities, for every data set, every `σ`, `lg`, `ε`. -/
theorem score_identity (σ lg : F → F) (e1 e2 : F) (l : List (TRow F)) :
    eff1 σ lg e1 l = scoreH1 σ lg e1 e2 l ∧ eff0 σ lg e2 l = -scoreH0 σ lg e1 e2 l ∧
    effA1 σ lg e1 e2 l = scoreH1 σ lg e1 e2 l ∧ effA0 σ lg e1 e2 l = -scoreH0 σ lg e1 e2 l := by
  refine ⟨?_, ?_, rfl, ?_⟩
  · exact sumBy_congr _ _ _ (fun r _ => (score_rowwise σ lg e1 e2 r).1)
  · unfold eff0 scoreH0
    rw [← sumBy_neg]
    refine sumBy_congr _ _ _ (fun r _ => ?_)
    have h := (score_rowwise σ lg e1 e2 r).2
    simpa only [Nat.cast_one] using h
  · unfold effA0 scoreH0
    rw [← sumBy_neg]
    refine sumBy_congr _ _ _ (fun r _ => ?_)
    simp only [h0, Nat.cast_one]; ring

/-- **Score equations.**  If the fluctuation GLM's coefficients solve the GLM's own score equations for `(H1W, H0W)`
    on the rows with an observed outcome, then the targeted predictions solve both efficient-score equations. -/
theorem score_equations (σ lg : F → F) (e1 e2 : F) (l : List (TRow F))
    (hg1 : scoreH1 σ lg e1 e2 l = 0) (hg0 : scoreH0 σ lg e1 e2 l = 0) :
    eff1 σ lg e1 l = 0 ∧ eff0 σ lg e2 l = 0 ∧ effA1 σ lg e1 e2 l = 0 ∧ effA0 σ lg e1 e2 l = 0 := by
  obtain ⟨a, b, c, d⟩ := score_identity σ lg e1 e2 l
  rw [a, b, c, d, hg1, hg0]; simp

/-- numerical-precision form: whatever residual the GLM solver leaves is exactly the residual of the efficient score -/
theorem score_transfer (σ lg : F → F) (e1 e2 tol : F) (l : List (TRow F))
    (hg1 : |scoreH1 σ lg e1 e2 l| ≤ tol) (hg0 : |scoreH0 σ lg e1 e2 l| ≤ tol) :
    |eff1 σ lg e1 l| ≤ tol ∧ |eff0 σ lg e2 l| ≤ tol ∧ |effA1 σ lg e1 e2 l| ≤ tol ∧ |effA0 σ lg e1 e2 l| ≤ tol := by
  obtain ⟨a, b, c, d⟩ := score_identity σ lg e1 e2 l
  rw [a, b, c, d, abs_neg]; exact ⟨hg1, hg0, hg1, hg0⟩

/-- cross-fit: the same holds split by split, each split with its own coefficients -/
theorem score_equations_crossfit (σ lg : F → F) (splits : List (F × F × List (TRow F)))
    (hg : ∀ s ∈ splits, scoreH1 σ lg s.1 s.2.1 s.2.2 = 0 ∧ scoreH0 σ lg s.1 s.2.1 s.2.2 = 0) :
    ∀ s ∈ splits, eff1 σ lg s.1 s.2.2 = 0 ∧ eff0 σ lg s.2.1 s.2.2 = 0 := by
  intro s hs
  obtain ⟨a, b, _, _⟩ := score_equations σ lg s.1 s.2.1 s.2.2 (hg s hs).1 (hg s hs).2
  exact ⟨a, b⟩

/-! ### (b) plug-in estimates -/

/-- `np.nanmean(Qstar1 - Qstar0)` is the difference of the two means; RR and OR are the ratio / odds ratio of the means -/
theorem plugin_def (t : List (QS F)) :
    rdOf t = risk1Of t - risk0Of t ∧
    rrOf t = risk1Of t / risk0Of t ∧
    orOf t = (risk1Of t / (1 - risk1Of t)) / (risk0Of t / (1 - risk0Of t)) := by
  refine ⟨?_, rfl, ?_⟩
  · unfold rdOf risk1Of risk0Of; exact mean_sub _ _ _
  · simp only [orOf, Nat.cast_one]

/-- the means entering the plug-ins are the means of `Q*1`, `Q*0` over *all* rows (observed outcome or not) -/
theorem plugin_targets (σ lg : F → F) (e1 e2 : F) (l : List (TRow F)) :
    risk1Of (targets σ lg e1 e2 l) = mean (qstar1 σ lg e1) l ∧
    risk0Of (targets σ lg e1 e2 l) = mean (qstar0 σ lg e2) l := by
  simp only [risk1Of, risk0Of, mean, targets, sumBy_map, List.length_map, and_self]

/-- the ATE is the difference of the back-transformed means = (max − min) · (difference of the unit-scale means) -/
theorem ate_def (mini maxi : F) (t : List (QS F)) :
    ateOf mini maxi t = (maxi - mini) * (risk1Of t - risk0Of t) ∧
    (t ≠ [] → ateOf mini maxi t =
      tmle_unit_unbound (risk1Of t) mini maxi - tmle_unit_unbound (risk0Of t) mini maxi) := by
  have h1 : ateOf mini maxi t = (maxi - mini) * (risk1Of t - risk0Of t) := by
    unfold ateOf
    rw [mean_congr _ (fun p => (p.s1 - p.s0) * (maxi - mini)) t (fun p _ => by simp only [tmle_unit_unbound]; ring),
      mean_mul_right, ← rdOf, (plugin_def t).1]
    ring
  refine ⟨h1, fun _ => ?_⟩
  rw [h1]; simp only [tmle_unit_unbound]; ring

/-! ### (c) range -/

/-- every targeted prediction is a value of `σ` -/
theorem targets_range (σ lg : F → F) (hσ : ∀ x, 0 < σ x ∧ σ x < 1) (e1 e2 : F) (l : List (TRow F)) :
    ∀ p ∈ targets σ lg e1 e2 l, (0 < p.s1 ∧ p.s1 < 1) ∧ (0 < p.s0 ∧ p.s0 < 1) := by
  intro p hp
  simp only [targets, List.mem_map] at hp
  obtain ⟨r, _, rfl⟩ := hp
  exact ⟨hσ _, hσ _⟩

/-- plug-ins of pairs inside (0,1) stay in the parameter space -/
theorem plugin_range (t : List (QS F)) (hne : t ≠ [])
    (h : ∀ p ∈ t, (0 < p.s1 ∧ p.s1 < 1) ∧ (0 < p.s0 ∧ p.s0 < 1)) :
    (0 < risk1Of t ∧ risk1Of t < 1) ∧ (0 < risk0Of t ∧ risk0Of t < 1) ∧
    (-1 < rdOf t ∧ rdOf t < 1) ∧ 0 < rrOf t ∧ 0 < orOf t := by
  have r1 := mean_mem_Ioo (fun p : QS F => p.s1) 0 1 t hne (fun p hp => (h p hp).1)
  have r0 := mean_mem_Ioo (fun p : QS F => p.s0) 0 1 t hne (fun p hp => (h p hp).2)
  have hrd := (plugin_def t).1
  refine ⟨r1, r0, ⟨?_, ?_⟩, ?_, ?_⟩
  · rw [hrd]; unfold risk1Of risk0Of; linarith [r1.1, r0.2]
  · rw [hrd]; unfold risk1Of risk0Of; linarith [r1.2, r0.1]
  · exact div_pos r1.1 r0.1
  · simp only [orOf, Nat.cast_one]
    have a1 : 0 < 1 - risk1Of t := by unfold risk1Of; linarith [r1.2]
    have a0 : 0 < 1 - risk0Of t := by unfold risk0Of; linarith [r0.2]
    exact div_pos (div_pos r1.1 a1) (div_pos r0.1 a0)

/-- **Range, binary outcome.**  For any inverse link with values in (0,1): all three targeted predictions of every row
    are in (0,1); on a non-empty data set both risks are in (0,1), RD in (−1,1), RR and OR positive. -/
theorem range_binary (σ lg : F → F) (hσ : ∀ x, 0 < σ x ∧ σ x < 1) (e1 e2 : F) (l : List (TRow F)) :
    (∀ r ∈ l, (0 < qstarA σ lg e1 e2 r ∧ qstarA σ lg e1 e2 r < 1) ∧ (0 < qstar1 σ lg e1 r ∧ qstar1 σ lg e1 r < 1) ∧
      (0 < qstar0 σ lg e2 r ∧ qstar0 σ lg e2 r < 1)) ∧
    (l ≠ [] →
      let t := targets σ lg e1 e2 l
      (0 < risk1Of t ∧ risk1Of t < 1) ∧ (0 < risk0Of t ∧ risk0Of t < 1) ∧
      (-1 < rdOf t ∧ rdOf t < 1) ∧ 0 < rrOf t ∧ 0 < orOf t) := by
  refine ⟨fun r _ => ⟨hσ _, hσ _, hσ _⟩, fun hne => ?_⟩
  have hne' : targets σ lg e1 e2 l ≠ [] := by simpa [targets] using hne
  exact plugin_range _ hne' (targets_range σ lg hσ e1 e2 l)

/-- closed version (what survives floating-point saturation of `σ` at 0 or 1): pairs in [0,1] give risks in [0,1] and
    RD in [−1,1] -/
theorem range_binary_closed (t : List (QS F)) (hne : t ≠ [])
    (h : ∀ p ∈ t, (0 ≤ p.s1 ∧ p.s1 ≤ 1) ∧ (0 ≤ p.s0 ∧ p.s0 ≤ 1)) :
    (0 ≤ risk1Of t ∧ risk1Of t ≤ 1) ∧ (0 ≤ risk0Of t ∧ risk0Of t ≤ 1) ∧ (-1 ≤ rdOf t ∧ rdOf t ≤ 1) := by
  have r1 := mean_mem_Icc (fun p : QS F => p.s1) 0 1 t hne (fun p hp => (h p hp).1)
  have r0 := mean_mem_Icc (fun p : QS F => p.s0) 0 1 t hne (fun p hp => (h p hp).2)
  have hrd := (plugin_def t).1
  refine ⟨r1, r0, ?_, ?_⟩
  · rw [hrd]; unfold risk1Of risk0Of; linarith [r1.1, r0.2]
  · rw [hrd]; unfold risk1Of risk0Of; linarith [r1.2, r0.1]

/-- back-transformation maps [0,1] into [min,max] and (0,1) into (min,max) -/
theorem unbound_range (mini maxi v : F) (hmm : mini < maxi) :
    (0 ≤ v → v ≤ 1 → mini ≤ tmle_unit_unbound v mini maxi ∧ tmle_unit_unbound v mini maxi ≤ maxi) ∧
    (0 < v → v < 1 → mini < tmle_unit_unbound v mini maxi ∧ tmle_unit_unbound v mini maxi < maxi) := by
  have hd : 0 < maxi - mini := by linarith
  simp only [tmle_unit_unbound]
  constructor
  · intro h0 h1; constructor <;> nlinarith
  · intro h0 h1; constructor <;> nlinarith

/-- **Range, continuous outcome.**  With `min < max` the back-transformed targeted predictions of every row lie strictly
    inside the observed outcome range, and the ATE lies strictly inside ±(max − min). -/
theorem range_continuous (σ lg : F → F) (hσ : ∀ x, 0 < σ x ∧ σ x < 1) (e1 e2 mini maxi : F) (hmm : mini < maxi)
    (l : List (TRow F)) :
    (∀ r ∈ l,
      (mini < tmle_unit_unbound (qstarA σ lg e1 e2 r) mini maxi ∧ tmle_unit_unbound (qstarA σ lg e1 e2 r) mini maxi < maxi) ∧
      (mini < tmle_unit_unbound (qstar1 σ lg e1 r) mini maxi ∧ tmle_unit_unbound (qstar1 σ lg e1 r) mini maxi < maxi) ∧
      (mini < tmle_unit_unbound (qstar0 σ lg e2 r) mini maxi ∧ tmle_unit_unbound (qstar0 σ lg e2 r) mini maxi < maxi)) ∧
    (l ≠ [] → -(maxi - mini) < ateOf mini maxi (targets σ lg e1 e2 l) ∧
              ateOf mini maxi (targets σ lg e1 e2 l) < maxi - mini) := by
  refine ⟨fun r _ => ⟨?_, ?_, ?_⟩, fun hne => ?_⟩
  · exact (unbound_range mini maxi _ hmm).2 (hσ _).1 (hσ _).2
  · exact (unbound_range mini maxi _ hmm).2 (hσ _).1 (hσ _).2
  · exact (unbound_range mini maxi _ hmm).2 (hσ _).1 (hσ _).2
  · have hd : 0 < maxi - mini := by linarith
    obtain ⟨_, _, ⟨hlo, hhi⟩, _, _⟩ := (range_binary σ lg hσ e1 e2 l).2 hne
    rw [(ate_def mini maxi _).1, ← (plugin_def _).1]
    constructor <;> nlinarith

/-- cross-fit: the concatenated targeted pairs of all splits are in range, hence so are the pooled plug-ins -/
theorem range_crossfit (σ lg : F → F) (hσ : ∀ x, 0 < σ x ∧ σ x < 1) (splits : List (F × F × List (TRow F)))
    (hne : cfTargets σ lg splits ≠ []) :
    let t := cfTargets σ lg splits
    (∀ p ∈ t, (0 < p.s1 ∧ p.s1 < 1) ∧ (0 < p.s0 ∧ p.s0 < 1)) ∧
    (0 < risk1Of t ∧ risk1Of t < 1) ∧ (0 < risk0Of t ∧ risk0Of t < 1) ∧
    (-1 < rdOf t ∧ rdOf t < 1) ∧ 0 < rrOf t ∧ 0 < orOf t := by
  have h : ∀ p ∈ cfTargets σ lg splits, (0 < p.s1 ∧ p.s1 < 1) ∧ (0 < p.s0 ∧ p.s0 < 1) := by
    intro p hp
    simp only [cfTargets, List.mem_flatMap] at hp
    obtain ⟨s, _, hps⟩ := hp
    exact targets_range σ lg hσ _ _ _ p hps
  exact ⟨h, plugin_range _ hne h⟩

/-- the unit-interval map lands in `[cb, 1 − cb]` (so the fluctuation GLM gets an outcome in [0,1]) -/
theorem unit_bounds_range (y mini maxi cb : F) (h0 : 0 ≤ cb) (h2 : cb ≤ 1 / 2) :
    cb ≤ tmle_unit_bounds y mini maxi cb ∧ tmle_unit_bounds y mini maxi cb ≤ 1 - cb ∧
    0 ≤ tmle_unit_bounds y mini maxi cb ∧ tmle_unit_bounds y mini maxi cb ≤ 1 := by
  simp only [tmle_unit_bounds, Nat.cast_one, gt_iff_lt]
  split_ifs with a b b <;> refine ⟨?_, ?_, ?_, ?_⟩ <;> linarith

/-- **Round trip.**  Back-map ∘ unit map is the identity for an outcome whose scaled value is inside the clip region -/
theorem unit_roundtrip (y mini maxi cb : F) (hmm : mini < maxi)
    (hlo : cb ≤ (y - mini) / (maxi - mini)) (hhi : (y - mini) / (maxi - mini) ≤ 1 - cb) :
    tmle_unit_unbound (tmle_unit_bounds y mini maxi cb) mini maxi = y := by
  have hd : maxi - mini ≠ 0 := by intro h; linarith
  simp only [tmle_unit_bounds, tmle_unit_unbound, Nat.cast_one, gt_iff_lt, not_lt.mpr hlo, not_lt.mpr hhi, if_false]
  field_simp; ring

/-- … and moves an outcome of the observed range by at most `cb · (max − min)` otherwise -/
theorem unit_roundtrip_clip (y mini maxi cb : F) (hmm : mini < maxi) (h0 : 0 ≤ cb) (h2 : cb ≤ 1 / 2)
    (hy0 : mini ≤ y) (hy1 : y ≤ maxi) :
    |tmle_unit_unbound (tmle_unit_bounds y mini maxi cb) mini maxi - y| ≤ cb * (maxi - mini) := by
  have hd : 0 < maxi - mini := by linarith
  obtain ⟨v, hv⟩ : ∃ v, v = (y - mini) / (maxi - mini) := ⟨_, rfl⟩
  have hy : y = v * (maxi - mini) + mini := by rw [hv]; field_simp; ring
  have hv0 : 0 ≤ v := by rw [hv]; exact div_nonneg (by linarith) hd.le
  have hv1 : v ≤ 1 := by rw [hv, div_le_one hd]; linarith
  simp only [tmle_unit_bounds, tmle_unit_unbound, Nat.cast_one, gt_iff_lt, ← hv]
  rw [hy, abs_le]
  split_ifs with a b b <;> constructor <;> nlinarith

/-! ### (d) what `fit` finds: truncated initial predictions; reporting and diagnostic calls -/

/-- an entry that went through `probability_bounds` lies in the interval that was asked for -/
theorem init_clip_range (lo hi q : F) (h : lo ≤ hi) : lo ≤ initClip lo hi q ∧ initClip lo hi q ≤ hi := by
  simp only [initClip, gt_iff_lt]
  split_ifs <;> constructor <;> linarith

/-- the offset `QAW = QA1W·A + QA0W·(1−A)` of a row is the *truncated* prediction of the arm the row is in -/
theorem init_offset (lo hi : F) (r : TRow F) :
    qa (truncRow lo hi r) = if r.a then initClip lo hi r.q1 else initClip lo hi r.q0 := by
  cases h : r.a <;> simp [qa, truncRow, ind, h]

/-- a collection stands for its entries 0 and 1: what follows them changes nothing, and a list and a tuple are the
    same collection (the model has one constructor for both) -/
theorem truncate_collection (lo hi : F) (rest : List F) (l : List (TRow F)) :
    truncate (.coll (lo :: hi :: rest)) l = some (l.map (truncRow lo hi)) ∧
    truncate (.coll (lo :: hi :: rest)) l = truncate (.coll [lo, hi]) l := ⟨rfl, rfl⟩

/-- whatever the outcome model predicted and however the bound was written, after `outcome_model` both initial
    predictions and the offset of every row lie in the interval the bound denotes -/
theorem truncate_range (b : QBound F) (l w : List (TRow F)) (lo hi : F) (hI : qInterval b = some (lo, hi))
    (h : lo ≤ hi) (hw : truncate b l = some w) :
    ∀ r ∈ w, (lo ≤ r.q1 ∧ r.q1 ≤ hi) ∧ (lo ≤ r.q0 ∧ r.q0 ≤ hi) ∧ (lo ≤ qa r ∧ qa r ≤ hi) := by
  intro r hr
  simp only [truncate, hI, Option.some.injEq] at hw
  subst hw
  obtain ⟨r0, _, rfl⟩ := List.mem_map.mp hr
  refine ⟨init_clip_range lo hi _ h, init_clip_range lo hi _ h, ?_⟩
  rw [init_offset]
  split_ifs
  · exact init_clip_range lo hi _ h
  · exact init_clip_range lo hi _ h

/-- satisfiable, and the third entry is indeed ignored: predictions −1/4 and 5/4 under the bound (1/10, 4/5, 9/10) -/
example : truncate (.coll [(1/10 : ℚ), 4/5, 9/10]) [⟨true, true, 1, -1/4, 5/4, 1/2, 1/2⟩] =
    some [⟨true, true, 1, 1/10, 4/5, 1/2, 1/2⟩] := by
  simp only [truncate, qInterval, truncRow, initClip, List.map]
  norm_num

/-- reporting and diagnostic calls leave every register alone -/
theorem observers_noop (compute : F → F → List (TRow F) → Fit F) (s : TState F) (cs : List (Call F))
    (h : ∀ c ∈ cs, c.isObserver = true) : run compute s cs = s := by
  induction cs generalizing s with
  | nil => rfl
  | cons c cs ih =>
    have hc : step compute s c = s := by
      have := h c (List.mem_cons_self ..)
      cases c <;> simp_all [step, Call.isObserver]
    simp only [run, List.foldl_cons, hc]
    exact ih s (fun c' hc' => h c' (List.mem_cons_of_mem _ hc'))

/-- … so the numbers read after `… ; fit ; …` are the ones `fit` computed from the registers as the specification
    left them, whatever was printed or drawn before and after -/
theorem report_after_observers (compute : F → F → List (TRow F) → Fit F) (s : TState F) (pre post : List (Call F))
    (e1 e2 : F) (hpre : ∀ c ∈ pre, c.isObserver = true) (hpost : ∀ c ∈ post, c.isObserver = true) :
    run compute s (pre ++ [Call.fit e1 e2] ++ post) = { rows := s.rows, reported := some (compute e1 e2 s.rows) } := by
  have h1 : run compute s pre = s := observers_noop compute s pre hpre
  simp only [run, List.foldl_append, List.foldl_cons, List.foldl_nil] at h1 ⊢
  rw [h1]
  exact observers_noop compute _ post hpost

/-- in particular the reported risk difference / ratio / odds ratio are still the plug-ins of the targeted predictions -/
theorem plugin_after_observers [Transc F] (σ lg : F → F) (s : TState F) (pre post : List (Call F)) (e1 e2 : F)
    (hpre : ∀ c ∈ pre, c.isObserver = true) (hpost : ∀ c ∈ post, c.isObserver = true) :
    ∃ f, (run (fitBinary σ lg) s (pre ++ [Call.fit e1 e2] ++ post)).reported = some f ∧
      f.rd = rdOf (targets σ lg e1 e2 s.rows) ∧ f.rr = rrOf (targets σ lg e1 e2 s.rows) ∧
      f.or_ = orOf (targets σ lg e1 e2 s.rows) := by
  rw [report_after_observers _ s pre post e1 e2 hpre hpost]
  exact ⟨_, rfl, rfl, rfl, rfl⟩

example : (run (fun (_ _ : ℚ) _ => ⟨[], [], [], 0, 0, 0, 0, 0, 0⟩) ⟨[⟨true, true, 1, 1/2, 1/4, 1/2, 1/2⟩], none⟩
    ([Call.plotKde true, Call.positivity 3] ++ [Call.fit 0 0] ++ [Call.summary 1])).rows =
    [⟨true, true, 1, 1/2, 1/4, 1/2, 1/2⟩] := by
  rw [report_after_observers _ _ _ _ _ _ (by decide) (by decide)]

/-! ### non-vacuity on a small rational data set (σ = lg = identity, so everything is exact) -/

/-! ### instantiation at ℝ: `σ = 1/(1+exp(−x))`, `lg = log ∘ odds` satisfy the abstract hypotheses -/
section Real
noncomputable instance instTranscReal : Transc ℝ := ⟨Real.exp, Real.log, Real.sqrt⟩

/-- the model's `expit` at ℝ has values in (0,1): the hypothesis `hσ` of the range theorems is satisfiable -/
theorem expit_real_range (x : ℝ) : 0 < expit x ∧ expit x < 1 := by
  have h : 0 < Real.exp (-x) := Real.exp_pos _
  simp only [expit, Transc.exp, Nat.cast_one]
  constructor
  · positivity
  · rw [div_lt_one (by linarith)]; linarith

/-- … is strictly increasing … -/
theorem expit_real_strictMono : StrictMono (expit : ℝ → ℝ) := by
  intro x y hxy
  have hx : 0 < Real.exp (-x) := Real.exp_pos _
  have hy : 0 < Real.exp (-y) := Real.exp_pos _
  have : Real.exp (-y) < Real.exp (-x) := Real.exp_lt_exp.mpr (by linarith)
  simp only [expit, Transc.exp, Nat.cast_one]
  exact one_div_lt_one_div_of_lt (by linarith) (by linarith)

/-- … and inverts the model's `logitT` on (0,1): with `ε = 0` the targeting step returns the initial fit -/
theorem expit_logit_real (p : ℝ) (h0 : 0 < p) (h1 : p < 1) : expit (logitT p) = p := by
  have hq : 0 < 1 - p := by linarith
  have hpos : 0 < p / (1 - p) := div_pos h0 hq
  simp only [expit, logitT, Transc.exp, Transc.log, Nat.cast_one, Real.exp_neg, Real.exp_log hpos]
  field_simp; ring

/-- why the truncation matters: for an interval strictly inside (0,1) the logit of every truncated prediction exists,
    and a null fluctuation returns the initial predictions (all three of them, the offset included) -/
theorem null_fluctuation_real (lo hi : ℝ) (r : TRow ℝ) (h0 : 0 < lo) (h : lo ≤ hi) (h1 : hi < 1) :
    qstar1 expit logitT 0 (truncRow lo hi r) = (truncRow lo hi r).q1 ∧
    qstar0 expit logitT 0 (truncRow lo hi r) = (truncRow lo hi r).q0 ∧
    qstarA expit logitT 0 0 (truncRow lo hi r) = qa (truncRow lo hi r) := by
  have c1 := init_clip_range lo hi r.q1 h
  have c0 := init_clip_range lo hi r.q0 h
  have ca : lo ≤ qa (truncRow lo hi r) ∧ qa (truncRow lo hi r) ≤ hi := by
    rw [init_offset]; split_ifs
    · exact c1
    · exact c0
  refine ⟨?_, ?_, ?_⟩
  · simp only [qstar1, zero_div, add_zero]
    exact expit_logit_real _ (by simp only [truncRow]; linarith [c1.1]) (by simp only [truncRow]; linarith [c1.2])
  · simp only [qstar0, zero_div, sub_zero]
    exact expit_logit_real _ (by simp only [truncRow]; linarith [c0.1]) (by simp only [truncRow]; linarith [c0.2])
  · simp only [qstarA, zero_mul, add_zero, zero_add]
    exact expit_logit_real _ (by linarith [ca.1]) (by linarith [ca.2])

/-- the real-valued TMLE model: range for binary outcomes with no hypothesis left about `σ` -/
theorem range_binary_real (e1 e2 : ℝ) (l : List (TRow ℝ)) (hne : l ≠ []) :
    let t := targets expit logitT e1 e2 l
    (∀ p ∈ t, (0 < p.s1 ∧ p.s1 < 1) ∧ (0 < p.s0 ∧ p.s0 < 1)) ∧
    (0 < risk1Of t ∧ risk1Of t < 1) ∧ (0 < risk0Of t ∧ risk0Of t < 1) ∧
    (-1 < rdOf t ∧ rdOf t < 1) ∧ 0 < rrOf t ∧ 0 < orOf t :=
  ⟨targets_range expit logitT expit_real_range e1 e2 l, (range_binary expit logitT expit_real_range e1 e2 l).2 hne⟩

/-- the real-valued TMLE model: score equations (the GLM hypothesis is the only one) -/
theorem score_equations_real (e1 e2 : ℝ) (l : List (TRow ℝ))
    (hg1 : scoreH1 expit logitT e1 e2 l = 0) (hg0 : scoreH0 expit logitT e1 e2 l = 0) :
    eff1 expit logitT e1 l = 0 ∧ eff0 expit logitT e2 l = 0 :=
  ⟨(score_equations _ _ e1 e2 l hg1 hg0).1, (score_equations _ _ e1 e2 l hg1 hg0).2.1⟩

/-- non-vacuity over ℝ: a data set and coefficients for which the GLM score equations hold with the real `expit`
    (initial fit 1/2, ε = 0, half of each arm has the outcome) -/
example : scoreH1 expit logitT (0 : ℝ) 0
      [⟨true, true, 1, 1/2, 1/2, 1/2, 1/2⟩, ⟨true, true, 0, 1/2, 1/2, 1/2, 1/2⟩] = 0 := by
  have h : expit (logitT (1/2 : ℝ)) = 1/2 := expit_logit_real _ (by norm_num) (by norm_num)
  have hq : ((1/2 : ℝ) * 1 + 1/2 * (1 - 1)) = 1/2 := by norm_num
  simp only [scoreH1, obsRows, List.filter, sumBy, qstarA, h1, h0, qa, ind, if_true, Nat.cast_one, Nat.cast_zero,
    zero_mul, add_zero, zero_add, hq, h]
  norm_num

end Real
end ZV.P03
