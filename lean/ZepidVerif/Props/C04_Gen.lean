/-
C04, tie to the source.  The split / pairing bookkeeping of zepid/causal/doublyrobust/crossfit.py is regenerated on
every run into `Gen/XfitSplit.lean` (translator `ListTr` of harness/py2lean_lists.py):

* `_sample_split_`                                   → `Gen.sample_split`
* `_treatment_nuisance_`, `_outcome_nuisance_`        → `Gen.treatment_nuisance`, `Gen.outcome_nuisance`
* the `n_splits` guard of the four `fit` methods      → `Gen.min_splits_<Class>`
* the slice of the four `_single_crossfit_` methods that decides which part is predicted by which fitted copies
  (the call of `_sample_split_`, the two pairing lists `[i - 1 …]`, `[i - 2 …]`, the two nuisance calls, and the loop
  `for id, ep, op in zip(range(n_splits), pairing_exposure, pairing_outcome)` with the subscripts `sample_split[id]`,
  `a_models[ep]`, `y_models[op]` under Python's negative-index rule)   → `Gen.single_crossfit_<Class>`

The theorems below identify them with the model of `Model/Crossfit.lean` (`sampleSplit`, `pairIdx`, `minSplits`,
`schedule`) and restate the property theorems of `Props/C04.lean` as statements about the generated definitions.
What stays hand-modelled: `_generate_predictions_` (three learner calls per pass: treatment copy on the part as
observed, outcome copy with the exposure set to 1 and to 0), `DataFrame.sample` (chooser), `copy.deepcopy`.
-/
import ZepidVerif.Props.C04
import ZepidVerif.Gen.XfitSplit
import ZepidVerif.Model.CrossfitGen
import Mathlib.Tactic.Ring
set_option linter.unusedSectionVars false
set_option linter.unusedVariables false
namespace ZV.P04
open ZV.Crossfit

/-! ### helper lemmas (not obligations) -/

private lemma splitGo_length (pick : List Nat → Nat → List Nat) (m : Nat) :
    ∀ (t : Nat) (rem : List Nat), (splitGo pick m t rem).length = t + 1 := by
  intro t; induction t with
  | zero => intro rem; rfl
  | succ t ih => intro rem; simp [splitGo, ih]

private lemma sampleSplit_length (pick : List Nat → Nat → List Nat) (rows : List Nat) (k : Nat) (hk : 1 ≤ k) :
    (sampleSplit pick rows k).length = k := by
  unfold sampleSplit; rw [splitGo_length]; omega

private lemma fold_split (pick : List Nat → Nat → List Nat) (m : Nat) :
    ∀ (l : List Int) (acc : List (List Nat)) (rem : List Nat),
      let p := l.foldl (fun (st : List (List Nat) × List Nat) (i : Int) =>
        (st.1 ++ [pick st.2 m], remove st.2 (pick st.2 m))) (acc, rem)
      p.1 ++ [p.2] = acc ++ splitGo pick m l.length rem := by
  intro l
  induction l with
  | nil => intro acc rem; rfl
  | cons a l ih =>
    intro acc rem
    simp only [List.foldl_cons, List.length_cons, splitGo]
    have := ih (acc ++ [pick rem m]) (remove rem (pick rem m))
    simp only at this
    rw [this, List.append_assoc]; rfl

private lemma fold_append_map {α β : Type} (f : α → β) :
    ∀ (l : List α) (acc : List β), l.foldl (fun st x => st ++ [f x]) acc = acc ++ l.map f := by
  intro l
  induction l with
  | nil => intro acc; simp
  | cons a l ih => intro acc; simp [List.foldl_cons, ih]

private lemma range_length (n : Nat) : (Py.range n).length = n := by simp [Py.range]

private lemma range_getElem? (n i : Nat) (h : i < n) : (Py.range n)[i]? = some (i : Int) := by
  simp [Py.range, h]

/-- Python's subscript with the index `i - d` (`0 ≤ i < k`, `d ≤ k`) on a list of length `k` is the model's `pairIdx` -/
private lemma get_sub {α : Type} (l : List α) (k i d : Nat) (hl : l.length = k) (hi : i < k) (hd : d ≤ k) :
    Py.get l ((i : Int) - (d : Int)) = l[pairIdx k i d]? := by
  unfold Py.get pairIdx
  by_cases h : d ≤ i
  · have e1 : (0 : Int) ≤ (i : Int) - (d : Int) := by omega
    have e2 : ((i : Int) - (d : Int)).toNat = i - d := by omega
    have e3 : (i + k - d) % k = i - d := by
      have : i + k - d = (i - d) + k := by omega
      rw [this, Nat.add_mod_right, Nat.mod_eq_of_lt (by omega)]
    simp only [e1, if_true, e2, e3]
  · have e1 : ¬ (0 : Int) ≤ (i : Int) - (d : Int) := by omega
    have e2 : (0 : Int) ≤ (i : Int) - (d : Int) + (l.length : Int) := by omega
    have e3 : ((i : Int) - (d : Int) + (l.length : Int)).toNat = i + k - d := by omega
    have e4 : (i + k - d) % k = i + k - d := Nat.mod_eq_of_lt (by omega)
    simp only [e1, if_false, e2, if_true, e3, e4]

/-! ### Bridges -/

/-- **`_sample_split_` as regenerated is the model's `sampleSplit`** (for every chooser, every row list, every
    `n_splits`). -/
theorem sample_split_generated (pick : List Nat → Nat → List Nat) (rows : List Nat) (k : Nat) :
    Gen.sample_split pick rows k = sampleSplit pick rows k := by
  unfold Gen.sample_split sampleSplit Py.forRange Py.len
  have := fold_split pick (rows.length / k) (Py.range (k - 1)) [] rows
  simp only [range_length, List.nil_append] at this
  exact this

example : Gen.sample_split (fun rem m => rem.take m) (List.range 11) 3 = [[0, 1, 2], [3, 4, 5], [6, 7, 8, 9, 10]] := by
  decide

/-- **`_treatment_nuisance_` / `_outcome_nuisance_` as regenerated**: one fitted copy per part, in the order of the
    parts, copy `j` fitted on part `j` (the model's `fitEvents`). -/
theorem nuisance_generated {M : Type} (fit : List Nat → M) (S : List (List Nat)) :
    Gen.treatment_nuisance fit S = S.map fit ∧ Gen.outcome_nuisance fit S = S.map fit := by
  unfold Gen.treatment_nuisance Gen.outcome_nuisance Py.forIn
  exact ⟨by simpa using fold_append_map fit S [], by simpa using fold_append_map fit S []⟩

example : Gen.treatment_nuisance (fun s => s.length) [[0, 1], [2, 3], [4, 5, 6]] = [2, 2, 3] := by decide

/-- **The `n_splits` guards of the four `fit` methods as regenerated** are the model's `minSplits`. -/
theorem min_splits_generated :
    Gen.min_splits_SingleCrossfitAIPTW = minSplits false ∧ Gen.min_splits_SingleCrossfitTMLE = minSplits false ∧
    Gen.min_splits_DoubleCrossfitAIPTW = minSplits true ∧ Gen.min_splits_DoubleCrossfitTMLE = minSplits true := by
  decide

/-- what the model says the prediction loop does: part `i` is predicted by the treatment copy fitted on part
    `pairIdx k i 1` and the outcome copy fitted on part `pairIdx k i d` -/
def usesModel {M : Type} (fitA fitY : List Nat → M) (S : List (List Nat)) (d : Nat) :
    List (Option (List Nat) × Option M × Option M) :=
  (List.range S.length).map fun i =>
    (S[i]?, (S[pairIdx S.length i 1]?).map fitA, (S[pairIdx S.length i d]?).map fitY)

/-- the same subscript written with an explicit modulus, `(i - d) % k` -/
private lemma get_sub_mod {α : Type} (l : List α) (k i d : Nat) (hl : l.length = k) (hi : i < k) (hd : d ≤ k) :
    Py.get l (Py.mod ((i : Int) - (d : Int)) k) = l[pairIdx k i d]? := by
  have hk : 0 < k := by omega
  have e : Py.mod ((i : Int) - (d : Int)) k = (((i + k - d) % k : Nat) : Int) := by
    unfold Py.mod
    have : ((i : Int) - (d : Int)) % (k : Int) = ((i + k - d : Nat) : Int) % (k : Int) := by
      rw [← Int.add_emod_right ((i : Int) - (d : Int)) (k : Int)]
      congr 1; omega
    rw [this, Int.natCast_mod]
  rw [e]
  unfold Py.get pairIdx
  have h0 : (0 : Int) ≤ (((i + k - d) % k : Nat) : Int) := Int.natCast_nonneg _
  simp only [h0, if_true, Int.toNat_natCast]

private lemma range_getElem (n i : Nat) (h : i < (Py.range n).length) : (Py.range n)[i] = (i : Int) := by
  simp [Py.range]

private lemma zip3_getElem? {α β γ : Type} (a : List α) (b : List β) (c : List γ) (k : Nat)
    (ha : a.length = k) (hb : b.length = k) (hc : c.length = k) (i : Nat) (hi : i < k) :
    (Py.zip3 a b c)[i]? = some (a[i], b[i], c[i]) := by
  unfold Py.zip3
  rw [List.getElem?_zip_eq_some]
  refine ⟨List.getElem?_eq_getElem (by omega), ?_⟩
  rw [List.getElem?_zip_eq_some]
  exact ⟨List.getElem?_eq_getElem (by omega), List.getElem?_eq_getElem (by omega)⟩

/-- the prediction loop once its fold is unrolled: if the subscripts with the two pairing lists select the model's
    positions, the passes are the model's (whatever the spelling of the pairing lists) -/
private lemma uses_core {M : Type} (fitA fitY : List Nat → M) (S : List (List Nat)) (pe po : List Int) (k d : Nat)
    (hS : S.length = k) (hpe : pe.length = k) (hpo : po.length = k)
    (hA : ∀ (i : Nat) (hi : i < pe.length), i < k → Py.get (S.map fitA) pe[i] = (S.map fitA)[pairIdx k i 1]?)
    (hY : ∀ (i : Nat) (hi : i < po.length), i < k → Py.get (S.map fitY) po[i] = (S.map fitY)[pairIdx k i d]?) :
    (Py.zip3 (Py.range k) pe po).map (fun p => (Py.get S p.1, Py.get (S.map fitA) p.2.1, Py.get (S.map fitY) p.2.2))
      = usesModel fitA fitY S d := by
  unfold usesModel
  rw [hS]
  apply List.ext_getElem?
  intro i
  by_cases hi : i < k
  · rw [List.getElem?_map, zip3_getElem? _ _ _ k (range_length k) hpe hpo i hi]
    have h0 := get_sub S k i 0 hS hi (by omega)
    have e0 : pairIdx k i 0 = i := by
      unfold pairIdx
      rw [Nat.sub_zero, Nat.add_mod_right, Nat.mod_eq_of_lt hi]
    simp only [Int.ofNat_zero, Int.sub_zero, e0] at h0
    simp only [Option.map_some, range_getElem, h0, hA i (by omega) hi, hY i (by omega) hi, List.getElem?_map,
      List.getElem?_range hi]
  · have h1 : (Py.zip3 (Py.range k) pe po).length ≤ i := by
      unfold Py.zip3; simp only [List.length_zip, range_length, hpe, hpo]; omega
    simp [h1, hi]

/-- discharges the side conditions of `uses_core` for the spellings `i - d` and `(i - d) % n_splits` -/
macro "pairing_spelling" hS:term "," hd:term : tactic =>
  `(tactic| (intro i hi hik
             simp only [List.getElem_map, range_getElem]
             first
             | exact get_sub _ _ i _ (by simp [$hS:term]) hik $hd
             | exact get_sub_mod _ _ i _ (by simp [$hS:term]) hik $hd))

/-- **The prediction loop of `SingleCrossfitAIPTW._single_crossfit_` / `SingleCrossfitTMLE._single_crossfit_` as
    regenerated** (`pairing_exposure = [i - 1 …]`, `pairing_outcome = pairing_exposure`, the `zip`, Python's
    subscripts): part `i` is handed to the treatment copy and the outcome copy fitted on part `pairIdx k i 1`. -/
theorem single_crossfit_generated_single {M : Type} (pick : List Nat → Nat → List Nat) (fitA fitY : List Nat → M)
    (rows : List Nat) (k : Nat) (hk : 1 ≤ k) :
    Gen.single_crossfit_SingleCrossfitAIPTW pick fitA fitY rows k = usesModel fitA fitY (sampleSplit pick rows k) 1 ∧
    Gen.single_crossfit_SingleCrossfitTMLE pick fitA fitY rows k = usesModel fitA fitY (sampleSplit pick rows k) 1 := by
  have hS := sampleSplit_length pick rows k hk
  constructor <;>
  · simp only [Gen.single_crossfit_SingleCrossfitAIPTW, Gen.single_crossfit_SingleCrossfitTMLE, Py.forIn,
      sample_split_generated, (nuisance_generated _ _).1, (nuisance_generated _ _).2]
    rw [fold_append_map, List.nil_append]
    refine uses_core fitA fitY _ _ _ k 1 hS (by simp [range_length]) (by simp [range_length]) ?_ ?_
    · pairing_spelling hS, hk
    · pairing_spelling hS, hk

/-- **The prediction loop of `DoubleCrossfitAIPTW._single_crossfit_` / `DoubleCrossfitTMLE._single_crossfit_` as
    regenerated** (`pairing_exposure = [i - 1 …]`, `pairing_outcome = [i - 2 …]`): part `i` is handed to the
    treatment copy fitted on part `pairIdx k i 1` and the outcome copy fitted on part `pairIdx k i 2`. -/
theorem single_crossfit_generated_double {M : Type} (pick : List Nat → Nat → List Nat) (fitA fitY : List Nat → M)
    (rows : List Nat) (k : Nat) (hk : 2 ≤ k) :
    Gen.single_crossfit_DoubleCrossfitAIPTW pick fitA fitY rows k = usesModel fitA fitY (sampleSplit pick rows k) 2 ∧
    Gen.single_crossfit_DoubleCrossfitTMLE pick fitA fitY rows k = usesModel fitA fitY (sampleSplit pick rows k) 2 := by
  have hS := sampleSplit_length pick rows k (by omega)
  have hk1 : 1 ≤ k := by omega
  constructor <;>
  · simp only [Gen.single_crossfit_DoubleCrossfitAIPTW, Gen.single_crossfit_DoubleCrossfitTMLE, Py.forIn,
      sample_split_generated, (nuisance_generated _ _).1, (nuisance_generated _ _).2]
    rw [fold_append_map, List.nil_append]
    refine uses_core fitA fitY _ _ _ k 2 hS (by simp [range_length]) (by simp [range_length]) ?_ ?_
    · pairing_spelling hS, hk1
    · pairing_spelling hS, hk

/-! ### The property theorems of `Props/C04.lean`, as statements about the regenerated code -/

/-- **Splits partition the analysed rows — the regenerated `_sample_split_`.**  Same statement as `split_partition`:
    `k` parts, pairwise disjoint, free of repeats, together a permutation of the rows, the first `k - 1` of size
    `⌊n/k⌋`, the last `⌊n/k⌋ + n mod k`. -/
theorem split_partition_generated (pick : List Nat → Nat → List Nat) (hp : GoodPick pick) (rows : List Nat)
    (hr : rows.Nodup) (k : Nat) (hk : 1 ≤ k) :
    (Gen.sample_split pick rows k).length = k ∧
    (Gen.sample_split pick rows k).flatten.Perm rows ∧
    (Gen.sample_split pick rows k).Pairwise List.Disjoint ∧
    (∀ s ∈ Gen.sample_split pick rows k, s.Nodup) ∧
    (Gen.sample_split pick rows k).map List.length =
      List.replicate (k - 1) (rows.length / k) ++ [rows.length / k + rows.length % k] ∧
    rows.length % k < k := by
  rw [sample_split_generated]; exact split_partition pick hp rows hr k hk

private lemma disj_of_ne {S : List (List Nat)} (hd : S.Pairwise List.Disjoint) {i j : Nat}
    (hi : i < S.length) (hj : j < S.length) (hne : j ≠ i) : List.Disjoint S[i] S[j] := by
  rw [List.pairwise_iff_getElem] at hd
  rcases Nat.lt_or_gt_of_ne hne with h | h
  · exact fun a ha hb => hd j i hj hi h hb ha
  · exact hd i j hi hj h

/-- the model's account of the prediction loop, for pairwise disjoint parts: every pass predicts a part with copies
    fitted on *other* parts (identified here by their training rows: `fit := id`) -/
private lemma usesModel_spec (S : List (List Nat)) (hd : S.Pairwise List.Disjoint) (d : Nat)
    (hk : (d = 1 ∧ 2 ≤ S.length) ∨ (d = 2 ∧ 3 ≤ S.length)) :
    ∀ u ∈ usesModel (fun s => s) (fun s => s) S d, ∃ (i ja jy : Nat) (hi : i < S.length) (ha : ja < S.length)
      (hy : jy < S.length), u = (some S[i], some S[ja], some S[jy]) ∧ ja ≠ i ∧ jy ≠ i ∧ (d = 2 → ja ≠ jy) ∧
      List.Disjoint S[i] S[ja] ∧ List.Disjoint S[i] S[jy] ∧ (d = 2 → List.Disjoint S[ja] S[jy]) := by
  intro u hu
  simp only [usesModel, List.mem_map, List.mem_range] at hu
  obtain ⟨i, hi, rfl⟩ := hu
  have h1 := pairing_ne S.length i (by omega) hi
  have hy : pairIdx S.length i d < S.length ∧ pairIdx S.length i d ≠ i ∧ (d = 2 → pairIdx S.length i 1 ≠ pairIdx S.length i d) := by
    rcases hk with ⟨rfl, _⟩ | ⟨rfl, h3⟩
    · exact ⟨h1.1, h1.2, by omega⟩
    · have := pairing_double S.length i h3 hi
      exact ⟨this.1, this.2.1, fun _ => this.2.2.2⟩
  refine ⟨i, pairIdx S.length i 1, pairIdx S.length i d, hi, h1.1, hy.1, ?_, h1.2, hy.2.1, hy.2.2,
    disj_of_ne hd hi h1.1 h1.2, disj_of_ne hd hi hy.1 hy.2.1, fun h => disj_of_ne hd h1.1 hy.1 (Ne.symm (hy.2.2 h))⟩
  simp [List.getElem?_eq_getElem hi, List.getElem?_eq_getElem h1.1, List.getElem?_eq_getElem hy.1]

private lemma usesModel_fst {M : Type} (fitA fitY : List Nat → M) (S : List (List Nat)) (d : Nat) :
    (usesModel fitA fitY S d).map (·.1) = S.map some := by
  unfold usesModel
  rw [List.map_map]
  apply List.ext_getElem?
  intro i
  by_cases h : i < S.length
  · simp [h]
  · simp [h]

private lemma filterMap_of_map {α β : Type} (f : α → Option β) :
    ∀ (l : List α) (S : List β), l.map f = S.map some → l.filterMap f = S := by
  intro l
  induction l with
  | nil => intro S h; cases S with
    | nil => rfl
    | cons b S => simp at h
  | cons a l ih =>
    intro S h
    cases S with
    | nil => simp at h
    | cons b S =>
      simp only [List.map_cons, List.cons.injEq] at h
      rw [List.filterMap_cons, h.1, ih S h.2]

/-- **No leak, predicted once — the regenerated prediction loop of the single cross-fit classes.**  A fitted copy is
    identified by its training rows (`fit := id`).  For a chooser behaving like sampling without replacement, rows
    without repeated identifiers and `n_splits` accepted by the regenerated guard: the loop makes `k` passes, none hits
    an `IndexError`; pass `i` predicts part `i` with a treatment copy and an outcome copy whose training rows are
    *another* part, hence contain no predicted row; and the predicted parts are, in order, exactly the parts — every
    analysed row is predicted exactly once. -/
theorem crossfit_sound_generated_single (pick : List Nat → Nat → List Nat) (hp : GoodPick pick) (rows : List Nat)
    (hr : rows.Nodup) (k : Nat) (hk : Gen.min_splits_SingleCrossfitAIPTW ≤ k) :
    let S := Gen.sample_split pick rows k
    ∀ U ∈ [Gen.single_crossfit_SingleCrossfitAIPTW pick (fun s => s) (fun s => s) rows k,
           Gen.single_crossfit_SingleCrossfitTMLE pick (fun s => s) (fun s => s) rows k],
      U.length = k ∧
      (∀ u ∈ U, ∃ rs ta ty, u = (some rs, some ta, some ty) ∧ rs ∈ S ∧ ta ∈ S ∧ ty ∈ S ∧
        (∀ r ∈ rs, r ∉ ta) ∧ (∀ r ∈ rs, r ∉ ty)) ∧
      U.map (·.1) = S.map some ∧ (U.filterMap (·.1)).flatten.Perm rows := by
  intro S U hU
  have hk2 : 2 ≤ k := hk
  obtain ⟨hlen, hperm, hdis, _, _, _⟩ := split_partition pick hp rows hr k (by omega)
  have hS : S = sampleSplit pick rows k := sample_split_generated pick rows k
  have hUeq : U = usesModel (fun s => s) (fun s => s) (sampleSplit pick rows k) 1 := by
    have := single_crossfit_generated_single pick (fun s : List Nat => s) (fun s => s) rows k (by omega)
    simp only [List.mem_cons, List.mem_nil_iff, or_false] at hU
    rcases hU with rfl | rfl
    · exact this.1
    · exact this.2
  rw [hS, hUeq]
  have hfst := usesModel_fst (fun s : List Nat => s) (fun s => s) (sampleSplit pick rows k) 1
  refine ⟨by simp [usesModel, hlen], ?_, hfst, ?_⟩
  · intro u hu
    obtain ⟨i, ja, jy, hi, ha, hy, rfl, _, _, _, d1, d2, _⟩ :=
      usesModel_spec _ hdis 1 (Or.inl ⟨rfl, by omega⟩) u hu
    exact ⟨_, _, _, rfl, List.getElem_mem hi, List.getElem_mem ha, List.getElem_mem hy,
      fun r hr1 hr2 => d1 hr1 hr2, fun r hr1 hr2 => d2 hr1 hr2⟩
  · have : (usesModel (fun s : List Nat => s) (fun s => s) (sampleSplit pick rows k) 1).filterMap (·.1)
        = sampleSplit pick rows k := by
      exact filterMap_of_map _ _ _ hfst
    rw [this]; exact hperm

/-- non-vacuity: the regenerated loop of a single cross-fit class on 7 rows in 3 parts (a copy is shown by its
    training rows) -/
example : Gen.single_crossfit_SingleCrossfitTMLE (fun rem m => rem.take m) (fun s => s) (fun s => s) (List.range 7) 3 =
    [(some [0, 1], some [4, 5, 6], some [4, 5, 6]), (some [2, 3], some [0, 1], some [0, 1]),
     (some [4, 5, 6], some [2, 3], some [2, 3])] := by decide

/-- **No leak, predicted once, two different training parts — the regenerated prediction loop of the double cross-fit
    classes.**  As `crossfit_sound_generated_single`, and in addition the treatment copy and the outcome copy used in a
    pass were fitted on two *different* parts (positions `ja ≠ jy`), which share no row. -/
theorem crossfit_sound_generated_double (pick : List Nat → Nat → List Nat) (hp : GoodPick pick) (rows : List Nat)
    (hr : rows.Nodup) (k : Nat) (hk : Gen.min_splits_DoubleCrossfitAIPTW ≤ k) :
    let S := Gen.sample_split pick rows k
    ∀ U ∈ [Gen.single_crossfit_DoubleCrossfitAIPTW pick (fun s => s) (fun s => s) rows k,
           Gen.single_crossfit_DoubleCrossfitTMLE pick (fun s => s) (fun s => s) rows k],
      U.length = k ∧
      (∀ u ∈ U, ∃ rs ta ty, u = (some rs, some ta, some ty) ∧ rs ∈ S ∧
        (∀ r ∈ rs, r ∉ ta) ∧ (∀ r ∈ rs, r ∉ ty) ∧
        ∃ ja jy : Nat, ja ≠ jy ∧ S[ja]? = some ta ∧ S[jy]? = some ty ∧ (∀ r ∈ ta, r ∉ ty)) ∧
      U.map (·.1) = S.map some ∧ (U.filterMap (·.1)).flatten.Perm rows := by
  intro S U hU
  have hk3 : 3 ≤ k := hk
  obtain ⟨hlen, hperm, hdis, _, _, _⟩ := split_partition pick hp rows hr k (by omega)
  have hS : S = sampleSplit pick rows k := sample_split_generated pick rows k
  have hUeq : U = usesModel (fun s => s) (fun s => s) (sampleSplit pick rows k) 2 := by
    have := single_crossfit_generated_double pick (fun s : List Nat => s) (fun s => s) rows k (by omega)
    simp only [List.mem_cons, List.mem_nil_iff, or_false] at hU
    rcases hU with rfl | rfl
    · exact this.1
    · exact this.2
  rw [hS, hUeq]
  have hfst := usesModel_fst (fun s : List Nat => s) (fun s => s) (sampleSplit pick rows k) 2
  refine ⟨by simp [usesModel, hlen], ?_, hfst, ?_⟩
  · intro u hu
    obtain ⟨i, ja, jy, hi, ha, hy, rfl, _, _, hne, d1, d2, d3⟩ :=
      usesModel_spec _ hdis 2 (Or.inr ⟨rfl, by omega⟩) u hu
    exact ⟨_, _, _, rfl, List.getElem_mem hi, fun r hr1 hr2 => d1 hr1 hr2, fun r hr1 hr2 => d2 hr1 hr2,
      ja, jy, hne rfl, List.getElem?_eq_getElem ha, List.getElem?_eq_getElem hy, fun r hr1 hr2 => d3 rfl hr1 hr2⟩
  · rw [filterMap_of_map _ _ _ hfst]; exact hperm

example : Gen.single_crossfit_DoubleCrossfitAIPTW (fun rem m => rem.take m) (fun s => s) (fun s => s) (List.range 7) 3 =
    [(some [0, 1], some [4, 5, 6], some [2, 3]), (some [2, 3], some [0, 1], some [4, 5, 6]),
     (some [4, 5, 6], some [2, 3], some [0, 1])] := by decide

/-- below the regenerated guard the double pairing really fails: with `n_splits = 2` the subscript `y_models[0 - 2]` … is
    in range only by wrapping onto the part being predicted (this is why `fit` rejects it) -/
example : Gen.single_crossfit_DoubleCrossfitAIPTW (fun rem m => rem.take m) (fun s => s) (fun s => s) (List.range 4) 2 =
    [(some [0, 1], some [2, 3], some [0, 1]), (some [2, 3], some [0, 1], some [2, 3])] := by decide

/-! ### The whole partition: what the driver executes is the model -/

private lemma schedule_by_position (double : Bool) (S : List (List Nat)) :
    schedule double S = fitEvents .trt S ++ fitEvents .out S ++
      (List.range S.length).flatMap (fun i =>
        [Ev.pred .trt (pairIdx S.length i 1) 0 (S[i]?.getD []),
         Ev.pred .out (pairIdx S.length i (outOffset double)) 1 (S[i]?.getD []),
         Ev.pred .out (pairIdx S.length i (outOffset double)) 2 (S[i]?.getD [])]) := by
  unfold schedule
  congr 1
  have : S.zipIdx = (List.range S.length).map (fun i => (S[i]?.getD [], i)) := by
    apply List.ext_getElem?
    intro i
    by_cases h : i < S.length
    · simp [h]
    · simp [h]
  rw [this, List.flatMap_map]
  rfl

private lemma mapM_some {α β : Type} (f : α → Option β) (h : α → β) :
    ∀ l : List α, (∀ x ∈ l, f x = some (h x)) → l.mapM f = some (l.map h) := by
  intro l
  induction l with
  | nil => intro _; rfl
  | cons a l ih =>
    intro hx
    rw [List.mapM_cons, hx a (List.mem_cons_self), ih (fun x hm => hx x (List.mem_cons_of_mem _ hm))]
    rfl

/-- parts of a split of at least `n_splits` rows are non-empty and pairwise disjoint, hence pairwise different -/
private lemma parts_nodup (pick : List Nat → Nat → List Nat) (hp : GoodPick pick) (rows : List Nat)
    (hr : rows.Nodup) (k : Nat) (hk : 1 ≤ k) (hkn : k ≤ rows.length) : (sampleSplit pick rows k).Nodup := by
  obtain ⟨_, _, hdis, _, hsz, _⟩ := split_partition pick hp rows hr k hk
  have hpos : 1 ≤ rows.length / k := (Nat.one_le_div_iff (by omega)).mpr hkn
  have hne : ∀ s ∈ sampleSplit pick rows k, s ≠ [] := by
    intro s hs h0
    have : s.length ∈ (sampleSplit pick rows k).map List.length := List.mem_map_of_mem hs
    rw [hsz, List.mem_append, List.mem_replicate, List.mem_singleton] at this
    rw [h0] at this
    simp only [List.length_nil] at this
    omega
  unfold List.Nodup
  refine List.Pairwise.imp_of_mem ?_ hdis
  intro a b ha hb hab heq
  subst heq
  cases a with
  | nil => exact hne [] ha rfl
  | cons x xs => exact hab (List.mem_cons_self) (List.mem_cons_self)

/-- **One partition assembled from the regenerated code is the model** (`Model/CrossfitGen.lean`, the operation the
    driver executes for gate K, against `Crossfit.crossfit`, the subject of `crossfit_sound`): the regenerated guard,
    `_sample_split_`, nuisance functions and prediction loop produce exactly the model's parts and call sequence, for
    each of the four classes — whenever there are at least `n_splits` analysed rows (so that every part is non-empty
    and a fitted copy is determined by its training part). -/
theorem crossfit_generated (c : Cls) (pick : List Nat → Nat → List Nat) (hp : GoodPick pick) (rows : List Nat)
    (hr : rows.Nodup) (k : Nat) (hkn : k ≤ rows.length) :
    genCrossfit c pick rows k = crossfit c.double pick rows k := by
  have hmin : genMinSplits c = minSplits c.double := by cases c <;> rfl
  unfold genCrossfit crossfit
  rw [hmin]
  by_cases hlt : k < minSplits c.double
  · simp [hlt]
  · simp only [hlt, if_false]
    have hk2 : 2 ≤ k := by
      unfold minSplits at hlt; split at hlt <;> omega
    have hd : outOffset c.double ≤ k := by
      unfold minSplits at hlt; unfold outOffset; cases c.double <;> simp_all
      omega
    have hS := sample_split_generated pick rows k
    have hlen := sampleSplit_length pick rows k (by omega)
    have hnd := parts_nodup pick hp rows hr k (by omega) hkn
    have huses : genUses c pick (fun s => (sampleSplit pick rows k).idxOf s) (fun s => (sampleSplit pick rows k).idxOf s) rows k
        = usesModel (fun s => (sampleSplit pick rows k).idxOf s) (fun s => (sampleSplit pick rows k).idxOf s)
            (sampleSplit pick rows k) (outOffset c.double) := by
      cases c
      · exact (single_crossfit_generated_single pick _ _ rows k (by omega)).1
      · exact (single_crossfit_generated_double pick _ _ rows k hk2).1
      · exact (single_crossfit_generated_single pick _ _ rows k (by omega)).2
      · exact (single_crossfit_generated_double pick _ _ rows k hk2).2
    rw [hS, huses, (nuisance_generated _ _).1, (nuisance_generated _ _).2]
    simp only [List.map_id']
    have hm := mapM_some evOfUse
      (fun u : Option (List Nat) × Option Nat × Option Nat =>
        [Ev.pred .trt (u.2.1.getD 0) 0 (u.1.getD []), Ev.pred .out (u.2.2.getD 0) 1 (u.1.getD []),
         Ev.pred .out (u.2.2.getD 0) 2 (u.1.getD [])])
      (usesModel (fun s => (sampleSplit pick rows k).idxOf s) (fun s => (sampleSplit pick rows k).idxOf s)
        (sampleSplit pick rows k) (outOffset c.double)) (by
        intro u hu
        simp only [usesModel, List.mem_map, List.mem_range] at hu
        obtain ⟨i, hi, rfl⟩ := hu
        rw [hlen] at hi
        have h1 : pairIdx k i 1 < k := Nat.mod_lt _ (by omega)
        have h2 : pairIdx k i (outOffset c.double) < k := Nat.mod_lt _ (by omega)
        simp [hlen, hi, h1, h2, evOfUse])
    rw [hm, schedule_by_position]
    simp only [Option.some.injEq, Prod.mk.injEq, true_and, List.append_cancel_left_eq]
    unfold usesModel
    rw [List.map_map, List.flatMap_def]
    congr 1
    apply List.map_congr_left
    intro i hi
    have hi' : i < (sampleSplit pick rows k).length := List.mem_range.mp hi
    have h1 : pairIdx (sampleSplit pick rows k).length i 1 < (sampleSplit pick rows k).length :=
      Nat.mod_lt _ (by omega)
    have h2 : pairIdx (sampleSplit pick rows k).length i (outOffset c.double) < (sampleSplit pick rows k).length :=
      Nat.mod_lt _ (by omega)
    simp only [Function.comp, List.getElem?_eq_getElem hi', List.getElem?_eq_getElem h1, List.getElem?_eq_getElem h2,
      Option.map_some, Option.getD_some, hnd.idxOf_getElem]

/-- **End-to-end statement for one partition, about the regenerated code** (`crossfit_sound` transported along
    `crossfit_generated`): `n_splits` below the regenerated guard is rejected; otherwise the regenerated
    `_sample_split_` yields `k` disjoint, exhaustive, near-equal parts, the call sequence produced by the regenerated
    nuisance functions and prediction loop never asks a fitted copy about a row it was trained on, and every row is
    predicted exactly once per nuisance quantity. -/
theorem crossfit_sound_generated (c : Cls) (pick : List Nat → Nat → List Nat) (hp : GoodPick pick)
    (rows : List Nat) (hr : rows.Nodup) (k : Nat) (hkn : k ≤ rows.length) :
    (k < genMinSplits c → genCrossfit c pick rows k = none) ∧
    (genMinSplits c ≤ k → ∃ S evs, genCrossfit c pick rows k = some (S, evs) ∧
      S.length = k ∧ S.flatten.Perm rows ∧ S.Pairwise List.Disjoint ∧
      S.map List.length = List.replicate (k - 1) (rows.length / k) ++ [rows.length / k + rows.length % k] ∧
      leakFree evs = true ∧
      (predictedRows evs .trt 0).Perm rows ∧ (predictedRows evs .out 1).Perm rows ∧
      (predictedRows evs .out 2).Perm rows) := by
  have hmin : genMinSplits c = minSplits c.double := by cases c <;> rfl
  rw [crossfit_generated c pick hp rows hr k hkn, hmin]
  exact crossfit_sound c.double pick hp rows hr k

/-- non-vacuity: the partition assembled from the regenerated code, 7 rows, 3 parts, double cross-fit -/
example : genCrossfit .dTMLE (fun rem m => rem.take m) (List.range 7) 3 = some
    ([[0, 1], [2, 3], [4, 5, 6]],
     [.fit .trt 0 [0, 1], .fit .trt 1 [2, 3], .fit .trt 2 [4, 5, 6],
      .fit .out 0 [0, 1], .fit .out 1 [2, 3], .fit .out 2 [4, 5, 6],
      .pred .trt 2 0 [0, 1], .pred .out 1 1 [0, 1], .pred .out 1 2 [0, 1],
      .pred .trt 0 0 [2, 3], .pred .out 2 1 [2, 3], .pred .out 2 2 [2, 3],
      .pred .trt 1 0 [4, 5, 6], .pred .out 0 1 [4, 5, 6], .pred .out 0 2 [4, 5, 6]]) := by decide
example : genCrossfit .dAIPTW (fun rem m => rem.take m) (List.range 7) 2 = none := by decide

end ZV.P04
