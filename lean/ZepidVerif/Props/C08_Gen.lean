/-
C08, tie to the source: the `1 − A` equivariance of TMLE's targeting step (`Props/C08.lean`: `tmle_flip`,
`tmle_flip_continuous`, proved on the model `ZV.Tmle.fitBinary / fitContinuous`) restated for the definitions
*regenerated on every run from the text of `TMLE.fit`* (`ZV.Gen.tmle_fit_binary`, `ZV.Gen.tmle_fit_continuous`,
Gen/TmleFit.lean: clever covariates → targeted predictions → plug-ins → influence curves → standard errors and
limits), through the bridge `Tmle.tmle_fit_binary_eq / tmle_fit_continuous_eq` (Lemmas/TmleFitBridge.lean, the
statement of `P03.tmle_fit_generated_binary/continuous`).  A module of its own so that `Props/C08.lean` — which
other property modules may import — does not depend on the generated text.

The rows carry the *total* probabilities `g1W_total`, `g0W_total` (with a missing-outcome model the generated code forms
`g·m` first and is otherwise the same function of them: `P03.tmle_fit_generated_useMiss`), so the recoding `g1 ↔ g0`
of the rows below is the recoding of the totals.
-/
import ZepidVerif.Props.C08
import ZepidVerif.Lemmas.TmleFitBridge
set_option linter.unusedSectionVars false
set_option linter.unusedVariables false
namespace ZV.P08
open ZV ZV.Tmle ZV.Gen

variable {F : Type} [Field F] [LinearOrder F] [IsStrictOrderedRing F] [Transc F]

/-- **tmle_fit_flip_generated_binary.**  The code of `TMLE.fit` (binary outcome), run on the recoded rows
    `(1 − A, Y, g0, g1, Q0, Q1)` with the corresponding fluctuation coefficients `(−ε₂, −ε₁)` (`tmle_flip_scores`:
    they solve the recoded score equations iff `(ε₁, ε₂)` solve the original ones), returns: the negated risk
    difference with the same standard error (hence the mirrored interval), the inverted risk ratio and odds ratio
    with the same standard errors of their logarithms (hence intervals about the inverted points on the log scale
    of the same width). -/
theorem tmle_fit_flip_generated_binary (σ lg ppf : F → F) (alpha e1 e2 mini maxi : F) (l : List (TRow F)) :
    let out := tmle_fit_binary σ lg ppf false alpha e1 e2 mini maxi l (fun r => r.g1) (fun r => r.g0)
      (fun _ => 1) (fun _ => 1) qa
    let out' := tmle_fit_binary σ lg ppf false alpha (-e2) (-e1) mini maxi (l.map flipT) (fun r => r.g1) (fun r => r.g0)
      (fun _ => 1) (fun _ => 1) qa
    let z := zalpha ppf alpha
    out' = (-out.1, out.2.1, ciLin (-out.1) z out.2.1,
            (out.2.2.2.1)⁻¹, out.2.2.2.2.1, ciLog (out.2.2.2.1)⁻¹ z out.2.2.2.2.1,
            (out.2.2.2.2.2.2.1)⁻¹, out.2.2.2.2.2.2.2.1, ciLog (out.2.2.2.2.2.2.1)⁻¹ z out.2.2.2.2.2.2.2.1) := by
  intro out out' z
  obtain ⟨_, _, _, hrd, hrdSe, hrr, hrrSe, hor, horSe⟩ := tmle_flip σ lg e1 e2 l
  simp only [out, out', z, tmle_fit_binary_eq, hrd, hrdSe, hrr, hrrSe, hor, horSe]

/-- **tmle_fit_flip_generated_continuous.**  The same for a continuous outcome: the average treatment effect is
    negated, its standard error unchanged, the interval mirrored. -/
theorem tmle_fit_flip_generated_continuous (σ lg ppf : F → F) (alpha e1 e2 mini maxi : F) (l : List (TRow F)) :
    let out := tmle_fit_continuous σ lg ppf false alpha e1 e2 mini maxi l (fun r => r.g1) (fun r => r.g0)
      (fun _ => 1) (fun _ => 1) qa
    let out' := tmle_fit_continuous σ lg ppf false alpha (-e2) (-e1) mini maxi (l.map flipT) (fun r => r.g1)
      (fun r => r.g0) (fun _ => 1) (fun _ => 1) qa
    out' = (-out.1, out.2.1, ciLin (-out.1) (zalpha ppf alpha) out.2.1) := by
  intro out out'
  obtain ⟨_, _, _, hrd, hrdSe⟩ := tmle_flip_continuous σ lg e1 e2 mini maxi l
  simp only [out, out', tmle_fit_continuous_eq, hrd, hrdSe]

/-- the mirrored interval: `ciLin (−est) z se = (−upper, −lower)` of `ciLin est z se` -/
theorem ciLin_neg (est z se : F) : ciLin (-est) z se = (-(ciLin est z se).2, -(ciLin est z se).1) := by
  simp only [ciLin, Prod.mk.injEq]; constructor <;> ring

section Examples
local instance : Transc ℚ := ⟨id, id, id⟩
/-- the generated code on the example rows of `Props/C08.lean` and on their recoding: RD 1/6 ↦ −1/6, RR 4/3 ↦ 3/4 -/
example :
    (tmle_fit_binary (F := ℚ) id id (fun x => x) false (1/10) (11/75) (-9/50) 0 1 exT (fun r => r.g1) (fun r => r.g0)
      (fun _ => 1) (fun _ => 1) qa).1 = 1/6 ∧
    (tmle_fit_binary (F := ℚ) id id (fun x => x) false (1/10) (9/50) (-11/75) 0 1 (exT.map flipT) (fun r => r.g1)
      (fun r => r.g0) (fun _ => 1) (fun _ => 1) qa).1 = -1/6 := by
  rw [tmle_fit_binary_eq, tmle_fit_binary_eq]
  simp only [fitBinary, rdOf, mean, targets, exT, flipT, List.map, List.length, sumBy, qstar1, qstar0, id]
  norm_num
end Examples

end ZV.P08
