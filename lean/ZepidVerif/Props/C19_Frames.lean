/-
C19, tie to the source: the counts `RiskDifference.fit` feeds into its Fréchet bounds (read off the frame by the
statements regenerated into `Gen/Frames.lean` on every run) are those of the model's `frechet`, whose two formulas are
themselves generated (`Gen/Frechet.lean`).
-/
import ZepidVerif.Props.C19
import ZepidVerif.Gen.Frames
set_option linter.unusedSectionVars false
set_option linter.unusedVariables false
namespace ZV.P19
open ZV.Gen ZV.Measures

variable {F : Type} [Field F] [LinearOrder F] [IsStrictOrderedRing F] [Transc F]

/-- the counts entering the Fréchet bounds of `RiskDifference.fit` are those of the model's `frechet` -/
theorem frechet_counts_generated (rows : List (MRow F)) (ref i : Nat) :
    RiskDifference_frechet_counts rows ref i =
      (cntED rows i true, cntED rows i false,
       (rows.filter fun r => r.e.isSome && r.e != some i && r.d == some true).length,
       (complete rows).length) := by
  unfold RiskDifference_frechet_counts cntED complete
  simp only [Prod.mk.injEq, true_and]
  refine ⟨?_, trivial⟩
  congr 1
  apply List.filter_congr
  intro r _
  cases r.e <;> simp [Bool.and_comm]

end ZV.P19
