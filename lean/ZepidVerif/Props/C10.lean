/-
C10 — Incomplete rows are handled exactly as documented.

Subject: `ZV.Miss.checkInput` (the model of `zepid.causal.utils.check_input_data`, executed by the native
driver against the real function in the correspondence check) composed with the estimator models of
`Model/Std.lean` (`hajek ∘ iptwOmega` = IPTW, `gformula` = TimeFixedGFormula and the TMLE plug-in), and the
effect-measure model of `Model/Measures.lean`.

Clauses of the property and the theorems that carry them
  (a) rows missing exposure/covariates never influence a causal estimator
        `drop_idempotent`, `est_eq_after_deletion`, `incomplete_rows_irrelevant`
  (b) drop-everything estimators equal their complete-case result
        `drop_all_eq_complete_case`
  (c) estimators keeping missing-outcome rows fit outcome models on observed outcomes only
        `outcome_fit_on_observed` (the fitting set, the score equations, and the irrelevance of whatever value
        is stored on an unobserved row); `miss_flag_spec`
  (d) saturated treatment + missingness models: IPTW and TMLE standardize the observed-outcome stratum means
      over the covariates of all retained rows
        `iptw_missing_saturated`, `std_missing_form`, `gformula_predict_missing`;
        TMLE: `tmle_missing_saturated` (full statement, via `P02.tmle_dr_treatment`); `tmle_plugin_missing_partial` is the
        earlier, weaker form kept for reference
  (e) effect-measure classes ignore and count rows missing exposure or outcome
        `measures_ignore_and_count` (corollary of the C07 theorems `crosstab_filter`, `missing_counts`)
AIPTW with missing outcomes is deliberately not claimed to standardize (it does not, and the property does
not say it does).
-/
import ZepidVerif.Lemmas.Missing
import ZepidVerif.Props.C01
import ZepidVerif.Props.C07
import ZepidVerif.Props.C02
set_option linter.unusedSectionVars false
set_option linter.unusedVariables false
namespace ZV.P10
open ZV ZV.Std ZV.Miss

variable {F : Type} [Field F] [LinearOrder F] [IsStrictOrderedRing F] [Transc F]

/-- deleting incomplete rows twice is deleting them once (both user-side deletions), and
    `check_input_data` applied to already deleted data has nothing left to drop -/
theorem drop_idempotent (rows : List (Raw F)) (dc : Bool) :
    deleteIncomplete (deleteIncomplete rows) = deleteIncomplete rows ∧
    completeCases (completeCases rows) = completeCases rows ∧
    checkInput dc (deleteIncomplete rows) = checkInput dc rows := by
  refine ⟨?_, ?_, checkInput_delete dc rows⟩
  · unfold deleteIncomplete; rw [List.filter_filter]; simp
  · unfold completeCases; rw [List.filter_filter]; simp

/-- **(a)** any estimator built on `check_input_data` (any function `est` of the formatted data, whatever
    it returns) gives the same result on the data and on the data with the rows missing exposure or a
    covariate deleted; so does the `miss_flag` -/
theorem est_eq_after_deletion {β : Type} (est : List (Row F) → β) (dc : Bool) (rows : List (Raw F)) :
    est (checkInput dc rows) = est (checkInput dc (deleteIncomplete rows)) ∧
    missFlag dc rows = missFlag dc (deleteIncomplete rows) := by
  unfold missFlag
  rw [checkInput_delete]
  exact ⟨rfl, rfl⟩

/-- **(a)**, stronger: two data sets that agree on their rows with exposure and covariates present give the
    same result — the content, number and position of the incomplete rows never matter -/
theorem incomplete_rows_irrelevant {β : Type} (est : List (Row F) → β) (dc : Bool) (rows₁ rows₂ : List (Raw F))
    (h : deleteIncomplete rows₁ = deleteIncomplete rows₂) :
    est (checkInput dc rows₁) = est (checkInput dc rows₂) := by
  rw [← checkInput_delete dc rows₁, ← checkInput_delete dc rows₂, h]

/-- **(b)** the estimators documented to drop every incomplete row (`drop_censoring=True`): same result as on
    the complete cases, which is also what a keep-missing-outcome estimator returns on the complete cases;
    every retained outcome is observed and no missing-outcome handling is triggered -/
theorem drop_all_eq_complete_case {β : Type} (est : List (Row F) → β) (rows : List (Raw F)) :
    est (checkInput true rows) = est (checkInput true (completeCases rows)) ∧
    est (checkInput true rows) = est (checkInput false (completeCases rows)) ∧
    (∀ r ∈ checkInput true rows, r.obs = true) ∧ missFlag true rows = false := by
  obtain ⟨h1, h2⟩ := checkInput_true_completeCases rows
  refine ⟨by rw [h1], by rw [h2], ?_, rfl⟩
  intro r hr
  unfold checkInput at hr
  obtain ⟨x, hx, rfl⟩ := List.mem_map.mp hr
  have := (List.mem_filter.mp hx).2
  simp only [kept, Raw.complete, if_true, Bool.and_eq_true] at this
  exact this.2

/-- `miss_flag` (which switches on the missing-outcome machinery: `missing_model` is refused without it, outcome
    models are fitted on `dropna()`) is raised exactly when a retained row has a missing outcome -/
theorem miss_flag_spec (rows : List (Raw F)) :
    missFlag false rows = true ↔ ∃ r ∈ rows, r.covComplete = true ∧ r.y = none := by
  unfold missFlag checkInput
  simp only [Bool.not_false, Bool.true_and, List.any_map, List.any_filter, List.any_eq_true, kept,
    Bool.false_eq_true, if_false, Function.comp, toRow, Bool.and_eq_true, Bool.not_eq_true',
    Option.isSome_eq_false_iff, Option.isNone_iff_eq_none]

/-- **(c)** the outcome model is fitted on the retained rows with an observed outcome and on nothing else: every
    fitting row is observed; the saturated score equations (`OutFit`) on the formatted data are literally those on
    the fitting rows; and whatever value sits in the outcome column of an unobserved row cannot enter them -/
theorem outcome_fit_on_observed (l : List (Row F)) (S : List Nat) (Q : Nat → Bool → F) (f : Row F → F) :
    (∀ r ∈ outcomeFitRows l, r.obs = true) ∧
    (OutFit l S Q ↔ OutFit (outcomeFitRows l) S Q) ∧
    (OutFit l S Q ↔ OutFit (scrambleUnobserved f l) S Q) := by
  refine ⟨fun r hr => (List.mem_filter.mp hr).2, ?_, ?_⟩
  · unfold OutFit outcomeFitRows
    simp only [W_inCell_filter_obs, WY_inCell_filter_obs]
  · unfold OutFit
    simp only [W_inCell_scramble, WY_inCell_scramble]

/-- **(d)** what `std` means when outcomes are missing: stratum means of the *observed* outcomes (they can be
    computed on the outcome-fitting rows alone, and do not change when unobserved values are overwritten), weighted
    by the stratum distribution of *all* retained rows of the target (which does not look at the outcome or at
    whether it was observed) -/
theorem std_missing_form (l : List (Row F)) (S : List Nat) (t : Tgt) (a : Bool) (f : Row F → F) :
    (∀ s, cellMean l s a = cellMean (outcomeFitRows l) s a) ∧
    (∀ s, Ntgt t.mem (scrambleUnobserved f l) s = Ntgt t.mem l s) ∧
    std (scrambleUnobserved f l) S t.mem a = std l S t.mem a := by
  have hN : ∀ s, Ntgt t.mem (scrambleUnobserved f l) s = Ntgt t.mem l s := by
    intro s; unfold Ntgt W
    refine sumIf_scramble f _ _ l (fun r _ => ?_) (fun r _ _ => rfl)
    cases t <;> rfl
  have hC : ∀ s, cellMean (scrambleUnobserved f l) s a = cellMean l s a := by
    intro s; unfold cellMean; rw [W_inCell_scramble, WY_inCell_scramble]
  refine ⟨fun s => ?_, hN, ?_⟩
  · unfold cellMean outcomeFitRows; rw [W_inCell_filter_obs, WY_inCell_filter_obs]
  · unfold std; simp only [hN, hC]

/-- **(d) IPTW** on data with missing values: saturated treatment model `p` (fitted on all retained rows),
    saturated missingness model `q` (`MissFit`: observed ~ stratum × arm on all retained rows), the six weight
    formulas: the marginal structural model returns the standardized mean of `std_missing_form` — observed-outcome
    stratum means over the covariates of all retained rows.  (Corollary of `P01.iptw_saturated`.) -/
theorem iptw_missing_saturated (rows : List (Raw F)) (S : List Nat)
    (hS : Strata (checkInput false rows) S) (hpos : Positivity (checkInput false rows) S)
    (stab : Bool) (t : Tgt) (a : Bool) (n : F) (hn0 : n ≠ 0) (hn1 : n ≠ 1)
    (p : Nat → F) (hp : PropFit (checkInput false rows) S p)
    (q : Nat → Bool → F) (hq : MissFit (checkInput false rows) S q) (mnum : Bool → F) (hm : mnum a ≠ 0) :
    hajek (checkInput false rows) (iptwOmega stab t (fun _ => n) (fun r => p r.s) (fun r => mnum r.a / q r.s r.a)) a
      = std (checkInput false rows) S t.mem a ∧
    hajek (checkInput false rows) (iptwOmega stab t (fun _ => n) (fun r => p r.s) (fun r => mnum r.a / q r.s r.a)) a
      = std (checkInput false (deleteIncomplete rows)) S t.mem a := by
  have h := P01.iptw_saturated (checkInput false rows) S hS hpos stab t a n hn0 hn1 p hp q hq mnum hm
  exact ⟨h, by rw [checkInput_delete]; exact h⟩

/-- **(d) g-formula `predict_missing` switch**: with a saturated outcome model (fitted on the observed
    outcomes), `predict_missing=True` averages the predictions over all retained rows of the target — rows with a
    missing outcome included —, `predict_missing=False` over those with an observed outcome only; each is the
    standardized mean over the corresponding set of rows. -/
theorem gformula_predict_missing (rows : List (Raw F)) (S : List Nat)
    (hS : Strata (checkInput false rows) S) (hpos : Positivity (checkInput false rows) S)
    (Q : Nat → Bool → F) (hQ : OutFit (checkInput false rows) S Q) (t : Tgt) (a : Bool) :
    gformula (checkInput false rows) (fun r => Q r.s) t.mem a = std (checkInput false rows) S t.mem a ∧
    gformula (checkInput false rows) (fun r => Q r.s) (fun r => t.mem r && r.obs) a
      = std (checkInput false rows) S (fun r => t.mem r && r.obs) a :=
  ⟨gformula_of_outfit _ S hS hpos Q hQ t.mem a, gformula_of_outfit _ S hS hpos Q hQ _ a⟩

/-- **(d) TMLE, PARTIAL.**  Full statement (not proved here): with saturated treatment, missingness and outcome
    models `TMLE.fit` returns `std` over all retained rows.  Proved: TMLE's point estimate is the plug-in mean of
    the targeted predictions `Q*` over *all* retained rows (missing outcomes included), so whenever `Q*` satisfies
    the stratum × arm score equations on the observed outcomes it is that standardized mean.  Missing: that the
    fluctuation step leaves a saturated `Q` at a solution of those equations (ε = 0 is the unique root of the
    targeting score equations, by strict monotonicity of expit) — the TMLE model (`Model/Tmle.lean`) was not part
    of this tree; the clause is carried by gate D of the check (TMLE vs the exact closed form on data with missing
    exposure, covariates and outcomes). -/
theorem tmle_plugin_missing_partial (rows : List (Raw F)) (S : List Nat)
    (hS : Strata (checkInput false rows) S) (hpos : Positivity (checkInput false rows) S)
    (Qstar : Nat → Bool → F) (hQ : OutFit (checkInput false rows) S Qstar) (a : Bool) :
    gformula (checkInput false rows) (fun r => Qstar r.s) Tgt.pop.mem a = std (checkInput false rows) S Tgt.pop.mem a :=
  gformula_of_outfit _ S hS hpos Qstar hQ _ a

/-- **(d), TMLE, full statement** (added once `Model/Tmle.lean` was in the tree): on the rows `check_input_data`
    retains (missing outcomes kept), with saturated treatment and missingness models, *any* initial outcome
    predictions (functions of stratum and arm) and fluctuation coefficients solving the efficient score equations,
    TMLE's plug-in risks are the observed-outcome cell means standardized over the covariates of ALL retained rows.
    This is `P02.tmle_dr_treatment` applied to the checked data (TMLE takes no frequency weights). -/
theorem tmle_missing_saturated (σ lg : F → F) (rows : List (Raw F)) (S : List Nat)
    (hS : Strata (checkInput false rows) S) (hpos : Positivity (checkInput false rows) S)
    (hw : ∀ r ∈ checkInput false rows, r.w = 1) (Q : Nat → Bool → F)
    (p : Nat → F) (hp : PropFit (checkInput false rows) S p)
    (q : Nat → Bool → F) (hq : MissFit (checkInput false rows) S q) (e1 e2 : F) :
    let l := checkInput false rows
    let g1 := fun s => p s * q s true
    let g0 := fun s => (1 - p s) * q s false
    Tmle.eff1 σ lg e1 (l.map (toT Q g1 g0)) = 0 → Tmle.eff0 σ lg e2 (l.map (toT Q g1 g0)) = 0 →
    Tmle.risk1Of (Tmle.targets σ lg e1 e2 (l.map (toT Q g1 g0))) = std l S Tgt.pop.mem true ∧
    Tmle.risk0Of (Tmle.targets σ lg e1 e2 (l.map (toT Q g1 g0))) = std l S Tgt.pop.mem false :=
  P02.tmle_dr_treatment σ lg (checkInput false rows) S hS hpos hw Q p hp q hq e1 e2

/-- **(e)** effect-measure classes (RiskRatio, RiskDifference, NNT, OddsRatio, IncidenceRate*): the
    cross-tabulation ignores rows missing exposure or outcome, and the three counters `_missing_e`,
    `_missing_d`, `_missing_ed` account for exactly the ignored rows (C07: `crosstab_filter`, `missing_counts`;
    `frame_eq_counts` there says the reported estimates are the count function of this cross-tabulation). -/
theorem measures_ignore_and_count (rows : List (Measures.MRow F)) (lvl : Nat) (dv : Bool) :
    Measures.cntED rows lvl dv = Measures.cntED (Measures.complete rows) lvl dv ∧
    Measures.missingED rows + Measures.missingE rows + Measures.missingD rows + (Measures.complete rows).length
      = rows.length :=
  ⟨P07.crosstab_filter rows lvl dv, P07.missing_counts rows⟩

/-! ### Non-vacuity -/

/-- 2 strata; rows 6-8 lack exposure / covariates / both+outcome; row 5 lacks the outcome only -/
def exRaw : List (Raw ℚ) :=
  [⟨0, some true, some 0, some 1, 1⟩, ⟨1, some true, some 0, some 0, 1⟩, ⟨2, some false, some 0, some 1, 1⟩,
   ⟨3, some true, some 1, some 1, 1⟩, ⟨4, some false, some 1, some 0, 1⟩, ⟨5, some false, some 1, none, 1⟩,
   ⟨6, none, some 0, some 1, 1⟩, ⟨7, some true, none, some 0, 1⟩, ⟨8, none, none, none, 1⟩,
   ⟨9, some false, some 1, some 1, 1⟩]

example : (checkInput false exRaw).map (·.i) = [0, 1, 2, 3, 4, 5, 9] ∧
    (checkInput true exRaw).map (·.i) = [0, 1, 2, 3, 4, 9] ∧
    (checkInput false exRaw).map (·.obs) = [true, true, true, true, true, false, true] ∧
    missFlag false exRaw = true ∧ missFlag true exRaw = false ∧
    missFlag false (completeCases exRaw) = false := by decide

example : Strata (checkInput false exRaw) [0, 1] ∧ Positivity (checkInput false exRaw) [0, 1] := by
  refine ⟨⟨by decide, by decide⟩, by decide, ?_⟩
  intro s hs a
  simp only [List.mem_cons, List.not_mem_nil, or_false] at hs
  rcases hs with rfl | rfl <;> cases a <;> simp [exRaw, checkInput, kept, Raw.covComplete, toRow, inCell]

/-- saturated fits of the retained rows: treated fractions 2/3 and 1/4; observed fractions (1 except 2/3 in
    the untreated cell of stratum 1) -/
example : PropFit (checkInput false exRaw) [0, 1] (fun s => if s = 0 then 2/3 else 1/4) ∧
    MissFit (checkInput false exRaw) [0, 1] (fun s a => if s = 1 ∧ a = false then 2/3 else 1) := by
  constructor
  · intro s hs; simp only [List.mem_cons, List.not_mem_nil, or_false] at hs
    rcases hs with rfl | rfl <;>
      norm_num [exRaw, checkInput, kept, Raw.covComplete, toRow, W, sumIf, sumBy, inStratum, inCellAll]
  · intro s hs a; simp only [List.mem_cons, List.not_mem_nil, or_false] at hs
    rcases hs with rfl | rfl <;> cases a <;>
      norm_num [exRaw, checkInput, kept, Raw.covComplete, toRow, W, sumIf, sumBy, inCell, inCellAll]

/-- the missing-outcome row counts in the target weights: stratum 1 weighs 4/7 (all retained rows), not 3/6
    (complete cases) -/
example : std (checkInput false exRaw) [0, 1] Tgt.pop.mem false = (3 * 1 + 4 * (1/2)) / 7 ∧
    std (checkInput true exRaw) [0, 1] Tgt.pop.mem false = (3 * 1 + 3 * (1/2)) / 6 := by
  constructor <;>
    norm_num [std, Ntgt, cellMean, exRaw, checkInput, kept, Raw.covComplete, Raw.complete, toRow, W, WY, sumIf,
      sumBy, inCell, inStratum, Tgt.mem]

end ZV.P10
