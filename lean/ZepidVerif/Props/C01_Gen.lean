/-
C01, tie to the source: the definitions regenerated on every run from the text of `IPTW.fit`,
`TimeFixedGFormula.fit` and `aipw_calculator` (`Gen/Fit.lean`) are the model the theorems of `Props/C01.lean` are
about.  Kept in a module of their own: other property modules import `Props/C01.lean` for its theorems about the
model and must not stop compiling when one of these generated definitions can no longer be produced.
-/
import ZepidVerif.Props.C01
import ZepidVerif.Lemmas.GformulaBridge
import ZepidVerif.Lemmas.AipwCalcBridge
set_option linter.unusedSectionVars false
set_option linter.unusedVariables false
namespace ZV.P01
open ZV ZV.Std

variable {F : Type} [Field F] [LinearOrder F] [IsStrictOrderedRing F] [Transc F]

/-- **Tie to the source (IPTW).**  The weight column handed to the marginal structural model, regenerated from the
    text of `IPTW.fit` on every run, is IPTW × IPMW × user weight — the row weight `ω r · r.w` that `hajek` applies
    with `ω = iptwOmega` (whose last factor is the missingness weight). -/
theorem iptw_final_weight_generated (hasIpmw hasWeight : Bool) (iptw ipmw : Row F → F) (r : Row F) :
    Gen.iptw_final_weight hasIpmw hasWeight iptw ipmw r
      = (iptw r * (if hasIpmw then ipmw r else 1)) * (if hasWeight then r.w else 1) := by
  cases hasIpmw <;> cases hasWeight <;> simp [Gen.iptw_final_weight]

/-- **Tie to the source.**  The marginal-mean lines of `TimeFixedGFormula.fit`, regenerated from their text
    on every run, compute the model `gformula` (when no row is lost to `dropna`; without a weight column all
    frequency weights are 1): so the generated code inherits `gformula_saturated`. -/
theorem gformula_generated (hasWeights : Bool) (t : Tgt) (l : List (Row F)) (pred : Row F → F) (a : Bool)
    (hw : hasWeights = false → ∀ r ∈ l, r.w = 1) :
    Gen.gformula_marginal hasWeights t.str l pred (fun _ => true) = gformula l (fun r _ => pred r) t.mem a :=
  gformula_marginal_eq hasWeights t l pred a hw

/-- **Tie to the source (AIPTW).**  `aipw_calculator`, regenerated from its text on every run (NaN outcomes skipped
    exactly as numpy's `nanmean` / NaN masks do), returns on data without missing outcomes the difference — or, for the
    ratio, the quotient — of the model's two pseudo-outcome means `aipw1`, `aipw0`, weighted or not. -/
theorem aipw_calc_generated (difference hasWeights : Bool) (nanv : F) (l : List (Row F)) (hobs : ∀ r ∈ l, r.obs = true)
    (hw : hasWeights = false → ∀ r ∈ l, r.w = 1) (py_a py_n pa1 pa0 : Row F → F) :
    let Q : Row F → Bool → F := fun r a => if a then py_a r else py_n r
    (Gen.aipw_calc difference hasWeights nanv l py_a py_n pa1 pa0).1
      = if difference then aipw1 l Q pa1 pa0 - aipw0 l Q pa1 pa0 else aipw1 l Q pa1 pa0 / aipw0 l Q pa1 pa0 :=
  aipw_calc_eq difference hasWeights nanv l hobs hw py_a py_n pa1 pa0

end ZV.P01
