/-
C16, tie to the source: the definitions regenerated on every run from the text of `AIPSW.fit` and `IPSW.fit`
(`Gen/Fit.lean`) compute the model `aipsw` / `ipsw` the theorems of `Props/C16.lean` are about.
-/
import ZepidVerif.Props.C16
import ZepidVerif.Gen.Fit
set_option linter.unusedSectionVars false
set_option linter.unusedVariables false
namespace ZV.P16
open ZV ZV.Std

variable {F : Type} [Field F] [LinearOrder F] [IsStrictOrderedRing F] [Transc F]

/-- **Tie to the source.**  The definition regenerated from the text of `AIPSW.fit` on every run computes
    exactly the model `aipsw` the theorems above are about (no frequency-weight column: AIPSW refuses one):
    its two outputs are the difference and the ratio of the two arms. -/
theorem aipsw_fit_generated (generalize hasIptw : Bool) (l : List (Row F)) (hw : ∀ r ∈ l, r.w = 1)
    (ipsw iptw q1 q0 : Row F → F) :
    let Q : Row F → Bool → F := fun r a => if a then q1 r else q0 r
    let ω : Row F → F := fun r => if hasIptw then ipsw r * iptw r else ipsw r
    Gen.aipsw_fit generalize false hasIptw l ipsw iptw q1 q0
      = (aipsw generalize l Q ω true - aipsw generalize l Q ω false,
         aipsw generalize l Q ω true / aipsw generalize l Q ω false) := by
  intro Q ω
  have e1 : aipsw generalize l Q ω true = aipsw generalize l (fun r _ => q1 r) ω true := rfl
  have e0 : aipsw generalize l Q ω false = aipsw generalize l (fun r _ => q0 r) ω false := rfl
  rw [e1, e0, aipsw_arm_eq generalize l hw ω q1 true, aipsw_arm_eq generalize l hw ω q0 false]
  cases generalize <;> cases hasIptw <;>
    simp [Gen.aipsw_fit, ω, add_comm]

/-- **Tie to the source (IPSW).**  The definition regenerated from the text of `IPSW.fit` returns the difference
    and ratio of the model's two arm means `ipsw` (weights `ipsw·iptw`, times the frequency weight when given). -/
theorem ipsw_fit_generated (hasWeight hasIptw : Bool) (l : List (Row F)) (hw : hasWeight = false → ∀ r ∈ l, r.w = 1)
    (sw tw : Row F → F) :
    let ω : Row F → F := fun r => if hasIptw then sw r * tw r else sw r
    Gen.ipsw_fit hasWeight hasIptw l sw tw = (ipsw l ω true - ipsw l ω false, ipsw l ω true / ipsw l ω false) := by
  intro ω
  rw [ipsw_arm_eq l ω true, ipsw_arm_eq l ω false]
  cases hasWeight
  · have hw' := hw rfl
    have e : ∀ (a : Bool) (f g : Row F → F), (∀ r ∈ l, f r = g r) →
        sumBy (fun r => if (r.obs = true ∧ r.a = a) then f r else 0) l
          = sumBy (fun r => if (r.obs = true ∧ r.a = a) then g r else 0) l := by
      intro a f g h; apply sumBy_congr; intro r hr; rw [h r hr]
    cases hasIptw <;> simp only [Gen.ipsw_fit, ω] <;> simp <;> constructor <;> congr 1 <;> congr 1 <;>
      apply sumBy_congr <;> intro r hr <;> simp [hw' r hr]
  · cases hasIptw <;> simp [Gen.ipsw_fit, ω]

end ZV.P16
