/-
C15 — G-estimation returns the root of its estimating equations.

Subject: `ZV.Snm` (Model/Snm.lean), the model of `GEstimationSNM._closed_form_solver_` that the native
driver executes at `Rat` (op `snm_closed`, `snm_esteq`, `snm_strat`).  Everything is stated for an arbitrary
field `F` (the executed `Rat` instance is one), any number of rows, any weights, any fitted values.

External calls that enter as parameters / hypotheses:
  * the exposure model's fitted values `pi_i` (statsmodels GLM): arbitrary per-row values; only
    `one_param_saturated` assumes something of them (the score equation of a saturated model = cell fit);
  * `np.linalg.solve`: modelled by Cramer's rule for p = 1, 2, 3 (`cramer_solves` shows the modelled
    solution solves the linear system; `closed_form_root` is stated for *any* solution of the system and any p);
  * Nelder–Mead (search solver): its result is an approximate root; `root_unique` shows that an exact root is
    the closed form, so agreement of the two solvers is bounded by the optimiser's tolerance (numerical, gate D).
-/
import ZepidVerif.Model.Snm
import ZepidVerif.Lemmas.Snm
import Mathlib.Algebra.Order.Field.Basic
import Mathlib.Algebra.Order.Field.Rat
import Mathlib.Tactic.FieldSimp
import Mathlib.Tactic.Ring
import Mathlib.Tactic.Linarith
import Mathlib.Tactic.LinearCombination
import Mathlib.Tactic.NormNum
set_option linter.unusedSectionVars false
set_option linter.unusedVariables false
namespace ZV.P15
open ZV.Snm ZV.L

variable {F : Type} [Field F] [DecidableEq F]

/-! ### The estimating function is affine in psi, with exactly the matrices the code assembles -/

/-- `E_j(psi) = rha_j - (lhm psi)_j` for every number of parameters `p`, every coordinate `j`, given a
    binary exposure (`A*A = A`).  `lhm`, `rha` are what `_closed_form_solver_` assembles; `estEq` is the weighted
    sample sum of `(A - pi) * V_j * H(psi)`. -/
theorem lhm_linear (rows : List (SRow F)) (p : Nat) (psi : List F) (j : Nat)
    (hA : ∀ r ∈ rows, r.a * r.a = r.a) :
    estEq rows p psi j = rha rows j - lhmApply rows p psi j := by
  unfold estEq rha lhmApply lhm
  have h1 : sumBy (fun k => sumBy (fun r => snmCol r j * dW r * snmCol r k) rows * nth psi k) (List.range p)
      = sumBy (fun r => sumBy (fun k => snmCol r j * dW r * snmCol r k * nth psi k) (List.range p)) rows := by
    rw [sumBy_comm]
    apply sumBy_congr; intro k _
    rw [sumBy_mul_right]
  rw [h1, ← sumBy_sub]
  apply sumBy_congr
  intro r hr
  have ha := hA r hr
  unfold hpsi
  rw [mul_sub, ← sumBy_mul_left]
  congr 1
  · unfold yCol; ring
  · apply sumBy_congr; intro k _
    unfold snmCol
    have : r.a * nth r.v j * dW r * (r.a * nth r.v k) * nth psi k
        = (r.a * r.a) * (nth r.v j * dW r * nth r.v k * nth psi k) := by ring
    rw [this, ha]; ring

/-- **closed-form root** (any p): a solution of the linear system `lhm psi = rha` makes every estimating
    equation exactly zero. -/
theorem closed_form_root (rows : List (SRow F)) (p : Nat) (psi : List F)
    (hA : ∀ r ∈ rows, r.a * r.a = r.a)
    (hsolve : ∀ j, j < p → lhmApply rows p psi j = rha rows j) :
    ∀ j, j < p → estEq rows p psi j = 0 := by
  intro j hj
  rw [lhm_linear rows p psi j hA, hsolve j hj, sub_self]

/-- conversely a root of the estimating equations solves the linear system (used by `root_unique`) -/
theorem root_solves (rows : List (SRow F)) (p : Nat) (psi : List F)
    (hA : ∀ r ∈ rows, r.a * r.a = r.a)
    (hroot : ∀ j, j < p → estEq rows p psi j = 0) :
    ∀ j, j < p → lhmApply rows p psi j = rha rows j := by
  intro j hj
  have := hroot j hj
  rw [lhm_linear rows p psi j hA] at this
  exact (sub_eq_zero.mp this).symm

/-! ### Cramer's rule (the model of `np.linalg.solve` for 1–3 parameters) solves the system -/

/-- whenever the modelled `np.linalg.solve` returns (non-singular `lhm`, 1–3 parameters), its value solves
    `lhm psi = rha` -/
theorem cramer_solves (rows : List (SRow F)) (p : Nat) (psi : List F)
    (h : closedForm rows p = some psi) :
    psi.length = p ∧ ∀ j, j < p → lhmApply rows p psi j = rha rows j := by
  unfold closedForm at h
  simp only [Nat.cast_zero] at h
  split_ifs at h with hd
  match p, h, hd with
  | 1, h, hd =>
    simp only [Option.some.injEq] at h; subst h
    have hdef : detLhm rows 1 = lhm rows 0 0 := rfl
    refine ⟨rfl, ?_⟩
    intro j hj
    obtain rfl : j = 0 := by omega
    simp only [lhmApply, range1, nth0]
    generalize detLhm rows 1 = D at hd hdef ⊢
    field_simp
    rw [hdef]; ring
  | 2, h, hd =>
    simp only [Option.some.injEq] at h; subst h
    have hdef : detLhm rows 2 = lhm rows 0 0 * lhm rows 1 1 - lhm rows 0 1 * lhm rows 1 0 := rfl
    refine ⟨rfl, ?_⟩
    intro j hj
    have : j = 0 ∨ j = 1 := by omega
    rcases this with rfl | rfl <;>
    · simp only [lhmApply, range2, nth0, nth1, det2]
      generalize detLhm rows 2 = D at hd hdef ⊢
      field_simp
      rw [hdef]
      ring
  | 3, h, hd =>
    simp only [Option.some.injEq] at h; subst h
    have hdef : detLhm rows 3 = lhm rows 0 0 * (lhm rows 1 1 * lhm rows 2 2 - lhm rows 1 2 * lhm rows 2 1)
        - lhm rows 0 1 * (lhm rows 1 0 * lhm rows 2 2 - lhm rows 1 2 * lhm rows 2 0)
        + lhm rows 0 2 * (lhm rows 1 0 * lhm rows 2 1 - lhm rows 1 1 * lhm rows 2 0) := rfl
    refine ⟨rfl, ?_⟩
    intro j hj
    have : j = 0 ∨ j = 1 ∨ j = 2 := by omega
    rcases this with rfl | rfl | rfl <;>
    · simp only [lhmApply, range3, nth0, nth1, nth2, det3]
      generalize detLhm rows 3 = D at hd hdef ⊢
      field_simp
      rw [hdef]
      ring

/-- **the reported closed-form psi is an exact root**: for a binary exposure, any weights and any fitted
    values, the value of the modelled `_closed_form_solver_` makes all `p` estimating equations zero. -/
theorem closed_form_is_root (rows : List (SRow F)) (p : Nat) (psi : List F)
    (hA : ∀ r ∈ rows, r.a * r.a = r.a) (h : closedForm rows p = some psi) :
    ∀ j, j < p → estEq rows p psi j = 0 :=
  closed_form_root rows p psi hA (cramer_solves rows p psi h).2

/-- the solver fails (LinAlgError) exactly when the matrix is singular (p = 1, 2, 3) -/
theorem closed_form_none_iff (rows : List (SRow F)) (p : Nat) (hp : p = 1 ∨ p = 2 ∨ p = 3) :
    closedForm rows p = none ↔ detLhm rows p = 0 := by
  unfold closedForm
  simp only [Nat.cast_zero]
  rcases hp with rfl | rfl | rfl <;> (split_ifs with hd <;> simp [hd])

/-! ### Uniqueness: any exact root is the closed form (so the search solver's limit point is) -/

/-- p = 1, 2, 3: if `det lhm ≠ 0`, every exact root `psi'` of the estimating equations (of length `p`) *is*
    the closed-form solution. -/
theorem root_unique (rows : List (SRow F)) (p : Nat) (psi' : List F)
    (hA : ∀ r ∈ rows, r.a * r.a = r.a) (hp : p = 1 ∨ p = 2 ∨ p = 3) (hlen : psi'.length = p)
    (hdet : detLhm rows p ≠ 0)
    (hroot : ∀ j, j < p → estEq rows p psi' j = 0) :
    closedForm rows p = some psi' := by
  have hs := root_solves rows p psi' hA hroot
  unfold closedForm
  simp only [Nat.cast_zero, hdet, if_false]
  rcases hp with rfl | rfl | rfl
  · match psi', hlen with
    | [x], _ =>
      have e0 := hs 0 (by omega)
      simp only [lhmApply, range1, nth0] at e0
      have hdef : detLhm rows 1 = lhm rows 0 0 := rfl
      rw [← e0]
      generalize detLhm rows 1 = D at hdet hdef ⊢
      have : lhm rows 0 0 * x / D = x := by
        field_simp; rw [hdef]; ring
      simp only [this]
  · match psi', hlen with
    | [x, y], _ =>
      have e0 := hs 0 (by omega)
      have e1 := hs 1 (by omega)
      simp only [lhmApply, range2, nth0, nth1] at e0 e1
      have hdef : detLhm rows 2 = lhm rows 0 0 * lhm rows 1 1 - lhm rows 0 1 * lhm rows 1 0 := rfl
      simp only [det2]
      rw [← e0, ← e1]
      generalize detLhm rows 2 = D at hdet hdef ⊢
      have h0 : ((lhm rows 0 0 * x + lhm rows 0 1 * y) * lhm rows 1 1
          - lhm rows 0 1 * (lhm rows 1 0 * x + lhm rows 1 1 * y)) / D = x := by
        field_simp; rw [hdef]; ring
      have h1 : (lhm rows 0 0 * (lhm rows 1 0 * x + lhm rows 1 1 * y)
          - (lhm rows 0 0 * x + lhm rows 0 1 * y) * lhm rows 1 0) / D = y := by
        field_simp; rw [hdef]; ring
      simp only [h0, h1]
  · match psi', hlen with
    | [x, y, z], _ =>
      have e0 := hs 0 (by omega)
      have e1 := hs 1 (by omega)
      have e2 := hs 2 (by omega)
      simp only [lhmApply, range3, nth0, nth1, nth2] at e0 e1 e2
      have hdef : detLhm rows 3 = lhm rows 0 0 * (lhm rows 1 1 * lhm rows 2 2 - lhm rows 1 2 * lhm rows 2 1)
          - lhm rows 0 1 * (lhm rows 1 0 * lhm rows 2 2 - lhm rows 1 2 * lhm rows 2 0)
          + lhm rows 0 2 * (lhm rows 1 0 * lhm rows 2 1 - lhm rows 1 1 * lhm rows 2 0) := rfl
      simp only [det3]
      rw [← e0, ← e1, ← e2]
      generalize detLhm rows 3 = D at hdet hdef ⊢
      generalize lhm rows 0 0 = a at *
      generalize lhm rows 0 1 = b at *
      generalize lhm rows 0 2 = c at *
      generalize lhm rows 1 0 = d at *
      generalize lhm rows 1 1 = e at *
      generalize lhm rows 1 2 = f at *
      generalize lhm rows 2 0 = g at *
      generalize lhm rows 2 1 = h at *
      generalize lhm rows 2 2 = i at *
      have h0 : ((a * x + (b * y + c * z)) * (e * i - f * h) - b * ((d * x + (e * y + f * z)) * i
          - f * (g * x + (h * y + i * z))) + c * ((d * x + (e * y + f * z)) * h - e * (g * x + (h * y + i * z)))) / D
          = x := by
        field_simp; rw [hdef]; ring
      have h1 : (a * ((d * x + (e * y + f * z)) * i - f * (g * x + (h * y + i * z)))
          - (a * x + (b * y + c * z)) * (d * i - f * g)
          + c * (d * (g * x + (h * y + i * z)) - (d * x + (e * y + f * z)) * g)) / D = y := by
        field_simp; rw [hdef]; ring
      have h2 : (a * (e * (g * x + (h * y + i * z)) - (d * x + (e * y + f * z)) * h)
          - b * (d * (g * x + (h * y + i * z)) - (d * x + (e * y + f * z)) * g)
          + (a * x + (b * y + c * z)) * (d * h - e * g)) / D = z := by
        field_simp; rw [hdef]; ring
      simp only [h0, h1, h2]

/-- any p: if `lhm` is injective on parameter vectors, two roots of the estimating equations coincide. -/
theorem root_unique_general (rows : List (SRow F)) (p : Nat) (psi psi' : List F)
    (hA : ∀ r ∈ rows, r.a * r.a = r.a)
    (hinj : ∀ u u' : List F, (∀ j, j < p → lhmApply rows p u j = lhmApply rows p u' j) →
      ∀ k, k < p → nth u k = nth u' k)
    (h : ∀ j, j < p → estEq rows p psi j = 0) (h' : ∀ j, j < p → estEq rows p psi' j = 0) :
    ∀ k, k < p → nth psi k = nth psi' k := by
  apply hinj
  intro j hj
  rw [root_solves rows p psi hA h j hj, root_solves rows p psi' hA h' j hj]

/-! ### One parameter, saturated exposure model: weighted average of stratum mean differences -/

/-- **stratified closed form.**  One-parameter SNM (`V = [1]`), data that can be arranged (in any order of rows)
    into strata on each of which the fitted exposure probability is a constant `p_s` satisfying the saturated
    model's score equation `Σ_{i∈s} w_i (A_i − p_s) = 0`, both arms present in every stratum.  Then
    psi `= Σ_s n_s p_s (1−p_s) (ȳ_s1 − ȳ_s0) / Σ_s n_s p_s (1−p_s)` (`n_s`, `ȳ` weighted when weights are in use). -/
theorem one_param_saturated (rows : List (SRow F)) (strata : List (F × List (SRow F)))
    (hperm : rows.Perm (strata.flatMap (·.2)))
    (hrow : ∀ s ∈ strata, ∀ r ∈ s.2, r.pi = s.1 ∧ r.a * r.a = r.a ∧ nth r.v 0 = 1)
    (hfit : ∀ s ∈ strata, sumBy (fun r => r.w * (r.a - s.1)) s.2 = 0)
    (harms : ∀ s ∈ strata, wTrt s.2 ≠ 0 ∧ wUnt s.2 ≠ 0)
    (hden : sumBy (fun s => wTot s.2 * s.1 * (((1 : Nat) : F) - s.1)) strata ≠ 0) :
    closedForm rows 1 = some [stratifiedPsi strata] := by
  have hS : lhm rows 0 0 = sumBy (fun s => wTot s.2 * s.1 * (((1 : Nat) : F) - s.1)) strata := by
    unfold lhm
    rw [sumBy_perm _ hperm, sumBy_flatMap]
    apply sumBy_congr; intro s hs
    rw [stratum_lhm s.1 s.2 (hrow s hs) (hfit s hs)]
    simp only [Nat.cast_one]
  have hb : rha rows 0 = sumBy (fun s => wTot s.2 * s.1 * (((1 : Nat) : F) - s.1) * (yTrt s.2 - yUnt s.2)) strata := by
    unfold rha
    rw [sumBy_perm _ hperm, sumBy_flatMap]
    apply sumBy_congr; intro s hs
    rw [stratum_rha s.1 s.2 (hrow s hs) (hfit s hs) (harms s hs).1 (harms s hs).2]
    simp only [Nat.cast_one]
  unfold closedForm
  simp only [detLhm, Nat.cast_zero]
  rw [hS, hb]
  simp only [hden, if_false]
  rfl

/-! ### Non-vacuity: concrete rational data sets -/

/-- 6 rows, two strata (pi = 1/2 and 1/3 are the stratum proportions treated), V = [1, v] -/
def exRows : List (SRow ℚ) :=
  [⟨1, 5, 1/2, 1, [1, 0]⟩, ⟨0, 2, 1/2, 1, [1, 0]⟩,
   ⟨1, 7, 1/3, 1, [1, 1]⟩, ⟨0, 3, 1/3, 1, [1, 1]⟩, ⟨0, 4, 1/3, 1, [1, 1]⟩,
   ⟨1, 6, 2/3, 2, [1, 2]⟩, ⟨0, 1, 2/3, 2, [1, 2]⟩]

example : ∀ r ∈ exRows, r.a * r.a = r.a := by decide +kernel

/-- the hypotheses of `closed_form_is_root` are met with a non-trivial answer (p = 1 and p = 2) -/
example : closedForm exRows 1 = some [39/11] := by
  norm_num [closedForm, detLhm, lhm, rha, sumBy, snmCol, yCol, dW, nth, exRows]
example : closedForm exRows 2 = some [3, 1/2] ∧ estEq exRows 2 [3, 1/2] 0 = 0 ∧
    estEq exRows 2 [3, 1/2] 1 = 0 := by
  norm_num [closedForm, detLhm, det2, lhm, rha, estEq, hpsi, sumBy, snmCol, yCol, dW, nth, exRows, List.range_succ]

/-- `closed_form_none_iff`: a singular system (all fitted values equal the exposure) is rejected -/
example : closedForm [(⟨1, 5, 1, 1, [1]⟩ : SRow ℚ), ⟨0, 2, 0, 1, [1]⟩] 1 = none := by
  norm_num [closedForm, detLhm, lhm, sumBy, snmCol, dW, nth]

/-- the hypotheses of `one_param_saturated` are met: two strata with both arms, cell-fitted pi -/
def exStrata : List (ℚ × List (SRow ℚ)) :=
  [(1/2, [⟨1, 5, 1/2, 1, [1]⟩, ⟨0, 2, 1/2, 1, [1]⟩]),
   (1/3, [⟨1, 7, 1/3, 1, [1]⟩, ⟨0, 3, 1/3, 1, [1]⟩, ⟨0, 4, 1/3, 1, [1]⟩])]

example : (∀ s ∈ exStrata, ∀ r ∈ s.2, r.pi = s.1 ∧ r.a * r.a = r.a ∧ nth r.v 0 = 1) ∧
    (∀ s ∈ exStrata, sumBy (fun r => r.w * (r.a - s.1)) s.2 = 0) ∧
    (∀ s ∈ exStrata, wTrt s.2 ≠ 0 ∧ wUnt s.2 ≠ 0) ∧
    sumBy (fun s => wTot s.2 * s.1 * (((1 : Nat) : ℚ) - s.1)) exStrata ≠ 0 ∧
    stratifiedPsi exStrata = 23/7 := by
  norm_num [exStrata, sumBy, nth, wTrt, wUnt, wTot, yTrt, yUnt, stratifiedPsi]

/-- `one_param_saturated` applied: the closed form on the concatenated strata is the stratified average 23/7 -/
example : closedForm (exStrata.flatMap (·.2)) 1 = some [23/7] := by
  have h := one_param_saturated (exStrata.flatMap (·.2)) exStrata (List.Perm.refl _)
    (by norm_num [exStrata, nth]) (by norm_num [exStrata, sumBy]) (by norm_num [exStrata, sumBy, wTrt, wUnt])
    (by norm_num [exStrata, sumBy, wTot])
  rw [h]
  norm_num [exStrata, sumBy, wTrt, wUnt, wTot, yTrt, yUnt, stratifiedPsi]

/-- `root_unique` applied: psi = 39/11 is a root for p = 1, hence it is the closed form -/
example : closedForm exRows 1 = some [39/11] :=
  root_unique exRows 1 [39/11] (by decide +kernel) (Or.inl rfl) rfl
    (by norm_num [detLhm, lhm, sumBy, snmCol, dW, nth, exRows])
    (by intro j hj; obtain rfl : j = 0 := by omega
        norm_num [estEq, hpsi, sumBy, snmCol, dW, nth, exRows, List.range_succ])

/-! ### the H(psi) terms of the search solver (round 4)

`_grid_search_` adds to the exposure model, for every term of the structural nested model, the term in which the
treatment's name is replaced by the scratch column `H_psi` (`hTerm`, factor by factor).  `hterm_column`: whatever
the POSITION of the treatment in the product (`A:V`, `V:A`) and whatever the other factors are CALLED (a modifier
`AGE` beside the treatment `A`), the column patsy builds for the rewritten term is `H(psi)` times the value of the
term's effect modifiers -- the columns `H·V_j` whose coefficients the search solver drives to zero, i.e. the
estimating equations of the closed form (`snm_search_zero_is_closed_form`, Props/C15_Gen).  Hypotheses: the
treatment occurs once in the term, and no column of the data is called like the scratch column. -/

theorem hTerm_of_not_mem (treat h : Nat) (l : List Nat) (hn : treat ∉ l) : hTerm treat h l = l := by
  induction l with
  | nil => rfl
  | cons f t ih =>
    have hf : f ≠ treat := fun e => hn (by simp [e])
    have ht : treat ∉ t := fun m => hn (List.mem_cons_of_mem _ m)
    have := ih ht
    simp only [hTerm, List.map_cons, if_neg hf] at this ⊢
    rw [this]

theorem termVal_envH_of_not_mem (env : Nat → F) (h : Nat) (H : F) (l : List Nat) (hn : h ∉ l) :
    termVal (envH env h H) l = termVal env l := by
  induction l with
  | nil => rfl
  | cons f t ih =>
    have hf : f ≠ h := fun e => hn (by simp [e])
    have ht : h ∉ t := fun m => hn (List.mem_cons_of_mem _ m)
    have := ih ht
    simp only [termVal, List.foldr_cons, envH, if_neg hf] at this ⊢
    rw [this]

/-- **hterm_column** — the column of the rewritten term is `H(psi)` × the term's effect modifiers, wherever the
    treatment stands in the product and whatever the modifiers are called -/
theorem hterm_column (env : Nat → F) (treat h : Nat) (H : F) (term : List Nat)
    (hfresh : h ∉ term) (honce : term.count treat = 1) :
    termVal (envH env h H) (hTerm treat h term) = H * termVal env (modifiers treat term) := by
  induction term with
  | nil => simp at honce
  | cons f t ih =>
    have hfh : f ≠ h := fun e => hfresh (by simp [e])
    have hth : h ∉ t := fun m => hfresh (List.mem_cons_of_mem _ m)
    by_cases hf : f = treat
    · subst hf
      have h0 : t.count f = 0 := by simpa [List.count_cons_self] using honce
      have hnt : f ∉ t := List.count_eq_zero.mp h0
      have e1 : hTerm f h (f :: t) = h :: t := by
        have := hTerm_of_not_mem f h t hnt
        simp only [hTerm, List.map_cons, if_true] at this ⊢
        rw [this]
      have e2 : modifiers f (f :: t) = t := by simp [modifiers]
      rw [e1, e2]
      have := termVal_envH_of_not_mem env h H t hth
      simp only [termVal, List.foldr_cons, envH, if_true] at this ⊢
      rw [this]
    · have h1 : t.count treat = 1 := by
        rw [List.count_cons_of_ne (fun e => hf e)] at honce; exact honce
      have e1 : hTerm treat h (f :: t) = f :: hTerm treat h t := by simp [hTerm, hf]
      have e2 : modifiers treat (f :: t) = f :: modifiers treat t := by
        simp only [modifiers]; rw [List.erase_cons_tail]; simpa using hf
      rw [e1, e2]
      have := ih hth h1
      simp only [termVal, List.foldr_cons, envH, if_neg hfh] at this ⊢
      rw [this]; ring

/-- **hterm_keeps_other_names** — a factor that is not the treatment is left as it is (in particular a modifier
    whose name merely *contains* the treatment's name: names are compared whole) -/
theorem hterm_keeps_other_names (treat h f : Nat) (term : List Nat) (hf : f ≠ treat) (hm : f ∈ term) :
    f ∈ hTerm treat h term := by
  simp only [hTerm, List.mem_map]
  exact ⟨f, hm, by simp [hf]⟩

/-- **hterm_position_free** — the rewritten term has the same factors whichever way the product is written -/
theorem hterm_position_free (treat h : Nat) (t₁ t₂ : List Nat) (hp : t₁.Perm t₂) :
    (hTerm treat h t₁).Perm (hTerm treat h t₂) := hp.map _

/-- the hypotheses are met by `V:A` (treatment 1 written second, modifier 2, scratch column 9): the column is
    `H · V`, the same as for `A:V` -/
example : termVal (envH (fun n => if n = 2 then (7 : ℚ) else 0) 9 (5 : ℚ)) (hTerm 1 9 [2, 1]) = 5 * 7 ∧
    termVal (envH (fun n => if n = 2 then (7 : ℚ) else 0) 9 (5 : ℚ)) (hTerm 1 9 [1, 2]) = 5 * 7 ∧
    (9 ∉ [2, 1]) ∧ [2, 1].count 1 = 1 ∧ modifiers 1 [2, 1] = [2] := by
  refine ⟨?_, ?_, by decide, by decide, by decide⟩ <;> norm_num [termVal, envH, hTerm]

end ZV.P15
