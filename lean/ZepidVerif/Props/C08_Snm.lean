/-
C08, tie to the source (GEstimationSNM): the matrix `lhm` and the vector `rha` regenerated on every run from the
text of `GEstimationSNM._closed_form_solver_` (`Gen/Snm.lean`) are the model's `SnmR.lhm` / `SnmR.rha`, so the
residual `SnmR.resid` of the linear system — the subject of `snm_affine`, `snm_flip`, `perm_invariant_snm`
(Props/C08.lean) — is the residual of the regenerated system.
-/
import ZepidVerif.Props.C08
import ZepidVerif.Gen.Snm
set_option linter.unusedSectionVars false
set_option linter.unusedVariables false
namespace ZV.P08
open ZV

variable {F : Type} [Field F] [LinearOrder F] [IsStrictOrderedRing F] [Transc F]

/-- **Tie to the source.**  SNM design columns `A·V_c`, outcome design `Y·V_c`, weight column `w`
    (frequency × missingness; all 1 when there is none): the regenerated `lhm`, `rha` are the model's. -/
theorem snm_generated (l : List (SnmR.SRow F)) :
    (∀ k j, Gen.snm_closed_lhm (fun r => SnmR.ind r.a) (fun r => r.p) (fun r c => SnmR.ind r.a * r.v c)
        (fun r c => r.y * r.v c) (some fun r => r.w) l k j = SnmR.lhm l k j) ∧
    (∀ k, Gen.snm_closed_rha (fun r => SnmR.ind r.a) (fun r => r.p) (fun r c => SnmR.ind r.a * r.v c)
        (fun r c => r.y * r.v c) (some fun r => r.w) l k = SnmR.rha l k) := by
  constructor
  · intro k j
    simp only [Gen.snm_closed_lhm, SnmR.lhm, SnmR.dres]
    apply sumBy_congr; intro r _; ring
  · intro k
    simp only [Gen.snm_closed_rha, SnmR.rha, SnmR.dres]
    apply sumBy_congr; intro r _; ring

/-- the residual `lhm·ψ − rha` that `snm_affine` / `snm_flip` speak about is the residual of the regenerated system -/
theorem snm_resid_generated (l : List (SnmR.SRow F)) (D : Nat) (ψ : Nat → F) (k : Nat) :
    SnmR.resid l D ψ k
      = sumBy (fun j => Gen.snm_closed_lhm (fun r => SnmR.ind r.a) (fun r => r.p) (fun r c => SnmR.ind r.a * r.v c)
            (fun r c => r.y * r.v c) (some fun r => r.w) l k j * ψ j) (List.range D)
        - Gen.snm_closed_rha (fun r => SnmR.ind r.a) (fun r => r.p) (fun r c => SnmR.ind r.a * r.v c)
            (fun r c => r.y * r.v c) (some fun r => r.w) l k := by
  unfold SnmR.resid
  rw [(snm_generated l).2 k]
  congr 1
  apply sumBy_congr; intro j _
  rw [(snm_generated l).1 k j]

local instance instTQ_C08Snm : Transc ℚ := ⟨id, id, id⟩

/-- non-vacuity: two rows, one parameter; the regenerated `lhm` entry is the model's (= 1/2·… computed) -/
example :
    let l : List (SnmR.SRow ℚ) := [⟨true, 5, 2, 1/2, fun _ => 1⟩, ⟨false, 2, 1, 1/2, fun _ => 1⟩]
    Gen.snm_closed_lhm (fun r => SnmR.ind r.a) (fun r => r.p) (fun r c => SnmR.ind r.a * r.v c)
        (fun r c => r.y * r.v c) (some fun r => r.w) l 0 0 = 1 ∧ SnmR.lhm l 0 0 = 1 := by
  norm_num [Gen.snm_closed_lhm, SnmR.lhm, SnmR.dres, SnmR.ind, sumBy]

end ZV.P08
