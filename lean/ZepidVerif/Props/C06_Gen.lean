/-
C06, tie to the source of the influence-curve variance estimators of the cross-fit TMLE classes and of AIPTW:
`crossfit.tmle_calculator` (per measure: the influence value of one row of a split, the point estimate, the pooling
line) is regenerated on every run into `Gen/Xfit.lean`, `aipw_calculator` into `Gen/Fit.lean`.  The theorems below
identify what the code computes with the model's formulas — including the two formulas recorded as known findings
(F15 `icLogRRXfit`, F16 `icLogRRAipw`): the model of a finding is thereby pinned to the text of the code that has it.
-/
import ZepidVerif.Props.C06
import ZepidVerif.Gen.Xfit
import ZepidVerif.Gen.Fit
set_option linter.unusedSectionVars false
set_option linter.unusedVariables false
namespace ZV.P06
open ZV ZV.Gen ZV.Ci

variable {F : Type} [Field F] [LinearOrder F] [IsStrictOrderedRing F] [Transc F]

/-- cross-fit TMLE, risk difference / ATE: the influence value is the efficient one,
    `H(A,W)(Y − Q*_A) + (Q*_1 − Q*_0) − ψ` -/
theorem xfit_ic_rd_generated (est haw y qa q1 q0 : F) :
    tmle_calc_ic_rd est haw y qa q1 q0 = haw * (y - qa) + (q1 - q0) - est := rfl

/-- cross-fit TMLE, risk ratio: the generated influence value is the model's `icLogRRXfit` (known finding F15) with
    residual parts `r1 = H1·(Y − Q*_A)`, `r0 = −H0·(Y − Q*_A)` -/
theorem xfit_ic_rr_generated (m1 m0 h1 h0 y qa q1 q0 : F) :
    tmle_calc_ic_rr m1 m0 h1 h0 y qa q1 q0 = icLogRRXfit m1 m0 (h1 * (y - qa)) (-1 * h0 * (y - qa)) q1 q0 := by
  unfold tmle_calc_ic_rr icLogRRXfit
  simp only [Nat.cast_one]
  ring

/-- cross-fit TMLE, odds ratio: the generated influence value is the efficient influence value of log OR,
    `(r1 + Q*_1 − m1)/(m1(1−m1)) − (r0 + Q*_0 − m0)/(m0(1−m0))`, plus a constant that does not depend on the row
    (so `np.var` of it is the variance of the efficient influence values) -/
theorem xfit_ic_or_generated (m1 m0 h1 h0 y qa q1 q0 : F) :
    tmle_calc_ic_or m1 m0 h1 h0 y qa q1 q0
      = ((h1 * (y - qa) + q1 - m1) / (m1 * (1 - m1)) - (-1 * h0 * (y - qa) + q0 - m0) / (m0 * (1 - m0)))
        + (m1 / (m1 * (1 - m1)) - m0 / (m0 * (1 - m0))) := by
  unfold tmle_calc_ic_or
  simp only [Nat.cast_one]
  ring

/-- the point estimates: ratio of the mean targeted risks, ratio of their odds; the reported variance is the mean of
    the per-split variances over the number of all rows -/
theorem xfit_estimates_generated (M1 M0 mv n : F) :
    tmle_calc_est_rr M1 M0 = M1 / M0 ∧
    tmle_calc_est_or M1 M0 = (M1 / (1 - M1)) / (M0 / (1 - M0)) ∧
    tmle_calc_var mv n = mv / n := by
  refine ⟨rfl, ?_, rfl⟩
  simp only [tmle_calc_est_or, Nat.cast_one]

/-- **AIPTW, risk ratio (unweighted, `splits=None`)**: the variance `aipw_calculator` returns is
    `np.nanvar(ic, ddof=1) / n` of the model's `icLogRRAipw` (known finding F16) evaluated per row, with `m1`, `m0` the
    means of the two prediction vectors and residual parts `a(y − Q_A)/g1`, `(1−a)(y − Q_A)/g0` -/
theorem aipw_calc_ratio_var_generated (nanv : F) (l : List (Std.Row F)) (py_a py_n pa1 pa0 : Std.Row F → F) :
    let m1 := sumBy py_a l / (l.length : F)
    let m0 := sumBy py_n l / (l.length : F)
    (aipw_calc false false nanv l py_a py_n pa1 pa0).2
      = nanvar1By (fun r => r.obs)
          (fun r => icLogRRAipw m1 m0
            ((if r.a then (r.y - py_a r) else 0) / pa1 r) ((if r.a then 0 else (r.y - py_n r)) / pa0 r)
            (py_a r) (py_n r)) l / (l.length : F) := by
  intro m1 m0
  have hd : (fun r : Std.Row F => decide (r.obs = true ∧ r.obs = true)) = (fun r => r.obs) := by
    funext r; cases r.obs <;> simp
  simp only [aipw_calc, Bool.false_eq_true, if_false, if_true, reduceIte, hd]
  have hf : ∀ r : Std.Row F,
      ((if r.a = true then ((1 : Nat) : F) else ((0 : Nat) : F)) *
            (r.y - ((if r.a = true then ((1 : Nat) : F) else ((0 : Nat) : F)) * py_a r +
              (((1 : Nat) : F) - if r.a = true then ((1 : Nat) : F) else ((0 : Nat) : F)) * py_n r)) /
          (sumBy (fun r => py_a r) l / ((l.length : Nat) : F) * pa1 r) +
        (py_a r - sumBy (fun r => py_a r) l / ((l.length : Nat) : F)) -
        (((1 : Nat) : F) - if r.a = true then ((1 : Nat) : F) else ((0 : Nat) : F)) *
            (r.y - ((if r.a = true then ((1 : Nat) : F) else ((0 : Nat) : F)) * py_a r +
              (((1 : Nat) : F) - if r.a = true then ((1 : Nat) : F) else ((0 : Nat) : F)) * py_n r)) /
          (sumBy (fun r => py_n r) l / ((l.length : Nat) : F) * pa0 r) +
        (py_n r - sumBy (fun r => py_n r) l / ((l.length : Nat) : F)))
      = icLogRRAipw m1 m0
          ((if r.a then (r.y - py_a r) else 0) / pa1 r) ((if r.a then 0 else (r.y - py_n r)) / pa0 r)
          (py_a r) (py_n r) := by
    intro r
    unfold icLogRRAipw
    cases ha : r.a <;> simp only [Bool.false_eq_true, if_false, if_true, Nat.cast_one, Nat.cast_zero, m1, m0] <;> ring
  simp only [hf]

/-- **Pooling across partitions.**  The term `calculate_joint_estimate` takes the median / mean of is the model's
    (`pool`): variance of the partition plus the squared distance of its point estimate from the pooled point. -/
theorem joint_estimate_generated (m : Method) (pts vars : List F) (h : pts.length = vars.length) (hne : pts.length ≠ 0) :
    pool m pts vars
      = .ok (center m pts, center m (List.zipWith (fun v p => joint_var_term (center m pts) v p) vars pts)) := by
  unfold pool
  simp only [h, ne_eq, not_true_eq_false, if_false]
  rw [← h]
  simp only [hne, if_false]
  rfl

end ZV.P06
