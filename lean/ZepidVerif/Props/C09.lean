/-
C09 — An integer weights column is equivalent to replicating rows (point estimates).

Subject: the estimator models executed by the native driver — `ZV.Std.hajek ∘ iptwOmega` (IPTW, the six
generated weight formulas, with inverse-probability-of-missingness weights), `stochIptw` (StochasticIPTW),
`gformula` (TimeFixedGFormula, each standardization target), `survMarginal` (SurvivalGFormula),
`aipw1/aipw0`, `aipwDiffW`, `aipwArmMean` (AIPTW, also with missing outcomes), `snmLhs/snmRhs/snmPsi1`
(GEstimationSNM closed form), `gtransport` (GTransportFormula) and the closed form `std` — evaluated on
`weighted l` (each row once with its integer weight: what zEpid sees with `weights='w'`) and on
`replicated l` (each row physically repeated, no weights column).

Shape of the argument.  zEpid never fits a model itself: statsmodels returns fitted values, which are
parameters of the estimator models (DESIGN §3.2).  (1) `score_replicate` / `cellfit_replicate`: the
frequency-weighted score equations on the weighted data and the unweighted score equations on the replicated
data are the *same equations*, so the same fitted values solve both (that the GLM returns the same solution
for equal score equations is the external assumption, measured by gate H; for saturated models it is not
even needed: `saturated_fits_agree`).  (2) every estimator, given the same per-row fitted values on a row
and on its copies (`WFree`: the value does not depend on the weight column), returns the same point
estimate on both data sets — for all data sets, all positive (indeed all natural-number) weights, all
outcome values (binary, continuous, counts), every standardization target and stabilization option.
No positivity or non-degeneracy hypothesis is needed: numerators and denominators agree separately.
-/
import ZepidVerif.Lemmas.Replicate
import ZepidVerif.Lemmas.SurvRows
import Mathlib.Algebra.Order.Field.Rat
import Mathlib.Tactic.NormNum
set_option linter.unusedSectionVars false
set_option linter.unusedVariables false
namespace ZV.P09
open ZV ZV.Std

variable {F : Type} [Field F] [LinearOrder F] [IsStrictOrderedRing F] [Transc F]

/-- **Core.**  A sum in which element `x` enters with integer multiplicity `k` is the plain sum over the
    list in which `x` is repeated `k` times (any element type: rows, persons). -/
theorem sum_mult_eq_replicate {α : Type} (f : α → F) (l : List (α × Nat)) :
    sumBy (fun x => (x.2 : F) * f x.1) l = sumBy f (l.flatMap fun x => List.replicate x.2 x.1) :=
  sumBy_mult f l

/-- Every weighted sum zEpid forms (`Σ_{i : p_i} w_i·g_i`, or any summand linear in the weight) over the
    data with a weights column equals the unweighted sum over the replicated data. -/
theorem sumIf_replicate (l : List (Row F × Nat)) (p : Row F → Bool) (f : Row F → F) (hp : WFree p) (hf : WLin f) :
    sumIf p f (weighted l) = sumIf p f (replicated l) :=
  sumIf_weighted_eq_replicated l hp hf

/-- **Score equations.**  For a design column `x`, response `y` and fitted values `μ` (functions of the row
    that do not read the weight), on the fitting rows `p` (all rows, or the rows with an observed outcome):
    the frequency-weighted score `Σ_i w_i x_i (y_i − μ_i)` on the weighted data equals the unweighted score
    on the replicated data; hence `μ` solves one iff it solves the other. -/
theorem score_replicate (l : List (Row F × Nat)) (p : Row F → Bool) (x y μ : Row F → F)
    (hp : WFree p) (hx : WFree x) (hy : WFree y) (hμ : WFree μ) :
    sumIf p (fun r => r.w * (x r * (y r - μ r))) (weighted l)
      = sumIf p (fun r => r.w * (x r * (y r - μ r))) (replicated l) ∧
    (sumIf p (fun r => r.w * (x r * (y r - μ r))) (weighted l) = 0 ↔
     sumIf p (fun r => r.w * (x r * (y r - μ r))) (replicated l) = 0) := by
  have h : WFree (fun r => x r * (y r - μ r)) := by
    intro r c; simp only [hx r c, hy r c, hμ r c]
  have e := sumIf_weighted_eq_replicated l hp (WLin.w_mul h)
  exact ⟨e, by rw [e]⟩

/-- The saturated-model score equations of the three nuisance models (`PropFit`, `MissFit`, `OutFit` of
    `Lemmas/CellFit.lean`) hold on the weighted data iff they hold on the replicated data. -/
theorem cellfit_replicate (l : List (Row F × Nat)) (S : List Nat) (p : Nat → F) (q Q : Nat → Bool → F) :
    (PropFit (weighted l) S p ↔ PropFit (replicated l) S p) ∧
    (MissFit (weighted l) S q ↔ MissFit (replicated l) S q) ∧
    (OutFit (weighted l) S Q ↔ OutFit (replicated l) S Q) := by
  refine ⟨?_, ?_, ?_⟩
  · unfold PropFit
    simp only [W_weighted l (wfree_inStratum _), W_weighted l (wfree_inCellAll _ _)]
  · unfold MissFit
    simp only [W_weighted l (wfree_inCell _ _), W_weighted l (wfree_inCellAll _ _)]
  · unfold OutFit
    simp only [W_weighted l (wfree_inCell _ _), WY_weighted l (wfree_inCell _ _)]

/-- For a saturated treatment model nothing at all is assumed of the GLM beyond its score equations: under
    positivity the solution is unique, so the weighted fit and the fit on the replicated data coincide. -/
theorem saturated_fits_agree (l : List (Row F × Nat)) (S : List Nat) (hpos : Positivity (weighted l) S)
    (p p' : Nat → F) (hp : PropFit (weighted l) S p) (hp' : PropFit (replicated l) S p') :
    ∀ s ∈ S, p s = p' s := by
  intro s hs
  have h2 := ((cellfit_replicate l S p' (fun _ _ => 0) (fun _ _ => 0)).1.mpr hp') s hs
  have h1 := hp s hs
  have hW := (hpos.stratum_pos hs).ne'
  have : (p s - p' s) * W (inStratum s) (weighted l) = 0 := by rw [sub_mul, h1, h2, sub_self]
  rcases mul_eq_zero.mp this with h | h
  · exact sub_eq_zero.mp h
  · exact absurd h hW

/-- the closed-form standardized mean (every target) -/
theorem std_replicate (l : List (Row F × Nat)) (S : List Nat) (tm : Row F → Bool) (htm : WFree tm) (a : Bool) :
    std (weighted l) S tm a = std (replicated l) S tm a := by
  unfold std
  simp only [Ntgt_weighted l htm, cellMean_weighted l]

/-- Hájek arm mean (saturated weighted MSM) under any per-row weights carried along to the copies -/
theorem hajek_replicate (l : List (Row F × Nat)) (ω : Row F → F) (hω : WFree ω) (a : Bool) :
    hajek (weighted l) ω a = hajek (replicated l) ω a := by
  unfold hajek
  rw [sumIf_weighted_eq_replicated l (wfree_arm a) (WLin.mul_left hω (WLin.w_mul wfree_y)),
      sumIf_weighted_eq_replicated l (wfree_arm a) (WLin.mul_left hω WLin.w)]

/-- **IPTW**: each of the 6 generated weight formulas (stabilized × standardize), times the inverse
    probability of missingness weight, times the user weight; `n`, `p`, `mw` = fitted numerator, denominator
    and missingness weight per row. -/
theorem iptw_replicate (l : List (Row F × Nat)) (stab : Bool) (t : Tgt) (n p mw : Row F → F)
    (hn : WFree n) (hp : WFree p) (hm : WFree mw) (a : Bool) :
    hajek (weighted l) (iptwOmega stab t n p mw) a = hajek (replicated l) (iptwOmega stab t n p mw) a := by
  apply hajek_replicate
  intro r c
  show Gen.iptw_weight stab t.str r.a (n (r.setW c)) (p (r.setW c)) * mw (r.setW c) = _
  rw [hn r c, hp r c, hm r c]; rfl

/-- **StochasticIPTW** -/
theorem stoch_iptw_replicate (l : List (Row F × Nat)) (ω : Row F → F) (hω : WFree ω) :
    stochIptw (weighted l) ω = stochIptw (replicated l) ω := by
  unfold stochIptw
  rw [sumBy_weighted_eq_replicated l (WLin.mul_left hω (WLin.w_mul wfree_y)),
      sumBy_weighted_eq_replicated l (WLin.mul_left hω WLin.w)]

/-- **TimeFixedGFormula**, every standardization target (`Tgt.mem t`, or any weight-free target set),
    any outcome type (`Q` = predictions of the outcome model under the plan) -/
theorem gformula_replicate (l : List (Row F × Nat)) (Q : Row F → Bool → F) (hQ : WFree Q)
    (tm : Row F → Bool) (htm : WFree tm) (a : Bool) :
    gformula (weighted l) Q tm a = gformula (replicated l) Q tm a := by
  unfold gformula
  have h : WFree (fun r => Q r a) := fun r c => by show Q (r.setW c) a = Q r a; rw [hQ r c]
  rw [sumIf_weighted_eq_replicated l htm (WLin.w_mul h), W_weighted l htm]

theorem gformula_replicate_targets (l : List (Row F × Nat)) (Q : Row F → Bool → F) (hQ : WFree Q) (t : Tgt) (a : Bool) :
    gformula (weighted l) Q t.mem a = gformula (replicated l) Q t.mem a :=
  gformula_replicate l Q hQ t.mem (wfree_tgt t) a

/-- **GTransportFormula**, generalize and transport -/
theorem gtransport_replicate (l : List (Row F × Nat)) (g : Bool) (Q : Row F → Bool → F) (hQ : WFree Q) (a : Bool) :
    gtransport g (weighted l) Q a = gtransport g (replicated l) Q a :=
  gformula_replicate l Q hQ (genTarget g) (wfree_genTarget g) a

/-- **AIPTW**, all outcomes observed (the model of C01/C02) -/
theorem aipw_replicate (l : List (Row F × Nat)) (Q : Row F → Bool → F) (g1 g0 : Row F → F) (hQ : WFree Q)
    (h1 : WFree g1) (h0 : WFree g0) :
    aipw1 (weighted l) Q g1 g0 = aipw1 (replicated l) Q g1 g0 ∧
    aipw0 (weighted l) Q g1 g0 = aipw0 (replicated l) Q g1 g0 := by
  have hw := sumBy_weighted_eq_replicated l (WLin.w (F := F))
  constructor
  · unfold aipw1 wmean
    rw [sumBy_weighted_eq_replicated l (WLin.w_mul (wfree_y1 Q g1 g0 hQ h1 h0)), hw]
  · unfold aipw0 wmean
    rw [sumBy_weighted_eq_replicated l (WLin.w_mul (wfree_y0 Q g1 g0 hQ h1 h0)), hw]

/-- **AIPTW with missing outcomes** (`g1`, `g0` then include the missingness probabilities): the
    NaN-skipping mean of the difference and the NaN-skipping arm means -/
theorem aipw_missing_replicate (l : List (Row F × Nat)) (Q : Row F → Bool → F) (g1 g0 : Row F → F) (hQ : WFree Q)
    (h1 : WFree g1) (h0 : WFree g0) :
    aipwDiffW (weighted l) Q g1 g0 = aipwDiffW (replicated l) Q g1 g0 ∧
    ∀ arm, aipwArmMean arm (weighted l) Q g1 g0 = aipwArmMean arm (replicated l) Q g1 g0 := by
  constructor
  · unfold aipwDiffW
    have h : WFree (fun r => aipwPseudo true Q g1 g0 r - aipwPseudo false Q g1 g0 r) := by
      intro r c
      show aipwPseudo true Q g1 g0 (r.setW c) - aipwPseudo false Q g1 g0 (r.setW c) = _
      rw [wfree_pseudo true Q g1 g0 hQ h1 h0 r c, wfree_pseudo false Q g1 g0 hQ h1 h0 r c]
    rw [sumIf_weighted_eq_replicated l wfree_obs (WLin.w_mul h), W_weighted l wfree_obs]
  · intro arm
    unfold aipwArmMean
    have hd : WFree (aipwDefined (F := F) arm) := fun _ _ => rfl
    rw [sumIf_weighted_eq_replicated l hd (WLin.w_mul (wfree_pseudo arm Q g1 g0 hQ h1 h0)), W_weighted l hd]

/-- **GEstimationSNM**, closed form: every entry of the matrix `lhm` and of the vector `rha` handed to
    `np.linalg.solve` is the same, hence so is ψ; explicitly for the one-parameter model. -/
theorem snm_replicate (l : List (Row F × Nat)) (ω π : Row F → F) (hω : WFree ω) (hπ : WFree π) :
    (∀ vj vk, WFree vj → WFree vk → snmLhs (weighted l) ω π vj vk = snmLhs (replicated l) ω π vj vk) ∧
    (∀ vj, WFree vj → snmRhs (weighted l) ω π vj = snmRhs (replicated l) ω π vj) ∧
    snmPsi1 (weighted l) ω π = snmPsi1 (replicated l) ω π := by
  have key : ∀ u : Row F → F, WFree u → snmSum (weighted l) ω π u = snmSum (replicated l) ω π u := by
    intro u hu
    unfold snmSum
    refine sumIf_weighted_eq_replicated l wfree_obs (WLin.w_mul ?_)
    intro r c
    show ω (r.setW c) * (r.an - π (r.setW c)) * u (r.setW c) = _
    rw [hω r c, hπ r c, hu r c]
  have hL : ∀ vj vk, WFree vj → WFree vk → snmLhs (weighted l) ω π vj vk = snmLhs (replicated l) ω π vj vk := by
    intro vj vk hj hk
    unfold snmLhs
    apply key
    intro r c
    show (r.an * vj (r.setW c)) * (r.an * vk (r.setW c)) = _
    rw [hj r c, hk r c]
  have hR : ∀ vj, WFree vj → snmRhs (weighted l) ω π vj = snmRhs (replicated l) ω π vj := by
    intro vj hj
    unfold snmRhs
    apply key
    intro r c
    show r.y * vj (r.setW c) = _
    rw [hj r c]
  refine ⟨hL, hR, ?_⟩
  unfold snmPsi1
  rw [hL _ _ (WFree.const _) (WFree.const _), hR _ (WFree.const _)]

/-- **SurvivalGFormula**: persons with integer weights versus persons replicated (fresh ids), at every time -/
theorem survival_replicate (P : List (Person F × Nat)) (t : Nat) :
    survMarginal (weightedP P) t = survMarginal (replicatedP P) t := by
  unfold survMarginal weightedP replicatedP
  rw [sumBy_map, sumBy_map, sumBy_flatMap, sumBy_flatMap]
  congr 1
  · apply sumBy_congr; intro x _
    rw [sumBy_replicate]
    show (match x.1.riskAt t with | some r => (x.2 : F) * r | none => ((0 : Nat) : F)) =
      (x.2 : F) * (match x.1.riskAt t with | some r => ((1 : Nat) : F) * r | none => ((0 : Nat) : F))
    cases x.1.riskAt t <;> simp
  · apply sumBy_congr; intro x _
    rw [sumBy_replicate]
    show (match x.1.riskAt t with | some _ => (x.2 : F) | none => ((0 : Nat) : F)) =
      (x.2 : F) * (match x.1.riskAt t with | some _ => ((1 : Nat) : F) | none => ((0 : Nat) : F))
    cases x.1.riskAt t <;> simp

/-- **SurvivalGFormula, weights on the person-period rows**: the weights column of the long data set is a per-row
    column, so an individual's weight may change during follow-up.  Whenever it never rises (`nonIncreasing`: every
    physical copy of the individual is followed without gaps from his first row), zEpid's weighted mean with each row
    taken at its own weight equals the unweighted mean over the replicated data, in which copy `j` of the individual
    consists of the rows repeated more than `j` times — at every time, for all hazards and weights.  (A weight that
    rises has no replicated counterpart: the extra copies would enter late and restart their cumulative product.) -/
theorem survival_replicate_rows (P : List (List (Nat × F × Nat))) (hP : ∀ p ∈ P, nonIncreasing p = true) (t : Nat) :
    survMarginalRows P t = survMarginal (replicatedRows P) t := by
  unfold survMarginalRows survMarginal replicatedRows
  rw [sumBy_flatMap, sumBy_flatMap]
  congr 1
  · apply sumBy_congr; intro p hp
    rw [sumBy_map, ← copies_sum (fun r => r) t p _ (maxW p) (hP p hp) (Nat.le_refl _)]
    apply sumBy_congr; intro j _
    rw [Person.riskAt_eq]
    show optVal _ (riskFrom _ (copyRows j p) t) = _
    simp only [Nat.cast_one, Nat.cast_zero]
    cases riskFrom (1 : F) (copyRows j p) t <;> simp [optVal]
  · apply sumBy_congr; intro p hp
    rw [sumBy_map, ← copies_sum (fun _ => ((1 : Nat) : F)) t p _ (maxW p) (hP p hp) (Nat.le_refl _)]
    apply sumBy_congr; intro j _
    rw [Person.riskAt_eq]
    show optVal _ (riskFrom _ (copyRows j p) t) = _
    simp only [Nat.cast_one, Nat.cast_zero]
    cases riskFrom (1 : F) (copyRows j p) t <;> simp [optVal]

/-! ### Non-vacuity: a concrete weighted data set, its replication, and fitted values that solve both -/

/-- 2 strata × 2 arms, integer weights 1..3, one missing outcome -/
def exW : List (Row ℚ × Nat) :=
  [(⟨0, 0, true, 1, 0, true⟩, 2), (⟨1, 0, true, 0, 0, true⟩, 1), (⟨2, 0, false, 1, 0, true⟩, 3),
   (⟨3, 1, true, 1, 0, true⟩, 1), (⟨4, 1, false, 0, 0, true⟩, 2), (⟨5, 1, false, 1, 0, false⟩, 1),
   (⟨6, 1, false, 1, 0, true⟩, 1)]

example : (weighted exW).length = 7 ∧ (replicated exW).length = 11 := by decide

/-- the saturated treatment fit: treated fraction 3/6 and 1/5 — solves the weighted equations and the
    replicated ones -/
example : PropFit (weighted exW) [0, 1] (fun s => if s = 0 then 1/2 else 1/5) ∧
    PropFit (replicated exW) [0, 1] (fun s => if s = 0 then 1/2 else 1/5) := by
  constructor <;> intro s hs <;> simp only [List.mem_cons, List.not_mem_nil, or_false] at hs <;>
    rcases hs with rfl | rfl <;>
    norm_num [exW, weighted, replicated, Row.setW, W, sumIf, sumBy, inStratum, inCellAll, List.replicate]

example : Positivity (weighted exW) [0, 1] := by
  refine ⟨by decide, ?_⟩
  intro s hs a
  simp only [List.mem_cons, List.not_mem_nil, or_false] at hs
  rcases hs with rfl | rfl <;> cases a <;> simp [exW, weighted, Row.setW, inCell]

/-- the estimate is not trivial: weighted ≠ ignoring the weights -/
example : std (weighted exW) [0, 1] Tgt.pop.mem true = 9/11 ∧
    std (replicated exW) [0, 1] Tgt.pop.mem true = 9/11 ∧
    std ((weighted exW).map (·.setW 1)) [0, 1] Tgt.pop.mem true = 11/14 := by
  refine ⟨?_, ?_, ?_⟩ <;>
    norm_num [std, Ntgt, cellMean, exW, weighted, replicated, Row.setW, W, WY, sumIf, sumBy, inCell, inStratum,
      Tgt.mem, List.replicate]

/-- two persons, weights 2 and 1 -/
def exP : List (Person ℚ × Nat) := [(⟨0, 0, [(1, 1/2), (2, 1/2)]⟩, 2), (⟨1, 0, [(1, 1/4)]⟩, 1)]
example : survMarginal (weightedP exP) 1 = 5/12 ∧ survMarginal (replicatedP exP) 1 = 5/12 ∧
    survMarginal (weightedP exP) 2 = 3/4 := by
  refine ⟨?_, ?_, ?_⟩ <;>
    norm_num [survMarginal, weightedP, replicatedP, exP, Person.setW, Person.riskAt, cumRisk, sumBy,
      List.replicate, List.find?]

/-- two individuals with row-level weights: 3, 3, 1 (the record stands for three people, later for one) and 2 -/
def exR : List (List (Nat × ℚ × Nat)) := [[(1, 1/2, 3), (2, 1/2, 3), (3, 1/3, 1)], [(1, 1/4, 2), (2, 1/2, 2)]]
example : (∀ p ∈ exR, nonIncreasing p = true) ∧ (replicatedRows exR).length = 5 ∧
    survMarginalRows exR 2 = 7/10 ∧ survMarginal (replicatedRows exR) 2 = 7/10 ∧
    survMarginalRows exR 3 = 5/6 ∧ survMarginal (replicatedRows exR) 3 = 5/6 ∧
    -- not trivial: when the first individual's weight drops to 1 already at time 2 the answer there is 2/3, while
    -- taking every row at the individual's FIRST weight (3) would still give 7/10
    survMarginalRows [[(1, 1/2, 3), (2, 1/2, 1)], [(1, 1/4, 2), (2, 1/2, 2)]] 2 = 2/3 ∧
    survMarginalRows [[(1, 1/2, 3), (2, 1/2, 3)], [(1, 1/4, 2), (2, 1/2, 2)]] 2 = 7/10 := by
  refine ⟨by decide, by decide, ?_, ?_, ?_, ?_, ?_, ?_⟩ <;>
    simp (decide := true) [survMarginalRows, survMarginal, replicatedRows, exR, rowAcc, copyRows, maxW,
      Person.riskAt, cumRisk, sumBy, List.range, List.range.loop, List.find?] <;> norm_num

end ZV.P09
