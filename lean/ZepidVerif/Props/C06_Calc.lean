/-
C06, second batch of zepid/calc/utils.py (`Gen/Calc2.lean`, regenerated from the source on every run):
`sensitivity`, `specificity`, `ppv_converter`, `npv_converter`, `screening_cost_analyzer`, `rubins_rules`,
`semibayes`, `counternull_pvalue`, `s_value`, `logit`, `inverse_logit`.

Every statement below is about the *generated* definition, i.e. about the text of the code:
  * `sensitivity` / `specificity` report `point ∓ ppf(1 − α/2)·se`; point estimate and se do not depend on α; the
    interval contains the estimate and is nested in α; both functions are `risk_ci` on the same counts behind their
    own validation (`specificity` on the complementary count);
  * `ppv_converter` / `npv_converter` are Bayes' rule, reject exactly the inputs outside [0,1] and return a value in
    [0,1];
  * `rubins_rules`: total variance = within + (1 + 1/m)·between with the (m−1)-divisor between-imputation variance,
    hence ≥ within; one imputation (m = 1) and none are rejected (Python raises ZeroDivisionError there);
  * `semibayes`: the standard errors are recovered from the limits, the posterior mean is the precision-weighted
    mean (between prior mean and estimate), the posterior variance is below both variances, the reported limits are
    `post_mean ∓ z·sd_post` (on the log scale and exponentiated when `ln_transform`), and when prior and data limits
    were built at the same alpha the posterior mean and sd do not depend on that alpha;
  * `counternull_pvalue`: the standard error it recovers from the limits, and what it prints;
  * `logit` / `inverse_logit` are inverse to each other; `s_value` = −log₂ p;
  * `screening_cost_analyzer`: the three per-capita costs do not depend on the population size.
External calls are parameters: `ppf` (`PpfOk`), `sf`, `cdf`, `Transc.exp/log/sqrt` with explicit hypotheses,
discharged for ℝ at the end.
-/
import ZepidVerif.Props.C06
import ZepidVerif.Gen.Calc2
import Mathlib.Tactic.Tauto
set_option linter.unusedSectionVars false
set_option linter.unusedVariables false
set_option linter.unnecessarySeqFocus false
set_option linter.unusedTactic false
set_option linter.unreachableTactic false
namespace ZV.P06
open ZV ZV.Gen ZV.Ci ZV.L

variable {F : Type} [Field F] [LinearOrder F] [IsStrictOrderedRing F] [Transc F]

/-! ### 1. `sensitivity`, `specificity` -/

/-- the reported limits are `point ∓ ppf(1 − α/2)·se` (both variance options) -/
theorem sens_ci_linear (ppf : F → F) (det cases α : F) (confint : String) (r : Results F)
    (h : sensitivity ppf det cases α confint = .ok r) :
    (r.lower, r.upper) = linCI r.point (zOf ppf α) r.se := by
  unfold sensitivity at h
  simp only at h
  split_ifs at h <;>
    (simp only [Except.ok.injEq] at h; subst h
     first | rfl | (simp only [linCI, zOf, Prod.mk.injEq]; constructor <;> ring))

theorem spec_ci_linear (ppf : F → F) (det nc α : F) (confint : String) (r : Results F)
    (h : specificity ppf det nc α confint = .ok r) :
    (r.lower, r.upper) = linCI r.point (zOf ppf α) r.se := by
  unfold specificity at h
  simp only at h
  split_ifs at h <;>
    (simp only [Except.ok.injEq] at h; subst h
     first | rfl | (simp only [linCI, zOf, Prod.mk.injEq]; constructor <;> ring))

/-- point estimate and standard error do not depend on alpha -/
theorem sens_indep_alpha (ppf : F → F) (det cases α₁ α₂ : F) (confint : String) (r₁ r₂ : Results F)
    (h₁ : sensitivity ppf det cases α₁ confint = .ok r₁) (h₂ : sensitivity ppf det cases α₂ confint = .ok r₂) :
    r₁.point = r₂.point ∧ r₁.se = r₂.se := by
  unfold sensitivity at h₁ h₂
  simp only at h₁ h₂
  split_ifs at h₁ h₂ <;> (simp only [Except.ok.injEq] at h₁ h₂; subst h₁; subst h₂; exact ⟨rfl, rfl⟩)

theorem spec_indep_alpha (ppf : F → F) (det nc α₁ α₂ : F) (confint : String) (r₁ r₂ : Results F)
    (h₁ : specificity ppf det nc α₁ confint = .ok r₁) (h₂ : specificity ppf det nc α₂ confint = .ok r₂) :
    r₁.point = r₂.point ∧ r₁.se = r₂.se := by
  unfold specificity at h₁ h₂
  simp only at h₁ h₂
  split_ifs at h₁ h₂ <;> (simp only [Except.ok.injEq] at h₁ h₂; subst h₁; subst h₂; exact ⟨rfl, rfl⟩)

/-- `sensitivity` is `risk_ci` on the same counts, behind its own validation (positive counts, detected ≤ cases) -/
theorem sensitivity_eq_risk_ci (ppf : F → F) (infv det cases α : F) (confint : String) :
    sensitivity ppf det cases α confint =
      if det ≤ 0 then .error .nonpositive else if cases ≤ 0 then .error .nonpositive
      else if det > cases then .error .badInput else risk_ci ppf infv det cases α confint := by
  unfold sensitivity risk_ci
  simp only [Nat.cast_zero, Nat.cast_one, Nat.cast_ofNat]
  -- (closed here when the two texts coincide; otherwise up to ring identities inside each field)
  all_goals (split_ifs <;> first | rfl | (simp only [Except.ok.injEq, Results.mk.injEq]; refine ⟨?_, ?_, ?_, ?_⟩ <;> first | trivial | ring_nf))

/-- `specificity` is `risk_ci` on the complementary count `noncases − detected`, behind the same validation -/
theorem specificity_eq_risk_ci (ppf : F → F) (infv det nc α : F) (confint : String) :
    specificity ppf det nc α confint =
      if det ≤ 0 then .error .nonpositive else if nc ≤ 0 then .error .nonpositive
      else if det > nc then .error .badInput else risk_ci ppf infv (nc - det) nc α confint := by
  unfold specificity risk_ci
  simp only [Nat.cast_zero, Nat.cast_one, Nat.cast_ofNat]
  by_cases h1 : det ≤ 0
  · simp only [if_pos h1]
  by_cases h2 : nc ≤ 0
  · simp only [if_neg h1, if_pos h2]
  by_cases h3 : det > nc
  · simp only [if_neg h1, if_neg h2, if_pos h3]
  simp only [if_neg h1, if_neg h2, if_neg h3]
  have hnc : nc ≠ 0 := ne_of_gt (not_le.mp h2)
  have e1 : (1 : F) - det / nc = (nc - det) / nc := by field_simp
  simp only [e1]
  split_ifs <;> first | rfl | (simp only [Except.ok.injEq, Results.mk.injEq]; refine ⟨?_, ?_, ?_, ?_⟩ <;> first | trivial | ring_nf)

/-- the error cases of `sensitivity`, in the code's words -/
theorem sens_reject_iff (ppf : F → F) (det cases α : F) (confint : String) :
    (∃ e, sensitivity ppf det cases α confint = .error e) ↔
      (det ≤ 0 ∨ cases ≤ 0 ∨ det > cases ∨ (confint ≠ "wald" ∧ confint ≠ "hypergeometric")) := by
  simp only [sensitivity, Nat.cast_zero]; split_ifs <;> simp_all

theorem spec_reject_iff (ppf : F → F) (det nc α : F) (confint : String) :
    (∃ e, specificity ppf det nc α confint = .error e) ↔
      (det ≤ 0 ∨ nc ≤ 0 ∨ det > nc ∨ (confint ≠ "wald" ∧ confint ≠ "hypergeometric")) := by
  simp only [specificity, Nat.cast_zero]; split_ifs <;> simp_all

/-- sensitivity: the interval contains the estimate, the interval at a larger alpha is inside the one at a smaller
    alpha, and the estimate is the same -/
theorem sens_coherent (ppf : F → F) (hp : PpfOk ppf) (hsqrt : ∀ x : F, 0 ≤ Transc.sqrt x)
    (det cases α₁ α₂ : F) (confint : String) (r₁ r₂ : Results F) (h0 : 0 < α₁) (h12 : α₁ ≤ α₂) (h1 : α₂ ≤ 1)
    (h₁ : sensitivity ppf det cases α₁ confint = .ok r₁) (h₂ : sensitivity ppf det cases α₂ confint = .ok r₂) :
    (r₁.lower ≤ r₁.point ∧ r₁.point ≤ r₁.upper) ∧ (r₁.lower ≤ r₂.lower ∧ r₂.upper ≤ r₁.upper) ∧
    r₁.point = r₂.point := by
  have hse : 0 ≤ r₁.se := by
    unfold sensitivity at h₁
    simp only at h₁
    split_ifs at h₁ <;> (simp only [Except.ok.injEq] at h₁; subst h₁; exact hsqrt _)
  obtain ⟨hpt, hs⟩ := sens_indep_alpha ppf det cases α₁ α₂ confint r₁ r₂ h₁ h₂
  have e₁ := sens_ci_linear ppf det cases α₁ confint r₁ h₁
  have e₂ := sens_ci_linear ppf det cases α₂ confint r₂ h₂
  have c₁ := ci_contains r₁.point (zOf ppf α₁) r₁.se (z_of_alpha_nonneg ppf hp α₁ h0 (h12.trans h1)) hse
  have n₁ := nested_in_alpha_lin ppf hp r₁.point r₁.se α₁ α₂ hse h0 h12 h1
  rw [← hpt, ← hs] at e₂
  rw [← e₁] at c₁ n₁
  rw [← e₂] at n₁
  exact ⟨c₁, n₁, hpt⟩

theorem spec_coherent (ppf : F → F) (hp : PpfOk ppf) (hsqrt : ∀ x : F, 0 ≤ Transc.sqrt x)
    (det nc α₁ α₂ : F) (confint : String) (r₁ r₂ : Results F) (h0 : 0 < α₁) (h12 : α₁ ≤ α₂) (h1 : α₂ ≤ 1)
    (h₁ : specificity ppf det nc α₁ confint = .ok r₁) (h₂ : specificity ppf det nc α₂ confint = .ok r₂) :
    (r₁.lower ≤ r₁.point ∧ r₁.point ≤ r₁.upper) ∧ (r₁.lower ≤ r₂.lower ∧ r₂.upper ≤ r₁.upper) ∧
    r₁.point = r₂.point := by
  have hse : 0 ≤ r₁.se := by
    unfold specificity at h₁
    simp only at h₁
    split_ifs at h₁ <;> (simp only [Except.ok.injEq] at h₁; subst h₁; exact hsqrt _)
  obtain ⟨hpt, hs⟩ := spec_indep_alpha ppf det nc α₁ α₂ confint r₁ r₂ h₁ h₂
  have e₁ := spec_ci_linear ppf det nc α₁ confint r₁ h₁
  have e₂ := spec_ci_linear ppf det nc α₂ confint r₂ h₂
  have c₁ := ci_contains r₁.point (zOf ppf α₁) r₁.se (z_of_alpha_nonneg ppf hp α₁ h0 (h12.trans h1)) hse
  have n₁ := nested_in_alpha_lin ppf hp r₁.point r₁.se α₁ α₂ hse h0 h12 h1
  rw [← hpt, ← hs] at e₂
  rw [← e₁] at c₁ n₁
  rw [← e₂] at n₁
  exact ⟨c₁, n₁, hpt⟩

/-! ### 2. `ppv_converter`, `npv_converter` -/

/-- rejected exactly when an input is above 1 or below 0 (the two `raise`s of the code) -/
theorem ppv_reject_iff (se sp p : F) :
    (∃ e, ppv_converter se sp p = .error e) ↔ (se > 1 ∨ sp > 1 ∨ p > 1 ∨ se < 0 ∨ sp < 0 ∨ p < 0) := by
  simp only [ppv_converter, Nat.cast_zero, Nat.cast_one]; split_ifs <;> simp_all <;> tauto

theorem npv_reject_iff (se sp p : F) :
    (∃ e, npv_converter se sp p = .error e) ↔ (se > 1 ∨ sp > 1 ∨ p > 1 ∨ se < 0 ∨ sp < 0 ∨ p < 0) := by
  simp only [npv_converter, Nat.cast_zero, Nat.cast_one]; split_ifs <;> simp_all <;> tauto

/-- Bayes' rule: PPV = Se·P / (Se·P + (1−Sp)(1−P)) -/
theorem ppv_bayes (se sp p v : F) (h : ppv_converter se sp p = .ok v) :
    v = se * p / (se * p + (1 - sp) * (1 - p)) ∧ (0 ≤ se ∧ se ≤ 1) ∧ (0 ≤ sp ∧ sp ≤ 1) ∧ (0 ≤ p ∧ p ≤ 1) := by
  simp only [ppv_converter, Nat.cast_zero, Nat.cast_one] at h
  split_ifs at h with h1 h2
  simp only [Except.ok.injEq] at h
  simp only [gt_iff_lt, not_or, not_lt] at h1 h2
  exact ⟨by first | exact h.symm | (rw [← h]; ring), ⟨h2.1, h1.1⟩, ⟨h2.2.1, h1.2.1⟩, ⟨h2.2.2, h1.2.2⟩⟩

/-- NPV = Sp·(1−P) / (Sp·(1−P) + (1−Se)·P) -/
theorem npv_bayes (se sp p v : F) (h : npv_converter se sp p = .ok v) :
    v = sp * (1 - p) / (sp * (1 - p) + (1 - se) * p) ∧ (0 ≤ se ∧ se ≤ 1) ∧ (0 ≤ sp ∧ sp ≤ 1) ∧ (0 ≤ p ∧ p ≤ 1) := by
  simp only [npv_converter, Nat.cast_zero, Nat.cast_one] at h
  split_ifs at h with h1 h2
  simp only [Except.ok.injEq] at h
  simp only [gt_iff_lt, not_or, not_lt] at h1 h2
  exact ⟨by first | exact h.symm | (rw [← h]; ring), ⟨h2.1, h1.1⟩, ⟨h2.2.1, h1.2.1⟩, ⟨h2.2.2, h1.2.2⟩⟩

/-- a returned predictive value is a probability -/
theorem ppv_unit (se sp p v : F) (h : ppv_converter se sp p = .ok v) : 0 ≤ v ∧ v ≤ 1 := by
  obtain ⟨rfl, ⟨a0, a1⟩, ⟨b0, b1⟩, ⟨c0, c1⟩⟩ := ppv_bayes se sp p v h
  have hn : 0 ≤ se * p := mul_nonneg a0 c0
  have hm : 0 ≤ (1 - sp) * (1 - p) := mul_nonneg (by linarith) (by linarith)
  exact ⟨div_nonneg hn (by linarith), div_le_one_of_le₀ (by linarith) (by linarith)⟩

theorem npv_unit (se sp p v : F) (h : npv_converter se sp p = .ok v) : 0 ≤ v ∧ v ≤ 1 := by
  obtain ⟨rfl, ⟨a0, a1⟩, ⟨b0, b1⟩, ⟨c0, c1⟩⟩ := npv_bayes se sp p v h
  have hn : 0 ≤ sp * (1 - p) := mul_nonneg b0 (by linarith)
  have hm : 0 ≤ (1 - se) * p := mul_nonneg (by linarith) c0
  exact ⟨div_nonneg hn (by linarith), div_le_one_of_le₀ (by linarith) (by linarith)⟩

/-! ### 3. `rubins_rules` -/

/-- within-imputation variance: the mean of the squared standard errors -/
def rrWithin (ses : List F) : F := sumBy (fun x => x * x) ses / ((ses.length : Nat) : F)
/-- between-imputation variance: sample variance (divisor m − 1) of the point estimates -/
def rrBetween (pts : List F) : F :=
  sumBy (fun x => (x - meanL pts) * (x - meanL pts)) pts / (((pts.length : Nat) : F) - 1)

/-- rejected exactly when the two lists differ in length or there are fewer than two imputations (Python raises
    ValueError for the first, ZeroDivisionError for the second: `len(variance)**-1`, `(len(variance) - 1)**-1`) -/
theorem rubins_reject_iff (pts ses : List F) :
    (∃ e, rubins_rules pts ses = .error e) ↔ (pts.length ≠ ses.length ∨ ses.length < 2) := by
  simp only [rubins_rules, Nat.cast_zero, Nat.cast_one]
  by_cases hl : pts.length ≠ ses.length
  · simp [hl]
  · have h1 : ((ses.length : F) = 0) ↔ ses.length = 0 := Nat.cast_eq_zero
    have h2 : ((ses.length : F) - 1 = 0) ↔ ses.length = 1 := by rw [sub_eq_zero]; exact Nat.cast_eq_one
    simp only [if_neg hl, h1, h2]
    by_cases a : ses.length = 0
    · simp [a]
    by_cases b : ses.length = 1
    · simp [b]
    simp only [if_neg a, if_neg b]
    constructor
    · rintro ⟨e, he⟩; cases he
    · rintro (h | h)
      · exact absurd h hl
      · omega

/-- Rubin's rules as the code computes them: the pooled estimate is the mean of the estimates, the reported standard
    error is the square root of `within + (1 + 1/m)·between` -/
theorem rubins_def (pts ses : List F) (r : F × F) (h : rubins_rules pts ses = .ok r) :
    pts.length = ses.length ∧ 2 ≤ ses.length ∧ r.1 = meanL pts ∧
    r.2 = Transc.sqrt (rrWithin ses + (1 + 1 / ((ses.length : Nat) : F)) * rrBetween pts) := by
  have hne : ¬ ∃ e, rubins_rules pts ses = .error e := by rw [h]; simp
  rw [rubins_reject_iff] at hne
  have hl : pts.length = ses.length := by omega
  have hm : 2 ≤ ses.length := by omega
  refine ⟨hl, hm, ?_⟩
  simp only [rubins_rules, Nat.cast_zero, Nat.cast_one] at h
  rw [if_neg (by omega)] at h
  have h1 : ¬ ((ses.length : F) = 0) := by rw [Nat.cast_eq_zero]; omega
  have h2 : ¬ ((ses.length : F) - 1 = 0) := by rw [sub_eq_zero, Nat.cast_eq_one]; omega
  rw [if_neg h1, if_neg h2] at h
  simp only [Except.ok.injEq] at h
  subst h
  refine ⟨rfl, ?_⟩
  simp only [rrWithin, rrBetween, meanL, hl]
  congr 1
  ring

/-- total variance = within + (1 + 1/m)·between ≥ within (`sqrt` squares back on non-negative numbers) -/
theorem rubins_total_ge_within (hsq : ∀ x : F, 0 ≤ x → Transc.sqrt x * Transc.sqrt x = x)
    (pts ses : List F) (r : F × F) (h : rubins_rules pts ses = .ok r) :
    r.2 * r.2 = rrWithin ses + (1 + 1 / ((ses.length : Nat) : F)) * rrBetween pts ∧
    0 ≤ rrBetween pts ∧ 0 ≤ rrWithin ses ∧ rrWithin ses ≤ r.2 * r.2 := by
  obtain ⟨hl, hm, -, h2⟩ := rubins_def pts ses r h
  have hmF : (2 : F) ≤ ((ses.length : Nat) : F) := by exact_mod_cast hm
  have hb : 0 ≤ rrBetween pts := by
    unfold rrBetween
    apply div_nonneg (sumBy_nonneg _ _ (fun x _ => mul_self_nonneg _))
    rw [hl]; linarith
  have hw : 0 ≤ rrWithin ses := by
    unfold rrWithin
    exact div_nonneg (sumBy_nonneg _ _ (fun x _ => mul_self_nonneg _)) (by linarith)
  have hc : 0 ≤ (1 + 1 / ((ses.length : Nat) : F)) * rrBetween pts :=
    mul_nonneg (by have : 0 ≤ 1 / ((ses.length : Nat) : F) := div_nonneg (by norm_num) (by linarith); linarith) hb
  have e : r.2 * r.2 = rrWithin ses + (1 + 1 / ((ses.length : Nat) : F)) * rrBetween pts := by
    rw [h2]; exact hsq _ (by linarith)
  exact ⟨e, hb, hw, by rw [e]; linarith⟩

/-! ### 4. `semibayes` -/

/-- the standard error implied by two-sided limits at quantile `z` -/
def seOfLimits (l u z : F) : F := (u - l) / (2 * z)
/-- precision-weighted mean of a prior `(m0, v0)` and an estimate `(m, v)` -/
def postMean (m0 v0 m v : F) : F := (m0 / v0 + m / v) / (1 / v0 + 1 / v)
/-- posterior variance: the reciprocal of the summed precisions -/
def postVar (v0 v : F) : F := 1 / (1 / v0 + 1 / v)

/-- limits built as `est ∓ z·se` give back `se` -/
theorem se_of_limits (est z se : F) (hz : z ≠ 0) : seOfLimits (est - z * se) (est + z * se) z = se := by
  unfold seOfLimits; field_simp; ring

/-- `ln_transform=False`: what the code returns, in the vocabulary above — the posterior mean is the precision-weighted
    mean with the variances recovered from the limits, and the limits are `post_mean ∓ z·sqrt(post_var)` -/
theorem semibayes_lin_def (ppf sf : F → F) (m0 pl pu m l u α : F) :
    semibayes ppf sf m0 pl pu m l u false α =
      .ok (postMean m0 (seOfLimits pl pu (zOf ppf α) * seOfLimits pl pu (zOf ppf α)) m
             (seOfLimits l u (zOf ppf α) * seOfLimits l u (zOf ppf α)),
           (linCI (postMean m0 (seOfLimits pl pu (zOf ppf α) * seOfLimits pl pu (zOf ppf α)) m
               (seOfLimits l u (zOf ppf α) * seOfLimits l u (zOf ppf α))) (zOf ppf α)
             (Transc.sqrt (postVar (seOfLimits pl pu (zOf ppf α) * seOfLimits pl pu (zOf ppf α))
               (seOfLimits l u (zOf ppf α) * seOfLimits l u (zOf ppf α))))).1,
           (linCI (postMean m0 (seOfLimits pl pu (zOf ppf α) * seOfLimits pl pu (zOf ppf α)) m
               (seOfLimits l u (zOf ppf α) * seOfLimits l u (zOf ppf α))) (zOf ppf α)
             (Transc.sqrt (postVar (seOfLimits pl pu (zOf ppf α) * seOfLimits pl pu (zOf ppf α))
               (seOfLimits l u (zOf ppf α) * seOfLimits l u (zOf ppf α))))).2) := by
  simp only [semibayes, Bool.false_eq_true, if_false, zOf, linCI, postMean, postVar, seOfLimits, Nat.cast_one,
    Nat.cast_ofNat, Except.ok.injEq, Prod.mk.injEq]
  refine ⟨?_, ?_, ?_⟩ <;> ring_nf

/-- `ln_transform=True`: the same computation on the logarithms of the six inputs, exponentiated at the end -/
theorem semibayes_log_def (ppf sf : F → F) (m0 pl pu m l u α : F) :
    semibayes ppf sf m0 pl pu m l u true α =
      (semibayes ppf sf (Transc.log m0) (Transc.log pl) (Transc.log pu) (Transc.log m) (Transc.log l)
        (Transc.log u) false α).map (fun r => (Transc.exp r.1, Transc.exp r.2.1, Transc.exp r.2.2)) := by
  simp only [semibayes, if_true, Bool.false_eq_true, if_false, Except.map]

/-- hence, on the log scale, the reported limits are `exp(log-scale posterior mean ∓ z·sd)`: the documented scale for
    ratio measures -/
theorem semibayes_log_ci (ppf sf : F → F) (m0 pl pu m l u α : F) :
    ∃ lm sd, semibayes ppf sf m0 pl pu m l u true α = .ok (Transc.exp lm, (expCI lm (zOf ppf α) sd).1,
      (expCI lm (zOf ppf α) sd).2) := by
  rw [semibayes_log_def, semibayes_lin_def]
  exact ⟨_, _, rfl⟩

/-- the posterior mean lies between the prior mean and the estimate; the posterior variance is positive and below
    both variances -/
theorem post_mean_between (m0 v0 m v : F) (h0 : 0 < v0) (hv : 0 < v) :
    min m0 m ≤ postMean m0 v0 m v ∧ postMean m0 v0 m v ≤ max m0 m := by
  have e : postMean m0 v0 m v = (m0 * v + m * v0) / (v + v0) := by
    unfold postMean; field_simp
  have hs : 0 < v + v0 := by linarith
  rw [e, le_div_iff₀ hs, div_le_iff₀ hs]
  constructor
  · have a := min_le_left m0 m
    have b := min_le_right m0 m
    nlinarith [mul_le_mul_of_nonneg_right a hv.le, mul_le_mul_of_nonneg_right b h0.le]
  · have a := le_max_left m0 m
    have b := le_max_right m0 m
    nlinarith [mul_le_mul_of_nonneg_right a hv.le, mul_le_mul_of_nonneg_right b h0.le]

theorem post_var_le (v0 v : F) (h0 : 0 < v0) (hv : 0 < v) :
    0 < postVar v0 v ∧ postVar v0 v ≤ v0 ∧ postVar v0 v ≤ v := by
  have e : postVar v0 v = v0 * v / (v + v0) := by
    unfold postVar; field_simp
  have hs : 0 < v + v0 := by linarith
  rw [e]
  refine ⟨div_pos (mul_pos h0 hv) hs, ?_, ?_⟩
  · rw [div_le_iff₀ hs]; nlinarith [mul_pos h0 h0]
  · rw [div_le_iff₀ hs]; nlinarith [mul_pos hv hv]

/-- C06 for `semibayes` (linear scale): prior and data limits built at the same alpha as `m0 ∓ z·s0`, `m ∓ z·s`
    (`z = ppf(1 − α/2) ≠ 0`).  The posterior mean is the precision-weighted mean of `m0` and `m` with weights
    `1/s0²`, `1/s²` — alpha does not occur in it; the reported limits are `post_mean ∓ z·sd` with
    `sd = sqrt(1/(1/s0² + 1/s²))`, again free of alpha; the interval contains the posterior mean -/
theorem semibayes_coherent (ppf sf : F → F) (hsqrt : ∀ x : F, 0 ≤ Transc.sqrt x) (m0 s0 m s α : F)
    (hz : 0 < zOf ppf α) (h0 : 0 < s0) (hs : 0 < s) :
    ∃ lo hi, semibayes ppf sf m0 (m0 - zOf ppf α * s0) (m0 + zOf ppf α * s0) m (m - zOf ppf α * s) (m + zOf ppf α * s)
        false α = .ok (postMean m0 (s0 * s0) m (s * s), lo, hi) ∧
      (lo, hi) = linCI (postMean m0 (s0 * s0) m (s * s)) (zOf ppf α) (Transc.sqrt (postVar (s0 * s0) (s * s))) ∧
      lo ≤ postMean m0 (s0 * s0) m (s * s) ∧ postMean m0 (s0 * s0) m (s * s) ≤ hi ∧
      min m0 m ≤ postMean m0 (s0 * s0) m (s * s) ∧ postMean m0 (s0 * s0) m (s * s) ≤ max m0 m ∧
      postVar (s0 * s0) (s * s) ≤ s0 * s0 ∧ postVar (s0 * s0) (s * s) ≤ s * s := by
  rw [semibayes_lin_def, se_of_limits m0 _ s0 hz.ne', se_of_limits m _ s hz.ne']
  refine ⟨_, _, rfl, rfl, ?_⟩
  have c := ci_contains (postMean m0 (s0 * s0) m (s * s)) (zOf ppf α) (Transc.sqrt (postVar (s0 * s0) (s * s))) hz.le
    (hsqrt _)
  have b := post_mean_between m0 (s0 * s0) m (s * s) (mul_pos h0 h0) (mul_pos hs hs)
  have v := post_var_le (s0 * s0) (s * s) (mul_pos h0 h0) (mul_pos hs hs)
  exact ⟨c.1, c.2, b.1, b.2, v.2.1, v.2.2⟩

/-- `z(alpha) > 0` strictly inside (0, 1) — `semibayes` and `counternull_pvalue` divide by it -/
theorem z_of_alpha_pos (ppf : F → F) (hp : PpfOk ppf) (α : F) (h0 : 0 < α) (h1 : α < 1) : 0 < zOf ppf α := by
  rw [zOf_eq]
  have := hp.mono (1 / 2) (1 - α / 2) (by norm_num) (by linarith) (by linarith)
  rwa [hp.half] at this

/-- `semibayes` across alpha: the same prior `(m0, s0)` and data `(m, s)` presented with limits at two alphas give the
    same posterior mean, and the posterior interval at the larger alpha lies inside the one at the smaller alpha -/
theorem semibayes_nested (ppf sf : F → F) (hp : PpfOk ppf) (hsqrt : ∀ x : F, 0 ≤ Transc.sqrt x)
    (m0 s0 m s α₁ α₂ : F) (h0 : 0 < α₁) (h12 : α₁ ≤ α₂) (h1 : α₂ < 1) (hs0 : 0 < s0) (hs : 0 < s) (r₁ r₂ : F × F × F)
    (e₁ : semibayes ppf sf m0 (m0 - zOf ppf α₁ * s0) (m0 + zOf ppf α₁ * s0) m (m - zOf ppf α₁ * s)
            (m + zOf ppf α₁ * s) false α₁ = .ok r₁)
    (e₂ : semibayes ppf sf m0 (m0 - zOf ppf α₂ * s0) (m0 + zOf ppf α₂ * s0) m (m - zOf ppf α₂ * s)
            (m + zOf ppf α₂ * s) false α₂ = .ok r₂) :
    r₁.1 = r₂.1 ∧ r₁.2.1 ≤ r₂.2.1 ∧ r₂.2.2 ≤ r₁.2.2 := by
  obtain ⟨lo₁, hi₁, q₁, c₁, -⟩ := semibayes_coherent ppf sf hsqrt m0 s0 m s α₁
    (z_of_alpha_pos ppf hp α₁ h0 (lt_of_le_of_lt h12 h1)) hs0 hs
  obtain ⟨lo₂, hi₂, q₂, c₂, -⟩ := semibayes_coherent ppf sf hsqrt m0 s0 m s α₂
    (z_of_alpha_pos ppf hp α₂ (lt_of_lt_of_le h0 h12) h1) hs0 hs
  rw [q₁, Except.ok.injEq] at e₁
  rw [q₂, Except.ok.injEq] at e₂
  subst e₁; subst e₂
  have n := nested_in_alpha_lin ppf hp (postMean m0 (s0 * s0) m (s * s)) (Transc.sqrt (postVar (s0 * s0) (s * s)))
    α₁ α₂ (hsqrt _) h0 h12 h1.le
  rw [← c₁, ← c₂] at n
  exact ⟨rfl, n.1, n.2⟩

/-! ### 5. `counternull_pvalue` -/

/-- what the code prints: alpha, the counternull value `2·estimate`, and the requested p-value computed from the
    normal cdf with the standard error recovered from the limits, `se = (ucl − lcl)/(z·2)` -/
theorem counternull_def (ppf : F → F) (cdf : F → F → F → F) (e l u α : F) (sided : String) :
    counternull_pvalue ppf cdf e l u sided α =
      .ok ([α, 2 * e,
            if sided = "upper" then 1 - cdf e (2 * e) (seOfLimits l u (zOf ppf α))
            else if sided = "lower" then cdf e (2 * e) (seOfLimits l u (zOf ppf α))
            else 2 * (if 1 - cdf (2 * e) e (seOfLimits l u (zOf ppf α)) < cdf (2 * e) e (seOfLimits l u (zOf ppf α))
                      then 1 - cdf (2 * e) e (seOfLimits l u (zOf ppf α))
                      else cdf (2 * e) e (seOfLimits l u (zOf ppf α)))], []) := by
  simp only [counternull_pvalue, seOfLimits, zOf, Nat.cast_one, Nat.cast_ofNat, mul_comm (2 : F)]
  split_ifs <;> rfl

/-- the standard error `counternull_pvalue` works with is the one the limits were built from -/
theorem counternull_recovers_se (ppf : F → F) (est se α : F) (hz : zOf ppf α ≠ 0) :
    seOfLimits (est - zOf ppf α * se) (est + zOf ppf α * se) (zOf ppf α) = se := se_of_limits est _ se hz

/-! ### 6. `logit`, `inverse_logit`, `s_value` -/

/-- `inverse_logit (logit p) = p` on (0,1) -/
theorem logit_roundtrip (hneg : ∀ x : F, Transc.exp (-x) = (Transc.exp x)⁻¹)
    (hel : ∀ x : F, 0 < x → Transc.exp (Transc.log x) = x) (p y : F) (h0 : 0 < p) (h1 : p < 1)
    (hy : logit p = .ok y) : inverse_logit y = .ok p := by
  simp only [logit, Except.ok.injEq, Nat.cast_one] at hy
  -- whatever spelling of the odds the source uses, it is `p / (1 - p)` up to ring identities
  obtain ⟨X, hX, rfl⟩ : ∃ X, X = p / (1 - p) ∧ y = Transc.log X := ⟨_, by ring, hy.symm⟩
  subst hX
  have hq : 0 < 1 - p := by linarith
  have ho : 0 < p / (1 - p) := div_pos h0 hq
  simp only [inverse_logit, Nat.cast_one, hneg, hel _ ho, Except.ok.injEq]
  field_simp
  ring

/-- `logit (inverse_logit y) = y`, and `inverse_logit y` is strictly inside (0,1) -/
theorem inverse_logit_roundtrip (hneg : ∀ x : F, Transc.exp (-x) = (Transc.exp x)⁻¹)
    (hpos : ∀ x : F, 0 < Transc.exp x) (hle : ∀ x : F, Transc.log (Transc.exp x) = x) (y q : F)
    (hq : inverse_logit y = .ok q) : logit q = .ok y ∧ 0 < q ∧ q < 1 := by
  simp only [inverse_logit, Except.ok.injEq, Nat.cast_one, hneg] at hq
  subst hq
  have he := hpos y
  have e : (1 : F) / (1 + (Transc.exp y)⁻¹) = Transc.exp y / (Transc.exp y + 1) := by field_simp
  have hs : 0 < Transc.exp y + 1 := by linarith
  refine ⟨?_, ?_, ?_⟩
  · simp only [logit, Nat.cast_one, Except.ok.injEq, e]
    have hX : ∀ X : F, X = Transc.exp y → Transc.log X = y := fun X h => by rw [h, hle]
    apply hX
    field_simp
    ring
  · rw [e]; exact div_pos he hs
  · rw [e, div_lt_one hs]; linarith

/-- `s_value p = −log p / log 2` (the code's `-1 * np.log2(p)`) -/
theorem s_value_def (p : F) : s_value p = .ok (-(Transc.log p / Transc.log 2)) := by
  simp only [s_value, Nat.cast_one, Nat.cast_ofNat, neg_mul, one_mul]

/-! ### 7. `screening_cost_analyzer` -/

/-- the three per-capita costs the function prints do not depend on the population size: treating everyone as
    test-negative costs `P·c_miss`, as test-positive `(1−P)·c_fp`, screening `c_miss·P·(1−Se) + c_fp·(1−P)·(1−Sp)`.
    The only validation the code applies is `sensitivity ≤ 1 ∧ specificity ≤ 1`. -/
theorem screening_per_capita (cm cf prev se sp pop : F) (hpop : pop ≠ 0) :
    (∃ e, screening_cost_analyzer cm cf prev se sp pop = .error e) ↔ (se > 1 ∨ sp > 1) := by
  simp only [screening_cost_analyzer, Nat.cast_one]; split_ifs <;> simp_all

theorem screening_costs (cm cf prev se sp pop : F) (hpop : pop ≠ 0) (vals : List F) (flags : List Bool)
    (h : screening_cost_analyzer cm cf prev se sp pop = .ok (vals, flags)) :
    vals = [pop * prev * cm, prev * cm, (pop - pop * prev) * cf, (1 - prev) * cf,
            cm * (pop * prev - pop * prev * se) + cf * ((pop - pop * prev) - (pop - pop * prev) * sp),
            cm * prev * (1 - se) + cf * (1 - prev) * (1 - sp)] := by
  simp only [screening_cost_analyzer, Nat.cast_one] at h
  split_ifs at h
  simp only [Except.ok.injEq, Prod.mk.injEq] at h
  rw [← h.1]
  simp only [List.cons.injEq, and_true, true_and]
  refine ⟨?_, ?_, ?_⟩
  all_goals field_simp

/-! ### 8. Over ℝ the hypotheses on `exp`, `log`, `sqrt` hold -/

theorem real_calc2_transc_ok :
    (∀ x : ℝ, Transc.exp (-x) = (Transc.exp x)⁻¹) ∧ (∀ x : ℝ, 0 < Transc.exp x) ∧
    (∀ x : ℝ, Transc.log (Transc.exp x) = x) ∧ (∀ x : ℝ, 0 < x → Transc.exp (Transc.log x) = x) ∧
    (∀ x : ℝ, 0 ≤ x → Transc.sqrt x * Transc.sqrt x = x) :=
  ⟨Real.exp_neg, Real.exp_pos, Real.log_exp, fun _ h => Real.exp_log h, fun _ h => Real.mul_self_sqrt h⟩

/-- the two logit round trips over ℝ, no hypothesis left -/
theorem real_logit_roundtrip (p y : ℝ) (h0 : 0 < p) (h1 : p < 1) :
    (logit p = .ok y → inverse_logit y = .ok p) ∧
    (∀ q, inverse_logit y = .ok q → logit q = .ok y ∧ 0 < q ∧ q < 1) :=
  ⟨logit_roundtrip Real.exp_neg (fun _ h => Real.exp_log h) p y h0 h1,
   fun q => inverse_logit_roundtrip Real.exp_neg Real.exp_pos Real.log_exp y q⟩

/-! ### Non-vacuity -/
section examples
local instance instTQ2 : Transc ℚ := ⟨id, id, id⟩

/-- `sensitivity` / `specificity` on a real table: accepted, non-degenerate interval; rejected when detected > cases -/
example : ∃ r, sensitivity (F := ℚ) ppfQ 40 50 (1/20) "wald" = .ok r ∧ r.point = 4/5 ∧ r.lower < r.point := by
  simp only [sensitivity]; norm_num [ppfQ, Transc.sqrt, instTQ2]
example : ∃ r, specificity (F := ℚ) ppfQ 15 50 (1/20) "hypergeometric" = .ok r ∧ r.point = 7/10 ∧ r.point < r.upper := by
  simp only [specificity]; norm_num [ppfQ, Transc.sqrt, instTQ2, show ¬ ("hypergeometric" = "wald") by decide]
example : ∃ e, sensitivity (F := ℚ) ppfQ 51 50 (1/20) "wald" = .error e := by
  rw [sens_reject_iff]; norm_num
/-- `ppv_converter` / `npv_converter`: the docstring's example -/
example : ppv_converter (9/10 : ℚ) (88/100) (15/100) = .ok (45/79) := by
  simp only [ppv_converter]; norm_num
example : npv_converter (9/10 : ℚ) (88/100) (15/100) = .ok (748/763) := by
  simp only [npv_converter]; norm_num
example : ∃ e, ppv_converter (11/10 : ℚ) (1/2) (1/2) = .error e := by rw [ppv_reject_iff]; norm_num
/-- `rubins_rules`: three imputations; W = 14/300, B = 1/100, T = 14/300 + (4/3)/100 = 3/50 -/
example : rubins_rules [(1 : ℚ), 11/10, 12/10] [1/10, 2/10, 3/10] = .ok (11/10, 3/50) := by
  simp only [rubins_rules]; norm_num [sumBy, Transc.sqrt, instTQ2]
example : ∃ e, rubins_rules [(1 : ℚ)] [1/10] = .error e := by rw [rubins_reject_iff]; simp
/-- `semibayes_coherent`: z = 19/40 at alpha = 1/20 with `ppfQ`; prior (0, sd 1), data (1, sd 1) -/
example : 0 < zOf ppfQ (1/20) ∧ postMean (0 : ℚ) (1 * 1) 1 (1 * 1) = 1/2 ∧ postVar (1 * 1 : ℚ) (1 * 1) = 1/2 := by
  norm_num [zOf, ppfQ, postMean, postVar]
/-- `logit` on ℚ with the throw-away instance is only used to show the definitions compute -/
example : logit (1/2 : ℚ) = .ok 1 := by simp only [logit]; norm_num [Transc.log, instTQ2]
/-- `screening_cost_analyzer`: the docstring's example; per-capita costs 0.15, 2.55, 0.321 -/
example : ∃ f, screening_cost_analyzer (1 : ℚ) 3 (15/100) (9/10) (88/100) 10000 =
    .ok ([1500, 15/100, 25500, 255/100, 3210, 321/1000], f) := by
  simp only [screening_cost_analyzer]; norm_num
end examples

end ZV.P06
