/-
C13 — MonteCarloGFormula simulates well-formed histories that obey the treatment plan.

Subject: the executable model `ZV.MC` (Model/MonteCarlo.lean) of the simulation loop of
`MonteCarloGFormula.fit`, the same definitions the native driver runs against the real code (gate K).
Everything is stated for an arbitrary carrier `V` with the plain operations the model uses, for every
configuration, every baseline row, every draw sequence (`draws : Nat → StepDraw V` is arbitrary: nothing is
assumed about the RNG), every `t_max` and every sample (`bases` is an arbitrary list).  The binders are the model's own
plain instance binders, so every theorem applies literally to the `Rat` instance the driver executes (core Lean only,
no Mathlib; `Num01 Rat` is checked below).

Hypotheses, all explicit:
* `Safe cfg`   — the five loop-owned columns (exposure, outcome, time_in, time_out, 'uncensored') are distinct and
                 user code (recode strings, covariate models, lag targets) does not write to them, except that
                 out_recode may rewrite the outcome column (structural rules);
* `OutcomeUntouched cfg` — out_recode does not write the outcome (only where a theorem speaks of the *drawn* outcome);
* `OutcomeSign` — every record's outcome is 0 or positive (automatic under `OutcomeUntouched`; otherwise the user's
                 out_recode rule must keep the outcome 0/1 — measured by the harness on every run);
* `Num01 V`    — `0 ≠ 1`, `0 < 1`, `¬ 0 < 0` in the carrier (needed by the two row filters only);
* lag clause   — the lag targets are distinct columns that nothing writes before the predictions of a step (not
                 loop-owned, not an in_recode / covariate-model column).  No condition on the listing order of the
                 dictionary: since /repo 8519ecd every lag reads the interval's values before any target is assigned
                 (`lag_prev_step`, `lag_prev_chain`, `lag_order_irrelevant`).

Not carried by a theorem (labelled partial in the report): the RNG (draws are parameters), `exec`/`eval` of
arbitrary strings (only the `Assign`/`Cond` grammar is modelled), pandas bookkeeping (filter / reset_index /
concat / sort are tied by gate K and evaluated directly by gate D).
-/
import ZepidVerif.Lemmas.MonteCarlo
set_option linter.unusedSectionVars false
set_option linter.unusedVariables false
set_option linter.unusedSimpArgs false
namespace ZV.P13
open ZV ZV.MC

variable {V : Type} [NatCast V] [Add V] [Mul V] [DecidableEq V] [LT V] [DecidableLT V] [LE V] [DecidableLE V]
/-- the carrier the driver executes satisfies the carrier hypothesis -/
example : Num01 Rat := ⟨by decide, by decide, by decide⟩

variable (cfg : Config V) (tmax : Nat) (draws : Nat → StepDraw V) (b : Env V)

/-! ### Shape of one history -/

/-- a history has at least one and at most `t_max` records -/
theorem hist_length (h : 0 < tmax) :
    1 ≤ (simOne cfg tmax draws b).length ∧ (simOne cfg tmax draws b).length ≤ tmax := by
  refine ⟨?_, simFrom_length_le ..⟩
  have := simFrom_ne_nil cfg tmax draws tmax 0 (initRow cfg b) h
  exact List.length_pos_iff.mpr this

example : (simOne Ex.cfg 5 Ex.draws Ex.base).length = 3 := by decide
example : (simOne Ex.cfg 2 Ex.draws Ex.base).length = 2 := by decide

/-- `fit` returns exactly `sample` histories, numbered 0 … sample-1 in order, none of them empty; equivalently the
    uid column of the full output takes exactly the values 0 … sample-1 -/
theorem sample_individuals (drawsAll : Nat → Nat → StepDraw V) (bases : List (Env V))
    (hs : List (Nat × List (StepOut V))) (h : fit cfg tmax drawsAll bases = .ok hs) :
    hs.length = bases.length ∧ hs.map (·.1) = List.range bases.length ∧ (∀ p ∈ hs, p.2 ≠ []) ∧
    (∀ u, u < bases.length ↔ ∃ r ∈ fullRecords hs, r.1 = u) := by
  unfold fit at h
  split at h
  · cases h
  · rename_i ht
    have ht : 0 < tmax := by omega
    simp only [Except.ok.injEq] at h
    subst h
    have key : ∀ (bs : List (Env V)) (u : Nat),
        (simAllFrom cfg tmax drawsAll u bs).length = bs.length ∧
        (simAllFrom cfg tmax drawsAll u bs).map (·.1) = List.range' u bs.length ∧
        (∀ p ∈ simAllFrom cfg tmax drawsAll u bs, p.2 ≠ []) := by
      intro bs
      induction bs with
      | nil => intro u; simp [simAllFrom]
      | cons x xs ih =>
        intro u
        obtain ⟨h1, h2, h3⟩ := ih (u + 1)
        refine ⟨by simp [simAllFrom, h1], by simp [simAllFrom, h2, List.range'], ?_⟩
        intro p hp
        simp only [simAllFrom, List.mem_cons] at hp
        rcases hp with rfl | hp
        · exact simFrom_ne_nil cfg tmax (drawsAll u) tmax 0 (initRow cfg x) ht
        · exact h3 p hp
    obtain ⟨h1, h2, h3⟩ := key bases 0
    refine ⟨h1, by rw [h2, List.range_eq_range'], h3, ?_⟩
    intro u
    constructor
    · intro hu
      have hmem : u ∈ (simAllFrom cfg tmax drawsAll 0 bases).map (·.1) := by
        rw [h2]; simp [List.mem_range']; omega
      obtain ⟨p, hp, rfl⟩ := List.mem_map.1 hmem
      obtain ⟨r, hr⟩ := List.exists_mem_of_ne_nil _ (h3 p hp)
      exact ⟨(p.1, r), by
        simp only [fullRecords, List.mem_flatMap, List.mem_map]
        exact ⟨p, hp, r, hr, rfl⟩, rfl⟩
    · rintro ⟨r, hr, rfl⟩
      simp only [fullRecords, List.mem_flatMap, List.mem_map] at hr
      obtain ⟨p, hp, r', hr', rfl⟩ := hr
      have : p.1 ∈ (simAllFrom cfg tmax drawsAll 0 bases).map (·.1) := List.mem_map.2 ⟨p, hp, rfl⟩
      rw [h2] at this
      simp [List.mem_range'] at this
      omega

example : ∃ hs, fit Ex.cfg 3 (fun _ => Ex.draws) [Ex.base, Ex.base] = .ok hs ∧ hs.map (·.1) = [0, 1] :=
  ⟨_, rfl, by decide⟩

/-- `fit` raises exactly when there is no iteration (`pd.concat` of nothing) -/
theorem fit_rejects_iff (drawsAll : Nat → Nat → StepDraw V) (bases : List (Env V)) :
    (∃ e, fit cfg tmax drawsAll bases = .error e) ↔ tmax = 0 := by
  unfold fit
  constructor
  · rintro ⟨e, h⟩
    split at h
    · assumption
    · cases h
  · rintro rfl; exact ⟨.badInput, by simp⟩

/-! ### No record after an event, after censoring, or beyond t_max -/

/-- every record that has a successor has no event and is uncensored: no record follows an event or censoring -/
theorem no_record_after_stop (j : Nat) (hj : j + 1 < (simOne cfg tmax draws b).length) :
    ((simOne cfg tmax draws b)[j]'(by omega)).out cfg.cols.y = ((0 : Nat) : V) ∧
    ((simOne cfg tmax draws b)[j]'(by omega)).out cfg.cols.unc = ((1 : Nat) : V) := by
  have := simFrom_alive_of_succ cfg tmax draws tmax 0 (initRow cfg b) j hj
  simpa [alive, simOne] using this

example : ((simOne Ex.cfg 5 Ex.draws Ex.base)[1]'(by decide)).out 1 = 0 := by decide

/-- every record's 'uncensored' flag is 0 or 1 -/
theorem record_unc01 (hs : Safe cfg) (j : Nat) (hj : j < (simOne cfg tmax draws b).length) :
    ((simOne cfg tmax draws b)[j]).out cfg.cols.unc = ((0 : Nat) : V) ∨
      ((simOne cfg tmax draws b)[j]).out cfg.cols.unc = ((1 : Nat) : V) := by
  have hu := traj_unc cfg tmax draws tmax 0 (initRow cfg b) (initRow_unc cfg b) j hj
  rw [simOne_getElem, step_out_unc hs, hu]
  split
  · exact Or.inl rfl
  · split
    · unfold b2v; split <;> simp
    · exact Or.inr rfl

/-- when out_recode leaves the outcome alone, every record's outcome and 'uncensored' flag are 0 or 1 -/
theorem record_01 (hs : Safe cfg) (hy : OutcomeUntouched cfg) (j : Nat)
    (hj : j < (simOne cfg tmax draws b).length) :
    (((simOne cfg tmax draws b)[j]).out cfg.cols.y = ((0 : Nat) : V) ∨
      ((simOne cfg tmax draws b)[j]).out cfg.cols.y = ((1 : Nat) : V)) ∧
    (((simOne cfg tmax draws b)[j]).out cfg.cols.unc = ((0 : Nat) : V) ∨
      ((simOne cfg tmax draws b)[j]).out cfg.cols.unc = ((1 : Nat) : V)) := by
  refine ⟨?_, record_unc01 cfg tmax draws b hs j hj⟩
  rw [simOne_getElem, step_out_y hs hy]
  split
  · exact Or.inl rfl
  · unfold b2v; split <;> simp

/-- … hence the sign hypothesis of the low-memory theorems holds automatically in that case -/
theorem outcome_sign_of_untouched (hs : Safe cfg) (hy : OutcomeUntouched cfg) (h01 : Num01 V) :
    OutcomeSign cfg tmax draws b := by
  intro r hr
  obtain ⟨j, hj, rfl⟩ := List.mem_iff_getElem.1 hr
  rcases (record_01 cfg tmax draws b hs hy j hj).1 with h | h
  · exact Or.inl h
  · right; rw [h]; exact h01.lt

/-- the last record is terminal: it carries the event or is censored (everyone reaching the last iteration
    `i = t_max - 1` is marked censored), so every history ends for a reason and nobody is lost -/
theorem last_record_terminal (hs : Safe cfg) (h01 : Num01 V) (h : 0 < tmax)
    (hne : simOne cfg tmax draws b ≠ []) :
    ((simOne cfg tmax draws b).getLast hne).out cfg.cols.y ≠ ((0 : Nat) : V) ∨
    ((simOne cfg tmax draws b).getLast hne).out cfg.cols.unc = ((0 : Nat) : V) := by
  have hlen := (hist_length cfg tmax draws b h)
  have hidx : (simOne cfg tmax draws b).length - 1 < (simOne cfg tmax draws b).length := by omega
  -- the loop stops only at a record failing the filter, or after iteration t_max - 1 (which censors everyone)
  have key : ∀ fuel i e, i + fuel = tmax → ∀ (hn : simFrom cfg tmax draws fuel i e ≠ []),
      alive cfg ((simFrom cfg tmax draws fuel i e).getLast hn).out = false := by
    intro fuel
    induction fuel with
    | zero => intro i e _ hn; simp [simFrom] at hn
    | succ f ih =>
      intro i e hif hn
      by_cases ha : alive cfg (step cfg tmax i (draws i) e).out = true
      · cases f with
        | zero =>
          have hl : i + 1 = tmax := by omega
          have := step_out_unc hs tmax i (draws i) e
          simp only [hl, if_true] at this
          simp only [alive, Bool.and_eq_true, decide_eq_true_eq] at ha
          exact absurd (this.symm.trans ha.2) h01.ne
        | succ f =>
          have hn' : simFrom cfg tmax draws (f + 1) (i + 1) (step cfg tmax i (draws i) e).out ≠ [] :=
            simFrom_ne_nil _ _ _ _ _ _ (by omega)
          have : (simFrom cfg tmax draws (f + 1 + 1) i e).getLast hn =
              (simFrom cfg tmax draws (f + 1) (i + 1) (step cfg tmax i (draws i) e).out).getLast hn' := by
            simp only [simFrom, ha, if_true]
            rw [List.getLast_cons]
          rw [this]
          exact ih (i + 1) _ (by omega) hn'
      · simp only [simFrom, ha]
        simpa using ha
  have hk : alive cfg ((simOne cfg tmax draws b).getLast hne).out = false :=
    key tmax 0 (initRow cfg b) (by omega) hne
  have hu := record_unc01 cfg tmax draws b hs _ hidx
  rw [← List.getLast_eq_getElem hne] at hu
  simp only [alive, Bool.and_eq_false_iff, decide_eq_false_iff_not] at hk
  rcases hk with h1 | h1
  · exact Or.inl h1
  · rcases hu with hu | hu
    · exact Or.inr hu
    · exact absurd hu h1

example : ((simOne Ex.cfg 5 Ex.draws Ex.base).getLast (by decide)).out 1 = 1 := by decide
example : ((simOne Ex.cfg 5 Ex.drawsC Ex.base).getLast (by decide)).out 4 = 0 ∧
    (simOne Ex.cfg 5 Ex.drawsC Ex.base).length = 2 := by decide

/-- an event can only sit in the last record of a history -/
theorem event_is_last (j : Nat) (hj : j < (simOne cfg tmax draws b).length)
    (hy : ((simOne cfg tmax draws b)[j]).out cfg.cols.y ≠ ((0 : Nat) : V)) :
    j + 1 = (simOne cfg tmax draws b).length := by
  by_cases h : j + 1 < (simOne cfg tmax draws b).length
  · exact absurd (no_record_after_stop cfg tmax draws b j h).1 hy
  · omega

/-- at most one record of a history carries an event -/
theorem at_most_one_event :
    ((simOne cfg tmax draws b).filter fun r => decide (r.out cfg.cols.y ≠ ((0 : Nat) : V))).length ≤ 1 := by
  have key : ∀ fuel i e,
      ((simFrom cfg tmax draws fuel i e).filter fun r => decide (r.out cfg.cols.y ≠ ((0 : Nat) : V))).length ≤ 1 := by
    intro fuel
    induction fuel with
    | zero => intro i e; simp [simFrom]
    | succ f ih =>
      intro i e
      by_cases ha : alive cfg (step cfg tmax i (draws i) e).out = true
      · have hy : (step cfg tmax i (draws i) e).out cfg.cols.y = ((0 : Nat) : V) := by
          simp only [alive, Bool.and_eq_true, decide_eq_true_eq] at ha; exact ha.1
        simp only [simFrom, ha, if_true, List.filter_cons, hy, ne_eq, not_true_eq_false, decide_false]
        exact ih (i + 1) _
      · simp only [simFrom, ha]
        simp only [Bool.false_eq_true, if_false, List.filter_cons, List.filter_nil]
        split <;> simp
  exact key tmax 0 _

example : ((simOne Ex.cfg 5 Ex.draws Ex.base).filter fun r => decide (r.out 1 ≠ 0)).length = 1 := by decide

/-- consecutive unit-length intervals starting at time 0: record `j` has time_in = j and time_out = j + 1 -/
theorem times_consecutive (hs : Safe cfg) (j : Nat) (hj : j < (simOne cfg tmax draws b).length) :
    ((simOne cfg tmax draws b)[j]).out cfg.cols.tin = ((j : Nat) : V) ∧
    ((simOne cfg tmax draws b)[j]).out cfg.cols.tout = ((j + 1 : Nat) : V) := by
  rw [simOne_getElem]
  exact ⟨step_out_tin hs .., step_out_tout hs ..⟩

example : ((simOne Ex.cfg 5 Ex.draws Ex.base)[2]'(by decide)).out 2 = 2 ∧
    ((simOne Ex.cfg 5 Ex.draws Ex.base)[2]'(by decide)).out 3 = 3 := by decide

/-- no record beyond `t_max`: record `j` exists only for `j + 1 ≤ t_max` (its time_out is `j + 1`) -/
theorem within_tmax (j : Nat) (hj : j < (simOne cfg tmax draws b).length) : j + 1 ≤ tmax := by
  have := simFrom_length_le cfg tmax draws tmax 0 (initRow cfg b)
  unfold simOne at hj; omega

/-- when out_recode leaves the outcome alone, the outcome of a record is the drawn outcome, zeroed when the individual
    is censored in that interval -/
theorem censored_outcome_zero (hs : Safe cfg) (hy : OutcomeUntouched cfg) (h01 : Num01 V) (j : Nat)
    (hj : j < (simOne cfg tmax draws b).length) :
    (cfg.cens = true → (draws j).c = false → ((simOne cfg tmax draws b)[j]).out cfg.cols.y = ((0 : Nat) : V)) ∧
    ((cfg.cens = false ∨ (draws j).c = true) →
      ((simOne cfg tmax draws b)[j]).out cfg.cols.y = b2v (draws j).y) := by
  rw [simOne_getElem, step_out_y hs hy]
  constructor
  · intro hc hd
    have : (b2v (draws j).c : V) ≠ ((1 : Nat) : V) := by simp only [b2v, hd]; exact h01.ne
    simp [hc, this]
  · rintro (hc | hd)
    · simp [hc]
    · simp [b2v, hd]

example : ((simOne Ex.cfg 5 Ex.drawsC Ex.base)[1]'(by decide)).out 1 = 0 ∧ (Ex.drawsC 1).y = true := by decide

/-! ### The exposure obeys the plan in every record -/

theorem plan_all (hs : Safe cfg) (hp : cfg.plan = .all) :
    ∀ r ∈ simOne cfg tmax draws b, r.out cfg.cols.a = ((1 : Nat) : V) := by
  intro r hr
  obtain ⟨j, hj, rfl⟩ := List.mem_iff_getElem.1 hr
  rw [simOne_getElem, step_out_a hs]; simp [envPlan, hp]

example : ∀ r ∈ simOne Ex.cfgAll 5 Ex.draws Ex.base, r.out 0 = 1 := plan_all _ _ _ _ Ex.safeAll rfl
example : (simOne Ex.cfgAll 5 Ex.draws Ex.base).length = 3 := by decide

theorem plan_none (hs : Safe cfg) (hp : cfg.plan = .none) :
    ∀ r ∈ simOne cfg tmax draws b, r.out cfg.cols.a = ((0 : Nat) : V) := by
  intro r hr
  obtain ⟨j, hj, rfl⟩ := List.mem_iff_getElem.1 hr
  rw [simOne_getElem, step_out_a hs]; simp [envPlan, hp]

example : ∀ r ∈ simOne Ex.cfgNone 5 Ex.draws Ex.base, r.out 0 = 0 := plan_none _ _ _ _ Ex.safeNone rfl

/-- natural course: the exposure of record `j` is the value drawn for that individual in that interval -/
theorem plan_natural (hs : Safe cfg) (hp : cfg.plan = .natural) (j : Nat)
    (hj : j < (simOne cfg tmax draws b).length) :
    ((simOne cfg tmax draws b)[j]).out cfg.cols.a = b2v (draws j).a := by
  rw [simOne_getElem, step_out_a hs]; simp [envPlan, envRule, hp]

example : ((simOne Ex.cfgNat 5 Ex.draws Ex.base).map fun r => r.out 0) = [1, 0, 0] := by decide

/-- custom rule: the exposure of record `j` is 1 exactly when the rule holds on the frame the exposure model saw in
    that interval (that interval's simulated covariates, the lag columns of the previous interval) with the exposure
    column holding the drawn value — `np.where(eval(treatment), 1, 0)` row by row -/
theorem plan_custom (hs : Safe cfg) (rule : Cond V) (hp : cfg.plan = .custom rule) (j : Nat)
    (hj : j < (simOne cfg tmax draws b).length) :
    ∃ f ∈ ((simOne cfg tmax draws b)[j]).seen,
      ((simOne cfg tmax draws b)[j]).out cfg.cols.a = b2v (rule.eval (f.set cfg.cols.a (b2v (draws j).a))) := by
  rw [simOne_getElem, step_out_a hs]
  refine ⟨envCov cfg j (draws j) (traj cfg tmax draws (initRow cfg b) 0 j), ?_, ?_⟩
  · simp [step, seenPlan, hp]
  · simp [envPlan, envRule, hp]

example : ((simOne Ex.cfg 5 Ex.draws Ex.base).map fun r => (r.out 5, r.out 0)) = [(0, 0), (1, 1), (0, 1)] := by
  decide

/-- a rule that reads only columns left alone after the plan is applied (anything but exposure, outcome, time_out,
    'uncensored', out_recode targets and lag targets — e.g. the simulated covariates and time_in) holds row by row on
    the output record itself -/
theorem plan_custom_on_record (hs : Safe cfg) (rule : Cond V) (hp : cfg.plan = .custom rule)
    (hr : ∀ k ∈ rule.reads, k ∉ [cfg.cols.a, cfg.cols.y, cfg.cols.tout, cfg.cols.unc] ∧
      k ∉ targets cfg.outRecode ∧ k ∉ cfg.lags.map (·.2))
    (j : Nat) (hj : j < (simOne cfg tmax draws b).length) :
    ((simOne cfg tmax draws b)[j]).out cfg.cols.a = b2v (rule.eval ((simOne cfg tmax draws b)[j]).out) := by
  rw [simOne_getElem, step_out_a hs]
  generalize traj cfg tmax draws (initRow cfg b) 0 j = e
  have : envPlan cfg j (draws j) e cfg.cols.a = b2v (rule.eval (envRule cfg j (draws j) e)) := by
    simp [envPlan, hp]
  rw [this]
  congr 1
  apply Cond.eval_congr
  intro k hk
  obtain ⟨h1, h2, h3⟩ := hr k hk
  simp only [List.mem_cons, List.not_mem_nil, or_false, not_or] at h1
  obtain ⟨ka, ky, kt, ku⟩ := h1
  show _ = runLags cfg.lags (envPre cfg tmax j (draws j) e) k
  rw [runLags_other _ _ _ h3]
  unfold envPre
  rw [exec_other _ _ _ h2]
  unfold envLast envCens envY
  rw [show envPlan cfg j (draws j) e = (envRule cfg j (draws j) e).set cfg.cols.a
    (b2v (rule.eval (envRule cfg j (draws j) e))) by simp [envPlan, hp]]
  split <;> split <;> simp [Env.set, ka, ky, kt, ku]

example : ∀ k ∈ (Cond.cmp Cmp.eq (Expr.var 5) (Expr.const (1 : Int))).reads,
    k ∉ [Ex.cols.a, Ex.cols.y, Ex.cols.tout, Ex.cols.unc] ∧ k ∉ targets Ex.cfg.outRecode ∧
    k ∉ Ex.cfg.lags.map (·.2) := by decide

/-! ### Lagged variables hold the previous interval's value -/

/-- first interval: whenever a model predicts, a lag column still holds the sampled baseline row's value -/
theorem lag_first_step (v : Nat) (hv : v ∉ predWrites cfg) (h : 0 < (simOne cfg tmax draws b).length) :
    ∀ f ∈ ((simOne cfg tmax draws b)[0]).seen, f v = b v := by
  rw [simOne_getElem]
  intro f hf
  rw [seen_other cfg tmax 0 (draws 0) _ v hv f hf]
  simp only [predWrites, reserved, List.mem_append, List.mem_cons, List.not_mem_nil, or_false, not_or] at hv
  obtain ⟨⟨⟨va, vy, vtin, vtout, vunc⟩, vin⟩, vcov⟩ := hv
  simp [traj, initRow, Env.set, vy, vunc]

/-- interval `j + 1`: whenever a model predicts, the lag column `v` of any pair `(k, v)` of the lag dictionary holds
    the value column `k` had at the end of interval `j` (after out_recode, before the lag update).  Needed: the lag
    targets are distinct columns, and `v` is not written before the predictions (not loop-owned, not an in_recode or
    covariate-model column).  No condition on the listing order and none on `k` (it may itself be a lag target). -/
theorem lag_prev_step (k v : Nat) (hl : (k, v) ∈ cfg.lags) (hd : (cfg.lags.map (·.2)).Nodup)
    (hv : v ∉ predWrites cfg) (j : Nat) (hj : j + 1 < (simOne cfg tmax draws b).length) :
    ∀ f ∈ ((simOne cfg tmax draws b)[j + 1]).seen, f v = ((simOne cfg tmax draws b)[j]'(by omega)).pre k := by
  intro f hf
  rw [simOne_getElem] at hf
  rw [seen_other cfg tmax (j + 1) (draws (j + 1)) _ v hv f hf]
  have := traj_succ_eq_out cfg tmax draws tmax 0 (initRow cfg b) j (by unfold simOne at hj; omega)
  rw [this]
  show ((simOne cfg tmax draws b)[j]'(by omega)).out v = _
  rw [simOne_getElem]
  exact runLags_pair _ _ _ hl hd _

/-- … and when `k` is not itself a lag target (the exposure, a simulated covariate), that value is the one in the
    output record of interval `j` -/
theorem lag_prev_record (k v : Nat) (hl : (k, v) ∈ cfg.lags) (hd : (cfg.lags.map (·.2)).Nodup)
    (hv : v ∉ predWrites cfg) (hk : k ∉ cfg.lags.map (·.2)) (j : Nat)
    (hj : j + 1 < (simOne cfg tmax draws b).length) :
    ∀ f ∈ ((simOne cfg tmax draws b)[j + 1]).seen, f v = ((simOne cfg tmax draws b)[j]'(by omega)).out k := by
  intro f hf
  rw [lag_prev_step cfg tmax draws b k v hl hd hv j hj f hf, simOne_getElem]
  exact (runLags_other _ _ _ hk).symm

/-- … and when `k` is itself a lag column (a chain `A → A_l1 → A_l2`) that is not touched by in_recode, covariate
    models or out_recode, the value is the one the models of interval `j` saw: a second-order lag holds the
    first-order lag's previous value, in any listing order -/
theorem lag_prev_chain (k v : Nat) (hl : (k, v) ∈ cfg.lags) (hd : (cfg.lags.map (·.2)).Nodup)
    (hv : v ∉ predWrites cfg) (hk : k ∉ predWrites cfg) (hko : k ∉ targets cfg.outRecode) (j : Nat)
    (hj : j + 1 < (simOne cfg tmax draws b).length) :
    ∀ f ∈ ((simOne cfg tmax draws b)[j + 1]).seen, ∀ f' ∈ ((simOne cfg tmax draws b)[j]'(by omega)).seen,
      f v = f' k := by
  intro f hf f' hf'
  rw [lag_prev_step cfg tmax draws b k v hl hd hv j hj f hf]
  rw [simOne_getElem] at hf' ⊢
  rw [seen_other cfg tmax j (draws j) _ k hk f' hf']
  generalize traj cfg tmax draws (initRow cfg b) 0 j = e
  show envPre cfg tmax j (draws j) e k = e k
  simp only [predWrites, reserved, List.mem_append, List.mem_cons, List.not_mem_nil, or_false, not_or] at hk
  obtain ⟨⟨⟨ka, ky, ktin, ktout, kunc⟩, kin⟩, kcov⟩ := hk
  unfold envPre
  rw [exec_other _ _ _ hko]
  have hCov : envCov cfg j (draws j) e k = e k := by
    unfold envCov envIn
    rw [runCovs_other _ _ _ _ _ (fun h => kcov ((mem_covWrites_order k cfg.covs).1 h)), exec_other _ _ _ kin,
      Env.set_other _ _ ktin]
  have hPlan : envPlan cfg j (draws j) e k = e k := by rw [envPlan_other _ _ _ ka, hCov]
  unfold envLast envCens envY
  split <;> split <;> simp [Env.set, ky, ktout, kunc, hPlan]

/-- a lag whose source is written by out_recode holds the value *after* that interval's out_recode ran (the lag
    update comes after `exec(out_recode)`): the right-hand side is the out_recode program applied to the row at the
    end of interval `j` -/
theorem lag_after_out_recode (k v : Nat) (hl : (k, v) ∈ cfg.lags) (hd : (cfg.lags.map (·.2)).Nodup)
    (hv : v ∉ predWrites cfg) (j : Nat) (hj : j + 1 < (simOne cfg tmax draws b).length) :
    ∀ f ∈ ((simOne cfg tmax draws b)[j + 1]).seen,
      f v = exec cfg.outRecode (envLast cfg tmax j (draws j) (traj cfg tmax draws (initRow cfg b) 0 j)) k := by
  intro f hf
  rw [lag_prev_step cfg tmax draws b k v hl hd hv j hj f hf, simOne_getElem]
  rfl

/-- the documented use of out_recode: `g[k] = g[k] + g[exposure]` keeps a running count of treated intervals; when
    that count is lagged into `v`, the models of interval `j + 1` see in `v` the count the models of interval `j` saw
    in `k` plus the exposure of record `j` (so a plan or model reading `v` reads the count up to and including the
    previous interval, not one interval late) -/
theorem lag_running_count (hs : Safe cfg) (k v : Nat) (hout : cfg.outRecode = [⟨k, .add (.var k) (.var cfg.cols.a)⟩])
    (hl : (k, v) ∈ cfg.lags) (hd : (cfg.lags.map (·.2)).Nodup) (hv : v ∉ predWrites cfg) (hk : k ∉ predWrites cfg)
    (j : Nat) (hj : j + 1 < (simOne cfg tmax draws b).length) :
    ∀ f ∈ ((simOne cfg tmax draws b)[j + 1]).seen, ∀ f' ∈ ((simOne cfg tmax draws b)[j]'(by omega)).seen,
      f v = f' k + ((simOne cfg tmax draws b)[j]'(by omega)).out cfg.cols.a := by
  intro f hf f' hf'
  rw [lag_after_out_recode cfg tmax draws b k v hl hd hv j hj f hf]
  rw [simOne_getElem] at hf' ⊢
  rw [seen_other cfg tmax j (draws j) _ k hk f' hf', out_res hs _ _ _ _ (by simp [reserved])
    (hs.sepOut _ (by simp [reserved]) hs.ne.1)]
  generalize traj cfg tmax draws (initRow cfg b) 0 j = e
  simp only [predWrites, reserved, List.mem_append, List.mem_cons, List.not_mem_nil, or_false, not_or] at hk
  obtain ⟨⟨⟨ka, ky, ktin, ktout, kunc⟩, kin⟩, kcov⟩ := hk
  have hCov : envCov cfg j (draws j) e k = e k := by
    unfold envCov envIn
    rw [runCovs_other _ _ _ _ _ (fun h => kcov ((mem_covWrites_order k cfg.covs).1 h)), exec_other _ _ _ kin,
      Env.set_other _ _ ktin]
  have hPlan : envPlan cfg j (draws j) e k = e k := by rw [envPlan_other _ _ _ ka, hCov]
  have hLast : envLast cfg tmax j (draws j) e k = e k := by
    unfold envLast envCens envY
    split <;> split <;> simp [Env.set, ky, ktout, kunc, hPlan]
  rw [hout]
  simp [exec, Expr.eval, hLast]

/-- 'treat while never treated': exposed in the first interval only; the models of interval 2 see count lag 1 -/
example : ((simOne Ex.cfgCum 5 Ex.draws Ex.base).map fun r => r.out 0) = [1, 0, 0] ∧
    (((simOne Ex.cfgCum 5 Ex.draws Ex.base)[1]'(by decide)).seen.map fun f => f 13) = [1, 1, 1, 1] := by decide
example : Ex.cfgCum.outRecode = [⟨12, .add (.var 12) (.var Ex.cfgCum.cols.a)⟩] ∧ (12, 13) ∈ Ex.cfgCum.lags ∧
    (Ex.cfgCum.lags.map (·.2)).Nodup ∧ 13 ∉ predWrites Ex.cfgCum ∧ 12 ∉ predWrites Ex.cfgCum :=
  ⟨rfl, by decide, by decide, by decide, by decide⟩

example : (8, 9) ∈ Ex.cfg.lags ∧ (Ex.cfg.lags.map (·.2)).Nodup ∧ 9 ∉ predWrites Ex.cfg ∧ 8 ∉ predWrites Ex.cfg ∧
    8 ∉ targets Ex.cfg.outRecode := by decide
example : (8, 9) ∈ Ex.cfgFwd.lags ∧ (Ex.cfgFwd.lags.map (·.2)).Nodup ∧ 9 ∉ predWrites Ex.cfgFwd := by decide
/-- exposure 1,0,0 ⇒ the models of interval 2 see A_l1 = 0 and A_l2 = 1 — with the second-order lag listed first … -/
example : (((simOne Ex.cfgNat 5 Ex.draws Ex.base)[2]'(by decide)).seen.map fun f => (f 8, f 9)) =
    [(0, 1), (0, 1), (0, 1), (0, 1)] := by decide
/-- … and with the first-order lag listed first (`{'A': 'A_l1', 'A_l1': 'A_l2'}`, the order that used to go wrong) -/
example : (((simOne Ex.cfgFwd 5 Ex.draws Ex.base)[2]'(by decide)).seen.map fun f => (f 8, f 9)) =
    [(0, 1), (0, 1), (0, 1), (0, 1)] := by decide

/-- round 4: a lag of a *continuous* simulated covariate (`W → W_l1`, columns 7 → 16, listed first).  The lag theorems are
    stated for an arbitrary carrier and an arbitrary drawn value -- nothing rounds it, whatever the storage type of the lag
    column in the caller's frame was: with the draws −1234, −1233, … (thousandths) for W, the models of interval 1 see
    `W_l1 = −1234` and those of interval 2 see `−1233`; the hypotheses of `lag_prev_record` hold for the pair -/
def cfgW : Config Int :=
  { Ex.cfgNat with covs := [⟨1, 5, []⟩, ⟨2, 7, []⟩], lags := [(7, 16), (0, 8), (5, 10)] }
def drawsW : Nat → StepDraw Int := fun i =>
  ⟨fun j => if j = 1 then (-1234 : Int) + i else if i = 1 then 1 else 0, i == 0, i == 2, true⟩
example : (7, 16) ∈ cfgW.lags ∧ (cfgW.lags.map (·.2)).Nodup ∧ 16 ∉ predWrites cfgW ∧ 7 ∉ cfgW.lags.map (·.2) := by decide
example : (((simOne cfgW 5 drawsW Ex.base)[1]'(by decide)).seen.map fun f => f 16) = [-1234, -1234, -1234, -1234, -1234] ∧
    (((simOne cfgW 5 drawsW Ex.base)[2]'(by decide)).seen.map fun f => f 16) = [-1233, -1233, -1233, -1233, -1233] ∧
    ((simOne cfgW 5 drawsW Ex.base).map fun r => r.out 7) = [-1234, -1233, -1232] := by decide

/-- the lag update does not depend on the order in which the dictionary lists its pairs (distinct targets) -/
theorem lag_order_irrelevant (l1 l2 : List (Nat × Nat)) (hperm : l1.Perm l2)
    (h1 : (l1.map (·.2)).Nodup) (e : Env V) (j : Nat) :
    runLags l1 e j = runLags l2 e j := by
  have hp : ∀ p, p ∈ l1 ↔ p ∈ l2 := fun p => hperm.mem_iff
  have h2 : (l2.map (·.2)).Nodup := ((hperm.map (·.2)).nodup_iff).1 h1
  by_cases hj : j ∈ l1.map (·.2)
  · obtain ⟨p, hp1, rfl⟩ := List.mem_map.1 hj
    obtain ⟨k, v⟩ := p
    rw [runLags_pair l1 k v hp1 h1, runLags_pair l2 k v ((hp _).1 hp1) h2]
  · have hj2 : j ∉ l2.map (·.2) := by
      intro h
      obtain ⟨p, hp2, rfl⟩ := List.mem_map.1 h
      exact hj (List.mem_map.2 ⟨p, (hp _).2 hp2, rfl⟩)
    rw [runLags_other _ _ _ hj, runLags_other _ _ _ hj2]

example : ∀ j, runLags Ex.cfgFwd.lags Ex.base j = runLags Ex.cfgNat.lags Ex.base j :=
  lag_order_irrelevant _ _ (by decide) (by decide) _

/-! ### Low-memory output -/

/-- the `low_memory` filter keeps exactly the last record of a history — also when out_recode rewrites the outcome
    column (the filter is evaluated after out_recode, like the at-risk filter of the next iteration), provided the
    rewritten outcome is never negative -/
theorem lowmem_one (hs : Safe cfg) (h01 : Num01 V) (hY : OutcomeSign cfg tmax draws b) (h : 0 < tmax)
    (hne : simOne cfg tmax draws b ≠ []) :
    (simOne cfg tmax draws b).filter (fun r => keep cfg r.out) = [(simOne cfg tmax draws b).getLast hne] := by
  have hlast := last_record_terminal cfg tmax draws b hs h01 h hne
  have hmid : ∀ j (hj : j + 1 < (simOne cfg tmax draws b).length),
      keep cfg ((simOne cfg tmax draws b)[j]'(by omega)).out = false := by
    intro j hj
    obtain ⟨hy, hu⟩ := no_record_after_stop cfg tmax draws b j hj
    simp only [keep, hy, hu, Bool.or_eq_false_iff, decide_eq_false_iff_not]
    exact ⟨h01.irr, fun h => h01.ne h.symm⟩
  have hkl : keep cfg ((simOne cfg tmax draws b).getLast hne).out = true := by
    simp only [keep, Bool.or_eq_true, decide_eq_true_eq]
    rcases hlast with hy | hu
    · left
      rcases hY _ (List.getLast_mem hne) with h0 | hpos
      · exact absurd h0 hy
      · exact hpos
    · right; exact hu
  exact filter_eq_last (fun r => keep cfg r.out) _ hne hmid hkl

example : ((simOne Ex.cfg 5 Ex.draws Ex.base).filter fun r => keep Ex.cfg r.out).length = 1 := by decide
/-- out_recode `g['Y'] = g['Y'] * g['L']` ('no event while L = 0'): the event drawn in interval 2 (L = 0 there) is
    cancelled, the history runs to t_max = 5, the sign hypothesis holds and low memory keeps the one last record -/
example : (simOne Ex.cfgYL 5 Ex.draws Ex.base).length = 5 ∧ OutcomeSign Ex.cfgYL 5 Ex.draws Ex.base ∧
    ((simOne Ex.cfgYL 5 Ex.draws Ex.base).filter fun r => keep Ex.cfgYL r.out).map (fun r => r.out 2) = [4] := by
  refine ⟨by decide, ?_, by decide⟩
  unfold OutcomeSign; decide

/-- `low_memory=True` output = the last record of every history of the full output, for the same draws -/
theorem lowmem_eq_last_of_full (hs : Safe cfg) (h01 : Num01 V) (drawsAll : Nat → Nat → StepDraw V)
    (bases : List (Env V)) (hY : ∀ u, ∀ x ∈ bases, OutcomeSign cfg tmax (drawsAll u) x)
    (hist : List (Nat × List (StepOut V))) (h : fit cfg tmax drawsAll bases = .ok hist) :
    lowRecords cfg hist = hist.filterMap fun p => p.2.getLast?.map fun r => (p.1, r) := by
  unfold fit at h
  split at h
  · cases h
  · rename_i ht
    have ht : 0 < tmax := by omega
    simp only [Except.ok.injEq] at h
    subst h
    have key : ∀ (bs : List (Env V)), (∀ u, ∀ x ∈ bs, OutcomeSign cfg tmax (drawsAll u) x) → ∀ (u : Nat),
        lowRecords cfg (simAllFrom cfg tmax drawsAll u bs) =
          (simAllFrom cfg tmax drawsAll u bs).filterMap fun p => p.2.getLast?.map fun r => (p.1, r) := by
      intro bs
      induction bs with
      | nil => intro _ u; simp [simAllFrom, lowRecords, fullRecords]
      | cons x xs ih =>
        intro hYs u
        have ih := ih (fun u y hy => hYs u y (by simp [hy]))
        have hne : simOne cfg tmax (drawsAll u) x ≠ [] :=
          simFrom_ne_nil cfg tmax (drawsAll u) tmax 0 (initRow cfg x) ht
        have h1 := lowmem_one cfg tmax (drawsAll u) x hs h01 (hYs u x (by simp)) ht hne
        have ih' := ih (u + 1)
        simp only [lowRecords, fullRecords] at ih' ⊢
        simp only [simAllFrom, List.flatMap_cons, List.filter_append, List.filterMap_cons]
        rw [ih', List.filter_map]
        have : (List.filter ((fun r => keep cfg r.2.out) ∘ fun r => (u, r)) (simOne cfg tmax (drawsAll u) x)) =
            [(simOne cfg tmax (drawsAll u) x).getLast hne] := h1
        rw [this, List.getLast?_eq_some_getLast hne]
        simp
    exact key bases hY 0

/-- the low-memory output has exactly one record per sampled individual, in uid order -/
theorem lowmem_uids (hs : Safe cfg) (h01 : Num01 V) (drawsAll : Nat → Nat → StepDraw V)
    (bases : List (Env V)) (hY : ∀ u, ∀ x ∈ bases, OutcomeSign cfg tmax (drawsAll u) x)
    (hist : List (Nat × List (StepOut V))) (h : fit cfg tmax drawsAll bases = .ok hist) :
    (lowRecords cfg hist).map (·.1) = List.range bases.length := by
  obtain ⟨_, h2, h3, _⟩ := sample_individuals cfg tmax drawsAll bases hist h
  rw [lowmem_eq_last_of_full cfg tmax hs h01 drawsAll bases hY hist h, ← h2]
  have key : ∀ (l : List (Nat × List (StepOut V))), (∀ p ∈ l, p.2 ≠ []) →
      (l.filterMap fun p => p.2.getLast?.map fun r => (p.1, r)).map (·.1) = l.map (·.1) := by
    intro l
    induction l with
    | nil => intro _; rfl
    | cons p ps ih =>
      intro hl
      have hp := hl p (by simp)
      rw [List.filterMap_cons, List.getLast?_eq_some_getLast hp]
      simp only [Option.map_some, List.map_cons]
      rw [ih (fun q hq => hl q (by simp [hq]))]
  exact key hist h3

example : ∃ hs, fit Ex.cfg 5 (fun u => if u = 0 then Ex.draws else Ex.drawsC) [Ex.base, Ex.base] = .ok hs ∧
    (lowRecords Ex.cfg hs).map (fun r => (r.1, r.2.out 2, r.2.out 1)) = [(0, 2, 1), (1, 1, 0)] :=
  ⟨_, rfl, by decide⟩

end ZV.P13
