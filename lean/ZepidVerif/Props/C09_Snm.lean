/-
C09, tie to the source (GEstimationSNM): the matrix `lhm` and the vector `rha` regenerated on every run from the
text of `GEstimationSNM._closed_form_solver_` with the weight column chosen by the regenerated lines of
`GEstimationSNM.fit` (`Gen/Snm.lean`) are the model's `snmLhs` / `snmRhs` that `snm_replicate` (Props/C09.lean)
is about — so "an integer weights column = replicated rows" is a statement about the regenerated code.
-/
import ZepidVerif.Props.C09
import ZepidVerif.Gen.Snm
set_option linter.unusedSectionVars false
set_option linter.unusedVariables false
set_option linter.unusedSimpArgs false
namespace ZV.P09
open ZV ZV.Std

variable {F : Type} [Field F] [LinearOrder F] [IsStrictOrderedRing F] [Transc F]

/-- **Tie to the source.**  `l.filter obs` = the rows of `df.dropna()` (outcome observed); SNM design columns
    `A·v_c`, outcome design `Y·v_c` (patsy, product terms); `ω` the missing-outcome weights, `π` the fitted exposure
    probabilities.  In each of the four weight cells of `fit` (no user weights ⇒ the rows carry `w = 1`; no missing
    model ⇒ `ω = 1`) the generated `lhm`, `rha` entries are the model's. -/
theorem snm_generated (hasIpmw hasWeight : Bool) (l : List (Row F)) (ω π : Row F → F) (v : Nat → Row F → F)
    (hw : hasWeight = false → ∀ r ∈ l, r.w = 1) (hω : hasIpmw = false → ∀ r ∈ l, ω r = 1) :
    (∀ j k, Gen.snm_closed_lhm (fun r => r.an) π (fun r c => r.an * v c r) (fun r c => r.y * v c r)
        (Gen.snm_fit_weight_col hasIpmw hasWeight (fun r => r.w) ω) (l.filter fun r => r.obs) j k
          = snmLhs l ω π (v j) (v k)) ∧
    (∀ j, Gen.snm_closed_rha (fun r => r.an) π (fun r c => r.an * v c r) (fun r c => r.y * v c r)
        (Gen.snm_fit_weight_col hasIpmw hasWeight (fun r => r.w) ω) (l.filter fun r => r.obs) j
          = snmRhs l ω π (v j)) := by
  constructor
  · intro j k
    unfold snmLhs snmSum
    rw [sumIf_def]
    cases hasIpmw <;> cases hasWeight <;>
      simp only [Gen.snm_fit_weight_col, Gen.snm_closed_lhm, Bool.false_eq_true, Bool.true_eq_false, if_false, if_true, reduceIte] <;>
      rw [sumBy_filter] <;> apply sumBy_congr <;> intro r hr <;> split_ifs <;>
      first
        | rfl
        | (rw [hw rfl r hr, hω rfl r hr]; ring)
        | (rw [hω rfl r hr]; ring)
        | (rw [hw rfl r hr]; ring)
        | ring
  · intro j
    unfold snmRhs snmSum
    rw [sumIf_def]
    cases hasIpmw <;> cases hasWeight <;>
      simp only [Gen.snm_fit_weight_col, Gen.snm_closed_rha, Bool.false_eq_true, Bool.true_eq_false, if_false, if_true, reduceIte] <;>
      rw [sumBy_filter] <;> apply sumBy_congr <;> intro r hr <;> split_ifs <;>
      first
        | rfl
        | (rw [hw rfl r hr, hω rfl r hr]; ring)
        | (rw [hω rfl r hr]; ring)
        | (rw [hw rfl r hr]; ring)
        | ring

/-- **C09 for the regenerated code.**  `GEstimationSNM` with an integer weights column (`weighted l`, the weight
    column is used) and on the physically replicated rows (`replicated l`, no weight column): every entry of the
    regenerated `lhm` and `rha` handed to `np.linalg.solve` is the same — with or without a missing-outcome model,
    for fitted values and modifier columns that do not read the weight column. -/
theorem snm_generated_replicate (hasIpmw : Bool) (l : List (Row F × Nat)) (ω π : Row F → F) (v : Nat → Row F → F)
    (hω : WFree ω) (hπ : WFree π) (hv : ∀ c, WFree (v c)) (hω1 : hasIpmw = false → ∀ r, ω r = 1) :
    (∀ j k, Gen.snm_closed_lhm (fun r => r.an) π (fun r c => r.an * v c r) (fun r c => r.y * v c r)
        (Gen.snm_fit_weight_col hasIpmw true (fun r => r.w) ω) ((weighted l).filter fun r => r.obs) j k
      = Gen.snm_closed_lhm (fun r => r.an) π (fun r c => r.an * v c r) (fun r c => r.y * v c r)
        (Gen.snm_fit_weight_col hasIpmw false (fun r => r.w) ω) ((replicated l).filter fun r => r.obs) j k) ∧
    (∀ j, Gen.snm_closed_rha (fun r => r.an) π (fun r c => r.an * v c r) (fun r c => r.y * v c r)
        (Gen.snm_fit_weight_col hasIpmw true (fun r => r.w) ω) ((weighted l).filter fun r => r.obs) j
      = Gen.snm_closed_rha (fun r => r.an) π (fun r c => r.an * v c r) (fun r c => r.y * v c r)
        (Gen.snm_fit_weight_col hasIpmw false (fun r => r.w) ω) ((replicated l).filter fun r => r.obs) j) := by
  have hrep : ∀ r ∈ replicated l, r.w = 1 := by
    intro r hr
    unfold replicated at hr
    simp only [List.mem_flatMap, List.mem_replicate] at hr
    obtain ⟨x, _, _, rfl⟩ := hr
    simp [Row.setW]
  have gw := snm_generated hasIpmw true (weighted l) ω π v (by intro h; cases h) (fun h r _ => hω1 h r)
  have gr := snm_generated hasIpmw false (replicated l) ω π v (fun _ => hrep) (fun h r _ => hω1 h r)
  have sr := snm_replicate l ω π hω hπ
  refine ⟨fun j k => ?_, fun j => ?_⟩
  · rw [gw.1 j k, gr.1 j k, sr.1 (v j) (v k) (hv j) (hv k)]
  · rw [gw.2 j, gr.2 j, sr.2.1 (v j) (hv j)]

/-! ### Non-vacuity -/
local instance instTQ_C09Snm : Transc ℚ := ⟨id, id, id⟩

/-- three rows with weights 2, 1, 3 (one outcome missing); the weighted and the replicated data give the same
    regenerated `lhm` entry (0,0) (= 5/4), computed on each side -/
example :
    let l : List (Row ℚ × Nat) := [(⟨0, 0, true, 5, 1, true⟩, 2), (⟨1, 0, false, 2, 1, true⟩, 1), (⟨2, 1, true, 7, 1, false⟩, 3)]
    Gen.snm_closed_lhm (fun r => r.an) (fun _ => (1/2 : ℚ)) (fun r c => r.an * 1) (fun r c => r.y * 1)
        (Gen.snm_fit_weight_col false true (fun r => r.w) (fun _ => 1)) ((weighted l).filter fun r => r.obs) 0 0 = 1 ∧
    Gen.snm_closed_lhm (fun r => r.an) (fun _ => (1/2 : ℚ)) (fun r c => r.an * 1) (fun r c => r.y * 1)
        (Gen.snm_fit_weight_col false false (fun r => r.w) (fun _ => 1)) ((replicated l).filter fun r => r.obs) 0 0 = 1 := by
  norm_num [Gen.snm_closed_lhm, Gen.snm_fit_weight_col, weighted, replicated, Row.setW, Row.an, sumBy, List.filter,
    List.replicate]

end ZV.P09
