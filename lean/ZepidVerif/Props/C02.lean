/-
C02 — Exact finite-sample double robustness of AIPTW, TMLE and AIPSW.

Subject: `ZV.Std.aipw1/aipw0` (generated `aipw_calculator` pseudo-outcome lines), `ZV.Std.aipsw`
(AIPSW.fit with the generated sampling-weight formula) — the definitions the driver executes.
A misspecified nuisance model is *any* function of the covariate stratum (and arm): that covers
every sub-model of the saturated one, the empty model included.

AIPSW with *stabilized* weights is not doubly robust on the weight side (finding F11): the
full statement is refuted by `aipsw_stab_not_dr`, the proved part is `aipsw_dr_weights_partial`
(unstabilized) — see DESIGN §5.  TMLE's two halves are `tmle_dr_outcome` / `tmle_dr_treatment` below.
-/
import ZepidVerif.Lemmas.Aipw
import ZepidVerif.Lemmas.Generalize
import ZepidVerif.Props.C16
import ZepidVerif.Lemmas.TmleDR
import ZepidVerif.Props.C03
import ZepidVerif.Lemmas.BoundUnreached
import Mathlib.Algebra.Order.Field.Rat
import Mathlib.Tactic.NormNum
set_option linter.unusedSectionVars false
set_option linter.unusedVariables false
namespace ZV.P02
open ZV ZV.Std

variable {F : Type} [Field F] [LinearOrder F] [IsStrictOrderedRing F] [Transc F]

/-- **AIPTW, outcome model saturated**, treatment probabilities arbitrary non-zero functions of the stratum
    (`g1` for `Pr(A=1|L)`, `g0` for `Pr(A=0|L)`; they need not even sum to one: bounding) -/
theorem aipw_dr_outcome (l : List (Row F)) (S : List Nat) (hS : Strata l S) (hpos : Positivity l S)
    (hobs : ∀ r ∈ l, r.obs = true) (Q : Nat → Bool → F) (hQ : OutFit l S Q) (g1 g0 : Nat → F)
    (h1 : ∀ s ∈ S, g1 s ≠ 0) (h0 : ∀ s ∈ S, g0 s ≠ 0) :
    aipw1 l (fun r => Q r.s) (fun r => g1 r.s) (fun r => g0 r.s) = std l S Tgt.pop.mem true ∧
    aipw0 l (fun r => Q r.s) (fun r => g1 r.s) (fun r => g0 r.s) = std l S Tgt.pop.mem false :=
  ⟨aipw1_of_outfit l S hS hpos hobs Q hQ g1 g0 h1, aipw0_of_outfit l S hS hpos hobs Q hQ g1 g0 h0⟩

/-- **AIPTW, treatment model saturated**, outcome predictions arbitrary functions of (stratum, arm) -/
theorem aipw_dr_treatment (l : List (Row F)) (S : List Nat) (hS : Strata l S) (hpos : Positivity l S)
    (hobs : ∀ r ∈ l, r.obs = true) (Q : Nat → Bool → F) (p : Nat → F) (hp : PropFit l S p) :
    aipw1 l (fun r => Q r.s) (fun r => p r.s) (fun r => 1 - p r.s) = std l S Tgt.pop.mem true ∧
    aipw0 l (fun r => Q r.s) (fun r => p r.s) (fun r => 1 - p r.s) = std l S Tgt.pop.mem false :=
  ⟨aipw1_of_propfit l S hS hpos hobs Q p hp (fun s => 1 - p s), aipw0_of_propfit l S hS hpos hobs Q p hp p⟩

/-- **AIPSW, outcome model saturated**: any weights (stabilized or not, with or without treatment model,
    generalize or transport) -/
theorem aipsw_dr_outcome (l : List (Row F)) (S : List Nat) (hS : Strata l S) (hpos : Positivity l S)
    (generalize : Bool) (Q : Nat → Bool → F) (hQ : OutFit l S Q) (a : Bool)
    (ω : Row F → F) (Ω : Nat → F) (hω : ∀ r ∈ l, r.a = a → r.obs = true → ω r = Ω r.s) :
    aipsw generalize l (fun r => Q r.s) ω a = std l S (genTarget generalize) a :=
  P16.aipsw_outcome_saturated l S hS hpos generalize Q hQ a ω Ω hω

/-- **AIPSW, sampling and treatment models saturated, unstabilized weights**: any outcome predictions.
    (Partial: the property claims this for stabilized weights too; that is false of the code — F11.) -/
theorem aipsw_dr_weights_partial (l : List (Row F)) (S : List Nat) (hS : Strata l S) (hpos : Positivity l S)
    (generalize : Bool) (Q : Nat → Bool → F) (a : Bool)
    (π : Nat → F) (hπ : SampFit l S π) (p : Nat → F) (hp : PropFitS l S p) :
    aipsw generalize l (fun r => Q r.s)
        (aipswOmega generalize false (fun _ => 1) (fun r => π r.s) (popTreatWeight false (fun _ => 1) (fun r => p r.s))) a
      = std l S (genTarget generalize) a :=
  P16.aipsw_weights_saturated_unstab l S hS hpos generalize Q a π hπ p hp

/-! ### TMLE

`Model/Tmle.lean` is the model of `TMLE.fit` that the driver executes (C03).  Here its rows carry the
nuisance predictions of their covariate stratum (`toT`); TMLE takes no frequency weights (`r.w = 1`).
`e1 e2` are the fluctuation coefficients; the hypotheses `eff1 = 0`, `eff0 = 0` are the efficient-score
equations, which `P03.score_equations` derives from the fluctuation GLM's own score equations. -/

/-- **TMLE, treatment (and missingness) model saturated**, initial outcome predictions arbitrary functions of
    (stratum, arm): the plug-in risks are the standardized risks. -/
theorem tmle_dr_treatment (σ lg : F → F) (l : List (Row F)) (S : List Nat) (hS : Strata l S) (hpos : Positivity l S)
    (hw : ∀ r ∈ l, r.w = 1) (Q : Nat → Bool → F) (p : Nat → F) (hp : PropFit l S p)
    (q : Nat → Bool → F) (hq : MissFit l S q) (e1 e2 : F) :
    let g1 := fun s => p s * q s true
    let g0 := fun s => (1 - p s) * q s false
    Tmle.eff1 σ lg e1 (l.map (toT Q g1 g0)) = 0 → Tmle.eff0 σ lg e2 (l.map (toT Q g1 g0)) = 0 →
    Tmle.risk1Of (Tmle.targets σ lg e1 e2 (l.map (toT Q g1 g0))) = std l S Tgt.pop.mem true ∧
    Tmle.risk0Of (Tmle.targets σ lg e1 e2 (l.map (toT Q g1 g0))) = std l S Tgt.pop.mem false := by
  intro g1 g0 h1 h0
  rw [eff1_eq σ lg e1 l hw Q g1 g0] at h1
  rw [eff0_eq σ lg e2 l hw Q g1 g0] at h0
  rw [risk1_eq σ lg e1 e2 l hw Q g1 g0, risk0_eq σ lg e1 e2 l hw Q g1 g0]
  -- the targeted predictions as a function of (stratum, arm)
  let Qs : Nat → Bool → F := fun s a => if a then σ (lg (Q s true) + e1 / g1 s) else σ (lg (Q s false) - e2 / g0 s)
  have c1 : gformula l (fun r _ => σ (lg (Q r.s true) + e1 / g1 r.s)) Tgt.pop.mem true
      = gformula l (fun r => Qs r.s) Tgt.pop.mem true := gformula_congr l _ _ _ true (fun r _ => by simp [Qs])
  have c0 : gformula l (fun r _ => σ (lg (Q r.s false) - e2 / g0 r.s)) Tgt.pop.mem false
      = gformula l (fun r => Qs r.s) Tgt.pop.mem false := gformula_congr l _ _ _ false (fun r _ => by simp [Qs])
  rw [c1, c0]
  have facts : ∀ s ∈ S, p s ≠ 0 ∧ 1 - p s ≠ 0 ∧ q s true ≠ 0 ∧ q s false ≠ 0 ∧
      W (inCell s true) l = q s true * (p s * W (inStratum s) l) ∧
      W (inCell s false) l = q s false * ((1 - p s) * W (inStratum s) l) := by
    intro s hs
    obtain ⟨hp0, hp1⟩ := hp.mem_Ioo hpos hs
    have hc1 := (hpos.cell_pos hs true).ne'
    have hc0 := (hpos.cell_pos hs false).ne'
    have q1 := hq s hs true
    have q0 := hq s hs false
    have e := hp s hs
    have sp := W_stratum_split l s
    refine ⟨hp0.ne', (sub_pos.mpr hp1).ne', fun h => hc1 (by rw [← q1, h, zero_mul]),
      fun h => hc0 (by rw [← q0, h, zero_mul]), ?_, ?_⟩
    · rw [← q1, e]
    · rw [← q0, sub_mul, one_mul, e, sp]; ring
  constructor
  · refine gformula_of_score l S hS hpos _ true Qs (fun r => 1 / g1 r.s) (fun s => 1 / g1 s) 1 one_ne_zero
      (fun _ _ _ _ => rfl) ?_ ?_
    · intro s hs
      obtain ⟨a1, a2, a3, a4, a5, a6⟩ := facts s hs
      have : Ntgt Tgt.pop.mem l s = W (inStratum s) l := by
        unfold Ntgt W; apply sumIf_congr; intro r _; simp [Tgt.mem]
      rw [this, a5]; simp only [g1]; field_simp
    · simpa [Qs] using h1
  · refine gformula_of_score l S hS hpos _ false Qs (fun r => 1 / g0 r.s) (fun s => 1 / g0 s) 1 one_ne_zero
      (fun _ _ _ _ => rfl) ?_ ?_
    · intro s hs
      obtain ⟨a1, a2, a3, a4, a5, a6⟩ := facts s hs
      have : Ntgt Tgt.pop.mem l s = W (inStratum s) l := by
        unfold Ntgt W; apply sumIf_congr; intro r _; simp [Tgt.mem]
      rw [this, a6]; simp only [g0]; field_simp
    · simpa [Qs] using h0

/-- **TMLE, outcome model saturated**, treatment probabilities arbitrary positive functions of the stratum
    (misspecified, bounded, with or without a missingness model).  `σ` strictly increasing and `σ ∘ lg` the
    identity on the initial predictions (true of expit/logit on (0,1): `P03.expit_logit_real`).  The score equation
    has the root ε = 0 (saturated outcome model) and no other (strict monotonicity), so targeting leaves the
    predictions unchanged and the plug-in risks are the standardized risks. -/
theorem tmle_dr_outcome (σ lg : F → F) (hσ : StrictMono σ) (l : List (Row F)) (S : List Nat) (hS : Strata l S)
    (hS0 : S ≠ []) (hpos : Positivity l S) (hw : ∀ r ∈ l, r.w = 1) (Q : Nat → Bool → F) (hQ : OutFit l S Q)
    (hσlg : ∀ s ∈ S, ∀ a, σ (lg (Q s a)) = Q s a) (g1 g0 : Nat → F) (hg1 : ∀ s, 0 < g1 s) (hg0 : ∀ s, 0 < g0 s)
    (e1 e2 : F) (h1 : Tmle.eff1 σ lg e1 (l.map (toT Q g1 g0)) = 0)
    (h0 : Tmle.eff0 σ lg e2 (l.map (toT Q g1 g0)) = 0) :
    e1 = 0 ∧ e2 = 0 ∧
    Tmle.risk1Of (Tmle.targets σ lg e1 e2 (l.map (toT Q g1 g0))) = std l S Tgt.pop.mem true ∧
    Tmle.risk0Of (Tmle.targets σ lg e1 e2 (l.map (toT Q g1 g0))) = std l S Tgt.pop.mem false := by
  rw [eff1_eq σ lg e1 l hw Q g1 g0] at h1
  rw [eff0_eq σ lg e2 l hw Q g1 g0] at h0
  obtain ⟨s₀, hs₀⟩ := List.exists_mem_of_ne_nil S hS0
  -- arm 1
  have z1 := arm_score_zero σ l S hS true g1 Q hQ (fun s => lg (Q s true)) (fun s hs => hσlg s hs true)
  have he1 : e1 = 0 := by
    rw [arm_score_form σ l hw true g1 (fun s => lg (Q s true)) e1] at h1
    rw [arm_score_form σ l hw true g1 (fun s => lg (Q s true)) 0] at z1
    obtain ⟨r₀, hr₀, hc⟩ := hpos.2 s₀ hs₀ true
    refine score_root_unique σ hσ l _ _ _ ?_ r₀ hr₀ ?_ e1 0 h1 z1
    · intro r _; split
      · exact (one_div_pos.mpr (hg1 _)).le
      · exact le_rfl
    · simp only [inCell, Bool.and_eq_true, beq_iff_eq] at hc
      simp [hc.1.2, hc.2, hg1]
  -- arm 0: the fluctuation enters with the opposite sign
  have z0 := arm_score_zero σ l S hS false g0 Q hQ (fun s => lg (Q s false)) (fun s hs => hσlg s hs false)
  have he2 : e2 = 0 := by
    have h0' : sumIf (fun r => r.a == false && r.obs)
        (fun r => (1 / g0 r.s) * (r.w * (r.y - σ (lg (Q r.s false) + (-e2) / g0 r.s)))) l = 0 := by
      rw [← h0]; apply sumIf_congr; intro r _; rw [neg_div, ← sub_eq_add_neg]
    rw [arm_score_form σ l hw false g0 (fun s => lg (Q s false)) (-e2)] at h0'
    rw [arm_score_form σ l hw false g0 (fun s => lg (Q s false)) 0] at z0
    obtain ⟨r₀, hr₀, hc⟩ := hpos.2 s₀ hs₀ false
    have := score_root_unique σ hσ l _ _ _ ?_ r₀ hr₀ ?_ (-e2) 0 h0' z0
    · exact neg_eq_zero.mp this
    · intro r _; split
      · exact (one_div_pos.mpr (hg0 _)).le
      · exact le_rfl
    · simp only [inCell, Bool.and_eq_true, beq_iff_eq] at hc
      simp [hc.1.2, hc.2, hg0]
  refine ⟨he1, he2, ?_, ?_⟩
  · rw [risk1_eq σ lg e1 e2 l hw Q g1 g0, he1]
    rw [gformula_congr l _ (fun r => Q r.s) _ true
      (fun r hr => by simp only [zero_div, add_zero]; exact hσlg r.s (hS.2 r hr) true)]
    exact gformula_of_outfit l S hS hpos Q hQ _ true
  · rw [risk0_eq σ lg e1 e2 l hw Q g1 g0, he2]
    rw [gformula_congr l _ (fun r => Q r.s) _ false
      (fun r hr => by simp only [zero_div, sub_zero]; exact hσlg r.s (hS.2 r hr) false)]
    exact gformula_of_outfit l S hS hpos Q hQ _ false

/-- the outcome half over the reals with the model's own `expit` / `logitT` (no hypothesis left about `σ`):
    initial predictions strictly inside (0,1), as every logistic outcome model (after `bound`) delivers -/
theorem tmle_dr_outcome_real (l : List (Row ℝ)) (S : List Nat) (hS : Strata l S)
    (hS0 : S ≠ []) (hpos : Positivity l S) (hw : ∀ r ∈ l, r.w = 1) (Q : Nat → Bool → ℝ) (hQ : OutFit l S Q)
    (hQ01 : ∀ s ∈ S, ∀ a, 0 < Q s a ∧ Q s a < 1) (g1 g0 : Nat → ℝ) (hg1 : ∀ s, 0 < g1 s) (hg0 : ∀ s, 0 < g0 s)
    (e1 e2 : ℝ) (h1 : Tmle.eff1 Tmle.expit Tmle.logitT e1 (l.map (toT Q g1 g0)) = 0)
    (h0 : Tmle.eff0 Tmle.expit Tmle.logitT e2 (l.map (toT Q g1 g0)) = 0) :
    e1 = 0 ∧ e2 = 0 ∧
    Tmle.risk1Of (Tmle.targets Tmle.expit Tmle.logitT e1 e2 (l.map (toT Q g1 g0))) = std l S Tgt.pop.mem true ∧
    Tmle.risk0Of (Tmle.targets Tmle.expit Tmle.logitT e1 e2 (l.map (toT Q g1 g0))) = std l S Tgt.pop.mem false :=
  tmle_dr_outcome Tmle.expit Tmle.logitT P03.expit_real_strictMono l S hS hS0 hpos hw Q hQ
    (fun s hs a => P03.expit_logit_real _ (hQ01 s hs a).1 (hQ01 s hs a).2) g1 g0 hg1 hg0 e1 e2 h1 h0

/-- C01's TMLE clause: both nuisance models saturated (a special case of either half) -/
theorem tmle_saturated (σ lg : F → F) (l : List (Row F)) (S : List Nat) (hS : Strata l S) (hpos : Positivity l S)
    (hw : ∀ r ∈ l, r.w = 1) (Q : Nat → Bool → F) (p : Nat → F) (hp : PropFit l S p)
    (q : Nat → Bool → F) (hq : MissFit l S q) (e1 e2 : F)
    (h1 : Tmle.eff1 σ lg e1 (l.map (toT Q (fun s => p s * q s true) (fun s => (1 - p s) * q s false))) = 0)
    (h0 : Tmle.eff0 σ lg e2 (l.map (toT Q (fun s => p s * q s true) (fun s => (1 - p s) * q s false))) = 0) :
    let t := Tmle.targets σ lg e1 e2 (l.map (toT Q (fun s => p s * q s true) (fun s => (1 - p s) * q s false)))
    Tmle.rrOf t = std l S Tgt.pop.mem true / std l S Tgt.pop.mem false ∧
    Tmle.orOf t = (std l S Tgt.pop.mem true / (1 - std l S Tgt.pop.mem true))
      / (std l S Tgt.pop.mem false / (1 - std l S Tgt.pop.mem false)) := by
  intro t
  obtain ⟨a, b⟩ := tmle_dr_treatment σ lg l S hS hpos hw Q p hp q hq e1 e2 h1 h0
  refine ⟨?_, ?_⟩ <;> simp only [Tmle.rrOf, Tmle.orOf, t, a, b, Nat.cast_one]

/-! ### Truncation bounds (round 4)

`TMLE.outcome_model(bound=…)` clips the initial outcome predictions, `AIPSW.treatment_model(bound=…)` the fitted
treatment probabilities (`Bounds.applyB` on the interval `Bounds.estimatorBound` parses from the argument: a float, or
entries 0 and 1 of a collection). -/

/-- **TMLE, treatment model saturated, initial outcome predictions truncated**: a truncated `Q` is one more function of
    (stratum, arm), so however hard the bound bites the plug-in risks are the standardized risks. -/
theorem tmle_dr_treatment_truncated (σ lg : F → F) (l : List (Row F)) (S : List Nat) (hS : Strata l S)
    (hpos : Positivity l S) (hw : ∀ r ∈ l, r.w = 1) (Q : Nat → Bool → F) (iv : Option (F × F))
    (p : Nat → F) (hp : PropFit l S p) (q : Nat → Bool → F) (hq : MissFit l S q) (e1 e2 : F) :
    let Qb := fun s a => Bounds.applyB iv (Q s a)
    let g1 := fun s => p s * q s true
    let g0 := fun s => (1 - p s) * q s false
    Tmle.eff1 σ lg e1 (l.map (toT Qb g1 g0)) = 0 → Tmle.eff0 σ lg e2 (l.map (toT Qb g1 g0)) = 0 →
    Tmle.risk1Of (Tmle.targets σ lg e1 e2 (l.map (toT Qb g1 g0))) = std l S Tgt.pop.mem true ∧
    Tmle.risk0Of (Tmle.targets σ lg e1 e2 (l.map (toT Qb g1 g0))) = std l S Tgt.pop.mem false :=
  tmle_dr_treatment σ lg l S hS hpos hw (fun s a => Bounds.applyB iv (Q s a)) p hp q hq e1 e2

/-- **TMLE, outcome model saturated, a bound on the outcome predictions that the cell means do not reach** (and any
    positive treatment probabilities): the clipped predictions are still the saturated fit, so `tmle_dr_outcome` applies. -/
theorem tmle_dr_outcome_unreached_bound (σ lg : F → F) (hσ : StrictMono σ) (l : List (Row F)) (S : List Nat)
    (hS : Strata l S) (hS0 : S ≠ []) (hpos : Positivity l S) (hw : ∀ r ∈ l, r.w = 1) (Q : Nat → Bool → F)
    (hQ : OutFit l S Q) (iv : Option (F × F))
    (hun : ∀ lo hi, iv = some (lo, hi) → ∀ s ∈ S, ∀ a, lo ≤ Q s a ∧ Q s a ≤ hi)
    (hσlg : ∀ s ∈ S, ∀ a, σ (lg (Q s a)) = Q s a) (g1 g0 : Nat → F) (hg1 : ∀ s, 0 < g1 s) (hg0 : ∀ s, 0 < g0 s)
    (e1 e2 : F) :
    let Qb := fun s a => Bounds.applyB iv (Q s a)
    Tmle.eff1 σ lg e1 (l.map (toT Qb g1 g0)) = 0 → Tmle.eff0 σ lg e2 (l.map (toT Qb g1 g0)) = 0 →
    e1 = 0 ∧ e2 = 0 ∧
    Tmle.risk1Of (Tmle.targets σ lg e1 e2 (l.map (toT Qb g1 g0))) = std l S Tgt.pop.mem true ∧
    Tmle.risk0Of (Tmle.targets σ lg e1 e2 (l.map (toT Qb g1 g0))) = std l S Tgt.pop.mem false := by
  intro Qb h1 h0
  have hid : ∀ s ∈ S, ∀ a, Qb s a = Q s a := fun s hs a =>
    Bounds.applyB_unreached iv (Q s a) (fun lo hi e => hun lo hi e s hs a)
  have hQb : OutFit l S Qb := fun s hs a => by rw [hid s hs a]; exact hQ s hs a
  have hσb : ∀ s ∈ S, ∀ a, σ (lg (Qb s a)) = Qb s a := fun s hs a => by rw [hid s hs a]; exact hσlg s hs a
  exact tmle_dr_outcome σ lg hσ l S hS hS0 hpos hw Qb hQb hσb g1 g0 hg1 hg0 e1 e2 h1 h0

/-- **AIPSW, sampling and treatment models saturated, unstabilized weights, a treatment bound that the fitted
    treatment probabilities do not reach** -- the weights are those `iptw_calculator` builds from the clipped
    denominator and the clipped numerator (`Bounds.iptwRow`; the unstabilized numerator is the constant 1, which the
    bound does move, and which the unstabilized weight formula does not read): any outcome predictions. -/
theorem aipsw_dr_weights_unreached_bound (l : List (Row F)) (S : List Nat) (hS : Strata l S) (hpos : Positivity l S)
    (generalize : Bool) (Q : Nat → Bool → F) (a : Bool)
    (π : Nat → F) (hπ : SampFit l S π) (p : Nat → F) (hp : PropFitS l S p) (iv : Option (F × F))
    (hun : ∀ lo hi, iv = some (lo, hi) → ∀ s ∈ S, lo ≤ p s ∧ p s ≤ hi) :
    aipsw generalize l (fun r => Q r.s)
        (aipswOmega generalize false (fun _ => 1) (fun r => π r.s)
          (fun r => (Bounds.iptwRow false "population" iv r.a 1 (p r.s)).2.2)) a
      = std l S (genTarget generalize) a := by
  rw [← aipsw_dr_weights_partial l S hS hpos generalize Q a π hπ p hp]
  have hps : ∀ r ∈ l, Bounds.applyB iv (p r.s) = p r.s := fun r hr =>
    Bounds.applyB_unreached iv (p r.s) (fun lo hi e => hun lo hi e r.s (hS.2 r hr))
  unfold aipsw
  congr 2
  apply sumIf_congr; intro r hr
  simp only [aipswOmega, popTreatWeight, Bounds.iptwRow, hps r hr, Gen.iptw_weight]
  simp

/-! ### Non-vacuity: a concrete data set on which the hypotheses of the double-robustness theorems hold

2 strata × 2 arms, unit weights, complete outcomes.  The *misspecified* halves are deliberately wrong: treatment
probabilities `1/2`, `1/3` (they do not even sum to one) against saturated outcome means; outcome predictions `0`
against the saturated treated fractions 2/3 and 1/3. -/
def exD : List (Row ℚ) :=
  [⟨0, 0, true, 1, 1, true⟩, ⟨1, 0, true, 0, 1, true⟩, ⟨2, 0, false, 1, 1, true⟩,
   ⟨3, 1, true, 1, 1, true⟩, ⟨4, 1, false, 0, 1, true⟩, ⟨5, 1, false, 1, 1, true⟩]

/-- the saturated outcome fit of `exD` (cell means) -/
def exQ : Nat → Bool → ℚ := fun s a => if s = 0 then (if a then 1/2 else 1) else (if a then 1 else 1/2)

example : Strata exD [0, 1] ∧ Positivity exD [0, 1] ∧ (∀ r ∈ exD, r.obs = true) ∧ (∀ r ∈ exD, r.w = 1) := by
  refine ⟨⟨by decide, by decide⟩, ⟨by decide, ?_⟩, by decide, by decide⟩
  intro s hs a
  simp only [List.mem_cons, List.not_mem_nil, or_false] at hs
  rcases hs with rfl | rfl <;> cases a <;> simp [exD, inCell]

example : OutFit exD [0, 1] exQ := by
  intro s hs a; simp only [List.mem_cons, List.not_mem_nil, or_false] at hs
  rcases hs with rfl | rfl <;> cases a <;> norm_num [exD, exQ, W, WY, sumIf, sumBy, inCell]

example : PropFit exD [0, 1] (fun s => if s = 0 then 2/3 else 1/3) ∧ MissFit exD [0, 1] (fun _ _ => 1) := by
  constructor
  · intro s hs; simp only [List.mem_cons, List.not_mem_nil, or_false] at hs
    rcases hs with rfl | rfl <;> norm_num [exD, W, sumIf, sumBy, inStratum, inCellAll]
  · intro s hs a; simp only [List.mem_cons, List.not_mem_nil, or_false] at hs
    rcases hs with rfl | rfl <;> cases a <;> norm_num [exD, W, sumIf, sumBy, inCell, inCellAll]

/-- the efficient-score hypotheses of `tmle_dr_outcome` are met (at ε = 0, identity link, saturated outcome fit,
    misspecified treatment probabilities 1/2 and 1/3), and its conclusion is not trivial: the standardized risk under
    treatment is 3/4 -/
example : Tmle.eff1 id id 0 (exD.map (toT exQ (fun _ => 1/2) (fun _ => 1/3))) = 0 ∧
    Tmle.eff0 id id 0 (exD.map (toT exQ (fun _ => 1/2) (fun _ => 1/3))) = 0 ∧
    std exD [0, 1] Tgt.pop.mem true = 3/4 := by
  refine ⟨?_, ?_, ?_⟩
  · norm_num [Tmle.eff1, Tmle.obsRows, Tmle.ind, Tmle.qstar1, toT, exD, exQ, sumBy]
  · norm_num [Tmle.eff0, Tmle.obsRows, Tmle.ind, Tmle.qstar0, toT, exD, exQ, sumBy]
  · norm_num [std, Ntgt, cellMean, exD, W, WY, sumIf, sumBy, inCell, inStratum, Tgt.mem]

/-- the outcome bound (1/4, 1, 1/2) -- three entries, the third ignored -- is not reached by the saturated fit `exQ`
    (cell means 1/2 and 1), and the bound [2/5, 3/5] bites on it: both kinds of hypothesis are satisfiable -/
example : Bounds.estimatorBound false (.seq [some (1/4 : ℚ), some 1, some (1/2)]) = .ok (some (1/4, 1)) ∧
    (∀ s ∈ [0, 1], ∀ a, (1/4 : ℚ) ≤ exQ s a ∧ exQ s a ≤ 1) ∧
    Bounds.applyB (some ((2/5 : ℚ), 3/5)) (exQ 0 false) = 3/5 := by
  refine ⟨by norm_num [Bounds.estimatorBound, Bounds.parseBound], ?_, by norm_num [Bounds.applyB, Bounds.clip1, exQ]⟩
  intro s hs a; simp only [List.mem_cons, List.not_mem_nil, or_false] at hs
  rcases hs with rfl | rfl <;> cases a <;> norm_num [exQ]

/-! ### Witnesses -/

/-- 1 stratum, sample: arm 1 {1,1,0}, arm 0 {0,1}; target: 5 rows.  Saturated fits: π = 1/2, p = 3/5;
    marginal numerators = the same (one stratum).  Outcome model misspecified as the constant 0. -/
def exG : List (Row ℚ) :=
  [⟨0, 0, true, 1, 1, true⟩, ⟨1, 0, true, 1, 1, true⟩, ⟨2, 0, true, 0, 1, true⟩, ⟨3, 0, false, 0, 1, true⟩,
   ⟨4, 0, false, 1, 1, true⟩, ⟨5, 0, false, 0, 1, false⟩, ⟨6, 0, false, 0, 1, false⟩, ⟨7, 0, false, 0, 1, false⟩,
   ⟨8, 0, false, 0, 1, false⟩, ⟨9, 0, false, 0, 1, false⟩]

example : SampFit exG [0] (fun _ => 1/2) ∧ PropFitS exG [0] (fun _ => 3/5) := by
  constructor <;> intro s hs <;> simp only [List.mem_cons, List.not_mem_nil, or_false] at hs <;> subst hs <;>
    norm_num [exG, W, sumIf, sumBy, inStratum, inSample, inCell]

/-- **F11**: with *stabilized* weights from saturated sampling and treatment models and a misspecified
    outcome model, AIPSW (generalize) differs from the standardized risk (2/3): it returns 1/5. -/
theorem aipsw_stab_not_dr :
    aipsw true exG (fun _ _ => 0)
        (aipswOmega true true (fun _ => 1/2) (fun _ => 1/2) (popTreatWeight true (fun _ => 3/5) (fun _ => 3/5))) true
      ≠ std exG [0] (genTarget true) true := by
  norm_num [aipsw, aipswOmega, popTreatWeight, Gen.aipsw_weight, Gen.iptw_weight, std, Ntgt, cellMean, W, WY,
    sumIf, sumBy, exG, inCell, inStratum, genTarget]

/-- with both sides misspecified the estimate does move (the hypotheses of the DR theorems are not vacuous
    decoration): unstabilized weights from a wrong sampling probability 1/4 and outcome model 0 -/
theorem both_misspecified_can_move :
    aipsw true exG (fun _ _ => 0)
        (aipswOmega true false (fun _ => 1) (fun _ => 1/4) (popTreatWeight false (fun _ => 1) (fun _ => 3/5))) true
      ≠ std exG [0] (genTarget true) true := by
  norm_num [aipsw, aipswOmega, popTreatWeight, Gen.aipsw_weight, Gen.iptw_weight, std, Ntgt, cellMean, W, WY,
    sumIf, sumBy, exG, inCell, inStratum, genTarget]

end ZV.P02
