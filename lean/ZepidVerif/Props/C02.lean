/-
C02 — Exact finite-sample double robustness of AIPTW, TMLE and AIPSW.

Subject: `ZV.Std.aipw1/aipw0` (generated `aipw_calculator` pseudo-outcome lines), `ZV.Std.aipsw`
(AIPSW.fit with the generated sampling-weight formula) — the definitions the driver executes.
A misspecified nuisance model is *any* function of the covariate stratum (and arm): that covers
every sub-model of the saturated one, the empty model included.

AIPSW with *stabilized* weights is not doubly robust on the weight side (finding F11): the
full statement is refuted by `aipsw_stab_not_dr`, the proved part is `aipsw_dr_weights_partial`
(unstabilized) — see DESIGN §5.  TMLE's two halves are `tmle_dr_outcome` / `tmle_dr_treatment` below.
-/
import ZepidVerif.Lemmas.Aipw
import ZepidVerif.Lemmas.Generalize
import ZepidVerif.Props.C16
import Mathlib.Algebra.Order.Field.Rat
import Mathlib.Tactic.NormNum
set_option linter.unusedSectionVars false
set_option linter.unusedVariables false
namespace ZV.P02
open ZV ZV.Std

variable {F : Type} [Field F] [LinearOrder F] [IsStrictOrderedRing F] [Transc F]

/-- **AIPTW, outcome model saturated**, treatment probabilities arbitrary non-zero functions of the stratum
    (`g1` for `Pr(A=1|L)`, `g0` for `Pr(A=0|L)`; they need not even sum to one: bounding) -/
theorem aipw_dr_outcome (l : List (Row F)) (S : List Nat) (hS : Strata l S) (hpos : Positivity l S)
    (hobs : ∀ r ∈ l, r.obs = true) (Q : Nat → Bool → F) (hQ : OutFit l S Q) (g1 g0 : Nat → F)
    (h1 : ∀ s ∈ S, g1 s ≠ 0) (h0 : ∀ s ∈ S, g0 s ≠ 0) :
    aipw1 l (fun r => Q r.s) (fun r => g1 r.s) (fun r => g0 r.s) = std l S Tgt.pop.mem true ∧
    aipw0 l (fun r => Q r.s) (fun r => g1 r.s) (fun r => g0 r.s) = std l S Tgt.pop.mem false :=
  ⟨aipw1_of_outfit l S hS hpos hobs Q hQ g1 g0 h1, aipw0_of_outfit l S hS hpos hobs Q hQ g1 g0 h0⟩

/-- **AIPTW, treatment model saturated**, outcome predictions arbitrary functions of (stratum, arm) -/
theorem aipw_dr_treatment (l : List (Row F)) (S : List Nat) (hS : Strata l S) (hpos : Positivity l S)
    (hobs : ∀ r ∈ l, r.obs = true) (Q : Nat → Bool → F) (p : Nat → F) (hp : PropFit l S p) :
    aipw1 l (fun r => Q r.s) (fun r => p r.s) (fun r => 1 - p r.s) = std l S Tgt.pop.mem true ∧
    aipw0 l (fun r => Q r.s) (fun r => p r.s) (fun r => 1 - p r.s) = std l S Tgt.pop.mem false :=
  ⟨aipw1_of_propfit l S hS hpos hobs Q p hp (fun s => 1 - p s), aipw0_of_propfit l S hS hpos hobs Q p hp p⟩

/-- **AIPSW, outcome model saturated**: any weights (stabilized or not, with or without treatment model,
    generalize or transport) -/
theorem aipsw_dr_outcome (l : List (Row F)) (S : List Nat) (hS : Strata l S) (hpos : Positivity l S)
    (generalize : Bool) (Q : Nat → Bool → F) (hQ : OutFit l S Q) (a : Bool)
    (ω : Row F → F) (Ω : Nat → F) (hω : ∀ r ∈ l, r.a = a → r.obs = true → ω r = Ω r.s) :
    aipsw generalize l (fun r => Q r.s) ω a = std l S (genTarget generalize) a :=
  P16.aipsw_outcome_saturated l S hS hpos generalize Q hQ a ω Ω hω

/-- **AIPSW, sampling and treatment models saturated, unstabilized weights**: any outcome predictions.
    (Partial: the property claims this for stabilized weights too; that is false of the code — F11.) -/
theorem aipsw_dr_weights_partial (l : List (Row F)) (S : List Nat) (hS : Strata l S) (hpos : Positivity l S)
    (generalize : Bool) (Q : Nat → Bool → F) (a : Bool)
    (π : Nat → F) (hπ : SampFit l S π) (p : Nat → F) (hp : PropFitS l S p) :
    aipsw generalize l (fun r => Q r.s)
        (aipswOmega generalize false (fun _ => 1) (fun r => π r.s) (popTreatWeight false (fun _ => 1) (fun r => p r.s))) a
      = std l S (genTarget generalize) a :=
  P16.aipsw_weights_saturated_unstab l S hS hpos generalize Q a π hπ p hp

/-! ### Witnesses -/

/-- 1 stratum, sample: arm 1 {1,1,0}, arm 0 {0,1}; target: 5 rows.  Saturated fits: π = 1/2, p = 3/5;
    marginal numerators = the same (one stratum).  Outcome model misspecified as the constant 0. -/
def exG : List (Row ℚ) :=
  [⟨0, 0, true, 1, 1, true⟩, ⟨1, 0, true, 1, 1, true⟩, ⟨2, 0, true, 0, 1, true⟩, ⟨3, 0, false, 0, 1, true⟩,
   ⟨4, 0, false, 1, 1, true⟩, ⟨5, 0, false, 0, 1, false⟩, ⟨6, 0, false, 0, 1, false⟩, ⟨7, 0, false, 0, 1, false⟩,
   ⟨8, 0, false, 0, 1, false⟩, ⟨9, 0, false, 0, 1, false⟩]

example : SampFit exG [0] (fun _ => 1/2) ∧ PropFitS exG [0] (fun _ => 3/5) := by
  constructor <;> intro s hs <;> simp only [List.mem_cons, List.not_mem_nil, or_false] at hs <;> subst hs <;>
    norm_num [exG, W, sumIf, sumBy, inStratum, inSample, inCell]

/-- **F11**: with *stabilized* weights from saturated sampling and treatment models and a misspecified
    outcome model, AIPSW (generalize) differs from the standardized risk (2/3): it returns 1/5. -/
theorem aipsw_stab_not_dr :
    aipsw true exG (fun _ _ => 0)
        (aipswOmega true true (fun _ => 1/2) (fun _ => 1/2) (popTreatWeight true (fun _ => 3/5) (fun _ => 3/5))) true
      ≠ std exG [0] (genTarget true) true := by
  norm_num [aipsw, aipswOmega, popTreatWeight, Gen.aipsw_weight, Gen.iptw_weight, std, Ntgt, cellMean, W, WY,
    sumIf, sumBy, exG, inCell, inStratum, genTarget]

/-- with both sides misspecified the estimate does move (the hypotheses of the DR theorems are not vacuous
    decoration): unstabilized weights from a wrong sampling probability 1/4 and outcome model 0 -/
theorem both_misspecified_can_move :
    aipsw true exG (fun _ _ => 0)
        (aipswOmega true false (fun _ => 1) (fun _ => 1/4) (popTreatWeight false (fun _ => 1) (fun _ => 3/5))) true
      ≠ std exG [0] (genTarget true) true := by
  norm_num [aipsw, aipswOmega, popTreatWeight, Gen.aipsw_weight, Gen.iptw_weight, std, Ntgt, cellMean, W, WY,
    sumIf, sumBy, exG, inCell, inStratum, genTarget]

end ZV.P02
