/-
C03, tie to the source: `TMLE.fit`, regenerated on every run into `Gen/TmleFit.lean`, computes the model the theorems
of `Props/C03.lean` (and of C02, C06 about TMLE) are about.  A module of its own, so that the property modules that
import `Props/C03.lean` for the model's theorems do not depend on the generated text.
-/
import ZepidVerif.Props.C03
import ZepidVerif.Lemmas.TmleFitBridge
import ZepidVerif.Gen.Xfit
set_option linter.unusedSectionVars false
set_option linter.unusedVariables false
namespace ZV.P03
open ZV ZV.Tmle ZV.Gen ZV.Tmle.L

variable {F : Type} [Field F] [LinearOrder F] [IsStrictOrderedRing F]

/-- The definition regenerated from the text of `TMLE.fit` (binary outcome: clever covariates, targeted predictions,
    plug-ins, the three influence curves, standard errors and limits) returns exactly what the model `fitBinary`,
    `zalpha`, `ciLin`, `ciLog` returns — so every theorem of this file, of C02 and of C06 about the model is a theorem
    about the code as it is written today. -/
theorem tmle_fit_generated_binary [Transc F] (σ lg ppf : F → F) (alpha e1 e2 mini maxi : F) (l : List (TRow F)) :
    tmle_fit_binary σ lg ppf false alpha e1 e2 mini maxi l (fun r => r.g1) (fun r => r.g0) (fun _ => 1) (fun _ => 1) qa
      = ((fitBinary σ lg e1 e2 l).rd, (fitBinary σ lg e1 e2 l).rdSe,
         ciLin (fitBinary σ lg e1 e2 l).rd (zalpha ppf alpha) (fitBinary σ lg e1 e2 l).rdSe,
         (fitBinary σ lg e1 e2 l).rr, (fitBinary σ lg e1 e2 l).rrSe,
         ciLog (fitBinary σ lg e1 e2 l).rr (zalpha ppf alpha) (fitBinary σ lg e1 e2 l).rrSe,
         (fitBinary σ lg e1 e2 l).or_, (fitBinary σ lg e1 e2 l).orSe,
         ciLog (fitBinary σ lg e1 e2 l).or_ (zalpha ppf alpha) (fitBinary σ lg e1 e2 l).orSe) :=
  tmle_fit_binary_eq σ lg ppf alpha e1 e2 mini maxi l

/-- four rows: two treated, two untreated, one of each with outcome 1; initial fit 1/4, g = 1/2, and
    coefficients (1/8, −1/8) move every prediction to 1/2, which solves the score equations -/
def exRows : List (TRow ℚ) :=
  [⟨true, true, 1, 1/4, 1/4, 1/2, 1/2⟩, ⟨true, true, 0, 1/4, 1/4, 1/2, 1/2⟩,
   ⟨false, true, 1, 1/4, 1/4, 1/2, 1/2⟩, ⟨false, true, 0, 1/4, 1/4, 1/2, 1/2⟩,
   ⟨true, false, 0, 1/4, 1/4, 1/2, 1/2⟩]

example : scoreH1 id id (1/8) (-1/8) exRows = 0 ∧ scoreH0 id id (1/8) (-1/8) exRows = 0 ∧
    qstarA id id (1/8) (-1/8) ⟨true, true, 1, 1/4, 1/4, 1/2, 1/2⟩ = 1/2 := by
  simp only [scoreH1, scoreH0, exRows, obsRows, List.filter, sumBy, qstarA, h1, h0, qa, ind, id]; norm_num

example : eff1 id id (1/8) exRows = 0 ∧ eff0 id id (-1/8) exRows = 0 := by
  have h := score_equations id id (1/8) (-1/8) exRows
    (by simp only [scoreH1, exRows, obsRows, List.filter, sumBy, qstarA, h1, h0, qa, ind, id]; norm_num)
    (by simp only [scoreH0, exRows, obsRows, List.filter, sumBy, qstarA, h1, h0, qa, ind, id]; norm_num)
  exact ⟨h.1, h.2.1⟩

example : rdOf ([⟨3/4, 1/4⟩, ⟨1/2, 1/4⟩] : List (QS ℚ)) = 5/8 - 1/4 ∧
    ateOf 10 20 ([⟨3/4, 1/4⟩, ⟨1/2, 1/4⟩] : List (QS ℚ)) = 10 * (5/8 - 1/4) := by
  simp only [rdOf, ateOf, mean, sumBy, tmle_unit_unbound, List.length]; norm_num

example : tmle_unit_unbound (tmle_unit_bounds (13 : ℚ) 10 20 (1/2000)) 10 20 = 13 :=
  unit_roundtrip 13 10 20 (1/2000) (by norm_num) (by norm_num) (by norm_num)

example : |tmle_unit_unbound (tmle_unit_bounds (10 : ℚ) 10 20 (1/2000)) 10 20 - 10| ≤ 1/2000 * (20 - 10) :=
  unit_roundtrip_clip 10 10 20 (1/2000) (by norm_num) (by norm_num) (by norm_num) (by norm_num) (by norm_num)

/-! ### Tie to the source: `TMLE.fit` regenerated on every run computes the model -/

theorem tmle_fit_generated_continuous [Transc F] (σ lg ppf : F → F) (alpha e1 e2 mini maxi : F) (l : List (TRow F)) :
    tmle_fit_continuous σ lg ppf false alpha e1 e2 mini maxi l (fun r => r.g1) (fun r => r.g0) (fun _ => 1) (fun _ => 1) qa
      = ((fitContinuous σ lg e1 e2 mini maxi l).rd, (fitContinuous σ lg e1 e2 mini maxi l).rdSe,
         ciLin (fitContinuous σ lg e1 e2 mini maxi l).rd (zalpha ppf alpha) (fitContinuous σ lg e1 e2 mini maxi l).rdSe) :=
  tmle_fit_continuous_eq σ lg ppf alpha e1 e2 mini maxi l

/-- with missing outcomes and a missingness model the generated code first forms the total probabilities `g·m`
    (the model's `gTotal true`) and is otherwise the same function of them -/
theorem tmle_fit_generated_useMiss [Transc F] (σ lg ppf : F → F) (alpha e1 e2 mini maxi : F) (l : List (TRow F))
    (g1W g0W m1W m0W qaw : TRow F → F) :
    tmle_fit_binary σ lg ppf true alpha e1 e2 mini maxi l g1W g0W m1W m0W qaw
      = tmle_fit_binary σ lg ppf false alpha e1 e2 mini maxi l (fun r => gTotal true (g1W r) (m1W r))
          (fun r => gTotal true (g0W r) (m0W r)) m1W m0W qaw ∧
    tmle_fit_continuous σ lg ppf true alpha e1 e2 mini maxi l g1W g0W m1W m0W qaw
      = tmle_fit_continuous σ lg ppf false alpha e1 e2 mini maxi l (fun r => gTotal true (g1W r) (m1W r))
          (fun r => gTotal true (g0W r) (m0W r)) m1W m0W qaw :=
  ⟨by simpa [gTotal] using tmle_fit_binary_useMiss σ lg ppf alpha e1 e2 mini maxi l g1W g0W m1W m0W qaw,
   by simpa [gTotal] using tmle_fit_continuous_useMiss σ lg ppf alpha e1 e2 mini maxi l g1W g0W m1W m0W qaw⟩

/-- **Cross-fit TMLE.**  `crossfit.targeting_step`, regenerated on every run (`Gen/Xfit.lean`), computes for a row of
    a split — with the fluctuation coefficients fitted on that split — exactly the model's clever covariates and
    targeted predictions: so the score-equation and range theorems of this file, stated for a row list and a pair of
    coefficients, are theorems about each split of the cross-fit classes. -/
theorem xfit_targeting_generated [Transc F] (σ lg : F → F) (e1 e2 : F) (r : TRow F) :
    xfit_h1w (ind r.a) r.g1 = h1 r ∧ xfit_h0w (ind r.a) r.g0 = h0 r ∧ xfit_haw (h1 r) (h0 r) = haw r ∧
    xfit_py_o (ind r.a) r.q1 r.q0 = qa r ∧
    xfit_ystar1 σ lg e1 r.q1 r.g1 = qstar1 σ lg e1 r ∧
    xfit_ystar0 σ lg e2 r.q0 r.g0 = qstar0 σ lg e2 r ∧
    xfit_ystara σ lg e1 e2 (h1 r) (h0 r) (qa r) = qstarA σ lg e1 e2 r := by
  refine ⟨rfl, rfl, rfl, ?_, rfl, rfl, rfl⟩
  simp only [xfit_py_o, qa]
  ring

end ZV.P03
