/-
C13, tie to the source: the bookkeeping of the simulation loop of `MonteCarloGFormula.fit`
(zepid/causal/gformula/TimeVary.py), regenerated on every run into `Gen/MonteCarlo.lean`:
  `mc_init`       the background preparations `gs[outcome] = 0`, `g['uncensored'] = 1`
  `mc_iterations` the loop header `for i in range(int(t_max))`
  `mc_alive`      the restriction at the top of every iteration to those without an event and uncensored
  `mc_step`       one iteration for one individual: time index, in_recode, covariate block, treatment by plan
                  ('all' / 'none' / 'natural' / custom string), outcome draw, `time_out = i + 1`, censoring zeroing the
                  outcome, everyone censored in the last iteration, out_recode, lag update — user code strings, the
                  covariate / lag blocks and the draws are parameters
  `mc_stacked`    the `low_memory` switch.
`mc_step_generated`: with the parameters instantiated by the model's pieces (`genStep`, `Model/MonteCarloGen.lean`) an
iteration is `(step …).out`; `mc_history_generated`: the loop run by the regenerated pieces produces the model's history
`simOne`; so the theorems of `Props/C13.lean` hold of the regenerated loop (`…_generated`).
-/
import ZepidVerif.Props.C13
import ZepidVerif.Model.MonteCarloGen
set_option linter.unusedSectionVars false
set_option linter.unusedVariables false
namespace ZV.P13
open ZV ZV.MC

variable {V : Type} [NatCast V] [Add V] [Mul V] [DecidableEq V] [LT V] [DecidableLT V] [LE V] [DecidableLE V]

/-! ### tie of the simulation loop to the source -/

/-- the `treatment` string of a plan: 'all' / 'none' / 'natural', anything else is a custom rule -/
def PlanString (p : Plan V) (s : String) : Prop :=
  match p with
  | .all => s = "all"
  | .none => s = "none"
  | .natural => s = "natural"
  | .custom _ => s ≠ "all" ∧ s ≠ "none" ∧ s ≠ "natural"

/-- **one iteration of the loop as regenerated = `step` of the model** (the record appended to the output): time index,
    recodes, covariate block, plan, outcome draw, `time_out`, censoring zeroing the outcome, last-iteration censoring,
    lag update — in the order of the source -/
theorem mc_step_generated (cfg : Config V) (s : String) (hs : PlanString cfg.plan s) (tmax i : Nat) (hi : i < tmax)
    (d : StepDraw V) (e : Env V) :
    genStep cfg s tmax i d e = (step cfg tmax i d e).out := by
  have hlast : (i = tmax - 1) ↔ (i + 1 = tmax) := by omega
  cases hp : cfg.plan with
  | all =>
    rw [hp] at hs; simp only [PlanString] at hs; subst hs
    unfold genStep covBlock Gen.mc_step step envPre envLast envCens envY
    try simp only [Nat.add_comm 1 i]
    simp only [hlast, envPlan, hp, envCov, envIn, if_true]
    cases cfg.cens <;> by_cases h : i + 1 = tmax <;> simp [h]
  | none =>
    rw [hp] at hs; simp only [PlanString] at hs; subst hs
    unfold genStep covBlock Gen.mc_step step envPre envLast envCens envY
    try simp only [Nat.add_comm 1 i]
    simp only [hlast, envPlan, hp, envCov, envIn]
    cases cfg.cens <;> by_cases h : i + 1 = tmax <;> simp [h]
  | natural =>
    rw [hp] at hs; simp only [PlanString] at hs; subst hs
    unfold genStep covBlock Gen.mc_step step envPre envLast envCens envY
    try simp only [Nat.add_comm 1 i]
    simp only [hlast, envPlan, envRule, hp, envCov, envIn]
    cases cfg.cens <;> by_cases h : i + 1 = tmax <;> simp [h]
  | custom r =>
    rw [hp] at hs; simp only [PlanString] at hs
    obtain ⟨h1, h2, h3⟩ := hs
    have hr : ruleOf cfg.plan = r.eval := by rw [hp]; rfl
    unfold genStep covBlock
    rw [hr]
    unfold Gen.mc_step step envPre envLast envCens envY
    try simp only [Nat.add_comm 1 i]
    simp only [hlast, envPlan, envRule, hp, envCov, envIn, h1, h2, h3, if_false]
    cases cfg.cens <;> by_cases h : i + 1 = tmax <;>
      simp only [h, if_true, if_false, Bool.false_eq_true, decide_eq_true_eq] <;> rfl

/-- the at-risk filter, the low-memory filter and the background preparation as regenerated are the model's -/
theorem mc_filters_generated (cfg : Config V) (e : Env V) :
    Gen.mc_alive cfg.cols e = alive cfg e ∧ Gen.mc_stacked cfg.cols true e = keep cfg e ∧
    Gen.mc_stacked cfg.cols false e = true ∧ Gen.mc_init cfg.cols e = initRow cfg e ∧
    (∀ tmax, Gen.mc_iterations tmax = List.range tmax) := by
  refine ⟨?_, ?_, rfl, rfl, fun _ => rfl⟩
  · first
    | rfl
    | (simp only [Gen.mc_alive, alive]; exact Bool.and_comm _ _)       -- the two conditions written in the other order
  · first
    | rfl
    | (simp only [Gen.mc_stacked, keep, if_true]; exact Bool.or_comm _ _)

/-- storing a row's leading columns (`Env.freeze`, driver-side efficiency) does not change the row -/
theorem freeze_eq (n : Nat) (e : Env V) : e.freeze n = e := by
  cases e with
  | mk f =>
    simp only [Env.freeze]
    congr 1
    funext j
    split
    · simp
    · rfl

theorem genSimFrom_eq (nc : Nat) (cfg : Config V) (s : String) (hs : PlanString cfg.plan s) (tmax : Nat)
    (draws : Nat → StepDraw V) :
    ∀ (fuel i : Nat) (e : Env V), i + fuel = tmax →
      genSimFrom nc cfg s tmax draws fuel i e = (simFrom cfg tmax draws fuel i e).map (·.out)
  | 0, _, _, _ => rfl
  | fuel + 1, i, e, h => by
    have hi : i < tmax := by omega
    have ha : Gen.mc_alive cfg.cols = alive cfg := funext fun x => (mc_filters_generated cfg x).1
    simp only [genSimFrom, simFrom, List.map_cons, freeze_eq, mc_step_generated cfg s hs tmax i hi, ha]
    split
    · rw [genSimFrom_eq nc cfg s hs tmax draws fuel (i + 1) _ (by omega)]
    · rfl

/-- **the simulated history of one individual, produced by the regenerated loop, is the model's history** (the rows of
    `predicted_outcomes` for that `uid_g_zepid`, `low_memory=False`) -/
theorem mc_history_generated (nc : Nat) (cfg : Config V) (s : String) (hs : PlanString cfg.plan s) (tmax : Nat)
    (draws : Nat → StepDraw V) (b : Env V) :
    genSimOne nc cfg s tmax draws b = (simOne cfg tmax draws b).map (·.out) := by
  unfold genSimOne simOne Gen.mc_iterations
  rw [List.length_range]
  exact genSimFrom_eq nc cfg s hs tmax draws tmax 0 _ (by omega)

section
variable (nc : Nat) (cfg : Config V) (s : String) (hp : PlanString cfg.plan s) (tmax : Nat) (draws : Nat → StepDraw V)
  (b : Env V)
include hp

/-- `no_record_after_stop`, for the regenerated loop: a record that has a successor has no event and is uncensored -/
theorem no_record_after_stop_generated (j : Nat) (hj : j + 1 < (genSimOne nc cfg s tmax draws b).length) :
    ((genSimOne nc cfg s tmax draws b)[j]'(by omega)) cfg.cols.y = ((0 : Nat) : V) ∧
    ((genSimOne nc cfg s tmax draws b)[j]'(by omega)) cfg.cols.unc = ((1 : Nat) : V) := by
  have e := mc_history_generated nc cfg s hp tmax draws b
  have hl : (genSimOne nc cfg s tmax draws b).length = (simOne cfg tmax draws b).length := by rw [e, List.length_map]
  have := no_record_after_stop cfg tmax draws b j (by omega)
  simp only [e, List.getElem_map]
  exact this

/-- `within_tmax`, for the regenerated loop: at most `t_max` records (record `j` has `time_out = j + 1`) -/
theorem within_tmax_generated (j : Nat) (hj : j < (genSimOne nc cfg s tmax draws b).length) : j + 1 ≤ tmax := by
  have e := mc_history_generated nc cfg s hp tmax draws b
  exact within_tmax cfg tmax draws b j (by rw [e, List.length_map] at hj; exact hj)

/-- `times_consecutive`, for the regenerated loop -/
theorem times_consecutive_generated (hs : Safe cfg) (j : Nat) (hj : j < (genSimOne nc cfg s tmax draws b).length) :
    ((genSimOne nc cfg s tmax draws b)[j]) cfg.cols.tin = ((j : Nat) : V) ∧
    ((genSimOne nc cfg s tmax draws b)[j]) cfg.cols.tout = ((j + 1 : Nat) : V) := by
  have e := mc_history_generated nc cfg s hp tmax draws b
  have := times_consecutive cfg tmax draws b hs j (by rw [e, List.length_map] at hj; exact hj)
  simp only [e, List.getElem_map]
  exact this

/-- `plan_all` / `plan_none`, for the regenerated loop called with `treatment='all'` / `'none'` -/
theorem plan_all_none_generated (hs : Safe cfg) :
    (cfg.plan = .all → ∀ r ∈ genSimOne nc cfg s tmax draws b, r cfg.cols.a = ((1 : Nat) : V)) ∧
    (cfg.plan = .none → ∀ r ∈ genSimOne nc cfg s tmax draws b, r cfg.cols.a = ((0 : Nat) : V)) := by
  have e := mc_history_generated nc cfg s hp tmax draws b
  constructor
  · intro h r hr
    rw [e] at hr
    obtain ⟨x, hx, rfl⟩ := List.mem_map.mp hr
    exact plan_all cfg tmax draws b hs h x hx
  · intro h r hr
    rw [e] at hr
    obtain ⟨x, hx, rfl⟩ := List.mem_map.mp hr
    exact plan_none cfg tmax draws b hs h x hx

/-- `lowmem_one`, for the regenerated loop and the regenerated `low_memory` filter: it keeps exactly the last record -/
theorem lowmem_generated (hs : Safe cfg) (h01 : Num01 V) (hY : OutcomeSign cfg tmax draws b) (h : 0 < tmax) :
    (genSimOne nc cfg s tmax draws b).filter (Gen.mc_stacked cfg.cols true) = (genSimOne nc cfg s tmax draws b).getLast?.toList ∧
    (genSimOne nc cfg s tmax draws b).filter (Gen.mc_stacked cfg.cols false) = genSimOne nc cfg s tmax draws b := by
  have e := mc_history_generated nc cfg s hp tmax draws b
  have hne : simOne cfg tmax draws b ≠ [] := simFrom_ne_nil cfg tmax draws tmax 0 (initRow cfg b) h
  have h1 := lowmem_one cfg tmax draws b hs h01 hY h hne
  constructor
  · rw [e, List.filter_map]
    have hk : (Gen.mc_stacked cfg.cols true ∘ fun r : StepOut V => r.out) = fun r => keep cfg r.out :=
      funext fun x => (mc_filters_generated cfg x.out).2.1
    rw [hk, h1, List.getLast?_map, List.getLast?_eq_some_getLast hne]
    rfl
  · exact List.filter_eq_self.mpr (fun _ _ => rfl)

end

/-- the string the driver hands to the regenerated loop stands for the plan -/
theorem planStr_ok (p : Plan V) : PlanString p (planStr p) := by
  cases p <;> simp [PlanString, planStr]

/-! ### Non-vacuity: the regenerated iteration executed on the examples of `Props/C13.lean` -/

/-- the first iteration under 'all' (t_max = 5): exposure 1, time_in 0, time_out 1, as the model's step -/
example : (genStep Ex.cfgAll "all" 5 0 (Ex.draws 0) (Gen.mc_init Ex.cfgAll.cols Ex.base)) 0 = 1 ∧
    (genStep Ex.cfgAll "all" 5 0 (Ex.draws 0) (Gen.mc_init Ex.cfgAll.cols Ex.base)) 2 = 0 ∧
    (genStep Ex.cfgAll "all" 5 0 (Ex.draws 0) (Gen.mc_init Ex.cfgAll.cols Ex.base)) 3 = 1 ∧
    (genStep Ex.cfgAll "all" 5 0 (Ex.draws 0) (Gen.mc_init Ex.cfgAll.cols Ex.base)) 3
      = (step Ex.cfgAll 5 0 (Ex.draws 0) (initRow Ex.cfgAll Ex.base)).out 3 := by decide

/-- the hypotheses of `mc_step_generated` / `mc_history_generated` are met (plan string, `i < t_max`), and the regenerated
    loop then yields the three records of the model's history -/
example : PlanString Ex.cfgAll.plan "all" ∧ (0 : Nat) < 5 ∧ (genSimOne 8 Ex.cfgAll "all" 5 Ex.draws Ex.base).length = 3 := by
  refine ⟨rfl, by decide, ?_⟩
  rw [mc_history_generated 8 Ex.cfgAll "all" rfl, List.length_map]
  decide

/-- the last iteration (i = t_max - 1) censors everyone; an earlier one does not -/
example : (genStep Ex.cfgAll "all" 1 0 (Ex.draws 0) (Gen.mc_init Ex.cfgAll.cols Ex.base)) 4 = 0 ∧
    Gen.mc_stacked Ex.cfgAll.cols true (genStep Ex.cfgAll "all" 1 0 (Ex.draws 0) (Gen.mc_init Ex.cfgAll.cols Ex.base)) = true := by
  decide

end ZV.P13
