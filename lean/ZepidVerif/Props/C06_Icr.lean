/-
C06, `interaction_contrast_ratio(ci='delta')` of zepid/base.py: from the fitted coefficients to the reported ICR and its
limits (`Gen/Icr.lean`, regenerated from the source on every run; the GLM fit itself is outside the model, its three
coefficients and the six covariance entries are parameters).
-/
import ZepidVerif.Props.C06
import ZepidVerif.Gen.Icr
set_option linter.unusedSectionVars false
set_option linter.unusedVariables false
namespace ZV.P06
open ZV ZV.Gen ZV.Ci ZV.L

variable {F : Type} [Field F] [LinearOrder F] [IsStrictOrderedRing F] [Transc F]

/-- delta-method variance of `ICR = e^{b11} − e^{b10} − e^{b01} + 1`: the quadratic form `gᵀ Σ g` with gradient
    `g = (−e^{b10}, −e^{b01}, e^{b11})` -/
def icrVar (b10 b01 b11 v10 v01 v11 c1001 c1011 c0111 : F) : F :=
  let g10 := -Transc.exp b10
  let g01 := -Transc.exp b01
  let g11 := Transc.exp b11
  g10 * g10 * v10 + g01 * g01 * v01 + g11 * g11 * v11 + 2 * g10 * g01 * c1001 + 2 * g10 * g11 * c1011 +
    2 * g01 * g11 * c0111

/-- the reported ICR is `RR11 − RR10 − RR01 + 1`, the limits are `ICR ∓ ppf(1 − α/2)·sqrt(gᵀΣg)` -/
theorem icr_delta_def (ppf : F → F) (b10 b01 b11 v10 v01 v11 c1001 c1011 c0111 α : F) :
    (icr_delta ppf b10 b01 b11 v10 v01 v11 c1001 c1011 c0111 α).1 =
      Transc.exp b11 - Transc.exp b10 - Transc.exp b01 + 1 ∧
    ((icr_delta ppf b10 b01 b11 v10 v01 v11 c1001 c1011 c0111 α).2.1,
     (icr_delta ppf b10 b01 b11 v10 v01 v11 c1001 c1011 c0111 α).2.2) =
      linCI (icr_delta ppf b10 b01 b11 v10 v01 v11 c1001 c1011 c0111 α).1 (zOf ppf α)
        (Transc.sqrt (icrVar b10 b01 b11 v10 v01 v11 c1001 c1011 c0111)) := by
  simp only [icr_delta, icrVar, linCI, zOf, Nat.cast_one, Nat.cast_ofNat, Prod.mk.injEq]
  refine ⟨by ring, ?_, ?_⟩ <;> ring_nf

/-- the point estimate does not depend on alpha -/
theorem icr_indep_alpha (ppf : F → F) (b10 b01 b11 v10 v01 v11 c1001 c1011 c0111 α₁ α₂ : F) :
    (icr_delta ppf b10 b01 b11 v10 v01 v11 c1001 c1011 c0111 α₁).1 =
      (icr_delta ppf b10 b01 b11 v10 v01 v11 c1001 c1011 c0111 α₂).1 := by
  rw [(icr_delta_def ppf b10 b01 b11 v10 v01 v11 c1001 c1011 c0111 α₁).1,
    (icr_delta_def ppf b10 b01 b11 v10 v01 v11 c1001 c1011 c0111 α₂).1]

/-- containment and nestedness in alpha -/
theorem icr_coherent (ppf : F → F) (hp : PpfOk ppf) (hsqrt : ∀ x : F, 0 ≤ Transc.sqrt x)
    (b10 b01 b11 v10 v01 v11 c1001 c1011 c0111 α₁ α₂ : F) (h0 : 0 < α₁) (h12 : α₁ ≤ α₂) (h1 : α₂ ≤ 1) :
    let r₁ := icr_delta ppf b10 b01 b11 v10 v01 v11 c1001 c1011 c0111 α₁
    let r₂ := icr_delta ppf b10 b01 b11 v10 v01 v11 c1001 c1011 c0111 α₂
    (r₁.2.1 ≤ r₁.1 ∧ r₁.1 ≤ r₁.2.2) ∧ (r₁.2.1 ≤ r₂.2.1 ∧ r₂.2.2 ≤ r₁.2.2) := by
  intro r₁ r₂
  have e₁ := (icr_delta_def ppf b10 b01 b11 v10 v01 v11 c1001 c1011 c0111 α₁).2
  have e₂ := (icr_delta_def ppf b10 b01 b11 v10 v01 v11 c1001 c1011 c0111 α₂).2
  rw [← icr_indep_alpha ppf b10 b01 b11 v10 v01 v11 c1001 c1011 c0111 α₁ α₂] at e₂
  have c := ci_contains r₁.1 (zOf ppf α₁) (Transc.sqrt (icrVar b10 b01 b11 v10 v01 v11 c1001 c1011 c0111))
    (z_of_alpha_nonneg ppf hp α₁ h0 (h12.trans h1)) (hsqrt _)
  have n := nested_in_alpha_lin ppf hp r₁.1 (Transc.sqrt (icrVar b10 b01 b11 v10 v01 v11 c1001 c1011 c0111)) α₁ α₂
    (hsqrt _) h0 h12 h1
  rw [← e₁] at c n
  rw [← e₂] at n
  exact ⟨c, n⟩

section examples
local instance instTQ3 : Transc ℚ := ⟨id, id, id⟩
/-- a concrete coefficient vector and covariance matrix (throw-away `Transc ℚ`): the quadratic form is not zero -/
example : icrVar (1 : ℚ) 2 3 (1/10) (1/10) (1/10) 0 0 0 = 14/10 := by norm_num [icrVar, Transc.exp, instTQ3]
example : (icr_delta (F := ℚ) ppfQ 1 2 3 (1/10) (1/10) (1/10) 0 0 0 (1/20)).1 = 1 := by
  norm_num [icr_delta, Transc.exp, instTQ3]
end examples

end ZV.P06
