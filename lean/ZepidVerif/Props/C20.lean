/-
C20 — Super learner weights are convex and built from out-of-fold predictions; StepwiseSL search.

Subject: `ZV.SL` (Model/SuperLearner.lean) and `ZV.Stepwise` (Model/Stepwise.lean), the definitions the native
driver executes.  External behaviour enters as parameters: candidates' predictions (arbitrary numbers), the raw
`nnls` solution (arbitrary numbers: nothing is assumed of it, the threshold removes negative entries), `logit` /
`inverse_logit` (for the hull statement: monotone, inverse of each other on the clipped range), the AIC oracle.
-/
import ZepidVerif.Model.SuperLearner
import ZepidVerif.Model.Stepwise
import Mathlib.Data.List.Nodup
import Mathlib.Algebra.Order.Field.Basic
import Mathlib.Algebra.Order.Field.Rat
import Mathlib.Order.Monotone.Basic
import Mathlib.Tactic.FieldSimp
import Mathlib.Tactic.Ring
import Mathlib.Tactic.Linarith
import Mathlib.Tactic.Positivity
import Mathlib.Tactic.NormNum
set_option linter.unusedSectionVars false
set_option linter.unusedVariables false
namespace ZV.P20
open ZV ZV.SL

/-! ## K-fold hold-out -/

private lemma blocks_flatten : ∀ (sizes : List Nat) (s : Nat),
    (blocks s sizes).flatten = List.range' s sizes.sum := by
  intro sizes
  induction sizes with
  | nil => intro s; simp [blocks]
  | cons a as ih =>
    intro s
    simp only [blocks, List.flatten_cons, ih, List.sum_cons]
    exact List.range'_append_1

private lemma blocks_length (sizes : List Nat) : ∀ s, (blocks s sizes).length = sizes.length := by
  induction sizes with
  | nil => intro s; rfl
  | cons a as ih => intro s; simp [blocks, ih]

private lemma blocks_map_length (sizes : List Nat) : ∀ s, (blocks s sizes).map List.length = sizes := by
  induction sizes with
  | nil => intro s; rfl
  | cons a as ih => intro s; simp [blocks, ih]

private lemma sum_indicator (r : Nat) : ∀ k, ((List.range k).map (fun i => if i < r then 1 else 0)).sum = min k r := by
  intro k
  induction k with
  | zero => simp
  | succ k ih =>
    rw [List.range_succ, List.map_append, List.sum_append, ih]
    simp only [List.map_cons, List.map_nil, List.sum_cons, List.sum_nil]
    split <;> omega

private lemma foldSizes_sum (n k : Nat) (hk : 0 < k) : (foldSizes n k).sum = n := by
  unfold foldSizes
  have : ((List.range k).map (fun i => n / k + if i < n % k then 1 else 0)).sum =
      ((List.range k).map (fun _ => n / k)).sum + ((List.range k).map (fun i => if i < n % k then 1 else 0)).sum := by
    induction (List.range k) with
    | nil => simp
    | cons a as ih => simp only [List.map_cons, List.sum_cons, ih]; omega
  rw [this, sum_indicator]
  simp only [List.map_const', List.length_range, List.sum_replicate_nat]
  have h1 := Nat.mod_lt n hk
  have h2 := Nat.div_add_mod n k
  rw [Nat.min_eq_right (le_of_lt h1)]
  omega

private lemma train_perm {n : Nat} {test : List Nat} (hs : test.Nodup) (hsub : ∀ x ∈ test, x < n) :
    (trainRows n test ++ test).Perm (List.range n) := by
  have h1 : ((List.range n).filter (fun r => test.contains r) ++ (List.range n).filter (fun r => !test.contains r)).Perm
      (List.range n) := List.filter_append_perm _ _
  have h2 : test.Perm ((List.range n).filter (fun r => test.contains r)) := by
    rw [List.perm_ext_iff_of_nodup hs (List.nodup_range.filter _)]
    intro a
    simp only [List.mem_filter, List.contains_iff_mem, List.mem_range]
    exact ⟨fun ha => ⟨hsub a ha, ha⟩, fun ha => ha.2⟩
  exact List.perm_append_comm.trans ((List.Perm.append_right _ h2).trans h1)

/-- **Each row is held out exactly once; the training rows are the complement of the test fold.**
    For `2 ≤ k ≤ n` (otherwise `KFold` raises), the `k` test folds are contiguous, their concatenation *is*
    `0 … n-1` (so every row lies in exactly one fold), the first `n mod k` folds have `⌊n/k⌋ + 1` rows and the
    others `⌊n/k⌋`, and for each fold the training rows and the test rows are disjoint and together a
    permutation of all rows. -/
theorem kfold_partition (n k : Nat) (F : List (List Nat)) (h : kfold n k = some F) :
    2 ≤ k ∧ k ≤ n ∧ F.length = k ∧ F.flatten = List.range n ∧ F.map List.length = foldSizes n k ∧
    (∀ test ∈ F, (trainRows n test ++ test).Perm (List.range n) ∧ ∀ r ∈ test, r ∉ trainRows n test) := by
  unfold kfold at h
  split at h
  · exact absurd h (by simp)
  · rename_i hk
    have hk2 : 2 ≤ k ∧ k ≤ n := by omega
    simp only [Option.some.injEq] at h
    subst h
    have hflat : (blocks 0 (foldSizes n k)).flatten = List.range n := by
      rw [blocks_flatten, foldSizes_sum n k (by omega), List.range_eq_range']
    refine ⟨hk2.1, hk2.2, ?_, hflat, blocks_map_length _ _, ?_⟩
    · rw [blocks_length]; simp [foldSizes]
    · intro test ht
      have hnd : (blocks 0 (foldSizes n k)).flatten.Nodup := by rw [hflat]; exact List.nodup_range
      have htn : test.Nodup := (List.nodup_flatten.mp hnd).1 test ht
      have hsub : ∀ x ∈ test, x < n := by
        intro x hx
        have : x ∈ (blocks 0 (foldSizes n k)).flatten := List.mem_flatten.mpr ⟨test, ht, hx⟩
        rw [hflat] at this; exact List.mem_range.mp this
      refine ⟨train_perm htn hsub, ?_⟩
      intro r hr hr'
      simp [trainRows, hr] at hr'

example : kfold 11 3 = some [[0, 1, 2, 3], [4, 5, 6, 7], [8, 9, 10]] := by decide
example : kfold 3 4 = none ∧ kfold 9 1 = none := by decide

/-! ## The calls issued to the candidate learners -/

private lemma mem_cvSchedule {n m : Nat} {F : List (List Nat)} {e : Ev} :
    e ∈ cvSchedule n m F ↔ ∃ test f, F[f]? = some test ∧ ∃ c, c < m ∧
      (e = Ev.fit f c (trainRows n test) ∨ e = Ev.pred f c test) := by
  unfold cvSchedule foldEvents
  simp only [List.mem_flatMap, List.mem_range, List.mem_cons, List.mem_nil_iff, or_false]
  constructor
  · rintro ⟨p, hp, c, hc, he⟩
    exact ⟨p.1, p.2, List.mem_zipIdx_iff_getElem?.mp hp, c, hc, he⟩
  · rintro ⟨test, f, hf, c, hc, he⟩
    exact ⟨(test, f), List.mem_zipIdx_iff_getElem?.mpr hf, c, hc, he⟩

private lemma flatMap_pick {α : Type} (x : List α) (c : Nat) : ∀ m, c < m →
    (List.range m).flatMap (fun c' => if c' = c then x else []) = x := by
  intro m
  induction m with
  | zero => intro h; omega
  | succ m ih =>
    intro h
    rw [List.range_succ, List.flatMap_append]
    by_cases hc : c = m
    · subst hc
      have : (List.range c).flatMap (fun c' => if c' = c then x else []) = [] := by
        rw [List.flatMap_eq_nil_iff]; intro a ha
        have := List.mem_range.mp ha
        simp [Nat.ne_of_lt this]
      simp [this]
    · have hlt : c < m := by omega
      simp [ih hlt, Ne.symm hc]

private lemma predicted_cv (n m : Nat) (F : List (List Nat)) (c : Nat) (hc : c < m) :
    predictedRows (cvSchedule n m F) c = F.flatten := by
  unfold predictedRows cvSchedule
  rw [List.flatMap_assoc]
  have : ∀ p : List Nat × Nat, (foldEvents n m p).flatMap (predRows c) = p.1 := by
    intro p
    unfold foldEvents
    rw [List.flatMap_assoc]
    have h2 : (fun c' => [Ev.fit p.2 c' (trainRows n p.1), Ev.pred p.2 c' p.1].flatMap (predRows c)) =
        fun c' => if c' = c then p.1 else [] := by
      funext c'; simp [predRows]
    rw [h2, flatMap_pick _ _ _ hc]
  simp only [this]
  rw [List.flatMap_def, List.zipIdx_map_fst]

/-- **Hold-out discipline of `SuperLearner.fit`.**  In the complete call sequence (cross-validation phase and
    final refit, whatever the coefficients are): every prediction is requested from a clone made in a fold
    `f < k` for a candidate `c < m`; that clone was fitted, and no fit of that clone saw any of the rows it is
    asked to predict; and for every candidate the rows predicted are exactly `0 … n-1`, each once. -/
theorem schedule_out_of_fold {C : Type} [Add C] [Sub C] [Mul C] [Div C] [Neg C] [NatCast C] [LT C] [LE C]
    [DecidableLT C] [DecidableLE C] [DecidableEq C]
    (n k m : Nat) (F : List (List Nat)) (h : kfold n k = some F) (coefs : Option (List C)) :
    (∀ f c rows, Ev.pred f c rows ∈ fitSchedule n m F coefs →
      f < k ∧ c < m ∧ (∃ tr, Ev.fit f c tr ∈ fitSchedule n m F coefs) ∧
      ∀ tr, Ev.fit f c tr ∈ fitSchedule n m F coefs → ∀ r ∈ rows, r ∉ tr) ∧
    (∀ c, c < m → predictedRows (fitSchedule n m F coefs) c = List.range n) := by
  obtain ⟨_, _, hlen, hflat, _, htrain⟩ := kfold_partition n k F h
  constructor
  · intro f c rows hp
    unfold fitSchedule at hp ⊢
    simp only [List.mem_append] at hp ⊢
    rcases hp with hp | hp
    · obtain ⟨test, f', hf, c', hc', he⟩ := mem_cvSchedule.mp hp
      rcases he with he | he
      · cases he
      · simp only [Ev.pred.injEq] at he
        obtain ⟨rfl, rfl, rfl⟩ := he
        obtain ⟨hfl, hx⟩ := List.getElem?_eq_some_iff.mp hf
        refine ⟨by omega, hc', ⟨trainRows n rows, Or.inl (mem_cvSchedule.mpr ⟨rows, f, hf, c, hc', Or.inl rfl⟩)⟩, ?_⟩
        intro tr htr
        rcases htr with htr | htr
        · obtain ⟨test2, f2, hf2, c2, _, he2⟩ := mem_cvSchedule.mp htr
          rcases he2 with he2 | he2
          · simp only [Ev.fit.injEq] at he2
            obtain ⟨rfl, rfl, rfl⟩ := he2
            have : test2 = rows := by rw [hf] at hf2; exact (Option.some.inj hf2).symm
            subst this
            exact (htrain test2 (List.mem_of_getElem? hf)).2
          · cases he2
        · simp only [finalEvents, List.mem_map, Ev.fit.injEq] at htr
          obtain ⟨_, _, hk', _, _⟩ := htr
          omega
    · simp [finalEvents] at hp
  · intro c hc
    unfold fitSchedule predictedRows
    rw [List.flatMap_append]
    have hfin : (finalEvents n F.length (retained coefs)).flatMap (predRows c) = [] := by
      rw [List.flatMap_eq_nil_iff]; intro e he
      simp only [finalEvents, List.mem_map] at he
      obtain ⟨_, _, rfl⟩ := he; rfl
    rw [hfin, List.append_nil]
    have := predicted_cv n m F c hc
    unfold predictedRows at this
    rw [this, hflat]

/-- non-vacuity: 5 rows, 2 folds, 2 candidates, second candidate retained -/
example : fitSchedule 5 2 [[0, 1, 2], [3, 4]] (some [(0 : Rat), 1]) =
    [.fit 0 0 [3, 4], .pred 0 0 [0, 1, 2], .fit 0 1 [3, 4], .pred 0 1 [0, 1, 2],
     .fit 1 0 [0, 1, 2], .pred 1 0 [3, 4], .fit 1 1 [0, 1, 2], .pred 1 1 [3, 4],
     .fit 2 1 [0, 1, 2, 3, 4]] := by decide

/-! ## Coefficients -/
section coef
variable {F : Type} [Field F] [LinearOrder F] [IsStrictOrderedRing F]

private lemma sumBy_append {α : Type} (f : α → F) (l₁ l₂ : List α) :
    sumBy f (l₁ ++ l₂) = sumBy f l₁ + sumBy f l₂ := by
  induction l₁ with
  | nil => simp [sumBy]
  | cons a as ih => simp only [List.cons_append, sumBy, ih]; ring

private lemma sumBy_map_div (s : F) (l : List F) :
    sumBy (fun c => c) (l.map (fun c => c / s)) = sumBy (fun c => c) l / s := by
  induction l with
  | nil => simp [sumBy]
  | cons a as ih => simp only [List.map_cons, sumBy, ih]; ring

private lemma sumBy_map_zero {α : Type} (l : List α) : sumBy (fun c => c) (l.map (fun _ => (0 : F))) = 0 := by
  induction l with
  | nil => simp [sumBy]
  | cons a as ih => simp only [List.map_cons, sumBy, ih]; ring

private lemma sumBy_nonneg (l : List F) (h : ∀ c ∈ l, 0 ≤ c) : 0 ≤ sumBy (fun c => c) l := by
  induction l with
  | nil => simp [sumBy]
  | cons a as ih =>
    simp only [sumBy]
    have := h a (by simp)
    have := ih (fun c hc => h c (by simp [hc]))
    linarith

private lemma sumBy_eq_zero (l : List F) (h : ∀ c ∈ l, 0 ≤ c) (hs : sumBy (fun c => c) l = 0) : ∀ c ∈ l, c = 0 := by
  induction l with
  | nil => intro c hc; cases hc
  | cons a as ih =>
    simp only [sumBy] at hs
    have h1 := h a (by simp)
    have h2 := sumBy_nonneg as (fun c hc => h c (by simp [hc]))
    intro c hc
    rcases List.mem_cons.mp hc with rfl | hc
    · linarith
    · exact ih (fun c hc => h c (by simp [hc])) (by linarith) c hc

private lemma threshold_nonneg (thr : F) (hthr : 0 < thr) (raw : List F) : ∀ c ∈ threshold thr raw, 0 ≤ c := by
  intro c hc
  simp only [threshold, List.mem_map] at hc
  obtain ⟨x, _, rfl⟩ := hc
  split
  · simp
  · rename_i h; exact le_trans hthr.le (not_lt.mp h)

/-- **Convex weights.**  Whatever vector the least-squares solver returned, if `fit` produces coefficients at
    all (some entry reaches the threshold `sqrt(eps) > 0`), there is one per candidate, all are non-negative,
    and they sum to one. -/
theorem coef_convex (thr : F) (hthr : 0 < thr) (raw cs : List F) (h : coefficients thr false raw = some cs) :
    cs.length = raw.length ∧ (∀ c ∈ cs, 0 ≤ c) ∧ sumBy (fun c => c) cs = 1 := by
  simp only [coefficients, Bool.false_eq_true, if_false, normalize, Nat.cast_zero] at h
  split at h
  · exact absurd h (by simp)
  · rename_i hs
    simp only [Option.some.injEq] at h
    subst h
    have hnn := threshold_nonneg thr hthr raw
    have hpos : 0 < sumBy (fun c => c) (threshold thr raw) := lt_of_le_of_ne (sumBy_nonneg _ hnn) (Ne.symm hs)
    refine ⟨by simp [threshold], ?_, ?_⟩
    · intro c hc
      simp only [List.mem_map] at hc
      obtain ⟨x, hx, rfl⟩ := hc
      exact div_nonneg (hnn x hx) hpos.le
    · rw [sumBy_map_div]; exact div_self hs

/-- **The unguarded case.**  `fit` yields no usable coefficients (numpy: an all-NaN vector from `0 / 0`) exactly
    when every entry of the solver's vector is below the threshold — e.g. an all-zero outcome.  The property's
    "non-negative, summing to one" therefore holds for the model only outside this case; gate D reports it on
    the implementation. -/
theorem coef_nan_iff (thr : F) (hthr : 0 < thr) (raw : List F) :
    coefficients thr false raw = none ↔ ∀ c ∈ raw, c < thr := by
  simp only [coefficients, Bool.false_eq_true, if_false, normalize, Nat.cast_zero]
  constructor
  · intro h
    split at h
    · rename_i hs
      have hz := sumBy_eq_zero _ (threshold_nonneg thr hthr raw) hs
      intro c hc
      by_contra hge
      have : (if c < thr then (0 : F) else c) ∈ threshold thr raw := by
        simp only [threshold, Nat.cast_zero, List.mem_map]; exact ⟨c, hc, rfl⟩
      have h0 := hz _ this
      simp only [hge, if_false] at h0
      rw [h0] at hge; exact hge hthr
    · exact absurd h (by simp)
  · intro h
    have : threshold thr raw = raw.map (fun _ => (0 : F)) := by
      simp only [threshold, Nat.cast_zero]
      apply List.map_congr_left
      intro c hc; simp [h c hc]
    have hs : sumBy (fun c => c) (threshold thr raw) = 0 := by
      rw [this]; exact sumBy_map_zero raw
    simp [hs]

example : coefficients (1 / 100 : Rat) false [3 / 10, -1 / 5, 1 / 1000, 1 / 10] = some [3 / 4, 0, 0, 1 / 4] := by
  decide +kernel
example : coefficients (1 / 100 : Rat) false [0, 1 / 1000] = none := by decide +kernel

private lemma argmaxFrom_spec (cs : List F) : ∀ (pre : List F) (best : Nat) (bv : F),
    pre[best]? = some bv → (∀ x ∈ pre, x ≤ bv) →
    ∃ v, (pre ++ cs)[argmaxFrom pre.length best bv cs]? = some v ∧ ∀ x ∈ pre ++ cs, x ≤ v := by
  induction cs with
  | nil => intro pre best bv h1 h2; exact ⟨bv, by simpa [argmaxFrom] using h1, by simpa using h2⟩
  | cons c cs ih =>
    intro pre best bv h1 h2
    simp only [argmaxFrom]
    have e : pre ++ c :: cs = (pre ++ [c]) ++ cs := by simp
    have hl : (pre ++ [c]).length = pre.length + 1 := by simp
    split
    · rename_i hlt
      have := ih (pre ++ [c]) pre.length c (by simp) (by
        intro x hx
        rcases List.mem_append.mp hx with hx | hx
        · exact le_trans (h2 x hx) hlt.le
        · simp at hx; rw [hx])
      rw [hl] at this; rw [e]; exact this
    · rename_i hge
      have hb : best < pre.length := (List.getElem?_eq_some_iff.mp h1).1
      have := ih (pre ++ [c]) best bv (by rw [List.getElem?_append_left hb]; exact h1) (by
        intro x hx
        rcases List.mem_append.mp hx with hx | hx
        · exact h2 x hx
        · simp at hx; rw [hx]; exact not_lt.mp hge)
      rw [hl] at this; rw [e]; exact this

private lemma argmax_spec (l : List F) (hne : l ≠ []) :
    ∃ v, l[argmax l]? = some v ∧ ∀ x ∈ l, x ≤ v := by
  cases l with
  | nil => exact absurd rfl hne
  | cons c cs =>
    have := argmaxFrom_spec cs [c] 0 c (by simp) (by simp)
    simpa [argmax] using this

private lemma onehot_sum (m i : Nat) (hi : i < m) : sumBy (fun c => c) (onehot m i : List F) = 1 := by
  unfold onehot
  induction m with
  | zero => omega
  | succ m ih =>
    rw [List.range_succ, List.map_append, sumBy_append]
    by_cases h : i = m
    · subst h
      have : sumBy (fun c => c) ((List.range i).map (fun j => if j = i then ((1 : Nat) : F) else ((0 : Nat) : F))) = 0 := by
        have : (List.range i).map (fun j => if j = i then ((1 : Nat) : F) else ((0 : Nat) : F)) =
            (List.range i).map (fun _ => (0 : F)) := by
          apply List.map_congr_left; intro a ha
          have := List.mem_range.mp ha
          simp [Nat.ne_of_lt this]
        rw [this]; exact sumBy_map_zero _
      rw [this]; simp [sumBy]
    · rw [ih (by omega)]; simp [sumBy, Ne.symm h]

/-- **Discrete super learner.**  With `discrete=True` the coefficient vector is one-hot: a single one, zeros
    elsewhere (so non-negative and summing to one), and the one sits on a candidate whose normalised weight
    is the largest (`np.argmax`). -/
theorem discrete_onehot (thr : F) (hthr : 0 < thr) (raw : List F) (hne : raw ≠ []) :
    ∃ i, i < raw.length ∧ coefficients thr true raw = some (onehot raw.length i) ∧
      sumBy (fun c => c) (onehot raw.length i : List F) = 1 ∧
      (∀ j, j < raw.length → (onehot raw.length i : List F)[j]? = some (if j = i then 1 else 0)) ∧
      (∀ w, coefficients thr false raw = some w → ∃ v, w[i]? = some v ∧ ∀ x ∈ w, x ≤ v) := by
  have hpos : 0 < raw.length := List.length_pos_iff.mpr hne
  have hoh : ∀ i, ∀ j, j < raw.length → (onehot raw.length i : List F)[j]? = some (if j = i then 1 else 0) := by
    intro i j hj; simp [onehot, hj]
  cases hw : normalize (threshold thr raw) with
  | none =>
    refine ⟨0, hpos, by simp [coefficients, hw], onehot_sum _ _ hpos, hoh 0, ?_⟩
    intro w hw'; simp [coefficients, hw] at hw'
  | some w =>
    have hlen : w.length = raw.length := (coef_convex thr hthr raw w (by simp [coefficients, hw])).1
    have hwne : w ≠ [] := by intro h; rw [h] at hlen; simp at hlen; omega
    obtain ⟨v, hv, hmax⟩ := argmax_spec w hwne
    have hi : argmax w < raw.length := by rw [← hlen]; exact (List.getElem?_eq_some_iff.mp hv).1
    refine ⟨argmax w, hi, by simp [coefficients, hw], onehot_sum _ _ hi, hoh _, ?_⟩
    intro w' hw'
    simp only [coefficients, Bool.false_eq_true, if_false, hw, Option.some.injEq] at hw'
    subst hw'; exact ⟨v, hv, hmax⟩

example : coefficients (1 / 100 : Rat) true [3 / 10, -1 / 5, 1 / 2, 1 / 2] = some [0, 0, 1, 0] := by decide +kernel

private lemma argmaxFrom_first (cs : List F) : ∀ (pre : List F) (best : Nat) (bv : F),
    pre[best]? = some bv → (∀ x ∈ pre, x ≤ bv) → (∀ j, j < best → ∀ x, pre[j]? = some x → x < bv) →
    ∀ j x v, j < argmaxFrom pre.length best bv cs → (pre ++ cs)[j]? = some x →
      (pre ++ cs)[argmaxFrom pre.length best bv cs]? = some v → x < v := by
  induction cs with
  | nil =>
    intro pre best bv h1 h2 h3 j x v hj hx hv
    simp only [argmaxFrom, List.append_nil] at hj hx hv
    rw [h1] at hv
    cases hv
    exact h3 j hj x hx
  | cons c cs ih =>
    intro pre best bv h1 h2 h3 j x v
    simp only [argmaxFrom]
    have e : pre ++ c :: cs = (pre ++ [c]) ++ cs := by simp
    have hl : (pre ++ [c]).length = pre.length + 1 := by simp
    split
    · rename_i hlt
      rw [e, ← hl]
      exact ih (pre ++ [c]) pre.length c (by simp) (by
        intro y hy
        rcases List.mem_append.mp hy with hy | hy
        · exact le_trans (h2 y hy) hlt.le
        · simp at hy; rw [hy]) (by
        intro i hi y hy
        rw [List.getElem?_append_left hi] at hy
        exact lt_of_le_of_lt (h2 y (List.mem_of_getElem? hy)) hlt) j x v
    · rename_i hge
      have hb : best < pre.length := (List.getElem?_eq_some_iff.mp h1).1
      rw [e, ← hl]
      exact ih (pre ++ [c]) best bv (by rw [List.getElem?_append_left hb]; exact h1) (by
        intro y hy
        rcases List.mem_append.mp hy with hy | hy
        · exact h2 y hy
        · simp at hy; rw [hy]; exact not_lt.mp hge) (by
        intro i hi y hy
        rw [List.getElem?_append_left (lt_trans hi hb)] at hy
        exact h3 i hi y hy) j x v

/-- **Candidates tied for the largest weight (round 4).**  When several candidates earn the same largest weight the
    discrete super learner still puts its single one on ONE of them, the first (`np.argmax` returns the first
    occurrence of the maximum): every candidate before the selected one has a strictly smaller weight.  Together
    with `discrete_onehot` (the selected weight is the largest; the vector is one-hot) this is the whole of the
    discrete branch on tied weights: selecting by value (`coefficient == max`) instead of by position is excluded. -/
theorem discrete_tie_first (thr : F) (raw w : List F) (hw : coefficients thr false raw = some w) :
    coefficients thr true raw = some (onehot raw.length (argmax w)) ∧
      ∀ j x v, j < argmax w → w[j]? = some x → w[argmax w]? = some v → x < v := by
  have hn : normalize (threshold thr raw) = some w := by
    simpa [coefficients] using hw
  refine ⟨by simp [coefficients, hn], ?_⟩
  cases w with
  | nil => intro j x v hj; simp [argmax] at hj
  | cons c cs =>
    intro j x v hj hx hv
    have := argmaxFrom_first cs [c] 0 c (by simp) (by simp) (by intro i hi; omega) j x v
    simp only [List.length_singleton, List.singleton_append] at this
    exact this (by simpa [argmax] using hj) hx (by simpa [argmax] using hv)

example : coefficients (1 / 100 : Rat) true [1 / 10, 2 / 5, 2 / 5, 1 / 10] = some [0, 1, 0, 0] ∧
    coefficients (1 / 100 : Rat) false [1 / 10, 2 / 5, 2 / 5, 1 / 10] = some [1 / 10, 2 / 5, 2 / 5, 1 / 10] := by
  decide +kernel

/-! ## predict -/

/-- **Prediction = coefficient-weighted combination of the retained candidates (L2 loss).**
    Candidates with coefficient `≤ 0` are not consulted (their column is `0`) and contribute nothing. -/
theorem predict_combination (coefs preds : List F) :
    predictL2 coefs preds =
      sumBy (fun cp : F × F => cp.1 * cp.2) ((coefs.zip preds).filter (fun cp => decide (0 < cp.1))) := by
  unfold predictL2
  induction coefs generalizing preds with
  | nil => simp [dot, sumBy]
  | cons c cs ih =>
    cases preds with
    | nil => simp [dot, sumBy]
    | cons p ps =>
      simp only [List.zip_cons_cons, List.map_cons, dot, ih ps, List.filter_cons]
      by_cases h : 0 < c
      · simp [h, sumBy, usedPred]
      · simp [h, usedPred]

/-- the same on the logit scale (log-likelihood loss): `inverse_logit(Σ_retained cⱼ · logit(clip pⱼ))` -/
theorem predict_combination_nll (lg sg : F → F) (b : F) (coefs preds : List F) (hnn : ∀ c ∈ coefs, 0 ≤ c) :
    predictNll lg sg b coefs preds =
      sg (sumBy (fun cp : F × F => cp.1 * lg (Bounds.clip1 b (1 - b) cp.2))
        ((coefs.zip preds).filter (fun cp => decide (0 < cp.1)))) := by
  unfold predictNll
  congr 1
  induction coefs generalizing preds with
  | nil => simp [dot, sumBy]
  | cons c cs ih =>
    cases preds with
    | nil => simp [dot, sumBy]
    | cons p ps =>
      simp only [List.zip_cons_cons, List.map_cons, dot, ih ps (fun c hc => hnn c (by simp [hc])),
        List.filter_cons]
      by_cases h : 0 < c
      · simp [h, sumBy, usedPred]
      · have h0 : c = 0 := le_antisymm (not_lt.mp h) (hnn c (by simp))
        simp [h0]

private lemma dot_hull (g : F → F → F) (lo hi : F) : ∀ (coefs preds : List F),
    preds.length = coefs.length → (∀ c ∈ coefs, 0 ≤ c) →
    (∀ cp ∈ coefs.zip preds, 0 < cp.1 → lo ≤ g cp.1 cp.2 ∧ g cp.1 cp.2 ≤ hi) →
    lo * sumBy (fun c => c) coefs ≤ dot coefs ((coefs.zip preds).map (fun cp => g cp.1 cp.2)) ∧
    dot coefs ((coefs.zip preds).map (fun cp => g cp.1 cp.2)) ≤ hi * sumBy (fun c => c) coefs := by
  intro coefs
  induction coefs with
  | nil => intro preds _ _ _; simp [dot, sumBy]
  | cons c cs ih =>
    intro preds hlen hnn hb
    cases preds with
    | nil => simp at hlen
    | cons p ps =>
      simp only [List.zip_cons_cons, List.map_cons, dot, sumBy]
      have hc : 0 ≤ c := hnn c (by simp)
      obtain ⟨i1, i2⟩ := ih ps (by simpa using hlen) (fun c hc => hnn c (by simp [hc]))
        (fun cp hcp => hb cp (by simp [hcp]))
      rcases hc.lt_or_eq with hpos | hzero
      · obtain ⟨b1, b2⟩ := hb (c, p) (by simp) hpos
        have := mul_le_mul_of_nonneg_left b1 hc
        have := mul_le_mul_of_nonneg_left b2 hc
        constructor <;> nlinarith
      · rw [← hzero]; constructor <;> linarith

/-- **Prediction lies in the hull of the retained candidates' predictions (L2 loss).**  For convex coefficients,
    if every retained candidate (coefficient `> 0`) predicts a value in `[lo, hi]` for a row, so does the
    super learner — in particular with `lo` / `hi` the minimum / maximum of those predictions. -/
theorem predict_in_hull (coefs preds : List F) (hlen : preds.length = coefs.length)
    (hnn : ∀ c ∈ coefs, 0 ≤ c) (hsum : sumBy (fun c => c) coefs = 1) (lo hi : F)
    (hb : ∀ cp ∈ coefs.zip preds, 0 < cp.1 → lo ≤ cp.2 ∧ cp.2 ≤ hi) :
    lo ≤ predictL2 coefs preds ∧ predictL2 coefs preds ≤ hi := by
  have := dot_hull (fun c p => usedPred c p) lo hi coefs preds hlen hnn (by
    intro cp hcp hpos
    simp only [usedPred, Nat.cast_zero, hpos, if_true]
    exact hb cp hcp hpos)
  rw [hsum, mul_one, mul_one] at this
  exact this

private lemma clip1_mem (b x : F) (hb : b ≤ 1 - b) :
    b ≤ Bounds.clip1 b (1 - b) x ∧ Bounds.clip1 b (1 - b) x ≤ 1 - b := by
  unfold Bounds.clip1
  simp only
  split <;> split <;> constructor <;> linarith

/-- **Hull on the logit scale (log-likelihood loss).**  `logit` / `inverse_logit` enter as `lg` / `sg`:
    `sg` monotone, `lg` monotone on the clipped range `[b, 1-b]`, `sg (lg q) = q` there.  If every retained
    candidate's clipped prediction lies in `[qlo, qhi] ⊆ [b, 1-b]`, so does the super learner's prediction. -/
theorem predict_in_hull_nll (lg sg : F → F) (b : F) (hb : b ≤ 1 - b) (hsg : Monotone sg)
    (hlg : ∀ x y, b ≤ x → x ≤ y → y ≤ 1 - b → lg x ≤ lg y)
    (hinv : ∀ q, b ≤ q → q ≤ 1 - b → sg (lg q) = q)
    (coefs preds : List F) (hlen : preds.length = coefs.length)
    (hnn : ∀ c ∈ coefs, 0 ≤ c) (hsum : sumBy (fun c => c) coefs = 1) (qlo qhi : F)
    (hq : b ≤ qlo ∧ qhi ≤ 1 - b)
    (hbnd : ∀ cp ∈ coefs.zip preds, 0 < cp.1 →
      qlo ≤ Bounds.clip1 b (1 - b) cp.2 ∧ Bounds.clip1 b (1 - b) cp.2 ≤ qhi) :
    coefs ≠ [] → qlo ≤ predictNll lg sg b coefs preds ∧ predictNll lg sg b coefs preds ≤ qhi := by
  intro hne
  -- some coefficient is positive (they sum to one), hence qlo ≤ qhi
  have hex : ∃ cp ∈ coefs.zip preds, 0 < cp.1 := by
    by_contra hno
    push Not at hno
    have hz : ∀ c ∈ coefs, c = 0 := by
      intro c hc
      obtain ⟨i, hi, rfl⟩ := List.getElem_of_mem hc
      have hi' : i < preds.length := by omega
      have hm : (coefs[i], preds[i]) ∈ coefs.zip preds := by
        rw [List.mem_iff_getElem]; exact ⟨i, by simp [hi, hi'], by simp⟩
      exact le_antisymm (hno _ hm) (hnn _ (List.getElem_mem hi))
    have : sumBy (fun c => c) coefs = 0 := by
      have e : coefs = coefs.map (fun _ => (0 : F)) := by
        conv_lhs => rw [← List.map_id coefs]
        apply List.map_congr_left; intro c hc; simp [hz c hc]
      rw [e]; exact sumBy_map_zero coefs
    rw [this] at hsum; exact zero_ne_one hsum
  obtain ⟨cp0, hcp0, hpos0⟩ := hex
  have hqq : qlo ≤ qhi := le_trans (hbnd cp0 hcp0 hpos0).1 (hbnd cp0 hcp0 hpos0).2
  have := dot_hull (fun c p => lg (Bounds.clip1 b (1 - b) (usedPred c p))) (lg qlo) (lg qhi) coefs preds hlen hnn (by
    intro cp hcp hpos
    simp only [usedPred, Nat.cast_zero, hpos, if_true]
    obtain ⟨h1, h2⟩ := hbnd cp hcp hpos
    obtain ⟨m1, m2⟩ := clip1_mem b cp.2 hb
    exact ⟨hlg _ _ hq.1 h1 m2, hlg _ _ m1 h2 hq.2⟩)
  rw [hsum, mul_one, mul_one] at this
  unfold predictNll
  simp only [Nat.cast_one]
  constructor
  · calc qlo = sg (lg qlo) := (hinv qlo hq.1 (le_trans hqq hq.2)).symm
      _ ≤ _ := hsg this.1
  · calc _ ≤ sg (lg qhi) := hsg this.2
      _ = qhi := hinv qhi (le_trans hq.1 hqq) hq.2

example : predictL2 [3 / 4, 0, 1 / 4] [(2 : Rat), 100, 6] = 3 := by decide +kernel

/-- non-vacuity of the hull theorems: their hypotheses are met by concrete convex weights (an excluded candidate
    with a wild prediction does not matter), and by `lg = sg = id` for the logit-scale version -/
example : (2 : Rat) ≤ predictL2 [3 / 4, 0, 1 / 4] [2, 100, 6] ∧ predictL2 [3 / 4, 0, 1 / 4] [(2 : Rat), 100, 6] ≤ 6 :=
  predict_in_hull [3 / 4, 0, 1 / 4] [2, 100, 6] rfl (by decide +kernel) (by decide +kernel) 2 6 (by decide +kernel)
example : (1 / 5 : Rat) ≤ predictNll id id (1 / 10) [1 / 2, 0, 1 / 2] [1 / 5, 99, 3 / 5] ∧
    predictNll id id (1 / 10 : Rat) [1 / 2, 0, 1 / 2] [1 / 5, 99, 3 / 5] ≤ 3 / 5 :=
  predict_in_hull_nll id id (1 / 10) (by norm_num) monotone_id (fun _ _ _ h _ => h) (fun _ _ _ => rfl)
    [1 / 2, 0, 1 / 2] [1 / 5, 99, 3 / 5] rfl (by decide +kernel) (by decide +kernel) (1 / 5) (3 / 5)
    (by norm_num) (by decide +kernel) (by simp)

end coef

/-! ## StepwiseSL -/
section stepwise
open ZV.Stepwise
variable {F : Type} [LinearOrder F]

private lemma bestAlt_spec (aic : List Nat → Option F) : ∀ (alts : List (List Nat)) (best : Option (List Nat × F)),
    (∀ bc ba, best = some (bc, ba) → aic bc = some ba) →
    (bestAlt aic alts best = none → best = none ∧ ∀ alt ∈ alts, aic alt = none) ∧
    (∀ bc ba, bestAlt aic alts best = some (bc, ba) →
      aic bc = some ba ∧ (bc ∈ alts ∨ best = some (bc, ba)) ∧
      (∀ alt ∈ alts, ∀ v, aic alt = some v → ba ≤ v) ∧
      (∀ bc' ba', best = some (bc', ba') → ba ≤ ba')) := by
  intro alts
  induction alts with
  | nil =>
    intro best hb
    simp only [bestAlt]
    refine ⟨fun h => ⟨h, by simp⟩, ?_⟩
    intro bc ba h
    refine ⟨hb bc ba h, Or.inr h, by simp, ?_⟩
    intro bc' ba' h'; rw [h] at h'; cases h'; exact le_refl _
  | cons alt alts ih =>
    intro best hb
    cases ha : aic alt with
    | none =>
      have e : bestAlt aic (alt :: alts) best = bestAlt aic alts best := by
        cases best <;> simp [bestAlt, ha]
      rw [e]
      obtain ⟨i1, i2⟩ := ih best hb
      constructor
      · intro h
        obtain ⟨h1, h2⟩ := i1 h
        refine ⟨h1, ?_⟩
        intro x hx
        rcases List.mem_cons.mp hx with rfl | hx
        · exact ha
        · exact h2 x hx
      · intro bc ba h
        obtain ⟨j1, j2, j3, j4⟩ := i2 bc ba h
        refine ⟨j1, ?_, ?_, j4⟩
        · rcases j2 with j2 | j2
          · exact Or.inl (List.mem_cons_of_mem _ j2)
          · exact Or.inr j2
        · intro x hx v hv
          rcases List.mem_cons.mp hx with rfl | hx
          · rw [ha] at hv; cases hv
          · exact j3 x hx v hv
    | some a =>
      cases best with
      | none =>
        have e : bestAlt aic (alt :: alts) none = bestAlt aic alts (some (alt, a)) := by simp [bestAlt, ha]
        rw [e]
        obtain ⟨i1, i2⟩ := ih (some (alt, a)) (by intro bc ba h; cases h; exact ha)
        constructor
        · intro h; exact absurd (i1 h).1 (by simp)
        · intro bc ba h
          obtain ⟨j1, j2, j3, j4⟩ := i2 bc ba h
          refine ⟨j1, ?_, ?_, by intro _ _ h'; cases h'⟩
          · rcases j2 with j2 | j2
            · exact Or.inl (List.mem_cons_of_mem _ j2)
            · cases j2; exact Or.inl (by simp)
          · intro x hx v hv
            rcases List.mem_cons.mp hx with rfl | hx
            · rw [ha] at hv; cases hv; exact j4 _ _ rfl
            · exact j3 x hx v hv
      | some b =>
        obtain ⟨bc0, ba0⟩ := b
        by_cases hlt : a < ba0
        · have e : bestAlt aic (alt :: alts) (some (bc0, ba0)) = bestAlt aic alts (some (alt, a)) := by
            simp [bestAlt, ha, hlt]
          rw [e]
          obtain ⟨i1, i2⟩ := ih (some (alt, a)) (by intro bc ba h; cases h; exact ha)
          constructor
          · intro h; exact absurd (i1 h).1 (by simp)
          · intro bc ba h
            obtain ⟨j1, j2, j3, j4⟩ := i2 bc ba h
            refine ⟨j1, ?_, ?_, ?_⟩
            · rcases j2 with j2 | j2
              · exact Or.inl (List.mem_cons_of_mem _ j2)
              · cases j2; exact Or.inl (by simp)
            · intro x hx v hv
              rcases List.mem_cons.mp hx with rfl | hx
              · rw [ha] at hv; cases hv; exact j4 _ _ rfl
              · exact j3 x hx v hv
            · intro bc' ba' h'; cases h'; exact le_trans (j4 _ _ rfl) hlt.le
        · have e : bestAlt aic (alt :: alts) (some (bc0, ba0)) = bestAlt aic alts (some (bc0, ba0)) := by
            simp [bestAlt, ha, hlt]
          rw [e]
          obtain ⟨i1, i2⟩ := ih (some (bc0, ba0)) hb
          constructor
          · intro h; exact absurd (i1 h).1 (by simp)
          · intro bc ba h
            obtain ⟨j1, j2, j3, j4⟩ := i2 bc ba h
            refine ⟨j1, ?_, ?_, j4⟩
            · rcases j2 with j2 | j2
              · exact Or.inl (List.mem_cons_of_mem _ j2)
              · exact Or.inr j2
            · intro x hx v hv
              rcases List.mem_cons.mp hx with rfl | hx
              · rw [ha] at hv; cases hv; exact le_trans (j4 _ _ rfl) (not_lt.mp hlt)
              · exact j3 x hx v hv

/-- the single steps admissible from a model with columns `cols` on a design with `p` columns:
    backward = drop one column; forward = append one column not yet in the model -/
def admissible (d : Dir) (p : Nat) (cols : List Nat) : List (List Nat) :=
  steps d cols ((List.range p).filter (fun v => !cols.contains v))

private lemma dropOne_length : ∀ (cols alt : List Nat), alt ∈ dropOne cols → alt.length + 1 = cols.length := by
  intro cols
  induction cols with
  | nil => intro alt h; simp [dropOne] at h
  | cons c cs ih =>
    intro alt h
    simp only [dropOne, List.mem_append, List.mem_map, List.mem_singleton] at h
    rcases h with ⟨t, ht, rfl⟩ | rfl
    · simp [ih t ht]
    · simp

/-- measure that decreases with every accepted step -/
private def mu (d : Dir) (cols avail : List Nat) : Nat :=
  match d with | .backward => cols.length | .forward => avail.length

private lemma loop_spec (d : Dir) (aic : List Nat → Option F) (p : Nat) : ∀ (fuel : Nat) (cols : List Nat) (a : F)
    (avail : List Nat) (vis : List (List Nat)),
    aic cols = some a → (d = .forward → avail = (List.range p).filter (fun v => !cols.contains v)) →
    let R := loop d aic fuel cols a avail vis
    R.aic ≤ a ∧ aic R.cols = some R.aic ∧
    (R.done = true → ∀ alt ∈ admissible d p R.cols, ∀ v, aic alt = some v → R.aic < v) ∧
    (mu d cols avail < fuel → R.done = true) := by
  intro fuel
  induction fuel with
  | zero =>
    intro cols a avail vis ha _
    simp only [loop]
    exact ⟨le_refl _, ha, by simp, by simp⟩
  | succ fuel ih =>
    intro cols a avail vis ha hav
    have hadm : steps d cols avail = admissible d p cols := by
      cases d with
      | backward => simp [admissible, steps]
      | forward => simp [admissible, steps, hav rfl]
    simp only [loop]
    obtain ⟨s1, s2⟩ := bestAlt_spec aic (steps d cols avail) none (by simp)
    cases hb : bestAlt aic (steps d cols avail) none with
    | none =>
      simp only
      refine ⟨le_refl _, ha, ?_, by intro _; trivial⟩
      intro _ alt halt v hv
      rw [← hadm] at halt
      rw [(s1 hb).2 alt halt] at hv; cases hv
    | some b =>
      obtain ⟨bc, ba⟩ := b
      obtain ⟨j1, j2, j3, _⟩ := s2 bc ba hb
      have hmem : bc ∈ steps d cols avail := by
        rcases j2 with j2 | j2
        · exact j2
        · cases j2
      simp only
      split
      · rename_i hle
        have hav' : d = .forward → avail.filter (fun v => !bc.contains v) =
            (List.range p).filter (fun v => !bc.contains v) := by
          intro hd; subst hd
          simp only [steps, addOne, List.mem_map] at hmem
          obtain ⟨v, _, rfl⟩ := hmem
          rw [hav rfl, List.filter_filter]
          apply List.filter_congr
          intro x _
          simp only [List.contains_append, Bool.not_or]
          cases cols.contains x <;> cases ([v].contains x) <;> rfl
        obtain ⟨i1, i2, i3, i4⟩ := ih bc ba (avail.filter (fun v => !bc.contains v)) (vis ++ steps d cols avail) j1 hav'
        refine ⟨le_trans i1 hle, i2, i3, ?_⟩
        intro hmu
        apply i4
        cases d with
        | backward =>
          simp only [mu] at hmu ⊢
          simp only [steps] at hmem
          split at hmem
          · simp at hmem
          · have := dropOne_length cols bc hmem; omega
        | forward =>
          simp only [mu] at hmu ⊢
          simp only [steps, addOne, List.mem_map] at hmem
          obtain ⟨v, hv, rfl⟩ := hmem
          have : (avail.filter (fun x => !(cols ++ [v]).contains x)).length < avail.length := by
            rw [List.length_filter_lt_length_iff_exists]
            exact ⟨v, hv, by simp⟩
          omega
      · rename_i hnle
        refine ⟨le_refl _, ha, ?_, by intro _; rfl⟩
        intro _ alt halt v hv
        rw [← hadm] at halt
        exact lt_of_lt_of_le (not_le.mp hnle) (j3 alt halt v hv)

/-- **StepwiseSL never returns a model with worse AIC than its starting model**, the AIC it reports is the AIC
    of the columns it returns, the search ends by its own stopping rule within `p + 1` passes (the fuel bound
    is never hit), and **on exit no admissible single step has an AIC that is lower or equal** (so none lowers
    it): backward = dropping any one column, forward = adding any one unused column; alternatives whose AIC
    is NaN are not comparable and never chosen.  Covers the empty / saturated models (no admissible step) and
    the all-NaN round. -/
theorem stepwise_sound (d : Dir) (aic : List Nat → Option F) (p : Nat) (R : Result F)
    (h : search d aic p = some R) :
    ∃ a0, aic (startCols d p) = some a0 ∧
      R.aic ≤ a0 ∧ aic R.cols = some R.aic ∧ R.done = true ∧
      ∀ alt ∈ admissible d p R.cols, ∀ v, aic alt = some v → R.aic < v := by
  unfold search at h
  cases ha : aic (startCols d p) with
  | none => rw [ha] at h; cases h
  | some a0 =>
    rw [ha] at h
    simp only [Option.some.injEq] at h
    subst h
    obtain ⟨i1, i2, i3, i4⟩ := loop_spec d aic p (p + 1)
      (startCols d p) a0 (List.range p) [] ha (by
        intro hd; subst hd; simp [startCols])
    have hdone := i4 (by cases d <;> simp [mu, startCols])
    exact ⟨a0, rfl, i1, i2, hdone, i3 hdone⟩

/-- the returned AIC is never worse than the starting AIC -/
theorem stepwise_not_worse (d : Dir) (aic : List Nat → Option F) (p : Nat) (R : Result F) (a0 : F)
    (h : search d aic p = some R)
    (h0 : aic (startCols d p) = some a0) : R.aic ≤ a0 := by
  obtain ⟨a, ha, hle, _⟩ := stepwise_sound d aic p R h
  rw [h0] at ha; cases ha; exact hle

/-- on exit no admissible single step lowers the AIC -/
theorem stepwise_local_opt (d : Dir) (aic : List Nat → Option F) (p : Nat) (R : Result F)
    (h : search d aic p = some R) (alt : List Nat) (halt : alt ∈ admissible d p R.cols) (v : F)
    (hv : aic alt = some v) : ¬ v < R.aic := by
  obtain ⟨_, _, _, _, _, hopt⟩ := stepwise_sound d aic p R h
  exact not_lt.mpr (hopt alt halt v hv).le

/-- a NaN AIC of the starting model is an error (no result) -/
theorem stepwise_start_nan (d : Dir) (aic : List Nat → Option F) (p : Nat)
    (h : aic (startCols d p) = none) : search d aic p = none := by
  unfold search; rw [h]

end stepwise

/-- non-vacuity: a 3-column backward search that drops column 1, then stops; and a forward search -/
example : (Stepwise.search .backward (fun c : List Nat => if c = [0, 1, 2] then some (10 : Rat) else if c = [0, 2] then some 8
      else if c = [0, 1] then some 9 else if c = [1, 2] then none else some 12) 3).map
    (fun R => (R.cols, R.aic, R.visited, R.done)) =
    some ([0, 2], 8, [[0, 1], [0, 2], [1, 2], [0], [2]], true) := by decide +kernel
example : (Stepwise.search .forward (fun c : List Nat => if c = [] then some (10 : Rat) else if c = [1] then some 7
      else if c = [1, 0] then some 7 else some 11) 3).map (fun R => (R.cols, R.aic, R.visited, R.done)) =
    some ([1, 0], 7, [[0], [1], [2], [1, 0], [1, 2], [1, 0, 2]], true) := by decide +kernel

end ZV.P20
