/-
C06, tie to the source of the variance estimator of the cross-fit AIPTW classes: `aipw_calculator` with `splits` given
(zepid/causal/utils.py; called by `SingleCrossfitAIPTW._single_crossfit_` and `DoubleCrossfitAIPTW._single_crossfit_`
with the split label of every row) is regenerated on every run into `Gen/FitSplits.lean` (`Gen.aipw_calc_splits`; the
`splits=None` branch is `Gen.aipw_calc` of `Gen/Fit.lean`).  The split label of a row is `r.s`, `labels` = `set(splits)`.

Theorems: the regenerated difference branch returns the mean pseudo-outcome difference and **the mean over the splits of
the within-split sample variance of the pseudo-outcome difference, over the number of all rows** — the documented
"influence-function variance over n", per split (the `− estimate` inside `np.var` is immaterial: a variance does not see
a shift); that variance is non-negative; with a single split it is the `splits=None` estimator; and the ratio and the
weighted branches do not look at `splits` at all (as the text of the function has it).
-/
import ZepidVerif.Props.C06
import ZepidVerif.Gen.FitSplits
import ZepidVerif.Gen.Fit
import ZepidVerif.Lemmas.Sum
set_option linter.unusedSectionVars false
set_option linter.unusedVariables false
namespace ZV.P06
open ZV ZV.Gen

variable {F : Type} [Field F] [LinearOrder F] [IsStrictOrderedRing F] [Transc F]

/-! ### helper lemmas (not obligations) -/

private lemma count_cast {α : Type} (d : α → Bool) (l : List α) :
    sumBy (fun x => if d x then ((1 : Nat) : F) else ((0 : Nat) : F)) l = ((l.filter d).length : F) := by
  induction l with
  | nil => simp
  | cons x xs ih =>
    rw [sumBy_cons, ih, List.filter_cons]
    cases d x <;> simp
    ring

private lemma masked_zero {α : Type} (d : α → Bool) (g : α → F) (l : List α) (h : (l.filter d).length = 0) :
    sumBy (fun x => if d x then g x else ((0 : Nat) : F)) l = 0 := by
  have hno : ∀ x ∈ l, d x = false := by
    intro x hx
    by_contra hd
    have : x ∈ l.filter d := List.mem_filter.mpr ⟨hx, by simpa using hd⟩
    rw [List.length_eq_zero_iff.mp h] at this
    exact absurd this (List.not_mem_nil)
  rw [sumBy_congr (g := fun _ => (0 : F)) (fun x hx => by simp [hno x hx]), sumBy_zero]

/-- a sample variance does not see a shift of its argument (`np.var(x - c) = np.var(x)`), also restricted to a mask -/
private lemma nanvar1By_shift {α : Type} (d : α → Bool) (f : α → F) (c : F) (l : List α) :
    nanvar1By d (fun x => f x - c) l = nanvar1By d f l := by
  unfold nanvar1By nanmeanBy
  simp only
  rw [count_cast]
  by_cases hN : (l.filter d).length = 0
  · rw [masked_zero d _ l hN, masked_zero d _ l hN]
  · have hN' : ((l.filter d).length : F) ≠ 0 := by exact_mod_cast hN
    congr 1
    apply sumBy_congr
    intro x _
    have hs : sumBy (fun x => if d x then f x - c else ((0 : Nat) : F)) l
        = sumBy (fun x => if d x then f x else ((0 : Nat) : F)) l - c * ((l.filter d).length : F) := by
      rw [← count_cast d l, ← sumBy_mul_left, ← sumBy_sub]
      apply sumBy_congr
      intro y _
      cases d y <;> simp
    rw [hs]
    cases d x
    · simp
    · simp only [if_true]
      congr 1 <;> field_simp <;> ring

private lemma nanvar1By_nonneg {α : Type} (d : α → Bool) (f : α → F) (l : List α) : 0 ≤ nanvar1By d f l := by
  unfold nanvar1By
  simp only
  rw [count_cast]
  have hnum : 0 ≤ sumBy (fun x => if d x then
      (f x - nanmeanBy d f l) * (f x - nanmeanBy d f l) else ((0 : Nat) : F)) l := by
    apply sumBy_nonneg
    intro x _
    cases d x
    · simp
    · simp only [if_true]; exact mul_self_nonneg _
  by_cases hN : (l.filter d).length = 0
  · have := masked_zero d (fun x => (f x - nanmeanBy d f l) * (f x - nanmeanBy d f l)) l hN
    unfold nanmeanBy at this ⊢
    rw [this]; simp
  · have h1 : (1 : F) ≤ ((l.filter d).length : F) := by
      exact_mod_cast Nat.one_le_iff_ne_zero.mpr hN
    apply div_nonneg
    · unfold nanmeanBy at hnum ⊢; exact hnum
    · simp only [Nat.cast_one]; linarith

private lemma nanvar1By_congr_mask {α : Type} (p q : α → Bool) (f : α → F) (l : List α) (h : ∀ x ∈ l, p x = q x) :
    nanvar1By p f l = nanvar1By q f l := by
  have e1 : ∀ g : α → F, sumBy (fun x => if p x then g x else ((0 : Nat) : F)) l
      = sumBy (fun x => if q x then g x else ((0 : Nat) : F)) l := by
    intro g; apply sumBy_congr; intro x hx; rw [h x hx]
  unfold nanvar1By nanmeanBy
  simp only
  rw [e1 f, e1 (fun _ => ((1 : Nat) : F))]
  congr 1
  apply sumBy_congr
  intro x hx
  rw [h x hx]

/-- the pseudo-outcome difference of one row, as the first two lines of `aipw_calculator` compute it -/
def pseudoDiff (py_a py_n pa1 pa0 : Std.Row F → F) (r : Std.Row F) : F :=
  (if r.a = true then (r.y - py_a r * (1 - pa1 r)) / pa1 r else py_a r) -
  (if r.a = false then (r.y - py_n r * (1 - pa0 r)) / pa0 r else py_n r)

/-! ### Theorems about the regenerated code -/

/-- **Cross-fit AIPTW, difference: what the regenerated `aipw_calculator(…, splits=…)` returns.**  The estimate is the
    mean of the pseudo-outcome differences over all rows; the variance is the mean, over the split labels, of the
    within-split sample variance (`ddof = 1`) of the pseudo-outcome difference, divided by the number of all rows. -/
theorem aipw_calc_splits_generated (nanv : F) (l : List (Std.Row F)) (labels : List Nat)
    (py_a py_n pa1 pa0 : Std.Row F → F) :
    Gen.aipw_calc_splits true false nanv l labels py_a py_n pa1 pa0
      = (sumBy (pseudoDiff py_a py_n pa1 pa0) l / (l.length : F),
         (sumBy (fun i => nanvar1By (fun r => decide (r.s = i)) (pseudoDiff py_a py_n pa1 pa0) l) labels
            / (labels.length : F)) / (l.length : F)) := by
  unfold Gen.aipw_calc_splits pseudoDiff
  simp only [if_true, Bool.false_eq_true, if_false, Nat.cast_one, List.length_map, sumBy_map, nanvar1By_shift]

/-- **The reported variance is non-negative** (whatever the nuisance predictions). -/
theorem aipw_calc_splits_var_nonneg (nanv : F) (l : List (Std.Row F)) (labels : List Nat)
    (py_a py_n pa1 pa0 : Std.Row F → F) :
    0 ≤ (Gen.aipw_calc_splits true false nanv l labels py_a py_n pa1 pa0).2 := by
  rw [aipw_calc_splits_generated]
  apply div_nonneg
  · apply div_nonneg
    · exact sumBy_nonneg (fun i _ => nanvar1By_nonneg _ _ _)
    · exact Nat.cast_nonneg _
  · exact Nat.cast_nonneg _

/-- **One split = no splits.**  When all rows carry the same label and no outcome is missing, the cross-fit branch
    returns what the `splits=None` branch (`Gen.aipw_calc`, the AIPTW estimator) returns. -/
theorem aipw_calc_splits_one (nanv : F) (l : List (Std.Row F)) (i0 : Nat) (hs : ∀ r ∈ l, r.s = i0)
    (hobs : ∀ r ∈ l, r.obs = true) (py_a py_n pa1 pa0 : Std.Row F → F) :
    Gen.aipw_calc_splits true false nanv l [i0] py_a py_n pa1 pa0
      = Gen.aipw_calc true false nanv l py_a py_n pa1 pa0 := by
  rw [aipw_calc_splits_generated]
  unfold Gen.aipw_calc pseudoDiff
  simp only [if_true, Bool.false_eq_true, if_false, Nat.cast_one, nanvar1By_shift, List.length_cons,
    List.length_nil, Nat.zero_add, sumBy_cons, sumBy_nil, add_zero, div_one]
  have hmask : ∀ r ∈ l, (decide (r.s = i0)) =
      decide ((((r.a = true → r.obs = true) ∧ (¬ r.a = true → True)) ∧ ((r.a = false → r.obs = true) ∧ (¬ r.a = false → True)))) := by
    intro r hr; simp [hs r hr, hobs r hr]
  congr 1
  · unfold nanmeanBy
    have hall : ∀ (g : Std.Row F → F), sumBy (fun r => if decide ((((r.a = true → r.obs = true) ∧ (¬ r.a = true → True)) ∧
        ((r.a = false → r.obs = true) ∧ (¬ r.a = false → True)))) = true then g r else ((0 : Nat) : F)) l = sumBy g l := by
      intro g; apply sumBy_congr; intro r hr; simp [hobs r hr]
    rw [hall, hall, Nat.cast_one, sumBy_const_one]
  · congr 1
    exact nanvar1By_congr_mask _ _ _ l hmask

local instance : Transc ℚ := ⟨id, id, id⟩

example : Gen.aipw_calc_splits true false (0 : Rat)
    [⟨0, 0, true, 1, 1, true⟩, ⟨1, 0, false, 0, 1, true⟩, ⟨2, 0, true, 0, 1, true⟩,
     ⟨3, 1, true, 1, 1, true⟩, ⟨4, 1, false, 1, 1, true⟩, ⟨5, 1, false, 0, 1, true⟩] [0, 1]
    (fun _ => 1 / 2) (fun _ => 1 / 4) (fun _ => 1 / 2) (fun _ => 1 / 2) = (1 / 3, 17 / 72) := by decide +kernel

/-- **The ratio branch and the weighted branches do not read `splits`** — as in the text of `aipw_calculator`, where
    only the unweighted difference has a per-split variance: the regenerated cross-fit branch then does what the
    regenerated `splits=None` branch does on complete outcomes (estimate; for the unweighted ratio also the variance,
    finding F16's formula). -/
theorem aipw_calc_splits_ratio_estimate (hasWeights : Bool) (nanv : F) (l : List (Std.Row F)) (labels : List Nat)
    (hobs : ∀ r ∈ l, r.obs = true) (py_a py_n pa1 pa0 : Std.Row F → F) :
    (Gen.aipw_calc_splits false hasWeights nanv l labels py_a py_n pa1 pa0).1
      = (Gen.aipw_calc false hasWeights nanv l py_a py_n pa1 pa0).1 := by
  have hall : ∀ (p : Std.Row F → Prop) [DecidablePred p] (g : Std.Row F → F), (∀ r ∈ l, p r) →
      sumBy (fun r => if p r then g r else ((0 : Nat) : F)) l = sumBy g l := by
    intro p _ g hp; apply sumBy_congr; intro r hr; simp [hp r hr]
  have hallb : ∀ (p : Std.Row F → Prop) [DecidablePred p] (g : Std.Row F → F), (∀ r ∈ l, p r) →
      sumBy (fun r => if decide (p r) = true then g r else ((0 : Nat) : F)) l = sumBy g l := by
    intro p _ g hp; apply sumBy_congr; intro r hr; simp [hp r hr]
  cases hasWeights
  · unfold Gen.aipw_calc_splits Gen.aipw_calc nanmeanBy
    simp only [Bool.false_eq_true, if_false, if_true]
    rw [hallb _ _ (fun r hr => by simp [hobs r hr]), hallb _ _ (fun r hr => by simp [hobs r hr]),
      hallb _ _ (fun r hr => by simp [hobs r hr]), hallb _ _ (fun r hr => by simp [hobs r hr]),
      Nat.cast_one, sumBy_const_one]
  · unfold Gen.aipw_calc_splits Gen.aipw_calc
    simp only [Bool.false_eq_true, Bool.true_eq_false, if_false, if_true]
    rw [hall _ _ (fun r hr => by simp [hobs r hr]), hall _ _ (fun r hr => by simp [hobs r hr]),
      hall _ _ (fun r hr => by simp [hobs r hr]), hall _ _ (fun r hr => by simp [hobs r hr])]

end ZV.P06
