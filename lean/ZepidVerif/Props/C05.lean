/-
C05 — Inverse probability weights equal their documented definitions.

Subject: the *generated* `ZV.Gen.iptw_weight` (the six `np.where` formulas of `iptw_calculator`,
regenerated from /repo on every run), `ZV.Ipw.iptwRow` / `outcomeIpmw` (bounding, `IPTW.missing_model`),
`ZV.Stoch.planNumer` / `stochWeight` (StochasticIPTW), `ZV.Ipmw.rowWeight` / `plan` (IPMW) and
`ZV.Ipcw.sortRecs` / `uncens` / `weights` / `prepFlat` (IPCW).  The same definitions are executed by the
native driver in the correspondence check.  Fitted probabilities are parameters (statsmodels computes
them; the harness measures that they are the ML fit of the documented model on the documented rows).
All statements hold in any linearly ordered field, for data sets of any size.
-/
import ZepidVerif.Model.Ipw
import ZepidVerif.Lemmas.Stochastic
import ZepidVerif.Lemmas.Ipmw
import ZepidVerif.Lemmas.Ipcw
import Mathlib.Algebra.Order.Field.Rat
import Mathlib.Tactic.NormNum
import Mathlib.Tactic.FieldSimp
set_option linter.unusedSectionVars false
set_option linter.unusedVariables false
namespace ZV.P05
open ZV ZV.Std

variable {F : Type} [Field F] [LinearOrder F] [IsStrictOrderedRing F] [Transc F]

/-! ### IPTW: the documented weights (class docstring of `IPTW`), written by hand -/

/-- `Pr(A = a | ·)` from `Pr(A = 1 | ·)` -/
def prOf (a : Bool) (p : F) : F := if a then p else 1 - p

/-- documented weight of a row with treatment `a`, `d = Pr(A=1|L)`, `n = Pr(A=1)` (or `Pr(A=1|V)`):
    * population: `1 / Pr(A=a|L)` unstabilized, `Pr(A=a) / Pr(A=a|L)` stabilized;
    * exposed (SMR): `1` for the exposed, the odds `Pr(A=1|L) / Pr(A=0|L)` for the unexposed, times the
      stabilization factor `Pr(A=0) / Pr(A=1)` when stabilized;
    * unexposed (SMR): the odds `Pr(A=0|L) / Pr(A=1|L)` (times `Pr(A=1) / Pr(A=0)`) for the exposed, `1` for
      the unexposed. -/
def docWeight (stab : Bool) (t : Tgt) (a : Bool) (n d : F) : F :=
  match t with
  | .pop => (if stab then prOf a n else 1) / prOf a d
  | .exposed => if a then 1 else (d / (1 - d)) * (if stab then (1 - n) / n else 1)
  | .unexposed => if a then ((1 - d) / d) * (if stab then n / (1 - n) else 1) else 1

/-- **the generated `iptw_calculator` formula is the documented weight**, in all 6 cells
    (stabilized × population / exposed / unexposed), for both treatment values -/
theorem iptw_weight_spec (stab : Bool) (t : Tgt) (a : Bool) (n d : F) :
    Gen.iptw_weight stab t.str a n d = docWeight stab t a n d := by
  cases stab <;> cases t <;> cases a <;> simp [Gen.iptw_weight, Tgt.str, docWeight, prOf]

/-- SMR weights are odds weights: the unstabilized weight for the exposed / unexposed target is the
    population weight times the probability of belonging to the target group given `L`; in particular the
    index group gets 1 and the other group the odds -/
theorem smr_is_odds (a : Bool) (n d : F) (h0 : d ≠ 0) (h1 : d ≠ 1) :
    Gen.iptw_weight false "exposed" a n d = d * Gen.iptw_weight false "population" a n d ∧
    Gen.iptw_weight false "unexposed" a n d = (1 - d) * Gen.iptw_weight false "population" a n d ∧
    Gen.iptw_weight false "exposed" true n d = 1 ∧ Gen.iptw_weight false "exposed" false n d = d / (1 - d) ∧
    Gen.iptw_weight false "unexposed" false n d = 1 ∧ Gen.iptw_weight false "unexposed" true n d = (1 - d) / d := by
  have h1' : (1 : F) - d ≠ 0 := sub_ne_zero.mpr (Ne.symm h1)
  cases a <;> simp [Gen.iptw_weight] <;> field_simp <;> simp

/-- with `bound`, the weight is the documented formula at the clipped probabilities, and the clipped
    probabilities lie in `[lo, hi]` -/
theorem iptw_bounded_spec (stab : Bool) (t : Tgt) (a : Bool) (n d lo hi : F) (h : lo ≤ hi) :
    Ipw.iptwRow stab t.str (some (lo, hi)) a n d = docWeight stab t a (Bounds.clip1 lo hi n) (Bounds.clip1 lo hi d) ∧
    lo ≤ Bounds.clip1 lo hi d ∧ Bounds.clip1 lo hi d ≤ hi ∧
    (lo ≤ d → d ≤ hi → Bounds.clip1 lo hi d = d) ∧
    Ipw.iptwRow stab t.str none a n d = docWeight stab t a n d := by
  refine ⟨by simp [Ipw.iptwRow, Ipw.bounded, iptw_weight_spec], ?_, ?_, ?_, by simp [Ipw.iptwRow, Ipw.bounded, iptw_weight_spec]⟩
  · unfold Bounds.clip1; dsimp only; split_ifs <;> first | exact h | exact le_rfl | (apply le_of_not_gt; assumption)
  · unfold Bounds.clip1; dsimp only; split_ifs <;> first | exact h | exact le_rfl | (apply le_of_not_gt; assumption)
  · intro h1 h2; unfold Bounds.clip1; dsimp only
    rw [if_neg (not_lt.mpr h1), if_neg (not_lt.mpr h2)]

/-- **the limits are entries 0 and 1 of the collection handed over as `bound`, whatever follows them, and a limit of
    exactly 0 (or 1) is a limit**: for a collection `lo :: hi :: rest` with `0 ≤ lo ≤ hi ≤ 1` that Python does not treat
    as false (`falsy = false`: any non-empty list / tuple, also one that *contains* a 0), `if bound:` +
    `probability_bounds` apply the interval `(lo, hi)` — `rest` does not enter — so the weight is the documented formula
    at the probabilities clipped to `[lo, hi]`; with `lo = 0` this is one-sided truncation from above (probabilities
    not above `hi` are left alone), with `hi = 1` from below.  Only an object that is itself false (the default `False`,
    `0.0`) switches truncation off. -/
theorem iptw_bound_collection_spec (stab : Bool) (t : Tgt) (a : Bool) (n d lo hi : F) (rest : List (Option F))
    (h0 : 0 ≤ lo) (h : lo ≤ hi) (h1 : hi ≤ 1) :
    Bounds.estimatorBound false (.seq (some lo :: some hi :: rest)) = .ok (some (lo, hi)) ∧
    Ipw.iptwRow stab t.str (some (lo, hi)) a n d
      = docWeight stab t a (Bounds.clip1 lo hi n) (Bounds.clip1 lo hi d) ∧
    Ipw.outcomeIpmw stab (some (lo, hi)) true n d = some ((if stab then n else 1) / Bounds.clip1 lo hi d) ∧
    (lo = 0 → 0 ≤ d → Bounds.clip1 lo hi d = if hi < d then hi else d) ∧
    (hi = 1 → d ≤ 1 → Bounds.clip1 lo hi d = if d < lo then lo else d) ∧
    (∀ s : Bounds.BoundSpec F, Bounds.estimatorBound true s = .ok none) := by
  have ha : ¬ lo > hi := not_lt.mpr h
  have hb : ¬ (lo < 0 ∨ hi > 1) := by simp only [not_or, not_lt]; exact ⟨h0, h1⟩
  refine ⟨by simp [Bounds.estimatorBound, Bounds.parseBound, ha, hb],
    (iptw_bounded_spec stab t a n d lo hi h).1, by simp [Ipw.outcomeIpmw, Ipw.bounded], ?_, ?_,
    by intro s; simp [Bounds.estimatorBound]⟩
  · intro hl hd; subst hl; unfold Bounds.clip1; dsimp only
    rw [if_neg (not_lt.mpr hd)]
  · intro hh hd; subst hh; unfold Bounds.clip1; dsimp only
    by_cases c : d < lo
    · simp only [if_pos c]; exact if_neg (not_lt.mpr h)
    · simp only [if_neg c]; exact if_neg (not_lt.mpr hd)

/-- `IPTW.missing_model`: rows with an observed outcome get `Pr(observed | numerator) / Pr(observed | A, L)`
    (`1 / …` unstabilized; denominator clipped when `bound` is given), rows with a missing outcome get none -/
theorem outcome_ipmw_spec (stab : Bool) (b : Option (F × F)) (n d : F) :
    Ipw.outcomeIpmw stab b true n d = some ((if stab then n else 1) / Ipw.bounded b d) ∧
    Ipw.outcomeIpmw stab b false n d = none := by
  simp [Ipw.outcomeIpmw]

/-! ### StochasticIPTW -/

/-- **numerator of the stochastic weight** = the plan's probability of the treatment the row received
    (`p` if `A = 1` else `1 - p`), taken from the condition that selects the row; unconditional plans use the
    single `p`; a row selected by no condition has no numerator (NaN) -/
theorem stoch_numer (r : Row F) :
    (∀ p : F, Stoch.planNumer (.uncond p) r = some (if r.a then p else 1 - p)) ∧
    (∀ (cs : List (Stoch.Cond F)) (c : Stoch.Cond F), Stoch.Exclusive cs r.i → c ∈ cs → c.mask r.i = true →
      Stoch.planNumer (.cond cs) r = some (if r.a then c.p else 1 - c.p)) ∧
    (∀ cs : List (Stoch.Cond F), (∀ c ∈ cs, c.mask r.i = false) → Stoch.planNumer (.cond cs) r = none) := by
  refine ⟨fun p => by simp [Stoch.planNumer, Stoch.recv], ?_, ?_⟩
  · intro cs c hx hc hm
    have := Stoch.overwrite_of_mem (Stoch.numerPairs r.a cs) r.i (Stoch.exclAt_numerPairs r.a cs r.i hx)
      (c.mask, fun _ => Stoch.recv r.a c.p) (List.mem_map.mpr ⟨c, hc, rfl⟩) hm
    simpa [Stoch.planNumer, Stoch.recv] using this
  · intro cs h
    apply Stoch.overwrite_none
    intro c hc
    obtain ⟨c', hc', rfl⟩ := List.mem_map.mp hc
    exact h c' hc'

/-- **the stochastic weight** = plan probability of the treatment received over the fitted probability
    of the treatment received (times the frequency weight) -/
theorem stoch_weight_spec (r : Row F) (g : Row F → F) (cs : List (Stoch.Cond F)) (c : Stoch.Cond F)
    (hx : Stoch.Exclusive cs r.i) (hc : c ∈ cs) (hm : c.mask r.i = true) :
    Stoch.stochWeight (.cond cs) g r = some (prOf r.a c.p / prOf r.a (g r) * r.w) ∧
    ∀ p : F, Stoch.stochWeight (.uncond p) g r = some (prOf r.a p / prOf r.a (g r) * r.w) := by
  constructor
  · simp [Stoch.stochWeight, (stoch_numer r).2.1 cs c hx hc hm, prOf, Stoch.recv]
  · intro p; simp [Stoch.stochWeight, (stoch_numer r).1 p, prOf, Stoch.recv]

/-! ### IPMW (single variable and monotone chains) -/
open Ipmw

/-- **monotone IPMW.**  Monotone data over `k` variables; a row observed on the last variable whose
    fitted conditional observation probabilities are `dv j` (numerator models: `nv j`), where `dv j` is the
    prediction of the model for "V_j observed" fitted among the rows observed on V_{j-1}.  Whenever V_j is
    uniformly missing with V_{j-1} that conditional probability is identically 1 (`hskip`; no model is or can
    be fitted: every row of the fitting set is observed).  Then the weight is the numerator over the product
    of **all** `k` conditional observation probabilities — the unstabilized weight is the inverse of the
    product along the chain.  Both shortcuts of the code (overall-uniform collapse to the first variable,
    skipping a uniform pair) are covered. -/
theorem ipmw_monotone (l : List MRow) (k : Nat) (hk : 0 < k) (hm : Monotone l k) (stab : Bool)
    (n d : Nat → Nat → Option F) (r : MRow) (hr : r ∈ l) (hobs : obsAt r (k - 1) = true) (dv nv : Nat → F)
    (hd : ∀ j < k, d j r.i = some (dv j)) (hn : stab = true → ∀ j < k, n j r.i = some (nv j))
    (hskip : ∀ j, 0 < j → j < k → pairUniform l j = true → dv j = 1 ∧ nv j = 1) :
    rowWeight l k stab n d r
      = some ((if stab then ((List.range k).map nv).prod else 1) / ((List.range k).map dv).prod) := by
  unfold rowWeight
  by_cases hu : overallUniform l k = true
  · rw [if_pos hu, ← filter_zero_range k hk]
    refine weight_filter_spec stab k 0 _ n d r (obs_of_last hm hr hobs 0 hk) dv nv hd hn ?_
    intro j hj hq
    have hj0 : 0 < j := by
      rcases Nat.eq_zero_or_pos j with rfl | h
      · simp at hq
      · exact h
    exact hskip j hj0 hj (pairUniform_of_overall hm hu j hj0 hj)
  · rw [if_neg hu]
    unfold fitted
    refine weight_filter_spec stab k (k - 1) _ n d r hobs dv nv hd hn ?_
    intro j hj hq
    simp only [Bool.or_eq_false_iff, Bool.not_eq_false', beq_eq_false_iff_ne, ne_eq] at hq
    exact hskip j (Nat.pos_of_ne_zero hq.1) hj hq.2

/-- rows not observed on the last variable get no weight (NaN) -/
theorem ipmw_unobserved_none (l : List MRow) (k : Nat) (hk : 0 < k) (stab : Bool) (n d : Nat → Nat → Option F)
    (r : MRow) (hr : r ∈ l) (hobs : obsAt r (k - 1) = false) : rowWeight l k stab n d r = none := by
  unfold rowWeight
  by_cases hu : overallUniform l k = true
  · rw [if_pos hu]
    have h0 : obsAt r 0 = false := by
      cases h : obsAt r 0
      · rfl
      · unfold overallUniform at hu
        rw [List.all_eq_true] at hu
        have := hu r hr
        rw [h] at this
        have hall : (List.range k).all (obsAt r) = true := by simpa using this
        rw [List.all_eq_true] at hall
        have := hall (k - 1) (List.mem_range.mpr (by omega))
        rw [hobs] at this; cases this
    simp [weight, h0]
  · rw [if_neg hu]; simp [weight, hobs]

/-- what `ipmw` returns: the row weights above, and a fitting plan in which the model of variable `j` is
    fitted on exactly the rows observed on the previous variable (all rows for the first variable) -/
theorem ipmw_fit_sets (l : List MRow) (k : Nat) (stab : Bool) (n d : Nat → Nat → Option F) (o : Out F)
    (h : ipmw l k stab n d = .ok o) :
    o.weights = l.map (rowWeight l k stab n d) ∧
    ∀ p ∈ o.plan, p.1 < k ∧ p.2 = (l.filter fun r => p.1 == 0 || obsAt r (p.1 - 1)).map (·.i) := by
  unfold ipmw at h
  split_ifs at h with h1 h2 h3
  simp only [Except.ok.injEq] at h
  subst h
  refine ⟨rfl, ?_⟩
  have hk : 0 < k := by
    rcases Nat.eq_zero_or_pos k with rfl | hk
    · simp at h1
    · exact hk
  have hset : ∀ j, fitSet l j = (l.filter fun r => j == 0 || obsAt r (j - 1)).map (·.i) := by
    intro j
    unfold fitSet
    by_cases hj : j = 0
    · subst hj; simp
    · have : (j == 0) = false := by simp [hj]
      simp [this]
  intro p hp
  unfold plan at hp
  split_ifs at hp with hu
  · simp only [List.mem_singleton] at hp
    subst hp
    exact ⟨hk, hset 0⟩
  · obtain ⟨j, hj, rfl⟩ := List.mem_map.mp hp
    unfold fitted at hj
    exact ⟨List.mem_range.mp (List.mem_filter.mp hj).1, hset j⟩

/-- uniform patterns collapse: if every adjacent pair is uniformly missing the weight is the
    single-variable weight of the first variable; and a variable uniformly missing with its predecessor
    never contributes a factor (its models' predictions are irrelevant) -/
theorem ipmw_uniform_collapse (l : List MRow) (k : Nat) (hk : 0 < k) (stab : Bool) (n d : Nat → Nat → Option F)
    (r : MRow) :
    ((∀ j, 0 < j → j < k → pairUniform l j = true) → rowWeight l k stab n d r = weight stab [0] 0 n d r) ∧
    (∀ j, 0 < j → pairUniform l j = true → ∀ n' d' : Nat → Nat → Option F,
      (∀ j' i, j' ≠ j → n' j' i = n j' i ∧ d' j' i = d j' i) →
      rowWeight l k stab n' d' r = rowWeight l k stab n d r) := by
  constructor
  · intro hp
    unfold rowWeight
    rw [if_pos (overall_of_pairs hk hp)]
  · intro j hj0 hpu n' d' hsame
    have hw : ∀ (vars : List Nat) (last : Nat), j ∉ vars → weight stab vars last n' d' r = weight stab vars last n d r := by
      intro vars last hnot
      unfold weight
      have e1 : chain vars d' r.i = chain vars d r.i :=
        chain_congr vars d' d r.i (fun j' hj' => (hsame j' r.i (fun e => hnot (e ▸ hj'))).2)
      have e2 : chain vars n' r.i = chain vars n r.i :=
        chain_congr vars n' n r.i (fun j' hj' => (hsame j' r.i (fun e => hnot (e ▸ hj'))).1)
      rw [e1, e2]
    unfold rowWeight
    split_ifs
    · exact hw [0] 0 (by simp; omega)
    · refine hw _ _ ?_
      unfold fitted
      intro hmem
      have := (List.mem_filter.mp hmem).2
      have hne : (j == 0) = false := by simp; omega
      simp [hne, hpu] at this

/-- number of rows of stratum `s` (as a carrier value) -/
def cntS (l : List MRow) (str : MRow → Nat) (s : Nat) : F := sumBy (fun r => if str r = s then (1 : F) else 0) l
/-- number of rows of stratum `s` observed on variable `j` -/
def cntObs (l : List MRow) (str : MRow → Nat) (j s : Nat) : F :=
  sumBy (fun r => if str r = s ∧ obsAt r j = true then (1 : F) else 0) l

/-- **the weights recover the full sample.**  Strata `str` of fully observed covariates; every conditional
    model saturated in the strata (score equations: fitted probability × size of the fitting set in the
    stratum = number observed there), every stratum has somebody observed on every variable.  Then the
    unstabilized weights of the rows observed on the last variable sum to the number of rows. -/
theorem ipmw_recovers_n (l : List MRow) (k : Nat) (hk : 0 < k) (hm : Monotone l k)
    (S : List Nat) (hS : S.Nodup) (str : MRow → Nat) (hstr : ∀ r ∈ l, str r ∈ S)
    (δ : Nat → Nat → F) (n d : Nat → Nat → Option F) (hd : ∀ r ∈ l, ∀ j < k, d j r.i = some (δ j (str r)))
    (hfit0 : ∀ s ∈ S, δ 0 s * cntS l str s = cntObs l str 0 s)
    (hfit : ∀ s ∈ S, ∀ j, 0 < j → j < k → δ j s * cntObs l str (j - 1) s = cntObs l str j s)
    (hpos : ∀ s ∈ S, ∀ j < k, cntObs (F := F) l str j s ≠ 0) :
    sumBy (fun r => (rowWeight l k false n d r).getD 0) l = (l.length : F) := by
  -- uniform pairs have fitted probability 1
  have hone : ∀ s ∈ S, ∀ j, 0 < j → j < k → pairUniform l j = true → δ j s = 1 := by
    intro s hs j hj0 hjk hpu
    have hc : cntObs (F := F) l str j s = cntObs l str (j - 1) s := by
      unfold cntObs
      apply sumBy_congr
      intro r hr
      unfold pairUniform at hpu
      rw [List.all_eq_true] at hpu
      have h1 := hpu r hr
      have h2 : obsAt r j = true → obsAt r (j - 1) = true := by
        intro h; have := hm r hr (j - 1) (by omega); rw [Nat.sub_add_cancel hj0] at this; exact this h
      cases ha : obsAt r (j - 1) <;> cases hb : obsAt r j <;> simp_all
    have := hfit s hs j hj0 hjk
    rw [hc] at this
    have hne := hpos s hs (j - 1) (by omega)
    field_simp at this
    exact this
  -- telescoping product
  have htel : ∀ s ∈ S, ∀ m, m < k → ((List.range (m + 1)).map fun j => δ j s).prod * cntS l str s = cntObs l str m s := by
    intro s hs m
    induction m with
    | zero => intro _; simpa using hfit0 s hs
    | succ m ih =>
      intro hmk
      rw [List.range_succ, List.map_append, List.prod_append]
      simp only [List.map_cons, List.map_nil, List.prod_cons, List.prod_nil, mul_one]
      have := hfit s hs (m + 1) (by omega) hmk
      simp only [Nat.add_sub_cancel] at this
      rw [← this, ← ih (by omega)]; ring
  -- each row's weight
  have hrow : ∀ r ∈ l, (rowWeight l k false n d r).getD 0
      = if obsAt r (k - 1) = true then 1 / ((List.range k).map fun j => δ j (str r)).prod else 0 := by
    intro r hr
    by_cases ho : obsAt r (k - 1) = true
    · rw [if_pos ho, ipmw_monotone l k hk hm false n d r hr ho (fun j => δ j (str r)) (fun _ => 1)
        (hd r hr) (by intro h; cases h) (fun j h0 hj hp => ⟨hone _ (hstr r hr) j h0 hj hp, rfl⟩)]
      simp
    · have ho' : obsAt r (k - 1) = false := by simpa using ho
      rw [if_neg ho, ipmw_unobserved_none l k hk false n d r hr ho']; rfl
  rw [sumBy_congr hrow, sumBy_regroup str S hS _ l hstr]
  have hstrat : ∀ s ∈ S, sumBy (fun r => if str r = s then
        (if obsAt r (k - 1) = true then 1 / ((List.range k).map fun j => δ j (str r)).prod else 0) else 0) l
      = cntS l str s := by
    intro s hs
    have hprod := htel s hs (k - 1) (by omega)
    rw [Nat.sub_add_cancel hk] at hprod
    have hP : ((List.range k).map fun j => δ j s).prod ≠ 0 := by
      intro e; rw [e, zero_mul] at hprod; exact hpos s hs (k - 1) (by omega) hprod.symm
    have : sumBy (fun r => if str r = s then
        (if obsAt r (k - 1) = true then 1 / ((List.range k).map fun j => δ j (str r)).prod else 0) else 0) l
        = (1 / ((List.range k).map fun j => δ j s).prod) * cntObs l str (k - 1) s := by
      unfold cntObs
      rw [← sumBy_mul_left]
      apply sumBy_congr
      intro r _
      by_cases h1 : str r = s <;> by_cases h2 : obsAt r (k - 1) = true <;> simp [h1, h2]
    rw [this, ← hprod]
    field_simp
  rw [sumBy_congr hstrat]
  unfold cntS
  rw [← sumBy_regroup str S hS (fun _ => (1 : F)) l hstr, sumBy_one_length]

/-! ### IPCW -/
open Ipcw

/-- **censoring weights are the running product within subject.**  For any frame order, the weight at
    position `j` is the product, over the records at or before `j` that belong to the same subject, of
    numerator over denominator probability. -/
theorem ipcw_cumprod (l : List (Rec F)) (num den : Nat → F) (j : Nat) (hj : j < l.length) :
    (Ipcw.weights l num den)[j]?
      = some ((((l.take (j + 1)).filter fun r => r.id == l[j].id).map fun r => num r.lab / den r.lab).prod) := by
  unfold Ipcw.weights cumprod1
  rw [List.getElem?_zipWith, cumprodBy_getElem? _ _ _ l j hj, cumprodBy_getElem? _ _ _ l j hj]
  simp only [Nat.cast_one, one_mul, grpProd]
  rw [prod_map_div (fun r : Rec F => num r.lab) (fun r => den r.lab)]

/-- **… in time order.**  On a frame strictly sorted by (id, time) (what `sortRecs` returns for a long
    table without duplicated (id, time) pairs, see `sort_sorted_perm`), the records entering the product at
    position `j` are exactly the subject's records with time ≤ the time of record `j`. -/
theorem ipcw_time_order (l : List (Rec F)) (hs : l.Pairwise (fun a b => keyLt (recKey a) (recKey b) = true))
    (j : Nat) (hj : j < l.length) :
    (l.take (j + 1)).filter (fun r => r.id == l[j].id)
      = l.filter (fun r => r.id == l[j].id && decide (r.time ≤ l[j].time)) := by
  rw [List.pairwise_iff_getElem] at hs
  have key : ∀ (g : Nat) (t : F), g = l[j].id → t = l[j].time →
      (l.take (j + 1)).filter (fun r => r.id == g) = l.filter (fun r => r.id == g && decide (r.time ≤ t)) := by
    intro g t hg ht
    conv_rhs => rw [← List.take_append_drop (j + 1) l, List.filter_append]
    have hdrop : (l.drop (j + 1)).filter (fun r => r.id == g && decide (r.time ≤ t)) = [] := by
      rw [List.filter_eq_nil_iff]
      intro x hx
      obtain ⟨i, hi, rfl⟩ := List.mem_drop_iff_getElem.mp hx
      have := hs j (j + 1 + i) hj (by omega) (by omega)
      rw [keyLt_iff] at this
      simp only [recKey] at this
      rw [hg, ht]
      rcases this with h | ⟨e, h⟩
      · simp; intro e; omega
      · simp; intro _; exact h
    rw [hdrop, List.append_nil]
    apply List.filter_congr
    intro x hx
    obtain ⟨i, hi, rfl⟩ := List.mem_take_iff_getElem.mp hx
    have hi' : i < j + 1 := (lt_min_iff.mp hi).1
    rw [hg, ht]
    by_cases hij : i = j
    · subst hij; simp
    · have := hs i j (lt_min_iff.mp hi).2 hj (by omega)
      rw [keyLt_iff] at this
      simp only [recKey] at this
      rcases this with h | ⟨e, h⟩
      · have : (l[i].id == l[j].id) = false := by simp; omega
        simp [this]
      · simp [e, h.le]
  exact key _ _ rfl rfl

/-- **… independent of the other subjects' rows.**  If a subject's own history up to a record is the same in
    two frames (other subjects' rows interleaved, added or removed arbitrarily), the record gets the same
    weight in both. -/
theorem ipcw_subject_local (l l' : List (Rec F)) (num den : Nat → F) (j j' : Nat) (hj : j < l.length)
    (hj' : j' < l'.length)
    (h : (l.take (j + 1)).filter (fun r => r.id == l[j].id) = (l'.take (j' + 1)).filter (fun r => r.id == l'[j'].id)) :
    (Ipcw.weights l num den)[j]? = (Ipcw.weights l' num den)[j']? := by
  rw [ipcw_cumprod l num den j hj, ipcw_cumprod l' num den j' hj', h]

/-- the sort step returns a permutation of the frame ordered by (id, time) — strictly when no (id, time) pair
    is duplicated — so rows of a subject are contiguous and in time order -/
theorem sort_sorted_perm (l : List (Rec F)) :
    (sortRecs l).Perm l ∧ (sortRecs l).Pairwise (fun a b => keyLt (recKey b) (recKey a) = false) ∧
    (sortRecs l).Pairwise (fun a b => a.id ≤ b.id) ∧
    (l.Pairwise (fun a b => recKey a ≠ recKey b) →
      (sortRecs l).Pairwise (fun a b => keyLt (recKey a) (recKey b) = true)) := by
  refine ⟨sortBy_perm recKey l, sortBy_sorted recKey l, ?_, sortBy_strict recKey l⟩
  refine (sortBy_sorted recKey l).imp ?_
  intro a b h
  unfold KeyLe at h
  rw [keyLt_false_iff] at h
  simp only [recKey] at h
  rcases h with h | ⟨e, _⟩ <;> omega

/-- **uncensored indicator (long format).**  `IPCW.__init__` sorts the frame by (id, time) and sets the
    indicator of a record to 0 iff it is the last record of its subject ∧ the subject has no event there ∧
    its time is not the maximum follow-up time `m` of the data. -/
theorem uncensored_char (l : List (Rec F)) (p : Prep F) (h : prepLong l = .ok p) :
    p.rows = sortRecs l ∧
    ∃ m, (∀ r ∈ l, r.time ≤ m) ∧ (∃ r ∈ l, r.time = m) ∧
      ∀ j (hj : j < p.rows.length),
        p.unc[j]? = some (!(((p.rows.drop (j + 1)).all fun r' => r'.id != p.rows[j].id) && !p.rows[j].event &&
          !decide (p.rows[j].time = m))) := by
  unfold prepLong at h
  cases hm : maxTime l with
  | none => rw [hm] at h; simp at h
  | some m =>
    rw [hm] at h
    simp only at h
    split_ifs at h
    simp only [Except.ok.injEq] at h
    subst h
    refine ⟨rfl, m, (maxTime_spec l m hm).1, (maxTime_spec l m hm).2, ?_⟩
    intro j hj
    exact uncens_getElem? m _ (sort_sorted_perm l).2.2.1 j hj

/-- **uncensored indicator (flat input through `_dataprep`).**  The expanded records are grouped by subject
    in id order; the indicator of a record is 0 iff it is the subject's last record ∧ it carries no event ∧
    its `t_out` is not the maximum `t_out`. -/
theorem flat_uncensored_char (l : List (Flat F)) (ex : List (LRec F)) (unc : List Bool)
    (h : prepFlat l = .ok (ex, unc)) :
    (∀ e ∈ ex, ∃ x ∈ l, e ∈ expandOne x ∧ e.r.id = x.id) ∧
    (ex.map LRec.r).Pairwise (fun a b => a.id ≤ b.id) ∧
    ∀ mo, maxTime (ex.map LRec.r) = some mo → ∀ j (hj : j < (ex.map LRec.r).length),
      unc[j]? = some (!((((ex.map LRec.r).drop (j + 1)).all fun r' => r'.id != (ex.map LRec.r)[j].id) &&
        !(ex.map LRec.r)[j].event && !decide ((ex.map LRec.r)[j].time = mo))) := by
  unfold prepFlat at h
  cases hm : maxTime (l.map fun x => (⟨x.lab, x.id, x.T, x.event⟩ : Rec F)) with
  | none => rw [hm] at h; simp at h
  | some m =>
    rw [hm] at h
    simp only at h
    split_ifs at h
    have hsorted : (((sortBy flatKey l).flatMap expandOne).map (·.r)).Pairwise (fun a b => a.id ≤ b.id) := by
      rw [List.pairwise_map, List.pairwise_flatMap]
      constructor
      · intro x _
        apply List.pairwise_of_forall_mem_list
        intro a ha b hb
        rw [expandOne_id x a ha, expandOne_id x b hb]
      · refine (sortBy_sorted flatKey l).imp ?_
        intro x y hxy a ha b hb
        rw [expandOne_id x a ha, expandOne_id y b hb]
        unfold KeyLe at hxy
        rw [keyLt_false_iff] at hxy
        simp only [flatKey] at hxy
        rcases hxy with h | ⟨e, _⟩ <;> omega
    have hmem : ∀ e ∈ (sortBy flatKey l).flatMap expandOne, ∃ x ∈ l, e ∈ expandOne x ∧ e.r.id = x.id := by
      intro e he
      obtain ⟨x, hx, hex⟩ := List.mem_flatMap.mp he
      exact ⟨x, (sortBy_perm flatKey l).mem_iff.mp hx, hex, expandOne_id x e hex⟩
    cases hmo : maxTime (((sortBy flatKey l).flatMap expandOne).map (·.r)) with
    | none =>
      rw [hmo] at h
      simp only [Except.ok.injEq, Prod.mk.injEq] at h
      obtain ⟨rfl, rfl⟩ := h
      refine ⟨by simp, by simp, ?_⟩
      intro mo hmo'; simp [maxTime] at hmo'
    | some mo =>
      rw [hmo] at h
      simp only [Except.ok.injEq, Prod.mk.injEq] at h
      obtain ⟨rfl, rfl⟩ := h
      refine ⟨hmem, hsorted, ?_⟩
      intro mo' hmo' j hj
      rw [hmo] at hmo'
      cases hmo'
      exact uncens_getElem? mo _ hsorted j hj

/-! ### Non-vacuity: concrete inputs satisfying the hypotheses, and the values the model computes on them -/

/-- ℚ has no exp/log/sqrt; none of the C05 definitions uses them (placeholder as in the driver) -/
local instance : Transc ℚ := ⟨id, id, id⟩

-- IPTW: stabilized SMR weight of an unexposed row with Pr(A=1|L) = 1/4, Pr(A=1) = 1/2: odds 1/3 × (1/2)/(1/2)
example : Gen.iptw_weight true "exposed" false (1/2 : ℚ) (1/4) = 1/3 := by
  rw [show "exposed" = Tgt.exposed.str from rfl, iptw_weight_spec]; norm_num [docWeight]
example : docWeight true Tgt.pop false (1/2 : ℚ) (1/4) = (1/2) / (3/4) := by norm_num [docWeight, prOf]
example : (1/4 : ℚ) ≠ 0 ∧ (1/4 : ℚ) ≠ 1 := by norm_num
-- bounding is active: 1/10 is clipped to 1/5
example : Ipw.iptwRow false "population" (some ((1/5 : ℚ), 4/5)) true 1 (1/10) = 5 := by
  rw [show "population" = Tgt.pop.str from rfl, (iptw_bounded_spec false Tgt.pop true 1 (1/10) (1/5) (4/5) (by norm_num)).1]
  norm_num [docWeight, prOf, Bounds.clip1]

-- a collection with more than two entries, the third below the first: the limits are 1/5 and 3/5 (7/10 is clipped to 3/5)
example : Bounds.estimatorBound false (.seq [some (1/5 : ℚ), some (3/5), some (1/10)]) = .ok (some (1/5, 3/5)) ∧
    Ipw.iptwRow false "population" (some ((1/5 : ℚ), 3/5)) true 1 (7/10) = 5/3 := by
  refine ⟨(iptw_bound_collection_spec false Tgt.pop true 1 (7/10) (1/5) (3/5) [some (1/10)]
    (by norm_num) (by norm_num) (by norm_num)).1, ?_⟩
  rw [show "population" = Tgt.pop.str from rfl, (iptw_bounded_spec false Tgt.pop true 1 (7/10) (1/5) (3/5) (by norm_num)).1]
  norm_num [docWeight, prOf, Bounds.clip1]
-- a lower limit of exactly 0: truncation from above only (9/10 becomes 3/4, 1/10 stays)
example : Bounds.estimatorBound false (.seq [some (0 : ℚ), some (3/4)]) = .ok (some (0, 3/4)) ∧
    Bounds.clip1 (0 : ℚ) (3/4) (9/10) = 3/4 ∧ Bounds.clip1 (0 : ℚ) (3/4) (1/10) = 1/10 := by
  refine ⟨(iptw_bound_collection_spec false Tgt.pop true 1 (9/10) 0 (3/4) [] (by norm_num) (by norm_num) (by norm_num)).1, ?_, ?_⟩ <;>
    norm_num [Bounds.clip1]

/-- two exclusive exhaustive conditions (even / odd row id) -/
def exConds : List (Stoch.Cond ℚ) := [⟨fun i => i % 2 == 0, 1/4⟩, ⟨fun i => i % 2 == 1, 3/4⟩]
example : ∀ i, Stoch.Exclusive exConds i := by
  intro i; simp only [Stoch.Exclusive, exConds, List.pairwise_cons, List.mem_cons, List.not_mem_nil, or_false]
  refine ⟨?_, by simp, by simp⟩
  intro c hc; subst hc; simp only [beq_iff_eq]; omega
example : Stoch.planNumer (.cond exConds) (⟨3, 0, false, 1, 1, true⟩ : Row ℚ) = some (1 - 3/4) := by decide +kernel
example : Stoch.stochIptw (.cond exConds) (fun _ => (1/2 : ℚ))
    [⟨0, 0, true, 1, 1, true⟩, ⟨1, 0, false, 0, 1, true⟩, ⟨2, 0, false, 1, 2, true⟩, ⟨3, 0, true, 0, 1, true⟩]
    = some (7/11) := by decide +kernel

/-- monotone pattern over two variables, strictly nested -/
def exM : List MRow := [⟨0, [true, true]⟩, ⟨1, [true, true]⟩, ⟨2, [true, false]⟩, ⟨3, [false, false]⟩]
def exD : Nat → Nat → Option ℚ := fun j _ => if j = 0 then some (3/4) else some (2/3)
example : Monotone exM 2 := by
  intro r hr j hj
  have : j = 0 := by omega
  subst this
  simp only [exM, List.mem_cons, List.not_mem_nil, or_false] at hr
  rcases hr with rfl | rfl | rfl | rfl <;> simp [obsAt]
example : pairUniform exM 1 = false ∧ overallUniform exM 2 = false := by decide
example : (ipmw exM 2 false exD exD).toOption.map (fun o => (o.weights, o.plan))
    = some ([some 2, some 2, none, none], [(0, [0, 1, 2, 3]), (1, [0, 1, 2])]) := by decide +kernel
-- the saturated fits of that data set (one stratum): 3 of 4 observed on V₀, 2 of those 3 on V₁; weights sum to 4
example : (3/4 : ℚ) * cntS exM (fun _ => 0) 0 = cntObs exM (fun _ => 0) 0 0 ∧
    (2/3 : ℚ) * cntObs exM (fun _ => 0) 0 0 = cntObs exM (fun _ => 0) 1 0 ∧ cntObs (F := ℚ) exM (fun _ => 0) 1 0 ≠ 0 := by
  norm_num [cntS, cntObs, exM, sumBy, obsAt]
/-- a uniform pair: the second variable is missing exactly where the first is -/
def exU : List MRow := [⟨0, [true, true]⟩, ⟨1, [false, false]⟩, ⟨2, [true, true]⟩]
example : pairUniform exU 1 = true ∧ (ipmw exU 2 false exD exD).toOption.map (fun o => (o.weights, o.plan))
    = some ([some (4/3), none, some (4/3)], [(0, [0, 1, 2])]) := by decide +kernel

/-- a long table given unsorted: subjects 3, 5, 7; maximum time 2 -/
def exL : List (Rec ℚ) := [⟨0, 7, 2, false⟩, ⟨1, 3, 1, false⟩, ⟨2, 7, 1, false⟩, ⟨3, 3, 2, true⟩, ⟨4, 5, 1, false⟩]
example : exL.Pairwise (fun a b => recKey a ≠ recKey b) := by decide +kernel
example : (prepLong exL).toOption.map (fun p => (p.rows.map (·.lab), p.unc))
    = some ([1, 3, 4, 2, 0], [true, true, false, true, true]) := by decide +kernel
example : Ipcw.weights (sortRecs exL) (fun _ => (1/2 : ℚ)) (fun i => if i = 0 then 1/4 else 1/3)
    = [3/2, 9/4, 3/2, 3/2, 3] := by decide +kernel
/-- flat input: follow-up 5/2 without event, 2 with event -/
example : (prepFlat [(⟨0, 9, 5/2, 2, false⟩ : Flat ℚ), ⟨1, 4, 2, 2, true⟩]).toOption.map
      (fun p => (p.1.map (fun e => (e.r.id, e.tenter, e.r.time, e.r.event)), p.2))
    = some ([(4, 0, 1, false), (4, 1, 2, true), (9, 0, 1, false), (9, 1, 2, false), (9, 2, 5/2, false)],
            [true, true, true, true, true]) := by decide +kernel

end ZV.P05
