/-
C04 — Cross-fit estimators never predict for a row with a model trained on that row.

Subject: `ZV.Crossfit` (Model/Crossfit.lean), the definitions the native driver executes:
`sampleSplit` (= `_sample_split_`), `pairIdx` (= the pairing lists `[i-1 …]`, `[i-2 …]` with Python's
negative indexing), `schedule` (= the fit / predict calls of `_single_crossfit_`).
The only assumption is on the external `DataFrame.sample` (`GoodPick`): a draw of `m ≤ |remainder|` rows
returns `m` distinct members of the remainder (measured by gate H on every explored case).

Not carried by a theorem (labelled, tested on the implementation by gate D): determinism for a fixed
`random_state` (the model is a pure function of `pick`; that pandas / numpy RNG streams are reproducible
is an external fact), and that `copy.deepcopy` yields independent learner objects (Python aliasing; the
spy learners of gates K / D observe it).
-/
import ZepidVerif.Model.Crossfit
import Mathlib.Data.List.Nodup
import Mathlib.Tactic.Linarith
set_option linter.unusedSectionVars false
set_option linter.unusedVariables false
namespace ZV.P04
open ZV.Crossfit

/-- assumed behaviour of `DataFrame.sample(n = m)` without replacement -/
def GoodPick (pick : List Nat → Nat → List Nat) : Prop :=
  ∀ rem m, rem.Nodup → m ≤ rem.length → (pick rem m).length = m ∧ (pick rem m).Nodup ∧ ∀ x ∈ pick rem m, x ∈ rem

/-! ### helper lemmas (not obligations) -/

private lemma remove_perm {rem s : List Nat} (hr : rem.Nodup) (hs : s.Nodup) (hsub : ∀ x ∈ s, x ∈ rem) :
    (s ++ remove rem s).Perm rem := by
  have h1 : (rem.filter (fun r => s.contains r) ++ rem.filter (fun r => !s.contains r)).Perm rem :=
    List.filter_append_perm _ rem
  have h2 : s.Perm (rem.filter (fun r => s.contains r)) := by
    rw [List.perm_ext_iff_of_nodup hs (hr.filter _)]
    intro a
    simp only [List.mem_filter, List.contains_iff_mem]
    constructor
    · intro ha; exact ⟨hsub a ha, ha⟩
    · intro ha; exact ha.2
  exact (List.Perm.append_right _ h2).trans h1

private lemma splitGo_spec (pick : List Nat → Nat → List Nat) (hp : GoodPick pick) (m : Nat) :
    ∀ (t : Nat) (rem : List Nat), rem.Nodup → t * m ≤ rem.length →
      (splitGo pick m t rem).flatten.Perm rem ∧
      (splitGo pick m t rem).map List.length = List.replicate t m ++ [rem.length - t * m] := by
  intro t
  induction t with
  | zero => intro rem _ _; simp [splitGo]
  | succ t ih =>
    intro rem hr hlen
    have hm : m ≤ rem.length := by
      have : m ≤ (t + 1) * m := Nat.le_mul_of_pos_left m (Nat.succ_pos t)
      omega
    obtain ⟨hl, hnd, hsub⟩ := hp rem m hr hm
    have hperm := remove_perm hr hnd hsub
    have hr' : (remove rem (pick rem m)).Nodup := hr.filter _
    have hlen' : (remove rem (pick rem m)).length = rem.length - m := by
      have := hperm.length_eq
      simp only [List.length_append, hl] at this
      omega
    have hle : t * m ≤ (remove rem (pick rem m)).length := by
      rw [hlen']; have : (t + 1) * m = t * m + m := Nat.succ_mul t m
      omega
    obtain ⟨ih1, ih2⟩ := ih (remove rem (pick rem m)) hr' hle
    constructor
    · simp only [splitGo, List.flatten_cons]
      exact (List.Perm.append_left _ ih1).trans hperm
    · simp only [splitGo, List.map_cons, ih2, hl, hlen', List.replicate_succ, List.cons_append]
      have : (t + 1) * m = t * m + m := Nat.succ_mul t m
      have e : rem.length - m - t * m = rem.length - (t + 1) * m := by omega
      rw [e]

/-! ### Property theorems -/

/-- **Splits partition the analysed rows** (`_sample_split_`).  For every row set without repeated
    identifiers, every `k ≥ 1` and every chooser behaving like sampling without replacement, the `k` parts are
    pairwise disjoint, free of repeats, together a permutation of the rows (disjoint + exhaustive), the first
    `k - 1` have `⌊n/k⌋` rows and the last has `⌊n/k⌋ + n mod k` (near-equal: the excess is `< k`). -/
theorem split_partition (pick : List Nat → Nat → List Nat) (hp : GoodPick pick) (rows : List Nat)
    (hr : rows.Nodup) (k : Nat) (hk : 1 ≤ k) :
    (sampleSplit pick rows k).length = k ∧
    (sampleSplit pick rows k).flatten.Perm rows ∧
    (sampleSplit pick rows k).Pairwise List.Disjoint ∧
    (∀ s ∈ sampleSplit pick rows k, s.Nodup) ∧
    (sampleSplit pick rows k).map List.length =
      List.replicate (k - 1) (rows.length / k) ++ [rows.length / k + rows.length % k] ∧
    rows.length % k < k := by
  have hle : (k - 1) * (rows.length / k) ≤ rows.length := by
    calc (k - 1) * (rows.length / k) ≤ k * (rows.length / k) := Nat.mul_le_mul_right _ (Nat.sub_le k 1)
      _ ≤ rows.length := Nat.mul_div_le _ _
  obtain ⟨h1, h2⟩ := splitGo_spec pick hp (rows.length / k) (k - 1) rows hr hle
  have hnd : (sampleSplit pick rows k).flatten.Nodup := (h1.nodup_iff).mpr hr
  have hlast : rows.length - (k - 1) * (rows.length / k) = rows.length / k + rows.length % k := by
    have hdm := Nat.div_add_mod rows.length k
    have : k * (rows.length / k) = (k - 1) * (rows.length / k) + rows.length / k := by
      obtain ⟨j, rfl⟩ : ∃ j, k = j + 1 := ⟨k - 1, by omega⟩
      simp only [Nat.add_sub_cancel]; exact Nat.succ_mul j _
    omega
  refine ⟨?_, h1, ?_, ?_, ?_, Nat.mod_lt _ hk⟩
  · have := congrArg List.length h2
    simp only [List.length_map, List.length_append, List.length_replicate, List.length_singleton] at this
    unfold sampleSplit; omega
  · exact (List.nodup_flatten.mp hnd).2
  · exact (List.nodup_flatten.mp hnd).1
  · unfold sampleSplit; rw [h2, hlast]

example : GoodPick (fun rem m => rem.take m) := by
  intro rem m hr hm
  exact ⟨by simp [hm], hr.sublist (List.take_sublist m rem), fun x hx => List.mem_of_mem_take hx⟩

/-- non-vacuity of `split_partition`: 11 rows, 3 parts, a chooser that takes every other remaining row -/
example : sampleSplit (fun rem m => (rem.zipIdx.filter (fun p => p.2 % 2 == 1)).map (·.1) |>.take m)
    (List.range 11) 3 = [[1, 3, 5], [2, 6, 8], [0, 4, 7, 9, 10]] := by decide

/-- **The hypothesis `rows.Nodup` of `split_partition` cannot be dropped (round 4).**  `_sample_split_` removes the
    rows it has drawn BY LABEL (`index.difference`): on a frame whose labels repeat -- two extracts stacked with
    `pd.concat`, labels `0, 1, 0, 2` -- the first draw of `[0, 1]` takes the other row labelled `0` out of the
    remainder as well, and the parts no longer cover the rows.  This is why the estimators must hand over a frame
    with fresh labels (`check_input_data` ends in `reset_index()`); gate K measures the hypothesis on every call of
    `_sample_split_` the implementation makes (`labels handed to _sample_split_ are pairwise distinct`), and gate D
    feeds frames with repeated labels and with exact duplicates of records. -/
theorem split_labels_must_be_distinct :
    ∃ (pick : List Nat → Nat → List Nat) (rows : List Nat) (k : Nat),
      GoodPick pick ∧ 1 ≤ k ∧ ¬ (sampleSplit pick rows k).flatten.Perm rows := by
  refine ⟨fun rem m => rem.take m, [0, 1, 0, 2], 2, ?_, by omega, ?_⟩
  · intro rem m hr hm
    exact ⟨by simp [hm], hr.sublist (List.take_sublist m rem), fun x hx => List.mem_of_mem_take hx⟩
  · intro h
    have := h.length_eq
    revert this
    decide

/-- **Pairing never selects the model trained on the split being predicted.**
    `models[i - 1]` for `0 ≤ i < k`, `k ≥ 2` (all four estimators, treatment model; outcome model of the
    single cross-fit estimators). -/
theorem pairing_ne (k i : Nat) (hk : 2 ≤ k) (hi : i < k) :
    pairIdx k i 1 < k ∧ pairIdx k i 1 ≠ i := by
  unfold pairIdx
  refine ⟨Nat.mod_lt _ (by omega), ?_⟩
  rcases Nat.eq_zero_or_pos i with h0 | hpos
  · subst h0
    rw [Nat.zero_add, Nat.mod_eq_of_lt (by omega)]; omega
  · have e : i + k - 1 = (i - 1) + k := by omega
    rw [e, Nat.add_mod_right, Nat.mod_eq_of_lt (by omega)]; omega

/-- **Double cross-fit: three different splits.**  For `k ≥ 3` the split predicted (`i`), the split the
    treatment model was trained on (`i - 1`) and the split the outcome model was trained on (`i - 2`) are
    pairwise different. -/
theorem pairing_double (k i : Nat) (hk : 3 ≤ k) (hi : i < k) :
    pairIdx k i 2 < k ∧ pairIdx k i 2 ≠ i ∧ pairIdx k i 1 ≠ i ∧ pairIdx k i 1 ≠ pairIdx k i 2 := by
  have h1 := pairing_ne k i (by omega) hi
  unfold pairIdx at *
  have hlt : (i + k - 2) % k < k := Nat.mod_lt _ (by omega)
  have v2 : (i + k - 2) % k = if 2 ≤ i then i - 2 else i + k - 2 := by
    split
    · have e : i + k - 2 = (i - 2) + k := by omega
      rw [e, Nat.add_mod_right, Nat.mod_eq_of_lt (by omega)]
    · rw [Nat.mod_eq_of_lt (by omega)]
  have v1 : (i + k - 1) % k = if 1 ≤ i then i - 1 else i + k - 1 := by
    split
    · have e : i + k - 1 = (i - 1) + k := by omega
      rw [e, Nat.add_mod_right, Nat.mod_eq_of_lt (by omega)]
    · rw [Nat.mod_eq_of_lt (by omega)]
  refine ⟨hlt, ?_, h1.2, ?_⟩
  · rw [v2]; split <;> omega
  · rw [v1, v2]; split <;> split <;> omega

example : (List.range 5).map (fun i => (pairIdx 5 i 1, pairIdx 5 i 2)) =
    [(4, 3), (0, 4), (1, 0), (2, 1), (3, 2)] := by decide

/-! helper lemmas on the call sequence -/

private lemma findSome_zipIdx (S : List (List Nat)) (j : Nat) : ∀ a,
    (S.zipIdx a).findSome? (fun p => if p.2 = j then some p.1 else none) =
      if a ≤ j then S[j - a]? else none := by
  induction S with
  | nil => intro a; simp
  | cons x xs ih =>
    intro a
    simp only [List.zipIdx_cons, List.findSome?_cons]
    by_cases h : a = j
    · subst h; simp
    · simp only [h, if_false, ih (a + 1)]
      by_cases h2 : a ≤ j
      · have h3 : a + 1 ≤ j := by omega
        have e : j - a = (j - (a + 1)) + 1 := by omega
        simp only [h2, h3, if_true, e, List.getElem?_cons_succ]
      · have h3 : ¬ a + 1 ≤ j := by omega
        simp only [h2, h3, if_false]

private lemma trainOf_fitEvents_same (nu : Nuis) (S : List (List Nat)) (j : Nat) :
    (fitEvents nu S).findSome? (fitRows nu j) = S[j]? := by
  unfold fitEvents
  rw [List.findSome?_map]
  have : (fitRows nu j ∘ fun p : List Nat × Nat => Ev.fit nu p.2 p.1) =
      fun p => if p.2 = j then some p.1 else none := by
    funext p; simp [fitRows]
  rw [this, findSome_zipIdx S j 0]; simp

private lemma trainOf_fitEvents_other (nu nu' : Nuis) (h : nu' ≠ nu) (S : List (List Nat)) (j : Nat) :
    (fitEvents nu' S).findSome? (fitRows nu j) = none := by
  unfold fitEvents
  rw [List.findSome?_map, List.findSome?_eq_none_iff]
  intro p _; simp [fitRows, h]

private lemma trainOf_preds (nu : Nuis) (j : Nat) (k dA dY : Nat) (L : List (List Nat × Nat)) :
    (L.flatMap (predEvents k dA dY)).findSome? (fitRows nu j) = none := by
  rw [List.findSome?_eq_none_iff]
  intro e he
  obtain ⟨p, _, hp⟩ := List.mem_flatMap.mp he
  simp only [predEvents, List.mem_cons, List.mem_nil_iff, or_false] at hp
  rcases hp with rfl | rfl | rfl <;> rfl

/-- in the call sequence, copy `(nu, j)` was trained on split `j` (and on nothing else) -/
theorem trainOf_schedule (double : Bool) (S : List (List Nat)) (nu : Nuis) (j : Nat) :
    trainOf (schedule double S) nu j = S[j]? := by
  unfold trainOf schedule
  rw [List.findSome?_append, List.findSome?_append, trainOf_preds]
  cases nu
  · rw [trainOf_fitEvents_same, trainOf_fitEvents_other _ _ (by decide)]; simp
  · rw [trainOf_fitEvents_same, trainOf_fitEvents_other _ _ (by decide)]; simp

private lemma mem_schedule_pred {double : Bool} {S : List (List Nat)} {nu : Nuis} {j arm : Nat} {rs : List Nat}
    (h : Ev.pred nu j arm rs ∈ schedule double S) :
    ∃ i, ∃ hi : i < S.length, rs = S[i] ∧
      ((nu = .trt ∧ arm = 0 ∧ j = pairIdx S.length i 1) ∨
       (nu = .out ∧ (arm = 1 ∨ arm = 2) ∧ j = pairIdx S.length i (outOffset double))) := by
  unfold schedule at h
  simp only [List.mem_append] at h
  rcases h with (h | h) | h
  · simp [fitEvents] at h
  · simp [fitEvents] at h
  · obtain ⟨p, hp, he⟩ := List.mem_flatMap.mp h
    have hp' := List.mem_zipIdx_iff_getElem?.mp hp
    obtain ⟨hi, hx⟩ := List.getElem?_eq_some_iff.mp hp'
    refine ⟨p.2, hi, ?_⟩
    simp only [predEvents, List.mem_cons, List.mem_nil_iff, or_false, Ev.pred.injEq] at he
    rcases he with ⟨rfl, rfl, rfl, rfl⟩ | ⟨rfl, rfl, rfl, rfl⟩ | ⟨rfl, rfl, rfl, rfl⟩
    · exact ⟨hx.symm, Or.inl ⟨rfl, rfl, rfl⟩⟩
    · exact ⟨hx.symm, Or.inr ⟨rfl, Or.inl rfl, rfl⟩⟩
    · exact ⟨hx.symm, Or.inr ⟨rfl, Or.inr rfl, rfl⟩⟩

private lemma disjoint_of_ne {S : List (List Nat)} (hd : S.Pairwise List.Disjoint) {i j : Nat}
    (hi : i < S.length) (hj : j < S.length) (hne : j ≠ i) : List.Disjoint S[i] S[j] := by
  rw [List.pairwise_iff_getElem] at hd
  rcases Nat.lt_or_gt_of_ne hne with h | h
  · exact fun a ha hb => hd j i hj hi h hb ha
  · exact hd i j hi hj h

/-- **No leak.**  For pairwise disjoint parts and `n_splits` accepted by `fit` (≥ 2 single, ≥ 3 double), every
    prediction call in the call sequence is answered by a copy whose training rows exist (it was fitted) and
    contain none of the rows it is asked to predict. -/
theorem no_leak (double : Bool) (S : List (List Nat)) (hd : S.Pairwise List.Disjoint)
    (hk : minSplits double ≤ S.length) (nu : Nuis) (j arm : Nat) (rs : List Nat)
    (h : Ev.pred nu j arm rs ∈ schedule double S) :
    ∃ tr, trainOf (schedule double S) nu j = some tr ∧ ∀ r ∈ rs, r ∉ tr := by
  obtain ⟨i, hi, hrs, hcase⟩ := mem_schedule_pred h
  have hk2 : 2 ≤ S.length := by unfold minSplits at hk; split at hk <;> omega
  have hj : j < S.length ∧ j ≠ i := by
    rcases hcase with ⟨_, _, rfl⟩ | ⟨_, _, rfl⟩
    · exact pairing_ne _ _ hk2 hi
    · cases double
      · exact pairing_ne _ _ hk2 hi
      · have hk3 : 3 ≤ S.length := by simpa [minSplits] using hk
        have := pairing_double _ _ hk3 hi
        exact ⟨this.1, this.2.1⟩
  refine ⟨S[j]'hj.1, ?_, ?_⟩
  · rw [trainOf_schedule]; exact List.getElem?_eq_getElem hj.1
  · intro r hr hr'
    rw [hrs] at hr
    exact disjoint_of_ne hd hi hj.1 hj.2 hr hr'

/-- the boolean checker (the predicate gate D evaluates on observed call sequences) accepts the schedule -/
theorem schedule_leakFree (double : Bool) (S : List (List Nat)) (hd : S.Pairwise List.Disjoint)
    (hk : minSplits double ≤ S.length) : leakFree (schedule double S) = true := by
  unfold leakFree
  rw [List.all_eq_true]
  intro e he
  cases e with
  | fit nu j rows => rfl
  | pred nu j arm rs =>
    obtain ⟨tr, htr, hdis⟩ := no_leak double S hd hk nu j arm rs he
    simp only [htr, List.all_eq_true, Bool.not_eq_true', List.contains_eq_mem, decide_eq_false_iff_not]
    exact hdis

/-- **Every row is predicted exactly once per nuisance quantity**: the rows sent to the treatment copies
    (`arm = 0`) and to the outcome copies with exposure set to 1 (`arm = 1`) and to 0 (`arm = 2`) are, in call
    order, exactly the concatenation of the parts. -/
theorem predicted_once (double : Bool) (S : List (List Nat)) :
    predictedRows (schedule double S) .trt 0 = S.flatten ∧
    predictedRows (schedule double S) .out 1 = S.flatten ∧
    predictedRows (schedule double S) .out 2 = S.flatten := by
  have key : ∀ nu arm, (nu = .trt ∧ arm = 0) ∨ (nu = .out ∧ (arm = 1 ∨ arm = 2)) →
      predictedRows (schedule double S) nu arm = S.flatten := by
    intro nu arm hna
    unfold predictedRows schedule
    rw [List.flatMap_append, List.flatMap_append]
    have hf : ∀ nu', (fitEvents nu' S).flatMap (predRows nu arm) = [] := by
      intro nu'
      rw [List.flatMap_eq_nil_iff]
      intro e he
      simp only [fitEvents, List.mem_map] at he
      obtain ⟨p, _, rfl⟩ := he
      rfl
    rw [hf, hf, List.nil_append, List.nil_append, List.flatMap_assoc]
    have : ∀ p : List Nat × Nat,
        (predEvents S.length 1 (outOffset double) p).flatMap (predRows nu arm) = p.1 := by
      intro p
      rcases hna with ⟨rfl, rfl⟩ | ⟨rfl, rfl | rfl⟩ <;> simp [predEvents, predRows]
    simp only [this]
    rw [List.flatMap_def, List.zipIdx_map_fst]
  exact ⟨key _ _ (Or.inl ⟨rfl, rfl⟩), key _ _ (Or.inr ⟨rfl, Or.inl rfl⟩), key _ _ (Or.inr ⟨rfl, Or.inr rfl⟩)⟩

/-- **Double cross-fit: the two nuisance models used for a part were fitted on two different parts**, both
    different from the part predicted, and (parts being disjoint) sharing no row. -/
theorem double_models_differ (S : List (List Nat)) (hd : S.Pairwise List.Disjoint) (hk : 3 ≤ S.length)
    (i : Nat) (hi : i < S.length) :
    ∃ (ha : pairIdx S.length i 1 < S.length) (hy : pairIdx S.length i 2 < S.length),
      Ev.pred .trt (pairIdx S.length i 1) 0 S[i] ∈ schedule true S ∧
      Ev.pred .out (pairIdx S.length i 2) 1 S[i] ∈ schedule true S ∧
      Ev.pred .out (pairIdx S.length i 2) 2 S[i] ∈ schedule true S ∧
      trainOf (schedule true S) .trt (pairIdx S.length i 1) = some S[pairIdx S.length i 1] ∧
      trainOf (schedule true S) .out (pairIdx S.length i 2) = some S[pairIdx S.length i 2] ∧
      pairIdx S.length i 1 ≠ pairIdx S.length i 2 ∧
      List.Disjoint S[pairIdx S.length i 1] S[pairIdx S.length i 2] := by
  have h1 := pairing_ne _ _ (by omega) hi
  have h2 := pairing_double _ _ hk hi
  have hmem : (S[i], i) ∈ S.zipIdx := List.mem_zipIdx_iff_getElem?.mpr (List.getElem?_eq_getElem hi)
  have hin : ∀ e ∈ predEvents S.length 1 2 (S[i], i), e ∈ schedule true S := by
    intro e he
    unfold schedule
    exact List.mem_append_right _ (List.mem_flatMap.mpr ⟨_, hmem, by simpa [outOffset] using he⟩)
  refine ⟨h1.1, h2.1, hin _ (by simp [predEvents]), hin _ (by simp [predEvents]), hin _ (by simp [predEvents]),
    ?_, ?_, h2.2.2.2, disjoint_of_ne hd h1.1 h2.1 (Ne.symm h2.2.2.2)⟩
  · rw [trainOf_schedule]; exact List.getElem?_eq_getElem h1.1
  · rw [trainOf_schedule]; exact List.getElem?_eq_getElem h2.1

/-- **End-to-end statement for one partition** of any of the four estimators: `n_splits` below the minimum is
    rejected; otherwise the analysed rows are split into `k` disjoint, exhaustive, near-equal parts, the call
    sequence never asks a copy about a row it was trained on, and every row is predicted exactly once per
    nuisance quantity (the predicted rows are a permutation of the analysed rows). -/
theorem crossfit_sound (double : Bool) (pick : List Nat → Nat → List Nat) (hp : GoodPick pick)
    (rows : List Nat) (hr : rows.Nodup) (k : Nat) :
    (k < minSplits double → crossfit double pick rows k = none) ∧
    (minSplits double ≤ k → ∃ S evs, crossfit double pick rows k = some (S, evs) ∧
      S.length = k ∧ S.flatten.Perm rows ∧ S.Pairwise List.Disjoint ∧
      S.map List.length = List.replicate (k - 1) (rows.length / k) ++ [rows.length / k + rows.length % k] ∧
      leakFree evs = true ∧
      (predictedRows evs .trt 0).Perm rows ∧ (predictedRows evs .out 1).Perm rows ∧
      (predictedRows evs .out 2).Perm rows) := by
  constructor
  · intro h; simp [crossfit, h]
  · intro h
    have hk1 : 1 ≤ k := by unfold minSplits at h; split at h <;> omega
    obtain ⟨h1, h2, h3, _, h5, _⟩ := split_partition pick hp rows hr k hk1
    obtain ⟨p1, p2, p3⟩ := predicted_once double (sampleSplit pick rows k)
    refine ⟨sampleSplit pick rows k, schedule double (sampleSplit pick rows k), ?_, h1, h2, h3, h5,
      schedule_leakFree double _ h3 (by rw [h1]; exact h), ?_, ?_, ?_⟩
    · simp [crossfit, Nat.not_lt.mpr h]
    · rw [p1]; exact h2
    · rw [p2]; exact h2
    · rw [p3]; exact h2

/-- non-vacuity: the double cross-fit call sequence for 7 rows in 3 parts, and the checker rejects a
    sequence in which a copy predicts its own training rows -/
example : (crossfit true (fun rem m => rem.take m) (List.range 7) 3).map (·.2) = some
    [.fit .trt 0 [0, 1], .fit .trt 1 [2, 3], .fit .trt 2 [4, 5, 6],
     .fit .out 0 [0, 1], .fit .out 1 [2, 3], .fit .out 2 [4, 5, 6],
     .pred .trt 2 0 [0, 1], .pred .out 1 1 [0, 1], .pred .out 1 2 [0, 1],
     .pred .trt 0 0 [2, 3], .pred .out 2 1 [2, 3], .pred .out 2 2 [2, 3],
     .pred .trt 1 0 [4, 5, 6], .pred .out 0 1 [4, 5, 6], .pred .out 0 2 [4, 5, 6]] := by decide
example : leakFree [.fit .trt 0 [0, 1], .fit .trt 1 [2, 3], .pred .trt 0 0 [1]] = false := by decide
example : crossfit true (fun rem m => rem.take m) (List.range 7) 2 = none := by decide

end ZV.P04
